/-
  C04: the inversion theorem of the text-template reader, old syntax (`#cmd value` lines).
  Same route as `TmplInv.lean`: the run of text / `${…}` tokens between two directive lines is one
  text token of the scanner; the scanner round trip is `scan_old_print_raw`; a directive line is
  split by `splitLine` into command and value (the value keeps its line feed, which the tokenizer
  skips).  The side condition adds the line discipline of the old syntax: a directive starts a line
  (`lineStarts`: at the start of the template, behind another directive line, or behind a text ending
  in a line feed — what `gen_templates.fix_old` establishes), and `#` does not occur in texts.
-/
import Genshi.Lemmas.TmplInv
import Genshi.Lemmas.TmplScanOldRT
namespace Genshi.Tmpl.Print
open Genshi.Tmpl.Raw Genshi.Tmpl.Scan
open Genshi.Py.Lex (unmodelled)

/-! ### the tokenizer skips the line feed that ends a directive line -/

theorem step_nl (f : Nat) (rest : Str) (acc : List MTok) :
    tokGo (f + 1) ('\n' :: rest) acc = tokGo f rest acc := by
  rw [tokGo_cons]
  simp only [show isWs '\n' = true by decide, if_true]

theorem glue_nl (a : MTok) (rest : Str) : glue a ('\n' :: rest) := by
  intro c hc
  simp only [List.head?_cons, Option.some.injEq] at hc
  subst hc
  cases a <;> simp only [glueC] <;> intros <;> decide

theorem tokGo_print_nl : ∀ (ts : List MTok), ts.all tokOk = true → ∀ (f : Nat) (acc : List MTok),
    (toksSrc ts).length + 2 ≤ f → tokGo f (toksSrc ts ++ ['\n']) acc = some (acc.reverse ++ ts)
  | [], _, f, acc, hf => by
      obtain ⟨f, rfl⟩ : ∃ g, f = g + 2 := ⟨f - 2, by omega⟩
      simp [toksSrc, step_nl, tokGo]
  | [t], h, f, acc, hf => by
      have ok : tokOk t = true := by simpa using h
      have hl := tokSrc_len_pos t ok
      simp only [toksSrc] at hf ⊢
      obtain ⟨f, rfl⟩ : ∃ g, f = g + 3 := ⟨f - 3, by omega⟩
      rw [step_tok t ok (f + 2) ['\n'] acc (glue_nl t []), step_nl]
      simp [tokGo]
  | a :: b :: r, h, f, acc, hf => by
      simp only [List.all_cons, Bool.and_eq_true] at h
      obtain ⟨oka, okb, okr⟩ := h
      have ih := tokGo_print_nl (b :: r) (by simp [okb, okr])
      have hl := tokSrc_len_pos a oka
      simp only [toksSrc, List.length_append] at hf ⊢
      cases hs : sep a b with
      | true =>
          simp only [hs, if_true, List.length_cons, List.length_nil] at hf ⊢
          obtain ⟨f, rfl⟩ : ∃ g, f = g + 2 := ⟨f - 2, by omega⟩
          rw [List.append_assoc, List.append_assoc, List.singleton_append,
            step_tok a oka (f + 1) _ acc (glue_blank a _), step_blank, ih f (a :: acc) (by omega)]
          simp
      | false =>
          simp only [hs, Bool.false_eq_true, if_false, List.length_nil, List.nil_append] at hf ⊢
          obtain ⟨f, rfl⟩ : ∃ g, f = g + 1 := ⟨f - 1, by omega⟩
          obtain ⟨c, s, e⟩ := tokSrc_cons b okb
          have hg : glue a (toksSrc (b :: r) ++ ['\n']) := by
            intro c' hc'
            have hh : (toksSrc (b :: r) ++ ['\n']).head? = some c := by
              have := toksSrc_head e r
              cases hx : toksSrc (b :: r) with
              | nil => rw [hx] at this; simp at this
              | cons x xs => rw [hx] at this; simpa using this
            rw [hh] at hc'
            cases hc'
            exact glue_sep a b okb hs e
          rw [List.append_assoc, step_tok a oka f _ acc hg, ih f (a :: acc) (by omega)]
          simp

theorem tokenize_print_nl (ts : List MTok) (h : ts.all tokOk = true) :
    tokenize (toksSrc ts ++ ['\n']) = some ts := by
  unfold tokenize
  rw [tokGo_print_nl ts h _ [] (by simp)]
  simp

theorem readDir_print_nl (st : Bool) (d : Dir) (h : dirOk st d = true) :
    readDir st d.name (dirSrc d ++ ['\n']) = some d := by
  unfold readDir dirSrc
  rw [tokenize_print_nl _ (dirToks_ok st d h)]
  exact readDirToks_print st d h

/-! ### the flat printer of the old syntax -/

theorem ttoksOld_append : ∀ (a b : List TTok), ttoksOld (a ++ b) = ttoksOld a ++ ttoksOld b
  | [], _ => rfl
  | t :: a, b => by simp [ttoksOld, ttoksOld_append a b]

theorem ttoksOld_pieces : ∀ (pt : List TTok), pt.all isPiece = true → ttoksOld pt = ttoksNew pt
  | [], _ => rfl
  | .text s :: r, h => by
      simp only [List.all_cons, Bool.and_eq_true] at h
      simp [ttoksOld, ttokOld, ttoksNew, ttokNew, ttoksOld_pieces r h.2]
  | .xexpr x :: r, h => by
      simp only [List.all_cons, Bool.and_eq_true] at h
      simp [ttoksOld, ttokOld, ttoksNew, ttokNew, ttoksOld_pieces r h.2]
  | .dir _ :: _, h => by simp [isPiece] at h
  | .end_ :: _, h => by simp [isPiece] at h

mutual
  theorem nodeOld_flat : ∀ (n : TNode), nodeOld n = ttoksOld (toToks n)
    | .text s => by simp [nodeOld, toToks, ttoksOld, ttokOld]
    | .expr x => by simp [nodeOld, toToks, ttoksOld, ttokOld]
    | .elem _ _ _ _ => by simp [nodeOld, toToks, ttoksOld]
    | .delem d kids => by
        simp only [nodeOld, toToks, ttoksOld, ttokOld, ttoksOld_append, nodesOld_flat kids]
        simp
  theorem nodesOld_flat : ∀ (ns : List TNode), nodesOld ns = ttoksOld (toTokss ns)
    | [] => rfl
    | n :: ns => by simp only [nodesOld, toTokss, ttoksOld_append, nodeOld_flat n, nodesOld_flat ns]
end

/-! ### grouping -/

def lineBody (cmd val : Str) : Str := cmd ++ (if val.isEmpty then [] else ' ' :: val)

theorem oldLine_eq (cmd val : Str) : oldLine cmd val = '#' :: (lineBody cmd val ++ ['\n']) := by
  simp [oldLine, lineBody]

def flushO (pt : List TTok) : List OCTok := if pt.isEmpty then [] else [.text (ttoksNew pt)]

def grpOld : List TTok → List TTok → List OCTok
  | pt, [] => flushO pt
  | pt, .text s :: r => grpOld (pt ++ [.text s]) r
  | pt, .xexpr x :: r => grpOld (pt ++ [.xexpr x]) r
  | pt, .dir d :: r => flushO pt ++ .line [] (lineBody d.name (dirSrc d)) :: grpOld [] r
  | pt, .end_ :: r => flushO pt ++ .line [] (lineBody kwEnd []) :: grpOld [] r

theorem escapeOld_id : ∀ (s : Str), (∀ c ∈ s, c ≠ '#') → escapeOld s = s
  | [], _ => rfl
  | c :: r, h => by
      have hc := h c (List.mem_cons_self ..)
      simp [escapeOld, hc, escapeOld_id r (fun x hx => h x (List.mem_cons_of_mem _ hx))]

/-- no `#` in a run of pieces -/
theorem pieces_noHash (st : Bool) : ∀ (pt : List TTok), pt.all isPiece = true → pt.all (ttokOk st) = true →
    pt.all noHash = true → ∀ c ∈ ttoksNew pt, c ≠ '#'
  | [], _, _, _ => by simp [ttoksNew]
  | .text s :: r, hp, ho, hn => by
      simp only [List.all_cons, Bool.and_eq_true] at hp ho hn
      intro c hc
      simp only [ttoksNew, ttokNew, List.mem_append] at hc
      rcases hc with hc | hc
      · have := hn.1
        simp only [noHash, List.all_eq_true, bne_iff_ne, ne_eq] at this
        exact this c hc
      · exact pieces_noHash st r hp.2 ho.2 hn.2 c hc
  | .xexpr x :: r, hp, ho, hn => by
      simp only [List.all_cons, Bool.and_eq_true] at hp ho hn
      intro c hc
      simp only [ttoksNew, ttokNew, List.mem_append, List.mem_cons, List.not_mem_nil, or_false] at hc
      rcases hc with (rfl | rfl | hc | rfl) | hc
      · decide
      · decide
      · exact (xexprSrc_chars st x ho.1 c hc).2.2
      · decide
      · exact pieces_noHash st r hp.2 ho.2 hn.2 c hc
  | .dir _ :: _, h, _, _ => by simp [isPiece] at h
  | .end_ :: _, h, _, _ => by simp [isPiece] at h

theorem printOld_append : ∀ (a b : List OCTok), printOld (a ++ b) = printOld a ++ printOld b
  | [], _ => rfl
  | t :: a, b => by simp [printOld, printOld_append a b]

theorem print_flushO (st : Bool) (pt : List TTok) (hp : pt.all isPiece = true) (ho : pt.all (ttokOk st) = true)
    (hn : pt.all noHash = true) : printOld (flushO pt) = ttoksOld pt := by
  rw [ttoksOld_pieces pt hp]
  cases pt with
  | nil => rfl
  | cons t r =>
    simp only [flushO, List.isEmpty_cons, Bool.false_eq_true, if_false, printOld, printOldTok, List.append_nil]
    exact escapeOld_id _ (pieces_noHash st _ hp ho hn)

theorem print_grpOld (st : Bool) : ∀ (ts pt : List TTok), pt.all isPiece = true → (pt ++ ts).all (ttokOk st) = true →
    (pt ++ ts).all noHash = true → printOld (grpOld pt ts) = ttoksOld pt ++ ttoksOld ts
  | [], pt, hp, ho, hn => by
      simp only [List.append_nil] at ho hn
      simp [grpOld, print_flushO st pt hp ho hn, ttoksOld]
  | .text s :: r, pt, hp, ho, hn => by
      have ho' : ((pt ++ [TTok.text s]) ++ r).all (ttokOk st) = true := by simpa using ho
      have hn' : ((pt ++ [TTok.text s]) ++ r).all noHash = true := by simpa using hn
      rw [grpOld, print_grpOld st r (pt ++ [TTok.text s]) (by simp [hp, isPiece]) ho' hn']
      simp [ttoksOld_append, ttoksOld]
  | .xexpr x :: r, pt, hp, ho, hn => by
      have ho' : ((pt ++ [TTok.xexpr x]) ++ r).all (ttokOk st) = true := by simpa using ho
      have hn' : ((pt ++ [TTok.xexpr x]) ++ r).all noHash = true := by simpa using hn
      rw [grpOld, print_grpOld st r (pt ++ [TTok.xexpr x]) (by simp [hp, isPiece]) ho' hn']
      simp [ttoksOld_append, ttoksOld]
  | .dir d :: r, pt, hp, ho, hn => by
      simp only [List.all_append, List.all_cons, Bool.and_eq_true] at ho hn
      rw [grpOld, printOld_append, print_flushO st pt hp ho.1 hn.1, printOld,
        print_grpOld st r [] rfl (by simpa using ho.2.2) (by simpa using hn.2.2)]
      simp [ttoksOld, ttokOld, printOldTok, oldLine_eq]
  | .end_ :: r, pt, hp, ho, hn => by
      simp only [List.all_append, List.all_cons, Bool.and_eq_true] at ho hn
      rw [grpOld, printOld_append, print_flushO st pt hp ho.1 hn.1, printOld,
        print_grpOld st r [] rfl (by simpa using ho.2.2) (by simpa using hn.2.2)]
      simp [ttoksOld, ttokOld, printOldTok, oldLine_eq]

/-! ### the grouped list is well formed -/

theorem name_noNl (d : Dir) : ∀ c ∈ d.name, c ≠ '\n' := by
  intro c hc
  have hw := name_word d c hc
  intro e
  subst e
  exact absurd hw (by decide +kernel)

theorem okLine_dir (st : Bool) (d : Dir) (h : dirOk st d = true) : OkOTok (.line [] (lineBody d.name (dirSrc d))) := by
  refine ⟨by simp, ?_, ?_⟩
  · have hne : d.name ≠ [] := by cases d <;> simp [Dir.name]
    obtain ⟨c0, r, e⟩ := List.exists_cons_of_ne_nil hne
    refine ⟨c0, r ++ (if (dirSrc d).isEmpty then [] else ' ' :: dirSrc d), by simp [lineBody, e], Or.inl ?_⟩
    exact name_word d c0 (by rw [e]; simp)
  · intro c hc
    simp only [lineBody, List.mem_append] at hc
    rcases hc with hc | hc
    · exact name_noNl d c hc
    · split at hc
      · simp at hc
      · simp only [List.mem_cons] at hc
        rcases hc with rfl | hc
        · decide
        · exact (dirSrc_chars st d h c hc).2.2.2

theorem okLine_end : OkOTok (.line [] (lineBody kwEnd [])) := by
  refine ⟨by simp, ⟨'e', ['n', 'd'], by simp [lineBody, kwEnd], Or.inl (by decide +kernel)⟩, ?_⟩
  intro c hc
  simp only [lineBody, kwEnd, List.isEmpty_nil, if_true, List.append_nil, List.mem_cons, List.not_mem_nil, or_false] at hc
  rcases hc with rfl | rfl | rfl <;> decide

/-- a flushed run in front of a directive line -/
theorem wfo_flush_line (st : Bool) (pt : List TTok) (hp : pt.all isPiece = true) (ho : pt.all (ttokOk st) = true)
    (hnl : pt ≠ [] → endsNl (ttoksNew pt) = true)
    (b body : Str) (X : List OCTok) (hd : OkOTok (.line b body)) (hX : WFOld X) :
    WFOld (flushO pt ++ .line b body :: X) := by
  have hdX : WFOld (OCTok.line b body :: X) := ⟨hd, hX, fun s e => by cases e⟩
  cases pt with
  | nil => exact hdX
  | cons t r =>
    simp only [flushO, List.isEmpty_cons, Bool.false_eq_true, if_false, List.singleton_append]
    refine ⟨pieces_ne_nil st _ (by simp) hp ho, hdX, ?_⟩
    intro s e u hu
    cases e
    simp only [List.head?_cons, Option.some.injEq] at hu
    subst hu
    have := hnl (by simp)
    simp only [endsNl, beq_iff_eq] at this
    exact ⟨⟨b, body, rfl⟩, this⟩

theorem endsNl_snoc_text (a : Str) (s : Str) (hs : s ≠ []) : endsNl (a ++ s) = endsNl s := by
  simp only [endsNl, getLast?_append_ne (a := a) hs]

theorem wf_grpOld (st : Bool) : ∀ (ts pt : List TTok) (bol : Bool), pt.all isPiece = true →
    (pt ++ ts).all (ttokOk st) = true → (pt ≠ [] → bol = endsNl (ttoksNew pt)) → lineStarts bol ts = true →
    WFOld (grpOld pt ts)
  | [], pt, _, hp, ho, _, _ => by
      simp only [List.append_nil] at ho
      cases pt with
      | nil => exact trivial
      | cons t r =>
        simp only [grpOld, flushO, List.isEmpty_cons, Bool.false_eq_true, if_false]
        exact ⟨pieces_ne_nil st _ (by simp) hp ho, trivial, fun s _ u hu => by simp at hu⟩
  | .text s :: r, pt, bol, hp, ho, _, hl => by
      rw [grpOld]
      have hs : ttokOk st (.text s) = true := by
        simp only [List.all_append, List.all_cons, Bool.and_eq_true] at ho; exact ho.2.1
      have hsne : s ≠ [] := by
        simp only [ttokOk, textOk, Bool.and_eq_true, Bool.not_eq_true', List.isEmpty_eq_false_iff] at hs; exact hs.1
      apply wf_grpOld st r (pt ++ [TTok.text s]) (endsNl s) (by simp [hp, isPiece]) (by simpa using ho)
      · intro _
        rw [ttoksNew_append]
        simp only [ttoksNew, ttokNew, List.append_nil]
        exact (endsNl_snoc_text _ s hsne).symm
      · simpa [lineStarts] using hl
  | .xexpr x :: r, pt, bol, hp, ho, _, hl => by
      rw [grpOld]
      apply wf_grpOld st r (pt ++ [TTok.xexpr x]) false (by simp [hp, isPiece]) (by simpa using ho)
      · intro _
        rw [ttoksNew_append]
        simp only [ttoksNew, ttokNew, List.append_nil]
        rw [show ('$' :: '{' :: (xexprSrc x ++ ['}'])) = ('$' :: '{' :: xexprSrc x) ++ ['}'] by simp,
          ← List.append_assoc]
        simp only [endsNl, getLast?_append_ne (a := ttoksNew pt ++ '$' :: '{' :: xexprSrc x) (b := ['}']) (by simp)]
        decide
      · simpa [lineStarts] using hl
  | .dir d :: r, pt, bol, hp, ho, hb, hl => by
      simp only [List.all_append, List.all_cons, Bool.and_eq_true] at ho
      simp only [lineStarts, Bool.and_eq_true] at hl
      rw [grpOld]
      exact wfo_flush_line st pt hp ho.1 (fun hne => by rw [← hb hne]; exact hl.1) _ _ _ (okLine_dir st d ho.2.1)
        (wf_grpOld st r [] true rfl (by simpa using ho.2.2) (by simp) hl.2)
  | .end_ :: r, pt, bol, hp, ho, hb, hl => by
      simp only [List.all_append, List.all_cons, Bool.and_eq_true] at ho
      simp only [lineStarts, Bool.and_eq_true] at hl
      rw [grpOld]
      exact wfo_flush_line st pt hp ho.1 (fun hne => by rw [← hb hne]; exact hl.1) _ _ _ okLine_end
        (wf_grpOld st r [] true rfl (by simpa using ho.2.2) (by simp) hl.2)

/-! ### reading the raw tokens of the grouped list -/

theorem edgeCh_not_space {c : Char} (h : edgeCh c = true) : Genshi.San.isSpace c = false := by
  have := edgeCh_range h
  simp [Genshi.San.isSpace, Genshi.San.inRanges, Genshi.Gen.SanClass.spaceRanges]
  omega

theorem dirSrc_head_space (st : Bool) (d : Dir) (h : dirOk st d = true) :
    ∀ c, (dirSrc d).head? = some c → Genshi.San.isSpace c = false :=
  fun c hc => edgeCh_not_space (toksSrc_head_fine (dirToks_bal st d h).fine c hc)

theorem name_noSpace (d : Dir) : ∀ c ∈ d.name, Genshi.San.isSpace c = false := by
  cases d <;> simp only [Dir.name, List.mem_cons, List.not_mem_nil, or_false] <;> intro c hc <;>
    rcases hc with rfl | hc <;> first | decide | skip
  all_goals (repeat (rcases hc with rfl | hc <;> first | decide | skip))
  all_goals first | (subst hc; decide) | skip

/-- `split(None, 1)` of a line without a value -/
theorem splitLine_noval (cmd : Str) (hcmd : ∀ c ∈ cmd, Genshi.San.isSpace c = false) (hne : cmd ≠ []) :
    splitLine [] (cmd ++ ['\n']) = (cmd, none) := by
  obtain ⟨c0, cmd', rfl⟩ := List.exists_cons_of_ne_nil hne
  have hc0 := hcmd c0 (List.mem_cons_self ..)
  have s2 := span_all (p := fun c => !Genshi.San.isSpace c) (c0 :: cmd') ['\n']
    (by intro c hc; simp [hcmd c hc]) (by intro c hc; simp at hc; subst hc; decide)
  have e0 : (c0 :: cmd' ++ ['\n']).dropWhile Genshi.San.isSpace = c0 :: cmd' ++ ['\n'] := by
    simp [List.dropWhile_cons, hc0]
  unfold splitLine
  simp only [List.nil_append, List.dropWhile_cons, show Genshi.San.isSpace '#' = false by decide,
    Bool.false_eq_true, if_false, List.drop_succ_cons, List.drop_zero]
  simp only [e0, s2.1, s2.2]
  simp [List.dropWhile_cons, show Genshi.San.isSpace '\n' = true by decide]

theorem splitLine_dir (st : Bool) (d : Dir) (h : dirOk st d = true) :
    splitLine [] (lineBody d.name (dirSrc d) ++ ['\n']) =
      (d.name, if (dirSrc d).isEmpty then none else some (dirSrc d ++ ['\n'])) := by
  have hne : d.name ≠ [] := by cases d <;> simp [Dir.name]
  cases hv : dirSrc d with
  | nil => simpa [lineBody] using splitLine_noval d.name (name_noSpace d) hne
  | cons v0 vr =>
    have := splitLine_print [] d.name (v0 :: vr) (by simp) (name_noSpace d) hne
      (by rw [← hv]; exact dirSrc_head_space st d h) (by simp)
    simpa [lineBody] using this

theorem old_dir (st : Bool) (d : Dir) (h : dirOk st d = true) :
    (let cv := splitLine [] (lineBody d.name (dirSrc d) ++ ['\n'])
     if cv.1.head? = some '#' then Except.ok []
     else Raw.dirToks st Gen.Directives.oldTextDirectives cv.1 (cv.2.getD [])) = .ok [TTok.dir d] := by
  rw [splitLine_dir st d h]
  have hr1 := readDir_print st d h
  have hr2 := readDir_print_nl st d h
  cases hv : dirSrc d with
  | nil =>
    rw [hv] at hr1
    cases d <;> first
      | (simp [dirOk] at h; done)
      | (simp only [Raw.dirToks, Dir.name, List.isEmpty_nil, if_true, Option.getD_none] at hr1 ⊢; rw [hr1]; rfl)
  | cons v0 vr =>
    rw [hv] at hr2
    cases d <;> first
      | (simp [dirOk] at h; done)
      | (simp only [Raw.dirToks, Dir.name, List.isEmpty_cons, Bool.false_eq_true, if_false, Option.getD_some] at hr2 ⊢
         rw [hr2]; rfl)

theorem old_end (st : Bool) :
    (let cv := splitLine [] (lineBody kwEnd [] ++ ['\n'])
     if cv.1.head? = some '#' then Except.ok []
     else Raw.dirToks st Gen.Directives.oldTextDirectives cv.1 (cv.2.getD [])) = .ok [TTok.end_] := by
  have hs : splitLine [] (lineBody kwEnd [] ++ ['\n']) = (kwEnd, none) := by decide
  simp only [hs]
  rfl

/-- a flushed run reads as its tokens -/
theorem old_flush (st : Bool) (pt : List TTok) (hp : pt.all isPiece = true) (ho : pt.all (ttokOk st) = true)
    (hn : noAdjText pt = true) (hm : unmodelled (ttoksNew pt) = false) (X : List OTok) (res : List TTok)
    (hX : oldToks st X = .ok res) : oldToks st ((flushO pt).map rawOld ++ X) = .ok (pt ++ res) := by
  cases pt with
  | nil => simpa [flushO] using hX
  | cons t r =>
    simp only [flushO, List.isEmpty_cons, Bool.false_eq_true, if_false, List.map_cons, List.map_nil,
      List.singleton_append, rawOld, oldToks, unescape_escapeOld]
    rw [ttoksNew_pieces _ hp] at hm ⊢
    rw [interpolate_seg _ (segOK_pieces st _ hp ho hn) hm]
    simp only [bind, Except.bind]
    rw [evToks_pieces st _ hp ho, hX]
    rfl

theorem old_grp (st : Bool) : ∀ (ts pt : List TTok), pt.all isPiece = true → (pt ++ ts).all (ttokOk st) = true →
    noAdjText (pt ++ ts) = true → unmodelled (ttoksOld (pt ++ ts)) = false →
    oldToks st ((grpOld pt ts).map rawOld) = .ok (pt ++ ts)
  | [], pt, hp, ho, hn, hm => by
      simp only [List.append_nil] at ho hn hm ⊢
      rw [ttoksOld_pieces pt hp] at hm
      have := old_flush st pt hp ho hn hm [] [] rfl
      simpa [grpOld] using this
  | .text s :: r, pt, hp, ho, hn, hm => by
      rw [grpOld]
      have e : pt ++ TTok.text s :: r = (pt ++ [TTok.text s]) ++ r := by simp
      rw [e] at ho hn hm ⊢
      exact old_grp st r (pt ++ [TTok.text s]) (by simp [hp, isPiece]) ho hn hm
  | .xexpr x :: r, pt, hp, ho, hn, hm => by
      rw [grpOld]
      have e : pt ++ TTok.xexpr x :: r = (pt ++ [TTok.xexpr x]) ++ r := by simp
      rw [e] at ho hn hm ⊢
      exact old_grp st r (pt ++ [TTok.xexpr x]) (by simp [hp, isPiece]) ho hn hm
  | .dir d :: r, pt, hp, ho, hn, hm => by
      simp only [List.all_append, List.all_cons, Bool.and_eq_true] at ho
      rw [ttoksOld_append] at hm
      have hm1 := Scan.unmodelled_append_left _ _ hm
      rw [ttoksOld_pieces pt hp] at hm1
      have hm2 := Scan.unmodelled_append_right _ _ hm
      simp only [ttoksOld] at hm2
      have hm3 := Scan.unmodelled_append_right _ _ hm2
      have hn1 := noAdj_append_left _ _ hn
      have hn2 := noAdj_append_right _ _ hn
      simp only [noAdjText, Bool.and_eq_true] at hn2
      have ih := old_grp st r [] rfl (by simpa using ho.2.2) (by simpa using hn2.2) (by simpa using hm3)
      rw [grpOld, List.map_append, List.map_cons]
      apply old_flush st pt hp ho.1 hn1 hm1
      simp only [rawOld, oldToks]
      have hd := old_dir st d ho.2.1
      simp only at hd
      rw [hd]
      simp only [List.nil_append] at ih
      rw [ih]
      rfl
  | .end_ :: r, pt, hp, ho, hn, hm => by
      simp only [List.all_append, List.all_cons, Bool.and_eq_true] at ho
      rw [ttoksOld_append] at hm
      have hm1 := Scan.unmodelled_append_left _ _ hm
      rw [ttoksOld_pieces pt hp] at hm1
      have hm2 := Scan.unmodelled_append_right _ _ hm
      simp only [ttoksOld] at hm2
      have hm3 := Scan.unmodelled_append_right _ _ hm2
      have hn1 := noAdj_append_left _ _ hn
      have hn2 := noAdj_append_right _ _ hn
      simp only [noAdjText, Bool.and_eq_true] at hn2
      have ih := old_grp st r [] rfl (by simpa using ho.2.2) (by simpa using hn2.2) (by simpa using hm3)
      rw [grpOld, List.map_append, List.map_cons]
      apply old_flush st pt hp ho.1 hn1 hm1
      simp only [rawOld, oldToks]
      have hd := old_end st
      simp only at hd
      rw [hd]
      simp only [List.nil_append] at ih
      rw [ih]
      rfl

/-! ### the inversion theorem, old syntax -/

theorem rawToks_print_flat_old (st : Bool) (ts : List TTok) (h : ttoksOkOld st ts = true)
    (hm : unmodelled (ttoksOld ts) = false) : rawToks true st (ttoksOld ts) = .ok ts := by
  simp only [ttoksOkOld, ttoksOk, Bool.and_eq_true] at h
  obtain ⟨⟨⟨h1, h2⟩, h3⟩, h4⟩ := h
  have hp := print_grpOld st ts [] rfl (by simpa using h1) (by simpa using h3)
  simp only [ttoksOld, List.nil_append] at hp
  have hw := wf_grpOld st ts [] true rfl (by simpa using h1) (by simp) h4
  simp only [rawToks, if_true]
  rw [← hp, scan_old_print_raw _ hw]
  have := old_grp st ts [] rfl (by simpa using h1) (by simpa using h2) (by simpa using hm)
  simpa using this

/-- **Inversion of the reader (old text syntax).** -/
theorem rawToks_print_old (st : Bool) (ns : List TNode) (h : nodesOkOld st ns = true)
    (hm : unmodelled (nodesOld ns) = false) : rawToks true st (nodesOld ns) = .ok (toTokss ns) := by
  simp only [nodesOkOld, Bool.and_eq_true] at h
  rw [nodesOld_flat] at hm ⊢
  obtain ⟨h1, h2⟩ := nodesOk_flat st ns h.1.1
  exact rawToks_print_flat_old st _ (by simp [ttoksOkOld, ttoksOk, h1, h2, h.1.2, h.2]) hm

theorem compileRaw_print_old (st : Bool) (ns : List TNode) (h : nodesOkOld st ns = true)
    (hm : unmodelled (nodesOld ns) = false) : compileRaw true st (nodesOld ns) = .ok (compileNodes ns) := by
  have h0 : nodesOk st ns = true := by simp only [nodesOkOld, Bool.and_eq_true] at h; exact h.1.1
  unfold compileRaw
  rw [rawToks_print_old st ns h hm]
  simp only [bind, Except.bind, pure, Except.pure]
  have := compileText_eq_compile ns (nodesOk_text st ns h0).1
  unfold compileText at this
  rw [this]

theorem renderRaw_print_old (st : Bool) (ns : List TNode) (h : nodesOkOld st ns = true)
    (hm : unmodelled (nodesOld ns) = false) (fuel : Nat) (data : Env) :
    renderRaw fuel true st (nodesOld ns) data = .ok (implRender fuel ns data) := by
  unfold renderRaw
  rw [compileRaw_print_old st ns h hm]
  rfl

end Genshi.Tmpl.Print

/-
  C02 — the tokenizer reads back what the serializer writes, part C: element
  content (`bodyOK`) as a whole.
-/
import Genshi.Lemmas.XmlTokE
namespace Genshi.Xml
open Genshi Genshi.Escape Genshi.Xml.Reader

/-! ### facts about escaped text -/

theorem escC_chars (q : Bool) (c : Char) :
    '<' ∉ escC q c ∧ '>' ∉ escC q c ∧ (q = true → '"' ∉ escC q c) ∧ (c ≠ '\r' → '\r' ∉ escC q c) ∧
    escC q c ≠ [] := by
  unfold escC
  by_cases h1 : c = '&'
  · subst h1; simp [amp]
  by_cases h2 : c = '<'
  · subst h2; simp [lt]
  by_cases h3 : c = '>'
  · subst h3; simp [gt]
  by_cases h4 : c = '"'
  · subst h4; cases q <;> simp [qt]
  simp only [h1, h2, h3, h4, if_false]
  refine ⟨by simpa using fun e => h2 e.symm, by simpa using fun e => h3 e.symm,
    fun _ => by simpa using fun e => h4 e.symm, fun h => by simpa using fun e => h e.symm, by simp⟩

theorem escapePy_chars (q : Bool) (s : Str) :
    '<' ∉ escapePy q s ∧ '>' ∉ escapePy q s ∧ (q = true → '"' ∉ escapePy q s) ∧
    ('\r' ∉ s → '\r' ∉ escapePy q s) ∧ (s ≠ [] → escapePy q s ≠ []) := by
  rw [escapePy_eq_spec]
  unfold escapeSpec
  induction s with
  | nil => simp
  | cons c cs ih =>
    obtain ⟨a1, a2, a3, a4, a5⟩ := escC_chars q c
    obtain ⟨b1, b2, b3, b4, _⟩ := ih
    simp only [List.flatMap_cons, List.mem_append, not_or]
    refine ⟨⟨a1, b1⟩, ⟨a2, b2⟩, fun hq => ⟨a3 hq, b3 hq⟩, fun h => ?_, fun _ => ?_⟩
    · simp only [List.mem_cons, not_or] at h
      exact ⟨a4 (fun e => h.1 e.symm), b4 h.2⟩
    · intro e
      exact a5 (List.append_eq_nil_iff.mp e).1

theorem encodeText_all (s : Str) : encodeText (fun _ => true) s = s := by
  induction s with
  | nil => rfl
  | cons c cs ih => simp only [encodeText, List.flatMap_cons] at ih ⊢; rw [ih]; simp

theorem okStr_parts {s : Str} (h : okStr s = true) : s.all isXmlChar = true ∧ '\r' ∉ s := by
  unfold okStr at h
  simp only [List.all_eq_true, Bool.and_eq_true, decide_eq_true_eq] at h
  exact ⟨by simp only [List.all_eq_true]; exact fun c hc => (h c hc).1, fun hm => (h _ hm).2 rfl⟩

theorem charRef_chars (c : Char) :
    '<' ∉ charRef c ∧ '>' ∉ charRef c ∧ '"' ∉ charRef c ∧ '\r' ∉ charRef c ∧ charRef c ≠ [] := by
  have hd : ∀ x, x ∈ dec c.toNat → isDigit x = true := fun x hx => List.all_eq_true.mp (dec_all_digit c.toNat) x hx
  have key : ∀ x : Char, isDigit x = false → x ≠ '&' → x ≠ '#' → x ≠ ';' → x ∉ charRef c := by
    intro x h1 h2 h3 h4 hm
    simp only [charRef, List.mem_cons, List.mem_append, List.cons_append, List.mem_nil_iff, or_false] at hm
    rcases hm with hm | hm | hm | hm
    · exact h2 hm
    · exact h3 hm
    · rw [hd x hm] at h1; cases h1
    · exact h4 hm
  exact ⟨key '<' (by decide) (by decide) (by decide) (by decide), key '>' (by decide) (by decide) (by decide) (by decide),
    key '"' (by decide) (by decide) (by decide) (by decide), key '\r' (by decide) (by decide) (by decide) (by decide),
    by simp [charRef]⟩

/-- text as the serializer escapes it and `encode` then writes it -/
def encEscStr (rep : Char → Bool) (q : Bool) (s : Str) : Str := encodeText rep (escapePy q s)

theorem encEscStr_chars (rep : Char → Bool) (hr : AsciiRep rep) (q : Bool) (s : Str) :
    '<' ∉ encEscStr rep q s ∧ '>' ∉ encEscStr rep q s ∧ (q = true → '"' ∉ encEscStr rep q s) ∧
    ('\r' ∉ s → '\r' ∉ encEscStr rep q s) ∧ (s ≠ [] → encEscStr rep q s ≠ []) := by
  unfold encEscStr
  rw [escapePy_eq_spec, encodeText_escapeSpec]
  induction s with
  | nil => simp
  | cons c cs ih =>
    obtain ⟨b1, b2, b3, b4, _⟩ := ih
    have hc : '<' ∉ encEsc rep q c ∧ '>' ∉ encEsc rep q c ∧ (q = true → '"' ∉ encEsc rep q c) ∧
        (c ≠ '\r' → '\r' ∉ encEsc rep q c) ∧ encEsc rep q c ≠ [] := by
      rw [encEsc_eq rep hr]
      by_cases h : rep c = true
      · simp only [h, if_true]; exact escC_chars q c
      · simp only [h]
        obtain ⟨r1, r2, r3, r4, r5⟩ := charRef_chars c
        exact ⟨r1, r2, fun _ => r3, fun _ => r4, r5⟩
    obtain ⟨a1, a2, a3, a4, a5⟩ := hc
    simp only [List.flatMap_cons, List.mem_append, not_or]
    refine ⟨⟨a1, b1⟩, ⟨a2, b2⟩, fun hq => ⟨a3 hq, b3 hq⟩, fun h => ?_, fun _ => ?_⟩
    · simp only [List.mem_cons, not_or] at h
      exact ⟨a4 (fun e => h.1 e.symm), b4 h.2⟩
    · intro e
      exact a5 (List.append_eq_nil_iff.mp e).1

theorem decodeText_encEsc (rep : Char → Bool) (hr : AsciiRep rep) (s : Str) (h : okStr s = true) :
    decodeText (encEscStr rep false s) = some s := by
  have := decodeGo_encode_escape rep hr false false s (okStr_parts h).1 (fun e => by cases e)
  unfold encEscStr
  rw [escapePy_eq_spec]
  exact this

/-- the value written between the quotes for an attribute -/
def encAttr (rep : Char → Bool) (v : Str) : Str := if v = noneUri then [] else encEscStr rep true v

/-- the attribute list as the serializer writes it and `encode` leaves it when
    the names are representable -/
def emitAttrsEnc (rep : Char → Bool) (attrs : List (Str × Str)) : Str :=
  emitAttrsWith (attrs.map fun a => (a.1, encAttr rep a.2))

theorem attrEnc_encAttr (rep : Char → Bool) (hr : AsciiRep rep) (v : Str) (h : attrValOK v = true) :
    AttrEnc (encAttr rep v) (normUri v) := by
  unfold attrValOK at h
  unfold encAttr normUri
  by_cases hv : v = noneUri
  · simp only [hv, if_true]
    exact ⟨by simp, rfl⟩
  · simp only [hv, if_false]
    simp only [hv, decide_false, Bool.false_or, Bool.and_eq_true, List.all_eq_true, decide_eq_true_eq] at h
    refine ⟨(encEscStr_chars rep hr true v).2.2.1 rfl, ?_⟩
    have := decodeGo_encode_escape rep hr true true v (okStr_parts h.1).1
      (fun _ c hc => ⟨(h.2 c hc).1, (h.2 c hc).2, fun e => (okStr_parts h.1).2 (e ▸ hc)⟩)
    unfold encEscStr
    rw [escapePy_eq_spec]
    exact this

theorem forall₂_encAttr (rep : Char → Bool) (hr : AsciiRep rep) (attrs : List (Str × Str))
    (h : flatAttrsOK attrs = true) :
    List.Forall₂ (fun e a => e.1 = a.1 ∧ validName a.1 = true ∧ AttrEnc e.2 a.2)
      (attrs.map fun a => (a.1, encAttr rep a.2)) (normAttrs attrs) := by
  induction attrs with
  | nil => exact .nil
  | cons a rest ih =>
    unfold flatAttrsOK at h ih
    simp only [List.all_cons, Bool.and_eq_true] at h
    refine .cons ⟨rfl, h.1.1, attrEnc_encAttr rep hr a.2 h.1.2⟩ (ih h.2)

/-! ### the serializer followed by `encode`, when the markup is representable -/

/-- `serStep` with character data and attribute values as `encode` leaves them -/
def serStepEnc (rep : Char → Bool) (st : SerSt) : FEv → Option (SerSt × Str)
  | .start name attrs => some (st, '<' :: name ++ emitAttrsEnc rep attrs ++ ['>'])
  | .empty name attrs => some (st, '<' :: name ++ emitAttrsEnc rep attrs ++ ['/', '>'])
  | .other (.text s safe) =>
      if st.inCdata ∨ safe then some (st, s) else some (st, encEscStr rep false s)
  | e => serStep st e

def serRunEnc (rep : Char → Bool) : SerSt → List FEv → Option Str
  | _, [] => some []
  | st, e :: es =>
      match serStepEnc rep st e with
      | none => none
      | some (st', out) => (serRunEnc rep st' es).map (out ++ ·)

/-! ### the token loop -/

theorem tokGo_markup (f : Nat) (m rest : Str) (toks : List FEv)
    (h : takeMarkup (m ++ rest) = some (toks, rest)) :
    tokGo (f + 1) ('<' :: (m ++ rest)) = (tokGo f rest).map (toks ++ ·) := by
  simp only [tokGo, h]

theorem tokGo_text (f : Nat) (et t rest : Str) (hne : et ≠ []) (hlt : '<' ∉ et) (hgt : '>' ∉ et)
    (hdec : decodeText et = some t) (hrest : rest = [] ∨ ∃ r, rest = '<' :: r) :
    tokGo (f + 1) (et ++ rest) = (tokGo f rest).map (FEv.other (.text t false) :: ·) := by
  obtain ⟨c, cs, rfl⟩ : ∃ c cs, et = c :: cs := by
    cases et with
    | nil => exact absurd rfl hne
    | cons c cs => exact ⟨c, cs, rfl⟩
  have hc : c ≠ '<' := fun e => hlt (by simp [e])
  have hspan : ((c :: cs) ++ rest).span (· ≠ '<') = (c :: cs, rest) := by
    rcases hrest with rfl | ⟨r, rfl⟩
    · simp only [List.append_nil]
      exact span_all _ (fun d hd => by simp; intro e; subst e; exact hlt hd)
    · exact span_until _ '<' r (fun d hd => by simp; intro e; subst e; exact hlt hd) (by simp)
  have hsub : hasSub [']', ']', '>'] (c :: cs) = false :=
    hasSub_false_of_not_mem _ '>' (by simp) _ hgt
  simp only [List.cons_append] at hspan ⊢
  rw [tokGo]
  · simp only [hspan, hsub, Bool.false_eq_true, if_false, hdec]
    cases tokGo f rest <;> rfl
  · intro h; exact hc h

theorem cr_not_mem_of_validName {n : Str} (h : validName n = true) : '\r' ∉ n := by
  intro hm
  unfold validName at h
  cases n with
  | nil => simp at hm
  | cons c cs =>
    simp only [Bool.and_eq_true, List.all_eq_true] at h
    have := h.2 '\r' hm
    revert this; decide

end Genshi.Xml

namespace Genshi.Xml
open Genshi Genshi.Escape Genshi.Xml.Reader

/-- what the theorem says about the serialisation of a list of events -/
structure BodyRes (rep : Char → Bool) (st : SerSt) (fs : List FEv) (out : Str) : Prop where
  ser : serRunEnc rep st fs = some out
  nocr : '\r' ∉ out
  head : startsWithText fs = false → out = [] ∨ ∃ r, out = '<' :: r
  tok : ∀ f, out.length < f → tokGo f out = some (tokOf fs)

theorem nm_app {a b : Str} (ha : '\r' ∉ a) (hb : '\r' ∉ b) : '\r' ∉ a ++ b := by
  simp only [List.mem_append, not_or]; exact ⟨ha, hb⟩

theorem nm_cons {c : Char} {a : Str} (hc : c ≠ '\r') (ha : '\r' ∉ a) : '\r' ∉ c :: a := by
  simp only [List.mem_cons, not_or]; exact ⟨fun e => hc e.symm, ha⟩

theorem cr_not_mem_emitAttrsEnc (rep : Char → Bool) (hr : AsciiRep rep) (a : List (Str × Str))
    (h : flatAttrsOK a = true) : '\r' ∉ emitAttrsEnc rep a := by
  unfold emitAttrsEnc
  induction a with
  | nil => simp [emitAttrsWith]
  | cons x xs ih =>
    obtain ⟨n, v⟩ := x
    unfold flatAttrsOK at h ih
    simp only [List.all_cons, Bool.and_eq_true] at h
    have hn := cr_not_mem_of_validName h.1.1
    have hv : '\r' ∉ encAttr rep v := by
      unfold encAttr
      by_cases e : v = noneUri
      · simp [e]
      · simp only [e, if_false]
        have hv := h.1.2
        unfold attrValOK at hv
        simp only [e, decide_false, Bool.false_or, Bool.and_eq_true] at hv
        exact (encEscStr_chars rep hr true v).2.2.2.1 (okStr_parts hv.1).2
    have := ih h.2
    simp only [List.map_cons, emitAttrsWith]
    exact nm_app (nm_app (nm_cons (by decide) hn) (nm_cons (by decide) (nm_cons (by decide) hv)))
      (nm_cons (by decide) this)

/-- one piece of markup in front of an already handled tail; `mid` is what the
    tokenizer sees between the markup and the tail (the line break after a DOCTYPE) -/
theorem body_glue (rep : Char → Bool) (st st' : SerSt) (pre es : List FEv) (m : Str) (out' : Str) (toks : List FEv)
    (ih : BodyRes rep st' es out')
    (hser : serRunEnc rep st (pre ++ es) = (serRunEnc rep st' es).map (('<' :: m) ++ ·))
    (htake : takeMarkup (m ++ out') = some (toks, out'))
    (htoks : tokOf (pre ++ es) = toks ++ tokOf es)
    (hcr : '\r' ∉ m) :
    BodyRes rep st (pre ++ es) ('<' :: (m ++ out')) := by
  refine ⟨by rw [hser, ih.ser]; simp, ?_, fun _ => Or.inr ⟨_, rfl⟩, ?_⟩
  · simp only [List.mem_cons, List.mem_append, not_or]
    exact ⟨by decide, hcr, ih.nocr⟩
  · intro f hf
    obtain ⟨g, rfl⟩ : ∃ g, f = g + 1 := ⟨f - 1, by simp at hf; omega⟩
    rw [tokGo_markup g m out' _ htake, ih.tok g (by simp at hf; omega), htoks]
    simp

theorem serRun_cons (st : SerSt) (e : FEv) (es : List FEv) :
    serRun st (e :: es) = match serStep st e with
      | none => none
      | some (st', out) => (serRun st' es).map (out ++ ·) := rfl

theorem serRunEnc_cons (rep : Char → Bool) (st : SerSt) (e : FEv) (es : List FEv) :
    serRunEnc rep st (e :: es) = match serStepEnc rep st e with
      | none => none
      | some (st', out) => (serRunEnc rep st' es).map (out ++ ·) := rfl

theorem sysidOK_parts {sy : Str} (h : sysidOK sy = true) :
    sy ≠ [] ∧ okStr sy = true ∧ ¬ ('"' ∈ sy ∧ '\'' ∈ sy) := by
  unfold sysidOK at h
  simp only [Bool.and_eq_true, Bool.not_eq_true', Bool.and_eq_false_iff] at h
  refine ⟨by intro e; simp [e] at h, h.1.2, ?_⟩
  intro ⟨h1, h2⟩
  rcases h.2 with h3 | h3 <;> simp_all

/-- the DOCTYPE branch of the serializer, and its reading -/
theorem doctype_piece (n : Str) (p s : Option Str) (h : doctypeOK n p s = true) :
    ∃ m, emitDoctype n p s = some ('<' :: (m ++ ['\n'])) ∧ '\r' ∉ m ∧ (∃ r, m = '!' :: r) ∧
      ∀ rest, takeMarkup (m ++ rest) = some ([FEv.other (.doctype n p s)], rest) := by
  unfold doctypeOK at h
  simp only [Bool.and_eq_true] at h
  obtain ⟨⟨hn, hq⟩, hps⟩ := h
  have hne : n.isEmpty = false := by
    obtain ⟨c, cs, rfl, _⟩ := validName_head hn; rfl
  have hncr := cr_not_mem_of_validName hn
  cases p with
  | none =>
    cases s with
    | none =>
      refine ⟨'!' :: 'D' :: 'O' :: 'C' :: 'T' :: 'Y' :: 'P' :: 'E' :: ' ' :: (n ++ ['>']), ?_, ?_, ⟨_, rfl⟩, ?_⟩
      · simp [emitDoctype, hne, truthy]
      · exact nm_cons (by decide) (nm_cons (by decide) (nm_cons (by decide) (nm_cons (by decide) (nm_cons (by decide)
          (nm_cons (by decide) (nm_cons (by decide) (nm_cons (by decide) (nm_cons (by decide) (nm_app hncr (by decide))))))))))
      · intro rest
        have := takeDoctype_plain n rest hn hq
        simp only [takeMarkup, List.cons_append, List.append_assoc, List.nil_append]
        rw [this]; rfl
    | some sy =>
      obtain ⟨s1, s2, s3⟩ := sysidOK_parts hps
      have hse : sy.isEmpty = false := by simpa using s1
      by_cases hdq : '"' ∈ sy
      · have hsq : '\'' ∉ sy := fun e => s3 ⟨hdq, e⟩
        refine ⟨'!' :: 'D' :: 'O' :: 'C' :: 'T' :: 'Y' :: 'P' :: 'E' :: ' ' ::
          (n ++ [' ', 'S', 'Y', 'S', 'T', 'E', 'M', ' ', '\''] ++ sy ++ ['\'', '>']), ?_, ?_, ⟨_, rfl⟩, ?_⟩
        · have : List.elem '"' sy = true := by simpa using hdq
          simp [emitDoctype, hne, truthy, hse, hdq]
        · exact nm_cons (by decide) (nm_cons (by decide) (nm_cons (by decide) (nm_cons (by decide) (nm_cons (by decide)
            (nm_cons (by decide) (nm_cons (by decide) (nm_cons (by decide) (nm_cons (by decide)
              (nm_app (nm_app (nm_app hncr (by decide)) (okStr_parts s2).2) (by decide))))))))))
        · intro rest
          have := takeDoctype_system n sy rest '\'' (Or.inr rfl) hsq hn hq
          simp only [takeMarkup, List.cons_append, List.append_assoc, List.nil_append]
          simp only [List.cons_append, List.append_assoc, List.nil_append] at this
          rw [this]; rfl
      · refine ⟨'!' :: 'D' :: 'O' :: 'C' :: 'T' :: 'Y' :: 'P' :: 'E' :: ' ' ::
          (n ++ [' ', 'S', 'Y', 'S', 'T', 'E', 'M', ' ', '"'] ++ sy ++ ['"', '>']), ?_, ?_, ⟨_, rfl⟩, ?_⟩
        · have : List.elem '"' sy = false := by simpa using hdq
          simp [emitDoctype, hne, truthy, hse, hdq]
        · exact nm_cons (by decide) (nm_cons (by decide) (nm_cons (by decide) (nm_cons (by decide) (nm_cons (by decide)
            (nm_cons (by decide) (nm_cons (by decide) (nm_cons (by decide) (nm_cons (by decide)
              (nm_app (nm_app (nm_app hncr (by decide)) (okStr_parts s2).2) (by decide))))))))))
        · intro rest
          have := takeDoctype_system n sy rest '"' (Or.inl rfl) hdq hn hq
          simp only [takeMarkup, List.cons_append, List.append_assoc, List.nil_append]
          simp only [List.cons_append, List.append_assoc, List.nil_append] at this
          rw [this]; rfl
  | some pu =>
    cases s with
    | none => simp at hps
    | some sy =>
      simp only [Bool.and_eq_true, Bool.not_eq_true', decide_eq_true_eq] at hps
      obtain ⟨⟨⟨⟨p1, p2⟩, p3⟩, p4⟩, p5⟩ := hps
      obtain ⟨s1, s2, s3⟩ := sysidOK_parts p5
      have hse : sy.isEmpty = false := by simpa using s1
      have hpcr : '\r' ∉ pu := by simpa using p4
      by_cases hdq : '"' ∈ sy
      · have hsq : '\'' ∉ sy := fun e => s3 ⟨hdq, e⟩
        refine ⟨'!' :: 'D' :: 'O' :: 'C' :: 'T' :: 'Y' :: 'P' :: 'E' :: ' ' ::
          (n ++ [' ', 'P', 'U', 'B', 'L', 'I', 'C', ' ', '"'] ++ pu ++ ['"', ' ', '\''] ++ sy ++ ['\'', '>']), ?_, ?_, ⟨_, rfl⟩, ?_⟩
        · have : List.elem '"' sy = true := by simpa using hdq
          simp [emitDoctype, hne, truthy, hse, p1, hdq]
        · exact nm_cons (by decide) (nm_cons (by decide) (nm_cons (by decide) (nm_cons (by decide) (nm_cons (by decide)
            (nm_cons (by decide) (nm_cons (by decide) (nm_cons (by decide) (nm_cons (by decide)
              (nm_app (nm_app (nm_app (nm_app (nm_app hncr (by decide)) hpcr) (by decide)) (okStr_parts s2).2) (by decide))))))))))
        · intro rest
          have := takeDoctype_public n pu sy rest '\'' (Or.inr rfl) hsq hn hq p2 p3
          simp only [takeMarkup, List.cons_append, List.append_assoc, List.nil_append]
          simp only [List.cons_append, List.append_assoc, List.nil_append] at this
          rw [this]; rfl
      · refine ⟨'!' :: 'D' :: 'O' :: 'C' :: 'T' :: 'Y' :: 'P' :: 'E' :: ' ' ::
          (n ++ [' ', 'P', 'U', 'B', 'L', 'I', 'C', ' ', '"'] ++ pu ++ ['"', ' ', '"'] ++ sy ++ ['"', '>']), ?_, ?_, ⟨_, rfl⟩, ?_⟩
        · have : List.elem '"' sy = false := by simpa using hdq
          simp [emitDoctype, hne, truthy, hse, p1, hdq]
        · exact nm_cons (by decide) (nm_cons (by decide) (nm_cons (by decide) (nm_cons (by decide) (nm_cons (by decide)
            (nm_cons (by decide) (nm_cons (by decide) (nm_cons (by decide) (nm_cons (by decide)
              (nm_app (nm_app (nm_app (nm_app (nm_app hncr (by decide)) hpcr) (by decide)) (okStr_parts s2).2) (by decide))))))))))
        · intro rest
          have := takeDoctype_public n pu sy rest '"' (Or.inl rfl) hdq hn hq p2 p3
          simp only [takeMarkup, List.cons_append, List.append_assoc, List.nil_append]
          simp only [List.cons_append, List.append_assoc, List.nil_append] at this
          rw [this]; rfl

/-- a line break in front of markup (or the end) is a text token of its own -/
theorem ws_res (rep : Char → Bool) (st : SerSt) (es : List FEv) (out' : Str) (r : BodyRes rep st es out')
    (hnt : startsWithText es = false) :
    '\r' ∉ '\n' :: out' ∧ ∀ f, ('\n' :: out').length < f → tokGo f ('\n' :: out') = some (wsTok :: tokOf es) := by
  refine ⟨nm_cons (by decide) r.nocr, ?_⟩
  intro f hf
  obtain ⟨g, rfl⟩ : ∃ g, f = g + 1 := ⟨f - 1, by simp at hf; omega⟩
  have := tokGo_text g ['\n'] ['\n'] out' (by simp) (by decide) (by decide) (by decide) (r.head hnt)
  simp only [List.cons_append, List.nil_append] at this
  rw [this, r.tok g (by simp at hf; omega)]
  rfl


theorem tokGo_content (rep : Char → Bool) (hr : AsciiRep rep) (dt : Bool) (fs : List FEv)
    (h : contentOK dt fs = true) :
    ∀ (st : SerSt), st.inCdata = false → (dt = true → st.haveDoctype = false) → ∃ out, BodyRes rep st fs out := by
  fun_induction contentOK dt fs
  · -- []
    intro st _ _
    exact ⟨[], rfl, by simp, fun _ => Or.inl rfl, fun f _ => by cases f <;> rfl⟩
  · -- start
    rename_i dt n a es ih
    intro st hst hdt
    simp only [Bool.and_eq_true] at h
    obtain ⟨out', r⟩ := ih h.2 st hst hdt
    refine ⟨_, body_glue rep st st [FEv.start n a] es (n ++ emitAttrsEnc rep a ++ ['>']) out' (List.map normF [FEv.start n a]) r ?_ ?_ (by simp [tokOf, normF]) ?_⟩
    · simp [serRunEnc_cons, serStepEnc]
    · have := takeMarkup_start n _ _ false out' h.1.1 (forall₂_encAttr rep hr a h.1.2)
      simpa [emitAttrsEnc, normF] using this
    · exact nm_app (nm_app (cr_not_mem_of_validName h.1.1) (cr_not_mem_emitAttrsEnc rep hr a h.1.2)) (by decide)
  · -- empty
    rename_i dt n a es ih
    intro st hst hdt
    simp only [Bool.and_eq_true] at h
    obtain ⟨out', r⟩ := ih h.2 st hst hdt
    refine ⟨_, body_glue rep st st [FEv.empty n a] es (n ++ emitAttrsEnc rep a ++ ['/', '>']) out' (List.map normF [FEv.empty n a]) r ?_ ?_ (by simp [tokOf, normF]) ?_⟩
    · simp [serRunEnc_cons, serStepEnc]
    · have := takeMarkup_start n _ _ true out' h.1.1 (forall₂_encAttr rep hr a h.1.2)
      simpa [emitAttrsEnc, normF] using this
    · exact nm_app (nm_app (cr_not_mem_of_validName h.1.1) (cr_not_mem_emitAttrsEnc rep hr a h.1.2)) (by decide)
  · -- end
    rename_i dt n es ih
    intro st hst hdt
    simp only [Bool.and_eq_true] at h
    obtain ⟨out', r⟩ := ih h.2 st hst hdt
    refine ⟨_, body_glue rep st st [FEv.end_ n] es ('/' :: n ++ ['>']) out' (List.map normF [FEv.end_ n]) r ?_ ?_ (by simp [tokOf, normF]) ?_⟩
    · simp [serRunEnc_cons, serStepEnc, serStep, emitEnd]
    · have := takeMarkup_end n out' h.1
      simpa [normF] using this
    · exact nm_app (nm_cons (by decide) (cr_not_mem_of_validName h.1)) (by decide)
  · -- text
    rename_i dt s safe es ih
    intro st hst hdt
    simp only [Bool.and_eq_true, Bool.not_eq_true'] at h
    obtain ⟨⟨⟨⟨hsafe, hne⟩, hok⟩, hnt⟩, hes⟩ := h
    subst hsafe
    obtain ⟨out', r⟩ := ih hes st hst hdt
    have hs : s ≠ [] := by intro e; simp [e] at hne
    obtain ⟨c1, c2, _, c4, c5⟩ := encEscStr_chars rep hr false s
    refine ⟨encEscStr rep false s ++ out', ?_, ?_, fun hh => by simp [startsWithText] at hh, ?_⟩
    · simp [serRunEnc_cons, serStepEnc, hst, r.ser]
    · exact nm_app (c4 (okStr_parts hok).2) r.nocr
    · intro f hf
      obtain ⟨g, rfl⟩ : ∃ g, f = g + 1 := ⟨f - 1, by simp at hf; omega⟩
      have hpos := List.length_pos_of_ne_nil (c5 hs)
      rw [tokGo_text g _ s out' (c5 hs) c1 c2 (decodeText_encEsc rep hr s hok) (r.head hnt),
        r.tok g (by simp at hf; omega)]
      simp [normF, tokOf]
  · -- comment
    rename_i dt s es ih
    intro st hst hdt
    simp only [Bool.and_eq_true] at h
    obtain ⟨out', r⟩ := ih h.2 st hst hdt
    have hc := h.1
    unfold commentOK at hc
    simp only [Bool.and_eq_true, Bool.not_eq_true'] at hc
    refine ⟨_, body_glue rep st st [FEv.other (.comment s)] es ('!' :: '-' :: '-' :: (s ++ ['-', '-', '>'])) out' (List.map normF [FEv.other (.comment s)]) r ?_ ?_ (by simp [tokOf, normF]) ?_⟩
    · simp [serRunEnc_cons, serStepEnc, serStep]
    · have := takeMarkup_comment s out' (okStr_parts hc.1).1 hc.2
      simpa [normF] using this
    · exact nm_cons (by decide) (nm_cons (by decide) (nm_cons (by decide) (nm_app (okStr_parts hc.1).2 (by decide))))
  · -- pi
    rename_i dt t d es ih
    intro st hst hdt
    simp only [Bool.and_eq_true] at h
    obtain ⟨out', r⟩ := ih h.2 st hst hdt
    have hp := h.1
    unfold piOK at hp
    simp only [Bool.and_eq_true, Bool.not_eq_true', decide_eq_true_eq] at hp
    obtain ⟨⟨⟨⟨⟨p1, p2⟩, p3⟩, p4⟩, p5⟩, p6⟩ := hp
    refine ⟨_, body_glue rep st st [FEv.other (.pi t d)] es ('?' :: (t ++ ' ' :: d ++ ['?', '>'])) out' (List.map normF [FEv.other (.pi t d)]) r ?_ ?_ (by simp [tokOf, normF]) ?_⟩
    · simp [serRunEnc_cons, serStepEnc, serStep]
    · have := takeMarkup_pi t d out' p1 (by simpa using p2) p3 (okStr_parts p4).1 p5 p6
      simpa [normF] using this
    · exact nm_cons (by decide) (nm_app (nm_app (cr_not_mem_of_validName p1) (nm_cons (by decide) (okStr_parts p4).2))
        (by decide))
  · -- CDATA with text
    rename_i dt s safe es ih
    intro st hst hdt
    simp only [Bool.and_eq_true, Bool.not_eq_true'] at h
    obtain ⟨⟨⟨hsafe, hne⟩, hcd⟩, hes⟩ := h
    subst hsafe
    obtain ⟨out', r⟩ := ih hes st hst hdt
    unfold cdataOK at hcd
    simp only [Bool.and_eq_true, Bool.not_eq_true'] at hcd
    have hst' : ({ st with inCdata := false } : SerSt) = st := by cases st; simp_all
    refine ⟨_, body_glue rep st st [FEv.other .startCdata, FEv.other (.text s false), FEv.other .endCdata] es ('!' :: '[' :: 'C' :: 'D' :: 'A' :: 'T' :: 'A' :: '[' :: (s ++ [']', ']', '>'])) out' (List.map normF [FEv.other .startCdata, FEv.other (.text s false), FEv.other .endCdata]) r ?_ ?_ (by simp [tokOf, normF]) ?_⟩
    · simp only [List.cons_append, List.nil_append, serRunEnc_cons, serStepEnc, serStep, hst, Bool.false_eq_true,
        false_or, if_true]
      simp [hst', r.ser]
    · have := takeMarkup_cdata s out' (okStr_parts hcd.1).1 hcd.2
      simp only [hne, Bool.false_eq_true, if_false] at this
      simpa [normF] using this
    · exact nm_cons (by decide) (nm_cons (by decide) (nm_cons (by decide) (nm_cons (by decide) (nm_cons (by decide)
        (nm_cons (by decide) (nm_cons (by decide) (nm_cons (by decide) (nm_app (okStr_parts hcd.1).2 (by decide)))))))))
  · -- empty CDATA
    rename_i dt es ih
    intro st hst hdt
    obtain ⟨out', r⟩ := ih h st hst hdt
    have hst' : ({ st with inCdata := false } : SerSt) = st := by cases st; simp_all
    refine ⟨_, body_glue rep st st [FEv.other .startCdata, FEv.other .endCdata] es ('!' :: '[' :: 'C' :: 'D' :: 'A' :: 'T' :: 'A' :: '[' :: ([] ++ [']', ']', '>'])) out' (List.map normF [FEv.other .startCdata, FEv.other .endCdata]) r ?_ ?_ (by simp [tokOf, normF]) ?_⟩
    · simp only [List.cons_append, List.nil_append, serRunEnc_cons, serStepEnc, serStep, hst]
      simp [hst', r.ser]
    · have := takeMarkup_cdata [] out' (by simp) (by decide)
      simpa [normF] using this
    · simp only [List.mem_cons, List.mem_append, not_or]
      decide
  · -- DOCTYPE
    rename_i n p s es ih
    intro st hst hdt
    simp only [Bool.and_eq_true, Bool.not_eq_true'] at h
    obtain ⟨⟨hd, hnt⟩, hes⟩ := h
    have hhd := hdt rfl
    obtain ⟨out', r⟩ := ih hes { st with haveDoctype := true } hst (fun e => by cases e)
    obtain ⟨m, hm1, hm2, _, hm3⟩ := doctype_piece n p s hd
    obtain ⟨w1, w2⟩ := ws_res rep _ es out' r hnt
    refine ⟨'<' :: (m ++ '\n' :: out'), ?_, ?_, fun _ => Or.inr ⟨_, rfl⟩, ?_⟩
    · simp [serRunEnc_cons, serStepEnc, serStep, hhd, hm1, r.ser]
    · exact nm_cons (by decide) (nm_app hm2 w1)
    · intro f hf
      obtain ⟨g, rfl⟩ : ∃ g, f = g + 1 := ⟨f - 1, by simp at hf; omega⟩
      rw [tokGo_markup g m ('\n' :: out') _ (hm3 _), w2 g (by simp at hf ⊢; omega)]
      rfl
  · -- anything else is outside `contentOK`
    cases h

end Genshi.Xml

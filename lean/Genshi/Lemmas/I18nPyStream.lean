/-
  C19 — the gettext CALL SITES of template code are extracted: composition of
  `code_calls_extracted` (the stream model reports the list every piece of code carries) with
  `extractFromCode_eq_gettextCalls` (that list is the report of every call of a gettext function
  in the syntax tree), over streams whose code is a syntax tree (`Model/I18nPyStream.lean`) and
  for an arbitrary `gettext_functions` argument.
-/
import Genshi.Lemmas.I18nCode
import Genshi.Lemmas.I18nPyExpr
import Genshi.Model.I18nPyStream
namespace Genshi.I18n
open Genshi

/-! ### where the template holds code -/

def partsExprs : List PPart → List PyExpr
  | [] => []
  | .text _ :: ps => partsExprs ps
  | .expr e :: ps => e :: partsExprs ps

/-- the expressions in the interpolated values of an attribute list -/
def attrsExprs : PAttrs → List PyExpr
  | [] => []
  | (_, .str _) :: rest => attrsExprs rest
  | (_, .parts ps) :: rest => partsExprs ps ++ attrsExprs rest

def evExprs : PEvent → List PyExpr
  | .start _ a => attrsExprs a
  | .expr _ e => [e]
  | _ => []

/-- the code inside a plain message directive: the interpolated attributes of its own element
    and of the elements in its content, and the expressions of its content -/
def msgExprs (ds : List Dir) (body : List PEvent) : List PyExpr :=
  match ds, body with
  | [.msg _], .start _ a :: rest => attrsExprs a ++ rest.dropLast.flatMap evExprs
  | [.msg _], first :: rest => (first :: rest).flatMap evExprs
  | _, _ => []

mutual
  def codeExprsEv : PEvent → List PyExpr
    | .start _ a => attrsExprs a
    | .expr _ e => [e]
    | .exec e => [e]
    | .sub ds body => if hasExtractable ds then msgExprs ds body else codeExprs body
    | _ => []
  /-- every piece of code of the template (the P-level reading of `codeList`): all EXPR / EXEC
      events and the interpolated attributes of all START events at any depth of directive
      nesting, excluded elements included; for a plain message directive the attributes and
      expressions of its content -/
  def codeExprs : List PEvent → List PyExpr
    | [] => []
    | e :: es => codeExprsEv e ++ codeExprs es
end

/-! ### lowering commutes with the collection of code -/

theorem lowerList_eq_map (gf : List Str) : ∀ l : List PEvent, lowerList gf l = l.map (lowerEv gf)
  | [] => by simp [lowerList]
  | e :: es => by simp [lowerList, lowerList_eq_map gf es]

theorem lowerList_dropLast (gf : List Str) (l : List PEvent) :
    (lowerList gf l).dropLast = lowerList gf l.dropLast := by
  simp [lowerList_eq_map, List.map_dropLast]

theorem partsCode_lower (gf : List Str) : ∀ ps : List PPart,
    partsCode (ps.map (lowerPart gf)) = (partsExprs ps).flatMap (extractFromCode gf)
  | [] => by simp [partsCode, partsExprs]
  | .text _ :: ps => by simpa [partsCode, partsExprs, lowerPart] using partsCode_lower gf ps
  | .expr e :: ps => by simp [partsCode, partsExprs, lowerPart, partsCode_lower gf ps]

theorem attrsCode_lower (gf : List Str) : ∀ a : PAttrs,
    attrsCode (lowerAttrs gf a) = (attrsExprs a).flatMap (extractFromCode gf)
  | [] => by simp [attrsCode, attrsExprs, lowerAttrs]
  | (n, .str v) :: rest => by
      simp [attrsCode, attrsExprs, lowerAttrs, lowerVal, attrsCode_lower gf rest]
  | (n, .parts ps) :: rest => by
      simp [attrsCode, attrsExprs, lowerAttrs, lowerVal, attrsCode_lower gf rest, partsCode_lower]

theorem evCode_lower (gf : List Str) (e : PEvent) :
    evCode (lowerEv gf e) = (evExprs e).flatMap (extractFromCode gf) := by
  cases e <;> simp [lowerEv, evCode, evExprs, attrsCode_lower]

theorem flatMap_evCode_lower (gf : List Str) : ∀ l : List PEvent,
    (lowerList gf l).flatMap evCode = (l.flatMap evExprs).flatMap (extractFromCode gf)
  | [] => by simp [lowerList]
  | e :: es => by
      simp [lowerList, evCode_lower, flatMap_evCode_lower gf es, List.flatMap_append]

theorem codeSub_msg_lower (cfg : Cfg) (gf : List Str) (ds : List Dir) (body : List PEvent)
    (h : hasExtractable ds = true) :
    codeSub cfg (.sub ds (lowerList gf body)) = (msgExprs ds body).flatMap (extractFromCode gf) := by
  simp only [codeSub, h, ↓reduceIte]
  match ds, body with
  | [.msg p], .start t a :: rest =>
      simp only [lowerList, lowerEv, msgExprs, List.flatMap_append, attrsCode_lower,
        lowerList_dropLast, flatMap_evCode_lower]
  | [.msg p], [] => simp [lowerList, msgExprs]
  | [.msg p], .end_ t :: rest =>
      simp only [lowerList, lowerEv, msgExprs]
      rw [show TEvent.end_ t :: lowerList gf rest = lowerList gf (.end_ t :: rest) by simp [lowerList, lowerEv]]
      exact flatMap_evCode_lower gf _
  | [.msg p], .text t :: rest =>
      simp only [lowerList, lowerEv, msgExprs]
      rw [show TEvent.text t :: lowerList gf rest = lowerList gf (.text t :: rest) by simp [lowerList, lowerEv]]
      exact flatMap_evCode_lower gf _
  | [.msg p], .expr i e :: rest =>
      simp only [lowerList, lowerEv, msgExprs]
      rw [show TEvent.expr i (extractFromCode gf e) :: lowerList gf rest = lowerList gf (.expr i e :: rest) by
        simp [lowerList, lowerEv]]
      exact flatMap_evCode_lower gf _
  | [.msg p], .exec e :: rest =>
      simp only [lowerList, lowerEv, msgExprs]
      rw [show TEvent.exec (extractFromCode gf e) :: lowerList gf rest = lowerList gf (.exec e :: rest) by
        simp [lowerList, lowerEv]]
      exact flatMap_evCode_lower gf _
  | [.msg p], .sub d b :: rest =>
      simp only [lowerList, lowerEv, msgExprs]
      rw [show TEvent.sub d (lowerList gf b) :: lowerList gf rest = lowerList gf (.sub d b :: rest) by
        simp [lowerList, lowerEv]]
      exact flatMap_evCode_lower gf _
  | [.msg p], .other l :: rest =>
      simp only [lowerList, lowerEv, msgExprs]
      rw [show TEvent.other l :: lowerList gf rest = lowerList gf (.other l :: rest) by simp [lowerList, lowerEv]]
      exact flatMap_evCode_lower gf _
  | [], _ => simp [msgExprs]
  | .msg p :: _ :: _, _ => simp [msgExprs]
  | .domain _ :: _, _ => simp [msgExprs]
  | .comment _ :: _, _ => simp [msgExprs]
  | .ctxt _ :: _, _ => simp [msgExprs]
  | .choose _ :: _, _ => simp [msgExprs]
  | .singular :: _, _ => simp [msgExprs]
  | .plural :: _, _ => simp [msgExprs]
  | .strip :: _, _ => simp [msgExprs]
  | .other _ :: _, _ => simp [msgExprs]

mutual
  theorem codeSub_lower (cfg : Cfg) (gf : List Str) : ∀ e : PEvent,
      codeSub cfg (lowerEv gf e) = (match e with | .sub _ _ => codeExprsEv e | _ => []).flatMap (extractFromCode gf)
    | .sub ds body => by
        by_cases h : hasExtractable ds = true
        · simp only [lowerEv, codeExprsEv, h, ↓reduceIte]
          exact codeSub_msg_lower cfg gf ds body h
        · simp only [lowerEv, codeExprsEv, h, Bool.false_eq_true, ↓reduceIte, codeSub]
          exact codeList_lower cfg gf body
    | .start _ _ => by simp [lowerEv, codeSub]
    | .end_ _ => by simp [lowerEv, codeSub]
    | .text _ => by simp [lowerEv, codeSub]
    | .expr _ _ => by simp [lowerEv, codeSub]
    | .exec _ => by simp [lowerEv, codeSub]
    | .other _ => by simp [lowerEv, codeSub]
  /-- the list `codeList` reads off the lowered stream is what `extract_from_code` reports for
      the pieces of code of the template, in order -/
  theorem codeList_lower (cfg : Cfg) (gf : List Str) : ∀ s : List PEvent,
      codeList cfg (lowerList gf s) = (codeExprs s).flatMap (extractFromCode gf)
    | [] => by simp [lowerList, codeList, codeExprs]
    | .start t a :: es => by
        simp [lowerList, lowerEv, codeList, codeExprs, codeExprsEv, attrsCode_lower, codeList_lower cfg gf es]
    | .end_ t :: es => by
        simp [lowerList, lowerEv, codeList, codeExprs, codeExprsEv, codeList_lower cfg gf es]
    | .text t :: es => by
        simp [lowerList, lowerEv, codeList, codeExprs, codeExprsEv, codeList_lower cfg gf es]
    | .expr i e :: es => by
        simp [lowerList, lowerEv, codeList, codeExprs, codeExprsEv, codeList_lower cfg gf es]
    | .exec e :: es => by
        simp [lowerList, lowerEv, codeList, codeExprs, codeExprsEv, codeList_lower cfg gf es]
    | .other l :: es => by
        simp [lowerList, lowerEv, codeList, codeExprs, codeExprsEv, codeList_lower cfg gf es]
    | .sub ds body :: es => by
        have h1 := codeSub_lower cfg gf (.sub ds body)
        simp only [lowerEv] at h1
        simp only [lowerList, lowerEv, codeList, codeExprs, List.flatMap_append, h1, codeList_lower cfg gf es]
end

/-- **call sites**: extraction with `gettext_functions = gf` returns, and for every piece of code
    `e` of the template and every call `f(args…)` of a plain name `f ∈ gf` occurring anywhere in
    `e`, the message `(f, strings of args, [])` is among the extracted ones -/
theorem code_call_sites_extracted (cfg : Cfg) (gf : List Str) (s : PStream)
    (h : okMsgList (lowerList gf s) = true) :
    ∃ ms, extractP cfg gf s = .ok ms ∧
      ∀ e ∈ codeExprs s, ∀ (f : Str) (args kws : List PyExpr),
        SubExpr (.call (.name f) args kws) e → f ∈ gf → (⟨some f, argVal args, []⟩ : Message) ∈ ms := by
  obtain ⟨ms, hms, hc⟩ := code_calls_extracted cfg (lowerList gf s) h
  refine ⟨ms, hms, ?_⟩
  intro e he f args kws hsub hf
  have hm : (⟨f, argVal args⟩ : CodeMsg) ∈ codeList cfg (lowerList gf s) := by
    rw [codeList_lower]
    exact List.mem_flatMap.2 ⟨e, he, code_call_reported gf e f args kws hsub hf⟩
  exact hc _ hm

/-- … and the code contributes nothing else: every extracted message that `codeList` accounts for
    is the report of a call site (`extractFromCode_eq_gettextCalls`) -/
theorem codeList_lower_calls (cfg : Cfg) (gf : List Str) (s : PStream) :
    codeList cfg (lowerList gf s) = (codeExprs s).flatMap fun e => (gettextCalls gf e).map callReport := by
  rw [codeList_lower]
  congr 1
  funext e
  exact extractFromCode_eq_gettextCalls gf e

end Genshi.I18n

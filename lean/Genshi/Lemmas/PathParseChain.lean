/-
  C05 `parser_accepts_subset` (proved part): every location path written as
  `axis::name/axis::name/…` parses to the steps it denotes.
-/
import Genshi.Model.PathParse
namespace Genshi.Path
open Genshi

def axisName : Axis → Str
  | .attribute => ['a','t','t','r','i','b','u','t','e']
  | .child => ['c','h','i','l','d']
  | .descendant => ['d','e','s','c','e','n','d','a','n','t']
  | .descendantOrSelf => ['d','e','s','c','e','n','d','a','n','t','-','o','r','-','s','e','l','f']
  | .self => ['s','e','l','f']

theorem axisForName_axisName (a : Axis) : axisForName (axisName a) = some a := by cases a <;> decide

/-- a name token that is none of the tokens the parser treats specially at a name position -/
def plainName (n : Str) : Prop := n ≠ ['*'] ∧ n ≠ ['.'] ∧ n ≠ ['['] ∧ n ≠ ['|']

/-- `axis::name/axis::name/…` -/
def chainTokens : List (Axis × Str) → List Str
  | [] => []
  | [(a, n)] => [axisName a, [':', ':'], n]
  | (a, n) :: r => axisName a :: [':', ':'] :: n :: ['/'] :: chainTokens r

def stepOf (p : Axis × Str) : Step := ⟨p.1, .localName (p.1 == .attribute) p.2, []⟩

theorem cur_drop {ts : List Str} {pos : Nat} {x : Str} {r : List Str} (h : ts.drop pos = x :: r) :
    cur ts pos = .ok x := by
  have : ts[pos]? = some x := by
    have := congrArg List.head? h
    simpa [List.head?_drop] using this
  simp [cur, this]

theorem drop_succ {ts : List Str} {pos : Nat} {x : Str} {r : List Str} (h : ts.drop pos = x :: r) :
    ts.drop (pos + 1) = r := by
  have := congrArg List.tail h
  simpa [List.tail_drop] using this

theorem next_drop {ts : List Str} {pos : Nat} {x y : Str} {r : List Str} (h : ts.drop pos = x :: y :: r) :
    next ts pos = .ok (y, pos + 1) := by
  have h1 := drop_succ h
  have : ts[pos + 1]? = some y := by
    have := congrArg List.head? h1
    simpa [List.head?_drop] using this
  simp [next, this]

theorem atEnd_drop_one {ts : List Str} {pos : Nat} {x : Str} (h : ts.drop pos = [x]) : atEnd ts pos = true := by
  have : (ts.drop pos).length = 1 := by rw [h]; rfl
  simp only [List.length_drop] at this
  simp [atEnd]; omega

theorem atEnd_drop_two {ts : List Str} {pos : Nat} {x y : Str} {r : List Str} (h : ts.drop pos = x :: y :: r) :
    atEnd ts pos = false := by
  have : (ts.drop pos).length = r.length + 2 := by rw [h]; rfl
  simp only [List.length_drop] at this
  simp [atEnd]; omega

theorem peek_drop_two {ts : List Str} {pos : Nat} {x y : Str} {r : List Str} (h : ts.drop pos = x :: y :: r) :
    peek ts pos = .ok (some y) := by
  have h1 := drop_succ h
  have : ts[pos + 1]? = some y := by
    have := congrArg List.head? h1
    simpa [List.head?_drop] using this
  simp [peek, atEnd_drop_two h, this]

theorem peek_drop_one {ts : List Str} {pos : Nat} {x : Str} (h : ts.drop pos = [x]) : peek ts pos = .ok none := by
  simp [peek, atEnd_drop_one h]

theorem axisName_plain (a : Axis) : axisName a ≠ ['@'] ∧ axisName a ≠ ['.'] ∧ axisName a ≠ ['.', '.'] ∧
    startsWithSlash (axisName a) = false := by cases a <;> decide

/-- one `axis::name` step, followed by nothing or by `/…` -/
theorem locationStep_named (ts : List Str) (fuel pos : Nat) (a : Axis) (n : Str) (more : List Str) (last : Bool)
    (hn : plainName n)
    (h : ts.drop pos = axisName a :: [':', ':'] :: n :: (if last then [] else ['/'] :: more)) :
    locationStep ts (fuel + 1) pos =
      .ok ((some a, .localName (a == .attribute) n, []), if last then pos + 2 else pos + 3) := by
  obtain ⟨h1, h2, h3, _⟩ := axisName_plain a
  have hd1 := drop_succ h
  have hd2 := drop_succ hd1
  cases last with
  | true =>
    simp only [if_true] at h hd1 hd2 ⊢
    simp only [locationStep, cur_drop h, h1, h2, h3, peek_drop_two h, axisForName_axisName, next_drop h,
      next_drop hd1, bind, Except.bind, pure, Except.pure, if_false, if_true, beq_iff_eq,
      nodeTest, peek_drop_one hd2, cur_drop hd2, atEnd_drop_one hd2, predLoop]
    simp [cur_drop hd2, hn.1, hn.2.1, hn.2.2.1, bind, Except.bind, pure, Except.pure]
  | false =>
    simp only [Bool.false_eq_true, if_false] at h hd1 hd2 ⊢
    have hd3 := drop_succ hd2
    simp only [locationStep, cur_drop h, h1, h2, h3, peek_drop_two h, axisForName_axisName, next_drop h,
      next_drop hd1, bind, Except.bind, pure, Except.pure, if_false, if_true, beq_iff_eq,
      nodeTest, peek_drop_two hd2, cur_drop hd2, atEnd_drop_two hd2, next_drop hd2, predLoop, cur_drop hd3]
    simp [cur_drop hd3, hn.1, hn.2.1, bind, Except.bind, pure, Except.pure]

theorem chainTokens_cons2 (p q : Axis × Str) (r : List (Axis × Str)) :
    chainTokens (p :: q :: r) = axisName p.1 :: [':', ':'] :: p.2 :: ['/'] :: chainTokens (q :: r) := by
  obtain ⟨a, n⟩ := p; rfl

theorem chainTokens_ne (p : Axis × Str) (r : List (Axis × Str)) : chainTokens (p :: r) ≠ [] := by
  obtain ⟨a, n⟩ := p
  cases r <;> simp [chainTokens]

/-- entering the loop at the `/` before a step is entering it at the step -/
theorem locLoop_slash (ts : List Str) (f pos : Nat) (acc : List Step) (x : Str) (r : List Str)
    (hacc : acc ≠ []) (hx : startsWithSlash x = false) (h : ts.drop pos = ['/'] :: x :: r) :
    locLoop ts (f + 1) pos acc = locLoop ts (f + 1) (pos + 1) acc := by
  have hne : acc.isEmpty = false := by
    cases acc with
    | nil => exact absurd rfl hacc
    | cons _ _ => rfl
  have h1 := drop_succ h
  simp only [locLoop, cur_drop h, cur_drop h1, startsWithSlash, hne, next_drop h, bind, Except.bind, pure,
    Except.pure, hx]
  simp [startsWithSlash] at hx ⊢
  simp [hx]

/-- one turn of the loop over a step that is followed by `/` -/
theorem locLoop_iter (ts : List Str) (f' pos : Nat) (acc : List Step) (a : Axis) (n y : Str) (r' : List Str)
    (hn : plainName n) (hy : startsWithSlash y = false)
    (hd : ts.drop pos = axisName a :: [':', ':'] :: n :: ['/'] :: y :: r') :
    locLoop ts (f' + 1 + 1) pos acc
      = locLoop ts (f' + 1) (pos + 3) (acc ++ [⟨a, .localName (a == .attribute) n, []⟩]) := by
  obtain ⟨_, _, _, hns⟩ := axisName_plain a
  have hd' : ts.drop pos = axisName a :: [':', ':'] :: n :: (if false then [] else ['/'] :: (y :: r')) := by
    simpa using hd
  have hstep := locationStep_named ts f' pos a n (y :: r') false hn hd'
  simp only [Bool.false_eq_true, if_false] at hstep
  have hd3 : ts.drop (pos + 3) = ['/'] :: y :: r' := by
    have := drop_succ (drop_succ (drop_succ hd)); simpa using this
  have hsl : startsWithSlash (['/'] : Str) = true := rfl
  conv => lhs; rw [locLoop]
  simp only [cur_drop hd, hns, Bool.false_eq_true, if_false, pure, Except.pure, bind, Except.bind,
    hstep, cur_drop hd3, atEnd_drop_two hd3, Bool.false_or, hsl, Bool.not_true, Option.getD_some]

/-- the loop of `_location_path` over `axis::name/…`, entered at a step -/
theorem locLoop_chain (ts : List Str) :
    ∀ (steps : List (Axis × Str)), steps ≠ [] → (∀ p ∈ steps, plainName p.2) →
      ∀ (fuel pos : Nat) (acc : List Step), steps.length < fuel →
        ts.drop pos = chainTokens steps →
        locLoop ts fuel pos acc = .ok (acc ++ steps.map stepOf, ts.length - 1) := by
  intro steps
  induction steps with
  | nil => intro h; exact absurd rfl h
  | cons p rest ih =>
    intro _ hnames fuel pos acc hfuel hdrop
    obtain ⟨a, n⟩ := p
    have hn : plainName n := hnames (a, n) List.mem_cons_self
    obtain ⟨f, rfl⟩ : ∃ f, fuel = f + 1 := ⟨fuel - 1, by omega⟩
    obtain ⟨_, _, _, hns⟩ := axisName_plain a
    cases rest with
    | nil =>
      -- the last step
      have hd : ts.drop pos = axisName a :: [':', ':'] :: n :: (if true then [] else ['/'] :: []) := by
        simpa [chainTokens] using hdrop
      obtain ⟨f', rfl⟩ : ∃ f', f = f' + 1 := ⟨f - 1, by simp at hfuel; omega⟩
      have hstep := locationStep_named ts f' pos a n [] true hn hd
      have hd2 : ts.drop (pos + 2) = [n] := by
        have := drop_succ (drop_succ hd); simpa using this
      have hlen : ts.length - 1 = pos + 2 := by
        have : (ts.drop pos).length = 3 := by rw [hd]; rfl
        simp only [List.length_drop] at this; omega
      simp only [if_true] at hstep hd
      simp only [locLoop, cur_drop hd, hns, Bool.false_eq_true, if_false, pure, Except.pure, bind, Except.bind,
        hstep, cur_drop hd2, atEnd_drop_one hd2, Bool.true_or, if_true, hlen]
      simp [stepOf]
    | cons q r =>
      obtain ⟨f', rfl⟩ : ∃ f', f = f' + 1 := ⟨f - 1, by simp at hfuel; omega⟩
      have hd : ts.drop pos = axisName a :: [':', ':'] :: n ::
          (if false then [] else ['/'] :: chainTokens (q :: r)) := by
        rw [hdrop, chainTokens_cons2]; rfl
      have hstep := locationStep_named ts f' pos a n (chainTokens (q :: r)) false hn hd
      simp only [Bool.false_eq_true, if_false] at hstep hd
      have hd3 : ts.drop (pos + 3) = ['/'] :: chainTokens (q :: r) := by
        have := drop_succ (drop_succ (drop_succ hd)); simpa using this
      obtain ⟨y, r', hyr⟩ : ∃ y r', chainTokens (q :: r) = y :: r' := by
        cases hct : chainTokens (q :: r) with
        | nil => exact absurd hct (chainTokens_ne _ _)
        | cons y r' => exact ⟨y, r', rfl⟩
      have hy : startsWithSlash y = false := by
        obtain ⟨b, m⟩ := q
        have : y = axisName b := by
          cases r <;> simp [chainTokens] at hyr <;> exact hyr.1.symm
        rw [this]; exact (axisName_plain b).2.2.2
      have hd3' : ts.drop (pos + 3) = ['/'] :: y :: r' := by rw [hd3, hyr]
      have hd4 : ts.drop pos = axisName a :: [':', ':'] :: n :: ['/'] :: y :: r' := by rw [hd, hyr]
      rw [locLoop_iter ts f' pos acc a n y r' hn hy hd4]
      rw [locLoop_slash ts f' (pos + 3) _ y r' (by simp) hy hd3']
      have := ih (by simp) (fun p hp => hnames p (List.mem_cons_of_mem _ hp)) (f' + 1) (pos + 3 + 1)
        (acc ++ [⟨a, .localName (a == .attribute) n, []⟩]) (by simp at hfuel ⊢; omega)
        (by have := drop_succ hd3; rw [this])
      rw [this]
      simp [stepOf]

theorem chainTokens_length (steps : List (Axis × Str)) : steps.length ≤ (chainTokens steps).length := by
  induction steps with
  | nil => simp [chainTokens]
  | cons p r ih =>
    cases r with
    | nil => obtain ⟨a, n⟩ := p; simp [chainTokens]
    | cons q r' => rw [chainTokens_cons2]; simp at ih ⊢; omega

theorem chainTokens_getLast (steps : List (Axis × Str)) (p : Axis × Str) (h : steps.getLast? = some p) :
    (chainTokens steps).getLast? = some p.2 := by
  induction steps with
  | nil => simp at h
  | cons q r ih =>
    cases r with
    | nil =>
      obtain ⟨a, n⟩ := q
      simp at h; subst h
      simp [chainTokens]
    | cons q' r' =>
      rw [chainTokens_cons2]
      rw [List.getLast?_cons_cons] at h
      have := ih h
      obtain ⟨y, r'', hyr⟩ : ∃ y r'', chainTokens (q' :: r') = y :: r'' := by
        cases hct : chainTokens (q' :: r') with
        | nil => exact absurd hct (chainTokens_ne _ _)
        | cons y r'' => exact ⟨y, r'', rfl⟩
      rw [hyr] at this ⊢
      simp only [List.getLast?_cons_cons]
      exact this

/-- **parser_accepts_subset** (proved part): `axis::name/axis::name/…` -/
theorem parse_chain (steps : List (Axis × Str)) (hne : steps ≠ []) (hnames : ∀ p ∈ steps, plainName p.2) :
    parseTokens (chainTokens steps) = .ok [steps.map stepOf] := by
  obtain ⟨pl, hpl⟩ : ∃ pl, steps.getLast? = some pl := by
    cases h : steps.getLast? with
    | none => simp [List.getLast?_eq_none_iff] at h; exact absurd h hne
    | some pl => exact ⟨pl, rfl⟩
  have hlast := chainTokens_getLast steps pl hpl
  have hplm : pl ∈ steps := List.mem_of_getLast? hpl
  have hpn := hnames pl hplm
  have hlen := chainTokens_length steps
  have hpos : 0 < (chainTokens steps).length := by
    cases steps with
    | nil => exact absurd rfl hne
    | cons p r => simp at hlen; omega
  have hcur : cur (chainTokens steps) ((chainTokens steps).length - 1) = .ok pl.2 := by
    rw [List.getLast?_eq_getElem?] at hlast
    simp [cur, hlast]
  have hend : atEnd (chainTokens steps) ((chainTokens steps).length - 1) = true := by
    simp [atEnd]; omega
  obtain ⟨f, hf⟩ : ∃ f, 16 * ((chainTokens steps).length + 2) = f + 1 := ⟨16 * ((chainTokens steps).length + 2) - 1, by omega⟩
  have hloop := locLoop_chain (chainTokens steps) steps hne hnames (f + 1) 0 [] (by omega) (by simp)
  unfold parseTokens
  simp only [hf, hloop, bind, Except.bind, List.nil_append, unionLoop, hcur, pure, Except.pure, hend]
  simp [hpn.2.2.2, hend]

end Genshi.Path

/-
  Trace semantics: the injector links (replace / before / after / prepend / append) over an action
  list.  What such a link yields is the injector loop with a content that VARIES from injection to
  injection (`runGoL`, `prependL`, `appendGoL`): each injection expands the content with the buffers
  of that moment; when every buffer is balanced whenever an item is yielded (`BalAt`), every content
  is admissible (`VOk`).
-/
import Genshi.Lemmas.TfTraceGen
import Genshi.Lemmas.TfVary
namespace Genshi.Tf

theorem vok_content {b : BufF} (hb : BufFOk b) {c : Content} (hc : c.Ok) : VOk (inj (contentAt b c)) := by
  refine ⟨inj_noneMarked _, ?_⟩
  rw [unmark_inj]
  cases c with
  | str t => exact bal_ensureStr t
  | evs s => simpa [contentAt, content, evsOf_map_ev, Content.Ok] using hc
  | buf id => exact hb id

theorem vok_nil : VOk [] := ⟨fun p hp => by simp at hp, Bal.nil⟩

theorem resolve_append_noWr {x : List Act} (hx : NoWr x) (y : List Act) (b : BufF) :
    resolve b (x ++ y) = resolve b x ++ resolve b y := by
  rw [resolve_append, hx.effs]

theorem noWr_keepAct (keep : Bool) (p : MItem) : NoWr (keepAct keep p) := by
  intro x hx
  cases keep <;> simp [keepAct] at hx
  subst hx; rfl

theorem outsOf_resolve_keepAct (b : BufF) (keep : Bool) (p : MItem) :
    outsOf (resolve b (keepAct keep p)) = if keep then [p] else [] := by
  cases keep <;> rfl

theorem noWr_append {x y : List Act} (hx : NoWr x) (hy : NoWr y) : NoWr (x ++ y) := by
  intro z hz
  rcases List.mem_append.mp hz with h | h
  · exact hx z h
  · exact hy z h

theorem noWr_out (p : MItem) : NoWr [.out p] := by
  intro z hz; simp at hz; subst hz; rfl

theorem noWr_inj (c : Content) : NoWr [.inj c] := by
  intro z hz; simp at hz; subst hz; rfl

theorem noWr_nil : NoWr [] := by intro z hz; simp at hz

/-! ### replace / before / after -/

theorem run_link (op : Op) (pre post : List Act) (keep : Bool)
    (hstep : ∀ c p, stepOp op c p = runStepC pre post keep c p) (hfin : ∀ c, finOp op c = runFinC post c)
    (hpre : NoWr pre) (hpost : NoWr post)
    (hv : ∀ b', BufFOk b' → VOk (outsOf (resolve b' pre)) ∧ VOk (outsOf (resolve b' post))) :
    ∀ (a : List Act) (st : RunSt) (b : BufF) (u : List Act), injFree a = true → BalAt b a →
      linkU op (.run st) a = some u →
      ∃ pres posts, (∀ c ∈ pres, VOk c) ∧ (∀ c ∈ posts, VOk c) ∧
        outsOf (resolve b u) = runGoL keep st pres posts (outsOf a)
  | [], st, b, u, _, hb, h => by
    simp only [linkU, hfin, runFinC, Option.some.injEq] at h
    subst h
    cases st with
    | idle => exact ⟨[], [], by simp, by simp, rfl⟩
    | inEnter =>
      exact ⟨[], [outsOf (resolve b post)], by simp, by simpa using (hv b hb).2, by simp [runFin, runGoL, outsOf]⟩
    | inRun m0 =>
      exact ⟨[], [outsOf (resolve b post)], by simp, by simpa using (hv b hb).2, by simp [runFin, runGoL, outsOf]⟩
  | y :: as, st, b, u, hf, hb, h => by
    cases y with
    | inj ct => simp [injFree] at hf
    | reset id =>
      simp only [linkU, Option.map_eq_some_iff] at h
      obtain ⟨u2, h2, rfl⟩ := h
      obtain ⟨pres, posts, h3, h4, h5⟩ := run_link op pre post keep hstep hfin hpre hpost hv as st _ u2
        (by simpa [injFree] using hf) hb h2
      exact ⟨pres, posts, h3, h4, by simpa [resolve, outsOf] using h5⟩
    | app id z =>
      simp only [linkU, Option.map_eq_some_iff] at h
      obtain ⟨u2, h2, rfl⟩ := h
      obtain ⟨pres, posts, h3, h4, h5⟩ := run_link op pre post keep hstep hfin hpre hpost hv as st _ u2
        (by simpa [injFree] using hf) hb h2
      exact ⟨pres, posts, h3, h4, by simpa [resolve, outsOf] using h5⟩
    | out p =>
      obtain ⟨m, x⟩ := p
      simp only [linkU, hstep, runStepC, Option.map_eq_some_iff] at h
      obtain ⟨u2, h2, rfl⟩ := h
      obtain ⟨pres, posts, h3, h4, h5⟩ := run_link op pre post keep hstep hfin hpre hpost hv as
        (runStep pre post keep st (m, x)).1 b u2 (by simpa [injFree] using hf) hb.2 h2
      obtain ⟨vP, vQ⟩ := hv b hb.1
      have cons : ∀ (c : MStream) (l : List MStream), VOk c → (∀ d ∈ l, VOk d) → ∀ d ∈ c :: l, VOk d := by
        intro c l hc hl d hd
        rcases List.mem_cons.mp hd with rfl | hd
        · exact hc
        · exact hl d hd
      have hk := noWr_keepAct keep (m, x)
      cases st with
      | idle =>
        cases m with
        | none =>
          refine ⟨pres, posts, h3, h4, ?_⟩
          simp only [runStep] at h5 ⊢
          rw [resolve_append_noWr (noWr_out _), outsOf_append, h5]
          simp [resolve, outsOf, runGoL]
        | some m =>
          refine ⟨outsOf (resolve b pre) :: pres, posts, cons _ _ vP h3, h4, ?_⟩
          simp only [runStep] at h5 ⊢
          rw [resolve_append_noWr (noWr_append hpre hk), resolve_append_noWr hpre, outsOf_append, outsOf_append,
            h5, outsOf_resolve_keepAct]
          simp [outsOf, runGoL]
      | inEnter =>
        by_cases he : m = some Mark.exit
        · subst he
          refine ⟨pres, outsOf (resolve b post) :: posts, h3, cons _ _ vQ h4, ?_⟩
          simp only [runStep, ↓reduceIte] at h5 ⊢
          rw [resolve_append_noWr (noWr_append hk hpost), resolve_append_noWr hk, outsOf_append, outsOf_append,
            h5, outsOf_resolve_keepAct]
          simp [outsOf, runGoL]
        · refine ⟨pres, posts, h3, h4, ?_⟩
          simp only [runStep, he, ↓reduceIte] at h5 ⊢
          rw [resolve_append_noWr hk, outsOf_append, h5, outsOf_resolve_keepAct]
          simp [outsOf, runGoL, he]
      | inRun m0 =>
        by_cases he : m = some m0
        · refine ⟨pres, posts, h3, h4, ?_⟩
          simp only [runStep, he, ↓reduceIte] at h5 ⊢
          rw [resolve_append_noWr (noWr_keepAct keep _), outsOf_append, h5, outsOf_resolve_keepAct]
          simp [outsOf, runGoL]
        · cases m with
          | none =>
            refine ⟨pres, outsOf (resolve b post) :: posts, h3, cons _ _ vQ h4, ?_⟩
            simp only [runStep, he, ↓reduceIte] at h5 ⊢
            rw [resolve_append_noWr (noWr_append hpost (noWr_out _)), resolve_append_noWr hpost, outsOf_append,
              outsOf_append, h5]
            simp [resolve, outsOf, runGoL]
          | some m' =>
            have hne : ¬ m' = m0 := fun hc => he (by rw [hc])
            refine ⟨outsOf (resolve b pre) :: pres, outsOf (resolve b post) :: posts, cons _ _ vP h3,
              cons _ _ vQ h4, ?_⟩
            simp only [runStep, he, ↓reduceIte] at h5 ⊢
            rw [resolve_append_noWr (noWr_append hpost (noWr_append hpre hk)), resolve_append_noWr hpost,
              resolve_append_noWr hpre, outsOf_append, outsOf_append, outsOf_append, h5, outsOf_resolve_keepAct]
            simp [outsOf, runGoL, hne]

/-! ### prepend -/

theorem prepend_link (ct : Content) (hc : ct.Ok) : ∀ (a : List Act) (b : BufF) (u : List Act),
    injFree a = true → BalAt b a → linkU (.prepend ct) .unit a = some u →
    ∃ cs, (∀ c ∈ cs, VOk c) ∧ outsOf (resolve b u) = prependL cs (outsOf a)
  | [], b, u, _, _, h => by
    simp only [linkU, finOp, Option.some.injEq] at h
    subst h
    exact ⟨[], by simp, rfl⟩
  | y :: as, b, u, hf, hb, h => by
    cases y with
    | inj c => simp [injFree] at hf
    | reset id =>
      simp only [linkU, Option.map_eq_some_iff] at h
      obtain ⟨u2, h2, rfl⟩ := h
      obtain ⟨cs, h3, h5⟩ := prepend_link ct hc as _ u2 (by simpa [injFree] using hf) hb h2
      exact ⟨cs, h3, by simpa [resolve, outsOf] using h5⟩
    | app id z =>
      simp only [linkU, Option.map_eq_some_iff] at h
      obtain ⟨u2, h2, rfl⟩ := h
      obtain ⟨cs, h3, h5⟩ := prepend_link ct hc as _ u2 (by simpa [injFree] using hf) hb h2
      exact ⟨cs, h3, by simpa [resolve, outsOf] using h5⟩
    | out p =>
      obtain ⟨m, x⟩ := p
      simp only [linkU, stepOp, Option.map_eq_some_iff] at h
      obtain ⟨u2, h2, rfl⟩ := h
      obtain ⟨cs, h3, h5⟩ := prepend_link ct hc as b u2 (by simpa [injFree] using hf) hb.2 h2
      by_cases he : m = some Mark.enter
      · refine ⟨inj (contentAt b ct) :: cs, ?_, ?_⟩
        · intro d hd
          rcases List.mem_cons.mp hd with rfl | hd
          · exact vok_content hb.1 hc
          · exact h3 d hd
        · subst he
          have hn : NoWr [Act.out (some Mark.enter, x), Act.inj ct] := noWr_append (noWr_out _) (noWr_inj _)
          simp only [↓reduceIte]
          rw [resolve_append_noWr hn, outsOf_append, h5]
          simp [resolve, outsOf, outsOf_append, outsOf_outs, prependL]
      · refine ⟨cs, h3, ?_⟩
        simp only [he, ↓reduceIte]
        rw [resolve_append_noWr (noWr_out _), outsOf_append, h5]
        simp [resolve, outsOf, prependL, he]

/-! ### append -/

theorem append_link (ct : Content) (hc : ct.Ok) : ∀ (a : List Act) (l : Option MItem) (b : BufF) (u : List Act),
    injFree a = true → BalAt b a → linkU (.append ct) (.last l) a = some u →
    ∃ cs, (∀ c ∈ cs, VOk c) ∧ outsOf (resolve b u) = appendGoL cs l (outsOf a)
  | [], l, b, u, _, hb, h => by
    cases l with
    | none =>
      simp only [linkU, finOp, Option.some.injEq] at h
      subst h
      exact ⟨[], by simp, rfl⟩
    | some last =>
      simp only [linkU, finOp, Option.some.injEq] at h
      subst h
      refine ⟨[inj (contentAt b ct)], ?_, ?_⟩
      · intro d hd
        simp only [List.mem_singleton] at hd
        subst hd
        exact vok_content hb hc
      · simp [resolve, outsOf, outsOf_append, outsOf_outs, appendGoL]
  | y :: as, l, b, u, hf, hb, h => by
    cases y with
    | inj c => simp [injFree] at hf
    | reset id =>
      simp only [linkU, Option.map_eq_some_iff] at h
      obtain ⟨u2, h2, rfl⟩ := h
      obtain ⟨cs, h3, h5⟩ := append_link ct hc as l _ u2 (by simpa [injFree] using hf) hb h2
      exact ⟨cs, h3, by simpa [resolve, outsOf] using h5⟩
    | app id z =>
      simp only [linkU, Option.map_eq_some_iff] at h
      obtain ⟨u2, h2, rfl⟩ := h
      obtain ⟨cs, h3, h5⟩ := append_link ct hc as l _ u2 (by simpa [injFree] using hf) hb h2
      exact ⟨cs, h3, by simpa [resolve, outsOf] using h5⟩
    | out p =>
      obtain ⟨m, x⟩ := p
      cases l with
      | none =>
        simp only [linkU, stepOp, Option.map_eq_some_iff] at h
        obtain ⟨u2, h2, rfl⟩ := h
        obtain ⟨cs, h3, h5⟩ := append_link ct hc as _ b u2 (by simpa [injFree] using hf) hb.2 h2
        refine ⟨cs, h3, ?_⟩
        rw [resolve_append_noWr (noWr_out _), outsOf_append, h5]
        simp [resolve, outsOf, appendGoL]
      | some last =>
        by_cases he : m = some Mark.exit
        · simp only [linkU, stepOp, he, ↓reduceIte, Option.map_eq_some_iff] at h
          obtain ⟨u2, h2, rfl⟩ := h
          obtain ⟨cs, h3, h5⟩ := append_link ct hc as _ b u2 (by simpa [injFree] using hf) hb.2 h2
          refine ⟨inj (contentAt b ct) :: cs, ?_, ?_⟩
          · intro d hd
            rcases List.mem_cons.mp hd with rfl | hd
            · exact vok_content hb.1 hc
            · exact h3 d hd
          · have hn : NoWr [Act.inj ct, Act.out (some Mark.exit, x)] := noWr_append (noWr_inj _) (noWr_out _)
            rw [resolve_append_noWr hn, outsOf_append, h5]
            simp [resolve, outsOf, outsOf_append, outsOf_outs, appendGoL, he]
        · simp only [linkU, stepOp, he, ↓reduceIte, Option.map_eq_some_iff] at h
          obtain ⟨u2, h2, rfl⟩ := h
          obtain ⟨cs, h3, h5⟩ := append_link ct hc as _ b u2 (by simpa [injFree] using hf) hb.2 h2
          refine ⟨cs, h3, ?_⟩
          rw [resolve_append_noWr (noWr_out _), outsOf_append, h5]
          simp [resolve, outsOf, appendGoL, he]

end Genshi.Tf

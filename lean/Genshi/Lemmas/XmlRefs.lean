/-
  Character data written by the serializer and by `encode` is read back by the
  reader's reference decoder: entity blocks of `escape`, decimal character
  references of `xmlcharrefreplace`.
-/
import Genshi.Model.XmlSer
import Genshi.Model.XmlReader
import Genshi.Lemmas.XmlNum
import Genshi.Lemmas.Escape
namespace Genshi.Xml
open Genshi Genshi.Escape Genshi.Xml.Reader

theorem decodeGo_lit (attr : Bool) (c : Char) (rest : Str)
    (hx : isXmlChar c = true) (hamp : c ≠ '&')
    (hattr : attr = true → c ≠ '<' ∧ c ≠ '\t' ∧ c ≠ '\n' ∧ c ≠ '\r') :
    decodeGo attr none (c :: rest) = (decodeGo attr none rest).map (c :: ·) := by
  cases attr with
  | false =>
    rw [decodeGo.eq_def]
    split
    · simp_all
    · simp_all
    · simp_all
    · simp_all
    · simp_all
    · simp_all
  | true =>
    obtain ⟨h1, h2, h3, h4⟩ := hattr rfl
    rw [decodeGo.eq_def]
    split
    · simp_all
    · simp_all
    · simp_all
    · simp_all
    · simp_all
    · simp_all

/-- inside a reference: everything up to the `;` is the name -/
theorem decodeGo_name (attr : Bool) (name : Str) (hn : ';' ∉ name) (acc rest : Str) :
    decodeGo attr (some acc) (name ++ ';' :: rest) =
      match refChar (acc.reverse ++ name) with
      | some c => (decodeGo attr none rest).map (c :: ·)
      | none => none := by
  induction name generalizing acc with
  | nil => simp [decodeGo]; rfl
  | cons d ds ih =>
    have hd : d ≠ ';' := by intro h; apply hn; simp [h]
    have hds : ';' ∉ ds := by intro h; apply hn; simp [h]
    have step : decodeGo attr (some acc) (d :: (ds ++ ';' :: rest)) = decodeGo attr (some (d :: acc)) (ds ++ ';' :: rest) := by
      rw [decodeGo.eq_def]
      split <;> simp_all
    simp only [List.cons_append]
    rw [step, ih hds (d :: acc)]
    simp

theorem decodeGo_ref (attr : Bool) (name : Str) (hn : ';' ∉ name) (rest : Str) :
    decodeGo attr none ('&' :: (name ++ ';' :: rest)) =
      match refChar name with
      | some c => (decodeGo attr none rest).map (c :: ·)
      | none => none := by
  have : decodeGo attr none ('&' :: (name ++ ';' :: rest)) = decodeGo attr (some []) (name ++ ';' :: rest) := by
    simp only [decodeGo]
  rw [this, decodeGo_name attr name hn [] rest]
  simp

theorem charOfNat?_toNat (c : Char) (hx : isXmlChar c = true) : charOfNat? c.toNat = some c := by
  unfold charOfNat?
  have hv : c.toNat.isValidChar := c.valid
  simp only [hv, dite_true]
  have : Char.ofNatAux c.toNat hv = c := by
    have h2 := Char.ofNat_toNat c
    unfold Char.ofNat at h2
    simpa [hv] using h2
  rw [this]; simp [hx]

theorem isDigit_ne_x (d : Char) (h : isDigit d = true) : d ≠ 'x' := by
  intro hx; subst hx; revert h; decide

theorem isDigit_ne_semi (d : Char) (h : isDigit d = true) : d ≠ ';' := by
  intro hx; subst hx; revert h; decide

theorem refChar_digits (ds : Str) (hne : ds ≠ []) (hd : ds.all isDigit = true) :
    refChar ('#' :: ds) = charOfNat? (parseDec ds) := by
  match ds, hne with
  | d :: ds', _ =>
    have hdx : d ≠ 'x' := isDigit_ne_x d (by simp at hd; exact hd.1)
    rw [refChar.eq_def]
    split
    case h_7 =>
      rename_i heq
      have heq' := (List.cons.inj heq).2
      subst heq'
      simp_all
    all_goals simp_all

theorem semi_not_mem_digits (ds : Str) (hd : ds.all isDigit = true) : ';' ∉ ds := by
  intro h
  have := List.all_eq_true.mp hd ';' h
  revert this; decide

/-- a character reference written by `xmlcharrefreplace` is read back as the character -/
theorem decodeGo_charRef (attr : Bool) (c : Char) (hx : isXmlChar c = true) (rest : Str) :
    decodeGo attr none (charRef c ++ rest) = (decodeGo attr none rest).map (c :: ·) := by
  unfold charRef
  have hne := dec_ne_nil c.toNat
  have hd := dec_all_digit c.toNat
  have hsemi : ';' ∉ '#' :: dec c.toNat := by
    intro h
    rcases List.mem_cons.mp h with h | h
    · exact absurd h (by decide)
    · exact semi_not_mem_digits _ hd h
  have := decodeGo_ref attr ('#' :: dec c.toNat) hsemi rest
  have e : '&' :: '#' :: dec c.toNat ++ [';'] ++ rest = '&' :: (('#' :: dec c.toNat) ++ ';' :: rest) := by simp
  rw [e, this, refChar_digits _ hne hd, parseDec_dec, charOfNat?_toNat c hx]

/-- the five blocks `escape` writes -/
theorem decodeGo_escC (attr q : Bool) (c : Char) (rest : Str) (hx : isXmlChar c = true)
    (hattr : attr = true → c ≠ '\t' ∧ c ≠ '\n' ∧ c ≠ '\r') :
    decodeGo attr none (escC q c ++ rest) = (decodeGo attr none rest).map (c :: ·) := by
  unfold escC
  by_cases h1 : c = '&'
  · subst h1
    have := decodeGo_ref attr ['a', 'm', 'p'] (by decide) rest
    simpa [amp, refChar] using this
  by_cases h2 : c = '<'
  · subst h2
    have := decodeGo_ref attr ['l', 't'] (by decide) rest
    simpa [lt, refChar] using this
  by_cases h3 : c = '>'
  · subst h3
    have := decodeGo_ref attr ['g', 't'] (by decide) rest
    simpa [gt, refChar] using this
  by_cases h4 : c = '"'
  · subst h4
    cases q with
    | true =>
      have := decodeGo_ref attr ['#', '3', '4'] (by decide) rest
      have hr : refChar ['#', '3', '4'] = some '"' := by decide
      simpa [qt, hr] using this
    | false =>
      simp only [h1, h2, h3, if_false, if_true, Bool.false_eq_true]
      exact decodeGo_lit attr '"' rest (by decide) (by decide) (fun _ => by decide)
  simp only [h1, h2, h3, h4, if_false]
  exact decodeGo_lit attr c rest hx h1 (fun ha => ⟨h2, hattr ha⟩)

/-- what `encode` makes of one escaped character -/
def encEsc (rep : Char → Bool) (q : Bool) (c : Char) : Str := encodeText rep (escC q c)

def AsciiRep (rep : Char → Bool) : Prop := ∀ c : Char, c.toNat < 128 → rep c = true

theorem encodeText_ascii (rep : Char → Bool) (hr : AsciiRep rep) (s : Str) (hs : ∀ c ∈ s, c.toNat < 128) :
    encodeText rep s = s := by
  induction s with
  | nil => rfl
  | cons c cs ih =>
    have hc := hr c (hs c (by simp))
    have := ih (fun d hd => hs d (by simp [hd]))
    simp only [encodeText, List.flatMap_cons] at this ⊢
    rw [this]; simp [hc]

theorem encEsc_eq (rep : Char → Bool) (hr : AsciiRep rep) (q : Bool) (c : Char) :
    encEsc rep q c = if rep c then escC q c else charRef c := by
  unfold encEsc escC
  by_cases h1 : c = '&'
  · subst h1; have := hr '&' (by decide); simp [this, encodeText_ascii rep hr amp (by decide)]
  by_cases h2 : c = '<'
  · subst h2; have := hr '<' (by decide); simp [this, encodeText_ascii rep hr lt (by decide)]
  by_cases h3 : c = '>'
  · subst h3; have := hr '>' (by decide); simp [this, encodeText_ascii rep hr gt (by decide)]
  by_cases h4 : c = '"'
  · subst h4
    have := hr '"' (by decide)
    cases q with
    | true => simp [this, encodeText_ascii rep hr qt (by decide)]
    | false => simp [this, encodeText]
  simp [h1, h2, h3, h4, encodeText]

theorem encodeText_escapeSpec (rep : Char → Bool) (q : Bool) (s : Str) :
    encodeText rep (escapeSpec q s) = s.flatMap (encEsc rep q) := by
  unfold encodeText escapeSpec encEsc encodeText
  rw [List.flatMap_assoc]

theorem decodeGo_encEsc (rep : Char → Bool) (hr : AsciiRep rep) (attr q : Bool) (c : Char) (rest : Str)
    (hx : isXmlChar c = true) (hattr : attr = true → c ≠ '\t' ∧ c ≠ '\n' ∧ c ≠ '\r') :
    decodeGo attr none (encEsc rep q c ++ rest) = (decodeGo attr none rest).map (c :: ·) := by
  rw [encEsc_eq rep hr]
  by_cases h : rep c = true
  · simp only [h, if_true]; exact decodeGo_escC attr q c rest hx hattr
  · simp only [h]; exact decodeGo_charRef attr c hx rest

/-- escaped and encoded character data is decoded to the original -/
theorem decodeGo_encode_escape (rep : Char → Bool) (hr : AsciiRep rep) (attr q : Bool) (s : Str)
    (hx : s.all isXmlChar = true)
    (hattr : attr = true → ∀ c ∈ s, c ≠ '\t' ∧ c ≠ '\n' ∧ c ≠ '\r') :
    decodeGo attr none (encodeText rep (escapeSpec q s)) = some s := by
  rw [encodeText_escapeSpec]
  induction s with
  | nil => simp [decodeGo]
  | cons c cs ih =>
    simp only [List.all_cons, Bool.and_eq_true] at hx
    rw [List.flatMap_cons, decodeGo_encEsc rep hr attr q c _ hx.1 (fun ha => hattr ha c (by simp))]
    rw [ih hx.2 (fun ha d hd => hattr ha d (by simp [hd]))]
    rfl

end Genshi.Xml

/-
  C12 — the tree-rewrite theorems transported to the real matcher (the path model of C05/C17):
  a template list built from `<py:match path=…>` declarations, each simulated by its lawful
  abstraction (Lemmas/MatchReal.lean), run through the simulation lemma (Lemmas/MatchSim.lean).
-/
import Genshi.Lemmas.MatchReal
import Genshi.Lemmas.MatchChain
import Genshi.Lemmas.MatchSpec
namespace Genshi.Match
open Genshi Genshi.Path

/-! ### the specification does not look inside a matcher either -/

section
variable {σ τ : Type}

mutual
  theorem specNode_sim {a : MT σ} {b : MT τ} (R : σ → τ → Prop)
      (hstep : ∀ s t e u, SE e → R s t → R (a.step s e u).1 (b.step t e u).1 ∧ (a.step s e u).2 = (b.step t e u).2)
      (hbody : a.body = b.body) (hrec : a.recursive = b.recursive) {s0 : σ} {t0 : τ} (h0 : R s0 t0) :
      ∀ (n : Node) (anc : List Open), specNode a s0 anc n = specNode b t0 anc n
    | .leaf e, anc => rfl
    | .elem tg at_ kids, anc => by
        have hk := specList_sim R hstep hbody hrec h0 kids ((tg, at_) :: anc)
        have hv := (hstep _ _ (.start tg at_) false (Or.inl rfl) (openSt_rel (a := a) (b := b) R hstep h0 anc)).2
        simp only [specNode, hv, hk, hbody, hrec]
  theorem specList_sim {a : MT σ} {b : MT τ} (R : σ → τ → Prop)
      (hstep : ∀ s t e u, SE e → R s t → R (a.step s e u).1 (b.step t e u).1 ∧ (a.step s e u).2 = (b.step t e u).2)
      (hbody : a.body = b.body) (hrec : a.recursive = b.recursive) {s0 : σ} {t0 : τ} (h0 : R s0 t0) :
      ∀ (ns : List Node) (anc : List Open), specList a s0 anc ns = specList b t0 anc ns
    | [], anc => rfl
    | n :: ns, anc => by
        simp only [specList, specNode_sim R hstep hbody hrec h0 n anc, specList_sim R hstep hbody hrec h0 ns anc]
end

theorem specList_trel {a : MT σ} {b : MT τ} (h : TRel a b) (ns : List Node) :
    specList a a.st [] ns = specList b b.st [] ns := by
  obtain ⟨R, hstep, hst, hb, _, hr, _⟩ := h
  exact specList_sim R hstep hb hr hst ns []

/-- a chain of tree rewrites by simulating templates is the chain by the simulated ones -/
theorem chain_sim {A : List (MT σ)} {B : List (MT τ)} (h : LRel A B) : ∀ {s k : Nat} {ns : List Node} {out : List Event},
    Chain B s k ns out → Chain A s k ns out := by
  intro s k ns out hc
  induction hc with
  | done s ns => exact Chain.done s ns
  | @step s k ns ns' out t ht hok hfl _ ih =>
    rcases lrel_get h s with ⟨_, g2⟩ | ⟨ta, tb, g1, g2, hab⟩
    · rw [g2] at ht; cases ht
    · rw [g2] at ht
      cases ht
      exact Chain.step g1 hok (by rw [hfl, specList_trel hab]) ih

end

/-! ### template lists made of `<py:match>` declarations -/

/-- one `<py:match path=… buffer=… once=… recursive=…>` declaration: the parsed path (a union of
    location paths), the body, the hints; `force` pins the strategy (`none`: `Path.__init__`'s choice) -/
structure Decl where
  paths : List LocPath
  body : List BItem
  hints : Hints
  force : Option Strategy := none

section
variable (ns : NsMap) (vs : Vars)

def Decl.real (d : Decl) : MT RSt := mkReal d.paths ns vs d.body d.hints d.force
def Decl.abs (d : Decl) : MT (List AM) := mkAbs ns vs d.paths d.body d.hints d.force

/-- the declaration is in the subset the theorems cover: no position tests (`PathsOk`) -/
def Decl.ok (d : Decl) : Prop := PathsOk ns vs d.paths d.force

theorem decls_lrel : ∀ (ds : List Decl), (∀ d ∈ ds, d.ok ns vs) → LRel (ds.map (Decl.real ns vs)) (ds.map (Decl.abs ns vs)) := by
  intro ds
  induction ds with
  | nil => intro _; exact .nil
  | cons d ds ih =>
    intro h
    exact .cons (real_trel ns vs d.paths d.body d.hints d.force (h d List.mem_cons_self))
      (ih (fun x hx => h x (List.mem_cons_of_mem _ hx)))

theorem abs_stageOK (d : Decl) (hok : d.ok ns vs) (ho : d.hints.matchOnce = false) (hb : BodyOK d.body) :
    StageOK (d.abs ns vs) :=
  ⟨ho, rfl, abs_lawful ns vs d.paths d.body d.hints d.force hok, abs_flagFree ns vs _ _ _ _, hb⟩

/-- **The filter over real match templates is a chain of tree rewrites.** -/
theorem real_run_is_chain (ds : List Decl) (hok : ∀ d ∈ ds, d.ok ns vs) (hb : ∀ d ∈ ds, BodyOK d.body)
    (k s f : Nat) (forest : List Node) (r : List (MT RSt) × List Event) (hns : okList forest = true)
    (hst : ∀ j d, s ≤ j → j < s + k → ds[j]? = some d → d.hints.matchOnce = false) (hlen : s + k ≤ ds.length)
    (h : run f s (some (s + k)) (evItems (flattenList forest)) (ds.map (Decl.real ns vs)) = some r) :
    Chain (ds.map (Decl.real ns vs)) s k forest r.2 := by
  have hL := decls_lrel ns vs ds hok
  rcases run_rel f s (some (s + k)) (irel_evItems (σ := RSt) (τ := List AM) (flattenList forest)) hL with
    ⟨h1, _⟩ | ⟨A, B, o, h1, h2, _⟩
  · rw [h1] at h; cases h
  · rw [h1] at h
    cases h
    refine chain_sim hL (run_is_chain k s f forest (ds.map (Decl.abs ns vs)) (B, o) hns ?_ (by simpa using hlen) ?_ h2)
    · intro j t hj1 hj2 ht
      rw [List.getElem?_map] at ht
      cases hd : ds[j]? with
      | none => rw [hd] at ht; cases ht
      | some d =>
        rw [hd] at ht
        cases ht
        have hmem : d ∈ ds := List.mem_of_getElem? hd
        exact abs_stageOK ns vs d (hok d hmem) (hst j d hj1 hj2 hd) (hb d hmem)
    · intro t ht
      obtain ⟨d, hd, rfl⟩ := List.mem_map.mp ht
      exact ⟨hb d hd, abs_flagFree ns vs _ _ _ _⟩

/-- **Exactly the elements the pattern matcher marks.**  The stage that owns the declaration `d` (slot
    `i`, no `once`) rewrites the forest by the marks of the pattern matcher of the path model
    (`patternMarks`: `Path.test(ignore_context=True)` run over each top-level tree from its initial
    state, every event shown). -/
theorem real_stage_is_marks (ds : List Decl) (hok : ∀ d ∈ ds, d.ok ns vs) (i : Nat) (d : Decl) (hd : ds[i]? = some d)
    (ho : d.hints.matchOnce = false)
    (f : Nat) (forest : List Node) (r : List (MT RSt) × List Event) (hns : okList forest = true)
    (h : run f i (some (i + 1)) (evItems (flattenList forest)) (ds.map (Decl.real ns vs)) = some r) :
    r.2 = specList (d.real ns vs) (d.real ns vs).st [] forest ∧
    r.2 = (mkKids d.body (!d.hints.notRecursive) forest (forest.flatMap (patternMarks d.paths ns vs d.force))).1 := by
  have hL := decls_lrel ns vs ds hok
  have hdok := hok d (List.mem_of_getElem? hd)
  have hl := abs_lawful ns vs d.paths d.body d.hints d.force hdok
  have hlf := abs_leafFree ns vs d.paths d.body d.hints d.force hdok
  have htr := real_trel ns vs d.paths d.body d.hints d.force hdok
  rcases run_rel f i (some (i + 1)) (irel_evItems (σ := RSt) (τ := List AM) (flattenList forest)) hL with
    ⟨h1, _⟩ | ⟨A, B, o, h1, h2, _⟩
  · rw [h1] at h; cases h
  · rw [h1] at h
    cases h
    have hslot : SlotAt i (d.abs ns vs) (d.abs ns vs).st [] (ds.map (Decl.abs ns vs)) :=
      ⟨d.abs ns vs, by rw [List.getElem?_map, hd]; rfl, Shape.refl _, rfl, rfl⟩
    have hspec := (stage_is_spec (d.abs ns vs) (d.abs ns vs).st i hl ho f forest [] _ (B, o) hns hslot h2).1
    simp only at hspec
    refine ⟨by rw [hspec]; exact (specList_trel htr forest).symm, ?_⟩
    have hm := (spec_marks_list (d.abs ns vs) hl hlf (d.abs ns vs).st forest [] hns).2 []
    simp only [List.append_nil, openSt] at hm
    have hmf := marks_forest (d.abs ns vs) hl hlf (d.abs ns vs).st forest hns
    have hper : ∀ top : Node, (marksOf (d.abs ns vs).step (d.abs ns vs).st top.flatten).1 = patternMarks d.paths ns vs d.force top := by
      intro top
      have := marks_sim ns vs (pathTest d.paths true d.force).1 hdok top.flatten (pathTest d.paths true d.force).2
        ((pathTest d.paths true d.force).1.map initA) (init_rel ns vs d.paths d.force hdok)
      rw [real_marks] at this
      exact this.symm
    rw [hmf] at hm
    simp only [hper] at hm
    have hbody : (d.abs ns vs).body = d.body := rfl
    have hrec : (d.abs ns vs).recursive = !d.hints.notRecursive := rfl
    rw [hbody, hrec] at hm
    rw [hm, hspec]

end

end Genshi.Match

namespace Genshi.Match
open Genshi Genshi.Path

section
variable (ns : NsMap) (vs : Vars)

/-! ### a static criterion for `PathsOk`, per location path and the strategy that serves it -/

/-- no position tests, in static terms (`Expr.numTyped`): under GenericStrategy the hypotheses of C05
    (`StepsOk`) on the step list the matcher works with, under SingleStepStrategy no numeric predicate
    on the step, under SimplePathStrategy nothing (it supports no predicates at all) -/
def PatternOkS (st : Strategy) (p : LocPath) : Prop :=
  match st with
  | .generic => StepsOk ns vs (gSteps p true)
  | .single => ∀ s0, (sSteps p).head? = some s0 → ∀ q ∈ s0.preds, q.numTyped vs = false
  | .simple => True

/-- the strategy that serves a location path: the forced one, or `Path.__init__`'s choice -/
def stratOf (force : Option Strategy) (p : LocPath) : Strategy :=
  match force with
  | some s => s
  | none => (chooseStrategy p).getD .generic

def PatternOk (force : Option Strategy) (p : LocPath) : Prop := PatternOkS ns vs (stratOf force p) p

theorem matcherOk_mk (st : Strategy) (p : LocPath) (h : PatternOkS ns vs st p) :
    MatcherOk ns vs (mkMatcher st p true).1 := by
  cases st with
  | generic => exact matcherOk_generic ns vs _ h
  | single => exact matcherOk_single ns vs _ h
  | simple => exact rfl

theorem pathsOk_of_patternOk (paths : List LocPath) (force : Option Strategy)
    (h : ∀ p ∈ paths, PatternOk ns vs force p) : PathsOk ns vs paths force := by
  intro m hm
  simp only [pathTest, List.map_map, List.mem_map, Function.comp] at hm
  obtain ⟨p, hp, rfl⟩ := hm
  exact matcherOk_mk ns vs (stratOf force p) p (h p hp)

/-- the step list GenericStrategy builds in pattern mode for `s0/rest` (no leading `.`): the first
    step moves to the descendant-or-self axis; the static hypotheses carry over -/
theorem stepsOk_pattern (s0 : Step) (rest : LocPath) (hp : StepsOk ns vs (s0 :: rest))
    (hnd : stripDot (s0 :: rest) = s0 :: rest) :
    gSteps (s0 :: rest) true = ⟨.descendantOrSelf, s0.test, s0.preds⟩ :: rest ∧
    StepsOk ns vs (⟨.descendantOrSelf, s0.test, s0.preds⟩ :: rest) := by
  have hna : (s0.axis == Axis.attribute) = false := by
    simpa using hp.na s0 List.mem_cons_self
  have hg : gSteps (s0 :: rest) true = ⟨.descendantOrSelf, s0.test, s0.preds⟩ :: rest := by
    simp [gSteps, hnd, hna]
  have hmem : ∀ s ∈ (⟨.descendantOrSelf, s0.test, s0.preds⟩ :: rest : List Step),
      s = ⟨.descendantOrSelf, s0.test, s0.preds⟩ ∨ s ∈ s0 :: rest := by
    intro s hs
    rcases List.mem_cons.mp hs with h | h
    · exact Or.inl h
    · exact Or.inr (List.mem_cons_of_mem _ h)
  refine ⟨hg, by simp, ?_, ?_, ?_, ?_⟩
  · intro s hs
    rcases hmem s hs with h | h
    · subst h; simp
    · exact hp.na s h
  · intro s hs
    rcases hmem s hs with h | h
    · subst h; exact hp.wf s0 List.mem_cons_self
    · exact hp.wf s h
  · intro s hs
    rcases hmem s hs with h | h
    · subst h; exact hp.typed s0 List.mem_cons_self
    · exact hp.typed s h
  · intro s hs
    rcases hmem s hs with h | h
    · subst h; exact hp.nonpos s0 List.mem_cons_self
    · exact hp.nonpos s h

/-- under GenericStrategy without position tests every verdict is `None` or `True` -/
theorem generic_vals (S : List Step) (hm : MatcherOk ns vs (.generic S)) : ∀ (es : List Event) (g : GState) (a : AState),
    StRel (realLen S) g a → ∀ v ∈ (runOne (gStep S ns vs) g es).1, v = .none ∨ v = .bool true := by
  intro es
  induction es with
  | nil => intro g a _ v hv; simp [runOne] at hv
  | cons e es ih =>
    intro g a h v hv
    obtain ⟨hrl, hnp, _, hlast⟩ := hm
    obtain ⟨h1, h2⟩ := gStep_abstract ns vs S hrl hnp g a h e
    simp only [runOne, List.mem_cons] at hv
    rcases hv with rfl | hv
    · rw [h2, hlast e, gate_true _ (aStep_out ns vs _ _ a e)]
      exact aStep_out ns vs _ _ a e
    · exact ih _ _ h1 v hv

/-- for such a path `result is True` and "the result is truthy" (what C05's `matched`/`selB` read) agree -/
theorem patternMarks_truthy (p : LocPath) (hok : StepsOk ns vs (gSteps p true)) (top : Node) :
    patternMarks [p] ns vs (some .generic) top =
      (runTest (pathTest [p] true (some .generic)).1 ns vs (pathTest [p] true (some .generic)).2 top.flatten).map
        Val.truthy := by
  have hm := matcherOk_generic ns vs _ hok
  unfold patternMarks
  apply List.map_congr_left
  intro v hv
  simp only [pathTest, List.map_cons, List.map_nil, mkMatcher] at hv
  rw [runTest_genericL] at hv
  have h0 : StRel (realLen (gSteps p true)) gInit [[0]] := ⟨rfl, by simp [gInit], by simp [gInit, hm.2.2.1]⟩
  rcases generic_vals ns vs _ hm _ _ _ h0 v hv with rfl | rfl <;> rfl

end

end Genshi.Match

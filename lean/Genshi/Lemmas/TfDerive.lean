import Genshi.Model.Tf
/-!
# Derivation trees with `Transformer.apply(Transformer)` (chain concatenation)

`Transformer.apply(function)`: when `function` is itself a `Transformer`, the derived transformer's
chain is the chain of the object the method was called on followed by ALL links of the argument
(`transformer.transforms.extend(function.transforms)`); both stay as they were.  Model:
`deriveCat`, `DStep`, `historyD` (`Model/Tf.lean`); tie: driver verb `derive2`, correspondence
streams `derive-history` (chains of all objects after every derivation, links named by the
derivation that made them) and `chains-derived` (behaviour of the derived objects).
-/
namespace Genshi.Tf

theorem deriveCat_length {α : Type} (h : List (List α)) (k j : Nat) :
    (deriveCat h k j).length = h.length + 1 := by
  simp [deriveCat]

theorem derive_length {α : Type} (h : List (List α)) (k : Nat) (x : α) :
    (derive h k x).length = h.length + 1 := by
  simp [derive]

/-- Deriving by `t_k.apply(t_j)` leaves every transformer built before — in particular the origin
    `t_k` and the argument `t_j` — as it was. -/
theorem apply_transformer_leaves_origins {α : Type} (h : List (List α)) (k j i : Nat) (hi : i < h.length) :
    (deriveCat h k j)[i]? = h[i]? := by
  simp [deriveCat, List.getElem?_append_left hi]

/-- … and the new transformer's chain is exactly the origin's chain followed by the argument's
    chain (all of its links, in their order), one new object. -/
theorem apply_transformer_concatenates {α : Type} (h : List (List α)) (k j : Nat) :
    (deriveCat h k j)[h.length]? = some (h.getD k [] ++ h.getD j []) ∧
      (deriveCat h k j).length = h.length + 1 := by
  simp [deriveCat]

example : deriveCat [[0], [0, 1], [0, 2]] 1 2 = [[0], [0, 1], [0, 2], [0, 1, 0, 2]] := by decide
example : (deriveCat [[0], [0, 1], [0, 2]] 1 2)[1]? = some [0, 1] := by decide
-- an object applied to itself: its chain twice
example : deriveCat [[0], [0, 1]] 1 1 = [[0], [0, 1], [0, 1, 0, 1]] := by decide

theorem dstep_length {α : Type} (h : List (List α)) (st : DStep α) : (st.run h).length = h.length + 1 := by
  cases st <;> simp [DStep.run, derive, deriveCat]

theorem dstep_take {α : Type} (h : List (List α)) (st : DStep α) : (st.run h).take h.length = h := by
  cases st <;> simp [DStep.run, derive, deriveCat]

/-- Over a whole history of derivations of both kinds (operation methods and `apply(Transformer)`,
    from any earlier object, with any earlier object as the argument): every snapshot extends the
    previous one, nothing is ever changed — the chains of the first `h.length` objects are `h` in
    every snapshot. -/
theorem historyD_keeps_chains {α : Type} : ∀ (ds : List (DStep α)) (h : List (List α)) (snap : List (List α)),
    snap ∈ historyD h ds → snap.take h.length = h := by
  intro ds
  induction ds with
  | nil => intro h snap hm; simp [historyD] at hm
  | cons d ds ih =>
    intro h snap hm
    simp only [historyD, List.mem_cons] at hm
    rcases hm with rfl | hm
    · exact dstep_take h d
    · have := ih (d.run h) snap hm
      have hl := dstep_length h d
      have h2 : snap.take h.length = (snap.take (d.run h).length).take h.length := by
        rw [List.take_take]; congr 1; omega
      rw [h2, this]; exact dstep_take h d

example : historyD [[0]] [.one 0 1, .one 0 2, .cat 1 2, .cat 3 3, .one 3 5] =
    [[[0], [0, 1]], [[0], [0, 1], [0, 2]], [[0], [0, 1], [0, 2], [0, 1, 0, 2]],
     [[0], [0, 1], [0, 2], [0, 1, 0, 2], [0, 1, 0, 2, 0, 1, 0, 2]],
     [[0], [0, 1], [0, 2], [0, 1, 0, 2], [0, 1, 0, 2, 0, 1, 0, 2], [0, 1, 0, 2, 5]]] := by decide

/-- the n-th snapshot holds the initial objects and one more per derivation made so far -/
theorem historyD_snapshot_sizes {α : Type} : ∀ (ds : List (DStep α)) (h : List (List α)) (n : Nat)
    (snap : List (List α)), (historyD h ds)[n]? = some snap → snap.length = h.length + n + 1 := by
  intro ds
  induction ds with
  | nil => intro h n snap hm; simp [historyD] at hm
  | cons d ds ih =>
    intro h n snap hm
    cases n with
    | zero =>
      simp only [historyD, List.getElem?_cons_zero, Option.some.injEq] at hm
      subst hm; exact dstep_length h d
    | succ n =>
      simp only [historyD, List.getElem?_cons_succ] at hm
      have := ih (d.run h) n snap hm
      rw [this, dstep_length]; omega

example : (historyD [[0]] [.one 0 1, .cat 1 1])[1]? = some [[0], [0, 1], [0, 1, 0, 1]] := by decide

/-- `history` is the special case of `historyD` without `apply(Transformer)` steps -/
theorem historyD_one {α : Type} : ∀ (ds : List (Nat × α)) (h : List (List α)),
    historyD h (ds.map fun d => DStep.one d.1 d.2) = history h ds := by
  intro ds
  induction ds with
  | nil => intro h; simp [historyD, history]
  | cons d ds ih =>
    intro h
    obtain ⟨k, x⟩ := d
    simp only [List.map_cons, historyD, history, DStep.run]
    rw [ih]

example : historyD [[0]] [.one 0 1, .one 1 3] = history [[0]] [(0, 1), (1, 3)] := by decide

/-! ### behaviour of a concatenated chain -/

/-- A chain `a ++ b` run stage-wise is `a`, then `b` on the marked stream and the buffers `a` left
    (failure of either is failure of the whole). -/
theorem runChain_append : ∀ (a b : List Op) (bufs : Bufs) (s : MStream),
    runChain (a ++ b) bufs s = (runChain a bufs s).bind fun r => runChain b r.2 r.1 := by
  intro a
  induction a with
  | nil => intro b bufs s; simp [runChain]
  | cons op a ih =>
    intro b bufs s
    simp only [List.cons_append, runChain]
    cases hop : applyOp bufs op s with
    | none => simp
    | some r => obtain ⟨s', b'⟩ := r; simp only []; exact ih b b' s'

/-- The transformer made by `t_k.apply(t_j)` behaves like `t_k` followed by the links of `t_j`
    applied to the MARKED output of `t_k` (the marks and the buffers `t_k` left are what the first
    select of `t_j` sees): for all chains, buffers, streams. -/
theorem apply_transformer_runs_in_sequence (h : List (List Op)) (k j : Nat) (bufs : Bufs) (s : MStream) :
    ∀ c, (deriveCat h k j)[h.length]? = some c →
      runChain c bufs s = (runChain (h.getD k []) bufs s).bind fun r => runChain (h.getD j []) r.2 r.1 := by
  intro c hc
  have := (apply_transformer_concatenates h k j).1
  rw [this] at hc
  cases hc
  exact runChain_append _ _ _ _

-- non-vacuity: `Transformer('.')`-like chains; `t1 = t0.rename(n)`, `t2 = t1.apply(t1)`
example :
    let h : List (List Op) := [[.endSel], [.endSel, .rename ⟨[], ['n']⟩]]
    ∃ c, (deriveCat h 1 1)[h.length]? = some c ∧ c.length = 4 := ⟨_, rfl, rfl⟩

/-! ### `attr(name, callable)`: any callable `value(name, event)` -/

/-- attr(name, f) for ANY callable `f` (a function of the tag and the attributes of the START event
    it is shown): the stream keeps its length and its marks; an item that is not an ENTER-marked
    START event is unchanged; an ENTER-marked START gets the attribute set to `f`'s value, or
    deleted when `f` returns `None` — nothing else of the element changes. -/
theorem attr_callable_changes_only_selected (n : QName) (f : QName → AttrList → Option Str) (s : MStream) :
    setAttrFn n f s = s.map (attrFnEv n f) ∧
    (∀ p : MItem, (attrFnEv n f p).1 = p.1) ∧
    (∀ (m : Option Mark) (x : MEv), m ≠ some .enter → attrFnEv n f (m, x) = (m, x)) ∧
    (∀ (m : Option Mark) (x : MEv), (∀ t a, x ≠ .ev (.start t a)) → attrFnEv n f (m, x) = (m, x)) ∧
    (∀ t a, attrFnEv n f (some .enter, .ev (.start t a)) =
        (some .enter, .ev (.start t (match f t a with
          | none => attrsSub a [n]
          | some w => attrsSet a n w)))) := by
  refine ⟨rfl, ?_, ?_, ?_, fun t a => rfl⟩
  · rintro ⟨_ | m, x⟩
    · rfl
    · cases m <;> cases x with
      | ev e => cases e <;> rfl
      | _ => rfl
  · intro m x hm
    cases m with
    | none => rfl
    | some m =>
      cases m <;> first | exact absurd rfl hm | rfl
  · intro m x hx
    cases m with
    | none => rfl
    | some m =>
      cases m <;> cases x with
      | ev e =>
        cases e with
        | start t a => first | exact absurd rfl (hx t a) | rfl
        | _ => rfl
      | _ => rfl

/-- a callable that returns the same value for every element is the constant value -/
theorem attr_callable_constant (n : QName) (v : Option Str) (s : MStream) :
    setAttrFn n (fun _ _ => v) s = setAttr n v s := by
  have h : attrFnEv n (fun _ _ => v) = attrEv n v := by
    funext p
    obtain ⟨m, x⟩ := p
    cases m with
    | none => rfl
    | some m =>
      cases m <;> cases x with
      | ev e => cases e <;> rfl
      | _ => rfl
  unfold setAttrFn setAttr
  rw [h]

-- the callable reads the tag off the START event: `<b x="1">` selected gets `k="b"`
example : setAttrFn ⟨[], ['k']⟩ (fun t _ => some t.loc)
    [(some .enter, .ev (.start ⟨[], ['b']⟩ [(⟨[], ['x']⟩, ['1'])])), (some .exit, .ev (.end_ ⟨[], ['b']⟩)),
     (none, .ev (.start ⟨[], ['c']⟩ []))] =
    [(some .enter, .ev (.start ⟨[], ['b']⟩ [(⟨[], ['x']⟩, ['1']), (⟨[], ['k']⟩, ['b'])])),
     (some .exit, .ev (.end_ ⟨[], ['b']⟩)), (none, .ev (.start ⟨[], ['c']⟩ []))] := by decide

example : setAttrFn ⟨[], ['x']⟩ (fun _ _ => none)
    [(some .enter, .ev (.start ⟨[], ['b']⟩ [(⟨[], ['x']⟩, ['1'])]))] =
    setAttr ⟨[], ['x']⟩ none [(some .enter, .ev (.start ⟨[], ['b']⟩ [(⟨[], ['x']⟩, ['1'])]))] :=
  attr_callable_constant _ _ _

/-! ### `substitute` and `map(f, TEXT)` with the driven function are instances of `mapText` -/

/-- `substitute(pattern, replace, count)` is `map(f, TEXT)` for `f = re.sub(pattern, replace, ·, count)`
    (a `Markup` text stays one): so `map_text_changes_only_selected_text` speaks about it — exactly the
    selected TEXT events change, by `subst`. -/
theorem substitute_is_map_text (p r : Str) (n : Nat) (s : MStream) :
    substitute p r n s = mapText (fun t sf => (subst p r n t, sf)) s := by
  have h : substEv p r n = mapTextEv (fun t sf => (subst p r n t, sf)) := by
    funext q
    obtain ⟨m, x⟩ := q
    cases m with
    | none => rfl
    | some m =>
      cases x with
      | ev e => cases e <;> rfl
      | _ => rfl
  unfold substitute mapText
  rw [h]

/-- `map(lambda d: d + '!', TEXT)` (the function the correspondence drives; also the user-written
    generator given to `apply(function)`) is `mapText` of that function. -/
theorem map_bang_text_is_map_text (s : MStream) :
    mapBang false s = mapText (fun t sf => (bang t, sf)) s := by
  have h : mapBangEv false = mapTextEv (fun t sf => (bang t, sf)) := by
    funext q
    obtain ⟨m, x⟩ := q
    cases m with
    | none => rfl
    | some m =>
      cases x with
      | ev e => cases e <;> rfl
      | _ => rfl
  unfold mapBang mapText
  rw [h]

example : substitute ['t'] ['Q'] 1 [(some .outside, .ev (.text ['t', 't'] false)), (none, .ev (.text ['t'] false))] =
    [(some .outside, .ev (.text ['Q', 't'] false)), (none, .ev (.text ['t'] false))] := by decide
example : mapBang false [(some .inside, .ev (.text ['a'] true)), (some .inside, .ev (.comment ['a']))] =
    [(some .inside, .ev (.text ['a', '!'] true)), (some .inside, .ev (.comment ['a']))] := by decide

end Genshi.Tf

/-
  C06 (wave 4, package `sanx`) — the two repeat-until-stable loops of the sanitizer carry fuel in
  the model (`stripRefsFix`: reference decoding of an attribute value, `stripCommentsFix`:
  `_strip_css_comments`).  The fuel the model passes (`length + 1`) is never the reason a loop
  stops: every pass that changes the text shortens it, so any larger fuel gives the same result,
  and the result is a fixed point of one more pass — at every depth (the `deep` stream of the
  harness compares model and code on values that need thousands of passes).
-/
import Genshi.Lemmas.SanRefs
import Genshi.Lemmas.SanCssComments
set_option linter.unusedSimpArgs false
namespace Genshi.San
open Genshi.Gen Genshi.San.Spec

/-- more fuel than the length of the text changes nothing: the decoding loop stops because the
    text is stable, never because the fuel is spent -/
theorem stripRefsFix_fuel : ∀ (f g : Nat) (s : Str), s.length < f → s.length < g →
    stripRefsFix f s = stripRefsFix g s := by
  intro f
  induction f with
  | zero => intro g s hf; simp at hf
  | succ f ih =>
    intro g s hf hg
    cases g with
    | zero => simp at hg
    | succ g =>
      obtain ⟨t, ht⟩ := stripentities_ok s
      unfold stripRefsFix
      simp only [ht, ok_bind]
      by_cases he : t = s
      · simp [he]
      · simp only [he, ↓reduceIte]
        rcases stripentities_shrinks ht with h1 | h1
        · exact absurd h1 he
        · exact ih g t (by omega) (by omega)

theorem stripRefs_fuel (s : Str) (g : Nat) (hg : s.length < g) : stripRefsFix g s = stripRefs s :=
  (stripRefsFix_fuel (s.length + 1) g s (Nat.lt_succ_self _) hg).symm

theorem stripCommentsOnce_len (s : Str) :
    stripCommentsOnce true s = s ∨ (stripCommentsOnce true s).length < s.length := by
  have : stripCommentsOnce true s = stripOnceGo (s.length + 1) s := stripCommentsGo_true _ s
  rw [this]
  exact stripOnceGo_len s.length s (Nat.le_refl _) (s.length + 1) (Nat.lt_succ_self _)

/-- the same for the comment-removal loop (DOTALL, as compiled) -/
theorem stripCommentsFix_fuel : ∀ (f g : Nat) (s : Str), s.length < f → s.length < g →
    stripCommentsFix true f s = stripCommentsFix true g s := by
  intro f
  induction f with
  | zero => intro g s hf; simp at hf
  | succ f ih =>
    intro g s hf hg
    cases g with
    | zero => simp at hg
    | succ g =>
      unfold stripCommentsFix
      simp only
      by_cases he : stripCommentsOnce true s = s
      · simp [he]
      · simp only [he, ↓reduceIte]
        rcases stripCommentsOnce_len s with h1 | h1
        · exact absurd h1 he
        · exact ih g _ (by omega) (by omega)

/-- the number of passes the decoding loop makes is bounded by the length of the text: after
    `n` passes that each changed the text, the text is at least `n` shorter -/
theorem stripRefsFix_passes : ∀ (n : Nat) (s : Str), s.length < n →
    ∀ v, stripRefsFix n s = .ok v → v.length ≤ s.length := by
  intro n
  induction n with
  | zero => intro s hf; simp at hf
  | succ n ih =>
    intro s hf v h
    obtain ⟨t, ht⟩ := stripentities_ok s
    unfold stripRefsFix at h
    simp only [ht, ok_bind] at h
    by_cases he : t = s
    · simp [he] at h; subst h; exact Nat.le_refl _
    · simp only [he, ↓reduceIte] at h
      rcases stripentities_shrinks ht with h1 | h1
      · exact absurd h1 he
      · have := ih t (by omega) v h
        omega

end Genshi.San

/-
  C14 — which error ends a run over a well-formed include graph: when every include target
  exists, is written in the template language its include asks for, and the graph is acyclic
  (a rank decreases along includes), and the fuel exceeds the rank of the root, then `load` /
  `preload` / `gen` never end in "not found", "recursion without end" or the model's
  "unmodelled": the only error left is the parsers' `syntax` (TemplateSyntaxError).
-/
import Genshi.Lemmas.ExecRoot
namespace Genshi.Exec
open Genshi.Gen.Exec

def Err.isSyntax : Err → Bool
  | .syntax _ => true
  | _ => false

structure WellFormed (fs : FS) (rank : Nat → Nat) : Prop where
  /-- every include names an existing file -/
  targets : ∀ a f n p dyn, fs.lookup a = some f → Item.incl n p dyn ∈ f.items → (fs.lookup n).isSome = true
  /-- the include graph is acyclic: a rank decreases along every include -/
  acyclic : ∀ a b, Inc fs a b → rank b < rank a
  /-- the included file is written in the language the include asks for (`parse="text"` names a
      new-style text template, a text template includes templates of its own kind) -/
  classes : ∀ a f n p dyn g, fs.lookup a = some f → Item.incl n p dyn ∈ f.items →
    fs.lookup n = some g → g.syn = childCls f.syn p

theorem childCls_text (c : Cls) (p : Parse) (h : c ≠ .markup) : childCls c p = c := by
  cases c <;> cases p <;> simp_all [childCls]

theorem parse_err_syntax (c : Cls) (flag : Bool) (name : Nat) (f : File) (e : Err)
    (hc : c = f.syn ∨ c = .markup) (h : parseFile c flag name f = .error e) : e.isSyntax = true := by
  unfold parseFile at h
  by_cases h1 : f.syn ≠ c
  · rw [if_pos h1] at h
    have h2 : c = .markup := by
      rcases hc with hc | hc
      · exact absurd hc.symm h1
      · exact hc
    rw [if_pos h2] at h; cases h; rfl
  · rw [if_neg h1] at h
    by_cases h2 : noCode f.items = true
    · rw [if_pos h2] at h; cases h
    · rw [if_neg h2] at h
      cases c <;> cases flag <;> simp at h <;> (subst h; rfl)

theorem load_err_syntax (fs : FS) (st : St) (name : Nat) (c : Cls) (abs : Bool) (e : Err) (g : File)
    (hex : fs.lookup name = some g) (hc : c = g.syn ∨ c = .markup)
    (h : load fs st name c abs = .error e) : e.isSyntax = true := by
  unfold load at h
  cases hl : st.cache.lookup (name, abs) with
  | some t0 => rw [hl] at h; cases h
  | none =>
      rw [hl, hex] at h
      simp only at h
      cases hp : parseFile c st.flag name g with
      | error e' => rw [hp] at h; cases h; exact parse_err_syntax c st.flag name g e hc hp
      | ok t => rw [hp] at h; cases h

/-- what the error-kind induction carries: the cache stays faithful, and an error — if any — is a
    template syntax error -/
def Tame (fs : FS) (r : Res) : Prop := Faithful fs r.1 ∧ ∀ e, r.2 = some e → e.isSyntax = true

theorem preload_tame (fs : FS) (rank : Nat → Nat) (hwf : WellFormed fs rank) (fuel : Nat) :
    ∀ (stack : List Nat) (t : Tmpl) (st : St), Faithful fs st → TF fs t → rank t.name < fuel →
      Tame fs (preload fuel fs stack t st) := by
  induction fuel with
  | zero => intro stack t st _ _ h; cases h
  | succ fuel ih =>
      intro stack t st hf htf hr
      unfold preload
      obtain ⟨f, hfl, hitems, hcls⟩ := htf
      apply foldl_inv (Tame fs)
      · exact ⟨hf, by intro e h; cases h⟩
      · intro acc it hit hacc
        obtain ⟨sa, ea⟩ := acc
        cases ea with
        | some e => exact hacc
        | none =>
            obtain ⟨hfa, _⟩ := hacc
            simp only at hfa
            cases it with
            | text i => exact ⟨hfa, by intro e h; cases h⟩
            | expr i => exact ⟨hfa, by intro e h; cases h⟩
            | code i m => exact ⟨hfa, by intro e h; cases h⟩
            | incl n p dyn =>
                cases dyn with
                | true => exact ⟨hfa, by intro e h; cases h⟩
                | false =>
                    simp only
                    have hmem : Item.incl n p false ∈ f.items := by rw [← hitems]; exact hit
                    have hex := hwf.targets t.name f n p false hfl hmem
                    cases hg : fs.lookup n with
                    | none => rw [hg] at hex; cases hex
                    | some g =>
                    have hgs := hwf.classes t.name f n p false g hfl hmem hg
                    cases hl : load fs sa n (childCls t.cls p) t.absHrefs with
                    | error e =>
                        exact ⟨hfa, by
                          intro e' h; cases h
                          exact load_err_syntax fs sa n _ _ e g hg (Or.inl (by rw [hcls, hgs])) hl⟩
                    | ok pr =>
                        obtain ⟨st', t'⟩ := pr
                        obtain ⟨hf', _, hname, htf', _⟩ := load_faithful fs sa st' n _ _ t' hfa hl
                        simp only
                        by_cases hk : stack.contains t'.name = true
                        · rw [if_pos hk]; exact ⟨hf', by intro e h; cases h⟩
                        · rw [if_neg hk]
                          have hrank : rank t'.name < fuel := by
                            have := hwf.acyclic t.name n ⟨f, p, false, hfl, hmem⟩
                            rw [hname]; omega
                          exact ih (t'.name :: stack) t' st' hf' htf' hrank

theorem gen_tame (fs : FS) (rank : Nat → Nat) (hwf : WellFormed fs rank) (pf : Nat) (fuel : Nat) :
    ∀ (prep : Bool) (host : Cls) (stack : List Nat) (t : Tmpl) (st : St), Faithful fs st → TF fs t →
      (host = t.cls ∨ host = .markup) →
      rank t.name < fuel → rank t.name < pf → Tame fs (gen fuel pf fs prep host stack t st) := by
  induction fuel with
  | zero => intro prep host stack t st _ _ _ h; cases h
  | succ fuel ih =>
      intro prep host stack t st hf htf hhost hr hpf
      unfold gen
      have htf0 := htf
      obtain ⟨f, hfl, hitems, hcls⟩ := htf
      apply foldl_inv (Tame fs)
      · by_cases hp : (prep && !st.autoReload) = true
        · rw [if_pos hp]; exact preload_tame fs rank hwf pf stack t st hf htf0 hpf
        · rw [if_neg hp]; exact ⟨hf, by intro e h; cases h⟩
      · intro acc it hit hacc
        obtain ⟨sa, ea⟩ := acc
        cases ea with
        | some e => exact hacc
        | none =>
            obtain ⟨hfa, _⟩ := hacc
            simp only at hfa
            cases it with
            | text i => exact ⟨hfa, by intro e h; cases h⟩
            | expr i => exact ⟨hfa, by intro e h; cases h⟩
            | code i m => exact ⟨hfa, by intro e h; cases h⟩
            | incl n p dyn =>
                simp only
                have hmem : Item.incl n p dyn ∈ f.items := by rw [← hitems]; exact hit
                have hex := hwf.targets t.name f n p dyn hfl hmem
                have hlt : rank n < rank t.name := hwf.acyclic t.name n ⟨f, p, dyn, hfl, hmem⟩
                cases hg : fs.lookup n with
                | none => rw [hg] at hex; cases hex
                | some g =>
                have hgs : g.syn = childCls f.syn p := hwf.classes t.name f n p dyn g hfl hmem hg
                by_cases hin : (!sa.autoReload && !dyn && !stack.contains n) = true
                · rw [if_pos hin]
                  cases hl : load fs sa n (childCls t.cls p) t.absHrefs with
                  | error e =>
                      exact ⟨hfa, by
                        intro e' h; cases h
                        exact load_err_syntax fs sa n _ _ e g hg (Or.inl (by rw [hcls, hgs])) hl⟩
                  | ok pr =>
                      obtain ⟨st', t'⟩ := pr
                      obtain ⟨hf', _, hname, htf', _⟩ := load_faithful fs sa st' n _ _ t' hfa hl
                      -- the host still fits the inlined template
                      have hhost' : host = t'.cls ∨ host = .markup := by
                        obtain ⟨g', hg', _, hcls'⟩ := htf'
                        rw [hname, hg] at hg'
                        cases hg'
                        rcases hhost with hh | hh
                        · by_cases hm : f.syn = .markup
                          · right; rw [hh, hcls, hm]
                          · left; rw [hcls', hgs, childCls_text f.syn p hm, hh, hcls]
                        · right; exact hh
                      exact ih false host (n :: stack) t' st' hf' htf' hhost' (by rw [hname]; omega) (by rw [hname]; omega)
                · rw [if_neg hin]
                  cases hl : load fs sa n (inclCls t.cls p host) t.absHrefs with
                  | error e =>
                      exact ⟨hfa, by
                        intro e' h; cases h
                        refine load_err_syntax fs sa n _ _ e g hg ?_ hl
                        -- the class a run-time include resolves to: the writer's own (fix 37ed34d)
                        left; rw [hcls, hgs]; rfl⟩
                  | ok pr =>
                      obtain ⟨st', t'⟩ := pr
                      obtain ⟨hf', _, hname, htf', _⟩ := load_faithful fs sa st' n _ _ t' hfa hl
                      exact ih true t'.cls [t'.name] t' st' hf' htf' (Or.inl rfl) (by rw [hname]; omega) (by rw [hname]; omega)

/-! ### the root -/

/-- class the root template is constructed / loaded with -/
def Root.cls : Root → Option Cls
  | .direct c _ _ => some c
  | .load c _ => some c
  | .pluginFile p => pluginCls p
  | .pluginString p => pluginCls p

/-- the root makes sense: its file exists and is written for the class it is built with, and
    the source kind exists for that class (a parsed stream is a markup-only source) -/
structure RootOk (root : Root) (fs : FS) (rn : Nat) : Prop where
  file : ∃ f, fs.lookup rn = some f ∧ root.cls = some f.syn
  src : ∀ c s own, root = .direct c s own → srcOk c s = true

theorem mkLoader_ok_disabled (cfg : Config) (root : Root) (fs : FS) (rn : Nat) (hd : root.disabled cfg)
    (hok : RootOk root fs rn) : ∃ st, mkLoader cfg root = .ok st := by
  cases root with
  | direct c s own =>
      have hs := hok.src c s own rfl
      simp only [mkLoader]
      have := (directFlag_isSome c s cfg.tmpl (if own = true then none else some cfg.loader)).2
      rw [hs] at this
      cases hdl : directLoaderFlag c s cfg.tmpl (if own = true then none else some cfg.loader) with
      | none => rw [hdl] at this; cases this
      | some lf => exact ⟨_, rfl⟩
  | load c d =>
      simp only [mkLoader]
      have := loaderFlag_isSome c d cfg.loader
      cases hdl : loaderFlag c d cfg.loader with
      | none => rw [hdl] at this; cases this
      | some lf => exact ⟨_, rfl⟩
  | pluginFile p =>
      have hp : parseOpt cfg.opt = .deny := documented_off_denied_lem _ hd
      exact ⟨st0 false cfg.autoReload, by simp [mkLoader, hp]⟩
  | pluginString p =>
      have hp : parseOpt cfg.opt = .deny := documented_off_denied_lem _ hd
      exact ⟨st0 false cfg.autoReload, by simp [mkLoader, hp]⟩

theorem mkRoot_err_syntax (cfg : Config) (fs : FS) (rn : Nat) (st : St) (root : Root) (e : Err)
    (hok : RootOk root fs rn) (h : mkRoot cfg fs rn st root = .error e) : e.isSyntax = true := by
  obtain ⟨f, hfl, hcls⟩ := hok.file
  cases root with
  | direct c s own =>
      have hs := hok.src c s own rfl
      have hc : c = f.syn := by simpa [Root.cls] using hcls
      simp only [mkRoot] at h
      have := (directFlag_isSome c s cfg.tmpl (if own = true then none else some cfg.loader)).1
      rw [hs] at this
      cases hdf : directFlag c s cfg.tmpl (if own = true then none else some cfg.loader) with
      | none => rw [hdf] at this; cases this
      | some tf =>
          simp only [hdf, hfl] at h
          cases hp : parseFile c tf rn f with
          | error e' => simp only [hp] at h; cases h; exact parse_err_syntax c tf rn f e (Or.inl hc) hp
          | ok t1 => simp [hp] at h
  | load c d =>
      have hc : c = f.syn := by simpa [Root.cls] using hcls
      simp only [mkRoot] at h
      cases hl : load fs st rn c with
      | error e' => simp only [hl] at h; cases h; exact load_err_syntax fs st rn c false e f hfl (Or.inl hc) hl
      | ok pr => obtain ⟨s1, t1⟩ := pr; simp [hl] at h
  | pluginFile p =>
      have hpc : pluginCls p = some f.syn := hcls
      simp only [mkRoot, hpc] at h
      cases hl : load fs st rn f.syn with
      | error e' => simp only [hl] at h; cases h; exact load_err_syntax fs st rn _ false e f hfl (Or.inl rfl) hl
      | ok pr => obtain ⟨s1, t1⟩ := pr; simp [hl] at h
  | pluginString p =>
      have hpc : pluginCls p = some f.syn := hcls
      obtain ⟨row, tf, lf, hr, htf, hlf⟩ := pluginRow_total p st.flag
      simp only [mkRoot, hpc, hr, hfl, htf, hlf] at h
      cases hp : parseFile f.syn tf rn f with
      | error e' => simp only [hp] at h; cases h; exact parse_err_syntax _ tf rn f e (Or.inl rfl) hp
      | ok t1 => simp [hp] at h

/-- over a well-formed graph with enough fuel a disabled run ends, if in an error at all, in a
    template syntax error -/
theorem run_err_syntax (fuel pf : Nat) (cfg : Config) (root : Root) (fs : FS) (rn : Nat) (hist : List Nat)
    (rank : Nat → Nat) (hd : root.disabled cfg) (hwf : WellFormed fs rank) (hok : RootOk root fs rn)
    (hfuel : rank rn < fuel) (hpf : rank rn < pf) (e : Err)
    (h : (run fuel pf cfg root fs rn hist).err = some e) : e.isSyntax = true := by
  unfold run at h
  obtain ⟨st, hl⟩ := mkLoader_ok_disabled cfg root fs rn hd hok
  rw [hl] at h
  simp only at h
  have hf := mkLoader_faithful cfg fs root st hl
  have hfh : Faithful fs (afterHistory fuel pf fs root st hist).1 := by
    unfold afterHistory
    cases root.usesLoader with
    | true => exact runHistory_faithful fuel pf fs hist st hf
    | false => exact hf
  generalize afterHistory fuel pf fs root st hist = hh at hfh h
  unfold finish at h
  cases hm : mkRoot cfg fs rn hh.1 root with
  | error e' =>
      rw [hm] at h
      simp only at h
      cases h
      exact mkRoot_err_syntax cfg fs rn hh.1 root e hok hm
  | ok pr =>
      obtain ⟨st', t, stack⟩ := pr
      rw [hm] at h
      simp only at h
      obtain ⟨hf', hname, htf⟩ := mkRoot_faithful cfg fs rn hh.1 st' root t stack hfh hm
      have := gen_tame fs rank hwf pf fuel true t.cls stack t st' hf' htf (Or.inl rfl)
        (by rw [hname]; exact hfuel) (by rw [hname]; exact hpf)
      exact this.2 e h

end Genshi.Exec

/-
  C14 — which error ends a run over a well-formed include graph: when every include target
  exists and the graph is acyclic (a rank decreases along includes) and the fuel exceeds the
  rank of the root, `load` / `preload` / `gen` never end in "not found" or "recursion without
  end": the only errors left are the parsers' (`syntax`) and the model's own `unmodelled`.
-/
import Genshi.Lemmas.ExecRoot
namespace Genshi.Exec
open Genshi.Gen.Exec

/-- the error is a template syntax error, or the model's "not covered" -/
def Err.parserKind : Err → Bool
  | .syntax _ => true
  | .unmodelled => true
  | _ => false

structure WellFormed (fs : FS) (rank : Nat → Nat) : Prop where
  /-- every include names an existing file -/
  targets : ∀ a f n p dyn, fs.lookup a = some f → Item.incl n p dyn ∈ f.items → (fs.lookup n).isSome = true
  /-- the include graph is acyclic: a rank decreases along every include -/
  acyclic : ∀ a b, Inc fs a b → rank b < rank a

theorem parse_err_kind (c : Cls) (flag : Bool) (name : Nat) (f : File) (e : Err)
    (h : parseFile c flag name f = .error e) : e.parserKind = true := by
  unfold parseFile at h
  by_cases h1 : f.syn ≠ c
  · rw [if_pos h1] at h
    by_cases h2 : c = .markup
    · rw [if_pos h2] at h; cases h; rfl
    · rw [if_neg h2] at h; cases h; rfl
  · rw [if_neg h1] at h
    by_cases h2 : noCode f.items = true
    · rw [if_pos h2] at h; cases h
    · rw [if_neg h2] at h
      cases c <;> cases flag <;> simp at h <;> (subst h; rfl)

theorem load_err_kind (fs : FS) (st : St) (name : Nat) (c : Cls) (abs : Bool) (e : Err)
    (hex : (fs.lookup name).isSome = true) (h : load fs st name c abs = .error e) : e.parserKind = true := by
  unfold load at h
  cases hl : st.cache.lookup (name, abs) with
  | some t0 => rw [hl] at h; cases h
  | none =>
      rw [hl] at h
      cases hf : fs.lookup name with
      | none => rw [hf] at hex; cases hex
      | some f =>
          rw [hf] at h
          simp only at h
          cases hp : parseFile c st.flag name f with
          | error e' => rw [hp] at h; cases h; exact parse_err_kind c st.flag name f e hp
          | ok t => rw [hp] at h; cases h

/-- what the error-kind induction carries: the cache stays faithful, and an error — if any — is
    of the parser kind -/
def Tame (fs : FS) (r : Res) : Prop := Faithful fs r.1 ∧ ∀ e, r.2 = some e → e.parserKind = true

theorem preload_tame (fs : FS) (rank : Nat → Nat) (hwf : WellFormed fs rank) (fuel : Nat) :
    ∀ (stack : List Nat) (t : Tmpl) (st : St), Faithful fs st → TF fs t → rank t.name < fuel →
      Tame fs (preload fuel fs stack t st) := by
  induction fuel with
  | zero => intro stack t st _ _ h; cases h
  | succ fuel ih =>
      intro stack t st hf htf hr
      unfold preload
      obtain ⟨f, hfl, hitems⟩ := htf
      apply foldl_inv (Tame fs)
      · exact ⟨hf, by intro e h; cases h⟩
      · intro acc it hit hacc
        obtain ⟨sa, ea⟩ := acc
        cases ea with
        | some e => exact hacc
        | none =>
            obtain ⟨hfa, _⟩ := hacc
            simp only at hfa
            cases it with
            | text i => exact ⟨hfa, by intro e h; cases h⟩
            | expr i => exact ⟨hfa, by intro e h; cases h⟩
            | code i m => exact ⟨hfa, by intro e h; cases h⟩
            | incl n p dyn =>
                cases dyn with
                | true => exact ⟨hfa, by intro e h; cases h⟩
                | false =>
                    simp only
                    have hmem : Item.incl n p false ∈ f.items := by rw [← hitems]; exact hit
                    have hex := hwf.targets t.name f n p false hfl hmem
                    cases hl : load fs sa n (childCls t.cls p) t.absHrefs with
                    | error e =>
                        exact ⟨hfa, by intro e' h; cases h; exact load_err_kind fs sa n _ _ e hex hl⟩
                    | ok pr =>
                        obtain ⟨st', t'⟩ := pr
                        obtain ⟨hf', _, hname, htf', _⟩ := load_faithful fs sa st' n _ _ t' hfa hl
                        simp only
                        by_cases hk : stack.contains t'.name = true
                        · rw [if_pos hk]; exact ⟨hf', by intro e h; cases h⟩
                        · rw [if_neg hk]
                          have hrank : rank t'.name < fuel := by
                            have := hwf.acyclic t.name n ⟨f, p, false, hfl, hmem⟩
                            rw [hname]; omega
                          exact ih (t'.name :: stack) t' st' hf' htf' hrank

theorem gen_tame (fs : FS) (rank : Nat → Nat) (hwf : WellFormed fs rank) (pf : Nat) (fuel : Nat) :
    ∀ (prep : Bool) (host : Cls) (stack : List Nat) (t : Tmpl) (st : St), Faithful fs st → TF fs t →
      rank t.name < fuel → rank t.name < pf → Tame fs (gen fuel pf fs prep host stack t st) := by
  induction fuel with
  | zero => intro prep host stack t st _ _ h; cases h
  | succ fuel ih =>
      intro prep host stack t st hf htf hr hpf
      unfold gen
      have htf0 := htf
      obtain ⟨f, hfl, hitems⟩ := htf
      apply foldl_inv (Tame fs)
      · by_cases hp : (prep && !st.autoReload) = true
        · rw [if_pos hp]; exact preload_tame fs rank hwf pf stack t st hf htf0 hpf
        · rw [if_neg hp]; exact ⟨hf, by intro e h; cases h⟩
      · intro acc it hit hacc
        obtain ⟨sa, ea⟩ := acc
        cases ea with
        | some e => exact hacc
        | none =>
            obtain ⟨hfa, _⟩ := hacc
            simp only at hfa
            cases it with
            | text i => exact ⟨hfa, by intro e h; cases h⟩
            | expr i => exact ⟨hfa, by intro e h; cases h⟩
            | code i m => exact ⟨hfa, by intro e h; cases h⟩
            | incl n p dyn =>
                simp only
                have hmem : Item.incl n p dyn ∈ f.items := by rw [← hitems]; exact hit
                have hex := hwf.targets t.name f n p dyn hfl hmem
                have hlt : rank n < rank t.name := hwf.acyclic t.name n ⟨f, p, dyn, hfl, hmem⟩
                by_cases hin : (!sa.autoReload && !dyn && !stack.contains n) = true
                · rw [if_pos hin]
                  cases hl : load fs sa n (childCls t.cls p) t.absHrefs with
                  | error e =>
                      exact ⟨hfa, by intro e' h; cases h; exact load_err_kind fs sa n _ _ e hex hl⟩
                  | ok pr =>
                      obtain ⟨st', t'⟩ := pr
                      obtain ⟨hf', _, hname, htf', _⟩ := load_faithful fs sa st' n _ _ t' hfa hl
                      exact ih false host (n :: stack) t' st' hf' htf' (by rw [hname]; omega) (by rw [hname]; omega)
                · rw [if_neg hin]
                  cases hl : load fs sa n (inclCls t.cls p host) t.absHrefs with
                  | error e =>
                      exact ⟨hfa, by intro e' h; cases h; exact load_err_kind fs sa n _ _ e hex hl⟩
                  | ok pr =>
                      obtain ⟨st', t'⟩ := pr
                      obtain ⟨hf', _, hname, htf', _⟩ := load_faithful fs sa st' n _ _ t' hfa hl
                      exact ih true t'.cls [t'.name] t' st' hf' htf' (by rw [hname]; omega) (by rw [hname]; omega)

/-- bringing the root into existence fails, if at all, with a parser-kind error (the root file
    exists; the option value is not a configuration error because the root is disabled) -/
theorem mkRoot_err_kind (cfg : Config) (fs : FS) (rn : Nat) (st : St) (root : Root) (e : Err)
    (hex : (fs.lookup rn).isSome = true) (h : mkRoot cfg fs rn st root = .error e) : e.parserKind = true := by
  cases root with
  | direct c s own =>
      simp only [mkRoot] at h
      cases hfl : fs.lookup rn with
      | none => rw [hfl] at hex; cases hex
      | some f =>
          cases hdf : directFlag c s cfg.tmpl (if own = true then none else some cfg.loader) with
          | none => simp [hdf, hfl] at h; subst h; rfl
          | some tf =>
              simp only [hdf, hfl] at h
              cases hp : parseFile c tf rn f with
              | error e' => simp only [hp] at h; cases h; exact parse_err_kind c tf rn f e hp
              | ok t1 => simp [hp] at h
  | load c d =>
      simp only [mkRoot] at h
      cases hl : load fs st rn c with
      | error e' => simp only [hl] at h; cases h; exact load_err_kind fs st rn c false e hex hl
      | ok pr => obtain ⟨s1, t1⟩ := pr; simp [hl] at h
  | pluginFile p =>
      simp only [mkRoot] at h
      cases hpc : pluginCls p with
      | none => simp [hpc] at h; subst h; rfl
      | some c =>
          simp only [hpc] at h
          cases hl : load fs st rn c with
          | error e' => simp only [hl] at h; cases h; exact load_err_kind fs st rn c false e hex hl
          | ok pr => obtain ⟨s1, t1⟩ := pr; simp [hl] at h
  | pluginString p =>
      simp only [mkRoot] at h
      cases hpc : pluginCls p with
      | none => simp [hpc] at h; subst h; rfl
      | some c =>
          cases hr : pluginByFlag p st.flag with
          | none => simp [hpc, hr] at h; subst h; rfl
          | some row =>
              cases hfl : fs.lookup rn with
              | none => rw [hfl] at hex; cases hex
              | some f =>
                  simp only [hpc, hr, hfl] at h
                  cases h1 : row.strF with
                  | none => simp [h1] at h; subst h; rfl
                  | some tf =>
                      cases h2 : row.strLF with
                      | none => simp [h1, h2] at h; subst h; rfl
                      | some lf =>
                          simp only [h1, h2] at h
                          cases hp : parseFile c tf rn f with
                          | error e' => simp only [hp] at h; cases h; exact parse_err_kind c tf rn f e hp
                          | ok t1 => simp [hp] at h

end Genshi.Exec

namespace Genshi.Exec
open Genshi.Gen.Exec

theorem mkLoader_err_disabled (cfg : Config) (root : Root) (e : Err) (hd : root.disabled cfg)
    (h : mkLoader cfg root = .error e) : e.parserKind = true := by
  cases root with
  | direct c s own =>
      simp only [mkLoader] at h
      cases hdl : directLoaderFlag c s cfg.tmpl (if own = true then none else some cfg.loader) with
      | none => simp [hdl] at h; subst h; rfl
      | some lf => simp [hdl] at h
  | load c d =>
      simp only [mkLoader] at h
      cases hdl : loaderFlag c d cfg.loader with
      | none => simp [hdl] at h; subst h; rfl
      | some lf => simp [hdl] at h
  | pluginFile p =>
      have hp : parseOpt cfg.opt = .deny := documented_off_denied_lem _ hd
      simp [mkLoader, hp] at h
  | pluginString p =>
      have hp : parseOpt cfg.opt = .deny := documented_off_denied_lem _ hd
      simp [mkLoader, hp] at h

/-- over a well-formed graph with enough fuel a disabled run ends, if in an error at all, in a
    parser-kind error -/
theorem run_err_kind (fuel pf : Nat) (cfg : Config) (root : Root) (fs : FS) (rn : Nat) (hist : List Nat)
    (rank : Nat → Nat) (hd : root.disabled cfg) (hwf : WellFormed fs rank)
    (hroot : (fs.lookup rn).isSome = true) (hfuel : rank rn < fuel) (hpf : rank rn < pf) (e : Err)
    (h : (run fuel pf cfg root fs rn hist).err = some e) : e.parserKind = true := by
  unfold run at h
  cases hl : mkLoader cfg root with
  | error e' =>
      rw [hl] at h
      simp only at h
      cases h
      exact mkLoader_err_disabled cfg root e hd hl
  | ok st =>
      rw [hl] at h
      simp only at h
      have hf := mkLoader_faithful cfg fs root st hl
      have hfh : Faithful fs (afterHistory fuel pf fs root st hist).1 := by
        unfold afterHistory
        cases root.usesLoader with
        | true => exact runHistory_faithful fuel pf fs hist st hf
        | false => exact hf
      generalize afterHistory fuel pf fs root st hist = hh at hfh h
      unfold finish at h
      cases hm : mkRoot cfg fs rn hh.1 root with
      | error e' =>
          rw [hm] at h
          simp only at h
          cases h
          exact mkRoot_err_kind cfg fs rn hh.1 root e hroot hm
      | ok pr =>
          obtain ⟨st', t, stack⟩ := pr
          rw [hm] at h
          simp only at h
          obtain ⟨hf', hname, htf⟩ := mkRoot_faithful cfg fs rn hh.1 st' root t stack hfh hm
          have := gen_tame fs rank hwf pf fuel true t.cls stack t st' hf' htf (by rw [hname]; exact hfuel)
            (by rw [hname]; exact hpf)
          exact this.2 e h

end Genshi.Exec

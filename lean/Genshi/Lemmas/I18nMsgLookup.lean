/-
  C19 — the message id `MsgDirective.__call__` looks up while rendering is the id
  `MsgDirective.extract` reports: the translation pass (with `translate_text=False`) keeps the
  shape of the message content, and both directives fill the same buffer.
-/
import Genshi.Lemmas.I18nLookups
namespace Genshi.I18n
open Genshi

/-- same events up to the attributes of START events (no SUB events) -/
def sameShapeEv : TEvent → TEvent → Bool
  | .start t _, .start t' _ => t = t'
  | .sub _ _, _ => false
  | _, .sub _ _ => false
  | e, e' => e = e'

def sameShape : List TEvent → List TEvent → Bool
  | [], [] => true
  | e :: es, e' :: es' => sameShapeEv e e' && sameShape es es'
  | _, _ => false

def noSubList (s : List TEvent) : Bool := s.all fun e => match e with | .sub _ _ => false | _ => true

theorem sameShapeEv_refl (e : TEvent) (h : (match e with | .sub _ _ => false | _ => true) = true) :
    sameShapeEv e e = true := by
  cases e <;> simp_all [sameShapeEv]

/-- the pass with `translate_text=False` keeps the shape of a SUB-free stream -/
theorem trList_sameShape (cfg : Cfg) (cat : Catalog) (ctx : Ctx) (ta : Bool) :
    ∀ (s : List TEvent) (skip : Nat), noSubList s = true → sameShape s (trList cfg cat ctx false ta skip s) = true
  | [], skip, _ => by cases skip <;> simp [trList, sameShape]
  | e :: es, skip, h => by
      simp only [noSubList, List.all_cons, Bool.and_eq_true] at h
      have ih := fun k => trList_sameShape cfg cat ctx ta es k (by simpa [noSubList] using h.2)
      cases skip with
      | succ k =>
        simp only [trList, sameShape, Bool.and_eq_true]
        exact ⟨sameShapeEv_refl e h.1, ih _⟩
      | zero =>
        cases e with
        | start t a =>
          simp only [trList]
          split <;> simp [sameShape, sameShapeEv, ih]
        | sub d b => simp at h
        | text s => simp [trList, sameShape, sameShapeEv, ih]
        | end_ t => simp [trList, sameShape, sameShapeEv, ih]
        | expr i m => simp [trList, sameShape, sameShapeEv, ih]
        | exec m => simp [trList, sameShape, sameShapeEv, ih]
        | other l => simp [trList, sameShape, sameShapeEv, ih]

/-- the part of the buffer that `format()` and the exceptions depend on -/
def MB.core (b : MB) : List Str × Str × Int × Nat × List Nat := (b.params, b.str, b.depth, b.order, b.stack)

theorem add_core (b : MB) (k : Nat) (e : MEv) : (b.add k e).core = b.core := by
  unfold MB.add MB.core; split <;> rfl

/-- appending shape-equal events to buffers with the same core gives the same core (or the same error) -/
theorem mbAppend_core (b b' : MB) (e e' : TEvent) (hb : b.core = b'.core) (he : sameShapeEv e e' = true) :
    (mbAppend b e).map MB.core = (mbAppend b' e').map MB.core := by
  simp only [MB.core, Prod.mk.injEq] at hb
  obtain ⟨hp, hs, hd, ho, hst⟩ := hb
  cases e with
  | sub d body => simp [sameShapeEv] at he
  | start t a =>
    cases e' <;> simp [sameShapeEv] at he
    subst he
    simp only [mbAppend, Except.map, pure, Except.pure, add_core]
    simp [MB.core, hp, hs, hd, ho, hst]
  | text s =>
    cases e' <;> simp [sameShapeEv] at he
    subst he
    simp only [mbAppend, hst]
    cases b'.stack with
    | nil => simp [Except.map]
    | cons top rest =>
      simp only [Except.map, pure, Except.pure, add_core]
      simp [MB.core, hp, hs, hd, ho]
  | expr i m =>
    cases e' <;> simp [sameShapeEv] at he
    obtain ⟨rfl, rfl⟩ := he
    simp only [mbAppend, hp, hst]
    cases b'.params with
    | nil => simp [Except.map]
    | cons p ps =>
      cases b'.stack with
      | nil => simp [Except.map]
      | cons top rest =>
        simp only [Except.map, pure, Except.pure, add_core]
        simp [MB.core, hs, hd, ho]
  | end_ t =>
    cases e' <;> simp [sameShapeEv] at he
    subst he
    simp only [mbAppend, hd, hst]
    split
    · simp [Except.map, pure, Except.pure, MB.core, hp, hs, ho, hst]
    · cases b'.stack with
      | nil => simp [Except.map]
      | cons top rest =>
        simp only [Except.map, pure, Except.pure, add_core]
        simp [MB.core, hp, hs, ho]
  | exec m =>
    cases e' <;> simp [sameShapeEv] at he
    simp [mbAppend, Except.map, pure, Except.pure, MB.core, hp, hs, hd, ho, hst]
  | other l =>
    cases e' <;> simp [sameShapeEv] at he
    simp [mbAppend, Except.map, pure, Except.pure, MB.core, hp, hs, hd, ho, hst]

theorem mbAppendList_core : ∀ (s s' : List TEvent) (b b' : MB), b.core = b'.core → sameShape s s' = true →
    (mbAppendList b s).map MB.core = (mbAppendList b' s').map MB.core
  | [], [], b, b', hb, _ => by simp [mbAppendList, Except.map, pure, Except.pure, hb]
  | [], _ :: _, _, _, _, h => by simp [sameShape] at h
  | _ :: _, [], _, _, _, h => by simp [sameShape] at h
  | e :: es, e' :: es', b, b', hb, h => by
      simp only [sameShape, Bool.and_eq_true] at h
      have h1 := mbAppend_core b b' e e' hb h.1
      simp only [mbAppendList, bind]
      cases hx : mbAppend b e with
      | error err =>
        rw [hx] at h1
        cases hy : mbAppend b' e' with
        | error err' => rw [hy] at h1; simp [Except.map] at h1; simp [Except.bind, Except.map, h1]
        | ok b1' => rw [hy] at h1; simp [Except.map] at h1
      | ok b1 =>
        rw [hx] at h1
        cases hy : mbAppend b' e' with
        | error err' => rw [hy] at h1; simp [Except.map] at h1
        | ok b1' =>
          rw [hy] at h1
          simp only [Except.map, Except.ok.injEq] at h1
          simp only [Except.bind]
          exact mbAppendList_core es es' b1 b1' h1 h.2

theorem format_of_core (b b' : MB) (h : b.core = b'.core) : b.format = b'.format := by
  simp only [MB.core, Prod.mk.injEq] at h
  simp [MB.format, h.2.1]

/-- the extraction loop fills the buffer `mbAppendList` fills -/
theorem appendAll_buffer (cfg : Cfg) (st : Bool) : ∀ (evs : List TEvent) (b : MB),
    (appendAll cfg st b evs).map Prod.snd = mbAppendList b evs
  | [], b => by simp [appendAll, mbAppendList, Except.map, pure, Except.pure]
  | e :: es, b => by
      simp only [appendAll, mbAppendList, bind]
      cases hx : mbAppend b e with
      | error err => simp [Except.bind, Except.map]
      | ok b1 =>
        simp only [Except.bind]
        have ih := appendAll_buffer cfg st es b1
        cases hy : appendAll cfg st b1 es with
        | error err => rw [hy] at ih; simp [Except.map] at ih; simp [Except.map, ← ih]
        | ok r => rw [hy] at ih; simp [Except.map] at ih; simp [Except.map, pure, Except.pure, ← ih]


theorem sameShapeEv_isStart (e e' : TEvent) (h : sameShapeEv e e' = true) : e.isStart = e'.isStart := by
  cases e <;> cases e' <;> simp_all [sameShapeEv, TEvent.isStart]

theorem sameShapeEv_isEnd (e e' : TEvent) (h : sameShapeEv e e' = true) : e.isEnd = e'.isEnd := by
  cases e <;> cases e' <;> simp_all [sameShapeEv, TEvent.isEnd]

theorem sameShape_last : ∀ (s s' : List TEvent), sameShape s s' = true →
    (s.getLast? = none ∧ s'.getLast? = none) ∨
    ∃ l l', s.getLast? = some l ∧ s'.getLast? = some l' ∧ sameShapeEv l l' = true ∧ sameShape s.dropLast s'.dropLast = true
  | [], [], _ => Or.inl ⟨rfl, rfl⟩
  | [], _ :: _, h => by simp [sameShape] at h
  | _ :: _, [], h => by simp [sameShape] at h
  | [e], [e'], h => by
      simp only [sameShape, Bool.and_eq_true] at h
      exact Or.inr ⟨e, e', rfl, rfl, h.1, by simp [sameShape]⟩
  | [_], _ :: _ :: _, h => by simp [sameShape] at h
  | _ :: _ :: _, [_], h => by simp [sameShape] at h
  | e :: f :: es, e' :: f' :: es', h => by
      simp only [sameShape, Bool.and_eq_true] at h
      rcases sameShape_last (f :: es) (f' :: es') (by simp [sameShape, h.2.1, h.2.2]) with ⟨h1, _⟩ | ⟨l, l', h1, h2, h3, h4⟩
      · simp at h1
      · refine Or.inr ⟨l, l', ?_, ?_, h3, ?_⟩
        · rw [List.getLast?_cons_cons]; exact h1
        · rw [List.getLast?_cons_cons]; exact h2
        · simp only [List.dropLast_cons_cons, sameShape, Bool.and_eq_true]
          exact ⟨h.1, h4⟩

/-- the events `MsgDirective.__call__` puts into its buffer: the stream without a leading
    START and without a trailing END (the latter only when there are at least two events) -/
def msgBody : List TEvent → List TEvent
  | [] => []
  | first :: rest =>
      (if first.isStart then [] else [first]) ++
      (match rest.getLast? with
       | none => []
       | some last => rest.dropLast ++ (if last.isEnd then [] else [last]))

theorem mbAppendList_append' (b : MB) : ∀ (x y : List TEvent),
    mbAppendList b (x ++ y) = (mbAppendList b x).bind (fun b' => mbAppendList b' y)
  | [], y => by simp [mbAppendList, Except.bind, pure, Except.pure]
  | e :: x, y => by
      simp only [List.cons_append, mbAppendList, bind]
      cases h : mbAppend b e with
      | error err => simp [Except.bind]
      | ok b1 => simp only [Except.bind]; exact mbAppendList_append' b1 x y

theorem mbAppendList_single' (b : MB) (e : TEvent) : mbAppendList b [e] = mbAppend b e := by
  simp only [mbAppendList, bind]
  cases mbAppend b e <;> simp [Except.bind, pure, Except.pure]

/-- `msgBuffer` fills its buffer with `msgBody` -/
theorem msgBuffer_buffer (ps : List Str) (s : List TEvent) :
    (msgBuffer ps s).map (fun r => r.1) = mbAppendList (MB.new ps) (msgBody s) := by
  cases s with
  | nil => simp [msgBuffer, msgBody, mbAppendList, Except.map, pure, Except.pure]
  | cons first rest =>
    simp only [msgBuffer, msgBody]
    by_cases hf : first.isStart = true
    · simp only [hf, ↓reduceIte, List.nil_append, bind, Except.bind, pure, Except.pure]
      cases hl : rest.getLast? with
      | none => simp [mbAppendList, Except.map, pure, Except.pure]
      | some last =>
        simp only
        rw [mbAppendList_append']
        cases hb1 : mbAppendList (MB.new ps) rest.dropLast with
        | error err => simp [Except.map, Except.bind]
        | ok b1 =>
          simp only [Except.bind]
          by_cases hle : last.isEnd = true
          · simp [hle, Except.map, mbAppendList, pure, Except.pure]
          · simp only [hle, Bool.false_eq_true, ↓reduceIte, mbAppendList_single']
            cases mbAppend b1 last <;> simp [Except.map]
    · simp only [hf, Bool.false_eq_true, ↓reduceIte, bind, Except.bind]
      rw [show ([first] ++ (match rest.getLast? with
            | none => []
            | some last => rest.dropLast ++ (if last.isEnd = true then [] else [last]))) =
          first :: (match rest.getLast? with
            | none => []
            | some last => rest.dropLast ++ (if last.isEnd = true then [] else [last])) from rfl]
      simp only [mbAppendList, bind]
      cases hb0 : mbAppend (MB.new ps) first with
      | error err => simp [Except.map, Except.bind]
      | ok b0 =>
        simp only [Except.bind]
        cases hl : rest.getLast? with
        | none => simp [mbAppendList, Except.map, pure, Except.pure]
        | some last =>
          simp only
          rw [mbAppendList_append']
          cases hb1 : mbAppendList b0 rest.dropLast with
          | error err => simp [Except.map, Except.bind]
          | ok b1 =>
            simp only [Except.bind]
            by_cases hle : last.isEnd = true
            · simp [hle, Except.map, mbAppendList, pure, Except.pure]
            · simp only [hle, Bool.false_eq_true, ↓reduceIte, mbAppendList_single']
              cases mbAppend b1 last <;> simp [Except.map, pure, Except.pure]

theorem msgId_eq (ps : List Str) (s : List TEvent) (hs : s ≠ []) :
    msgId ps s = (mbAppendList (MB.new ps) (msgBody s)).map (fun b => some b.format) := by
  cases s with
  | nil => exact absurd rfl hs
  | cons first rest =>
    have := msgBuffer_buffer ps (first :: rest)
    simp only [msgId, bind, Except.bind]
    rw [← this]
    cases msgBuffer ps (first :: rest) <;> simp [Except.map, pure, Except.pure]

theorem sameShape_append : ∀ (a a' b b' : List TEvent), sameShape a a' = true → sameShape b b' = true →
    sameShape (a ++ b) (a' ++ b') = true
  | [], [], b, b', _, hb => by simpa using hb
  | [], _ :: _, _, _, h, _ => by simp [sameShape] at h
  | _ :: _, [], _, _, h, _ => by simp [sameShape] at h
  | e :: a, e' :: a', b, b', h, hb => by
      simp only [sameShape, Bool.and_eq_true] at h
      simp only [List.cons_append, sameShape, Bool.and_eq_true]
      exact ⟨h.1, sameShape_append a a' b b' h.2 hb⟩

theorem msgBody_sameShape (s s' : List TEvent) (h : sameShape s s' = true) : sameShape (msgBody s) (msgBody s') = true := by
  cases s with
  | nil => cases s' with
    | nil => rfl
    | cons _ _ => simp [sameShape] at h
  | cons first rest =>
    cases s' with
    | nil => simp [sameShape] at h
    | cons first' rest' =>
      simp only [sameShape, Bool.and_eq_true] at h
      simp only [msgBody, ← sameShapeEv_isStart first first' h.1]
      apply sameShape_append
      · split
        · rfl
        · simp [sameShape, h.1]
      · rcases sameShape_last rest rest' h.2 with ⟨h1, h2⟩ | ⟨l, l', h1, h2, h3, h4⟩
        · simp [h1, h2, sameShape]
        · simp only [h1, h2, ← sameShapeEv_isEnd l l' h3]
          apply sameShape_append _ _ _ _ h4
          split
          · rfl
          · simp [sameShape, h3]

/-- the id a message directive looks up depends on the shape of its stream only -/
theorem msgId_sameShape (ps : List Str) (s s' : List TEvent) (h : sameShape s s' = true) :
    msgId ps s = msgId ps s' := by
  cases s with
  | nil => cases s' with
    | nil => rfl
    | cons _ _ => simp [sameShape] at h
  | cons first rest =>
    cases s' with
    | nil => simp [sameShape] at h
    | cons first' rest' =>
      rw [msgId_eq ps _ (by simp), msgId_eq ps _ (by simp)]
      have hc := mbAppendList_core _ _ (MB.new ps) (MB.new ps) rfl (msgBody_sameShape _ _ h)
      revert hc
      cases mbAppendList (MB.new ps) (msgBody (first :: rest)) <;>
        cases mbAppendList (MB.new ps) (msgBody (first' :: rest')) <;> simp [Except.map]
      intro hh; exact format_of_core _ _ hh

/-- **the message id looked up while rendering is extracted.**  For a message directive in
    attribute form whose content holds no nested directive, whatever the catalogue did to the
    attributes inside: the id `MsgDirective.__call__` looks up for the stream the translation
    pass hands on (with `translate_text=False`) is among the ids `MsgDirective.extract`
    reports for the template's stream. -/
theorem msg_lookup_extracted (cfg : Cfg) (cat : Catalog) (ctx : Ctx) (ta : Bool) (skip : Nat)
    (ps : List Str) (st : Bool) (cs xs : List Str) (t t' : QName) (a : TAttrs) (mid : List TEvent)
    (hmid : noSubList mid = true) (id : Str)
    (h : msgId ps (trList cfg cat ctx false ta skip (.start t a :: (mid ++ [.end_ t']))) = .ok (some id)) :
    ∃ ms, msgExtract cfg ps st cs xs (.start t a :: (mid ++ [.end_ t'])) = .ok ms ∧ id ∈ idsOf ms := by
  have hns : noSubList (.start t a :: (mid ++ [.end_ t'])) = true := by
    simp only [noSubList, List.all_cons, List.all_append, Bool.and_eq_true] at hmid ⊢
    simpa using hmid
  rw [← msgId_sameShape ps _ _ (trList_sameShape cfg cat ctx ta _ skip hns)] at h
  rw [msgId_eq ps _ (by simp)] at h
  have hbody : msgBody (.start t a :: (mid ++ [.end_ t'])) = mid := by
    simp [msgBody, TEvent.isStart, TEvent.isEnd]
  rw [hbody] at h
  cases hb : mbAppendList (MB.new ps) mid with
  | error err => rw [hb] at h; simp [Except.map] at h
  | ok b =>
    rw [hb] at h
    simp only [Except.map, Except.ok.injEq, Option.some.injEq] at h
    have hall := appendAll_buffer cfg st mid (MB.new ps)
    rw [hb] at hall
    cases ha : appendAll cfg st (MB.new ps) mid with
    | error err => rw [ha] at hall; simp [Except.map] at hall
    | ok r =>
      rw [ha] at hall
      simp only [Except.map, Except.ok.injEq] at hall
      obtain ⟨m, hm, hid⟩ := contextify_none_ok b.format (lastSlice cs) (lastSlice xs)
      refine ⟨startAttrs cfg st (.start t a) ++ r.1 ++ [m], ?_, ?_⟩
      · have hne : mid ++ [.end_ t'] ≠ [] := by simp
        simp only [msgExtract, TEvent.isStart, ↓reduceIte]
        cases hmm : mid ++ [TEvent.end_ t'] with
        | nil => exact absurd hmm hne
        | cons x y =>
          rw [← hmm]
          simp only [List.dropLast_concat, ha, bind, Except.bind]
          rw [show r.2 = b from hall] 
          simp [hm, pure, Except.pure]
      · rw [idsOf_append]
        simp only [List.mem_append]
        right
        simp [idsOf, ← h, hid]

/-- element form `<i18n:msg params="…">first mid last</i18n:msg>`, the content neither starting
    with a START nor ending with an END event (finding C19-msg-element-first-child) -/
theorem msg_lookup_extracted_elem (cfg : Cfg) (cat : Catalog) (ctx : Ctx) (ta : Bool) (skip : Nat)
    (ps : List Str) (st : Bool) (cs xs : List Str) (first last : TEvent) (mid : List TEvent)
    (hf : first.isStart = false) (hl : last.isEnd = false)
    (hns : noSubList (first :: (mid ++ [last])) = true) (id : Str)
    (h : msgId ps (trList cfg cat ctx false ta skip (first :: (mid ++ [last]))) = .ok (some id)) :
    ∃ ms, msgExtract cfg ps st cs xs (first :: (mid ++ [last])) = .ok ms ∧ id ∈ idsOf ms := by
  rw [← msgId_sameShape ps _ _ (trList_sameShape cfg cat ctx ta _ skip hns)] at h
  rw [msgId_eq ps _ (by simp)] at h
  have hbody : msgBody (first :: (mid ++ [last])) = (first :: mid) ++ [last] := by
    simp [msgBody, hf, hl]
  rw [hbody, mbAppendList_append'] at h
  cases hb : mbAppendList (MB.new ps) (first :: mid) with
  | error err => rw [hb] at h; simp [Except.map, Except.bind] at h
  | ok b =>
    rw [hb] at h
    simp only [Except.bind, mbAppendList_single'] at h
    cases hb2 : mbAppend b last with
    | error err => rw [hb2] at h; simp [Except.map] at h
    | ok b2 =>
      rw [hb2] at h
      simp only [Except.map, Except.ok.injEq, Option.some.injEq] at h
      have hall := appendAll_buffer cfg st (first :: mid) (MB.new ps)
      rw [hb] at hall
      cases ha : appendAll cfg st (MB.new ps) (first :: mid) with
      | error err => rw [ha] at hall; simp [Except.map] at hall
      | ok r =>
        rw [ha] at hall
        simp only [Except.map, Except.ok.injEq] at hall
        obtain ⟨m, hm, hid⟩ := contextify_none_ok b2.format (lastSlice cs) (lastSlice xs)
        refine ⟨r.1 ++ exprCode last ++ [m], ?_, ?_⟩
        · have hdl : (first :: (mid ++ [last])).dropLast = first :: mid := by
            rw [show first :: (mid ++ [last]) = (first :: mid) ++ [last] by simp, List.dropLast_concat]
          have hgl : (first :: (mid ++ [last])).getLast? = some last := by
            rw [show first :: (mid ++ [last]) = (first :: mid) ++ [last] by simp, List.getLast?_append]; simp
          simp only [msgExtract, hf, Bool.false_eq_true, ↓reduceIte, hdl, hgl, Option.getD_some, ha, bind, Except.bind]
          rw [show r.2 = b from hall]
          simp [hb2, hm, pure, Except.pure]
        · rw [idsOf_append]
          simp only [List.mem_append]
          right
          simp [idsOf, ← h, hid]

end Genshi.I18n

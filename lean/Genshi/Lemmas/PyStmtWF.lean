/-
  C13 — statement mode: the transformed program is again a supported program.
  `WF e → WF (ml ops s e)` for every instance of the generic load mapper (a load is either kept or
  becomes `_lookup_name(__data__, 'x')`, both well-formed; every other node keeps its class and its
  fields are mapped), and `WFS s → WFS (xsS L s).1` for the statement transformer, so that
  `parseS_genS` applies to `xformS ss` without a side hypothesis.
-/
import Genshi.Model.PyStmtX
import Genshi.Lemmas.PyXformWF
import Genshi.Lemmas.PyParseS2
namespace Genshi.Py
open Genshi.Gen

variable {σ : Type} (ops : NameOps σ)

/-! ### shapes are kept -/

theorem wf_loadOf (s : σ) (id : Str) (h : IdentOK id) : WF (loadOf ops s id) := by
  unfold loadOf
  split
  · exact h
  · exact wf_lookupName id

theorem isExpr_loadOf (s : σ) (id : Str) : isExpr (loadOf ops s id) = true := by
  unfold loadOf
  split <;> rfl

theorem isIntConst_loadOf (s : σ) (id : Str) : isIntConst (loadOf ops s id) = false := by
  unfold loadOf
  split <;> rfl

theorem isSlice_loadOf (s : σ) (id : Str) : isSlice (loadOf ops s id) = false := by
  unfold loadOf
  split <;> rfl

macro "shape_ml" : tactic =>
  `(tactic| (first | rfl | (simp only [ml]; first | rfl | (unfold loadOf; split <;> rfl))))

theorem isExpr_ml (s : σ) (e : PyExpr) : isExpr (ml ops s e) = isExpr e := by
  cases e <;> shape_ml

theorem isElt_ml (s : σ) (e : PyExpr) : isElt (ml ops s e) = isElt e := by
  cases e <;> shape_ml

theorem isIntConst_ml (s : σ) (e : PyExpr) : isIntConst (ml ops s e) = isIntConst e := by
  cases e <;> shape_ml

theorem isSlice_ml (s : σ) (e : PyExpr) : isSlice (ml ops s e) = isSlice e := by
  cases e <;> shape_ml

theorem isKw_ml (s : σ) (e : PyExpr) : isKw (ml ops s e) = isKw e := by
  cases e <;> shape_ml

theorem isCmp_ml (s : σ) (e : PyExpr) : isCmp (ml ops s e) = isCmp e := by
  cases e <;> shape_ml

theorem isComp_ml (s : σ) (e : PyExpr) : isComp (ml ops s e) = isComp e := by
  cases e <;> shape_ml

theorem isParam_ml (s : σ) (e : PyExpr) : isParam (ml ops s e) = isParam e := by
  cases e <;> shape_ml

theorem isDItem_ml (s : σ) (e : PyExpr) : isDItem (ml ops s e) = isDItem e := by
  cases e with
  | dictItem k v => cases k <;> shape_ml
  | _ => shape_ml

theorem isPlainParam_ml (s : σ) (e : PyExpr) : isPlainParam (ml ops s e) = isPlainParam e := by
  cases e with
  | param n ann d => cases ann <;> shape_ml
  | _ => shape_ml

theorem isVarParam_ml (s : σ) (e : PyExpr) : isVarParam (ml ops s e) = isVarParam e := by
  cases e with
  | param n ann d => cases ann <;> cases d <;> shape_ml
  | _ => shape_ml

theorem isAnyVarParam_ml (s : σ) (e : PyExpr) : isAnyVarParam (ml ops s e) = isAnyVarParam e := by
  cases e with
  | param n ann d => cases d <;> shape_ml
  | _ => shape_ml

theorem exprO_mlO (s : σ) (o : Option PyExpr) : exprO (mlO ops s o) = exprO o := by
  cases o with
  | none => rfl
  | some e => exact isExpr_ml ops s e

theorem all_mlL (p : PyExpr → Bool) (hp : ∀ s e, p (ml ops s e) = p e) (s : σ) (es : List PyExpr) :
    (mlL ops s es).all p = es.all p := by
  induction es with
  | nil => rfl
  | cons e r ih => simp [mlL, hp s e, ih]

theorem length_mlL (s : σ) (es : List PyExpr) : (mlL ops s es).length = es.length := by
  induction es with
  | nil => rfl
  | cons e r ih => simp [mlL, ih]

theorem mlL_ne_nil (s : σ) (es : List PyExpr) (h : es ≠ []) : mlL ops s es ≠ [] := by
  cases es with
  | nil => exact absurd rfl h
  | cons e r => simp [mlL]

theorem var_mlO (p : PyExpr → Bool) (hp : ∀ s e, p (ml ops s e) = p e) (s : σ) (o : Option PyExpr)
    (h : ∀ v, o = some v → p v = true) : ∀ v, mlO ops s o = some v → p v = true := by
  intro v hv
  cases o with
  | none => simp [mlO] at hv
  | some q =>
    simp only [mlO, Option.some.injEq] at hv
    subst hv
    rw [hp]
    exact h q rfl

/-- a target keeps its node class -/
theorem isExpr_mlT (s : σ) (e : PyExpr) : isExpr (mlT ops s e) = isExpr e := by
  cases e <;> simp only [mlT, isExpr]

theorem isElt_mlT (s : σ) (e : PyExpr) : isElt (mlT ops s e) = isElt e := by
  cases e <;> simp only [mlT, isElt, isExpr]

theorem isIntConst_mlT (s : σ) (e : PyExpr) : isIntConst (mlT ops s e) = isIntConst e := by
  cases e <;> simp only [mlT, isIntConst]

theorem all_mlTL (s : σ) (es : List PyExpr) : (mlTL ops s es).all isElt = es.all isElt := by
  induction es with
  | nil => rfl
  | cons e r ih => simp [mlTL, isElt_mlT, ih]

/-! ### well-formedness is kept -/

mutual
theorem wf_ml : ∀ (e : PyExpr) (s : σ), WF e → WF (ml ops s e)
  | .name id, s, h => by simp only [ml]; exact wf_loadOf ops s id h
  | .const c, _, h => by simpa only [ml] using h
  | .boolOp op vs, s, h => by
      simp only [WF] at h
      simp only [ml, WF]
      exact ⟨h.1, by rw [length_mlL]; exact h.2.1, wf_mlL vs s h.2.2.1, by rw [all_mlL ops _ (isExpr_ml ops)]; exact h.2.2.2⟩
  | .binOp l op r, s, h => by
      simp only [WF] at h
      simp only [ml, WF, isExpr_ml]
      exact ⟨h.1, wf_ml l s h.2.1, wf_ml r s h.2.2.1, h.2.2.2.1, h.2.2.2.2⟩
  | .unaryOp op e, s, h => by
      simp only [WF] at h
      simp only [ml, WF, isExpr_ml]
      exact ⟨h.1, wf_ml e s h.2.1, h.2.2⟩
  | .lambda po ar va ko ka body, s, h => by
      simp only [WF] at h
      obtain ⟨h1, h2, h3, h4, h5, h6, h7, h8, h9, h10, h11, h12⟩ := h
      simp only [ml, WF, isExpr_ml, all_mlL ops _ (isPlainParam_ml ops)]
      exact ⟨wf_mlL po s h1, wf_mlL ar s h2, wf_mlO va s h3, wf_mlL ko s h4, wf_mlO ka s h5, wf_ml body _ h6,
        h7, h8, h9, h10, var_mlO ops _ (isVarParam_ml ops) s va h11, var_mlO ops _ (isVarParam_ml ops) s ka h12⟩
  | .ifExp t b o, s, h => by
      simp only [WF] at h
      simp only [ml, WF, isExpr_ml]
      exact ⟨wf_ml t s h.1, wf_ml b s h.2.1, wf_ml o s h.2.2.1, h.2.2.2⟩
  | .dict items, s, h => by
      simp only [WF] at h
      simp only [ml, WF, all_mlL ops _ (isDItem_ml ops)]
      exact ⟨wf_mlL items s h.1, h.2⟩
  | .listComp elt gens, s, h => by
      simp only [WF] at h
      simp only [ml, WF, isExpr_ml]
      obtain ⟨g1, g2, g3⟩ := wf_mlGens gens s (ops.push s (compNames gens)) h.2.2.1 h.2.2.2.2 h.2.2.2.1
      exact ⟨wf_ml elt _ h.1, h.2.1, g1, g2, g3⟩
  | .genExp elt gens, s, h => by
      simp only [WF] at h
      simp only [ml, WF, isExpr_ml]
      obtain ⟨g1, g2, g3⟩ := wf_mlGens gens s (ops.push s (compNames gens)) h.2.2.1 h.2.2.2.2 h.2.2.2.1
      exact ⟨wf_ml elt _ h.1, h.2.1, g1, g2, g3⟩
  | .yield_ v, s, h => by
      simp only [WF] at h
      simp only [ml, WF, exprO_mlO]
      exact ⟨wf_mlO v s h.1, h.2⟩
  | .compare l rest, s, h => by
      simp only [WF] at h
      simp only [ml, WF, isExpr_ml, all_mlL ops _ (isCmp_ml ops)]
      exact ⟨wf_ml l s h.1, h.2.1, wf_mlL rest s h.2.2.1, mlL_ne_nil ops s rest h.2.2.2.1, h.2.2.2.2⟩
  | .call f args kws, s, h => by
      simp only [WF] at h
      simp only [ml, WF, isExpr_ml, all_mlL ops _ (isElt_ml ops), all_mlL ops _ (isKw_ml ops)]
      exact ⟨wf_ml f s h.1, h.2.1, wf_mlL args s h.2.2.1, h.2.2.2.1, wf_mlL kws s h.2.2.2.2.1, h.2.2.2.2.2⟩
  | .attribute v a, s, h => by
      simp only [WF] at h
      simp only [ml, WF, isExpr_ml, isIntConst_ml]
      exact ⟨wf_ml v s h.1, h.2⟩
  | .subscript v sl, s, h => by
      simp only [WF] at h
      simp only [ml, WF, isExpr_ml, isSlice_ml]
      exact ⟨wf_ml v s h.1, h.2.1, wf_ml sl s h.2.2.1, h.2.2.2⟩
  | .slice l u st, s, h => by
      simp only [WF] at h
      simp only [ml, WF, exprO_mlO]
      exact ⟨wf_mlO l s h.1, wf_mlO u s h.2.1, wf_mlO st s h.2.2.1, h.2.2.2⟩
  | .starred e, s, h => by
      simp only [WF] at h
      simp only [ml, WF, isExpr_ml]
      exact ⟨wf_ml e s h.1, h.2⟩
  | .list elts, s, h => by
      simp only [WF] at h
      simp only [ml, WF, all_mlL ops _ (isElt_ml ops)]
      exact ⟨wf_mlL elts s h.1, h.2⟩
  | .tuple elts, s, h => by
      simp only [WF] at h
      simp only [ml, WF, all_mlL ops _ (isElt_ml ops)]
      exact ⟨wf_mlL elts s h.1, h.2⟩
  | .unsupported _, _, h => by simp [WF] at h
  | .keyword n v, s, h => by
      simp only [WF] at h
      simp only [ml, WF, isExpr_ml]
      exact ⟨h.1, wf_ml v s h.2.1, h.2.2⟩
  | .comp t it ifs a, s, h => by
      simp only [WF] at h
      simp only [ml, WF, isExpr_ml, isExpr_mlT, all_mlL ops _ (isExpr_ml ops)]
      exact ⟨wf_mlT t s h.1, h.2.1, wf_ml it s h.2.2.1, h.2.2.2.1, wf_mlL ifs s h.2.2.2.2.1, h.2.2.2.2.2⟩
  | .param n ann d, s, h => by
      simp only [WF] at h
      simp only [ml, WF, exprO_mlO]
      exact ⟨h.1, wf_mlO ann s h.2.1, wf_mlO d s h.2.2.1, h.2.2.2⟩
  | .dictItem k v, s, h => by
      simp only [WF] at h
      simp only [ml, WF, exprO_mlO, isExpr_ml]
      exact ⟨wf_mlO k s h.1, h.2.1, wf_ml v s h.2.2.1, h.2.2.2⟩
  | .cmpRhs op e, s, h => by
      simp only [WF] at h
      simp only [ml, WF, isExpr_ml]
      exact ⟨h.1, wf_ml e s h.2.1, h.2.2⟩
theorem wf_mlL : ∀ (es : List PyExpr) (s : σ), WFL es → WFL (mlL ops s es)
  | [], _, _ => by simp [mlL, WFL]
  | e :: es, s, h => by
      simp only [WFL] at h
      simp only [mlL, WFL]
      exact ⟨wf_ml e s h.1, wf_mlL es s h.2⟩
theorem wf_mlO : ∀ (o : Option PyExpr) (s : σ), WFO o → WFO (mlO ops s o)
  | none, _, _ => by simp [mlO, WFO]
  | some e, s, h => by
      simp only [WFO] at h
      simp only [mlO, WFO]
      exact wf_ml e s h
theorem wf_mlGens : ∀ (gens : List PyExpr) (s0 s1 : σ), WFL gens → gens.all isComp = true → gens ≠ [] →
    WFL (mlGens ops s0 s1 gens) ∧ mlGens ops s0 s1 gens ≠ [] ∧ (mlGens ops s0 s1 gens).all isComp = true
  | [], _, _, _, _, hne => absurd rfl hne
  | c :: rest, s0, s1, h, hall, _ => by
      simp only [WFL] at h
      simp only [List.all_cons, Bool.and_eq_true] at hall
      match c, h, hall with
      | .comp t it ifs a, h, hall =>
      have hc := h.1
      simp only [WF] at hc
      have hrest : WFL (mlGens ops s1 s1 rest) ∧ (mlGens ops s1 s1 rest).all isComp = true := by
        cases rest with
        | nil => simp [mlGens, WFL]
        | cons c2 r2 =>
          obtain ⟨a1, _, a3⟩ := wf_mlGens (c2 :: r2) s1 s1 h.2 hall.2 (by simp)
          exact ⟨a1, a3⟩
      simp only [mlGens, WFL, WF, isExpr_ml, isExpr_mlT, all_mlL ops _ (isExpr_ml ops)]
      refine ⟨⟨⟨wf_mlT t s1 hc.1, hc.2.1, wf_ml it s0 hc.2.2.1, hc.2.2.2.1, wf_mlL ifs s1 hc.2.2.2.2.1,
        hc.2.2.2.2.2⟩, hrest.1⟩, by simp, ?_⟩
      simp [isComp, hrest.2]
theorem wf_mlT : ∀ (t : PyExpr) (s : σ), WF t → WF (mlT ops s t)
  | .name id, _, h => by simpa only [mlT] using h
  | .tuple elts, s, h => by
      simp only [WF] at h
      simp only [mlT, WF, all_mlTL]
      exact ⟨wf_mlTL elts s h.1, h.2⟩
  | .list elts, s, h => by
      simp only [WF] at h
      simp only [mlT, WF, all_mlTL]
      exact ⟨wf_mlTL elts s h.1, h.2⟩
  | .starred e, s, h => by
      simp only [WF] at h
      simp only [mlT, WF, isExpr_mlT]
      exact ⟨wf_mlT e s h.1, h.2⟩
  | .attribute v a, s, h => by
      simp only [WF] at h
      simp only [mlT, WF, isExpr_ml, isIntConst_ml]
      exact ⟨wf_ml v s h.1, h.2⟩
  | .subscript v sl, s, h => by
      simp only [WF] at h
      simp only [mlT, WF, isExpr_ml, isSlice_ml]
      exact ⟨wf_ml v s h.1, h.2.1, wf_ml sl s h.2.2.1, h.2.2.2⟩
  | .const c, _, h => by simpa only [mlT] using h
  | .boolOp a b, _, h => by simpa only [mlT] using h
  | .binOp a b c, _, h => by simpa only [mlT] using h
  | .unaryOp a b, _, h => by simpa only [mlT] using h
  | .lambda a b c d e f, _, h => by simpa only [mlT] using h
  | .ifExp a b c, _, h => by simpa only [mlT] using h
  | .dict a, _, h => by simpa only [mlT] using h
  | .listComp a b, _, h => by simpa only [mlT] using h
  | .genExp a b, _, h => by simpa only [mlT] using h
  | .yield_ a, _, h => by simpa only [mlT] using h
  | .compare a b, _, h => by simpa only [mlT] using h
  | .call a b c, _, h => by simpa only [mlT] using h
  | .slice a b c, _, h => by simpa only [mlT] using h
  | .unsupported a, _, h => by simpa only [mlT] using h
  | .keyword a b, _, h => by simpa only [mlT] using h
  | .comp a b c d, _, h => by simpa only [mlT] using h
  | .param a b c, _, h => by simpa only [mlT] using h
  | .dictItem a b, _, h => by simpa only [mlT] using h
  | .cmpRhs a b, _, h => by simpa only [mlT] using h
theorem wf_mlTL : ∀ (ts : List PyExpr) (s : σ), WFL ts → WFL (mlTL ops s ts)
  | [], _, _ => by simp [mlTL, WFL]
  | t :: ts, s, h => by
      simp only [WFL] at h
      simp only [mlTL, WFL]
      exact ⟨wf_mlT t s h.1, wf_mlTL ts s h.2⟩
end

theorem supported_ml (s : σ) (e : PyExpr) (h : Supported e) : Supported (ml ops s e) :=
  ⟨wf_ml ops e s h.1, by rw [isExpr_ml]; exact h.2⟩

theorem supported_mlT (s : σ) (e : PyExpr) (h : Supported e) : Supported (mlT ops s e) :=
  ⟨wf_mlT ops e s h.1, by rw [isExpr_mlT]; exact h.2⟩

theorem supportedO_mlO (s : σ) (o : Option PyExpr) (h : SupportedO o) : SupportedO (mlO ops s o) := by
  intro x hx
  cases o with
  | none => simp [mlO] at hx
  | some e =>
    simp only [mlO, Option.some.injEq] at hx
    subst hx
    exact supported_ml ops s e (h e rfl)

theorem supported_mlL (s : σ) (es : List PyExpr) (h : ∀ e ∈ es, Supported e) : ∀ e ∈ mlL ops s es, Supported e := by
  induction es with
  | nil => intro e he; simp [mlL] at he
  | cons x r ih =>
    intro e he
    simp only [mlL, List.mem_cons] at he
    rcases he with rfl | he
    · exact supported_ml ops s x (h x (by simp))
    · exact ih (fun y hy => h y (by simp [hy])) e he

theorem supported_mlTL (s : σ) (es : List PyExpr) (h : ∀ e ∈ es, Supported e) : ∀ e ∈ mlTL ops s es, Supported e := by
  induction es with
  | nil => intro e he; simp [mlTL] at he
  | cons x r ih =>
    intro e he
    simp only [mlTL, List.mem_cons] at he
    rcases he with rfl | he
    · exact supported_mlT ops s x (h x (by simp))
    · exact ih (fun y hy => h y (by simp [hy])) e he

theorem mlTL_ne_nil (s : σ) (es : List PyExpr) (h : es ≠ []) : mlTL ops s es ≠ [] := by
  cases es with
  | nil => exact absurd rfl h
  | cons e r => simp [mlTL]

/-! ### statement targets (`xsTgt`: the state is threaded, the node classes stay) -/

theorem isExpr_xsTgt (L : List Scope) (e : PyExpr) : isExpr (xsTgt L e).1 = isExpr e := by
  cases e <;> simp only [xsTgt, isExpr]

theorem isElt_xsTgt (L : List Scope) (e : PyExpr) : isElt (xsTgt L e).1 = isElt e := by
  cases e <;> simp only [xsTgt, isElt, isExpr]

theorem all_xsTgtL (es : List PyExpr) : ∀ L : List Scope, (xsTgtL L es).1.all isElt = es.all isElt := by
  induction es with
  | nil => intro L; rfl
  | cons e r ih => intro L; simp [xsTgtL, isElt_xsTgt, ih]

mutual
theorem wf_xsTgt : ∀ (t : PyExpr) (L : List Scope), WF t → WF (xsTgt L t).1
  | .name id, _, h => by simpa only [xsTgt] using h
  | .tuple elts, L, h => by
      simp only [WF] at h
      simp only [xsTgt, WF, all_xsTgtL]
      exact ⟨wf_xsTgtL elts L h.1, h.2⟩
  | .list elts, L, h => by
      simp only [WF] at h
      simp only [xsTgt, WF, all_xsTgtL]
      exact ⟨wf_xsTgtL elts L h.1, h.2⟩
  | .starred e, L, h => by
      simp only [WF] at h
      simp only [xsTgt, WF, isExpr_xsTgt]
      exact ⟨wf_xsTgt e L h.1, h.2⟩
  | .attribute v a, L, h => by
      simp only [WF] at h
      simp only [xsTgt, xt, WF, isExpr_ml, isIntConst_ml]
      exact ⟨wf_ml _ v L h.1, h.2⟩
  | .subscript v sl, L, h => by
      simp only [WF] at h
      simp only [xsTgt, xt, WF, isExpr_ml, isSlice_ml]
      exact ⟨wf_ml _ v L h.1, h.2.1, wf_ml _ sl L h.2.2.1, h.2.2.2⟩
  | .const c, _, h => by simpa only [xsTgt] using h
  | .boolOp a b, _, h => by simpa only [xsTgt] using h
  | .binOp a b c, _, h => by simpa only [xsTgt] using h
  | .unaryOp a b, _, h => by simpa only [xsTgt] using h
  | .lambda a b c d e f, _, h => by simpa only [xsTgt] using h
  | .ifExp a b c, _, h => by simpa only [xsTgt] using h
  | .dict a, _, h => by simpa only [xsTgt] using h
  | .listComp a b, _, h => by simpa only [xsTgt] using h
  | .genExp a b, _, h => by simpa only [xsTgt] using h
  | .yield_ a, _, h => by simpa only [xsTgt] using h
  | .compare a b, _, h => by simpa only [xsTgt] using h
  | .call a b c, _, h => by simpa only [xsTgt] using h
  | .slice a b c, _, h => by simpa only [xsTgt] using h
  | .unsupported a, _, h => by simpa only [xsTgt] using h
  | .keyword a b, _, h => by simpa only [xsTgt] using h
  | .comp a b c d, _, h => by simpa only [xsTgt] using h
  | .param a b c, _, h => by simpa only [xsTgt] using h
  | .dictItem a b, _, h => by simpa only [xsTgt] using h
  | .cmpRhs a b, _, h => by simpa only [xsTgt] using h
theorem wf_xsTgtL : ∀ (ts : List PyExpr) (L : List Scope), WFL ts → WFL (xsTgtL L ts).1
  | [], _, _ => by simp [xsTgtL, WFL]
  | t :: ts, L, h => by
      simp only [WFL] at h
      simp only [xsTgtL, WFL]
      exact ⟨wf_xsTgt t L h.1, wf_xsTgtL ts _ h.2⟩
end

theorem supported_xsTgt (L : List Scope) (e : PyExpr) (h : Supported e) : Supported (xsTgt L e).1 :=
  ⟨wf_xsTgt e L h.1, by rw [isExpr_xsTgt]; exact h.2⟩

theorem supportedO_xsTgt (L : List Scope) (e : PyExpr) (h : SupportedO (some e)) : SupportedO (some (xsTgt L e).1) := by
  intro x hx
  simp only [Option.some.injEq] at hx
  subst hx
  exact supported_xsTgt L e (h e rfl)

theorem supported_xsTgtL (es : List PyExpr) : ∀ (L : List Scope), (∀ e ∈ es, Supported e) →
    ∀ e ∈ (xsTgtL L es).1, Supported e := by
  induction es with
  | nil => intro L _ e he; simp [xsTgtL] at he
  | cons x r ih =>
    intro L h e he
    simp only [xsTgtL, List.mem_cons] at he
    rcases he with rfl | he
    · exact supported_xsTgt L x (h x (by simp))
    · exact ih _ (fun y hy => h y (by simp [hy])) e he

theorem xsTgtL_ne_nil (L : List Scope) (es : List PyExpr) (h : es ≠ []) : (xsTgtL L es).1 ≠ [] := by
  cases es with
  | nil => exact absurd rfl h
  | cons e r => simp [xsTgtL]

theorem supported_xsItems (items : List (PyExpr × Option PyExpr)) : ∀ (L : List Scope),
    (∀ i ∈ items, Supported i.1 ∧ SupportedO i.2) → ∀ i ∈ (xsItems L items).1, Supported i.1 ∧ SupportedO i.2 := by
  induction items with
  | nil => intro L _ i hi; simp [xsItems] at hi
  | cons x r ih =>
    intro L h i hi
    obtain ⟨c, v⟩ := x
    have hx := h (c, v) (by simp)
    have hr : ∀ i ∈ r, Supported i.1 ∧ SupportedO i.2 := fun y hy => h y (by simp [hy])
    cases v with
    | none =>
      simp only [xsItems, List.mem_cons] at hi
      rcases hi with rfl | hi
      · exact ⟨supported_ml _ L c hx.1, by intro x hx; cases hx⟩
      · exact ih _ hr i hi
    | some t =>
      simp only [xsItems, List.mem_cons] at hi
      rcases hi with rfl | hi
      · exact ⟨supported_ml _ L c hx.1, supportedO_xsTgt L t hx.2⟩
      · exact ih _ hr i hi

theorem xsItems_ne_nil (L : List Scope) (items : List (PyExpr × Option PyExpr)) (h : items ≠ []) :
    (xsItems L items).1 ≠ [] := by
  cases items with
  | nil => exact absurd rfl h
  | cons x r =>
    obtain ⟨c, v⟩ := x
    cases v <;> simp [xsItems]

/-! ### statements -/

theorem isHandler_xsS (L : List Scope) (s : PyStmt) : isHandler (xsS L s).1 = isHandler s := by
  cases s <;> first | rfl | (simp only [xsS]; first | rfl | (split <;> rfl))

theorem noHandlers_xsB (ss : List PyStmt) : ∀ L : List Scope, noHandlers (xsB L ss).1 = noHandlers ss := by
  induction ss with
  | nil => intro L; rfl
  | cons s r ih =>
    intro L
    have := ih (xsS L s).2
    simp only [noHandlers] at this ⊢
    simp [xsB, isHandler_xsS, this]

theorem allHandlers_xsB (ss : List PyStmt) : ∀ L : List Scope, (xsB L ss).1.all isHandler = ss.all isHandler := by
  induction ss with
  | nil => intro L; rfl
  | cons s r ih => intro L; simp [xsB, isHandler_xsS, ih]

theorem paramsOK_xt (L : List Scope) (po ar : List PyExpr) (va : Option PyExpr) (ko : List PyExpr) (ka : Option PyExpr)
    (h : ParamsOK po ar va ko ka) : ParamsOK (xtL L po) (xtL L ar) (xtO L va) (xtL L ko) (xtO L ka) := by
  obtain ⟨h1, h2, h3, h4, h5, h6, h7, h8, h9, h10⟩ := h
  simp only [ParamsOK, xtL, xtO, all_mlL _ _ (isParam_ml _)]
  exact ⟨wf_mlL _ po L h1, wf_mlL _ ar L h2, wf_mlO _ va L h3, wf_mlL _ ko L h4, wf_mlO _ ka L h5, h6, h7, h8,
    var_mlO _ _ (isAnyVarParam_ml _) L va h9, var_mlO _ _ (isAnyVarParam_ml _) L ka h10⟩

mutual
theorem wfs_xsS : ∀ (s : PyStmt) (L : List Scope), WFS s → WFS (xsS L s).1
  | .expr e, L, h => by
      simp only [WFS] at h
      simp only [xsS, WFS]
      exact supported_ml _ L e h
  | .assign ts v, L, h => by
      simp only [WFS] at h
      simp only [xsS, WFS]
      exact ⟨xsTgtL_ne_nil L ts h.1, supported_xsTgtL ts L h.2.1, supported_ml _ _ v h.2.2⟩
  | .augAssign t op v, L, h => by
      simp only [WFS] at h
      simp only [xsS, WFS]
      exact ⟨h.1, supported_xsTgt L t h.2.1, supported_ml _ _ v h.2.2⟩
  | .return_ v, L, h => by
      simp only [WFS] at h
      simp only [xsS, WFS]
      exact supportedO_mlO _ L v h
  | .delete ts, L, h => by
      simp only [WFS] at h
      simp only [xsS, WFS]
      exact ⟨mlTL_ne_nil _ L ts h.1, supported_mlTL _ L ts h.2⟩
  | .pass_, _, _ => by simp only [xsS, WFS]
  | .break_, _, _ => by simp only [xsS, WFS]
  | .continue_, _, _ => by simp only [xsS, WFS]
  | .assert_ t m, L, h => by
      simp only [WFS] at h
      simp only [xsS, WFS]
      exact ⟨supported_ml _ L t h.1, supportedO_mlO _ L m h.2⟩
  | .raise_ e c, L, h => by
      simp only [WFS] at h
      simp only [xsS, WFS]
      refine ⟨supportedO_mlO _ L e h.1, supportedO_mlO _ L c h.2.1, ?_⟩
      intro he
      cases e with
      | none => rw [h.2.2 rfl]; rfl
      | some x => simp [xtO, mlO] at he
  | .global_ ns, _, h => by simp [WFS] at h
  | .import_ ns, L, h => by
      simp only [WFS] at h
      simp only [xsS, WFS]
      exact h
  | .importFrom m ns lvl, L, h => by
      simp only [WFS] at h
      simp only [xsS]
      split <;> (simp only [WFS]; exact h)
  | .if_ t b o, L, h => by
      simp only [WFS] at h
      simp only [xsS, WFS, noHandlers_xsB]
      exact ⟨supported_ml _ L t h.1, wfsl_xsB b L h.2.1, wfsl_xsB o _ h.2.2.1, h.2.2.2⟩
  | .while_ t b o, L, h => by
      simp only [WFS] at h
      simp only [xsS, WFS, noHandlers_xsB]
      exact ⟨supported_ml _ L t h.1, wfsl_xsB b L h.2.1, wfsl_xsB o _ h.2.2.1, h.2.2.2⟩
  | .for_ t it b o, L, h => by
      simp only [WFS] at h
      simp only [xsS, WFS, noHandlers_xsB]
      exact ⟨supported_xsTgt L t h.1, supported_ml _ _ it h.2.1, wfsl_xsB b _ h.2.2.1, wfsl_xsB o _ h.2.2.2.1, h.2.2.2.2⟩
  | .with_ items b, L, h => by
      simp only [WFS] at h
      simp only [xsS, WFS, noHandlers_xsB]
      exact ⟨xsItems_ne_nil L items h.1, supported_xsItems items L h.2.1, wfsl_xsB b _ h.2.2.1, h.2.2.2⟩
  | .try_ b hs o f, L, h => by
      simp only [WFS] at h
      simp only [xsS, WFS, noHandlers_xsB, allHandlers_xsB]
      exact ⟨wfsl_xsB b L h.1, wfsl_xsB hs _ h.2.1, h.2.2.1, wfsl_xsB o _ h.2.2.2.1, wfsl_xsB f _ h.2.2.2.2.1, h.2.2.2.2.2⟩
  | .handler t n b, L, h => by
      simp only [WFS] at h
      simp only [xsS, WFS, noHandlers_xsB]
      exact ⟨supportedO_mlO _ L t h.1, h.2.1, wfsl_xsB b L h.2.2.1, h.2.2.2⟩
  | .functionDef name po ar va ko ka body decos ret tp, L, h => by
      simp only [WFS] at h
      simp only [xsS, WFS, noHandlers_xsB]
      exact ⟨h.1, paramsOK_xt _ po ar va ko ka h.2.1, wfsl_xsB body _ h.2.2.1, h.2.2.2.1,
        supported_mlL _ _ decos h.2.2.2.2.1, supportedO_mlO _ _ ret h.2.2.2.2.2.1, h.2.2.2.2.2.2⟩
  | .classDef name bases kws body decos tp, L, h => by
      simp only [WFS] at h
      simp only [xsS, WFS, noHandlers_xsB, xtL, all_mlL _ _ (isElt_ml _), all_mlL _ _ (isKw_ml _)]
      exact ⟨h.1, wf_mlL _ bases _ h.2.1, h.2.2.1, wf_mlL _ kws _ h.2.2.2.1, h.2.2.2.2.1, wfsl_xsB body _ h.2.2.2.2.2.1,
        h.2.2.2.2.2.2.1, supported_mlL _ _ decos h.2.2.2.2.2.2.2.1, h.2.2.2.2.2.2.2.2⟩
  | .unsupported k, _, h => by simp [WFS] at h
theorem wfsl_xsB : ∀ (ss : List PyStmt) (L : List Scope), WFSL ss → WFSL (xsB L ss).1
  | [], _, _ => by simp [xsB, WFSL]
  | s :: ss, L, h => by
      simp only [WFSL] at h
      simp only [xsB, WFSL]
      exact ⟨wfs_xsS s L h.1, wfsl_xsB ss _ h.2⟩
end

end Genshi.Py

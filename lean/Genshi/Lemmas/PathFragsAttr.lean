/-
  SimplePathStrategy on `q/@a` for every supported spelling `q`: `__init__` builds the fragment
  list of `q` with the attribute test stored in the last fragment (`fragLoop_snoc_attr`), and
  the matcher runs exactly as on `q`, reporting the (non-empty) value of the attribute test
  where it reports `True` on `q` (`simple_attr_trace`) — whatever the number of fragments,
  KMP fragments included, in both modes.
-/
import Genshi.Lemmas.PathFragsPattern
import Genshi.Lemmas.PathSimpleAttr
namespace Genshi.Path.Frags
open Genshi Genshi.Path Genshi.Path.Ref Genshi.Path.Kmp

/-- the fragment list of `q/@a` from that of `q`: the test goes into the last fragment -/
def setAttr (a : NodeTest) : List Frag → List Frag
  | [] => []
  | [f] => [{ f with attr := some a }]
  | f :: g :: fs => f :: setAttr a (g :: fs)

def withAttr (a : NodeTest) (last : Bool) (f : Frag) : Frag := if last then { f with attr := some a } else f

@[simp] theorem withAttr_tests (a : NodeTest) (b : Bool) (f : Frag) : (withAttr a b f).tests = f.tests := by
  cases b <;> rfl
@[simp] theorem withAttr_pi (a : NodeTest) (b : Bool) (f : Frag) : (withAttr a b f).pi = f.pi := by
  cases b <;> rfl
@[simp] theorem withAttr_sb (a : NodeTest) (b : Bool) (f : Frag) :
    (withAttr a b f).selfBeginning = f.selfBeginning := by
  cases b <;> rfl
theorem withAttr_attr (a : NodeTest) (b : Bool) (f : Frag) :
    (withAttr a b f).attr = if b then some a else f.attr := by
  cases b <;> rfl

@[simp] theorem setAttr_length (a : NodeTest) : ∀ frags : List Frag, (setAttr a frags).length = frags.length
  | [] => rfl
  | [_] => rfl
  | f :: g :: fs => by simp [setAttr, setAttr_length a (g :: fs)]

theorem setAttr_get (a : NodeTest) : ∀ (frags : List Frag) (i : Nat),
    (setAttr a frags)[i]? = (frags[i]?).map (withAttr a (i + 1 == frags.length))
  | [], i => by simp [setAttr]
  | [f], 0 => by simp [setAttr, withAttr]
  | [f], i + 1 => by simp [setAttr]
  | f :: g :: fs, 0 => by simp [setAttr, withAttr]
  | f :: g :: fs, i + 1 => by
      have := setAttr_get a (g :: fs) i
      simp only [setAttr, List.getElem?_cons_succ, List.length_cons] at this ⊢
      rw [this]
      congr 2
      simp

theorem setAttr_snoc (a : NodeTest) (f : Frag) : ∀ frs : List Frag,
    setAttr a (frs ++ [f]) = frs ++ [{ f with attr := some a }]
  | [] => rfl
  | [g] => by simp [setAttr]
  | g :: h :: frs => by
      have := setAttr_snoc a f (h :: frs)
      simp only [List.cons_append] at this ⊢
      simp only [setAttr, this]

section
variable (ns : NsMap)

theorem fragTest_withAttr (a : NodeTest) (b : Bool) (f : Frag) (p : Nat) (e : Event) :
    fragTest (withAttr a b f) p e ns = fragTest f p e ns := by
  simp [fragTest]

theorem kmpBack_withAttr (a : NodeTest) (b : Bool) (f : Frag) (e : Event) : ∀ (fuel p : Nat),
    kmpBack (withAttr a b f) e ns fuel p = kmpBack f e ns fuel p := by
  intro fuel
  induction fuel with
  | zero => intro p; rfl
  | succ fuel ih => intro p; simp only [kmpBack, ih, fragTest_withAttr, withAttr_tests, withAttr_pi]

theorem kmpStep_withAttr (a : NodeTest) (b : Bool) (f : Frag) (p : Nat) (e : Event) :
    kmpStep ns (withAttr a b f) p e = kmpStep ns f p e := by
  simp only [kmpStep, kmpBack_withAttr, fragTest_withAttr]

theorem skipEmpty_setAttr (a : NodeTest) (frags : List Frag) : ∀ (fuel fid : Nat),
    skipEmpty (setAttr a frags) fuel fid = skipEmpty frags fuel fid := by
  intro fuel
  induction fuel with
  | zero => intro fid; rfl
  | succ fuel ih =>
    intro fid
    simp only [skipEmpty, setAttr_get]
    cases frags[fid]? with
    | none => rfl
    | some f => simp only [Option.map_some, withAttr_tests, ih]

/-- **the context-ignoring loop does not look at the attribute test**: same fragment, same
    position, and where a match is reported the attribute returned is that of the path -/
theorem icLoop_setAttr (a : NodeTest) (frags : List Frag) (hok : FragsOk frags) (e : Event) :
    ∀ (fuel fid p : Nat) (frag : Frag), frags[fid]? = some frag → frag.tests ≠ [] → frags.length - fid < fuel →
      ∃ (fid' p' L : Nat) (x : Option NodeTest) (frag' : Frag),
        icLoop frags e ns fuel fid p = (fid', p', L, none) ∧
        icLoop (setAttr a frags) e ns fuel fid p = (fid', p', L, x) ∧
        ((fid' + 1 == frags.length && p' == L) = true → x = some a) ∧
        frags[fid']? = some frag' ∧ frag'.tests ≠ [] := by
  intro fuel
  induction fuel with
  | zero => intro fid p frag _ _ h; omega
  | succ fuel ih =>
    intro fid p frag hfrag hne hfuel
    have hmem : frag ∈ frags := List.mem_of_getElem? hfrag
    have hflt : fid < frags.length := (List.getElem?_eq_some_iff.mp hfrag).1
    have hn : 0 < frag.tests.length := by cases hft : frag.tests <;> simp_all
    have hfrag' : (setAttr a frags)[fid]? = some (withAttr a (fid + 1 == frags.length) frag) := by
      rw [setAttr_get, hfrag]; rfl
    rw [icLoop_succ ns frags _ fuel fid p frag hfrag, icLoop_succ ns _ _ fuel fid p _ hfrag', hok.attr frag hmem]
    simp only [kmpStep_withAttr, withAttr_tests, setAttr_length, withAttr_attr, hok.attr frag hmem]
    by_cases hp : (kmpStep ns frag p e == frag.tests.length) = true
    · simp only [hp, if_true]
      by_cases hlast : (fid + 1 == frags.length) = true
      · simp only [hlast, if_true]
        exact ⟨fid, _, _, _, frag, rfl, rfl, fun _ => rfl, hfrag, hne⟩
      · simp only [hlast, Bool.false_eq_true, if_false]
        have hlt : fid + 1 < frags.length := by simp at hlast; omega
        obtain ⟨nxt, hnxt⟩ : ∃ nxt, frags[fid + 1]? = some nxt := ⟨frags[fid + 1], List.getElem?_eq_getElem hlt⟩
        have hnne : nxt.tests ≠ [] := hok.tail fid nxt hnxt
        simp only [setAttr_get, hnxt, Option.map_some, withAttr_sb]
        by_cases hsb : nxt.selfBeginning = true
        · simp only [hsb, Bool.not_true, Bool.false_eq_true, if_false]
          exact ih (fid + 1) 0 nxt hnxt hnne (by omega)
        · have hsb' : nxt.selfBeginning = false := by simpa using hsb
          simp only [hsb', Bool.not_false, if_true]
          refine ⟨fid + 1, 0, _, _, nxt, rfl, rfl, fun h => ?_, hnxt, hnne⟩
          have : (0 == frag.tests.length) = false := by simp; omega
          simp [this] at h
    · simp only [hp, Bool.false_eq_true, if_false]
      refine ⟨fid, _, _, _, frag, rfl, rfl, fun h => ?_, hfrag, hne⟩
      simp [hp] at h

/-- the syntactic part of `EOk`: what the stack entries of a run look like -/
def EOkS (frags : List Frag) (E : PEntry) : Prop :=
  match E with
  | ⟨none, ic⟩ => ic = false
  | ⟨some (fid, p), false⟩ => fid = 0 ∧ ∃ f0, frags[0]? = some f0 ∧ p < f0.tests.length
  | ⟨some (fid, _), true⟩ => ∃ frag, frags[fid]? = some frag ∧ frag.tests ≠ []

theorem icOut_setAttr (a : NodeTest) (frags : List Frag) (hok : FragsOk frags) (e : Event) (fid p : Nat)
    (frag : Frag) (hfrag : frags[fid]? = some frag) (hne : frag.tests ≠ []) :
    icOut ns (setAttr a frags) e fid p = ((icOut ns frags e fid p).1, gateS ns a e (icOut ns frags e fid p).2) ∧
    EOkS frags (icOut ns frags e fid p).1 := by
  obtain ⟨fid', p', L, x, frag', e1, e2, e3, e4, e5⟩ :=
    icLoop_setAttr ns a frags hok e (frags.length + 1) fid p frag hfrag hne (by omega)
  simp only [icOut, setAttr_length, e1, e2, icResult]
  refine ⟨?_, frag', e4, e5⟩
  by_cases hc : (fid' + 1 == frags.length && p' == L) = true
  · rw [e3 hc]; simp [hc, gateS]
  · simp [hc, gateS]

theorem boundOut_setAttr (a : NodeTest) (frags : List Frag) (hok : FragsOk frags) (e : Event) (f0 : Frag)
    (h0 : frags[0]? = some f0) (p : Nat) (hp : p < f0.tests.length) :
    boundOut ns (setAttr a frags) e (withAttr a (0 + 1 == frags.length) f0) p
      = ((boundOut ns frags e f0 p).1, gateS ns a e (boundOut ns frags e f0 p).2) ∧
    EOkS frags (boundOut ns frags e f0 p).1 := by
  have hmem : f0 ∈ frags := List.mem_of_getElem? h0
  have hflpos : 0 < frags.length := (List.getElem?_eq_some_iff.mp h0).1
  unfold boundOut
  simp only [fragTest_withAttr, withAttr_tests, setAttr_length, withAttr_attr, hok.attr f0 hmem, setAttr_get]
  by_cases hft : fragTest f0 p e ns = true
  · simp only [hft, Bool.not_true, Bool.false_eq_true, if_false]
    by_cases hp1 : (p + 1 == f0.tests.length) = true
    · simp only [hp1, if_true]
      by_cases hfl : (frags.length == 1) = true
      · have hfl' : (0 + 1 == frags.length) = true := by simp at hfl ⊢; omega
        simp only [hfl, hfl', if_true]
        exact ⟨by simp [gateS], rfl⟩
      · simp only [hfl, Bool.false_eq_true, if_false]
        have hlt : 1 < frags.length := by simp at hfl; omega
        obtain ⟨nxt, hnxt⟩ : ∃ nxt, frags[1]? = some nxt := ⟨frags[1], List.getElem?_eq_getElem hlt⟩
        have hnne : nxt.tests ≠ [] := hok.tail 0 nxt hnxt
        simp only [hnxt, Option.map_some, withAttr_sb, Option.getD_some]
        by_cases hsb : nxt.selfBeginning = true
        · simp only [hsb, Bool.not_true, Bool.false_eq_true, if_false]
          exact icOut_setAttr ns a frags hok e 1 0 nxt hnxt hnne
        · have hsb' : nxt.selfBeginning = false := by simpa using hsb
          simp only [hsb', Bool.not_false, if_true]
          exact ⟨by simp [gateS], nxt, hnxt, hnne⟩
    · simp only [hp1, Bool.false_eq_true, if_false]
      have hp1' : p + 1 ≠ f0.tests.length := by simpa using hp1
      exact ⟨by simp [gateS], rfl, f0, h0, by omega⟩
  · have hft' : fragTest f0 p e ns = false := by simpa using hft
    simp only [hft', Bool.not_false, if_true]
    exact ⟨by simp [gateS], rfl⟩

theorem pStep_none_entry (frags : List Frag) (ig : Bool) (e : Event) (rest : PState)
    (he : e.isEnd = false) (hm : e.isNsOrCdata = false) :
    pStep (some frags) ig ns (⟨none, false⟩ :: rest) e =
      ((if e.isStart then ⟨none, false⟩ :: ⟨none, false⟩ :: rest else ⟨none, false⟩ :: rest), .none) := by
  simp only [pStep, he, hm, Bool.false_eq_true, if_false]

/-- **one call of the matcher on `q/@a`** is the call on `q`, with the result gated by the
    attribute test -/
theorem pStep_setAttr (a : NodeTest) (frags : List Frag) (hok : FragsOk frags) (ig : Bool) (st : PState)
    (hst : ∀ E ∈ st, EOkS frags E) (e : Event) :
    pStep (some (setAttr a frags)) ig ns st e
      = ((pStep (some frags) ig ns st e).1, gateS ns a e (pStep (some frags) ig ns st e).2) ∧
    ∀ E ∈ (pStep (some frags) ig ns st e).1, EOkS frags E := by
  by_cases he : e.isEnd = true
  · simp only [pStep, he, if_true, gateS]
    exact ⟨trivial, fun E hE => hst E (List.mem_of_mem_drop hE)⟩
  by_cases hm : e.isNsOrCdata = true
  · simp only [pStep, he, hm, if_true, Bool.false_eq_true, if_false, gateS]
    exact ⟨trivial, hst⟩
  have he' : e.isEnd = false := by simpa using he
  have hm' : e.isNsOrCdata = false := by simpa using hm
  have hpush : ∀ (E' E : PEntry) (rest : PState), EOkS frags E' → (∀ X ∈ E :: rest, EOkS frags X) →
      ∀ X ∈ (if e.isStart then E' :: E :: rest else E :: rest), EOkS frags X := by
    intro E' E rest h1 h2 X hX
    split at hX
    · rcases List.mem_cons.mp hX with h | h
      · rw [h]; exact h1
      · exact h2 X h
    · exact h2 X hX
  cases st with
  | nil =>
    obtain ⟨f0, h0, hhead⟩ := hok.head
    have hsk := skipEmpty_val frags hok f0 h0
    have hsk' : skipEmpty (setAttr a frags) ((setAttr a frags).length + 1) 0
        = skipEmpty frags (frags.length + 1) 0 := by rw [setAttr_length, skipEmpty_setAttr]
    have hpush1 : ∀ (E' : PEntry), EOkS frags E' →
        ∀ X ∈ (if e.isStart then [E'] else []), EOkS frags X := by
      intro E' h1 X hX
      split at hX
      · simp at hX; rw [hX]; exact h1
      · simp at hX
    -- the fragment the run starts in
    obtain ⟨fid, fr, hfid, hfr, hfrne⟩ : ∃ fid fr, skipEmpty frags (frags.length + 1) 0 = fid ∧
        frags[fid]? = some fr ∧ fr.tests ≠ [] := by
      by_cases hemp : f0.tests = []
      · obtain ⟨_, h2⟩ := hhead hemp
        obtain ⟨f1, hf1⟩ : ∃ f1, frags[1]? = some f1 := ⟨frags[1], List.getElem?_eq_getElem (by omega)⟩
        exact ⟨1, f1, by rw [hsk, if_pos hemp], hf1, hok.tail 0 f1 hf1⟩
      · exact ⟨0, f0, by rw [hsk, if_neg hemp], h0, hemp⟩
    have hfid' : skipEmpty (setAttr a frags) ((setAttr a frags).length + 1) 0 = fid := by rw [hsk', hfid]
    have hsbeq : ((setAttr a frags)[fid]?.map Frag.selfBeginning).getD false
        = (frags[fid]?.map Frag.selfBeginning).getD false := by
      rw [setAttr_get, hfr]; simp
    cases ig with
    | true =>
      rw [pStep_ic_root_pat ns _ fid e he' hm' hfid', pStep_ic_root_pat ns frags fid e he' hm' hfid]
      obtain ⟨o1, o2⟩ := icOut_setAttr ns a frags hok e fid 0 fr hfr hfrne
      rw [o1]
      exact ⟨rfl, hpush1 _ o2⟩
    | false =>
      by_cases hsb : (frags[fid]?.map Frag.selfBeginning).getD false = true
      · by_cases hpos : 0 < fid
        · rw [pStep_ic_root ns _ fid e he' hm' hfid' hpos (by rw [hsbeq]; exact hsb),
            pStep_ic_root ns frags fid e he' hm' hfid hpos hsb]
          obtain ⟨o1, o2⟩ := icOut_setAttr ns a frags hok e fid 0 fr hfr hfrne
          rw [o1]
          exact ⟨rfl, hpush1 _ o2⟩
        · have hz : fid = 0 := by omega
          subst hz
          rw [h0] at hfr; cases hfr
          have hlen : 0 < f0.tests.length := by cases h : f0.tests <;> simp_all
          have hsb0 : f0.selfBeginning = true := by simpa [h0] using hsb
          have h0' : (setAttr a frags)[0]? = some (withAttr a (0 + 1 == frags.length) f0) := by
            rw [setAttr_get, h0]; rfl
          rw [pStep_bound_root ns _ _ h0' (by simpa using hlen) e he' hm' hfid' (by simpa using hsb0),
            pStep_bound_root ns frags f0 h0 hlen e he' hm' hfid hsb0]
          obtain ⟨o1, o2⟩ := boundOut_setAttr ns a frags hok e f0 h0 0 hlen
          rw [o1]
          exact ⟨rfl, hpush1 _ o2⟩
      · have hsb' : (frags[fid]?.map Frag.selfBeginning).getD false = false := by simpa using hsb
        rw [pStep_skip_root ns _ fid e he' hm' hfid' (by rw [hsbeq]; exact hsb'),
          pStep_skip_root ns frags fid e he' hm' hfid hsb']
        refine ⟨by simp [gateS], fun X hX => ?_⟩
        simp only [List.mem_singleton] at hX
        rw [hX]
        by_cases hpos : 0 < fid
        · have : decide (fid > 0) = true := by simpa using hpos
          rw [this]; exact ⟨fr, hfr, hfrne⟩
        · have hz : fid = 0 := by omega
          subst hz
          rw [h0] at hfr; cases hfr
          have hlen : 0 < f0.tests.length := by cases h : f0.tests <;> simp_all
          simp only [gt_iff_lt, Nat.lt_irrefl, decide_false]
          exact ⟨rfl, f0, h0, hlen⟩
  | cons E rest =>
    have hE := hst E List.mem_cons_self
    obtain ⟨fp, ic⟩ := E
    cases fp with
    | none =>
      simp only [EOkS] at hE
      subst hE
      rw [pStep_none_entry ns _ ig e rest he' hm', pStep_none_entry ns frags ig e rest he' hm']
      exact ⟨by simp [gateS], hpush _ _ _ rfl hst⟩
    | some fpv =>
      obtain ⟨fid, p⟩ := fpv
      cases ic with
      | false =>
        obtain ⟨rfl, f0, h0, hp⟩ := hE
        have h0' : (setAttr a frags)[0]? = some (withAttr a (0 + 1 == frags.length) f0) := by
          rw [setAttr_get, h0]; rfl
        rw [pStep_bound ns _ ig _ h0' p (by simpa using hp) rest e he' hm',
          pStep_bound ns frags ig f0 h0 p hp rest e he' hm']
        obtain ⟨o1, o2⟩ := boundOut_setAttr ns a frags hok e f0 h0 p hp
        rw [o1]
        exact ⟨rfl, hpush _ _ _ o2 hst⟩
      | true =>
        obtain ⟨frag, hfrag, hne⟩ := hE
        rw [pStep_ic ns _ ig fid p rest e he' hm', pStep_ic ns frags ig fid p rest e he' hm']
        obtain ⟨o1, o2⟩ := icOut_setAttr ns a frags hok e fid p frag hfrag hne
        rw [o1]
        exact ⟨rfl, hpush _ _ _ o2 hst⟩

/-- SimplePathStrategy on the fragment list of `q/@a`: the run on the list of `q`, gated -/
theorem simple_setAttr_run (a : NodeTest) (frags : List Frag) (hok : FragsOk frags) (ig : Bool) (es : List Event) :
    (runOne (pStep (some (setAttr a frags)) ig ns) [] es).1
      = List.zipWith (gateS ns a) es (runOne (pStep (some frags) ig ns) [] es).1 :=
  runOne_rel _ _ (fun s t => s = t ∧ ∀ E ∈ t, EOkS frags E) (gateS ns a)
    (fun s t e hr => by
      obtain ⟨rfl, hsh⟩ := hr
      obtain ⟨h1, h2⟩ := pStep_setAttr ns a frags hok ig s hsh e
      rw [h1]
      exact ⟨⟨rfl, h2⟩, rfl⟩)
    es [] [] ⟨rfl, fun E hE => by simp at hE⟩

end

/-! ## `__init__` on `q/@a` -/

theorem fragLoop_snoc_attr (a : Step) (ha : a.axis = .attribute) : ∀ (q : LocPath), (∀ s ∈ q, s.axis ≠ .attribute) →
    ∀ (frs : List Frag) (acc : List NodeTest) (sb : Bool),
      fragLoop (q ++ [a]) frs acc sb = (fragLoop q frs acc sb).map (setAttr a.test)
  | [], _, frs, acc, sb => by
      obtain ⟨ax, t, preds⟩ := a
      simp only at ha
      subst ha
      simp [fragLoop, setAttr_snoc]
  | s :: q, hq, frs, acc, sb => by
      have ih := fragLoop_snoc_attr a ha q (fun s' hs' => hq s' (List.mem_cons_of_mem _ hs'))
      have hs := hq s List.mem_cons_self
      obtain ⟨ax, t, preds⟩ := s
      simp only at hs
      cases ax with
      | «attribute» => exact absurd rfl hs
      | child => simp only [List.cons_append, fragLoop, ih]
      | descendant => simp only [List.cons_append, fragLoop, ih]
      | descendantOrSelf => simp only [List.cons_append, fragLoop, ih]
      | self =>
        simp only [List.cons_append, fragLoop]
        cases acc.getLast? with
        | none => simp only [ih]
        | some last =>
          simp only
          split
          · rfl
          · exact ih _ _ _

theorem fragments_snoc_attr (q : LocPath) (hq : ∀ s ∈ q, SStep s) (a : Step) (ha : a.axis = .attribute) :
    fragments (q ++ [a]) = (fragments q).map (setAttr a.test) :=
  fragLoop_snoc_attr a ha q (fun s hs => (hq s hs).2.2) [] [] false

theorem zipWith_gateS_none (ns : NsMap) (a : NodeTest) : ∀ (es : List Event),
    List.zipWith (gateS ns a) es (List.replicate es.length Val.none) = List.replicate es.length Val.none
  | [] => rfl
  | e :: es => by
      simp only [List.length_cons, List.replicate_succ, List.zipWith_cons_cons, zipWith_gateS_none ns a es]
      rfl

/-- **SimplePathStrategy on `q/@a`**, `q` any supported spelling, both modes: the run on `q`,
    with the value of the attribute test where `q` matches -/
theorem simple_attr_trace (ns : NsMap) (xvs : XVars) (q : LocPath) (hq : ∀ s ∈ q, SStep s) (hne : q ≠ [])
    (a : Step) (ha : a.axis = .attribute) (ig : Bool) (es : List Event) :
    (runOne (pStep (fragments (q ++ [a])) ig ns) [] es).1
      = List.zipWith (gateS ns a.test) es (runOne (pStep (fragments q) ig ns) [] es).1 := by
  rw [fragments_snoc_attr q hq a ha]
  have h := fragments_sem ns xvs q hq hne
  cases hf : fragments q with
  | none =>
    simp only [Option.map_none]
    rw [run_none, zipWith_gateS_none]
  | some out =>
    rw [hf] at h
    simp only [Option.map_some]
    exact simple_setAttr_run ns a.test out h.1 ig es

theorem attrFlagM_eq : FragsM.attrFlagM = NodeTest.attrFlag := by
  funext t; cases t <;> rfl

/-- a path the driver reports as in the scope of `C17.simple_eq_generic` (`C17 fullscope`
    answers `T`) satisfies its hypotheses -/
theorem fullScope_sound (p : LocPath) (h : FragsM.fullScopeM p = true) :
    simpleSupports p = true ∧ ∀ s ∈ p, s.axis ≠ .attribute → s.test.attrFlag = false := by
  simp only [FragsM.fullScopeM, Bool.and_eq_true, List.all_eq_true, Bool.or_eq_true, beq_iff_eq,
    Bool.not_eq_true'] at h
  refine ⟨h.1, fun s hs hax => ?_⟩
  rcases h.2 s hs with h1 | h1
  · exact absurd h1 hax
  · rw [← attrFlagM_eq]; exact h1

end Genshi.Path.Frags

/-
  C02 — the tokenizer reads back what the serializer writes, part B: the pieces
  of markup (`takeMarkup`) and runs of character data.
-/
import Genshi.Lemmas.XmlTokA
import Mathlib.Data.List.Forall2
namespace Genshi.Xml
open Genshi Genshi.Escape Genshi.Xml.Reader

/-! ### `breakOn` -/

theorem isPrefixOf_append_of_le : ∀ (l a b : Str), l.length ≤ a.length →
    l.isPrefixOf (a ++ b) = l.isPrefixOf a := by
  intro l
  induction l with
  | nil => intro a b _; simp
  | cons c cs ih =>
    intro a b h
    cases a with
    | nil => simp at h
    | cons d ds =>
      simp only [List.cons_append, List.isPrefixOf]
      rw [ih ds b (by simpa using h)]

theorem isPrefixOf_self_append (l b : Str) : l.isPrefixOf (l ++ b) = true := by
  induction l with
  | nil => simp
  | cons c cs ih => simp [List.isPrefixOf, ih]

/-- `pat` first occurs right after `body` when no occurrence starts inside
    `body` (such an occurrence would lie within `body ++ pat.dropLast`) -/
theorem breakOn_first (pat : Str) (hp : pat ≠ []) (body rest : Str)
    (h : hasSub pat (body ++ pat.dropLast) = false) :
    breakOn pat (body ++ pat ++ rest) = some (body, rest) := by
  induction body with
  | nil =>
    obtain ⟨p, ps, rfl⟩ : ∃ p ps, pat = p :: ps := by
      cases pat with
      | nil => exact absurd rfl hp
      | cons p ps => exact ⟨p, ps, rfl⟩
    simp only [List.nil_append, List.cons_append, breakOn]
    have := isPrefixOf_self_append (p :: ps) rest
    simp only [List.cons_append] at this
    rw [if_pos this]
    simp
  | cons c cs ih =>
    unfold hasSub at h
    simp only [List.cons_append, breakOn] at h
    split at h
    · simp at h
    · rename_i hnp
      have hrec : hasSub pat (cs ++ pat.dropLast) = false := by
        unfold hasSub
        cases hb : breakOn pat (cs ++ pat.dropLast) with
        | none => rfl
        | some r => rw [hb] at h; simp at h
      have e : c :: cs ++ pat ++ rest = (c :: (cs ++ pat.dropLast)) ++ ([pat.getLast hp] ++ rest) := by
        conv_lhs => rw [← List.dropLast_concat_getLast hp]
        simp
      have hlen : pat.length ≤ (c :: (cs ++ pat.dropLast)).length := by
        simp; omega
      have hnpb : pat.isPrefixOf (c :: (cs ++ pat.dropLast)) = false := by
        cases hq : pat.isPrefixOf (c :: (cs ++ pat.dropLast)) with
        | false => rfl
        | true => exact absurd hq hnp
      have hnp' : pat.isPrefixOf (c :: cs ++ pat ++ rest) = false := by
        rw [e, isPrefixOf_append_of_le _ _ _ hlen]
        exact hnpb
      simp only [List.cons_append, breakOn] at hnp' ⊢
      simp only [List.append_assoc] at hnp' ⊢
      rw [if_neg (by rw [hnp']; exact Bool.false_ne_true)]
      have := ih hrec
      simp only [List.append_assoc] at this
      rw [this]; rfl

theorem hasSub_false_of_not_mem (pat : Str) (c : Char) (hc : c ∈ pat) (s : Str) (hs : c ∉ s) :
    hasSub pat s = false := by
  unfold hasSub
  induction s with
  | nil =>
    cases pat with
    | nil => simp at hc
    | cons p ps => simp [breakOn]
  | cons d ds ih =>
    have hd : c ≠ d := fun e => hs (by simp [e])
    have hds : c ∉ ds := fun e => hs (by simp [e])
    simp only [breakOn]
    have hnp : pat.isPrefixOf (d :: ds) = false := by
      cases hpf : pat.isPrefixOf (d :: ds) with
      | false => rfl
      | true =>
        exfalso
        have := List.isPrefixOf_iff_prefix.mp hpf
        obtain ⟨t, ht⟩ := this
        have : c ∈ d :: ds := by rw [← ht]; simp [hc]
        exact hs this
    rw [if_neg (by simp [hnp])]
    have := ih hds
    cases hb : breakOn pat ds with
    | none => simp
    | some r => rw [hb] at this; simp at this

/-! ### pieces of markup -/

theorem emitAttrsWith_head (enc : List (Str × Str)) (closing rest : Str) (hc : closing = ['>'] ∨ closing = ['/', '>']) :
    ∃ x r, emitAttrsWith enc ++ closing ++ rest = x :: r ∧ isNameStop x = true := by
  cases enc with
  | nil =>
    rcases hc with rfl | rfl
    · exact ⟨'>', rest, by simp [emitAttrsWith], by decide⟩
    · exact ⟨'/', '>' :: rest, by simp [emitAttrsWith], by decide⟩
  | cons e es =>
    obtain ⟨a, ev⟩ := e
    exact ⟨' ', a ++ ('=' :: '"' :: ev) ++ '"' :: emitAttrsWith es ++ closing ++ rest, by simp [emitAttrsWith], by decide⟩

theorem emitAttrsWith_length (enc : List (Str × Str)) : enc.length ≤ (emitAttrsWith enc).length := by
  induction enc with
  | nil => simp [emitAttrsWith]
  | cons e es ih =>
    obtain ⟨a, ev⟩ := e
    simp only [emitAttrsWith, List.length_cons, List.length_append]
    omega

theorem validName_first_ok {n : Str} (hn : validName n = true) :
    ∃ c cs, n = c :: cs ∧ c ≠ '!' ∧ c ≠ '?' ∧ c ≠ '/' := by
  obtain ⟨c, cs, rfl, hc⟩ := validName_head hn
  refine ⟨c, cs, rfl, ?_, ?_, ?_⟩ <;> (intro e; subst e; revert hc; decide)

/-- a start tag (or empty-element tag) is read back -/
theorem takeMarkup_start (name : Str) (enc attrs : List (Str × Str)) (selfc : Bool) (rest : Str)
    (hn : validName name = true)
    (h : List.Forall₂ (fun e a => e.1 = a.1 ∧ validName a.1 = true ∧ AttrEnc e.2 a.2) enc attrs) :
    takeMarkup (name ++ emitAttrsWith enc ++ (if selfc then ['/', '>'] else ['>']) ++ rest) =
      some ([if selfc then FEv.empty name attrs else FEv.start name attrs], rest) := by
  obtain ⟨c, cs, rfl, h1, h2, h3⟩ := validName_first_ok hn
  have hcl : (if selfc then ['/', '>'] else ['>']) = ['>'] ∨ (if selfc then ['/', '>'] else ['>']) = ['/', '>'] := by
    cases selfc <;> simp
  obtain ⟨x, r, hx, hxs⟩ := emitAttrsWith_head enc _ rest hcl
  have e1 : (c :: cs) ++ emitAttrsWith enc ++ (if selfc then ['/', '>'] else ['>']) ++ rest = (c :: cs) ++ x :: r := by
    rw [← hx]; simp
  have hlen : attrs.length < (x :: r).length + 1 := by
    rw [← hx]
    have := emitAttrsWith_length enc
    have hl := h.length_eq
    simp only [List.length_append]
    cases selfc <;> simp <;> omega
  rw [e1]
  unfold takeMarkup
  split
  · rename_i heq; simp only [List.cons_append, List.cons.injEq] at heq; exact absurd heq.1 h1
  · rename_i heq; simp only [List.cons_append, List.cons.injEq] at heq; exact absurd heq.1 h1
  · rename_i heq; simp only [List.cons_append, List.cons.injEq] at heq; exact absurd heq.1 h1
  · rename_i heq; simp only [List.cons_append, List.cons.injEq] at heq; exact absurd heq.1 h2
  · rename_i heq; simp only [List.cons_append, List.cons.injEq] at heq; exact absurd heq.1 h3
  · rw [takeName_until (c :: cs) x r hn hxs]
    simp only [hn, Bool.not_true, Bool.false_eq_true, if_false]
    rw [← hx, takeAttrs_emit enc attrs h _ selfc rfl rest _ (by rw [hx]; exact hlen)]
    cases selfc <;> rfl

/-- an end tag is read back -/
theorem takeMarkup_end (name rest : Str) (hn : validName name = true) :
    takeMarkup ('/' :: (name ++ '>' :: rest)) = some ([FEv.end_ name], rest) := by
  simp only [takeMarkup]
  rw [takeName_until name '>' rest hn (by decide)]
  simp only [hn, Bool.not_true, Bool.false_eq_true, if_false]
  rw [dropSpaces_of_head (c := '>') (by decide)]
  rfl

/-- a comment is read back -/
theorem takeMarkup_comment (s rest : Str) (hx : s.all isXmlChar = true)
    (hd : hasSub ['-', '-'] (s ++ ['-']) = false) :
    takeMarkup ('!' :: '-' :: '-' :: (s ++ ['-', '-', '>'] ++ rest)) = some ([FEv.other (.comment s)], rest) := by
  simp only [takeMarkup]
  have e : s ++ ['-', '-', '>'] ++ rest = s ++ ['-', '-'] ++ ('>' :: rest) := by simp
  rw [e, breakOn_first ['-', '-'] (by simp) s ('>' :: rest) (by simpa using hd)]
  simp [hx]

/-- a CDATA section is read back -/
theorem takeMarkup_cdata (s rest : Str) (hx : s.all isXmlChar = true)
    (hd : hasSub [']', ']', '>'] (s ++ [']', ']']) = false) :
    takeMarkup ('!' :: '[' :: 'C' :: 'D' :: 'A' :: 'T' :: 'A' :: '[' :: (s ++ [']', ']', '>'] ++ rest)) =
      some (if s.isEmpty then [FEv.other .startCdata, FEv.other .endCdata]
            else [FEv.other .startCdata, FEv.other (.text s false), FEv.other .endCdata], rest) := by
  simp only [takeMarkup]
  rw [breakOn_first [']', ']', '>'] (by simp) s rest (by simpa using hd)]
  simp only [hx, Bool.not_true, Bool.false_eq_true, if_false]
  cases s <;> simp

theorem isNameStop_sp : isNameStop ' ' = true := by decide

/-- a processing instruction is read back -/
theorem takeMarkup_pi (t d rest : Str) (ht : validName t = true) (hc : ':' ∉ t)
    (hxml : t.map lowerAscii ≠ ['x', 'm', 'l']) (hx : d.all isXmlChar = true)
    (hsp : (d.head?.map isSpace).getD false = false)
    (hd : hasSub ['?', '>'] (d ++ ['?']) = false) :
    takeMarkup ('?' :: (t ++ ' ' :: d ++ ['?', '>'] ++ rest)) = some ([FEv.other (.pi t d)], rest) := by
  simp only [takeMarkup]
  have e : t ++ ' ' :: d ++ ['?', '>'] ++ rest = t ++ ' ' :: (d ++ ['?', '>'] ++ rest) := by simp
  rw [e, takeName_until t ' ' _ ht isNameStop_sp]
  have e2 : List.elem ':' t = false := by simpa using hc
  simp only [ht, e2, hxml, Bool.not_true, Bool.false_eq_true, Bool.or_self, decide_false, if_false]
  have hdrop : dropSpaces (d ++ ['?', '>'] ++ rest) = d ++ ['?', '>'] ++ rest := by
    cases d with
    | nil =>
      have : isSpace '?' = false := by decide
      simp [dropSpaces, List.dropWhile, this]
    | cons c cs =>
      simp only [List.head?_cons, Option.map_some, Option.getD_some] at hsp
      simp [dropSpaces, List.dropWhile, hsp]
  split
  · rename_i heq; simp at heq
  · rename_i c s2 heq
    simp only [List.cons.injEq] at heq
    obtain ⟨rfl, rfl⟩ := heq
    simp only [isSpace_sp, Bool.not_true, Bool.false_eq_true, if_false]
    rw [hdrop, breakOn_first ['?', '>'] (by simp) d rest (by simpa using hd)]
    simp [hx]
  · rename_i heq; simp at heq

end Genshi.Xml

/-
  C16 — the atomic load of the interleaving model is C15's `load`
  (for requests whose callback performs no nested loads).
-/
import Genshi.Lemmas.Conc
namespace Genshi.Conc
open Genshi.Lru Genshi.Loader

theorem search_eq_probe (cfg : Cfg) (fs : FS) (s : LState) (r : Req) (key : Key) (isabs : Bool)
    (entries : List Entry) :
    search cfg fs s r key isabs entries =
      match searchProbe fs r.fault key entries with
      | none => (s, .err .notFound)
      | some .skip => (s, .err .notFound)
      | some .raise => (s, .err .loadFunc)
      | some (.found loc f u) => instantiate cfg s r key isabs loc f u := by
  induction entries with
  | nil => rfl
  | cons e rest ih =>
    unfold search searchProbe
    cases hp : probe fs r.fault e key with
    | skip => simp only [ih]
    | raise => rfl
    | found loc f u => rfl

/-! one step at a time under `finish` -/

theorem finish_step (c : CCfg) (tid : Tid) (x y : CS) (h : csStep c tid x = y) :
    finish c tid x = finish c tid y := by rw [← h, finish_csStep]

theorem finish_released (c : CCfg) (tid : Tid) (ls : LState) (q : CReq) (res : Res)
    (comp : List (Tid × Req × Res)) :
    finish c tid ⟨ls, [⟨q, .released res⟩], comp⟩ = ⟨ls, [⟨q, .released res⟩], comp⟩ := by
  unfold finish
  exact iter_fixed _ _ rfl _

theorem finish_done (c : CCfg) (tid : Tid) (ls : LState) (q : CReq) (res : Res)
    (comp : List (Tid × Req × Res)) :
    finish c tid ⟨ls, [⟨q, .done res⟩], comp⟩ =
      ⟨{ ls with lock := ls.lock - 1 }, [⟨q, .released res⟩], comp ++ [(tid, q.r, res)]⟩ := by
  rw [finish_step c tid _ _ rfl]
  simp only [csStep, List.isEmpty_nil, if_true]
  exact finish_released ..

/-- from a delivered file to the end: parse, callback (no nested loads), store, release -/
theorem finish_found (c : CCfg) (tid : Tid) (ls : LState) (r : Req) (key : Key) (loc : Loc) (f : File)
    (u : Utd) (isabs : Bool) (comp : List (Tid × Req × Res)) :
    finish c tid ⟨ls, [⟨.mk r key [], .found loc f u isabs⟩], comp⟩ =
      ⟨{ (instantiate c.cfg ls r key isabs loc f u).1 with
            lock := (instantiate c.cfg ls r key isabs loc f u).1.lock - 1 },
       [⟨.mk r key [], .released (instantiate c.cfg ls r key isabs loc f u).2⟩],
       comp ++ [(tid, r, (instantiate c.cfg ls r key isabs loc f u).2)]⟩ := by
  by_cases hb : f.bad = true
  · rw [finish_step c tid _ _ rfl]
    simp only [csStep, hb, if_true]
    rw [finish_done]
    simp [instantiate, hb, CReq.r]
  · have hb' : f.bad = false := by simpa using hb
    rw [finish_step c tid _ _ rfl]
    simp only [csStep, hb', Bool.false_eq_true, if_false, CReq.children, CReq.r]
    cases hcb : c.cfg.hasCallback with
    | false =>
      simp only [Bool.false_eq_true, if_false]
      rw [finish_step c tid _ _ rfl]
      simp only [csStep, hcb, Bool.false_and, Bool.false_eq_true, if_false]
      rw [finish_step c tid _ _ rfl]
      simp only [csStep]
      rw [finish_done]
      simp [instantiate, hb', hcb, CReq.r, CReq.key]
    | true =>
      simp only [if_true]
      rw [finish_step c tid _ _ rfl]
      simp only [csStep, hcb, Bool.true_and, CReq.r]
      cases hr : r.cbRaise with
      | true =>
        simp only [if_true]
        rw [finish_done]
        simp [instantiate, hb', hcb, hr, CReq.r]
      | false =>
        simp only [Bool.false_eq_true, if_false]
        rw [finish_step c tid _ _ rfl]
        simp only [csStep]
        rw [finish_done]
        simp [instantiate, hb', hcb, hr, CReq.r, CReq.key]


/-- one whole top-level load of the interleaving model, without nested loads, is C15's `load` -/
theorem atomicLoad_eq_load (c : CCfg) (tid : Tid) (ls ls' : LState) (comp : List (Tid × Req × Res))
    (r : Req) (key : Key) (res : Res)
    (hk : resolve c.cfg.path.isEmpty r = some key)
    (h : Loader.load c.cfg c.fs ls r = some (ls', res)) :
    atomicLoad c tid ls comp (.mk r key []) = (ls', comp ++ [(tid, r, res)]) := by
  unfold Loader.load at h
  simp only [hk, Option.some.injEq, Prod.mk.injEq] at h
  obtain ⟨h1, h2⟩ := h
  unfold atomicLoad
  simp only
  -- acquire
  rw [finish_step c tid _ _ rfl]
  simp only [csStep]
  generalize ({ ls with lock := ls.lock + 1 } : LState) = s0 at h1 h2 ⊢
  -- lookup
  rw [finish_step c tid _ _ rfl]
  simp only [csStep, CReq.key]
  -- decide
  rw [finish_step c tid _ _ rfl]
  simp only [csStep, decide, CReq.key, CReq.r]
  unfold loadBody at h1 h2
  have hsc : ∀ cch, stillCurrent c.fs { s0 with cache := cch } key = stillCurrent c.fs s0 key := fun _ => rfl
  cases hhit : alookup key s0.cache.items with
  | none =>
    simp only [hhit] at h1 h2 ⊢
    cases hsp : searchPath c.cfg r key with
    | none =>
      simp only [hsp] at h1 h2 ⊢
      rw [finish_done]
      subst h2; rw [← h1]; simp [CReq.r]
    | some p =>
      obtain ⟨entries, isabs⟩ := p
      simp only [hsp, search_eq_probe] at h1 h2 ⊢
      cases hpr : searchProbe c.fs r.fault key entries with
      | none =>
        simp only [hpr] at h1 h2 ⊢
        rw [finish_done]
        subst h2; rw [← h1]; simp [CReq.r]
      | some pr =>
        cases pr with
        | skip =>
          simp only [hpr] at h1 h2 ⊢
          rw [finish_done]
          subst h2; rw [← h1]; simp [CReq.r]
        | raise =>
          simp only [hpr] at h1 h2 ⊢
          rw [finish_done]
          subst h2; rw [← h1]; simp [CReq.r]
        | found loc f u =>
          simp only [hpr] at h1 h2 ⊢
          rw [finish_found]
          subst h2; rw [← h1]
  | some t =>
    simp only [hhit, hsc] at h1 h2 ⊢
    cases har : c.cfg.autoReload with
    | false =>
      simp only [har, Bool.not_false, if_true] at h1 h2 ⊢
      rw [finish_done]
      subst h2; rw [← h1]; simp [CReq.r]
    | true =>
      simp only [har, Bool.not_true, Bool.false_eq_true, if_false] at h1 h2 ⊢
      cases hcur : stillCurrent c.fs s0 key with
      | true =>
        simp only [hcur, if_true] at h1 h2 ⊢
        rw [finish_done]
        subst h2; rw [← h1]; simp [CReq.r]
      | false =>
        simp only [hcur, Bool.false_eq_true, if_false] at h1 h2 ⊢
        cases hsp : searchPath c.cfg r key with
        | none =>
          simp only [hsp] at h1 h2 ⊢
          rw [finish_done]
          subst h2; rw [← h1]; simp [CReq.r]
        | some p =>
          obtain ⟨entries, isabs⟩ := p
          simp only [hsp, search_eq_probe] at h1 h2 ⊢
          cases hpr : searchProbe c.fs r.fault key entries with
          | none =>
            simp only [hpr] at h1 h2 ⊢
            rw [finish_done]
            subst h2; rw [← h1]; simp [CReq.r]
          | some pr =>
            cases pr with
            | skip =>
              simp only [hpr] at h1 h2 ⊢
              rw [finish_done]
              subst h2; rw [← h1]; simp [CReq.r]
            | raise =>
              simp only [hpr] at h1 h2 ⊢
              rw [finish_done]
              subst h2; rw [← h1]; simp [CReq.r]
            | found loc f u =>
              simp only [hpr] at h1 h2 ⊢
              rw [finish_found]
              subst h2; rw [← h1]

end Genshi.Conc

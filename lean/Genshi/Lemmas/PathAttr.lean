/-
  Paths that end in an attribute step (`a/@x`, `.//@x`, `*[@k]/@*`) under GenericStrategy:
  the matcher reports the attribute selection at the elements reached by the steps before,
  and `Path.select` yields those selections in document order.
-/
import Genshi.Lemmas.PathNonPos
namespace Genshi.Path
open Genshi Genshi.Path.Ref

/-! ## Per-event results as marks -/

/-- `True` at the events of the marked locations -/
def markVals (mk : List Nat → Bool) (locs : List (Option LNode)) : List Val :=
  locs.map fun l => match l with
    | some m => if mk m.loc then Val.bool true else Val.none
    | none => Val.none

theorem okVals_markVals (mk : List Nat → Bool) : ∀ (locs : List (Option LNode)), okVals (markVals mk locs) locs
  | [] => trivial
  | l :: ls => by
      refine ⟨?_, okVals_markVals mk ls⟩
      cases l with
      | none => exact Or.inl rfl
      | some m =>
        simp only
        cases mk m.loc
        · exact Or.inl rfl
        · exact Or.inr ⟨rfl, rfl⟩

theorem selB_markVals (mk : List Nat → Bool) (x : List Nat) : ∀ (locs : List (Option LNode)),
    selB (markVals mk locs) locs x = (mk x && (locsOf locs).contains x)
  | [] => by simp [selB, matched, markVals, locsOf]
  | l :: ls => by
      have ih := selB_markVals mk x ls
      have hm : markVals mk (l :: ls) = (match l with
          | some m => if mk m.loc then Val.bool true else Val.none
          | none => Val.none) :: markVals mk ls := rfl
      rw [hm, selB_cons, ih]
      cases l with
      | none =>
        have : locsOf (none :: ls) = locsOf ls := rfl
        simp [this]
      | some m =>
        have hl : locsOf (some m :: ls) = m.loc :: locsOf ls := rfl
        rw [hl, List.contains_cons]
        simp only
        by_cases hx : m.loc = x
        · subst hx
          cases hmk : mk m.loc <;> simp [Val.truthy]
        · have h1 : (m.loc == x) = false := by simpa using hx
          have h2 : (x == m.loc) = false := by simpa using fun h => hx h.symm
          rw [h1, h2]
          simp

/-- results that are `None` / `True` are the marks of the set of marked locations -/
theorem vals_of_marks (locs : List (Option LNode)) (vals : List Val) (h : okVals vals locs)
    (hnd : (locsOf locs).Nodup) : vals = markVals (selB vals locs) locs := by
  apply vals_eq_of_marks locs _ _ h (okVals_markVals _ locs) hnd
  intro x
  rw [selB_markVals]
  cases hs : selB vals locs x with
  | false => rfl
  | true =>
    have := selB_mem vals locs x hs
    simp [this]

theorem markVals_congr (mk mk' : List Nat → Bool) (h : ∀ x, mk x = mk' x) (locs : List (Option LNode)) :
    markVals mk locs = markVals mk' locs := by
  have : mk = mk' := funext h
  rw [this]

/-! ## `Path.select` on results that are never `True` -/

def emitFlat : List Event → List Val → List Item
  | e :: es, v :: vs => (if v.truthy then [itemOf v e] else []) ++ emitFlat es vs
  | _, _ => []

theorem emitV_flat : ∀ (es : List Event) (vals : List Val), (∀ v ∈ vals, (v == Val.bool true) = false) →
    emitV 0 es vals = emitFlat es vals
  | [], _, _ => by simp [emitV, emitFlat]
  | _ :: _, [], _ => by simp [emitV, emitFlat]
  | e :: es, v :: vs, h => by
      have hv := h v List.mem_cons_self
      have ih := emitV_flat es vs (fun w hw => h w (List.mem_cons_of_mem _ hw))
      simp only [emitV, emitFlat, Nat.lt_irrefl, if_false, hv, Bool.false_eq_true]
      split <;> simp [ih]

theorem emitFlat_append : ∀ (a b : List Event) (va vb : List Val), va.length = a.length →
    emitFlat (a ++ b) (va ++ vb) = emitFlat a va ++ emitFlat b vb
  | [], b, [], vb, _ => by simp [emitFlat]
  | e :: a, b, v :: va, vb, h => by
      simp only [List.cons_append, emitFlat, List.append_assoc]
      rw [emitFlat_append a b va vb (by simpa using h)]
  | [], _, _ :: _, _, h => by simp at h
  | _ :: _, _, [], _, h => by simp at h

/-! ## Emission of attribute selections -/

def attrsOf : Val → AttrList
  | .attrs a => a
  | _ => []

/-- the result of an attribute test is an attribute list or `None` -/
def AttrShaped (t : NodeTest) (ns : NsMap) : Prop :=
  (∀ e, t.apply e ns = Val.none ∨ ∃ a, t.apply e ns = Val.attrs a) ∧
  (∀ e, e.isStart = false → (t.apply e ns).truthy = false)

section
variable (t : NodeTest) (ns : NsMap) (mk : List Nat → Bool)

/-- the attribute selection the matcher reports at a marked node -/
def aselM (m : LNode) : AttrList :=
  if mk m.loc && (t.apply (nodeEvent m.node) ns).truthy then attrsOf (t.apply (nodeEvent m.node) ns) else []

theorem gate_ne_true (hs : AttrShaped t ns) (e : Event) (v : Val) : (gate (t.apply e ns) v == Val.bool true) = false := by
  rcases hs.1 e with h | ⟨a, h⟩ <;> rw [h] <;> unfold gate <;> (repeat' split) <;> simp

theorem zipWith_gate_ne_true (hs : AttrShaped t ns) : ∀ (es : List Event) (vals : List Val),
    ∀ v ∈ List.zipWith (fun e v => gate (t.apply e ns) v) es vals, (v == Val.bool true) = false
  | [], _, v, hv => by simp at hv
  | _ :: _, [], v, hv => by simp at hv
  | e :: es, w :: ws, v, hv => by
      simp only [List.zipWith_cons_cons, List.mem_cons] at hv
      rcases hv with h | h
      · rw [h]; exact gate_ne_true t ns hs e w
      · exact zipWith_gate_ne_true hs es ws v h

/-- the gated value at the event of node `c` -/
theorem emit_here (hs : AttrShaped t ns) (c : LNode) :
    (if (gate (t.apply (nodeEvent c.node) ns) (if mk c.loc then Val.bool true else Val.none)).truthy
      then [itemOf (gate (t.apply (nodeEvent c.node) ns) (if mk c.loc then Val.bool true else Val.none))
              (nodeEvent c.node)] else [])
      = (if (aselM t ns mk c).isEmpty then [] else [Item.attrs (aselM t ns mk c)]) := by
  unfold aselM
  rcases hs.1 (nodeEvent c.node) with h | ⟨a, h⟩ <;> rw [h] <;> cases mk c.loc <;>
    simp [gate, Val.truthy, attrsOf, itemOf]
  cases a <;> simp [Val.truthy, itemOf]

mutual
  theorem emitAttr (hs : AttrShaped t ns) : ∀ (n : Node), n.ok = true → ∀ (loc : List Nat),
      emitFlat n.flatten (List.zipWith (fun e v => gate (t.apply e ns) v) n.flatten (markVals mk (eventLocs n loc)))
        = pick (fun _ => false) (aselM t ns mk) n loc
    | .elem tg ats ks, hok, loc => by
        have hk := emitAttrList hs ks (by simpa [Node.ok] using hok) loc 0
        have hlen : (flattenList ks).length = (markVals mk (eventLocsList ks loc 0)).length := by
          simp [markVals, eventLocsList_length]
        have hmv : markVals mk (some ⟨loc, .elem tg ats ks⟩ :: (eventLocsList ks loc 0 ++ [none]))
            = (if mk loc then Val.bool true else Val.none) :: (markVals mk (eventLocsList ks loc 0) ++ [Val.none]) := by
          simp [markVals]
        simp only [Node.flatten, eventLocs, hmv, List.zipWith_cons_cons]
        rw [List.zipWith_append hlen]
        simp only [emitFlat]
        rw [emitFlat_append _ _ _ _ (by rw [List.length_zipWith, ← hlen]; simp)]
        have hhere := emit_here t ns mk hs ⟨loc, .elem tg ats ks⟩
        simp only [nodeEvent] at hhere
        simp only [pick, Bool.false_eq_true, if_false]
        rw [hk]
        have hend : emitFlat [Event.end_ tg]
            (List.zipWith (fun e v => gate (t.apply e ns) v) [Event.end_ tg] [Val.none]) = [] := by
          simp [emitFlat, gate, Val.truthy]
        rw [hend, List.append_nil]
        exact congrArg (· ++ pickList (fun _ => false) (aselM t ns mk) ks loc 0) hhere
    | .leaf e, hok, loc => by
        have hns : e.isStart = false := by
          simp only [Node.ok, Bool.not_eq_true'] at hok
          cases e <;> simp_all [Event.isStartEnd, Event.isStart]
        have hf := hs.2 e hns
        simp only [Node.flatten, eventLocs, markVals, List.map_cons, List.map_nil, List.zipWith_cons_cons,
          List.zipWith_nil_right, emitFlat, pick, Bool.false_eq_true, if_false, List.append_nil]
        cases mk loc
        · simp [gate, Val.truthy]
        · simp only [gate, hf, if_true]
          simp [Val.truthy]
  theorem emitAttrList (hs : AttrShaped t ns) : ∀ (ks : List Node), okList ks = true → ∀ (loc : List Nat) (i : Nat),
      emitFlat (flattenList ks)
          (List.zipWith (fun e v => gate (t.apply e ns) v) (flattenList ks) (markVals mk (eventLocsList ks loc i)))
        = pickList (fun _ => false) (aselM t ns mk) ks loc i
    | [], _, _, _ => by simp [Genshi.flattenList, eventLocsList, markVals, emitFlat, pickList]
    | k :: ks, hok, loc, i => by
        simp only [okList, Bool.and_eq_true] at hok
        have h1 := emitAttr hs k hok.1 (loc ++ [i])
        have h2 := emitAttrList hs ks hok.2 loc (i + 1)
        have hlen : k.flatten.length = (markVals mk (eventLocs k (loc ++ [i]))).length := by
          simp [markVals, eventLocs_length]
        simp only [Genshi.flattenList, eventLocsList, pickList]
        have hm : markVals mk (eventLocs k (loc ++ [i]) ++ eventLocsList ks loc (i + 1))
            = markVals mk (eventLocs k (loc ++ [i])) ++ markVals mk (eventLocsList ks loc (i + 1)) := by
          simp [markVals]
        rw [hm, List.zipWith_append hlen, emitFlat_append _ _ _ _ (by rw [List.length_zipWith, ← hlen]; simp),
          h1, h2]
end

end

/-! ## The run of GenericStrategy on `S' ++ [@t]` -/

theorem attrShaped_of_isAttrName (t : NodeTest) (ns : NsMap) (h : t.isAttrName = true) : AttrShaped t ns := by
  constructor
  · intro e
    cases t with
    | principal b =>
      cases b <;> simp [NodeTest.isAttrName] at h
      cases e <;> simp only [NodeTest.apply, if_true] <;>
        first | exact Or.inl rfl | exact Or.inl trivial | (split <;> first | exact Or.inl rfl | exact Or.inl trivial | exact Or.inr ⟨_, rfl⟩)
    | qprincipal b pfx =>
      cases b <;> simp [NodeTest.isAttrName] at h
      cases e <;> simp only [NodeTest.apply, if_true] <;>
        first | exact Or.inl rfl | exact Or.inl trivial | (split <;> first | exact Or.inl rfl | exact Or.inl trivial | exact Or.inr ⟨_, rfl⟩)
    | localName b name =>
      cases b <;> simp [NodeTest.isAttrName] at h
      cases e <;> simp only [NodeTest.apply, if_true] <;>
        first | exact Or.inl rfl | exact Or.inl trivial | (split <;> first | exact Or.inl rfl | exact Or.inl trivial | exact Or.inr ⟨_, rfl⟩)
    | qname b pfx name =>
      cases b <;> simp [NodeTest.isAttrName] at h
      cases e <;> simp only [NodeTest.apply, if_true] <;>
        first | exact Or.inl rfl | exact Or.inl trivial | (split <;> first | exact Or.inl rfl | exact Or.inl trivial | exact Or.inr ⟨_, rfl⟩)
    | _ => simp [NodeTest.isAttrName] at h
  · intro e he
    cases t with
    | principal b =>
      cases b <;> simp [NodeTest.isAttrName] at h
      cases e <;> simp_all [NodeTest.apply, Val.truthy, Event.isStart]
    | qprincipal b pfx =>
      cases b <;> simp [NodeTest.isAttrName] at h
      cases e <;> simp_all [NodeTest.apply, Val.truthy, Event.isStart]
    | localName b name =>
      cases b <;> simp [NodeTest.isAttrName] at h
      cases e <;> simp_all [NodeTest.apply, Val.truthy, Event.isStart]
    | qname b pfx name =>
      cases b <;> simp [NodeTest.isAttrName] at h
      cases e <;> simp_all [NodeTest.apply, Val.truthy, Event.isStart]
    | _ => simp [NodeTest.isAttrName] at h

theorem aStep_out2 (ns : NsMap) (vs : Vars) (S : List Step) (F : Nat) (st : AState) (e : Event) :
    (aStep ns vs S F st e).2 = .none ∨ ((aStep ns vs S F st e).2 = .bool true ∧ e.isEnd = false) := by
  unfold aStep
  by_cases he : e.isEnd = true
  · simp [he]
  · have he' : e.isEnd = false := by simpa using he
    simp only [he', Bool.false_eq_true, if_false]
    split
    · exact Or.inl rfl
    · simp only
      split
      · exact Or.inr ⟨rfl, trivial⟩
      · exact Or.inl rfl

section
variable (ns : NsMap) (vs : Vars)

theorem realLen_snoc_attr (S' : List Step) (a : Step) (ha : a.axis = .attribute) :
    realLen (S' ++ [a]) = S'.length := by
  simp [realLen, ha]

theorem lastResult_snoc_attr (S' : List Step) (a : Step) (ha : a.axis = .attribute) (e : Event) :
    lastResult (S' ++ [a]) e ns = a.test.apply e ns := by
  simp [lastResult, ha]

/-- GenericStrategy on steps `S'` followed by an attribute step: at every event the result
    is the attribute selection, where the node is reached through `S'` -/
theorem attr_run (S' : List Step) (a : Step) (hS' : StepsOk ns vs S') (ha : a.axis = .attribute)
    (root : Node) (hcl : root.clean = true) (hnodes : AllNodes (NodeFor S' ns vs) root) :
    (runOne (gStep (S' ++ [a]) ns vs) gInit root.flatten).1
      = List.zipWith (fun e v => gate (a.test.apply e ns) v) root.flatten
          (markVals (fun x => RR ns (toXVars vs) S' 0 ⟨[], root⟩ ⟨x, root⟩) (eventLocs root [])) := by
  have hr := realLen_snoc_attr S' a ha
  have htake : (S' ++ [a]).take (realLen (S' ++ [a])) = S' := by rw [hr]; simp
  have hrl' := hS'.realLen ns vs
  have hnpm : NoPositional ns vs ((S' ++ [a]).take (realLen (S' ++ [a]))) := by
    rw [htake]
    intro s hs q hq e
    rw [isNum_eval, hS'.nonpos s hs q hq]
  rw [generic_eq_abstract ns vs (S' ++ [a]) (by rw [htake, hrl', hr]) hnpm (by rw [hr]; exact hS'.ne)]
  have hlast : (fun e v => gate (lastResult (S' ++ [a]) e ns) v) = fun e v => gate (a.test.apply e ns) v := by
    funext e v; rw [lastResult_snoc_attr ns S' a ha e]
  rw [hlast, htake]
  congr 1
  have hokv : okVals (runOne (aStep ns vs S' (S' ++ [a]).length) [[0]] root.flatten).1 (eventLocs root []) :=
    okVals_run _ (aStep_out2 ns vs S' _) root [] _
  rw [vals_of_marks _ _ hokv (eventLocs_nodup root [])]
  apply markVals_congr
  intro x
  have hnpr : ∀ s ∈ S', NonPositional ns (toXVars vs) s :=
    fun s hs => nonpositional_of_numTyped ns vs s (hS'.typed s hs) (hS'.nonpos s hs)
  have htree := aTree ns vs S' (S' ++ [a]).length (by simp) hrl' hS'.na hnpr root hcl
    (AllNodes.imp (fun n hn => hS'.hitOk ns vs n hn) root hnodes) [] [0] []
    ⟨by simp, by intro y hy; simp at hy; subst hy; exact hS'.ne⟩
  have := htree.2 ⟨x, root⟩
  simp only at this
  rw [this]
  simp

end

/-! ## `Path.select` for a path that ends in an attribute step -/

mutual
  theorem pick_congr_asel (P : Node → Prop) (sel : LNode → Bool) (asel asel' : LNode → AttrList)
      (h : ∀ m : LNode, P m.node → asel m = asel' m) :
      ∀ (n : Node) (loc : List Nat), AllNodes P n → pick sel asel n loc = pick sel asel' n loc
    | .elem t a ks, loc, hn => by
        simp only [pick, h ⟨loc, .elem t a ks⟩ hn.1]
        rw [pickList_congr_asel P sel asel asel' h ks loc 0 hn.2]
    | .leaf e, loc, _ => by simp only [pick]
  theorem pickList_congr_asel (P : Node → Prop) (sel : LNode → Bool) (asel asel' : LNode → AttrList)
      (h : ∀ m : LNode, P m.node → asel m = asel' m) :
      ∀ (ks : List Node) (loc : List Nat) (i : Nat), AllList P ks →
        pickList sel asel ks loc i = pickList sel asel' ks loc i
    | [], _, _, _ => by simp [pickList]
    | k :: ks, loc, i, hk => by
        simp only [pickList]
        rw [pick_congr_asel P sel asel asel' h k (loc ++ [i]) hk.1,
            pickList_congr_asel P sel asel asel' h ks loc (i + 1) hk.2]
end

/-- `reach` looks at the location of the target only -/
theorem reach_loc (ns : NsMap) (xvs : XVars) : ∀ (p : LocPath) (c t t' : LNode), t.loc = t'.loc →
    reach ns xvs p c t = reach ns xvs p c t'
  | [], c, t, t', h => by simp [reach, h]
  | s :: rest, c, t, t', h => by
      simp only [reach]
      apply List.any_congr rfl
      intro m
      exact reach_loc ns xvs rest m t t' h

theorem filter_contains_filter {α : Type} [BEq α] [LawfulBEq α] (l : List α) (f : α → Bool) :
    l.filter (fun a => (l.filter f).contains a) = l.filter f := by
  apply List.filter_congr
  intro a ha
  cases hf : f a with
  | true =>
    have : a ∈ l.filter f := List.mem_filter.mpr ⟨ha, hf⟩
    simpa using this
  | false =>
    have : a ∉ l.filter f := fun h => by simp [List.mem_filter, hf] at h
    simpa using this

theorem filter_contains_self {α : Type} [BEq α] [LawfulBEq α] (l : List α) :
    l.filter (fun a => l.contains a) = l := by
  apply List.filter_eq_self.mpr
  intro a ha
  simpa using ha

/-- among the attributes of an element, those in the node set of the attribute test are that
    node set -/
theorem filter_attrNodes (t : NodeTest) (ns : NsMap) (tg : QName) (ats : AttrList) (ks : List Node) :
    ats.filter (fun a => (attrNodes t (.elem tg ats ks) ns).contains a) = attrNodes t (.elem tg ats ks) ns := by
  cases t <;> simp only [attrNodes] <;>
    first | exact filter_contains_self ats | exact filter_contains_filter ats _ | simp

section
variable (ns : NsMap) (vs : Vars)

/-- the steps GenericStrategy works with, for `q/@t` -/
def attrBase (q : LocPath) : List Step := if q = [] then [dotSlash] else gSteps q false

theorem gSteps_snoc_attr (q : LocPath) (a : Step) (ha : a.axis = .attribute) :
    gSteps (q ++ [a]) false = attrBase q ++ [a] := by
  cases q with
  | nil => simp [gSteps, attrBase, ha]
  | cons s0 rest =>
    simp only [attrBase, List.cons_ne_nil, if_false, gSteps, List.cons_append, Bool.false_eq_true]
    split <;> simp

theorem stepsOk_attrBase (q : LocPath) (hq : q = [] ∨ StepsOk ns vs q) : StepsOk ns vs (attrBase q) := by
  rcases hq with h | h
  · subst h
    simp only [attrBase, if_true]
    exact ⟨by simp, by simp [dotSlash], by simp [dotSlash, NodeTest.elemWf], by simp [dotSlash], by simp [dotSlash]⟩
  · have hne : q ≠ [] := by
      intro h0; have := h.ne; simp [h0] at this
    simp only [attrBase, hne, if_false]
    exact stepsOk_gSteps ns vs q h

theorem nodeFor_attrBase (q : LocPath) (n : Node) (h : NodeFor q ns vs n) : NodeFor (attrBase q) ns vs n := by
  by_cases hq : q = []
  · subst hq
    obtain ⟨h1, h2, h3, _⟩ := h
    exact ⟨h1, h2, h3, by simp [attrBase, dotSlash]⟩
  · simp only [attrBase, hq, if_false]
    exact nodeFor_gSteps ns vs q n h

theorem RR_attrBase (q : LocPath) (hq : q = [] ∨ StepsOk ns vs q)
    (tag : QName) (attrs : AttrList) (kids : List Node) (t : LNode) :
    RR ns (toXVars vs) (attrBase q) 0 ⟨[], .elem tag attrs kids⟩ t
      = reach ns (toXVars vs) q ⟨[], .elem tag attrs kids⟩ t := by
  rcases hq with h | h
  · subst h
    simp only [attrBase, if_true, RR, pathAt, List.drop_zero, convAxis, dotSlash, withAxis]
    rw [reach_self ns (toXVars vs) _ _ (by intro q hq; simp at hq) rfl]
    simp [hitR, testNode]
  · have hne : q ≠ [] := by
      intro h0; have := h.ne; simp [h0] at this
    simp only [attrBase, hne, if_false]
    exact RR_gSteps ns vs q h tag attrs kids t

end

/-- the attribute selection reported at a marked node is XPath's node set of the test -/
theorem aselM_eq (t : NodeTest) (ns : NsMap) (mk : List Nat → Bool) (m : LNode) (hok : nodeOk m.node)
    (hat : t.isAttrName = true) (hawf : t.wf ns = true) :
    aselM t ns mk m = if mk m.loc then attrNodes t m.node ns else [] := by
  have hv := attrTest_toX t ns m.node hok hat hawf
  unfold aselM
  generalize t.apply (nodeEvent m.node) ns = v at hv
  cases v <;> simp [Val.toX] at hv
  · rw [← hv]; simp [Val.truthy]
  · rw [← hv]
    rename_i a
    cases mk m.loc <;> cases a <;> simp [Val.truthy, attrsOf]

/-- what XPath selects of the attributes of node `m` with the single path `q/@t` -/
theorem attrsSelected_single (ns : NsMap) (xvs : XVars) (q : LocPath) (a : Step) (ha : a.axis = .attribute)
    (root m : LNode) :
    attrsSelected [q ++ [a]] ns xvs root m
      = if reach ns xvs q root m then attrNodes a.test m.node ns else [] := by
  unfold attrsSelected
  obtain ⟨loc, node⟩ := m
  cases node with
  | leaf e => simp [attrNodes]
  | elem tg ats ks =>
    simp only [List.any_cons, List.any_nil, Bool.or_false, List.getLast?_append, List.getLast?_singleton,
      Option.some_or, ha, beq_self_eq_true, Bool.true_and, List.dropLast_concat]
    cases hr : reach ns xvs q root ⟨loc, .elem tg ats ks⟩ with
    | false => simp
    | true => simpa using filter_attrNodes a.test ns tg ats ks

/-- from "the matcher marks the nodes reached through `q` and reports the value of the
    attribute test there" to `Path.select` = `Ref.xpSelect` for `q/@t` -/
theorem xpSelect_attr_of_marks (ns : NsMap) (xvs : XVars) (q : LocPath) (a : Step)
    (ha : a.axis = .attribute) (hat : a.test.isAttrName = true) (hawf : a.test.wf ns = true)
    (tag : QName) (attrs : AttrList) (kids : List Node)
    (hrok : (Node.elem tag attrs kids).ok = true) (hnok : AllNodes (fun n => nodeOk n) (.elem tag attrs kids))
    (mk : List Nat → Bool)
    (hmk : ∀ x, mk x = reach ns xvs q ⟨[], .elem tag attrs kids⟩ ⟨x, .elem tag attrs kids⟩) :
    emitV 0 (Node.elem tag attrs kids).flatten
        (List.zipWith (fun e v => gate (a.test.apply e ns) v) (Node.elem tag attrs kids).flatten
          (markVals mk (eventLocs (.elem tag attrs kids) [])))
      = xpSelect [q ++ [a]] ns xvs (.elem tag attrs kids) := by
  have hshape := attrShaped_of_isAttrName a.test ns hat
  rw [emitV_flat _ _ (zipWith_gate_ne_true a.test ns hshape _ _), emitAttr a.test ns _ hshape _ hrok []]
  unfold xpSelect
  have hsel : nodeSelected [q ++ [a]] ns xvs ⟨[], .elem tag attrs kids⟩ = fun _ => false := by
    funext n
    simp [nodeSelected, ha]
  rw [hsel]
  apply pick_congr_asel (fun n => nodeOk n) _ _ _ _ _ _ hnok
  intro m hm
  rw [aselM_eq a.test ns _ m hm hat hawf, attrsSelected_single ns xvs q a ha, hmk,
    reach_loc ns xvs q _ ⟨m.loc, .elem tag attrs kids⟩ m rfl]

end Genshi.Path

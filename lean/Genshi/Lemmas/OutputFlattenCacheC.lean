/-
  C09 — helper lemmas, part C: every event, whole streams, and the typed cache
  layer as a conservative extension of C02's flattener model (`Xml.flatStep`).
-/
import Genshi.Lemmas.OutputFlattenCacheB
namespace Genshi.Xml
open Genshi

/-- the END branch -/
theorem cstep_end_cache (pref : List (Str × Str)) (st : FSt) (cache cache2 : Cache) (tag : QName)
    (h : CacheOk pref st.bindings cache) :
    (cstep pref true ⟨st, cache⟩ (.ev (.end_ tag))).2 = (cstep pref false ⟨st, cache2⟩ (.ev (.end_ tag))).2 ∧
    (cstep pref true ⟨st, cache⟩ (.ev (.end_ tag))).1.st = (cstep pref false ⟨st, cache2⟩ (.ev (.end_ tag))).1.st ∧
    CacheOk pref (cstep pref true ⟨st, cache⟩ (.ev (.end_ tag))).1.st.bindings
      (cstep pref true ⟨st, cache⟩ (.ev (.end_ tag))).1.cache := by
  refine ⟨rfl, rfl, ?_⟩
  cases he : st.elems with
  | nil => simp only [cstep, flatStep, he, Bool.false_eq_true, ↓reduceIte]; exact h
  | cons x rest =>
    obtain ⟨name, n⟩ := x
    cases n with
    | zero =>
      simp only [cstep, flatStep, he, List.drop_zero, bne_self_eq_false, Bool.false_eq_true, ↓reduceIte]
      exact h
    | succ k =>
      have : (k + 1 != 0) = true := by simp
      simp only [cstep, flatStep, he, this, ↓reduceIte]
      exact cacheOk_nil _ _

/-- every event: same output, same flattener state, invariant preserved -/
theorem cstep_cache (pref : List (Str × Str)) (st : FSt) (cache cache2 : Cache) (e : TXEv)
    (h : CacheOk pref st.bindings cache) :
    (cstep pref true ⟨st, cache⟩ e).2 = (cstep pref false ⟨st, cache2⟩ e).2 ∧
    (cstep pref true ⟨st, cache⟩ e).1.st = (cstep pref false ⟨st, cache2⟩ e).1.st ∧
    CacheOk pref (cstep pref true ⟨st, cache⟩ e).1.st.bindings (cstep pref true ⟨st, cache⟩ e).1.cache := by
  cases e with
  | tag ie tag a => exact cstepTag_cache pref st cache cache2 ie tag a h
  | ev ev =>
    cases ev with
    | start tag a => exact cstepTag_cache pref st cache cache2 false tag (typedOf a) h
    | end_ tag => exact cstep_end_cache pref st cache cache2 tag h
    | startNs p u => exact ⟨rfl, rfl, h⟩
    | endNs p => exact ⟨rfl, rfl, h⟩
    | text s f => exact ⟨rfl, rfl, h⟩
    | comment s => exact ⟨rfl, rfl, h⟩
    | pi t d => exact ⟨rfl, rfl, h⟩
    | doctype n p s => exact ⟨rfl, rfl, h⟩
    | xmlDecl v e s => exact ⟨rfl, rfl, h⟩
    | startCdata => exact ⟨rfl, rfl, h⟩
    | endCdata => exact ⟨rfl, rfl, h⟩

/-- whole streams, from any state whose cache satisfies the invariant -/
theorem crun_cache (pref : List (Str × Str)) (evs : List TXEv) :
    ∀ (st : FSt) (cache cache2 : Cache), CacheOk pref st.bindings cache →
      crun pref true ⟨st, cache⟩ evs = crun pref false ⟨st, cache2⟩ evs := by
  induction evs with
  | nil => intro _ _ _ _; rfl
  | cons e rest ih =>
    intro st cache cache2 h
    obtain ⟨h1, h2, h3⟩ := cstep_cache pref st cache cache2 e h
    simp only [crun]
    rw [h1]
    congr 1
    have := ih (cstep pref true ⟨st, cache⟩ e).1.st (cstep pref true ⟨st, cache⟩ e).1.cache
      (cstep pref false ⟨st, cache2⟩ e).1.cache h3
    have eR : (cstep pref false ⟨st, cache2⟩ e).1 =
        ⟨(cstep pref true ⟨st, cache⟩ e).1.st, (cstep pref false ⟨st, cache2⟩ e).1.cache⟩ := by rw [h2]
    rw [eR]; exact this

/-- the invariant at every point of every stream -/
theorem crun_inv (pref : List (Str × Str)) (evs : List TXEv) :
    ∀ (st : FSt) (cache : Cache), CacheOk pref st.bindings cache →
      CacheOk pref (evs.foldl (fun c e => (cstep pref true c e).1) ⟨st, cache⟩).st.bindings
        (evs.foldl (fun c e => (cstep pref true c e).1) ⟨st, cache⟩).cache := by
  induction evs with
  | nil => intro _ _ h; exact h
  | cons e rest ih =>
    intro st cache h
    simp only [List.foldl_cons]
    exact ih _ _ (cstep_cache pref st cache [] e h).2.2

/-! ### conservative over C02's model -/

theorem flatAttrsT_typed (pref : List (Str × Str)) (a : AttrList) :
    ∀ t : TagSt, flatAttrsT pref t (typedOf a) = (typedOfF (flatAttrs pref t a).1, (flatAttrs pref t a).2) := by
  induction a with
  | nil => intro t; rfl
  | cons x rest ih =>
    intro t
    obtain ⟨n, v⟩ := x
    simp only [typedOf, List.map_cons] at ih ⊢
    simp only [flatAttrsT, flatAttrs]
    by_cases hn : n.ns.isEmpty = true
    · simp only [hn, ↓reduceIte, ih t]; rfl
    · simp only [hn, Bool.false_eq_true, ↓reduceIte]
      cases hp : findPrefix t.bindings n.ns true with
      | some p => simp only [ih t]; rfl
      | none => simp only [ih]; rfl

theorem flatStartT_typed (pref : List (Str × Str)) (st : FSt) (tag : QName) (a : AttrList) :
    flatStartT pref st tag (typedOf a) =
      ((flatStart pref st tag a).1, typedOfF (flatStart pref st tag a).2.1, (flatStart pref st tag a).2.2) := by
  simp only [flatStartT, flatStart, flatAttrsT_typed, typedOfF, List.map_append, List.map_map]
  rfl

theorem cmiss_typed (pref : List (Str × Str)) (st : FSt) (cache : Cache) (ie : Bool) (tag : QName)
    (a : AttrList) :
    (cstepTag pref false ⟨st, cache⟩ ie tag (typedOf a)).1.st =
      (if ie then (flatStep pref st (.empty tag a)).1 else (flatStep pref st (.ev (.start tag a))).1) ∧
    (cstepTag pref false ⟨st, cache⟩ ie tag (typedOf a)).2 =
      (if ie then (flatStep pref st (.empty tag a)).2 else (flatStep pref st (.ev (.start tag a))).2).map TFEv.ofF := by
  simp only [cstepTag, chit_false, cmiss, flatStartT_typed]
  cases ie
  · simp only [Bool.false_eq_true, ↓reduceIte, flatStep, List.map_cons, List.map_nil, TFEv.ofF]
    refine ⟨?_, ?_⟩ <;> first | trivial | rfl
  · simp only [↓reduceIte, flatStep, List.map_cons, List.map_nil, TFEv.ofF]
    refine ⟨?_, ?_⟩ <;> first | trivial | rfl

/-- without the cache, on events with plain values, a step is C02's `flatStep` -/
theorem cstep_false_ofX (pref : List (Str × Str)) (st : FSt) (cache : Cache) (e : XEv) :
    (cstep pref false ⟨st, cache⟩ (.ofX e)).1.st = (flatStep pref st e).1 ∧
    (cstep pref false ⟨st, cache⟩ (.ofX e)).2 = (flatStep pref st e).2.map TFEv.ofF := by
  cases e with
  | empty t a => exact cmiss_typed pref st cache true t a
  | ev ev =>
    cases ev with
    | start t a => exact cmiss_typed pref st cache false t a
    | end_ t => exact ⟨rfl, rfl⟩
    | startNs p u => exact ⟨rfl, rfl⟩
    | endNs p => exact ⟨rfl, rfl⟩
    | text s f => exact ⟨rfl, rfl⟩
    | comment s => exact ⟨rfl, rfl⟩
    | pi t d => exact ⟨rfl, rfl⟩
    | doctype n p s => exact ⟨rfl, rfl⟩
    | xmlDecl v e s => exact ⟨rfl, rfl⟩
    | startCdata => exact ⟨rfl, rfl⟩
    | endCdata => exact ⟨rfl, rfl⟩

theorem crun_false_ofX (pref : List (Str × Str)) (evs : List XEv) :
    ∀ (st : FSt) (cache : Cache),
      crun pref false ⟨st, cache⟩ (evs.map TXEv.ofX) = (flatRun pref st evs).map TFEv.ofF := by
  induction evs with
  | nil => intro _ _; rfl
  | cons e rest ih =>
    intro st cache
    obtain ⟨h1, h2⟩ := cstep_false_ofX pref st cache e
    simp only [List.map_cons, crun, flatRun, List.map_append]
    rw [h2]
    congr 1
    have := ih (cstep pref false ⟨st, cache⟩ (.ofX e)).1.st (cstep pref false ⟨st, cache⟩ (.ofX e)).1.cache
    have eR : (cstep pref false ⟨st, cache⟩ (.ofX e)).1 =
        ⟨(cstep pref false ⟨st, cache⟩ (.ofX e)).1.st, (cstep pref false ⟨st, cache⟩ (.ofX e)).1.cache⟩ := rfl
    rw [eR, this, h1]

end Genshi.Xml

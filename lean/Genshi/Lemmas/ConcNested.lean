/-
  C16 — the atomic load of the interleaving model, nested loads included, is the sequential
  `loadN` (`Genshi/Model/ConcNested.lean`); for a request without children `loadN` is C15's
  `load`.
-/
import Genshi.Lemmas.ConcLoad
import Genshi.Lemmas.ConcSerial
import Genshi.Model.ConcNested
namespace Genshi.Conc
open Genshi.Lru Genshi.Loader

theorem decide_shape (c : CCfg) (ls : LState) (q : CReq) (hit : Option Tmpl) :
    (∃ res, decide c ls q hit = .done res) ∨ (∃ loc f u isabs, decide c ls q hit = .found loc f u isabs) := by
  unfold decide
  simp only
  split
  · exact Or.inl ⟨_, rfl⟩
  · split
    · exact Or.inl ⟨_, rfl⟩
    · split
      · exact Or.inl ⟨_, rfl⟩
      · exact Or.inl ⟨_, rfl⟩
      · exact Or.inl ⟨_, rfl⟩
      · exact Or.inr ⟨_, _, _, _, rfl⟩

/-- the log after a frame released the lock: only a top-level load is logged -/
def logged (tid : Tid) (rest : List Frame) (comp : List (Tid × Req × Res)) (q : CReq) (res : Res) :
    List (Tid × Req × Res) :=
  if rest.isEmpty then comp ++ [(tid, q.r, res)] else comp

/-- statement for one request: from `start` to `released`, whatever is below on the stack -/
def StepsTo (c : CCfg) (tid : Tid) (q : CReq) : Prop :=
  ∀ (ls : LState) (rest : List Frame) (comp : List (Tid × Req × Res)),
    finish c tid ⟨ls, ⟨q, .start⟩ :: rest, comp⟩ =
      finish c tid ⟨(loadN c ls q).1, ⟨q, .released (loadN c ls q).2⟩ :: rest,
        logged tid rest comp q (loadN c ls q).2⟩

/-- the nested loads of a callback, given the statement for each of them -/
theorem callback_steps (c : CCfg) (tid : Tid) (p : CReq) (t : Tmpl) (u : Utd) (rest : List Frame) :
    ∀ (cs : List CReq), (∀ ch ∈ cs, StepsTo c tid ch) → ∀ (ls : LState) (comp : List (Tid × Req × Res)),
    finish c tid ⟨ls, ⟨p, .calling t u cs⟩ :: rest, comp⟩ =
      if (callbackN c ls cs).2 then finish c tid ⟨(callbackN c ls cs).1, ⟨p, .calling t u []⟩ :: rest, comp⟩
      else finish c tid ⟨(callbackN c ls cs).1, ⟨p, .done (.err .callback)⟩ :: rest, comp⟩ := by
  intro cs
  induction cs with
  | nil => intro _ ls comp; simp [callbackN]
  | cons ch todo ih =>
    intro hall ls comp
    have hch := hall ch (by simp)
    have htodo : ∀ x ∈ todo, StepsTo c tid x := fun x hx => hall x (List.mem_cons_of_mem _ hx)
    rw [finish_step c tid _ _ rfl]
    simp only [csStep]
    rw [hch ls (⟨p, .calling t u todo⟩ :: rest) comp]
    simp only [logged, List.isEmpty_cons, Bool.false_eq_true, if_false]
    rw [finish_step c tid _ _ rfl]
    simp only [csStep]
    rw [callbackN]
    cases hres : (loadN c ls ch).2 with
    | ok t' =>
      have : loadN c ls ch = ((loadN c ls ch).1, .ok t') := by rw [← hres]
      rw [this]
      simp only
      exact ih htodo _ comp
    | err e =>
      have : loadN c ls ch = ((loadN c ls ch).1, .err e) := by rw [← hres]
      rw [this]
      simp

theorem size_le_sizeList {ch : CReq} {cs : List CReq} (h : ch ∈ cs) : ch.size ≤ sizeList cs := by
  induction cs with
  | nil => cases h
  | cons x xs ih =>
    simp only [sizeList]
    rcases List.mem_cons.mp h with rfl | h
    · omega
    · have := ih h; omega

/-- acquire, lookup, decision -/
theorem finish_to_decision (c : CCfg) (tid : Tid) (ls : LState) (q : CReq) (rest : List Frame)
    (comp : List (Tid × Req × Res)) :
    finish c tid ⟨ls, ⟨q, .start⟩ :: rest, comp⟩ =
      finish c tid ⟨lookedUp ls q.key,
        ⟨q, decide c (lookedUp ls q.key) q (alookup q.key ls.cache.items)⟩ :: rest, comp⟩ := by
  rw [finish_step c tid _ _ rfl]
  simp only [csStep]
  rw [finish_step c tid _ _ rfl]
  simp only [csStep]
  rw [finish_step c tid _ _ rfl]
  simp only [csStep]
  rfl

/-- from the decision to the release, given the statement for the children -/
theorem finish_from_decision (c : CCfg) (tid : Tid) (r : Req) (key : Key) (children : List CReq)
    (hkids : ∀ ch ∈ children, StepsTo c tid ch) (s1 : LState) (pc : PC)
    (hpc : (∃ res, pc = .done res) ∨ (∃ loc f u isabs, pc = .found loc f u isabs))
    (rest : List Frame) (comp : List (Tid × Req × Res)) :
    finish c tid ⟨s1, ⟨.mk r key children, pc⟩ :: rest, comp⟩ =
      finish c tid ⟨(finishLoad c s1 r key pc (fun s => callbackN c s children)).1,
        ⟨.mk r key children, .released (finishLoad c s1 r key pc (fun s => callbackN c s children)).2⟩ :: rest,
        logged tid rest comp (.mk r key children) (finishLoad c s1 r key pc (fun s => callbackN c s children)).2⟩ := by
  rcases hpc with ⟨res, rfl⟩ | ⟨loc, f, u, isabs, rfl⟩
  · rw [finish_step c tid _ _ rfl]
    simp only [csStep, logged, finishLoad]
  · by_cases hb : f.bad = true
    · rw [finish_step c tid _ _ rfl]
      simp only [csStep, hb, if_true]
      rw [finish_step c tid _ _ rfl]
      simp only [csStep, logged, finishLoad, hb, if_true]
    · have hb' : f.bad = false := by simpa using hb
      rw [finish_step c tid _ _ rfl]
      simp only [csStep, hb', Bool.false_eq_true, if_false, CReq.children, CReq.r, finishLoad]
      cases hcb : c.cfg.hasCallback with
      | false =>
        simp only [Bool.false_eq_true, if_false, Bool.not_true, Bool.false_and]
        rw [finish_step c tid _ _ rfl]
        simp only [csStep, hcb, Bool.false_and, Bool.false_eq_true, if_false]
        rw [finish_step c tid _ _ rfl]
        simp only [csStep]
        rw [finish_step c tid _ _ rfl]
        simp only [csStep, logged, CReq.key, CReq.r]
      | true =>
        simp only [if_true, Bool.true_and]
        rw [callback_steps c tid _ _ _ rest children hkids]
        cases hok : (callbackN c _ children).2 with
        | false =>
          simp only [Bool.false_eq_true, if_false, Bool.not_false, if_true]
          rw [finish_step c tid _ _ rfl]
          simp only [csStep, logged, CReq.r]
        | true =>
          simp only [if_true, Bool.not_true, Bool.false_eq_true, if_false]
          rw [finish_step c tid _ _ rfl]
          simp only [csStep, hcb, Bool.true_and, CReq.r]
          cases hr : r.cbRaise with
          | true =>
            simp only [if_true]
            rw [finish_step c tid _ _ rfl]
            simp only [csStep, logged, CReq.r]
          | false =>
            simp only [Bool.false_eq_true, if_false]
            rw [finish_step c tid _ _ rfl]
            simp only [csStep]
            rw [finish_step c tid _ _ rfl]
            simp only [csStep, logged, CReq.key, CReq.r]

/-- **the atomic steps of one load, nested loads included, amount to `loadN`** -/
theorem stepsTo (c : CCfg) (tid : Tid) : ∀ (n : Nat) (q : CReq), q.size ≤ n → StepsTo c tid q := by
  intro n
  induction n with
  | zero =>
    intro q hq
    obtain ⟨r, key, cs⟩ := q
    have : 1 ≤ (CReq.mk r key cs).size := by simp [CReq.size]
    omega
  | succ n ih =>
    intro q hq
    obtain ⟨r, key, children⟩ := q
    have hkids : ∀ ch ∈ children, StepsTo c tid ch := by
      intro ch hch
      apply ih
      have := size_le_sizeList hch
      simp only [CReq.size] at hq
      omega
    intro ls rest comp
    rw [finish_to_decision, loadN]
    exact finish_from_decision c tid r key children hkids _ _ (decide_shape ..) rest comp

/-- one whole top-level load of the interleaving model — nested loads included — is `loadN` -/
theorem atomicLoad_eq_loadN (c : CCfg) (tid : Tid) (ls : LState) (comp : List (Tid × Req × Res)) (q : CReq) :
    atomicLoad c tid ls comp q = ((loadN c ls q).1, comp ++ [(tid, q.r, (loadN c ls q).2)]) := by
  unfold atomicLoad
  simp only
  rw [stepsTo c tid q.size q (Nat.le_refl _) ls [] comp, finish_released]
  simp [logged]

/-- the serial specification of the interleaving model is the sequence of `loadN`s -/
theorem serial_eq_seqLoadsN (c : CCfg) (ls : LState) (comp : List (Tid × Req × Res)) (l : List (Tid × CReq)) :
    serial c ls comp l = seqLoadsN c ls comp l := by
  induction l generalizing ls comp with
  | nil => rfl
  | cons p more ih =>
    obtain ⟨t, q⟩ := p
    simp only [serial, seqLoadsN, atomicLoad_eq_loadN]
    exact ih _ _

/-- without nested loads `loadN` is C15's `load` -/
theorem loadN_flat (c : CCfg) (ls ls' : LState) (r : Req) (key : Key) (res : Res)
    (hk : resolve c.cfg.path.isEmpty r = some key)
    (h : Loader.load c.cfg c.fs ls r = some (ls', res)) : loadN c ls (.mk r key []) = (ls', res) := by
  have h1 := atomicLoad_eq_load c 0 ls ls' [] r key res hk h
  have h2 := atomicLoad_eq_loadN c 0 ls [] (.mk r key [])
  rw [h1] at h2
  simp only [List.nil_append, Prod.mk.injEq, List.cons.injEq, and_true, CReq.r] at h2
  obtain ⟨ha, hb⟩ := h2
  have hb' : res = (loadN c ls (.mk r key [])).2 := by simpa using hb
  rw [Prod.ext_iff]
  exact ⟨ha.symm, hb'.symm⟩

/-- nested loads do not change the result of the enclosing load, unless one of them fails -/
theorem loadN_result (c : CCfg) (ls : LState) (r : Req) (key : Key) (children : List CReq) :
    (loadN c ls (.mk r key children)).2 = (loadN c ls (.mk r key [])).2 ∨
    (loadN c ls (.mk r key children)).2 = .err .callback := by
  rw [loadN, loadN]
  have hd : decide c (lookedUp ls key) (.mk r key children) (alookup key ls.cache.items) =
      decide c (lookedUp ls key) (.mk r key []) (alookup key ls.cache.items) := rfl
  rw [hd]
  generalize decide c (lookedUp ls key) (.mk r key []) (alookup key ls.cache.items) = pc
  generalize lookedUp ls key = s1
  cases pc with
  | found loc f u isabs =>
    simp only [finishLoad, callbackN]
    by_cases hb : f.bad = true
    · simp [hb]
    · have hb' : f.bad = false := by simpa using hb
      simp only [hb', Bool.false_eq_true, if_false]
      cases hcb : c.cfg.hasCallback with
      | false => simp
      | true =>
        simp only [if_true, Bool.true_and, Bool.not_true, Bool.false_eq_true, if_false]
        cases hok : (callbackN c _ children).2 with
        | false => right; simp
        | true =>
          left
          cases hr : r.cbRaise <;> simp
  | _ => left; rfl

end Genshi.Conc

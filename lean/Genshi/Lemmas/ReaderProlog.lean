/-
  Helper lemmas for C08: processing instructions, DOCTYPE and XML declaration in
  the round trips (tokenizer level: the literals are read back verbatim).
-/
import Genshi.Lemmas.ReaderHtml
import Genshi.Lemmas.ReaderXhtmlCdata
namespace Genshi.Reader
open Genshi Genshi.Escape Genshi.Output

/-! ### processing instructions -/

/-- the instruction is not ended early: no `>` (HTML) resp. no `?>` (XML) inside -/
def piSafe (xml : Bool) : Bool → Str → Bool
  | _, [] => true
  | q, c :: cs => !(c == '>' && (!xml || q)) && piSafe xml (c == '?') cs

def piQ : Bool → Str → Bool
  | q, [] => q
  | _, c :: cs => piQ (c == '?') cs

theorem feed_pi_body (xml : Bool) (s : Str) : ∀ (q : Bool) (st : RSt), st.mode = .pi q → piSafe xml q s = true →
    feed xml st s = { st with mode := .pi (piQ q s), buf := st.buf ++ s } := by
  induction s with
  | nil => intro q st hm _; simp [feed, piQ, ← hm]
  | cons c cs ih =>
    intro q st hm h
    simp only [piSafe, Bool.and_eq_true, Bool.not_eq_true'] at h
    have s1 : step xml st c = { st with mode := .pi (c == '?'), buf := st.buf ++ [c] } := by
      simp [step, hm, h.1]
    rw [feed_cons, s1, ih _ _ rfl h.2]
    simp [piQ]

/-- `<?body?>` read from character data -/
theorem feed_pi (xml : Bool) (buf : Str) (toks : List Tok) (body : Str) (h : piSafe xml false body = true) :
    feed xml (mk .data buf toks) (['<', '?'] ++ body ++ ['?', '>']) =
      mk .data [] (.pi (if xml then body else body ++ ['?']) :: flushToks buf toks) := by
  have s0 : feed xml (mk .data buf toks) ['<', '?'] = ⟨.pi false, [], [], [], [], [], [], flushToks buf toks⟩ := by
    simp [feed, step, mk, flush_eq]
  rw [show ['<', '?'] ++ body ++ ['?', '>'] = ['<', '?'] ++ (body ++ ['?', '>']) by simp, feed_append, s0,
    feed_append, feed_pi_body xml body false _ rfl h]
  cases xml <;> simp [feed, step, mk]

theorem piOut_eq (t d : Str) : piOut t d = ['<', '?'] ++ (t ++ ' ' :: d) ++ ['?', '>'] := by simp [piOut]

/-! ### DOCTYPE -/

/-- the literal is well quoted: no `>` outside quotes (for an HTML parser: none at all, it ends the
    declaration at the first `>`), every quote closed -/
def dtScan (xml : Bool) : Option Char → Str → Bool
  | none, [] => true
  | some _, [] => false
  | none, c :: cs =>
      if c == '>' then false
      else if c == '"' || c == '\'' then dtScan xml (some c) cs
      else dtScan xml none cs
  | some q, c :: cs =>
      if c == q then dtScan xml none cs
      else if !xml && c == '>' then false
      else dtScan xml (some q) cs

def dtMode : Option Char → Mode
  | none => .doctype
  | some q => .doctypeQ q

theorem feed_doctype_body (xml : Bool) (s : Str) : ∀ (qs : Option Char) (st : RSt), st.mode = dtMode qs →
    dtScan xml qs s = true → feed xml st s = { st with mode := .doctype, buf := st.buf ++ s } := by
  induction s with
  | nil =>
    intro qs st hm h
    cases qs with
    | none =>
      have hm' : st.mode = .doctype := hm
      cases st; simp only at hm'; subst hm'; simp [feed]
    | some q => simp [dtScan] at h
  | cons c cs ih =>
    intro qs st hm h
    cases qs with
    | none =>
      simp only [dtScan] at h
      by_cases h1 : (c == '>') = true
      · simp [h1] at h
      · simp only [h1, Bool.false_eq_true, ↓reduceIte] at h
        by_cases h2 : (c == '"' || c == '\'') = true
        · simp only [h2, ↓reduceIte] at h
          have s1 : step xml st c = { st with mode := .doctypeQ c, buf := st.buf ++ [c] } := by
            have h2' : (c == '"' || c == '\'') = true := h2
            simp only [step, hm, dtMode, h1, Bool.false_eq_true, ↓reduceIte, h2']
          rw [feed_cons, s1, ih (some c) _ rfl h]; simp
        · simp only [h2, Bool.false_eq_true, ↓reduceIte] at h
          have s1 : step xml st c = { st with buf := st.buf ++ [c] } := by
            simp only [Bool.or_eq_true, not_or] at h2
            simp [step, hm, dtMode, h1, h2]
          rw [feed_cons, s1, ih none _ (by simp [hm]) h]; simp [hm, dtMode]
    | some q =>
      simp only [dtScan] at h
      by_cases h1 : (c == q) = true
      · simp only [h1, ↓reduceIte] at h
        have s1 : step xml st c = { st with mode := .doctype, buf := st.buf ++ [c] } := by
          simp [step, hm, dtMode, h1]
        rw [feed_cons, s1, ih none _ rfl h]; simp
      · simp only [h1, Bool.false_eq_true, ↓reduceIte] at h
        by_cases h2 : (!xml && c == '>') = true
        · simp [h2] at h
        · simp only [h2, Bool.false_eq_true, ↓reduceIte] at h
          have s1 : step xml st c = { st with buf := st.buf ++ [c] } := by
            have h2' : (!xml && c == '>') = false := by simpa using h2
            simp only [step, hm, dtMode, h1, Bool.false_eq_true, ↓reduceIte, h2']
          rw [feed_cons, s1, ih (some q) _ (by simp [hm]) h]; simp

/-- what stands between `<!DOCTYPE ` and `>` -/
def doctypeContent (name : Str) (pubid sysid : Option Str) : Str :=
  name ++
  (if truthy pubid then [' ', 'P', 'U', 'B', 'L', 'I', 'C', ' ', '"'] ++ pubid.getD [] ++ ['"']
   else if truthy sysid then [' ', 'S', 'Y', 'S', 'T', 'E', 'M'] else []) ++
  (if truthy sysid then
     (if (sysid.getD []).any (· == '"') then [' ', '\''] ++ sysid.getD [] ++ ['\'']
      else [' ', '"'] ++ sysid.getD [] ++ ['"'])
   else [])

theorem doctypeOut_eq (n : Str) (p s : Option Str) :
    doctypeOut n p s = ['<', '!', 'D', 'O', 'C', 'T', 'Y', 'P', 'E', ' '] ++ doctypeContent n p s ++ ['>', '\n'] := by
  simp [doctypeOut, doctypeContent, List.append_assoc]

/-- `<!DOCTYPE literal>` and the line feed behind it, read from character data: the literal is
    the token, the line feed starts the following character data -/
theorem feed_doctype (xml : Bool) (buf : Str) (toks : List Tok) (content : Str) (h : dtScan xml none content = true) :
    feed xml (mk .data buf toks) (['<', '!', 'D', 'O', 'C', 'T', 'Y', 'P', 'E', ' '] ++ content ++ ['>', '\n']) =
      mk .data ['\n'] (.doctype content :: flushToks buf toks) := by
  have s0 : feed xml (mk .data buf toks) ['<', '!', 'D', 'O', 'C', 'T', 'Y', 'P', 'E', ' '] =
      ⟨.doctype, [], [], [], [], [], [], flushToks buf toks⟩ := by
    cases xml <;> simp [feed, step, mk, kwComment, kwDoctype, kwCdata, List.isPrefixOf, flush_eq]
  rw [show ['<', '!', 'D', 'O', 'C', 'T', 'Y', 'P', 'E', ' '] ++ content ++ ['>', '\n'] =
        ['<', '!', 'D', 'O', 'C', 'T', 'Y', 'P', 'E', ' '] ++ (content ++ ['>', '\n']) by simp,
    feed_append, s0, feed_append, feed_doctype_body xml content none _ rfl h]
  simp [feed, step, mk]

/-! ### XML declaration -/

/-- what stands between `<?` and `?>` -/
def xmlDeclContent (version : Str) (encoding : Option Str) (standalone : Int) : Str :=
  ['x', 'm', 'l', ' ', 'v', 'e', 'r', 's', 'i', 'o', 'n', '=', '"'] ++ version ++ ['"'] ++
  (if truthy encoding then [' ', 'e', 'n', 'c', 'o', 'd', 'i', 'n', 'g', '=', '"'] ++ encoding.getD [] ++ ['"'] else []) ++
  (if standalone != -1 then
     [' ', 's', 't', 'a', 'n', 'd', 'a', 'l', 'o', 'n', 'e', '=', '"'] ++
       (if standalone != 0 then ['y', 'e', 's'] else ['n', 'o']) ++ ['"']
   else [])

theorem xmlDeclOut_eq (v : Str) (e : Option Str) (s : Int) :
    xmlDeclOut v e s = (['<', '?'] ++ xmlDeclContent v e s ++ ['?', '>']) ++ ['\n'] := by
  simp [xmlDeclOut, xmlDeclContent, List.append_assoc]

theorem feed_xmlDecl (buf : Str) (toks : List Tok) (content : Str) (h : piSafe true false content = true) :
    feed true (mk .data buf toks) ((['<', '?'] ++ content ++ ['?', '>']) ++ ['\n']) =
      mk .data ['\n'] (.pi content :: flushToks buf toks) := by
  rw [feed_append, feed_pi true buf toks content h]
  simp [feed, step, mk]

end Genshi.Reader

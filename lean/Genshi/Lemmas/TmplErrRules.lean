/-
  C04: failing renders of the implementation model as a big-step predicate.
  `IErr t st`: with enough fuel task `t` fails from state `st` (with an error that is
  not "out of fuel").
-/
import Genshi.Lemmas.TmplRules
namespace Genshi.Tmpl

def IErr (t : ITask) (st : St) : Prop := ∃ m e, run m t st = .error e ∧ e ≠ .fuel

theorem IErr.lift {t : ITask} {st : St} {m k : Nat} {e : Err}
    (h : run m t st = .error e) (he : e ≠ .fuel) (hk : m ≤ k) : run k t st = .error e :=
  run_mono h (by simpa using he) hk

theorem bind_err {ε α β : Type} {x : Except ε α} {f : α → Except ε β} {e : ε} :
    (x >>= f) = .error e ↔ x = .error e ∨ ∃ a, x = .ok a ∧ f a = .error e := by
  cases x with
  | error e' => simp [bind, Except.bind]
  | ok a => simp [bind, Except.bind]

theorem seq_err {σ : Type} {r : Res σ} {k : σ → Res σ} {e : Err} :
    seq r k = .error e ↔ r = .error e ∨ ∃ o1 s1, r = .ok (o1, s1) ∧ k s1 = .error e := by
  cases r with
  | error e' => simp [seq]
  | ok p =>
    obtain ⟨o1, s1⟩ := p
    cases hk : k s1 with
    | error e' =>
      have : seq (Except.ok (o1, s1)) k = .error e' := by simp [seq, hk]
      rw [this]
      constructor
      · intro h; cases h; exact Or.inr ⟨o1, s1, rfl, hk⟩
      · rintro (h | ⟨a, b, h1, h2⟩)
        · cases h
        · cases h1; rw [hk] at h2; exact h2
    | ok q =>
      obtain ⟨o2, s2⟩ := q
      have : seq (Except.ok (o1, s1)) k = .ok (o1 ++ o2, s2) := by simp [seq, hk]
      rw [this]
      constructor
      · intro h; cases h
      · rintro (h | ⟨a, b, h1, h2⟩)
        · cases h
        · cases h1; rw [hk] at h2; cases h2

theorem mapSt_err {σ : Type} {f : σ → σ} {r : Res σ} {e : Err} :
    mapSt f r = .error e ↔ r = .error e := by
  unfold mapSt
  cases r with
  | error e' => simp
  | ok p => obtain ⟨o, s⟩ := p; simp

theorem wrapOut_err {σ : Type} {a b : Event} {r : Res σ} {e : Err} :
    wrapOut a b r = .error e ↔ r = .error e := by
  unfold wrapOut
  cases r with
  | error e' => simp
  | ok p => obtain ⟨o, s⟩ := p; simp

theorem IErr.flat_cons_left {e : CEv} {rest : List CEv} {st : St} (h : IErr (.ev e) st) :
    IErr (.flat (e :: rest)) st := by
  obtain ⟨m, er, h, he⟩ := h
  exact ⟨m + 1, er, by simp only [run, seq_err]; exact Or.inl h, he⟩

theorem IErr.flat_cons_right {e : CEv} {rest : List CEv} {st s1 : St} {o : List Event}
    (h1 : IOk (.ev e) st o s1) (h2 : IErr (.flat rest) s1) : IErr (.flat (e :: rest)) st := by
  obtain ⟨m1, h1⟩ := h1
  obtain ⟨m2, er, h2, he⟩ := h2
  refine ⟨max m1 m2 + 1, er, ?_, he⟩
  simp only [run, seq_err]
  exact Or.inr ⟨o, s1, IOk.lift h1 (Nat.le_max_left _ _), IErr.lift h2 he (Nat.le_max_right _ _)⟩

theorem IErr.flat_cons_inv {e : CEv} {rest : List CEv} {st : St} (h : IErr (.flat (e :: rest)) st) :
    IErr (.ev e) st ∨ ∃ o s1, IOk (.ev e) st o s1 ∧ IErr (.flat rest) s1 := by
  obtain ⟨m, er, h, he⟩ := h
  cases m with
  | zero => simp [run] at h; exact absurd h.symm he
  | succ m =>
    simp only [run, seq_err] at h
    rcases h with h | ⟨o1, s1, h1, h2⟩
    · exact Or.inl ⟨m, er, h, he⟩
    · exact Or.inr ⟨o1, s1, ⟨m, h1⟩, ⟨m, er, h2, he⟩⟩

theorem IErr.flat_nil_false {st : St} (h : IErr (.flat []) st) : False := by
  obtain ⟨m, er, h, he⟩ := h
  cases m with
  | zero => simp [run] at h; exact he h.symm
  | succ m => simp [run] at h

theorem IErr.flat_append_left {a b : List CEv} : ∀ {st : St}, IErr (.flat a) st → IErr (.flat (a ++ b)) st := by
  induction a with
  | nil => intro st h; exact absurd h (fun h => IErr.flat_nil_false h)
  | cons e a ih =>
    intro st h
    rcases IErr.flat_cons_inv h with h1 | ⟨o, s1, h1, h2⟩
    · exact IErr.flat_cons_left h1
    · exact IErr.flat_cons_right h1 (ih h2)

theorem IErr.flat_append_right {a b : List CEv} : ∀ {st s1 : St} {o : List Event},
    IOk (.flat a) st o s1 → IErr (.flat b) s1 → IErr (.flat (a ++ b)) st := by
  induction a with
  | nil =>
    intro st s1 o h1 h2
    obtain ⟨_, rfl⟩ := IOk.flat_nil_inv h1
    simpa using h2
  | cons e a ih =>
    intro st s1 o h1 h2
    obtain ⟨p1, t1, p2, he, ha, _⟩ := IOk.flat_cons_inv h1
    exact IErr.flat_cons_right he (ih ha h2)

theorem IErr.flat_single {e : CEv} {st : St} (h : IErr (.ev e) st) : IErr (.flat [e]) st :=
  IErr.flat_cons_left h

theorem IErr.ev_sub {ds body} {st : St} (h : IErr (.apply ds body) st) : IErr (.ev (.sub ds body)) st := by
  obtain ⟨m, er, h, he⟩ := h
  exact ⟨m + 1, er, by simpa only [run] using h, he⟩

theorem IErr.apply_nil {body} {st : St} (h : IErr (.flat body) st) : IErr (.apply [] body) st := by
  obtain ⟨m, er, h, he⟩ := h
  exact ⟨m + 1, er, by simpa only [run] using h, he⟩

theorem IErr.apply_nil_inv {body} {st : St} (h : IErr (.apply [] body) st) : IErr (.flat body) st := by
  obtain ⟨m, er, h, he⟩ := h
  cases m with
  | zero => simp [run] at h; exact absurd h.symm he
  | succ m => exact ⟨m, er, by simpa only [run] using h, he⟩

theorem IErr.mkSub {ds body} {st : St} (h : IErr (.apply ds body) st) :
    IErr (.flat (Genshi.Tmpl.mkSub ds body)) st := by
  unfold Genshi.Tmpl.mkSub
  split
  · rename_i he
    have : ds = [] := by simpa using he
    subst this
    exact IErr.apply_nil_inv h
  · exact IErr.flat_single (IErr.ev_sub h)

/-- a failing task does not also succeed -/
theorem IErr.not_ok {t : ITask} {st s1 : St} {o : List Event} (h1 : IErr t st) (h2 : IOk t st o s1) : False := by
  obtain ⟨m1, er, h1, he⟩ := h1
  obtain ⟨m2, h2⟩ := h2
  have a := IErr.lift h1 he (Nat.le_max_left m1 m2)
  have b := IOk.lift h2 (Nat.le_max_right m1 m2)
  rw [a] at b; cases b

end Genshi.Tmpl

/-
  C01 — the skeleton a template re-reads to is a well-nested forest.
-/
import Genshi.Lemmas.SubstNonInt
namespace Genshi.Subst
open Genshi.Escape Genshi.Str

/-- stack discipline of START / END (as `Genshi.balance` on the shared event type) -/
def nest : List Name → List Ev → Option (List Name)
  | st, [] => some st
  | st, .start t _ :: es => nest (t :: st) es
  | t' :: st, .end_ t :: es => if t = t' then nest st es else none
  | [], .end_ _ :: _ => none
  | st, .text _ _ :: es => nest st es

theorem nest_append (a b : List Ev) : ∀ st, nest st (a ++ b) = (nest st a).bind fun st' => nest st' b := by
  induction a with
  | nil => intro st; simp [nest]
  | cons e es ih =>
    intro st
    cases e with
    | start t at_ => simp [nest, ih]
    | end_ t =>
      cases st with
      | nil => simp [nest]
      | cons t' st => by_cases h : t = t' <;> simp [nest, h, ih]
    | text s f => cases st <;> simp [nest, ih]

/-- a segment that leaves every stack as it found it -/
def Balanced (evs : List Ev) : Prop := ∀ st, nest st evs = some st

theorem Balanced.nil : Balanced [] := fun _ => rfl

theorem Balanced.text (s : List Char) (f : Bool) : Balanced [.text s f] := by
  intro st; cases st <;> rfl

theorem Balanced.append {a b : List Ev} (ha : Balanced a) (hb : Balanced b) : Balanced (a ++ b) := by
  intro st; rw [nest_append, ha st]; exact hb st

theorem Balanced.wrap {a : List Ev} (t : Name) (at_ : List (Name × List Char)) (ha : Balanced a) :
    Balanced (.start t at_ :: (a ++ [.end_ t])) := by
  intro st
  simp only [nest]
  rw [nest_append, ha (t :: st)]
  simp [nest]

theorem Balanced.texts (evs : List Ev) (h : allText evs) : Balanced evs := by
  induction evs with
  | nil => exact Balanced.nil
  | cons e es ih =>
    obtain ⟨s, f, rfl⟩ := h e (by simp)
    have := Balanced.append (Balanced.text s f) (ih fun x hx => h x (List.mem_cons_of_mem _ hx))
    simpa using this

mutual
  theorem expectedB_balanced (env : Env) : ∀ b : BKid, Balanced (expectedB env b)
    | .arg e => by simp only [expectedB]; exact Balanced.text _ _
    | .el t attrs kids => by simp only [expectedB]; exact Balanced.wrap t _ (expectedBs_balanced env kids)
  theorem expectedBs_balanced (env : Env) : ∀ bs : List BKid, Balanced (expectedBs env bs)
    | [] => Balanced.nil
    | b :: bs => by
        simp only [expectedBs]
        exact Balanced.append (expectedB_balanced env b) (expectedBs_balanced env bs)
end

theorem expectedSite_balanced (m : Method) (env : Env) (e : SExpr) (h : sexprOkB m e = true) :
    Balanced (expectedSite env e) := by
  cases e with
  | v e => exact Balanced.text _ _
  | add mk a => exact Balanced.text _ _
  | radd mk a => exact Balanced.text _ _
  | join sep items => exact Balanced.text _ _
  | esc a q => exact Balanced.text _ _
  | fmt f args =>
    simp only [expectedSite]
    split
    · exact Balanced.text _ _
    · exact Balanced.nil
  | fmtp ps as => simp [sexprOkB] at h
  | build b => exact expectedB_balanced env b
  | frag kids => exact expectedBs_balanced env kids

theorem flatMap_balanced (xs : List Scalar) (g : Scalar → List Ev) (h : ∀ x ∈ xs, Balanced (g x)) :
    Balanced (xs.flatMap g) := by
  induction xs with
  | nil => exact Balanced.nil
  | cons x xs ih =>
    simp only [List.flatMap_cons]
    exact Balanced.append (h x (by simp)) (ih fun y hy => h y (List.mem_cons_of_mem _ hy))

mutual
  theorem expectedNode_balanced (m : Method) : ∀ (n : Node) (env : Env), nodeOkB m n = true →
      Balanced (expectedNode env n)
    | .lit s, _, _ => Balanced.text _ _
    | .site e, env, h => by
        simp only [expectedNode]
        exact expectedSite_balanced m env e (by simpa [nodeOkB] using h)
    | .el t attrs pa kids, env, h => by
        simp only [nodeOkB, Bool.and_eq_true] at h
        cases pa <;> (simp only [expectedNode]; exact Balanced.wrap t _ (expectedList_balanced m kids env h.2))
    | .loop e kids, env, h => by
        simp only [nodeOkB, Bool.and_eq_true] at h
        simp only [expectedNode]
        exact flatMap_balanced _ _ fun x _ => expectedList_balanced m kids (x :: env) h.2
    | .bind a kids, env, h => by
        simp only [nodeOkB, Bool.and_eq_true] at h
        simp only [expectedNode]
        exact expectedList_balanced m kids _ h.2
    | .cond b kids, env, h => by
        cases b with
        | false => simp only [expectedNode]; exact Balanced.nil
        | true => simpa [expectedNode] using expectedList_balanced m kids env (by simpa [nodeOkB] using h)
  theorem expectedList_balanced (m : Method) : ∀ (ns : List Node) (env : Env), nodesOkB m ns = true →
      Balanced (expectedList env ns)
    | [], _, _ => Balanced.nil
    | n :: ns, env, h => by
        simp only [nodesOkB, Bool.and_eq_true] at h
        simp only [expectedList]
        exact Balanced.append (expectedNode_balanced m n env h.1) (expectedList_balanced m ns env h.2)
end

/-- merging character data does not touch the nesting -/
theorem nest_coalesceWith (fl : Nat → List Char → List Ev) (hfl : ∀ p pend, allText (fl p pend))
    (pres : List Name) (evs : List Ev) :
    ∀ p pend st, nest st (coalesceWith fl pres p pend evs) = nest st evs := by
  have hflb : ∀ p pend st, nest st (fl p pend) = some st := fun p pend => Balanced.texts _ (hfl p pend)
  induction evs with
  | nil => intro p pend st; simp only [coalesceWith, hflb]; rfl
  | cons e es ih =>
    intro p pend st
    cases e with
    | text s f => cases st <;> simp [coalesceWith, nest, ih]
    | start t a => simp only [coalesceWith, nest_append, hflb, Option.bind_some, nest, ih]
    | end_ t =>
      simp only [coalesceWith, nest_append, hflb, Option.bind_some]
      cases st with
      | nil => simp [nest]
      | cons t' st => by_cases h : t = t' <;> simp [nest, h, ih]

theorem allText_flushData (pend : List Char) : allText (flushData pend) := by
  unfold flushData
  split
  · intro e he; cases he
  · intro e he; simp at he; exact ⟨_, _, he⟩

theorem nest_coalesce (evs : List Ev) (st : List Name) : nest st (coalesce evs) = nest st evs := by
  unfold coalesce
  rw [coalesceGo_eq_with [] [] evs 0]
  exact nest_coalesceWith _ (fun _ pend => allText_flushData pend) [] evs 0 [] st

theorem nest_coalesceStrip (m : Method) (evs : List Ev) (st : List Name) :
    nest st (coalesceStrip m evs) = nest st evs := by
  unfold coalesceStrip
  rw [coalesceStripGo_eq_with]
  exact nest_coalesceWith _ (fun p pend => by unfold flushDataP; exact allText_flushData _) _ evs 0 [] st

end Genshi.Subst

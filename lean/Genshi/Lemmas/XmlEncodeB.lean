/-
  C02 — `encode` with `xmlcharrefreplace`, per codec table: the encoded text
  lies inside the codec's repertoire (so `str.encode` cannot fail), a character
  outside it is written as its decimal character reference, and a table whose
  first range covers ASCII satisfies the assumption of the encoding theorems.
-/
import Genshi.Lemmas.XmlEncode
namespace Genshi.Xml
open Genshi Genshi.Escape Genshi.Xml.Reader

/-- the table check the translator's output is put through: some range covers 0 … 127 -/
def coversAscii (rs : List (Nat × Nat)) : Bool := rs.any fun r => r.1 == 0 && decide (127 ≤ r.2)

theorem asciiRep_of_covers (rs : List (Nat × Nat)) (h : coversAscii rs = true) : AsciiRep (inRanges rs) := by
  intro c hc
  unfold coversAscii at h
  obtain ⟨r, hr, hc2⟩ := List.any_eq_true.mp h
  simp only [Bool.and_eq_true, beq_iff_eq, decide_eq_true_eq] at hc2
  unfold inRanges
  apply List.any_eq_true.mpr
  refine ⟨r, hr, ?_⟩
  simp only [Bool.and_eq_true, decide_eq_true_eq]
  omega

theorem charRef_ascii (c : Char) : ∀ x ∈ charRef c, x.toNat < 128 := by
  intro x hx
  simp only [charRef, List.mem_cons, List.mem_append, List.mem_singleton, List.mem_nil_iff, or_false] at hx
  rcases hx with (rfl | rfl | hx) | rfl
  · decide
  · decide
  · have := List.all_eq_true.mp (dec_all_digit c.toNat) x hx
    simp only [isDigit, Bool.and_eq_true, decide_eq_true_eq] at this
    have h9 : x ≤ '9' := this.2
    have : x.toNat ≤ ('9' : Char).toNat := h9
    have e9 : ('9' : Char).toNat = 57 := by decide
    omega
  · decide

/-- what `encode` hands to the codec is inside the codec's repertoire -/
theorem encodeText_all_rep (rep : Char → Bool) (hr : AsciiRep rep) (s : Str) :
    (encodeText rep s).all rep = true := by
  induction s with
  | nil => rfl
  | cons c s ih =>
    have e : encodeText rep (c :: s) = (if rep c then [c] else charRef c) ++ encodeText rep s := by
      simp [encodeText]
    rw [e, List.all_append, ih, Bool.and_true]
    by_cases h : rep c = true
    · simp [h]
    · simp only [h, Bool.false_eq_true, if_false]
      apply List.all_eq_true.mpr
      intro x hx
      exact hr x (charRef_ascii c x hx)

/-- a character the codec lacks is written as `&#N;`, `N` its scalar value in decimal -/
theorem encodeText_unrep (rep : Char → Bool) (c : Char) (h : rep c = false) :
    encodeText rep [c] = '&' :: '#' :: dec c.toNat ++ [';'] := by
  simp [encodeText, charRef, h]

end Genshi.Xml

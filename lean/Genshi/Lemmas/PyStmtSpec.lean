/-
  C13 / C03 — statement mode, part 2: genshi's scope stack against Python's scoping rule.
  `Rel L env` relates the transformer's `self.locals` (`L`) with the scope description of the
  specification (`env`); it is established for the module, preserved by every statement (the names a
  statement adds to `self.locals[-1]` are bound names of the scope) and re-established for the body
  of every nested `def` / `class`.  Under it every load in the domain is decided the same way.
-/
import Genshi.Lemmas.PyStmtSim
namespace Genshi.Py

def classTopHas : List Scope → Str → Bool
  | (true, t) :: _, id => t.contains id
  | _, _ => false

def topIsClass : List Scope → Bool
  | (k, _) :: _ => k
  | [] => false

/-- what a function nested in the scope sees -/
def SEnv.inner (env : SEnv) (id : Str) : Bool :=
  (env.kind == .function && env.bound.contains id) || env.encl.contains id

theorem visible_contains (env : SEnv) (id : Str) : env.visible.contains id = env.inner id := by
  rcases env with ⟨k, b, e⟩
  cases k <;> simp [SEnv.visible, SEnv.inner, List.contains_append]

theorem nv_cons (k : Bool) (t : List Str) (o : List Scope) (id : Str) :
    nv ((k, t) :: o) id = ((!k && t.contains id) || nv o id) := by
  simp [nv]

theorem isLocalT_eq (L : List Scope) (id : Str) : isLocalT L id = (nv L id || classTopHas L id) := by
  match L with
  | [] => rfl
  | (true, t) :: o => simp [isLocalT, nv_cons, classTopHas, Bool.or_comm]
  | (false, t) :: o => simp [isLocalT, nv_cons, classTopHas]

theorem classTopHas_of_not (L : List Scope) (id : Str) (h : topIsClass L = false) : classTopHas L id = false := by
  match L with
  | [] => rfl
  | (true, t) :: o => simp [topIsClass] at h
  | (false, t) :: o => rfl

theorem plain_not_super (id : Str) (h : plainName id = true) : superNames.contains id = false := by
  simp only [plainName, reservedNames, List.contains_append, Bool.not_eq_true', Bool.or_eq_false_iff] at h
  exact h.2

theorem genshiDec_plain (L : List Scope) (id : Str) (h : plainName id = true) : genshiDec L id = isLocalT L id := by
  unfold genshiDec
  rw [plain_not_super id h]
  simp

/-- the relation between the states inside an expression (after entering a lambda / comprehension) -/
def RelF (L : List Scope) (env : SEnv) : Prop :=
  env.kind = .function ∧ topIsClass L = false ∧ ∀ id, plainName id = true → nv L id = env.inner id

theorem relF_dec (L : List Scope) (env : SEnv) (id : Str) (h : RelF L env) (hq : plainName id = true) :
    genshiOps.dec L id = pyOps.dec env id := by
  obtain ⟨hk, ht, hv⟩ := h
  show genshiDec L id = !env.isGlobal id
  rw [genshiDec_plain L id hq, isLocalT_eq, classTopHas_of_not L id ht, hv id hq]
  rcases env with ⟨k, b, e⟩
  simp only at hk
  subst hk
  simp [SEnv.inner, SEnv.isGlobal]

theorem relF_of_vis (L : List Scope) (env : SEnv) (N : List Str)
    (hv : ∀ id, plainName id = true → nv L id = env.inner id) :
    RelF (genshiOps.push L N) (pyOps.push env N) := by
  refine ⟨rfl, rfl, ?_⟩
  intro id hq
  show nv ((false, N) :: L) id = (env.child .function N).inner id
  rw [nv_cons, hv id hq]
  show (!false && N.contains id || env.inner id)
    = ((ScopeKind.function == ScopeKind.function && N.contains id) || env.visible.contains id)
  rw [visible_contains]
  simp

theorem relF_push (L : List Scope) (env : SEnv) (N : List Str) (h : RelF L env) :
    RelF (genshiOps.push L N) (pyOps.push env N) :=
  relF_of_vis L env N h.2.2

/-- the invariant of the statement transformer -/
structure Rel (L : List Scope) (env : SEnv) : Prop where
  vis : ∀ id, plainName id = true → nv L id = env.inner id
  top : ∀ id, classTopHas L id = true → env.kind = .class_ ∧ env.bound.contains id = true
  cls : topIsClass L = (env.kind == .class_)
  mod : env.kind = .module → env.encl = [] ∧ ∃ c, L = [c]

theorem rel_dec {L : List Scope} {env : SEnv} (h : Rel L env) (id : Str) (hp : directOk env id = true) :
    genshiOps.dec L id = pyOps.dec env id := by
  simp only [directOk, Bool.and_eq_true, Bool.not_eq_true', Bool.and_eq_false_iff] at hp
  obtain ⟨hq, hc⟩ := hp
  show genshiDec L id = !env.isGlobal id
  have htop : classTopHas L id = false := by
    cases hh : classTopHas L id with
    | false => rfl
    | true =>
      obtain ⟨h1, h2⟩ := h.top id hh
      rcases hc with hc | hc
      · rw [h1] at hc; exact absurd hc (by decide)
      · rw [h2] at hc; exact Bool.noConfusion hc
  rw [genshiDec_plain L id hq, isLocalT_eq, htop, h.vis id hq]
  rcases env with ⟨k, b, e⟩
  cases k
  · have := (h.mod rfl).1
    simp only at this
    subst this
    simp [SEnv.inner, SEnv.isGlobal]
  · simp [SEnv.inner, SEnv.isGlobal]
  · rcases hc with hc | hc
    · simp at hc
    · simp only at hc
      simp only [SEnv.inner, SEnv.isGlobal, hc]
      simp

theorem rel_push {L : List Scope} {env : SEnv} (h : Rel L env) (N : List Str) :
    RelF (genshiOps.push L N) (pyOps.push env N) :=
  relF_of_vis L env N h.vis

section
variable {L : List Scope} {env : SEnv} (h : Rel L env)
include h

theorem xt_spec (e : PyExpr) (ok : loadsOk (directOk env) plainName e = true) : xt L e = ml pyOps env e :=
  ml_sim genshiOps pyOps RelF plainName relF_dec relF_push e L env (directOk env) (rel_dec h) (rel_push h) ok
theorem xtL_spec (es : List PyExpr) (ok : loadsOkL (directOk env) plainName es = true) : xtL L es = mlL pyOps env es :=
  mlL_sim genshiOps pyOps RelF plainName relF_dec relF_push es L env (directOk env) (rel_dec h) (rel_push h) ok
theorem xtO_spec (o : Option PyExpr) (ok : loadsOkO (directOk env) plainName o = true) : xtO L o = mlO pyOps env o :=
  mlO_sim genshiOps pyOps RelF plainName relF_dec relF_push o L env (directOk env) (rel_dec h) (rel_push h) ok
theorem xtTL_spec (es : List PyExpr) (ok : loadsOkTL (directOk env) plainName es = true) : xtTL L es = mlTL pyOps env es :=
  mlTL_sim genshiOps pyOps RelF plainName relF_dec relF_push es L env (directOk env) (rel_dec h) (rel_push h) ok
end

end Genshi.Py

/-! ### statements -/
namespace Genshi.Py

/-- the names are bound names of the scope (nothing is demanded at module level, where the
    transformer registers nothing) -/
def SubB (env : SEnv) (ns : List Str) : Prop :=
  env.kind ≠ .module → ∀ id, ns.contains id = true → env.bound.contains id = true

theorem subB_left {env : SEnv} {a b : List Str} (h : SubB env (a ++ b)) : SubB env a := by
  intro hm id hi
  exact h hm id (by rw [List.contains_append, hi]; rfl)

theorem subB_right {env : SEnv} {a b : List Str} (h : SubB env (a ++ b)) : SubB env b := by
  intro hm id hi
  exact h hm id (by rw [List.contains_append, hi]; simp)

theorem subB_refl (k : ScopeKind) (a b e : List Str) : SubB ⟨k, a ++ b, e⟩ b := by
  intro _ id hi
  show (a ++ b).contains id = true
  rw [List.contains_append, hi]; simp

theorem rel_module : Rel [(false, constantNames)] moduleEnv := by
  refine ⟨?_, ?_, rfl, fun _ => ⟨rfl, _, rfl⟩⟩
  · intro id hq
    simp only [plainName, reservedNames, List.contains_append, Bool.not_eq_true', Bool.or_eq_false_iff] at hq
    rw [nv_cons, hq.1]
    rfl
  · intro id hh
    simp [classTopHas] at hh

theorem rel_addTop {L : List Scope} {env : SEnv} (h : Rel L env) (ns : List Str) (sb : SubB env ns) :
    Rel (addTop L ns) env := by
  match L, h with
  | [], h => exact h
  | [_], h => exact h
  | (k, t) :: o :: r, h =>
    have hm : env.kind ≠ .module := by
      intro hk
      obtain ⟨_, c, hc⟩ := h.mod hk
      simp at hc
    show Rel ((k, ns ++ t) :: o :: r) env
    have hcls := h.cls
    simp only [topIsClass] at hcls
    refine ⟨?_, ?_, ?_, fun hk => absurd hk hm⟩
    · intro id hq
      have hv := h.vis id hq
      rw [nv_cons] at hv ⊢
      cases k with
      | true => simpa using hv
      | false =>
        cases hn : ns.contains id with
        | false => rw [List.contains_append, hn]; simpa using hv
        | true =>
          have hb := sb hm id hn
          have hkind : env.kind = .function := by
            rcases env with ⟨kd, b, e⟩
            cases kd
            · exact absurd rfl hm
            · rfl
            · simp at hcls
          rw [List.contains_append, hn]
          simp only [SEnv.inner, hkind, hb]
          simp
    · intro id hh
      cases k with
      | false => simp [classTopHas] at hh
      | true =>
        have hkind : env.kind = .class_ := by simpa using hcls.symm
        refine ⟨hkind, ?_⟩
        simp only [classTopHas, List.contains_append, Bool.or_eq_true] at hh
        rcases hh with hh | hh
        · exact sb hm id hh
        · exact (h.top id (by simpa [classTopHas] using hh)).2
    · simpa [topIsClass] using hcls

theorem rel_child_fun {L : List Scope} {env : SEnv} (h : Rel L env) (N : List Str) :
    Rel ((false, N) :: L) (env.child .function N) := by
  refine ⟨?_, ?_, rfl, fun hk => by simp [SEnv.child] at hk⟩
  · exact (relF_of_vis L env N h.vis).2.2
  · intro id hh
    simp [classTopHas] at hh

theorem rel_child_cls {L : List Scope} {env : SEnv} (h : Rel L env) (B : List Str) :
    Rel ((true, []) :: L) (env.child .class_ B) := by
  refine ⟨?_, ?_, rfl, fun hk => by simp [SEnv.child] at hk⟩
  · intro id hq
    rw [nv_cons, h.vis id hq]
    show (!true && ([] : List Str).contains id || env.inner id)
      = ((ScopeKind.class_ == ScopeKind.function && B.contains id) || env.visible.contains id)
    rw [visible_contains]
    simp
  · intro id hh
    simp [classTopHas] at hh

mutual
theorem xsTgt_spec : ∀ (t : PyExpr) (L : List Scope) (env : SEnv), Rel L env →
    loadsOkT (directOk env) plainName t = true → SubB env (targetNames t) →
    (xsTgt L t).1 = mlT pyOps env t ∧ Rel (xsTgt L t).2 env
  | .name id, L, env, h, _, sb => ⟨rfl, rel_addTop h [id] (by simpa [targetNames] using sb)⟩
  | .tuple elts, L, env, h, ok, sb => by
      simp only [loadsOkT] at ok
      simp only [targetNames] at sb
      obtain ⟨h1, h2⟩ := xsTgtL_spec elts L env h ok sb
      exact ⟨by simp only [xsTgt, mlT, h1], h2⟩
  | .list elts, L, env, h, ok, sb => by
      simp only [loadsOkT] at ok
      simp only [targetNames] at sb
      obtain ⟨h1, h2⟩ := xsTgtL_spec elts L env h ok sb
      exact ⟨by simp only [xsTgt, mlT, h1], h2⟩
  | .starred e, L, env, h, ok, sb => by
      simp only [loadsOkT] at ok
      simp only [targetNames] at sb
      obtain ⟨h1, h2⟩ := xsTgt_spec e L env h ok sb
      exact ⟨by simp only [xsTgt, mlT, h1], h2⟩
  | .attribute v a, L, env, h, ok, _ => by
      simp only [loadsOkT] at ok
      exact ⟨by simp only [xsTgt, mlT, xt_spec h v ok], h⟩
  | .subscript v sl, L, env, h, ok, _ => by
      simp only [loadsOkT, Bool.and_eq_true] at ok
      exact ⟨by simp only [xsTgt, mlT, xt_spec h v ok.1, xt_spec h sl ok.2], h⟩
  | .const _, L, env, h, _, _ => ⟨by simp only [xsTgt, mlT], h⟩
  | .boolOp _ _, L, env, h, _, _ => ⟨by simp only [xsTgt, mlT], h⟩
  | .binOp _ _ _, L, env, h, _, _ => ⟨by simp only [xsTgt, mlT], h⟩
  | .unaryOp _ _, L, env, h, _, _ => ⟨by simp only [xsTgt, mlT], h⟩
  | .lambda _ _ _ _ _ _, L, env, h, _, _ => ⟨by simp only [xsTgt, mlT], h⟩
  | .ifExp _ _ _, L, env, h, _, _ => ⟨by simp only [xsTgt, mlT], h⟩
  | .dict _, L, env, h, _, _ => ⟨by simp only [xsTgt, mlT], h⟩
  | .listComp _ _, L, env, h, _, _ => ⟨by simp only [xsTgt, mlT], h⟩
  | .genExp _ _, L, env, h, _, _ => ⟨by simp only [xsTgt, mlT], h⟩
  | .yield_ _, L, env, h, _, _ => ⟨by simp only [xsTgt, mlT], h⟩
  | .compare _ _, L, env, h, _, _ => ⟨by simp only [xsTgt, mlT], h⟩
  | .call _ _ _, L, env, h, _, _ => ⟨by simp only [xsTgt, mlT], h⟩
  | .slice _ _ _, L, env, h, _, _ => ⟨by simp only [xsTgt, mlT], h⟩
  | .unsupported _, L, env, h, _, _ => ⟨by simp only [xsTgt, mlT], h⟩
  | .keyword _ _, L, env, h, _, _ => ⟨by simp only [xsTgt, mlT], h⟩
  | .comp _ _ _ _, L, env, h, _, _ => ⟨by simp only [xsTgt, mlT], h⟩
  | .param _ _ _, L, env, h, _, _ => ⟨by simp only [xsTgt, mlT], h⟩
  | .dictItem _ _, L, env, h, _, _ => ⟨by simp only [xsTgt, mlT], h⟩
  | .cmpRhs _ _, L, env, h, _, _ => ⟨by simp only [xsTgt, mlT], h⟩
theorem xsTgtL_spec : ∀ (ts : List PyExpr) (L : List Scope) (env : SEnv), Rel L env →
    loadsOkTL (directOk env) plainName ts = true → SubB env (targetNamesL ts) →
    (xsTgtL L ts).1 = mlTL pyOps env ts ∧ Rel (xsTgtL L ts).2 env
  | [], L, env, h, _, _ => ⟨rfl, h⟩
  | e :: es, L, env, h, ok, sb => by
      simp only [loadsOkTL, Bool.and_eq_true] at ok
      simp only [targetNamesL] at sb
      obtain ⟨h1, h2⟩ := xsTgt_spec e L env h ok.1 (subB_left sb)
      obtain ⟨h3, h4⟩ := xsTgtL_spec es _ env h2 ok.2 (subB_right sb)
      exact ⟨by simp only [xsTgtL, mlTL, h1, h3], h4⟩
end

theorem xsItems_spec : ∀ (items : List (PyExpr × Option PyExpr)) (L : List Scope) (env : SEnv), Rel L env →
    okItems env items = true → SubB env (items.map fun i => targetNamesO i.2).flatten →
    (xsItems L items).1 = specItems env items ∧ Rel (xsItems L items).2 env
  | [], L, env, h, _, _ => ⟨rfl, h⟩
  | (c, none) :: r, L, env, h, ok, sb => by
      simp only [okItems, Bool.and_eq_true] at ok
      simp only [List.map_cons, List.flatten_cons, targetNamesO, List.nil_append] at sb
      obtain ⟨h1, h2⟩ := xsItems_spec r L env h ok.2 sb
      exact ⟨by simp only [xsItems, specItems, xt_spec h c ok.1, h1], h2⟩
  | (c, some v) :: r, L, env, h, ok, sb => by
      simp only [okItems, Bool.and_eq_true] at ok
      simp only [List.map_cons, List.flatten_cons, targetNamesO] at sb
      obtain ⟨h1, h2⟩ := xsTgt_spec v L env h ok.1.2 (subB_left sb)
      obtain ⟨h3, h4⟩ := xsItems_spec r _ env h2 ok.2 (subB_right sb)
      exact ⟨by simp only [xsItems, specItems, xt_spec h c ok.1.1, h1, h3], h4⟩

theorem aliasName_eq (a : Str × Option Str) : aliasName a = importBinds a := by
  rcases a with ⟨n, _ | a⟩ <;> rfl

theorem aliasNames_eq (ns : List (Str × Option Str)) : ns.map aliasName = ns.map importBinds := by
  induction ns with
  | nil => rfl
  | cons a r ih => simp only [List.map_cons, aliasName_eq, ih]

mutual
/-- genshi's `_bound_names` finds the names Python's rule says are bound (on accepted programs) -/
theorem bnS_eq : ∀ (s : PyStmt) (env : SEnv), okS env s = true → bnS s = bindsS s
  | .expr _, _, _ => rfl
  | .assign _ _, _, _ => rfl
  | .augAssign _ _ _, _, _ => rfl
  | .return_ _, _, _ => rfl
  | .delete _, _, _ => rfl
  | .pass_, _, _ => rfl
  | .break_, _, _ => rfl
  | .continue_, _, _ => rfl
  | .assert_ _ _, _, _ => rfl
  | .raise_ _ _, _, _ => rfl
  | .global_ _, _, _ => rfl
  | .import_ ns, _, _ => by simp only [bnS, bindsS, aliasNames_eq]
  | .importFrom _ ns _, _, _ => by simp only [bnS, bindsS, aliasNames_eq]
  | .if_ _ b o, env, ok => by
      simp only [okS, Bool.and_eq_true] at ok; simp only [bnS, bindsS, bnB_eq b env ok.1.2, bnB_eq o env ok.2]
  | .while_ _ b o, env, ok => by
      simp only [okS, Bool.and_eq_true] at ok; simp only [bnS, bindsS, bnB_eq b env ok.1.2, bnB_eq o env ok.2]
  | .for_ _ _ b o, env, ok => by
      simp only [okS, Bool.and_eq_true] at ok; simp only [bnS, bindsS, bnB_eq b env ok.1.2, bnB_eq o env ok.2]
  | .with_ _ b, env, ok => by
      simp only [okS, Bool.and_eq_true] at ok; simp only [bnS, bindsS, bnB_eq b env ok.2]
  | .try_ b hs o f, env, ok => by
      simp only [okS, Bool.and_eq_true] at ok
      simp only [bnS, bindsS, bnB_eq b env ok.1.1.1, bnB_eq hs env ok.1.1.2, bnB_eq o env ok.1.2, bnB_eq f env ok.2]
  | .handler _ n b, env, ok => by
      simp only [okS, Bool.and_eq_true, Option.isNone_iff_eq_none] at ok
      simp only [bnS, bindsS, ok.1.1, handlerBinds, List.nil_append, bnB_eq b env ok.2]
  | .functionDef _ _ _ _ _ _ _ _ _ _, _, _ => rfl
  | .classDef _ _ _ _ _ _, _, _ => rfl
  | .unsupported _, _, _ => rfl
theorem bnB_eq : ∀ (ss : List PyStmt) (env : SEnv), okB env ss = true → bnB ss = bindsB ss
  | [], _, _ => rfl
  | s :: ss, env, ok => by
      simp only [okB, Bool.and_eq_true] at ok; simp only [bnB, bindsB, bnS_eq s env ok.1, bnB_eq ss env ok.2]
end

end Genshi.Py

namespace Genshi.Py

mutual
/-- one statement: the transformer's output is the specification's, and the invariant is kept -/
theorem xsS_spec : ∀ (s : PyStmt) (L : List Scope) (env : SEnv), Rel L env → okS env s = true →
    SubB env (bindsS s) → (xsS L s).1 = specS env s ∧ Rel (xsS L s).2 env
  | .expr e, L, env, h, ok, _ => by
      simp only [okS] at ok
      exact ⟨by simp only [xsS, specS, xt_spec h e ok], h⟩
  | .assign ts v, L, env, h, ok, sb => by
      simp only [okS, Bool.and_eq_true] at ok
      simp only [bindsS] at sb
      obtain ⟨h1, h2⟩ := xsTgtL_spec ts L env h ok.1 sb
      exact ⟨by simp only [xsS, specS, h1, xt_spec h2 v ok.2], h2⟩
  | .augAssign t op v, L, env, h, ok, sb => by
      simp only [okS, Bool.and_eq_true] at ok
      simp only [bindsS] at sb
      obtain ⟨h1, h2⟩ := xsTgt_spec t L env h ok.1 sb
      exact ⟨by simp only [xsS, specS, h1, xt_spec h2 v ok.2], h2⟩
  | .return_ v, L, env, h, ok, _ => by
      simp only [okS] at ok
      exact ⟨by simp only [xsS, specS, xtO_spec h v ok], h⟩
  | .delete ts, L, env, h, ok, _ => by
      simp only [okS] at ok
      exact ⟨by simp only [xsS, specS, xtTL_spec h ts ok], h⟩
  | .pass_, _, _, h, _, _ => ⟨rfl, h⟩
  | .break_, _, _, h, _, _ => ⟨rfl, h⟩
  | .continue_, _, _, h, _, _ => ⟨rfl, h⟩
  | .assert_ t m, L, env, h, ok, _ => by
      simp only [okS, Bool.and_eq_true] at ok
      exact ⟨by simp only [xsS, specS, xt_spec h t ok.1, xtO_spec h m ok.2], h⟩
  | .raise_ e c, L, env, h, ok, _ => by
      simp only [okS, Bool.and_eq_true] at ok
      exact ⟨by simp only [xsS, specS, xtO_spec h e ok.1, xtO_spec h c ok.2], h⟩
  | .global_ _, _, _, _, ok, _ => by simp [okS] at ok
  | .import_ ns, L, env, h, _, sb => by
      simp only [bindsS, ← aliasNames_eq] at sb
      exact ⟨rfl, rel_addTop h _ sb⟩
  | .importFrom m ns lvl, L, env, h, ok, sb => by
      simp only [okS, Bool.not_eq_true'] at ok
      simp only [bindsS, ← aliasNames_eq] at sb
      simp only [xsS, ok, Bool.false_eq_true, if_false]
      exact ⟨rfl, rel_addTop h _ sb⟩
  | .if_ t b o, L, env, h, ok, sb => by
      simp only [okS, Bool.and_eq_true] at ok
      simp only [bindsS] at sb
      obtain ⟨hb1, hb2⟩ := xsB_spec b L env h ok.1.2 (subB_left sb)
      obtain ⟨ho1, ho2⟩ := xsB_spec o _ env hb2 ok.2 (subB_right sb)
      exact ⟨by simp only [xsS, specS, xt_spec h t ok.1.1, hb1, ho1], ho2⟩
  | .while_ t b o, L, env, h, ok, sb => by
      simp only [okS, Bool.and_eq_true] at ok
      simp only [bindsS] at sb
      obtain ⟨hb1, hb2⟩ := xsB_spec b L env h ok.1.2 (subB_left sb)
      obtain ⟨ho1, ho2⟩ := xsB_spec o _ env hb2 ok.2 (subB_right sb)
      exact ⟨by simp only [xsS, specS, xt_spec h t ok.1.1, hb1, ho1], ho2⟩
  | .for_ t it b o, L, env, h, ok, sb => by
      simp only [okS, Bool.and_eq_true] at ok
      simp only [bindsS] at sb
      obtain ⟨ht1, ht2⟩ := xsTgt_spec t L env h ok.1.1.1 (subB_left sb)
      obtain ⟨hb1, hb2⟩ := xsB_spec b _ env ht2 ok.1.2 (subB_left (subB_right sb))
      obtain ⟨ho1, ho2⟩ := xsB_spec o _ env hb2 ok.2 (subB_right (subB_right sb))
      exact ⟨by simp only [xsS, specS, ht1, xt_spec ht2 it ok.1.1.2, hb1, ho1], ho2⟩
  | .with_ items b, L, env, h, ok, sb => by
      simp only [okS, Bool.and_eq_true] at ok
      simp only [bindsS] at sb
      obtain ⟨hi1, hi2⟩ := xsItems_spec items L env h ok.1 (subB_left sb)
      obtain ⟨hb1, hb2⟩ := xsB_spec b _ env hi2 ok.2 (subB_right sb)
      exact ⟨by simp only [xsS, specS, hi1, hb1], hb2⟩
  | .try_ b hs o f, L, env, h, ok, sb => by
      simp only [okS, Bool.and_eq_true] at ok
      simp only [bindsS] at sb
      obtain ⟨hb1, hb2⟩ := xsB_spec b L env h ok.1.1.1 (subB_left sb)
      obtain ⟨hh1, hh2⟩ := xsB_spec hs _ env hb2 ok.1.1.2 (subB_left (subB_right sb))
      obtain ⟨ho1, ho2⟩ := xsB_spec o _ env hh2 ok.1.2 (subB_left (subB_right (subB_right sb)))
      obtain ⟨hf1, hf2⟩ := xsB_spec f _ env ho2 ok.2 (subB_right (subB_right (subB_right sb)))
      exact ⟨by simp only [xsS, specS, hb1, hh1, ho1, hf1], hf2⟩
  | .handler t n b, L, env, h, ok, sb => by
      simp only [okS, Bool.and_eq_true] at ok
      simp only [bindsS] at sb
      obtain ⟨hb1, hb2⟩ := xsB_spec b L env h ok.2 (subB_right sb)
      exact ⟨by simp only [xsS, specS, xtO_spec h t ok.1.2, hb1], hb2⟩
  | .functionDef name po ar va ko ka body decos ret tp, L, env, h, ok, sb => by
      simp only [okS, Bool.and_eq_true] at ok
      obtain ⟨⟨⟨⟨⟨⟨⟨k1, k2⟩, k3⟩, k4⟩, k5⟩, k6⟩, k7⟩, k8⟩ := ok
      simp only [bindsS] at sb
      have h1 : Rel (addTop L [name]) env := rel_addTop h [name] sb
      have hbn := bnB_eq body _ k8
      have hc := rel_child_fun h1 (paramNames po ar va ko ka ++ bindsB body)
      obtain ⟨hb1, _⟩ := xsB_spec body _ _ hc k8 (subB_refl _ _ _ _)
      refine ⟨?_, h1⟩
      simp only [xsS, specS, hbn, xtL_spec h1 po k1, xtL_spec h1 ar k2, xtO_spec h1 va k3, xtL_spec h1 ko k4,
        xtO_spec h1 ka k5, xtL_spec h1 decos k6, xtO_spec h1 ret k7, hb1]
  | .classDef name bases kws body decos tp, L, env, h, ok, sb => by
      simp only [okS, Bool.and_eq_true] at ok
      obtain ⟨⟨⟨k1, k2⟩, k3⟩, k4⟩ := ok
      simp only [bindsS] at sb
      have h1 : Rel (addTop L [name]) env := rel_addTop h [name] sb
      have hc := rel_child_cls h1 (bindsB body)
      obtain ⟨hb1, _⟩ := xsB_spec body _ _ hc k4 (subB_refl _ [] _ _)
      refine ⟨?_, h1⟩
      simp only [xsS, specS, xtL_spec h1 bases k1, xtL_spec h1 kws k2, xtL_spec h1 decos k3, hb1]
  | .unsupported _, _, _, h, _, _ => ⟨rfl, h⟩
theorem xsB_spec : ∀ (ss : List PyStmt) (L : List Scope) (env : SEnv), Rel L env → okB env ss = true →
    SubB env (bindsB ss) → (xsB L ss).1 = specB env ss ∧ Rel (xsB L ss).2 env
  | [], _, _, h, _, _ => ⟨rfl, h⟩
  | s :: ss, L, env, h, ok, sb => by
      simp only [okB, Bool.and_eq_true] at ok
      simp only [bindsB] at sb
      obtain ⟨h1, h2⟩ := xsS_spec s L env h ok.1 (subB_left sb)
      obtain ⟨h3, h4⟩ := xsB_spec ss _ env h2 ok.2 (subB_right sb)
      exact ⟨by simp only [xsB, specB, h1, h3], h4⟩
end

/-- **genshi's rewriting is Python's scoping rule** (lemma form; see `Props/C13.lean`) -/
theorem xformS_spec (body : List PyStmt) (ok : okModule body = true) : xformS body = specModule body :=
  (xsB_spec body _ moduleEnv rel_module ok (fun hm => absurd rfl hm)).1

end Genshi.Py

/-
  C19 — the pair of message ids `ChooseDirective.__call__` hands to `ngettext` is the pair
  `ChooseDirective.extract` reports, for a choose element whose content outside the two
  branches is white space (else: finding C19-choose-outer-text).

  `extract` files the outer events and the branch content into one buffer per form;
  `__call__` gives every branch a buffer of its own.  The two agree up to a white-space prefix
  and suffix of the message string, which `format()` strips.
-/
import Genshi.Lemmas.I18nChoose
import Genshi.Lemmas.I18nMsgLookup
namespace Genshi.I18n
open Genshi

/-! ### buffers that differ by a prefix of the message string -/

/-- what decides how a further `append` extends the message string and whether it raises -/
def MB.ctl (b : MB) : List Str × Int × Nat × List Nat := (b.params, b.depth, b.order, b.stack)

theorem add_ctl (b : MB) (k : Nat) (e : MEv) : (b.add k e).ctl = b.ctl := by
  unfold MB.add MB.ctl; split <;> rfl

/-- `b'` is `b` with `p` in front of the message string (events, values, … may differ) -/
def PrefRel (p : Str) (b b' : MB) : Prop := b'.ctl = b.ctl ∧ b'.str = p ++ b.str

def PrefRes (p : Str) : Except Err MB → Except Err MB → Prop
  | .ok c, .ok c' => PrefRel p c c'
  | .error x, .error y => x = y
  | _, _ => False

theorem PrefRel.add (p : Str) (b b' : MB) (k k' : Nat) (e e' : MEv) (h : PrefRel p b b') :
    PrefRel p (b.add k e) (b'.add k' e') := by
  unfold PrefRel at *
  rw [add_ctl, add_ctl, add_str, add_str]; exact h

mutual
  theorem mbAppend_pref (p : Str) : ∀ (e : TEvent) (b b' : MB), PrefRel p b b' →
      PrefRes p (mbAppend b e) (mbAppend b' e)
    | .sub dirs body, b, b', h => by
        simp only [mbAppend, bind, Except.bind]
        have h1 : PrefRel p (({ b with subdirs := extendAssoc b.subdirs b.order dirs }).add b.order .subStart)
            (({ b' with subdirs := extendAssoc b'.subdirs b'.order dirs }).add b'.order .subStart) := by
          apply PrefRel.add
          exact h
        have ih := mbAppendList_pref p body _ _ h1
        revert ih
        cases mbAppendList (({ b with subdirs := extendAssoc b.subdirs b.order dirs }).add b.order .subStart) body <;>
          cases mbAppendList (({ b' with subdirs := extendAssoc b'.subdirs b'.order dirs }).add b'.order .subStart) body <;>
          simp only [PrefRes, pure, Except.pure] <;> intro ih
        · exact ih
        · exact ih.elim
        · exact ih.elim
        · exact PrefRel.add p _ _ _ _ _ _ ih
    | .text s, b, b', h => by
        obtain ⟨hc, hs⟩ := h
        simp only [MB.ctl, Prod.mk.injEq] at hc
        obtain ⟨hp, hd, ho, hst⟩ := hc
        simp only [mbAppend, hst]
        cases b.stack with
        | nil => simp [PrefRes]
        | cons top rest =>
          simp only [PrefRes, pure, Except.pure]
          apply PrefRel.add
          exact ⟨by simp [MB.ctl, hp, hd, ho, hst], by simp [hs, List.append_assoc]⟩
    | .expr i m, b, b', h => by
        obtain ⟨hc, hs⟩ := h
        simp only [MB.ctl, Prod.mk.injEq] at hc
        obtain ⟨hp, hd, ho, hst⟩ := hc
        simp only [mbAppend, hst, hp]
        cases b.params with
        | nil => simp [PrefRes]
        | cons q qs =>
          cases b.stack with
          | nil => simp [PrefRes]
          | cons top rest =>
            simp only [PrefRes, pure, Except.pure]
            apply PrefRel.add
            exact ⟨by simp [MB.ctl, hd, ho, hst], by simp [hs, List.append_assoc]⟩
    | .start t a, b, b', h => by
        obtain ⟨hc, hs⟩ := h
        simp only [MB.ctl, Prod.mk.injEq] at hc
        obtain ⟨hp, hd, ho, hst⟩ := hc
        simp only [mbAppend, PrefRes, pure, Except.pure]
        apply PrefRel.add
        exact ⟨by simp [MB.ctl, hp, hd, ho, hst], by simp [hs, ho, List.append_assoc]⟩
    | .end_ t, b, b', h => by
        obtain ⟨hc, hs⟩ := h
        simp only [MB.ctl, Prod.mk.injEq] at hc
        obtain ⟨hp, hd, ho, hst⟩ := hc
        simp only [mbAppend, hd, hst]
        split
        · simp only [PrefRes, pure, Except.pure]
          exact ⟨by simp [MB.ctl, hp, ho, hst], by simp [hs]⟩
        · cases b.stack with
          | nil => simp [PrefRes]
          | cons top rest =>
            simp only [PrefRes, pure, Except.pure]
            apply PrefRel.add
            exact ⟨by simp [MB.ctl, hp, hd, ho], by simp [hs, List.append_assoc]⟩
    | .exec _, b, b', h => by simpa [mbAppend, PrefRes, pure, Except.pure] using h
    | .other _, b, b', h => by simpa [mbAppend, PrefRes, pure, Except.pure] using h
  theorem mbAppendList_pref (p : Str) : ∀ (es : List TEvent) (b b' : MB), PrefRel p b b' →
      PrefRes p (mbAppendList b es) (mbAppendList b' es)
    | [], b, b', h => by simpa [mbAppendList, PrefRes, pure, Except.pure] using h
    | e :: es, b, b', h => by
        have h1 := mbAppend_pref p e b b' h
        simp only [mbAppendList, bind, Except.bind]
        revert h1
        cases mbAppend b e <;> cases mbAppend b' e <;> simp only [PrefRes] <;> intro h1
        · exact h1
        · exact h1.elim
        · exact h1.elim
        · exact mbAppendList_pref p es _ _ h1
end

/-! ### events outside the branches -/

/-- white-space text, comments / processing instructions, code blocks -/
def outerEv : TEvent → Bool
  | .text s => s.all isSpace
  | .other _ => true
  | .exec _ => true
  | _ => false

theorem isSpace_not_bracket (c : Char) (h : isSpace c = true) : c ≠ '[' ∧ c ≠ ']' := by
  constructor
  · intro hc; subst hc; exact absurd h (by decide)
  · intro hc; subst hc; exact absurd h (by decide)

theorem escBrackets_space (s : Str) (h : s.all isSpace = true) : escBrackets s = s := by
  simp only [List.all_eq_true] at h
  unfold escBrackets
  rw [replace_no_occ '[' [] _ s (fun c hc => (isSpace_not_bracket c (h c hc)).1),
      replace_no_occ ']' [] _ s (fun c hc => (isSpace_not_bracket c (h c hc)).2)]

theorem mbAppend_outer (b c : MB) (e : TEvent) (he : outerEv e = true) (h : mbAppend b e = .ok c) :
    c.ctl = b.ctl ∧ ∃ w : Str, w.all isSpace = true ∧ c.str = b.str ++ w := by
  cases e with
  | text s =>
    simp only [outerEv] at he
    simp only [mbAppend] at h
    cases hst : b.stack with
    | nil => simp [hst] at h
    | cons top rest =>
      simp only [hst, pure, Except.pure, Except.ok.injEq] at h
      subst h
      rw [add_ctl, add_str]
      exact ⟨by simp [MB.ctl, hst], s, he, by simp [escBrackets_space s he]⟩
  | other l =>
    simp only [mbAppend, pure, Except.pure, Except.ok.injEq] at h; subst h
    exact ⟨rfl, [], rfl, by simp⟩
  | exec l =>
    simp only [mbAppend, pure, Except.pure, Except.ok.injEq] at h; subst h
    exact ⟨rfl, [], rfl, by simp⟩
  | start _ _ => simp [outerEv] at he
  | end_ _ => simp [outerEv] at he
  | expr _ _ => simp [outerEv] at he
  | sub _ _ => simp [outerEv] at he

theorem mbAppendList_outer : ∀ (evs : List TEvent) (b c : MB), (∀ e ∈ evs, outerEv e = true) →
    mbAppendList b evs = .ok c → c.ctl = b.ctl ∧ ∃ w : Str, w.all isSpace = true ∧ c.str = b.str ++ w
  | [], b, c, _, h => by
      simp only [mbAppendList, pure, Except.pure, Except.ok.injEq] at h; subst h
      exact ⟨rfl, [], rfl, by simp⟩
  | e :: es, b, c, ho, h => by
      simp only [mbAppendList, bind, Except.bind] at h
      cases h1 : mbAppend b e with
      | error err => simp [h1] at h
      | ok b1 =>
        simp only [h1] at h
        obtain ⟨hc1, w1, hw1, hs1⟩ := mbAppend_outer b b1 e (ho e (by simp)) h1
        obtain ⟨hc2, w2, hw2, hs2⟩ := mbAppendList_outer es b1 c (fun x hx => ho x (by simp [hx])) h
        exact ⟨hc2.trans hc1, w1 ++ w2, by simp [hw1, hw2], by simp [hs2, hs1, List.append_assoc]⟩

/-! ### `strip` and white space at the edges -/

theorem strip_pad (w1 s w2 : Str) (h1 : w1.all isSpace = true) (h2 : w2.all isSpace = true) :
    strip (w1 ++ (s ++ w2)) = strip s := by
  unfold strip Str.stripBy
  rw [lstripBy_append, if_pos h1]
  by_cases hs : s.all isSpace = true
  · rw [lstripBy_append, if_pos hs, lstripBy_all _ _ h2, lstripBy_all _ _ hs]
  · rw [lstripBy_append, if_neg hs, rstripBy_append, if_pos h2]

/-! ### the extraction loop of `ChooseDirective.extract` -/

theorem chooseLoop_append_ok (cfg : Cfg) (st : Bool) : ∀ (x y : List TEvent) (sb pb : MB) (r : List Message × MB × MB),
    chooseLoop cfg st sb pb (x ++ y) = .ok r →
    ∃ m1 sb1 pb1 m2, chooseLoop cfg st sb pb x = .ok (m1, sb1, pb1) ∧
      chooseLoop cfg st sb1 pb1 y = .ok (m2, r.2) ∧ r.1 = m1 ++ m2
  | [], y, sb, pb, r, h => by
      refine ⟨[], sb, pb, r.1, by simp [chooseLoop, pure, Except.pure], ?_, by simp⟩
      simpa using h
  | e :: x, y, sb, pb, r, h => by
      simp only [List.cons_append, chooseLoop, bind, Except.bind] at h ⊢
      cases h1 : chooseStep cfg st sb pb e with
      | error err => simp [h1] at h
      | ok r1 =>
        obtain ⟨ms1, sb', pb'⟩ := r1
        simp only [h1] at h ⊢
        cases h2 : chooseLoop cfg st sb' pb' (x ++ y) with
        | error err => simp [h2] at h
        | ok r2 =>
          simp only [h2, pure, Except.pure, Except.ok.injEq] at h
          obtain ⟨m1, sb1, pb1, m2, hx, hy, hm⟩ := chooseLoop_append_ok cfg st x y sb' pb' r2 h2
          refine ⟨ms1 ++ m1, sb1, pb1, m2, by simp [hx, pure, Except.pure], ?_, ?_⟩
          · rw [← h]; exact hy
          · rw [← h]; simp [hm, List.append_assoc]

theorem startAttrs_outer (cfg : Cfg) (st : Bool) (e : TEvent) (h : outerEv e = true) : evMessages cfg st e = [] := by
  cases e <;> simp_all [outerEv, evMessages]

theorem chooseStep_outer (cfg : Cfg) (st : Bool) (sb pb : MB) (e : TEvent) (he : outerEv e = true)
    (r : List Message × MB × MB) (h : chooseStep cfg st sb pb e = .ok r) :
    r.1 = [] ∧ mbAppend sb e = .ok r.2.1 ∧ mbAppend pb e = .ok r.2.2 := by
  have hns : ∀ d b, e ≠ .sub d b := by intro d b hh; subst hh; simp [outerEv] at he
  have hstep : chooseStep cfg st sb pb e = (do
      let sb' ← mbAppend sb e
      let pb' ← mbAppend pb e
      pure (evMessages cfg st e, sb', pb')) := by
    cases e with
    | sub d b => exact absurd rfl (hns d b)
    | _ => rfl
  rw [hstep] at h
  simp only [bind, Except.bind] at h
  cases h1 : mbAppend sb e with
  | error err => simp [h1] at h
  | ok sb' =>
    cases h2 : mbAppend pb e with
    | error err => simp [h1, h2] at h
    | ok pb' =>
      simp only [h1, h2, pure, Except.pure, Except.ok.injEq] at h
      subst h
      exact ⟨startAttrs_outer cfg st e he, rfl, rfl⟩

theorem chooseLoop_outer (cfg : Cfg) (st : Bool) : ∀ (evs : List TEvent) (sb pb : MB) (r : List Message × MB × MB),
    (∀ e ∈ evs, outerEv e = true) → chooseLoop cfg st sb pb evs = .ok r →
    r.1 = [] ∧ mbAppendList sb evs = .ok r.2.1 ∧ mbAppendList pb evs = .ok r.2.2
  | [], sb, pb, r, _, h => by
      simp only [chooseLoop, pure, Except.pure, Except.ok.injEq] at h; subst h
      simp [mbAppendList, pure, Except.pure]
  | e :: es, sb, pb, r, ho, h => by
      simp only [chooseLoop, bind, Except.bind] at h
      cases h1 : chooseStep cfg st sb pb e with
      | error err => simp [h1] at h
      | ok r1 =>
        obtain ⟨ms1, sb', pb'⟩ := r1
        simp only [h1] at h
        cases h2 : chooseLoop cfg st sb' pb' es with
        | error err => simp [h2] at h
        | ok r2 =>
          simp only [h2, pure, Except.pure, Except.ok.injEq] at h
          obtain ⟨hm1, hs1, hp1⟩ := chooseStep_outer cfg st sb pb e (ho e (by simp)) _ h1
          obtain ⟨hm2, hs2, hp2⟩ := chooseLoop_outer cfg st es sb' pb' r2 (fun x hx => ho x (by simp [hx])) h2
          subst h
          simp only at hm1 hs1 hp1
          simp only [mbAppendList, bind, Except.bind, hs1, hp1]
          exact ⟨by simp [hm1, hm2], hs2, hp2⟩

/-- the branch `<t i18n:singular="">content</t>` / `<t i18n:plural="">content</t>` in
    `ChooseBranchDirective.extract`: the content goes into the given buffer -/
theorem branchExtract_elem (cfg : Cfg) (st : Bool) (b : MB) (t t' : QName) (a : TAttrs) (c : List TEvent)
    (r : List Message × MB) (h : branchExtract cfg st b (.start t a :: (c ++ [.end_ t'])) = .ok r) :
    mbAppendList b c = .ok r.2 := by
  simp only [branchExtract, TEvent.isStart, ↓reduceIte, List.getLast?_append,
    List.getLast?_singleton, Option.some_or, List.dropLast_concat, TEvent.isEnd, bind, Except.bind] at h
  have hb := appendAll_buffer cfg st c b
  cases ha : appendAll cfg st b c with
  | error err => simp [ha] at h
  | ok q =>
    simp only [ha, pure, Except.pure, Except.ok.injEq] at h
    rw [ha] at hb
    simp only [Except.map] at hb
    rw [← hb, ← h]

theorem chooseStep_singular (cfg : Cfg) (st : Bool) (sb pb : MB) (t t' : QName) (a : TAttrs) (c : List TEvent)
    (r : List Message × MB × MB)
    (h : chooseStep cfg st sb pb (.sub [.singular] (.start t a :: (c ++ [.end_ t']))) = .ok r) :
    mbAppendList sb c = .ok r.2.1 ∧ r.2.2 = pb := by
  simp only [chooseStep, chooseStep.loop, bind, Except.bind] at h
  cases h1 : branchExtract cfg st sb (.start t a :: (c ++ [.end_ t'])) with
  | error err => simp [h1] at h
  | ok q =>
    simp only [h1, pure, Except.pure, Except.ok.injEq] at h
    subst h
    exact ⟨branchExtract_elem cfg st sb t t' a c q h1, rfl⟩

theorem chooseStep_plural (cfg : Cfg) (st : Bool) (sb pb : MB) (t t' : QName) (a : TAttrs) (c : List TEvent)
    (r : List Message × MB × MB)
    (h : chooseStep cfg st sb pb (.sub [.plural] (.start t a :: (c ++ [.end_ t']))) = .ok r) :
    mbAppendList pb c = .ok r.2.2 ∧ r.2.1 = sb := by
  simp only [chooseStep, chooseStep.loop, bind, Except.bind] at h
  cases h1 : branchExtract cfg st pb (.start t a :: (c ++ [.end_ t'])) with
  | error err => simp [h1] at h
  | ok q =>
    simp only [h1, pure, Except.pure, Except.ok.injEq] at h
    subst h
    exact ⟨branchExtract_elem cfg st pb t t' a c q h1, rfl⟩

theorem chooseLoop_cons_ok (cfg : Cfg) (st : Bool) (e : TEvent) (y : List TEvent) (sb pb : MB) (r : List Message × MB × MB)
    (h : chooseLoop cfg st sb pb (e :: y) = .ok r) :
    ∃ r1 m2, chooseStep cfg st sb pb e = .ok r1 ∧ chooseLoop cfg st r1.2.1 r1.2.2 y = .ok (m2, r.2) := by
  simp only [chooseLoop, bind, Except.bind] at h
  cases h1 : chooseStep cfg st sb pb e with
  | error err => simp [h1] at h
  | ok r1 =>
    obtain ⟨ms1, sb', pb'⟩ := r1
    simp only [h1] at h
    cases h2 : chooseLoop cfg st sb' pb' y with
    | error err => simp [h2] at h
    | ok r2 =>
      simp only [h2, pure, Except.pure, Except.ok.injEq] at h
      refine ⟨_, r2.1, rfl, ?_⟩
      rw [← h]
      exact h2

theorem ngettext_contextify (s p : Str) (cs xs : List Str) (m : Message)
    (h : contextify (some ngettextName) (.many [some s, some p]) cs xs = some m) :
    s ∈ msgIds m ∧ p ∈ msgIds m := by
  cases xs with
  | nil =>
    simp only [contextify, Option.some.injEq] at h; subst h
    simp [msgIds]
  | cons c rest =>
    simp only [contextify] at h
    cases hg : contextedGet (some ngettextName) with
    | none => simp [hg] at h
    | some f =>
      simp only [hg, Option.some.injEq] at h; subst h
      simp [msgIds]

/-- what `ChooseDirective.extract` files for
    `<t i18n:choose> pre <ts i18n:singular>cS</ts> mid <tp i18n:plural>cP</tp> post </t>`:
    relative to buffers holding only the branch contents, the two extracted ids -/
theorem chooseExtract_ids (cfg : Cfg) (params : List Str) (st : Bool) (cs xs : List Str)
    (t t' ts ts' tp tp' : QName) (a as ap : TAttrs) (pre mid post cS cP : List TEvent)
    (hpre : ∀ e ∈ pre, outerEv e = true) (hmid : ∀ e ∈ mid, outerEv e = true) (hpost : ∀ e ∈ post, outerEv e = true)
    (ms : List Message)
    (hex : chooseExtract cfg params st cs xs
      (.start t a :: ((pre ++ .sub [.singular] (.start ts as :: (cS ++ [.end_ ts'])) ::
        (mid ++ .sub [.plural] (.start tp ap :: (cP ++ [.end_ tp'])) :: post)) ++ [.end_ t'])) = .ok ms) :
    ∃ C D, mbAppendList (MB.new params) cS = .ok C ∧ mbAppendList (MB.new params) cP = .ok D ∧
      C.format ∈ idsOf ms ∧ D.format ∈ idsOf ms := by
  have hne : ∀ (l : List TEvent), l ++ [TEvent.end_ t'] ≠ [] := by intro l; simp
  simp only [chooseExtract, TEvent.isStart, ↓reduceIte] at hex
  cases hrest : (pre ++ TEvent.sub [.singular] (.start ts as :: (cS ++ [.end_ ts'])) ::
        (mid ++ TEvent.sub [.plural] (.start tp ap :: (cP ++ [.end_ tp'])) :: post)) ++ [TEvent.end_ t'] with
  | nil => exact absurd hrest (hne _)
  | cons x y =>
    rw [hrest] at hex
    simp only at hex
    rw [← hrest, List.dropLast_concat] at hex
    simp only [bind, Except.bind] at hex
    cases hloop : chooseLoop cfg st (MB.new params) (MB.new params)
        (pre ++ TEvent.sub [.singular] (.start ts as :: (cS ++ [.end_ ts'])) ::
          (mid ++ TEvent.sub [.plural] (.start tp ap :: (cP ++ [.end_ tp'])) :: post)) with
    | error err => simp [hloop] at hex
    | ok r =>
      obtain ⟨msL, sbE, pbE⟩ := r
      simp only [hloop] at hex
      -- the loop, piece by piece
      obtain ⟨m1, sb1, pb1, m2, hl1, hl2, _⟩ := chooseLoop_append_ok cfg st pre _ _ _ _ hloop
      obtain ⟨_, hsb1, hpb1⟩ := chooseLoop_outer cfg st pre _ _ _ hpre hl1
      obtain ⟨r2, m3, hstepS, hl3⟩ := chooseLoop_cons_ok cfg st _ _ _ _ _ hl2
      obtain ⟨hsb2, hpb2⟩ := chooseStep_singular cfg st sb1 pb1 ts ts' as cS r2 hstepS
      obtain ⟨m4, sb3, pb3, m5, hl4, hl5, _⟩ := chooseLoop_append_ok cfg st mid _ _ _ _ hl3
      obtain ⟨_, hsb3, hpb3⟩ := chooseLoop_outer cfg st mid _ _ _ hmid hl4
      obtain ⟨r4, m6, hstepP, hl6⟩ := chooseLoop_cons_ok cfg st _ _ _ _ _ hl5
      obtain ⟨hpb4, hsb4⟩ := chooseStep_plural cfg st sb3 pb3 tp tp' ap cP r4 hstepP
      obtain ⟨_, hsbE, hpbE⟩ := chooseLoop_outer cfg st post _ _ _ hpost hl6
      simp only at hsb1 hpb1 hsb2 hpb2 hsb3 hpb3 hpb4 hsb4 hsbE hpbE
      -- strings
      obtain ⟨hc1, w1, hw1, hs1⟩ := mbAppendList_outer pre _ _ hpre hsb1
      obtain ⟨hd1, v1, hv1, ht1⟩ := mbAppendList_outer pre _ _ hpre hpb1
      have hrelS : PrefRel w1 (MB.new params) sb1 := ⟨hc1, by simp [hs1, MB.new]⟩
      have hprefS := mbAppendList_pref w1 cS _ _ hrelS
      rw [hsb2] at hprefS
      cases hC : mbAppendList (MB.new params) cS with
      | error err => rw [hC] at hprefS; exact hprefS.elim
      | ok C =>
        rw [hC] at hprefS
        obtain ⟨hc2, hs2⟩ := hprefS
        obtain ⟨hc3, w3, hw3, hs3⟩ := mbAppendList_outer mid _ _ hmid hsb3
        rw [hsb4] at hsbE
        obtain ⟨hc4, w4, hw4, hs4⟩ := mbAppendList_outer post _ _ hpost hsbE
        have hfmtS : sbE.format = C.format := by
          simp only [MB.format, hs4, hs3, hs2]
          rw [show w1 ++ C.str ++ w3 ++ w4 = w1 ++ (C.str ++ (w3 ++ w4)) by simp [List.append_assoc]]
          exact strip_pad w1 C.str (w3 ++ w4) hw1 (by simp [hw3, hw4])
        rw [hpb2] at hpb3
        obtain ⟨hd3, v3, hv3, ht3⟩ := mbAppendList_outer mid _ _ hmid hpb3
        have hrelP : PrefRel (v1 ++ v3) (MB.new params) pb3 :=
          ⟨hd3.trans hd1, by simp [ht3, ht1, MB.new]⟩
        have hprefP := mbAppendList_pref (v1 ++ v3) cP _ _ hrelP
        rw [hpb4] at hprefP
        cases hD : mbAppendList (MB.new params) cP with
        | error err => rw [hD] at hprefP; exact hprefP.elim
        | ok D =>
          rw [hD] at hprefP
          obtain ⟨hd4, ht4⟩ := hprefP
          obtain ⟨hd5, v5, hv5, ht5⟩ := mbAppendList_outer post _ _ hpost hpbE
          have hfmtP : pbE.format = D.format := by
            simp only [MB.format, ht5, ht4]
            rw [show v1 ++ v3 ++ D.str ++ v5 = (v1 ++ v3) ++ (D.str ++ v5) by simp [List.append_assoc]]
            exact strip_pad (v1 ++ v3) D.str v5 (by simp [hv1, hv3]) hv5
          refine ⟨C, D, rfl, rfl, ?_⟩
          cases hctx : contextify (some ngettextName) (.many [some sbE.format, some pbE.format]) (lastSlice cs) (lastSlice xs) with
          | none => simp [hctx] at hex
          | some m =>
            simp only [hctx, pure, Except.pure, Except.ok.injEq] at hex
            obtain ⟨hS, hP⟩ := ngettext_contextify _ _ _ _ m hctx
            rw [← hex, idsOf_append]
            simp only [List.mem_append]
            rw [← hfmtS, ← hfmtP]
            exact ⟨Or.inr (by simp [idsOf, hS]), Or.inr (by simp [idsOf, hP])⟩

theorem outer_not_branch (e : TEvent) (h : outerEv e = true) : isBranchSub e = false := by
  cases e <;> simp_all [outerEv, isBranchSub]

theorem new_format (params : List Str) : (MB.new params).format = [] := by
  simp [MB.format, MB.new, strip, Str.stripBy, Str.rstripBy, Str.lstripBy]

/-- the first loop of `ChooseDirective.__call__` over the same element: every branch gets a
    buffer of its own, filled with the branch content -/
theorem choosePass1_elem (params : List Str) (pl : Bool)
    (t t' ts tp : QName) (a as ap : TAttrs) (pre mid post cS cP : List TEvent)
    (hpre : ∀ e ∈ pre, outerEv e = true) (hmid : ∀ e ∈ mid, outerEv e = true) (hpost : ∀ e ∈ post, outerEv e = true)
    (C D : MB) (hC : mbAppendList (MB.new params) cS = .ok C) (hD : mbAppendList (MB.new params) cP = .ok D) :
    ∃ ns evS evP, choosePass1 params pl
      (.start t a :: ((pre ++ .sub [.singular] (.start ts as :: (cS ++ [.end_ ts])) ::
        (mid ++ .sub [.plural] (.start tp ap :: (cP ++ [.end_ tp])) :: post)) ++ [.end_ t'])) ⟨[], none, none⟩ =
      some (.ok ⟨ns, some (evS, C), if pl then some (evP, D) else none⟩) := by
  obtain ⟨evS, hcallS, _⟩ := branchCall_elem params ts as cS C hC
  obtain ⟨evP, hcallP, _⟩ := branchCall_elem params tp ap cP D hD
  have hb : ∀ (l : List TEvent), (∀ e ∈ l, outerEv e = true) → ∀ e ∈ l, isBranchSub e = false :=
    fun l h e he => outer_not_branch e (h e he)
  have hstart : ∀ e ∈ [TEvent.start t a], isBranchSub e = false := by simp [isBranchSub]
  have hend : ∀ e ∈ post ++ [TEvent.end_ t'], isBranchSub e = false := by
    intro e he
    simp only [List.mem_append, List.mem_singleton] at he
    rcases he with he | rfl
    · exact hb post hpost e he
    · rfl
  have hshape : (TEvent.start t a :: ((pre ++ TEvent.sub [.singular] (.start ts as :: (cS ++ [.end_ ts])) ::
        (mid ++ TEvent.sub [.plural] (.start tp ap :: (cP ++ [.end_ tp])) :: post)) ++ [TEvent.end_ t'])) =
      [TEvent.start t a] ++ (pre ++ (TEvent.sub [.singular] (.start ts as :: (cS ++ [.end_ ts])) ::
        (mid ++ (TEvent.sub [.plural] (.start tp ap :: (cP ++ [.end_ tp])) :: ((post ++ [TEvent.end_ t']) ++ []))))) := by
    simp [List.append_assoc]
  rw [hshape, choosePass1_plain params pl _ _ _ hstart, choosePass1_plain params pl pre _ _ (hb pre hpre)]
  simp only [choosePass1, List.any_cons, Dir.isBranch, List.any_nil, Bool.or_false, ↓reduceIte, hcallS]
  rw [choosePass1_plain params pl mid _ _ (hb mid hmid)]
  cases pl with
  | false =>
    simp only [choosePass1, List.any_cons, Dir.isBranch, List.any_nil, Bool.or_false, ↓reduceIte, Bool.false_eq_true]
    rw [choosePass1_plain params false _ [] _ hend]
    exact ⟨_, evS, evP, by simp only [choosePass1, pure, Except.pure]; rfl⟩
  | true =>
    simp only [choosePass1, List.any_cons, Dir.isBranch, List.any_nil, Bool.or_false, ↓reduceIte, hcallP]
    rw [choosePass1_plain params true _ [] _ hend]
    exact ⟨_, evS, evP, by simp only [choosePass1, pure, Except.pure]; rfl⟩

/-- **the ids `ChooseDirective.__call__` looks up are the ids `ChooseDirective.extract`
    reports.**  For `<t i18n:choose="…"> pre <ts i18n:singular="">cS</ts> mid
    <tp i18n:plural="">cP</tp> post </t>` whose `pre`, `mid`, `post` are white space, comments
    or code blocks (other text there: finding C19-choose-outer-text) and arbitrary branch
    contents — nested directives included —: if extraction returns `ms`, then `ms` holds two
    ids `idS`, `idP` such that rendering consults the catalogue at `ngettext(idS, idP, n)` only
    (`idP` is replaced by the empty string when the singular form is selected: the plural
    branch is not even looked at then).  Whatever the catalogue answers elsewhere does not
    change the output. -/
theorem chooseCall_lookup_extracted (cfg : Cfg) (params : List Str) (st : Bool) (cs xs : List Str) (pl : Bool)
    (t t' ts tp : QName) (a as ap : TAttrs) (pre mid post cS cP : List TEvent)
    (hpre : ∀ e ∈ pre, outerEv e = true) (hmid : ∀ e ∈ mid, outerEv e = true) (hpost : ∀ e ∈ post, outerEv e = true)
    (ms : List Message)
    (hex : chooseExtract cfg params st cs xs
      (.start t a :: ((pre ++ .sub [.singular] (.start ts as :: (cS ++ [.end_ ts])) ::
        (mid ++ .sub [.plural] (.start tp ap :: (cP ++ [.end_ tp])) :: post)) ++ [.end_ t'])) = .ok ms) :
    ∃ idS idP, idS ∈ idsOf ms ∧ idP ∈ idsOf ms ∧
      ∀ (ngt ngt' : Str → Str → Str),
        ngt idS (if pl then idP else []) = ngt' idS (if pl then idP else []) →
        chooseCall params pl ngt
          (.start t a :: ((pre ++ .sub [.singular] (.start ts as :: (cS ++ [.end_ ts])) ::
            (mid ++ .sub [.plural] (.start tp ap :: (cP ++ [.end_ tp])) :: post)) ++ [.end_ t'])) =
        chooseCall params pl ngt'
          (.start t a :: ((pre ++ .sub [.singular] (.start ts as :: (cS ++ [.end_ ts])) ::
            (mid ++ .sub [.plural] (.start tp ap :: (cP ++ [.end_ tp])) :: post)) ++ [.end_ t'])) := by
  obtain ⟨C, D, hC, hD, hidS, hidP⟩ := chooseExtract_ids cfg params st cs xs t t' ts ts tp tp a as ap
    pre mid post cS cP hpre hmid hpost ms hex
  refine ⟨C.format, D.format, hidS, hidP, ?_⟩
  intro ngt ngt' heq
  obtain ⟨ns, evS, evP, hpass⟩ := choosePass1_elem params pl t t' ts tp a as ap pre mid post cS cP hpre hmid hpost C D hC hD
  unfold chooseCall
  rw [hpass]
  cases pl with
  | false =>
    simp only [Bool.false_eq_true, ↓reduceIte, new_format] at heq ⊢
    rw [heq]
  | true =>
    simp only [↓reduceIte] at heq ⊢
    rw [heq]

/-! ### extraction succeeds when the branch buffers can be built -/

theorem ctl_stack {b c : MB} (h : c.ctl = b.ctl) : c.stack = b.stack := by
  simp only [MB.ctl, Prod.mk.injEq] at h; exact h.2.2.2

theorem mbAppend_outer_ok (b : MB) (e : TEvent) (he : outerEv e = true) (hs : b.stack ≠ []) :
    ∃ c, mbAppend b e = .ok c := by
  cases e with
  | text s =>
    cases hst : b.stack with
    | nil => exact absurd hst hs
    | cons top rest =>
      refine ⟨({ b with str := b.str ++ escBrackets s }).add top (.ev (.text (escBrackets s))), ?_⟩
      simp only [mbAppend, hst, pure, Except.pure]
  | other l => exact ⟨b, rfl⟩
  | exec l => exact ⟨b, rfl⟩
  | start _ _ => simp [outerEv] at he
  | end_ _ => simp [outerEv] at he
  | expr _ _ => simp [outerEv] at he
  | sub _ _ => simp [outerEv] at he

theorem mbAppendList_outer_ok : ∀ (evs : List TEvent) (b : MB), (∀ e ∈ evs, outerEv e = true) → b.stack ≠ [] →
    ∃ c, mbAppendList b evs = .ok c
  | [], b, _, _ => ⟨b, rfl⟩
  | e :: es, b, ho, hs => by
      obtain ⟨b1, h1⟩ := mbAppend_outer_ok b e (ho e (by simp)) hs
      obtain ⟨hc1, _⟩ := mbAppend_outer b b1 e (ho e (by simp)) h1
      obtain ⟨c, hc⟩ := mbAppendList_outer_ok es b1 (fun x hx => ho x (by simp [hx])) (by rw [ctl_stack hc1]; exact hs)
      exact ⟨c, by simp [mbAppendList, bind, Except.bind, h1, hc]⟩

theorem chooseLoop_outer_fwd (cfg : Cfg) (st : Bool) : ∀ (evs : List TEvent) (sb pb sb' pb' : MB),
    (∀ e ∈ evs, outerEv e = true) → mbAppendList sb evs = .ok sb' → mbAppendList pb evs = .ok pb' →
    chooseLoop cfg st sb pb evs = .ok ([], sb', pb')
  | [], sb, pb, sb', pb', _, h1, h2 => by
      simp only [mbAppendList, pure, Except.pure, Except.ok.injEq] at h1 h2
      subst h1; subst h2; rfl
  | e :: es, sb, pb, sb', pb', ho, h1, h2 => by
      simp only [mbAppendList, bind, Except.bind] at h1 h2
      cases hs : mbAppend sb e with
      | error err => simp [hs] at h1
      | ok sb1 =>
        cases hp : mbAppend pb e with
        | error err => simp [hp] at h2
        | ok pb1 =>
          simp only [hs] at h1
          simp only [hp] at h2
          have he := ho e (by simp)
          have hstep : chooseStep cfg st sb pb e = .ok ([], sb1, pb1) := by
            have hns : ∀ d b, e ≠ .sub d b := by intro d b hh; subst hh; simp [outerEv] at he
            have : chooseStep cfg st sb pb e = (do
                let sb' ← mbAppend sb e
                let pb' ← mbAppend pb e
                pure (evMessages cfg st e, sb', pb')) := by
              cases e with
              | sub d b => exact absurd rfl (hns d b)
              | _ => rfl
            rw [this, hs, hp, startAttrs_outer cfg st e he]; rfl
          have ih := chooseLoop_outer_fwd cfg st es sb1 pb1 sb' pb' (fun x hx => ho x (by simp [hx])) h1 h2
          simp [chooseLoop, hstep, ih, bind, Except.bind, pure, Except.pure]

theorem chooseLoop_append_fwd (cfg : Cfg) (st : Bool) : ∀ (x y : List TEvent) (sb pb sb1 pb1 : MB)
    (m1 m2 : List Message) (r : MB × MB),
    chooseLoop cfg st sb pb x = .ok (m1, sb1, pb1) → chooseLoop cfg st sb1 pb1 y = .ok (m2, r) →
    chooseLoop cfg st sb pb (x ++ y) = .ok (m1 ++ m2, r)
  | [], y, sb, pb, sb1, pb1, m1, m2, r, h1, h2 => by
      simp only [chooseLoop, pure, Except.pure, Except.ok.injEq, Prod.mk.injEq] at h1
      obtain ⟨rfl, rfl, rfl⟩ := h1
      simpa using h2
  | e :: x, y, sb, pb, sb1, pb1, m1, m2, r, h1, h2 => by
      simp only [chooseLoop, bind, Except.bind] at h1
      cases hs : chooseStep cfg st sb pb e with
      | error err => simp [hs] at h1
      | ok r1 =>
        obtain ⟨ms1, sb', pb'⟩ := r1
        simp only [hs] at h1
        cases hl : chooseLoop cfg st sb' pb' x with
        | error err => simp [hl] at h1
        | ok r2 =>
          obtain ⟨ms2, sb2, pb2⟩ := r2
          simp only [hl, pure, Except.pure, Except.ok.injEq, Prod.mk.injEq] at h1
          obtain ⟨rfl, rfl, rfl⟩ := h1
          have ih := chooseLoop_append_fwd cfg st x y sb' pb' sb2 pb2 ms2 m2 r hl h2
          simp [chooseLoop, hs, ih, bind, Except.bind, pure, Except.pure, List.append_assoc]

theorem branchExtract_fwd (cfg : Cfg) (st : Bool) (b b' : MB) (t t' : QName) (a : TAttrs) (c : List TEvent)
    (h : mbAppendList b c = .ok b') :
    ∃ ms, branchExtract cfg st b (.start t a :: (c ++ [.end_ t'])) = .ok (ms, b') := by
  have hb := appendAll_buffer cfg st c b
  rw [h] at hb
  cases ha : appendAll cfg st b c with
  | error err => rw [ha] at hb; simp [Except.map] at hb
  | ok q =>
    rw [ha] at hb
    simp only [Except.map, Except.ok.injEq] at hb
    refine ⟨startAttrs cfg st (.start t a) ++ q.1 ++ exprCode (.end_ t'), ?_⟩
    simp only [branchExtract, TEvent.isStart, ↓reduceIte, List.getLast?_append, List.getLast?_singleton,
      Option.some_or, List.dropLast_concat, TEvent.isEnd, bind, Except.bind, ha, pure, Except.pure, hb]

theorem contextedGet_ngettext : (contextedGet (some ngettextName)).isSome = true := by decide +kernel

/-- **`ChooseDirective.extract` succeeds** on
    `<t i18n:choose> pre <ts i18n:singular>cS</ts> mid <tp i18n:plural>cP</tp> post </t>` whenever
    the two branch buffers can be built (as many parameters as expressions) and the branch
    contents leave the buffer's stack non-empty (balanced content does) -/
theorem chooseExtract_ok (cfg : Cfg) (params : List Str) (st : Bool) (cs xs : List Str)
    (t t' ts ts' tp tp' : QName) (a as ap : TAttrs) (pre mid post cS cP : List TEvent)
    (hpre : ∀ e ∈ pre, outerEv e = true) (hmid : ∀ e ∈ mid, outerEv e = true) (hpost : ∀ e ∈ post, outerEv e = true)
    (C D : MB) (hC : mbAppendList (MB.new params) cS = .ok C) (hD : mbAppendList (MB.new params) cP = .ok D)
    (hCs : C.stack ≠ []) (hDs : D.stack ≠ []) :
    ∃ ms, chooseExtract cfg params st cs xs
      (.start t a :: ((pre ++ .sub [.singular] (.start ts as :: (cS ++ [.end_ ts'])) ::
        (mid ++ .sub [.plural] (.start tp ap :: (cP ++ [.end_ tp'])) :: post)) ++ [.end_ t'])) = .ok ms := by
  have hN : (MB.new params).stack ≠ [] := by simp [MB.new]
  -- the singular buffer
  obtain ⟨sb1, hsb1⟩ := mbAppendList_outer_ok pre _ hpre hN
  obtain ⟨hc1, w1, _, hs1⟩ := mbAppendList_outer pre _ _ hpre hsb1
  have hrelS : PrefRel w1 (MB.new params) sb1 := ⟨hc1, by simp [hs1, MB.new]⟩
  have hprefS := mbAppendList_pref w1 cS _ _ hrelS
  rw [hC] at hprefS
  cases hsb2 : mbAppendList sb1 cS with
  | error err => rw [hsb2] at hprefS; exact hprefS.elim
  | ok sb2 =>
    rw [hsb2] at hprefS
    have hst2 : sb2.stack ≠ [] := by rw [ctl_stack hprefS.1]; exact hCs
    obtain ⟨sb3, hsb3⟩ := mbAppendList_outer_ok mid sb2 hmid hst2
    obtain ⟨hc3, _, _, _⟩ := mbAppendList_outer mid _ _ hmid hsb3
    obtain ⟨sbE, hsbE⟩ := mbAppendList_outer_ok post sb3 hpost (by rw [ctl_stack hc3]; exact hst2)
    -- the plural buffer
    obtain ⟨pb1, hpb1⟩ := mbAppendList_outer_ok pre _ hpre hN
    obtain ⟨hd1, v1, _, ht1⟩ := mbAppendList_outer pre _ _ hpre hpb1
    obtain ⟨pb3, hpb3⟩ := mbAppendList_outer_ok mid pb1 hmid (by rw [ctl_stack hd1]; exact hN)
    obtain ⟨hd3, v3, _, ht3⟩ := mbAppendList_outer mid _ _ hmid hpb3
    have hrelP : PrefRel (v1 ++ v3) (MB.new params) pb3 := ⟨hd3.trans hd1, by simp [ht3, ht1, MB.new]⟩
    have hprefP := mbAppendList_pref (v1 ++ v3) cP _ _ hrelP
    rw [hD] at hprefP
    cases hpb4 : mbAppendList pb3 cP with
    | error err => rw [hpb4] at hprefP; exact hprefP.elim
    | ok pb4 =>
      rw [hpb4] at hprefP
      have hst4 : pb4.stack ≠ [] := by rw [ctl_stack hprefP.1]; exact hDs
      obtain ⟨pbE, hpbE⟩ := mbAppendList_outer_ok post pb4 hpost hst4
      -- the loop
      have l1 := chooseLoop_outer_fwd cfg st pre _ _ sb1 pb1 hpre hsb1 hpb1
      obtain ⟨msS, hbrS⟩ := branchExtract_fwd cfg st sb1 sb2 ts ts' as cS hsb2
      have stepS : chooseStep cfg st sb1 pb1 (.sub [.singular] (.start ts as :: (cS ++ [.end_ ts']))) = .ok (msS, sb2, pb1) := by
        simp [chooseStep, chooseStep.loop, hbrS, bind, Except.bind, pure, Except.pure]
      have l3 := chooseLoop_outer_fwd cfg st mid sb2 pb1 sb3 pb3 hmid hsb3 hpb3
      obtain ⟨msP, hbrP⟩ := branchExtract_fwd cfg st pb3 pb4 tp tp' ap cP hpb4
      have stepP : chooseStep cfg st sb3 pb3 (.sub [.plural] (.start tp ap :: (cP ++ [.end_ tp']))) = .ok (msP, sb3, pb4) := by
        simp [chooseStep, chooseStep.loop, hbrP, bind, Except.bind, pure, Except.pure]
      have l5 := chooseLoop_outer_fwd cfg st post sb3 pb4 sbE pbE hpost hsbE hpbE
      have l45 : chooseLoop cfg st sb3 pb3 (.sub [.plural] (.start tp ap :: (cP ++ [.end_ tp'])) :: post) = .ok (msP ++ [], sbE, pbE) := by
        simp [chooseLoop, stepP, l5, bind, Except.bind, pure, Except.pure]
      have l345 := chooseLoop_append_fwd cfg st mid _ sb2 pb1 sb3 pb3 [] _ _ l3 l45
      have l2345 : chooseLoop cfg st sb1 pb1 (.sub [.singular] (.start ts as :: (cS ++ [.end_ ts'])) ::
          (mid ++ .sub [.plural] (.start tp ap :: (cP ++ [.end_ tp'])) :: post)) = .ok (msS ++ ([] ++ (msP ++ [])), sbE, pbE) := by
        simp only [chooseLoop, stepS, l345, bind, Except.bind, pure, Except.pure]
      have lall := chooseLoop_append_fwd cfg st pre _ _ _ sb1 pb1 [] _ _ l1 l2345
      -- the directive
      have hne : ∀ (l : List TEvent), l ++ [TEvent.end_ t'] ≠ [] := by intro l; simp
      obtain ⟨f, hf⟩ := Option.isSome_iff_exists.mp contextedGet_ngettext
      have hctx : ∃ m, contextify (some ngettextName) (.many [some sbE.format, some pbE.format]) (lastSlice cs) (lastSlice xs) = some m := by
        cases lastSlice xs with
        | nil => exact ⟨_, rfl⟩
        | cons c rest => exact ⟨⟨some f, .many [some c, some sbE.format, some pbE.format], lastSlice cs⟩, by simp [contextify, hf]⟩
      obtain ⟨m, hm⟩ := hctx
      simp only [chooseExtract, TEvent.isStart, ↓reduceIte]
      cases hrest : (pre ++ TEvent.sub [.singular] (.start ts as :: (cS ++ [.end_ ts'])) ::
            (mid ++ TEvent.sub [.plural] (.start tp ap :: (cP ++ [.end_ tp'])) :: post)) ++ [TEvent.end_ t'] with
      | nil => exact absurd hrest (hne _)
      | cons x y =>
        simp only
        rw [← hrest, List.dropLast_concat]
        simp only [lall, bind, Except.bind, hm, pure, Except.pure]
        exact ⟨_, rfl⟩

end Genshi.I18n

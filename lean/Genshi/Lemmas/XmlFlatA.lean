/-
  C02 — the flattener's bookkeeping, part A: the invariants of the binding list
  and what one start tag does to it (`takePending`, `declare`, `flatTag`,
  `flatAttrs`).
-/
import Genshi.Model.XmlSpec
import Genshi.Lemmas.XmlScope
namespace Genshi.Xml
open Genshi Genshi.Xml.Reader

/-! ### legality of bindings -/

def legalB (b : Binding) : Prop := declLegal b.1 (normUri b.2.1) = true

def BindingsOK (bs : List Binding) : Prop := ∀ b ∈ bs, legalB b

def XmlBound (bs : List Binding) : Prop := uriOf bs xmlPrefix = some xmlNs

/-- the default namespace in force is not an *explicitly declared non-empty* one -/
def JProp (bs : List Binding) : Prop :=
  ¬ ∃ u, uriOf bs [] = some u ∧ falsyUri u = false ∧ autoOf bs [] = false

def LevelOK (bs : List Binding) (d : Bool) : Prop :=
  BindingsOK bs ∧ XmlBound bs ∧ (d = false → JProp bs)

theorem xmlPrefix_ne_nil : xmlPrefix ≠ [] := by decide

theorem BindingsOK.cons {b : Binding} {bs : List Binding} (hb : legalB b) (h : BindingsOK bs) :
    BindingsOK (b :: bs) := by
  intro x hx
  rcases List.mem_cons.mp hx with rfl | hx
  · exact hb
  · exact h x hx

theorem XmlBound.cons {p u : Str} {a : Bool} {bs : List Binding} (hp : p ≠ xmlPrefix) (h : XmlBound bs) :
    XmlBound ((p, u, a) :: bs) := by
  unfold XmlBound at *
  rw [uriOf_cons]; simp [hp, h]

theorem JProp.cons_auto {p u : Str} {bs : List Binding} (h : JProp bs) : JProp ((p, u, true) :: bs) := by
  intro ⟨v, h1, h2, h3⟩
  rw [uriOf_cons] at h1
  rw [autoOf_cons] at h3
  by_cases hp : p = []
  · simp [hp] at h3
  · simp only [hp, if_false] at h1 h3
    exact h ⟨v, h1, h2, h3⟩

theorem JProp.cons_other {p u : Str} {a : Bool} {bs : List Binding} (hp : p ≠ []) (h : JProp bs) :
    JProp ((p, u, a) :: bs) := by
  intro ⟨v, h1, h2, h3⟩
  rw [uriOf_cons] at h1
  rw [autoOf_cons] at h3
  simp only [hp, if_false] at h1 h3
  exact h ⟨v, h1, h2, h3⟩

theorem JProp.of_falsy {bs : List Binding} {u : Str} (h1 : uriOf bs [] = some u) (h2 : falsyUri u = true) :
    JProp bs := by
  intro ⟨v, hv, hf, _⟩
  rw [h1] at hv
  cases hv
  rw [h2] at hf
  cases hf

/-! ### extension by fresh prefixes -/

inductive Ext : List Binding → List Binding → Prop
  | refl (bs) : Ext bs bs
  | push {bs bs'} (p u : Str) (a : Bool) (h : Ext bs bs') (hf : uriOf bs' p = none) : Ext bs ((p, u, a) :: bs')

theorem Ext.trans {a b c : List Binding} (h1 : Ext a b) (h2 : Ext b c) : Ext a c := by
  induction h2 with
  | refl => exact h1
  | push p u x _ hf ih => exact Ext.push p u x ih hf

theorem Ext.uriOf {bs bs' : List Binding} (h : Ext bs bs') {q v : Str} (hq : uriOf bs q = some v) :
    Genshi.Xml.uriOf bs' q = some v := by
  induction h with
  | refl => exact hq
  | push p u a _ hf ih =>
    rw [uriOf_cons]
    by_cases hp : p = q
    · subst hp; rw [ih] at hf; cases hf
    · simp [hp, ih]

theorem uriOf_nil_ne_none (bs : List Binding) : Genshi.Xml.uriOf bs [] ≠ none := by
  induction bs with
  | nil => simp [Genshi.Xml.uriOf]
  | cons b bs ih =>
    obtain ⟨p, u, a⟩ := b
    rw [uriOf_cons]
    by_cases hp : p = [] <;> simp [hp, ih]

theorem Ext.default {bs bs' : List Binding} (h : Ext bs bs') :
    Genshi.Xml.uriOf bs' [] = Genshi.Xml.uriOf bs [] ∧ autoOf bs' [] = autoOf bs [] := by
  induction h with
  | refl => exact ⟨rfl, rfl⟩
  | push p u a _ hf ih =>
    have hp : p ≠ [] := by
      intro e; subst e; exact uriOf_nil_ne_none _ hf
    rw [uriOf_cons, autoOf_cons]
    simp [hp, ih]

theorem Ext.jprop {bs bs' : List Binding} (h : Ext bs bs') (hj : JProp bs) : JProp bs' := by
  intro ⟨v, h1, h2, h3⟩
  rw [h.default.1] at h1
  rw [h.default.2] at h3
  exact hj ⟨v, h1, h2, h3⟩

/-! ### the tag state -/

def rawProj (b : Binding) : Str × Str := (b.1, b.2.1)

structure TagInv (base : List Binding) (t : TagSt) : Prop where
  front : ∃ front, t.bindings = front ++ base ∧ front.map rawProj = t.declared.reverse
  nodup : (t.declared.map Prod.fst).Nodup
  legal : BindingsOK t.bindings
  xml : XmlBound t.bindings

theorem TagInv.declared_bound {base : List Binding} {t : TagSt} (h : TagInv base t) {p : Str}
    (hp : p ∈ t.declared.map Prod.fst) : uriOf t.bindings p ≠ none := by
  obtain ⟨front, hb, hf⟩ := h.front
  apply uriOf_ne_none_of_mem
  rw [hb]
  simp only [List.map_append, List.mem_append]
  left
  have : front.map (·.1) = (t.declared.reverse).map Prod.fst := by
    rw [← hf]; simp [rawProj, Function.comp_def]
  rw [this]
  simpa using hp

theorem TagInv.push {base : List Binding} {t : TagSt} (h : TagInv base t) (p u : Str) (a : Bool) (c : Nat)
    (hnew : p ∉ t.declared.map Prod.fst) (hl : legalB (p, u, a)) (hx : p ≠ xmlPrefix) :
    TagInv base { bindings := (p, u, a) :: t.bindings, declared := t.declared ++ [(p, u)], counter := c } := by
  obtain ⟨front, hb, hf⟩ := h.front
  refine ⟨⟨(p, u, a) :: front, by simp [hb], by simp [hf, rawProj]⟩, ?_, h.legal.cons hl, h.xml.cons hx⟩
  simp only [List.map_append, List.map_cons, List.map_nil]
  rw [List.nodup_append]
  refine ⟨h.nodup, by simp, ?_⟩
  intro x hx1 y hy
  simp only [List.mem_singleton] at hy
  subst hy
  intro e; subst e; exact hnew hx1

/-! ### generated and preferred prefixes -/

theorem colon_not_mem_dec (n : Nat) : ':' ∉ dec n := by
  intro h
  have := List.all_eq_true.mp (dec_all_digit n) ':' h
  revert this; decide

theorem nsName_legal (n : Nat) (uri : Str) (h1 : uri ≠ []) (h2 : uri ≠ xmlNs) (h3 : uri ≠ xmlnsNs) :
    declLegal (nsName n) uri = true := by
  have hc : ':' ∉ nsName n := by
    intro h
    simp only [nsName, List.mem_cons] at h
    rcases h with h | h | h
    · exact absurd h (by decide)
    · exact absurd h (by decide)
    · exact colon_not_mem_dec n h
  have hx : nsName n ≠ xmlPrefix := by simp [nsName, xmlPrefix]
  have hxs : nsName n ≠ xmlnsName := by simp [nsName, xmlnsName]
  unfold declLegal
  have e1 : (nsName n).isEmpty = false := by simp [nsName]
  have e2 : List.elem ':' (nsName n) = false := by
    simpa using hc
  have e3 : ((nsName n).head?.map isNameStartBad).getD true = false := by
    simp [nsName]; decide
  simp [e1, e3, h1, h2, h3, hx, hxs, hc]

theorem freshPrefix_spec (pref : List (Str × Str)) (hpref : prefOK pref = true) (bs : List Binding)
    (uri : Str) (counter : Nat)
    (h1 : uri ≠ []) (h2 : uri ≠ xmlNs) (h3 : uri ≠ xmlnsNs) :
    (freshPrefix pref bs uri counter).1 ≠ [] ∧
    uriOf bs (freshPrefix pref bs uri counter).1 = none ∧
    declLegal (freshPrefix pref bs uri counter).1 uri = true := by
  have gen : (genLoop bs counter (bs.length + 1)).1 ≠ [] ∧
      uriOf bs (genLoop bs counter (bs.length + 1)).1 = none ∧
      declLegal (genLoop bs counter (bs.length + 1)).1 uri = true := by
    obtain ⟨n, hn⟩ := genLoop_prefix bs (bs.length + 1) counter
    refine ⟨by rw [hn]; exact nsName_ne_nil n, genLoop_fresh bs counter, by rw [hn]; exact nsName_legal n uri h1 h2 h3⟩
  unfold freshPrefix
  cases hl : List.lookup uri pref with
  | none => exact gen
  | some p =>
    simp only
    by_cases hc : ¬ p.isEmpty = true ∧ uriOf bs p = none
    · rw [if_pos hc]
      refine ⟨by intro e; apply hc.1; simp only at e; simp [e], hc.2, ?_⟩
      have hm : (uri, p) ∈ pref := by
        clear hc gen
        induction pref with
        | nil => simp at hl
        | cons e es ih =>
          obtain ⟨k, v⟩ := e
          simp only [List.lookup] at hl
          by_cases hk : uri = k
          · subst hk; simp at hl; subst hl; simp
          · have : (uri == k) = false := by simpa using hk
            simp only [this] at hl
            simp only [prefOK, List.all_cons, Bool.and_eq_true] at hpref
            exact List.mem_cons_of_mem _ (ih (by simpa [prefOK] using hpref.2) hl)
      have := List.all_eq_true.mp hpref (uri, p) hm
      simp only [Bool.or_eq_true, Bool.and_eq_true] at this
      rcases this with h | h
      · exact absurd h hc.1
      · exact h.1
    · rw [if_neg hc]
      exact gen

end Genshi.Xml

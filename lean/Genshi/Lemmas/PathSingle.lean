/-
  SingleStepStrategy is an abstraction of GenericStrategy (C17 `single_eq_generic`):
  the depth counter stands for the position stack, the one counter list for the
  counter of the only context node.
-/
import Genshi.Lemmas.PathStream
namespace Genshi.Path
open Genshi

/-! ## Stores -/

theorem Store.get_set_self (s : Store) (i : Nat) (v : List Nat) (h : i < s.length) :
    Store.get (s.set i v) i = v := by
  simp [Store.get, List.getD, h]

theorem Store.set_get_self (s : Store) (i : Nat) (h : i < s.length) :
    s.set i (Store.get s i) = s := by
  apply List.ext_getElem (by simp)
  intro j h1 h2
  by_cases hij : i = j
  · subst hij; simp [Store.get, List.getD, h]
  · simp [List.getElem_set, hij]

/-- with a single counter, GenericStrategy's predicate loop is SingleStepStrategy's -/
theorem gPreds_single (e : Event) (ns : NsMap) (vs : Vars) (cid : Nat) (preds : List Expr) :
    ∀ (cnum : Nat) (store : Store), cid < store.length →
      gPreds e ns vs [cid] preds cnum [] store =
        ((sPreds e ns vs preds cnum (Store.get store cid)).1,
         store.set cid (sPreds e ns vs preds cnum (Store.get store cid)).2) := by
  induction preds with
  | nil => intro cnum store h; simp [gPreds, sPreds, Store.set_get_self store cid h]
  | cons p ps ih =>
    intro cnum store h
    simp only [gPreds, sPreds]
    cases hv : p.eval e ns vs with
    | num x =>
      simp only [countLoop, List.contains_nil, Bool.false_eq_true, if_false, List.getD_eq_getElem?_getD]
      by_cases heq : XNum.eqNat x ((bump cnum (Store.get store cid))[cnum]?.getD 0) = true
      · simp only [heq, if_true, List.length_nil, List.length_cons]
        by_cases ht : (Val.num x).truthy = true
        · simp only [ht, Bool.not_true, Bool.false_eq_true, if_false]
          have := ih (cnum + 1) (store.set cid (bump cnum (Store.get store cid))) (by simpa using h)
          simp only [Store.get_set_self store cid _ h, List.set_set] at this
          simpa using this
        · simp [ht]
      · simp [heq]
    | _ =>
      by_cases ht : (p.eval e ns vs).truthy = true
      · simp only [hv] at ht ⊢
        simp only [ht, Bool.not_true, Bool.false_eq_true, if_false]
        exact ih cnum store h
      · simp only [hv] at ht ⊢
        simp [ht, Store.set_get_self store cid h]

/-! ## GenericStrategy with a single candidate position -/

theorem gLoop_nil (steps : List Step) (rlen : Nat) (e : Event) (ns : NsMap) (vs : Vars) (fuel : Nat)
    (acc : GAcc) : gLoop steps rlen e ns vs fuel [] acc = acc := by
  cases fuel <;> simp [gLoop]

/-- the value reported when the last real step matched -/
def lastVal (steps : List Step) (e : Event) (ns : NsMap) : Val :=
  if (lastResult steps e ns).truthy then lastResult steps e ns else .none

/-- one candidate position whose step is the last real step of the path -/
theorem gStep_one (steps : List Step) (ns : NsMap) (vs : Vars) (st : GState) (e : Event)
    (x c : Nat) (sx : Step) (rest : List (List GPos))
    (hstack : st.stack = [⟨x, [c]⟩] :: rest) (hsx : steps[x]? = some sx) (hlen : x + 1 = realLen steps)
    (hc : c < st.store.length) (he : e.isEnd = false) (hm : e.isNsOrCdata = false) :
    gStep steps ns vs st e =
      (let nextPos : List GPos := if isDescLike sx.axis then [⟨x, [c]⟩] else []
       let stack' := if e.isStart then nextPos :: st.stack else st.stack
       if !sx.test.matches e ns then (⟨stack', st.store⟩, .none)
       else
         let r := sPreds e ns vs sx.preds 0 (Store.get st.store c)
         if !r.1 then (⟨stack', st.store.set c r.2⟩, .none)
         else (⟨stack', st.store.set c r.2⟩, lastVal steps e ns)) := by
  unfold gStep
  simp only [he, hm, Bool.false_eq_true, if_false, hstack, List.headD_cons, List.map_cons, List.map_nil,
    List.length_cons, List.length_nil]
  rw [show 2 * steps.length + (0 + 1) + 2 = (2 * steps.length + 2) + 1 from by omega]
  simp only [gLoop, hsx, gLoop_nil, List.isEmpty_cons, Bool.not_false, Bool.and_true, pushDesc,
    List.getLast?_nil, List.append_nil, gPreds_single e ns vs c sx.preds 0 st.store hc, ← hlen, beq_self_eq_true,
    if_true]
  by_cases hd : isDescLike sx.axis = true <;> by_cases hmt : sx.test.matches e ns = true <;>
    by_cases hp : (sPreds e ns vs sx.preds 0 (Store.get st.store c)).1 = true <;>
    simp [hd, hmt, hp, lastVal] <;>
    (split <;> simp_all)

theorem gStep_empty (steps : List Step) (ns : NsMap) (vs : Vars) (st : GState) (e : Event)
    (rest : List (List GPos)) (hstack : st.stack = [] :: rest) (he : e.isEnd = false)
    (hm : e.isNsOrCdata = false) :
    gStep steps ns vs st e = (⟨if e.isStart then [] :: st.stack else st.stack, st.store⟩, .none) := by
  unfold gStep
  simp [he, hm, hstack, gLoop_nil]

theorem gStep_end (steps : List Step) (ns : NsMap) (vs : Vars) (st : GState) (tag : QName) :
    gStep steps ns vs st (.end_ tag) = (⟨st.stack.drop 1, st.store⟩, .none) := by
  simp [gStep, Event.isEnd]

theorem gStep_marker (steps : List Step) (ns : NsMap) (vs : Vars) (st : GState) (e : Event)
    (he : e.isEnd = false) (hm : e.isNsOrCdata = true) : gStep steps ns vs st e = (st, .none) := by
  simp [gStep, he, hm]

/-- the context node under `_DOTSLASH`: a START event at position 0 opens a fresh counter for
    the next step on its children (next axis child / descendant) -/
theorem gStep_root (s : Step) (ns : NsMap) (vs : Vars) (st : GState) (tag : QName) (attrs : AttrList)
    (rest : List (List GPos)) (hstack : st.stack = [⟨0, [0]⟩] :: rest) (h0 : 0 < st.store.length)
    (hax : s.axis = .child ∨ s.axis = .descendant) :
    gStep [dotSlash, s] ns vs st (.start tag attrs) =
      (⟨[⟨1, [st.store.length]⟩] :: st.stack, st.store ++ [[]]⟩, .none) := by
  unfold gStep
  simp only [Event.isEnd, Event.isNsOrCdata, Bool.false_eq_true, if_false, hstack, List.headD_cons,
    List.map_cons, List.map_nil, List.length_cons, List.length_nil, Event.isStart, if_true]
  have hrl : realLen [dotSlash, s] = 2 := by
    rcases hax with h | h <;> simp [realLen, h]
  rw [hrl]
  rcases hax with h | h <;>
    simp [gLoop, gLoop_nil, dotSlash, isDescLike, NodeTest.matches, NodeTest.apply, Val.truthy, gPreds, h, pushSelf]

/-! ## The simulations, one per shape of the first (only) step -/

theorem isEnd_of_not_startEnd {e : Event} (h : e.isStartEnd = false) : e.isEnd = false ∧ e.isStart = false := by
  cases e <;> simp_all [Event.isStartEnd, Event.isEnd, Event.isStart]

/-- the state after the depth bookkeeping of a non-END event -/
def sBump (ic : Bool) (e : Event) (t : SState) : SState :=
  if !ic && e.isStart then { t with depth := t.depth + 1 } else t

def sOutside (ic : Bool) (s0 : Step) (dep : Int) : Bool :=
  !ic && ((s0.axis == .self && dep != 0) || (s0.axis == .child && dep != 1)
          || (s0.axis == .descendant && decide (dep < 1)))

theorem sStep_run (steps : List Step) (s0 sl : Step) (hh : steps.head? = some s0)
    (hl : steps.getLast? = some sl) (ic : Bool) (ns : NsMap) (vs : Vars) (t : SState) (e : Event)
    (he : e.isEnd = false) (hm : e.isNsOrCdata = false) :
    sStep steps ic ns vs t e =
      (if sOutside ic s0 t.depth then (sBump ic e t, .none)
       else if !s0.test.matches e ns then (sBump ic e t, .none)
       else
         let r := sPreds e ns vs s0.preds 0 t.counters
         if !r.1 then ({ sBump ic e t with counters := r.2 }, .none)
         else ({ sBump ic e t with counters := r.2 },
               if sl.axis == .attribute then attrResult sl.test e ns else .bool true)) := by
  simp only [sStep, he, hm, Bool.false_eq_true, if_false, hh, hl, sOutside, sBump]
  by_cases h1 : (!ic && e.isStart) = true <;> simp [h1] <;>
    (split <;> try rfl) <;> (split <;> try rfl) <;> (split <;> try rfl) <;> (split <;> rfl)

theorem sStep_end (steps : List Step) (ic : Bool) (ns : NsMap) (vs : Vars) (t : SState) (tag : QName) :
    sStep steps ic ns vs t (.end_ tag) = ((if ic then t else { t with depth := t.depth - 1 }), .none) := by
  simp [sStep, Event.isEnd]

theorem sStep_marker (steps : List Step) (ic : Bool) (ns : NsMap) (vs : Vars) (t : SState) (e : Event)
    (he : e.isEnd = false) (hm : e.isNsOrCdata = true) : sStep steps ic ns vs t e = (t, .none) := by
  simp [sStep, he, hm]

/-- every node is a candidate at position 0 (first axis descendant-or-self, or a pattern) -/
def RAll (d : Nat) (g : GState) (t : SState) : Prop :=
  g.stack = List.replicate (d + 1) [⟨0, [0]⟩] ∧ 0 < g.store.length ∧ t.counters = Store.get g.store 0

/-- what SingleStepStrategy reports for a match -/
def sVal (sl : Step) (e : Event) (ns : NsMap) : Val :=
  if sl.axis == .attribute then attrResult sl.test e ns else .bool true

theorem sim_all (gsteps ssteps : List Step) (sx s0 sl : Step) (ic : Bool) (ns : NsMap) (vs : Vars)
    (hg0 : gsteps[0]? = some sx) (hrl : realLen gsteps = 1) (hax : sx.axis = .descendantOrSelf)
    (hsh : ssteps.head? = some s0) (hsl : ssteps.getLast? = some sl)
    (htest : s0.test = sx.test) (hpreds : s0.preds = sx.preds)
    (hout : ∀ (dep : Int), sOutside ic s0 dep = false)
    (hval : ∀ e, lastVal gsteps e ns = sVal sl e ns) :
    Sim (gStep gsteps ns vs) (sStep ssteps ic ns vs) RAll 0 := by
  -- a non-END, non-marker event at any depth
  have key : ∀ d g t e, e.isEnd = false → e.isNsOrCdata = false → RAll d g t →
      (gStep gsteps ns vs g e).2 = (sStep ssteps ic ns vs t e).2 ∧
      RAll (if e.isStart then d + 1 else d) (gStep gsteps ns vs g e).1 (sStep ssteps ic ns vs t e).1 := by
    intro d g t e hend hmk ⟨hst, h0, hc⟩
    rw [gStep_one gsteps ns vs g e 0 0 sx (List.replicate d [⟨0, [0]⟩]) (by rw [hst]; rfl) hg0
          (by rw [hrl]) h0 hend hmk,
        sStep_run ssteps s0 sl hsh hsl ic ns vs t e hend hmk]
    simp only [hout, Bool.false_eq_true, if_false, htest, hpreds, hc, hval, isDescLike, hax, sVal]
    by_cases hm : sx.test.matches e ns = true <;>
      by_cases hp : (sPreds e ns vs sx.preds 0 (Store.get g.store 0)).1 = true <;>
      by_cases hs : e.isStart = true <;>
      simp [hm, hp, hs, RAll, hst, h0, hc, sBump, List.replicate_succ, Store.get_set_self g.store 0 _ h0] <;>
      (cases ic <;> simp [hc, Store.get_set_self g.store 0 _ h0])
  refine ⟨?_, ?_, ?_⟩
  · intro d _ g t tag attrs hr
    simpa [Event.isStart] using key d g t (.start tag attrs) rfl rfl hr
  · intro d _ g t tag ⟨hst, h0, hc⟩
    rw [gStep_end, sStep_end]
    refine ⟨rfl, ?_⟩
    cases ic <;> simp [RAll, hst, h0, hc, List.replicate_succ]
  · intro d _ g t e he hr
    obtain ⟨hend, hstart⟩ := isEnd_of_not_startEnd he
    by_cases hmk : e.isNsOrCdata = true
    · rw [gStep_marker _ _ _ _ _ hend hmk, sStep_marker _ _ _ _ _ _ hend hmk]
      exact ⟨rfl, hr⟩
    · have := key d g t e hend (by simpa using hmk) hr
      simpa [hstart] using this

/-- candidates only at one depth `a` (0: the context node itself, position 0, counter 0;
    1: its children, position 1, counter `c`), nothing below -/
def RAt (a x c : Nat) (base : List (List GPos)) (d : Nat) (g : GState) (t : SState) : Prop :=
  ∃ k, d = a + k ∧ g.stack = List.replicate k [] ++ ([⟨x, [c]⟩] :: base) ∧ c < g.store.length ∧
    t.depth = (d : Int) ∧ t.counters = Store.get g.store c

theorem sim_at (a x c : Nat) (base : List (List GPos)) (gsteps ssteps : List Step) (sx s0 sl : Step)
    (ns : NsMap) (vs : Vars)
    (hgx : gsteps[x]? = some sx) (hrl : x + 1 = realLen gsteps) (hax : isDescLike sx.axis = false)
    (hsh : ssteps.head? = some s0) (hsl : ssteps.getLast? = some sl)
    (htest : s0.test = sx.test) (hpreds : s0.preds = sx.preds)
    (hout : ∀ (dep : Int), sOutside false s0 dep = (dep != (a : Int)))
    (hval : ∀ e, lastVal gsteps e ns = sVal sl e ns) :
    Sim (gStep gsteps ns vs) (sStep ssteps false ns vs) (RAt a x c base) a := by
  have key : ∀ d g t e, e.isEnd = false → e.isNsOrCdata = false → RAt a x c base d g t →
      (gStep gsteps ns vs g e).2 = (sStep ssteps false ns vs t e).2 ∧
      RAt a x c base (if e.isStart then d + 1 else d) (gStep gsteps ns vs g e).1 (sStep ssteps false ns vs t e).1 := by
    intro d g t e hend hmk ⟨k, hd, hst, hc, hdep, hcnt⟩
    cases k with
    | zero =>
      simp only [List.replicate_zero, List.nil_append, Nat.add_zero] at hst hd
      rw [gStep_one gsteps ns vs g e x c sx base hst hgx hrl hc hend hmk,
          sStep_run ssteps s0 sl hsh hsl false ns vs t e hend hmk]
      have ho : sOutside false s0 t.depth = false := by rw [hout, hdep, hd]; simp
      simp only [ho, Bool.false_eq_true, if_false, htest, hpreds, hcnt, hval, hax]
      by_cases hm : sx.test.matches e ns = true <;>
        by_cases hp : (sPreds e ns vs sx.preds 0 (Store.get g.store c)).1 = true <;>
        by_cases hs : e.isStart = true <;>
        simp [hm, hp, hs, RAt, hst, hc, hcnt, hdep, hd, sBump, Store.get_set_self g.store c _ hc, sVal]
    | succ k =>
      have hst' : g.stack = [] :: (List.replicate k [] ++ ([⟨x, [c]⟩] :: base)) := by
        rw [hst, List.replicate_succ]; rfl
      rw [gStep_empty gsteps ns vs g e _ hst' hend hmk,
          sStep_run ssteps s0 sl hsh hsl false ns vs t e hend hmk]
      have ho : sOutside false s0 t.depth = true := by rw [hout, hdep, hd]; simp; omega
      simp only [ho, if_true]
      refine ⟨trivial, ?_⟩
      by_cases hs : e.isStart = true
      · simp only [hs, if_true, sBump, Bool.not_false, Bool.true_and]
        exact ⟨k + 2, by omega, by rw [hst']; simp [List.replicate_succ], hc, by simp [hdep], hcnt⟩
      · simp only [hs, Bool.false_eq_true, if_false, sBump, Bool.and_false]
        exact ⟨k + 1, hd, hst, hc, hdep, hcnt⟩
  refine ⟨?_, ?_, ?_⟩
  · intro d _ g t tag attrs hr
    simpa [Event.isStart] using key d g t (.start tag attrs) rfl rfl hr
  · intro d _ g t tag ⟨k, hd, hst, hc, hdep, hcnt⟩
    rw [gStep_end, sStep_end]
    refine ⟨rfl, ?_⟩
    cases k with
    | zero => omega
    | succ k =>
      refine ⟨k, by omega, by rw [hst]; simp [List.replicate_succ], hc, by simp [hdep], hcnt⟩
  · intro d _ g t e he hr
    obtain ⟨hend, hstart⟩ := isEnd_of_not_startEnd he
    by_cases hmk : e.isNsOrCdata = true
    · rw [gStep_marker _ _ _ _ _ hend hmk, sStep_marker _ _ _ _ _ _ hend hmk]
      exact ⟨rfl, hr⟩
    · have := key d g t e hend (by simpa using hmk) hr
      simpa [hstart] using this

/-- descendant axis below the context node: every node from depth 1 on is a candidate at
    position `x` with the counter `c` of the context node -/
def RDesc (x c : Nat) (base : List (List GPos)) (d : Nat) (g : GState) (t : SState) : Prop :=
  ∃ k, d = 1 + k ∧ g.stack = List.replicate (k + 1) [⟨x, [c]⟩] ++ base ∧ c < g.store.length ∧
    t.depth = (d : Int) ∧ t.counters = Store.get g.store c

theorem sim_desc (x c : Nat) (base : List (List GPos)) (gsteps ssteps : List Step) (sx s0 sl : Step)
    (ns : NsMap) (vs : Vars)
    (hgx : gsteps[x]? = some sx) (hrl : x + 1 = realLen gsteps) (hax : isDescLike sx.axis = true)
    (hsh : ssteps.head? = some s0) (hsl : ssteps.getLast? = some sl)
    (htest : s0.test = sx.test) (hpreds : s0.preds = sx.preds)
    (hout : ∀ (dep : Int), sOutside false s0 dep = decide (dep < 1))
    (hval : ∀ e, lastVal gsteps e ns = sVal sl e ns) :
    Sim (gStep gsteps ns vs) (sStep ssteps false ns vs) (RDesc x c base) 1 := by
  have key : ∀ d g t e, e.isEnd = false → e.isNsOrCdata = false → RDesc x c base d g t →
      (gStep gsteps ns vs g e).2 = (sStep ssteps false ns vs t e).2 ∧
      RDesc x c base (if e.isStart then d + 1 else d) (gStep gsteps ns vs g e).1 (sStep ssteps false ns vs t e).1 := by
    intro d g t e hend hmk ⟨k, hd, hst, hc, hdep, hcnt⟩
    have hst' : g.stack = [⟨x, [c]⟩] :: (List.replicate k [⟨x, [c]⟩] ++ base) := by
      rw [hst, List.replicate_succ]; rfl
    rw [gStep_one gsteps ns vs g e x c sx _ hst' hgx hrl hc hend hmk,
        sStep_run ssteps s0 sl hsh hsl false ns vs t e hend hmk]
    have ho : sOutside false s0 t.depth = false := by rw [hout, hdep, hd]; simp; omega
    simp only [ho, Bool.false_eq_true, if_false, htest, hpreds, hcnt, hval, hax, if_true]
    by_cases hm : sx.test.matches e ns = true <;>
      by_cases hp : (sPreds e ns vs sx.preds 0 (Store.get g.store c)).1 = true <;>
      by_cases hs : e.isStart = true <;>
      simp [hm, hp, hs, RDesc, hst', hc, hcnt, hdep, hd, sBump, Store.get_set_self g.store c _ hc, sVal] <;>
      first
        | exact ⟨k + 1, by omega, by simp [List.replicate_succ]⟩
        | simp [List.replicate_succ]
  refine ⟨?_, ?_, ?_⟩
  · intro d _ g t tag attrs hr
    simpa [Event.isStart] using key d g t (.start tag attrs) rfl rfl hr
  · intro d hd1 g t tag ⟨k, hd, hst, hc, hdep, hcnt⟩
    rw [gStep_end, sStep_end]
    refine ⟨rfl, ?_⟩
    cases k with
    | zero => omega
    | succ k =>
      refine ⟨k, by omega, by rw [hst]; simp [List.replicate_succ], hc, by simp [hdep], hcnt⟩
  · intro d _ g t e he hr
    obtain ⟨hend, hstart⟩ := isEnd_of_not_startEnd he
    by_cases hmk : e.isNsOrCdata = true
    · rw [gStep_marker _ _ _ _ _ hend hmk, sStep_marker _ _ _ _ _ _ hend hmk]
      exact ⟨rfl, hr⟩
    · have := key d g t e hend (by simpa using hmk) hr
      simpa [hstart] using this

/-! ## Assembly -/

@[simp] theorem Axis.beq_eq_decide (a b : Axis) : (a == b) = decide (a = b) := rfl

/-- node tests the parser builds for the attribute axis (`principal_type is ATTRIBUTE`) -/
def NodeTest.attrFlag : NodeTest → Bool
  | .principal a | .qprincipal a _ | .localName a _ | .qname a _ _ => a
  | _ => false

theorem attrApply_form (t : NodeTest) (h : t.attrFlag = true) (e : Event) (ns : NsMap) :
    t.apply e ns = .none ∨ ∃ a, a ≠ [] ∧ t.apply e ns = .attrs a := by
  cases t with
  | principal f =>
    simp [NodeTest.attrFlag] at h; subst h
    cases e <;> simp [NodeTest.apply]
    rename_i tag a
    cases a <;> simp
  | qprincipal f pfx =>
    simp [NodeTest.attrFlag] at h; subst h
    cases e with
    | start tag a =>
      simp only [NodeTest.apply, if_true]
      split
      · exact Or.inl rfl
      · rename_i hne
        exact Or.inr ⟨_, by intro h; simp [h] at hne, rfl⟩
    | _ => simp [NodeTest.apply]
  | localName f name =>
    simp [NodeTest.attrFlag] at h; subst h
    cases e <;> simp [NodeTest.apply]
    rename_i tag a
    cases attrGetText name a <;> simp
  | qname f pfx name =>
    simp [NodeTest.attrFlag] at h; subst h
    cases e <;> simp [NodeTest.apply]
    rename_i tag a
    cases attrGetQ ⟨nsOf ns pfx, name⟩ a <;> simp
  | _ => simp [NodeTest.attrFlag] at h

theorem attrApply_none_or_truthy (t : NodeTest) (h : t.attrFlag = true) (e : Event) (ns : NsMap) :
    (if (t.apply e ns).truthy then t.apply e ns else .none) = t.apply e ns := by
  rcases attrApply_form t h e ns with h1 | ⟨a, ha, h1⟩
  · simp [h1, Val.truthy]
  · cases a with
    | nil => exact absurd rfl ha
    | cons p r => simp [h1, Val.truthy]

theorem lastVal_attr (pre : List Step) (s : Step) (h : s.axis = .attribute)
    (e : Event) (ns : NsMap) : lastVal (pre ++ [s]) e ns = sVal s e ns := by
  simp [lastVal, lastResult, sVal, h, attrResult]

theorem lastVal_nonattr (pre : List Step) (s : Step) (h : s.axis ≠ .attribute)
    (e : Event) (ns : NsMap) : lastVal (pre ++ [s]) e ns = sVal s e ns := by
  have : (s.axis == Axis.attribute) = false := by simpa using h
  simp [lastVal, lastResult, sVal, this, Val.truthy]

theorem runOne_cons {σ : Type} (step : σ → Event → σ × Val) (s : σ) (e : Event) (es : List Event) :
    runOne step s (e :: es) = ((step s e).2 :: (runOne step (step s e).1 es).1, (runOne step (step s e).1 es).2) := rfl

/-- **single_eq_generic.**  For every single location step (any of the five axes, any node
    test, any predicates, positional ones included), both modes, every element tree: the
    SingleStepStrategy matcher reports, event by event, exactly what GenericStrategy reports. -/
theorem single_eq_generic_run_full (s : Step) (ic : Bool) (ns : NsMap) (vs : Vars)
    (tag : QName) (attrs : AttrList) (kids : List Node) (hok : okList kids = true) :
    (runOne (gStep (gSteps [s] ic) ns vs) gInit (Node.elem tag attrs kids).flatten).1
      = (runOne (sStep (sSteps [s]) ic ns vs) ⟨[], 0⟩ (Node.elem tag attrs kids).flatten).1 := by
  have hroot : (Node.elem tag attrs kids).ok = true := by simpa [Node.ok] using hok
  have hinit : RAll 0 gInit ⟨[], 0⟩ := ⟨rfl, by decide, rfl⟩
  cases ic with
  | true =>
    by_cases ha : s.axis = .attribute
    · have hg : gSteps [s] true = [dotSlashSlash, s] := by simp [gSteps, stripDot, ha]
      have hs : sSteps [s] = [dotSlash, s] := by simp [sSteps, ha]
      rw [hg, hs]
      exact ((sim_all [dotSlashSlash, s] [dotSlash, s] dotSlashSlash dotSlash s true ns vs rfl
        (by simp [realLen, ha]) rfl rfl rfl rfl rfl (by intro d; simp [sOutside])
        (fun e => lastVal_attr [dotSlashSlash] s ha e ns)).flatten _ hroot 0 (Nat.le_refl _) _ _ hinit).1
    · have hg : gSteps [s] true = [⟨.descendantOrSelf, s.test, s.preds⟩] := by
        have : (s.axis == Axis.attribute) = false := by simpa using ha
        simp [gSteps, stripDot, this]
      have hs : sSteps [s] = [s] := by
        have : (s.axis == Axis.attribute) = false := by simpa using ha
        simp [sSteps, this]
      rw [hg, hs]
      exact ((sim_all [⟨.descendantOrSelf, s.test, s.preds⟩] [s] ⟨.descendantOrSelf, s.test, s.preds⟩ s s true ns vs rfl
        (by simp [realLen]) rfl rfl rfl rfl rfl (by intro d; simp [sOutside])
        (fun e => by
          have : (s.axis == Axis.attribute) = false := by simpa using ha
          simp [lastVal, lastResult, sVal, this, Val.truthy])).flatten _ hroot 0 (Nat.le_refl _) _ _ hinit).1
  | false =>
    cases hax : s.axis with
    | descendantOrSelf =>
      have hg : gSteps [s] false = [s] := by simp [gSteps, hax]
      have hs : sSteps [s] = [s] := by simp [sSteps, hax]
      rw [hg, hs]
      exact ((sim_all [s] [s] s s s false ns vs rfl (by simp [realLen, hax]) hax rfl rfl rfl rfl
        (by intro d; simp [sOutside, hax])
        (fun e => lastVal_nonattr [] s (by simp [hax]) e ns)).flatten _ hroot 0 (Nat.le_refl _) _ _ hinit).1
    | self =>
      have hg : gSteps [s] false = [s] := by simp [gSteps, hax]
      have hs : sSteps [s] = [s] := by simp [sSteps, hax]
      rw [hg, hs]
      have hi : RAt 0 0 0 [] 0 gInit ⟨[], 0⟩ := ⟨0, rfl, rfl, by decide, rfl, rfl⟩
      exact ((sim_at 0 0 0 [] [s] [s] s s s ns vs rfl (by simp [realLen, hax]) (by simp [isDescLike, hax])
        rfl rfl rfl rfl (by intro d; simp [sOutside, hax])
        (fun e => lastVal_nonattr [] s (by simp [hax]) e ns)).flatten _ hroot 0 (Nat.le_refl _) _ _ hi).1
    | «attribute» =>
      have hg : gSteps [s] false = [dotSlash, s] := by simp [gSteps, hax]
      have hs : sSteps [s] = [dotSlash, s] := by simp [sSteps, hax]
      rw [hg, hs]
      have hi : RAt 0 0 0 [] 0 gInit ⟨[], 0⟩ := ⟨0, rfl, rfl, by decide, rfl, rfl⟩
      exact ((sim_at 0 0 0 [] [dotSlash, s] [dotSlash, s] dotSlash dotSlash s ns vs rfl
        (by simp [realLen, hax]) (by simp [isDescLike, dotSlash])
        rfl rfl rfl rfl (by intro d; simp [sOutside, dotSlash])
        (fun e => lastVal_attr [dotSlash] s hax e ns)).flatten _ hroot 0 (Nat.le_refl _) _ _ hi).1
    | child =>
      have hg : gSteps [s] false = [dotSlash, s] := by simp [gSteps, hax]
      have hs : sSteps [s] = [s] := by simp [sSteps, hax]
      rw [hg, hs]
      simp only [Node.flatten, runOne_cons, runOne_append]
      rw [gStep_root s ns vs gInit tag attrs [] rfl (by decide) (Or.inl hax),
          sStep_run [s] s s rfl rfl false ns vs ⟨[], 0⟩ (.start tag attrs) rfl rfl]
      have ho : sOutside false s (0 : Int) = true := by simp [sOutside, hax]
      simp only [ho, if_true]
      have hi : RAt 1 1 1 [[⟨0, [0]⟩]] 1 ⟨[⟨1, [gInit.store.length]⟩] :: gInit.stack, gInit.store ++ [[]]⟩
          (sBump false (.start tag attrs) ⟨[], 0⟩) :=
        ⟨0, rfl, rfl, by decide, rfl, rfl⟩
      have hk := (sim_at 1 1 1 [[⟨0, [0]⟩]] [dotSlash, s] [s] s s s ns vs rfl (by simp [realLen, hax])
        (by simp [isDescLike, hax]) rfl rfl rfl rfl (by intro d; simp [sOutside, hax])
        (fun e => lastVal_nonattr [dotSlash] s (by simp [hax]) e ns)).flattenList kids hok 1 (Nat.le_refl _) _ _ hi
      rw [hk.1]
      simp [runOne, gStep_end, sStep_end]
    | descendant =>
      have hg : gSteps [s] false = [dotSlash, s] := by simp [gSteps, hax]
      have hs : sSteps [s] = [s] := by simp [sSteps, hax]
      rw [hg, hs]
      simp only [Node.flatten, runOne_cons, runOne_append]
      rw [gStep_root s ns vs gInit tag attrs [] rfl (by decide) (Or.inr hax),
          sStep_run [s] s s rfl rfl false ns vs ⟨[], 0⟩ (.start tag attrs) rfl rfl]
      have ho : sOutside false s (0 : Int) = true := by simp [sOutside, hax]
      simp only [ho, if_true]
      have hi : RDesc 1 1 [[⟨0, [0]⟩]] 1 ⟨[⟨1, [gInit.store.length]⟩] :: gInit.stack, gInit.store ++ [[]]⟩
          (sBump false (.start tag attrs) ⟨[], 0⟩) :=
        ⟨0, rfl, rfl, by decide, rfl, rfl⟩
      have hk := (sim_desc 1 1 [[⟨0, [0]⟩]] [dotSlash, s] [s] s s s ns vs rfl (by simp [realLen, hax])
        (by simp [isDescLike, hax]) rfl rfl rfl rfl (by intro d; simp [sOutside, hax])
        (fun e => lastVal_nonattr [dotSlash] s (by simp [hax]) e ns)).flattenList kids hok 1 (Nat.le_refl _) _ _ hi
      rw [hk.1]
      simp [runOne, gStep_end, sStep_end]

/-- the statement as it was before genshi fix 996160a made the hypothesis on the attribute test
    superfluous (kept for its users) -/
theorem single_eq_generic_run (s : Step) (ic : Bool) (ns : NsMap) (vs : Vars)
    (tag : QName) (attrs : AttrList) (kids : List Node) (hok : okList kids = true)
    (_hattr : s.axis = .attribute → s.test.attrFlag = true) :
    (runOne (gStep (gSteps [s] ic) ns vs) gInit (Node.elem tag attrs kids).flatten).1
      = (runOne (sStep (sSteps [s]) ic ns vs) ⟨[], 0⟩ (Node.elem tag attrs kids).flatten).1 :=
  single_eq_generic_run_full s ic ns vs tag attrs kids hok

end Genshi.Path

/-
  C07 — `HTMLParser.handle_pi`: what `piEvent` computes, for every string the tokenizer may hand over.

      if data.endswith('?'): data = data[:-1]
      try: target, data = data.split(None, 1)
      except ValueError: target = data; data = ''
      self._enqueue(PI, (target.strip(), data.strip()))

  * the target never contains white space, the data never begins or ends with white space (all inputs);
  * `ws t ws+ d ws [?]` gives `(t, d)`, `ws t ws [?]` gives `(t, '')` — a complete description, since every
    string is of one of the two shapes.
  (the strip lemmas are restated here so that this file depends on the C07 model only)
-/
import Genshi.Model.ParseHtml
namespace Genshi.Parse
open Genshi Genshi.Str

/-! ### `lstripBy` / `rstripBy` / `stripBy` -/

theorem pi_lstrip_append (p : Char → Bool) : ∀ (a b : Str),
    lstripBy p (a ++ b) = if a.all p then lstripBy p b else lstripBy p a ++ b
  | [], b => by simp
  | c :: cs, b => by
      by_cases hc : p c = true
      · simp only [List.cons_append, lstripBy, hc, ↓reduceIte, List.all_cons, Bool.true_and]
        exact pi_lstrip_append p cs b
      · simp [lstripBy, hc]

theorem pi_lstrip_all (p : Char → Bool) : ∀ (a : Str), a.all p = true → lstripBy p a = []
  | [], _ => rfl
  | c :: cs, h => by
      simp only [List.all_cons, Bool.and_eq_true] at h
      simp [lstripBy, h.1, pi_lstrip_all p cs h.2]

theorem pi_lstrip_nil_all (p : Char → Bool) : ∀ (a : Str), lstripBy p a = [] → a.all p = true
  | [], _ => rfl
  | c :: cs, h => by
      by_cases hc : p c = true
      · simp only [lstripBy, hc, ↓reduceIte] at h
        simp [hc, pi_lstrip_nil_all p cs h]
      · simp [lstripBy, hc] at h

/-- what `lstrip` returns is empty or begins with a character that is kept -/
theorem pi_lstrip_head (p : Char → Bool) : ∀ (a : Str),
    lstripBy p a = [] ∨ ∃ c cs, lstripBy p a = c :: cs ∧ p c = false
  | [] => .inl rfl
  | c :: cs => by
      by_cases hc : p c = true
      · simp only [lstripBy, hc, ↓reduceIte]; exact pi_lstrip_head p cs
      · right; exact ⟨c, cs, by simp [lstripBy, hc], by simpa using hc⟩

theorem pi_lstrip_id_of_head (p : Char → Bool) (a : Str)
    (h : a = [] ∨ ∃ c cs, a = c :: cs ∧ p c = false) : lstripBy p a = a := by
  rcases h with rfl | ⟨c, cs, rfl, hc⟩
  · rfl
  · simp [lstripBy, hc]

theorem pi_lstrip_idem (p : Char → Bool) (a : Str) : lstripBy p (lstripBy p a) = lstripBy p a :=
  pi_lstrip_id_of_head p _ (pi_lstrip_head p a)

theorem pi_lstrip_mem (p : Char → Bool) : ∀ (a : Str), ∀ c ∈ lstripBy p a, c ∈ a
  | [], c, h => by simp [lstripBy] at h
  | x :: xs, c, h => by
      by_cases hx : p x = true
      · simp only [lstripBy, hx, ↓reduceIte] at h
        exact List.mem_cons_of_mem _ (pi_lstrip_mem p xs c h)
      · simpa [lstripBy, hx] using h

/-- `lstrip` removes a prefix of stripped characters -/
theorem pi_lstrip_decomp (p : Char → Bool) : ∀ (a : Str), ∃ w, a = w ++ lstripBy p a ∧ w.all p = true
  | [] => ⟨[], rfl, rfl⟩
  | c :: cs => by
      by_cases hc : p c = true
      · obtain ⟨w, hw, hp⟩ := pi_lstrip_decomp p cs
        refine ⟨c :: w, ?_, by simp [hc, hp]⟩
        simp only [lstripBy, hc, ↓reduceIte, List.cons_append]
        rw [← hw]
      · exact ⟨[], by simp [lstripBy, hc], rfl⟩

theorem pi_rstrip_append (p : Char → Bool) (a b : Str) :
    rstripBy p (a ++ b) = if b.all p then rstripBy p a else a ++ rstripBy p b := by
  unfold rstripBy
  rw [List.reverse_append, pi_lstrip_append]
  simp only [List.all_reverse]
  split <;> simp

theorem pi_rstrip_mem (p : Char → Bool) (a : Str) : ∀ c ∈ rstripBy p a, c ∈ a := by
  intro c h
  unfold rstripBy at h
  have := pi_lstrip_mem p a.reverse c (by simpa using h)
  simpa using this

theorem pi_rstrip_idem (p : Char → Bool) (a : Str) : rstripBy p (rstripBy p a) = rstripBy p a := by
  unfold rstripBy
  rw [List.reverse_reverse, pi_lstrip_idem]

/-- `rstrip` removes a suffix of stripped characters -/
theorem pi_rstrip_decomp (p : Char → Bool) (a : Str) : ∃ w, a = rstripBy p a ++ w ∧ w.all p = true := by
  obtain ⟨w, hw, hp⟩ := pi_lstrip_decomp p a.reverse
  refine ⟨w.reverse, ?_, by simpa using hp⟩
  unfold rstripBy
  rw [← List.reverse_append, ← hw, List.reverse_reverse]

/-- `rstrip` keeps the beginning: a string that begins with a kept character still does afterwards -/
theorem pi_lstrip_rstrip (p : Char → Bool) (a : Str) (h : lstripBy p a = a) :
    lstripBy p (rstripBy p a) = rstripBy p a := by
  apply pi_lstrip_id_of_head
  obtain ⟨w, hw, _⟩ := pi_rstrip_decomp p a
  cases hr : rstripBy p a with
  | nil => exact .inl rfl
  | cons c cs =>
    right
    refine ⟨c, cs, rfl, ?_⟩
    rw [hr] at hw
    rcases pi_lstrip_head p a with h0 | ⟨c', cs', h1, hc'⟩
    · rw [h] at h0; rw [h0] at hw; simp at hw
    · rw [h, hw] at h1
      simp only [List.cons_append, List.cons.injEq] at h1
      rw [h1.1]; exact hc'

theorem pi_strip_lstrip (p : Char → Bool) (s : Str) : lstripBy p (stripBy p s) = stripBy p s := by
  unfold stripBy
  exact pi_lstrip_rstrip p _ (pi_lstrip_idem p s)

theorem pi_strip_rstrip (p : Char → Bool) (s : Str) : rstripBy p (stripBy p s) = stripBy p s := by
  unfold stripBy
  exact pi_rstrip_idem p _

/-- `strip` is idempotent -/
theorem pi_strip_idem (p : Char → Bool) (s : Str) : stripBy p (stripBy p s) = stripBy p s := by
  show rstripBy p (lstripBy p (stripBy p s)) = stripBy p s
  rw [pi_strip_lstrip, pi_strip_rstrip]

theorem pi_strip_mem (p : Char → Bool) (s : Str) : ∀ c ∈ stripBy p s, c ∈ s := by
  intro c h
  unfold stripBy at h
  exact pi_lstrip_mem p s c (pi_rstrip_mem p _ c h)

/-! ### the pieces of `handle_pi` -/

/-- no character of `t` is white space (`str.isspace`) -/
def NoSp (t : Str) : Prop := t.all (fun c => !isPySpace c) = true
/-- every character of `w` is white space -/
def AllSp (w : Str) : Prop := w.all isPySpace = true

instance (t : Str) : Decidable (NoSp t) := by unfold NoSp; infer_instance
instance (w : Str) : Decidable (AllSp w) := by unfold AllSp; infer_instance

theorem NoSp.head {t : Str} (h : NoSp t) : t = [] ∨ ∃ c cs, t = c :: cs ∧ isPySpace c = false := by
  cases t with
  | nil => exact .inl rfl
  | cons c cs =>
    right
    simp only [NoSp, List.all_cons, Bool.and_eq_true, Bool.not_eq_true'] at h
    exact ⟨c, cs, rfl, h.1⟩

theorem NoSp.of_mem {t u : Str} (h : NoSp t) (hm : ∀ c ∈ u, c ∈ t) : NoSp u := by
  simp only [NoSp, List.all_eq_true, Bool.not_eq_true'] at h ⊢
  exact fun c hc => h c (hm c hc)

theorem NoSp.lstrip {t : Str} (h : NoSp t) : lstripBy isPySpace t = t :=
  pi_lstrip_id_of_head _ _ h.head

theorem NoSp.reverse {t : Str} (h : NoSp t) : NoSp t.reverse :=
  h.of_mem (by simp)

theorem NoSp.rstrip {t : Str} (h : NoSp t) : rstripBy isPySpace t = t := by
  unfold rstripBy
  rw [h.reverse.lstrip, List.reverse_reverse]

theorem NoSp.strip {t : Str} (h : NoSp t) : stripBy isPySpace t = t := by
  unfold stripBy
  rw [h.lstrip, h.rstrip]

theorem spanNonSpace_fst_nosp : ∀ (s : Str), NoSp (spanNonSpace s).1
  | [] => rfl
  | c :: cs => by
      by_cases hc : isPySpace c = true
      · simp [spanNonSpace, hc, NoSp]
      · have ih := spanNonSpace_fst_nosp cs
        simp only [NoSp] at ih
        simp [spanNonSpace, hc, NoSp, ih]

/-- the first field ends where white space begins -/
theorem spanNonSpace_append : ∀ (t r : Str), NoSp t → (r = [] ∨ ∃ c cs, r = c :: cs ∧ isPySpace c = true) →
    spanNonSpace (t ++ r) = (t, r)
  | [], r, _, hr => by
      rcases hr with rfl | ⟨c, cs, rfl, hc⟩
      · rfl
      · simp [spanNonSpace, hc]
  | x :: xs, r, ht, hr => by
      simp only [NoSp, List.all_cons, Bool.and_eq_true, Bool.not_eq_true'] at ht
      have ih := spanNonSpace_append xs r ht.2 hr
      simp [spanNonSpace, ht.1, ih]

/-- `handle_pi` after the `endswith('?')` clause -/
def piOf (d : Str) : Event :=
  let sp := spanNonSpace (Str.lstripBy isPySpace d)
  let rest := Str.lstripBy isPySpace sp.2
  if rest.isEmpty then .pi (Str.stripBy isPySpace d) []
  else .pi (Str.stripBy isPySpace sp.1) (Str.stripBy isPySpace rest)

theorem piEvent_eq (s : Str) : piEvent s = piOf (dropLastQ s) := rfl

theorem dropLastQ_snoc (x : Str) : dropLastQ (x ++ ['?']) = x := by
  simp [dropLastQ]

theorem dropLastQ_id (x : Str) (h : x.getLast? ≠ some '?') : dropLastQ x = x := by
  simp [dropLastQ, h]

/-- only one `?` is taken, and only the very last character -/
theorem dropLastQ_length (x : Str) : (dropLastQ x).length = x.length ∨ (dropLastQ x).length + 1 = x.length := by
  unfold dropLastQ
  split
  · right
    cases x with
    | nil => simp at *
    | cons c cs => simp
  · exact .inl rfl

/-- **for every string**: the target has no white space, the data is stripped -/
theorem piOf_shape (d0 t d : Str) (h : piOf d0 = .pi t d) : NoSp t ∧ stripBy isPySpace d = d := by
  unfold piOf at h
  dsimp only at h
  split at h
  · rename_i hrest
    simp only [Event.pi.injEq] at h
    obtain ⟨rfl, rfl⟩ := h
    refine ⟨?_, rfl⟩
    -- `lstrip d0 = sp.1 ++ sp.2`, `sp.2` is white space only
    have hall : (spanNonSpace (lstripBy isPySpace d0)).2.all isPySpace = true :=
      pi_lstrip_nil_all _ _ (by simpa using hrest)
    have hsplit : ∀ s, (spanNonSpace s).1 ++ (spanNonSpace s).2 = s := by
      intro s
      induction s with
      | nil => rfl
      | cons c cs ih =>
        by_cases hc : isPySpace c = true
        · simp [spanNonSpace, hc]
        · simp [spanNonSpace, hc, ih]
    have h1 : stripBy isPySpace d0 = rstripBy isPySpace (spanNonSpace (lstripBy isPySpace d0)).1 := by
      unfold stripBy
      conv => lhs; rw [← hsplit (lstripBy isPySpace d0)]
      rw [pi_rstrip_append, if_pos hall]
    rw [h1]
    exact (spanNonSpace_fst_nosp _).of_mem (pi_rstrip_mem _ _)
  · simp only [Event.pi.injEq] at h
    obtain ⟨rfl, rfl⟩ := h
    exact ⟨(spanNonSpace_fst_nosp _).of_mem (pi_strip_mem _ _), pi_strip_idem _ _⟩

/-- `ws target ws+ data ws` → `(target, data)` -/
theorem piOf_two_fields (w0 t w1 d w2 : Str) (h0 : AllSp w0) (ht : NoSp t) (hne : t ≠ []) (h1 : AllSp w1)
    (h1ne : w1 ≠ []) (hd : stripBy isPySpace d = d) (hdne : d ≠ []) (h2 : AllSp w2) :
    piOf (w0 ++ (t ++ (w1 ++ (d ++ w2)))) = .pi t d := by
  have h0 : w0.all isPySpace = true := h0
  have h1 : w1.all isPySpace = true := h1
  have h2 : w2.all isPySpace = true := h2
  have hdl : lstripBy isPySpace d = d := by rw [← hd]; exact pi_strip_lstrip _ _
  have hdr : rstripBy isPySpace d = d := by rw [← hd]; exact pi_strip_rstrip _ _
  have htall : t.all isPySpace = false := by
    rcases ht.head with rfl | ⟨c, cs, rfl, hc⟩
    · exact absurd rfl hne
    · simp [hc]
  have hdall : d.all isPySpace = false := by
    rcases pi_lstrip_head isPySpace d with h | ⟨c, cs, h, hc⟩
    · rw [hdl] at h; exact absurd h hdne
    · rw [hdl] at h; subst h; simp [hc]
  have hl : lstripBy isPySpace (w0 ++ (t ++ (w1 ++ (d ++ w2)))) = t ++ (w1 ++ (d ++ w2)) := by
    rw [pi_lstrip_append, if_pos h0, pi_lstrip_append, htall, ht.lstrip]; simp
  have hw1 : w1 ++ (d ++ w2) = [] ∨ ∃ c cs, w1 ++ (d ++ w2) = c :: cs ∧ isPySpace c = true := by
    cases w1 with
    | nil => exact absurd rfl h1ne
    | cons c cs =>
      right
      simp only [List.all_cons, Bool.and_eq_true] at h1
      exact ⟨c, cs ++ (d ++ w2), rfl, h1.1⟩
  have hrest : lstripBy isPySpace (w1 ++ (d ++ w2)) = d ++ w2 := by
    rw [pi_lstrip_append, if_pos h1, pi_lstrip_append, hdall, hdl]; simp
  have hne' : (d ++ w2).isEmpty = false := by
    cases d with
    | nil => exact absurd rfl hdne
    | cons c cs => rfl
  unfold piOf
  dsimp only
  rw [hl, spanNonSpace_append t _ ht hw1]
  dsimp only
  rw [hrest, hne']
  simp only [Bool.false_eq_true, ↓reduceIte, Event.pi.injEq]
  refine ⟨ht.strip, ?_⟩
  unfold stripBy
  rw [pi_lstrip_append, hdall, hdl]
  simp only [Bool.false_eq_true, ↓reduceIte]
  rw [pi_rstrip_append, if_pos h2, hdr]

/-- `ws target ws` → `(target, '')` (also the empty target) -/
theorem piOf_one_field (w0 t w2 : Str) (h0 : AllSp w0) (ht : NoSp t) (h2 : AllSp w2) :
    piOf (w0 ++ (t ++ w2)) = .pi t [] := by
  have h0 : w0.all isPySpace = true := h0
  have h2 : w2.all isPySpace = true := h2
  have hw2 : w2 = [] ∨ ∃ c cs, w2 = c :: cs ∧ isPySpace c = true := by
    cases w2 with
    | nil => exact .inl rfl
    | cons c cs =>
      simp only [List.all_cons, Bool.and_eq_true] at h2
      exact .inr ⟨c, cs, rfl, h2.1⟩
  have hl : lstripBy isPySpace (w0 ++ (t ++ w2)) = lstripBy isPySpace (t ++ w2) := by
    rw [pi_lstrip_append, if_pos h0]
  unfold piOf
  dsimp only
  by_cases hte : t = []
  · subst hte
    have hz : lstripBy isPySpace (w0 ++ ([] ++ w2)) = [] := by
      rw [hl]; exact pi_lstrip_all _ _ h2
    have hs : stripBy isPySpace (w0 ++ ([] ++ w2)) = [] := by
      unfold stripBy; rw [hz]; rfl
    rw [hs, hz]
    simp [spanNonSpace, lstripBy]
  · have hlt : lstripBy isPySpace (t ++ w2) = t ++ w2 := by
      rcases ht.head with rfl | ⟨c, cs, rfl, hc⟩
      · exact absurd rfl hte
      · simp [lstripBy, hc]
    have hs : stripBy isPySpace (w0 ++ (t ++ w2)) = t := by
      unfold stripBy
      rw [hl, hlt, pi_rstrip_append, if_pos h2, ht.rstrip]
    rw [hs, hl, hlt, spanNonSpace_append t w2 ht hw2]
    dsimp only
    rw [pi_lstrip_all _ _ h2]
    simp

end Genshi.Parse

/-
  C03 — the rewriting loses nothing: `unxf (xf L e) = e`.
-/
import Genshi.Model.PyUnxf
import Genshi.Lemmas.PyEval
namespace Genshi.Py

def lookupFns : List Str := [cs!"_lookup_name", cs!"_lookup_attr", cs!"_lookup_item"]

/-- the function position of a call is not (the bare name of) one of the lookup functions -/
def plainCall : PyExpr → Bool
  | .name n => !lookupFns.contains n
  | _ => true

mutual
/-- the tree does not itself contain calls of the lookup functions (they are not valid template
    code: the names are reserved), and comprehension clauses are where they belong -/
def noLookup : PyExpr → Bool
  | .name _ => true
  | .const _ => true
  | .boolOp _ vs => noLookupL vs
  | .binOp l _ r => noLookup l && noLookup r
  | .unaryOp _ e => noLookup e
  | .lambda po ar va ko ka body =>
      noLookupL po && noLookupL ar && noLookupO va && noLookupL ko && noLookupO ka && noLookup body
  | .ifExp t b o => noLookup t && noLookup b && noLookup o
  | .dict items => noLookupL items
  | .listComp elt gens => gens.all isCompE && noLookup elt && noLookupL gens
  | .genExp elt gens => gens.all isCompE && noLookup elt && noLookupL gens
  | .yield_ v => noLookupO v
  | .compare l rest => noLookup l && noLookupL rest
  | .call f args kws => plainCall f && noLookup f && noLookupL args && noLookupL kws
  | .attribute v _ => noLookup v
  | .subscript v s => noLookup v && noLookup s
  | .slice l u st => noLookupO l && noLookupO u && noLookupO st
  | .starred e => noLookup e
  | .list elts => noLookupL elts
  | .tuple elts => noLookupL elts
  | .unsupported _ => true
  | .keyword _ v => noLookup v
  | .comp t it ifs _ => noLookup t && noLookup it && noLookupL ifs
  | .param _ ann d => noLookupO ann && noLookupO d
  | .dictItem k v => noLookupO k && noLookup v
  | .cmpRhs _ e => noLookup e
def noLookupL : List PyExpr → Bool
  | [] => true
  | e :: es => noLookup e && noLookupL es
def noLookupO : Option PyExpr → Bool
  | none => true
  | some e => noLookup e
end

theorem unquote_quote (s : Str) : unquote ('\'' :: (s ++ ['\''])) = s := by
  simp [unquote]

theorem collapse_plain (f : PyExpr) (args kws : List PyExpr) (h : plainCall f = true) :
    collapse (.call f args kws) = .call f args kws := by
  unfold collapse
  split
  · rename_i n a1 a2 heq
    injection heq with h1 h2 h3
    subst h1 h2 h3
    simp only [plainCall, lookupFns, List.contains_cons, List.contains_nil, Bool.or_false, Bool.not_eq_true',
      Bool.or_eq_false_iff, beq_eq_false_iff_ne, ne_eq] at h
    simp [h.1, h.2.1, h.2.2]
  · rfl

theorem collapse_name (id : Str) : collapse (lookupNameCall id) = .name id := by
  simp [collapse, lookupNameCall, strConst, unquote_quote]

theorem collapse_attr (v : PyExpr) (a : Str) : collapse (lookupAttrCall v a) = .attribute v a := by
  simp [collapse, lookupAttrCall, strConst, unquote_quote]

theorem collapse_item (v k : PyExpr) : collapse (lookupItemCall v k) = .subscript v k := by
  simp [collapse, lookupItemCall]

mutual
theorem unxf_id : ∀ (e : PyExpr), noLookup e = true → unxf e = e
  | .name _, _ => rfl
  | .const _, _ => rfl
  | .boolOp op vs, h => by simp only [noLookup] at h; simp [unxf, unxfL_id vs h]
  | .binOp l op r, h => by
      simp only [noLookup, Bool.and_eq_true] at h; simp [unxf, unxf_id l h.1, unxf_id r h.2]
  | .unaryOp op e, h => by simp only [noLookup] at h; simp [unxf, unxf_id e h]
  | .lambda po ar va ko ka body, h => by
      simp only [noLookup, Bool.and_eq_true] at h
      obtain ⟨⟨⟨⟨⟨h1, h2⟩, h3⟩, h4⟩, h5⟩, h6⟩ := h
      simp [unxf, unxfL_id po h1, unxfL_id ar h2, unxfO_id va h3, unxfL_id ko h4, unxfO_id ka h5, unxf_id body h6]
  | .ifExp t b o, h => by
      simp only [noLookup, Bool.and_eq_true] at h
      simp [unxf, unxf_id t h.1.1, unxf_id b h.1.2, unxf_id o h.2]
  | .dict items, h => by simp only [noLookup] at h; simp [unxf, unxfL_id items h]
  | .listComp elt gens, h => by
      simp only [noLookup, Bool.and_eq_true] at h; simp [unxf, unxf_id elt h.1.2, unxfL_id gens h.2]
  | .genExp elt gens, h => by
      simp only [noLookup, Bool.and_eq_true] at h; simp [unxf, unxf_id elt h.1.2, unxfL_id gens h.2]
  | .yield_ v, h => by simp only [noLookup] at h; simp [unxf, unxfO_id v h]
  | .compare l rest, h => by
      simp only [noLookup, Bool.and_eq_true] at h; simp [unxf, unxf_id l h.1, unxfL_id rest h.2]
  | .call f args kws, h => by
      simp only [noLookup, Bool.and_eq_true] at h
      simp only [unxf, unxf_id f h.1.1.2, unxfL_id args h.1.2, unxfL_id kws h.2]
      exact collapse_plain f args kws h.1.1.1
  | .attribute v a, h => by simp only [noLookup] at h; simp [unxf, unxf_id v h]
  | .subscript v s, h => by
      simp only [noLookup, Bool.and_eq_true] at h; simp [unxf, unxf_id v h.1, unxf_id s h.2]
  | .slice l u st, h => by
      simp only [noLookup, Bool.and_eq_true] at h
      simp [unxf, unxfO_id l h.1.1, unxfO_id u h.1.2, unxfO_id st h.2]
  | .starred e, h => by simp only [noLookup] at h; simp [unxf, unxf_id e h]
  | .list elts, h => by simp only [noLookup] at h; simp [unxf, unxfL_id elts h]
  | .tuple elts, h => by simp only [noLookup] at h; simp [unxf, unxfL_id elts h]
  | .unsupported _, _ => rfl
  | .keyword n v, h => by simp only [noLookup] at h; simp [unxf, unxf_id v h]
  | .comp t it ifs a, h => by
      simp only [noLookup, Bool.and_eq_true] at h
      simp [unxf, unxf_id t h.1.1, unxf_id it h.1.2, unxfL_id ifs h.2]
  | .param n ann d, h => by
      simp only [noLookup, Bool.and_eq_true] at h; simp [unxf, unxfO_id ann h.1, unxfO_id d h.2]
  | .dictItem k v, h => by
      simp only [noLookup, Bool.and_eq_true] at h; simp [unxf, unxfO_id k h.1, unxf_id v h.2]
  | .cmpRhs op e, h => by simp only [noLookup] at h; simp [unxf, unxf_id e h]
theorem unxfL_id : ∀ (es : List PyExpr), noLookupL es = true → unxfL es = es
  | [], _ => rfl
  | e :: es, h => by
      simp only [noLookupL, Bool.and_eq_true] at h; simp [unxfL, unxf_id e h.1, unxfL_id es h.2]
theorem unxfO_id : ∀ (o : Option PyExpr), noLookupO o = true → unxfO o = o
  | none, _ => rfl
  | some e, h => by simp only [noLookupO] at h; simp [unxfO, unxf_id e h]
end

mutual
theorem unxf_xf : ∀ (e : PyExpr) (L : List (List Str)), noLookup e = true → unxf (xf L e) = e
  | .name id, L, _ => by
      simp only [xf]
      split
      · rfl
      · show collapse (.call (unxf (.name cs!"_lookup_name")) (unxfL [.name cs!"__data__", strConst id]) (unxfL [])) = _
        exact collapse_name id
  | .const _, _, _ => rfl
  | .boolOp op vs, L, h => by simp only [noLookup] at h; simp [xf, unxf, unxf_xfL vs L h]
  | .binOp l op r, L, h => by
      simp only [noLookup, Bool.and_eq_true] at h; simp [xf, unxf, unxf_xf l L h.1, unxf_xf r L h.2]
  | .unaryOp op e, L, h => by simp only [noLookup] at h; simp [xf, unxf, unxf_xf e L h]
  | .lambda po ar va ko ka body, L, h => by
      simp only [noLookup, Bool.and_eq_true] at h
      obtain ⟨⟨⟨⟨⟨h1, h2⟩, h3⟩, h4⟩, h5⟩, h6⟩ := h
      simp [xf, unxf, unxf_xfL po L h1, unxf_xfL ar L h2, unxf_xfO va L h3, unxf_xfL ko L h4, unxf_xfO ka L h5,
        unxf_xf body _ h6]
  | .ifExp t b o, L, h => by
      simp only [noLookup, Bool.and_eq_true] at h
      simp [xf, unxf, unxf_xf t L h.1.1, unxf_xf b L h.1.2, unxf_xf o L h.2]
  | .dict items, L, h => by simp only [noLookup] at h; simp [xf, unxf, unxf_xfL items L h]
  | .listComp elt gens, L, h => by
      simp only [noLookup, Bool.and_eq_true] at h
      simp [xf, unxf, unxf_xf elt _ h.1.2, unxf_xfGens gens L _ h.2 h.1.1]
  | .genExp elt gens, L, h => by
      simp only [noLookup, Bool.and_eq_true] at h
      simp [xf, unxf, unxf_xf elt _ h.1.2, unxf_xfGens gens L _ h.2 h.1.1]
  | .yield_ v, L, h => by simp only [noLookup] at h; simp [xf, unxf, unxf_xfO v L h]
  | .compare l rest, L, h => by
      simp only [noLookup, Bool.and_eq_true] at h; simp [xf, unxf, unxf_xf l L h.1, unxf_xfL rest L h.2]
  | .call f args kws, L, h => by
      simp only [noLookup, Bool.and_eq_true] at h
      simp only [xf, unxf, unxf_xf f L h.1.1.2, unxf_xfL args L h.1.2, unxf_xfL kws L h.2]
      exact collapse_plain f args kws h.1.1.1
  | .attribute v a, L, h => by
      simp only [noLookup] at h
      show collapse (.call (unxf (.name cs!"_lookup_attr")) (unxfL [xf L v, strConst a]) (unxfL [])) = _
      simp only [unxfL, unxf, unxf_xf v L h, strConst]
      exact collapse_attr v a
  | .subscript v s, L, h => by
      simp only [noLookup, Bool.and_eq_true] at h
      simp only [xf]
      split
      · simp [unxf, unxf_xf v L h.1, unxf_xf s L h.2]
      · show collapse (.call (unxf (.name cs!"_lookup_item")) (unxfL [xf L v, .tuple [xf L s]]) (unxfL [])) = _
        simp only [unxfL, unxf, unxf_xf v L h.1, unxf_xf s L h.2]
        exact collapse_item v s
  | .slice l u st, L, h => by
      simp only [noLookup, Bool.and_eq_true] at h
      simp [xf, unxf, unxf_xfO l L h.1.1, unxf_xfO u L h.1.2, unxf_xfO st L h.2]
  | .starred e, L, h => by simp only [noLookup] at h; simp [xf, unxf, unxf_xf e L h]
  | .list elts, L, h => by simp only [noLookup] at h; simp [xf, unxf, unxf_xfL elts L h]
  | .tuple elts, L, h => by simp only [noLookup] at h; simp [xf, unxf, unxf_xfL elts L h]
  | .unsupported _, _, _ => rfl
  | .keyword n v, L, h => by simp only [noLookup] at h; simp [xf, unxf, unxf_xf v L h]
  | .comp t it ifs a, L, h => by
      simp only [noLookup, Bool.and_eq_true] at h
      simp [xf, unxf, unxf_xfTarget t L h.1.1, unxf_xf it L h.1.2, unxf_xfL ifs L h.2]
  | .param n ann d, L, h => by
      simp only [noLookup, Bool.and_eq_true] at h; simp [xf, unxf, unxfO_id ann h.1, unxf_xfO d L h.2]
  | .dictItem k v, L, h => by
      simp only [noLookup, Bool.and_eq_true] at h; simp [xf, unxf, unxf_xfO k L h.1, unxf_xf v L h.2]
  | .cmpRhs op e, L, h => by simp only [noLookup] at h; simp [xf, unxf, unxf_xf e L h]
theorem unxf_xfL : ∀ (es : List PyExpr) (L : List (List Str)), noLookupL es = true → unxfL (xfL L es) = es
  | [], _, _ => rfl
  | e :: es, L, h => by
      simp only [noLookupL, Bool.and_eq_true] at h; simp [xfL, unxfL, unxf_xf e L h.1, unxf_xfL es L h.2]
theorem unxf_xfO : ∀ (o : Option PyExpr) (L : List (List Str)), noLookupO o = true → unxfO (xfO L o) = o
  | none, _, _ => rfl
  | some e, L, h => by simp only [noLookupO] at h; simp [xfO, unxfO, unxf_xf e L h]
theorem unxf_xfGens : ∀ (gens : List PyExpr) (L0 L1 : List (List Str)), noLookupL gens = true →
    gens.all isCompE = true → unxfL (xfGens L0 L1 gens) = gens
  | [], _, _, _, _ => rfl
  | .comp t it ifs a :: r, L0, L1, h, hc => by
      simp only [noLookupL, noLookup, Bool.and_eq_true] at h
      simp only [List.all_cons, Bool.and_eq_true] at hc
      simp [xfGens, unxfL, unxf, unxf_xfTarget t L1 h.1.1.1, unxf_xf it L0 h.1.1.2, unxf_xfL ifs L1 h.1.2,
        unxf_xfGens r L1 L1 h.2 hc.2]
  | .name _ :: r, _, _, _, hc => by simp [isCompE] at hc
  | .const _ :: r, _, _, _, hc => by simp [isCompE] at hc
  | .boolOp _ _ :: r, _, _, _, hc => by simp [isCompE] at hc
  | .binOp _ _ _ :: r, _, _, _, hc => by simp [isCompE] at hc
  | .unaryOp _ _ :: r, _, _, _, hc => by simp [isCompE] at hc
  | .lambda _ _ _ _ _ _ :: r, _, _, _, hc => by simp [isCompE] at hc
  | .ifExp _ _ _ :: r, _, _, _, hc => by simp [isCompE] at hc
  | .dict _ :: r, _, _, _, hc => by simp [isCompE] at hc
  | .listComp _ _ :: r, _, _, _, hc => by simp [isCompE] at hc
  | .genExp _ _ :: r, _, _, _, hc => by simp [isCompE] at hc
  | .yield_ _ :: r, _, _, _, hc => by simp [isCompE] at hc
  | .compare _ _ :: r, _, _, _, hc => by simp [isCompE] at hc
  | .call _ _ _ :: r, _, _, _, hc => by simp [isCompE] at hc
  | .attribute _ _ :: r, _, _, _, hc => by simp [isCompE] at hc
  | .subscript _ _ :: r, _, _, _, hc => by simp [isCompE] at hc
  | .slice _ _ _ :: r, _, _, _, hc => by simp [isCompE] at hc
  | .starred _ :: r, _, _, _, hc => by simp [isCompE] at hc
  | .list _ :: r, _, _, _, hc => by simp [isCompE] at hc
  | .tuple _ :: r, _, _, _, hc => by simp [isCompE] at hc
  | .unsupported _ :: r, _, _, _, hc => by simp [isCompE] at hc
  | .keyword _ _ :: r, _, _, _, hc => by simp [isCompE] at hc
  | .param _ _ _ :: r, _, _, _, hc => by simp [isCompE] at hc
  | .dictItem _ _ :: r, _, _, _, hc => by simp [isCompE] at hc
  | .cmpRhs _ _ :: r, _, _, _, hc => by simp [isCompE] at hc
theorem unxf_xfTarget : ∀ (e : PyExpr) (L : List (List Str)), noLookup e = true → unxf (xfTarget L e) = e
  | .name _, _, _ => rfl
  | .tuple elts, L, h => by simp only [noLookup] at h; simp [xfTarget, unxf, unxf_xfTargetL elts L h]
  | .list elts, L, h => by simp only [noLookup] at h; simp [xfTarget, unxf, unxf_xfTargetL elts L h]
  | .starred e, L, h => by simp only [noLookup] at h; simp [xfTarget, unxf, unxf_xfTarget e L h]
  | .attribute v a, L, h => by simp only [noLookup] at h; simp [xfTarget, unxf, unxf_xf v L h]
  | .subscript v s, L, h => by
      simp only [noLookup, Bool.and_eq_true] at h; simp [xfTarget, unxf, unxf_xf v L h.1, unxf_xf s L h.2]
  | .const _, L, h => by simpa [xfTarget] using unxf_id _ h
  | .boolOp _ _, L, h => by simpa [xfTarget] using unxf_id _ h
  | .binOp _ _ _, L, h => by simpa [xfTarget] using unxf_id _ h
  | .unaryOp _ _, L, h => by simpa [xfTarget] using unxf_id _ h
  | .lambda _ _ _ _ _ _, L, h => by simpa [xfTarget] using unxf_id _ h
  | .ifExp _ _ _, L, h => by simpa [xfTarget] using unxf_id _ h
  | .dict _, L, h => by simpa [xfTarget] using unxf_id _ h
  | .listComp _ _, L, h => by simpa [xfTarget] using unxf_id _ h
  | .genExp _ _, L, h => by simpa [xfTarget] using unxf_id _ h
  | .yield_ _, L, h => by simpa [xfTarget] using unxf_id _ h
  | .compare _ _, L, h => by simpa [xfTarget] using unxf_id _ h
  | .call _ _ _, L, h => by simpa [xfTarget] using unxf_id _ h
  | .slice _ _ _, L, h => by simpa [xfTarget] using unxf_id _ h
  | .unsupported _, L, h => by simpa [xfTarget] using unxf_id _ h
  | .keyword _ _, L, h => by simpa [xfTarget] using unxf_id _ h
  | .comp _ _ _ _, L, h => by simpa [xfTarget] using unxf_id _ h
  | .param _ _ _, L, h => by simpa [xfTarget] using unxf_id _ h
  | .dictItem _ _, L, h => by simpa [xfTarget] using unxf_id _ h
  | .cmpRhs _ _, L, h => by simpa [xfTarget] using unxf_id _ h
theorem unxf_xfTargetL : ∀ (es : List PyExpr) (L : List (List Str)), noLookupL es = true →
    unxfL (xfTargetL L es) = es
  | [], _, _ => rfl
  | e :: es, L, h => by
      simp only [noLookupL, Bool.and_eq_true] at h
      simp [xfTargetL, unxfL, unxf_xfTarget e L h.1, unxf_xfTargetL es L h.2]
end

end Genshi.Py

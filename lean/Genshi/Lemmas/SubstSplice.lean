/-
  C01 — a `Markup` text that is the serialization of tokens (author markup with tags and the
  escaped operands in its holes) can be replaced, in the stream the serializer sees, by the
  events of those tokens without changing the output (no whitespace stripping).  This composes
  `markup_format_site` into the template induction.
-/
import Genshi.Lemmas.SubstFmt
namespace Genshi.Subst
open Genshi.Escape Genshi.Str

/-- the serializer loop behind `EmptyTagFilter` in state `pend` -/
def serE (m : Method) (pend : Option (Name × List (Name × List Char))) (evs : List Ev) : List Char :=
  serToks m false (emptyTagsGo pend evs)

/-- a pending START must not be a raw-text element (so that `noescape` stays off) -/
def PendOk (m : Method) (pend : Option (Name × List (Name × List Char))) : Prop :=
  ∀ t a, pend = some (t, a) → (noescapeElems m).contains t = false

theorem PendOk.none (m : Method) : PendOk m none := by intro t a h; cases h

/-- the text a pending START is written as when something other than its END follows -/
def prePend (m : Method) : Option (Name × List (Name × List Char)) → List Char
  | some (t, a) => emitOpen m t a
  | none => []

theorem serE_text (m : Method) (pend : Option (Name × List (Name × List Char))) (hp : PendOk m pend)
    (s : List Char) (f : Bool) (rest : List Ev) :
    serE m pend (.text s f :: rest) =
      prePend m pend ++ ((if f then s else emitText m s) ++ serE m none rest) := by
  cases pend with
  | none => cases f <;> simp [serE, emptyTagsGo, serToks, prePend]
  | some p =>
    obtain ⟨t, a⟩ := p
    have hnm : t ∉ noescapeElems m := by simpa using hp t a rfl
    cases f <;> simp [serE, emptyTagsGo, serToks, prePend, hnm]

theorem serE_start (m : Method) (pend : Option (Name × List (Name × List Char))) (hp : PendOk m pend)
    (t : Name) (a : List (Name × List Char)) (rest : List Ev) :
    serE m pend (.start t a :: rest) = prePend m pend ++ serE m (some (t, a)) rest := by
  cases pend with
  | none => simp [serE, emptyTagsGo, prePend]
  | some p =>
    obtain ⟨t0, a0⟩ := p
    have hnm : t0 ∉ noescapeElems m := by simpa using hp t0 a0 rfl
    simp [serE, emptyTagsGo, serToks, prePend, hnm]

theorem serE_end (m : Method) (pend : Option (Name × List (Name × List Char))) (hp : PendOk m pend)
    (t : Name) (rest : List Ev) :
    serE m pend (.end_ t :: rest) =
      (match pend with
        | some (t0, a0) => emitEmpty m t0 a0
        | none => emitClose t) ++ serE m none rest := by
  cases pend with
  | none => simp [serE, emptyTagsGo, serToks]
  | some p =>
    obtain ⟨t0, a0⟩ := p
    have hnm : t0 ∉ noescapeElems m := by simpa using hp t0 a0 rfl
    simp [serE, emptyTagsGo, serToks, hnm]

/-- two event lists the serializer writes the same text for, in every context -/
def SameOut (m : Method) (a a' : List Ev) : Prop :=
  ∀ pend, PendOk m pend → ∀ rest rest' : List Ev,
    (∀ pend', PendOk m pend' → serE m pend' rest = serE m pend' rest') →
    serE m pend (a ++ rest) = serE m pend (a' ++ rest')

def StartsOk (m : Method) (evs : List Ev) : Prop :=
  ∀ t a, Ev.start t a ∈ evs → (noescapeElems m).contains t = false

theorem SameOut.refl (m : Method) (a : List Ev) (ha : StartsOk m a) : SameOut m a a := by
  intro pend hp rest rest' h
  induction a generalizing pend with
  | nil => exact h pend hp
  | cons e es ih =>
    have hes : StartsOk m es := fun t a' hm => ha t a' (List.mem_cons_of_mem _ hm)
    cases e with
    | text s f => simp only [List.cons_append, serE_text m pend hp, ih hes none (PendOk.none m)]
    | start t a' =>
      have ht : PendOk m (some (t, a')) := by
        intro t1 a1 e1; cases e1; exact ha t a' (by simp)
      simp only [List.cons_append, serE_start m pend hp, ih hes _ ht]
    | end_ t => simp only [List.cons_append, serE_end m pend hp, ih hes none (PendOk.none m)]

theorem SameOut.append {m : Method} {a a' b b' : List Ev} (h1 : SameOut m a a') (h2 : SameOut m b b') :
    SameOut m (a ++ b) (a' ++ b') := by
  intro pend hp rest rest' h
  rw [List.append_assoc, List.append_assoc]
  exact h1 pend hp (b ++ rest) (b' ++ rest') fun pend' hp' => h2 pend' hp' rest rest' h

theorem SameOut.wrap {m : Method} {a a' : List Ev} (t : Name) (at_ : List (Name × List Char))
    (ht : (noescapeElems m).contains t = false) (h : SameOut m a a') :
    SameOut m (.start t at_ :: (a ++ [.end_ t])) (.start t at_ :: (a' ++ [.end_ t])) := by
  intro pend hp rest rest' hr
  have hpt : PendOk m (some (t, at_)) := by intro t1 a1 e1; cases e1; exact ht
  simp only [List.cons_append, List.append_assoc, serE_start m pend hp]
  congr 1
  apply h _ hpt
  intro pend' hp'
  simp only [List.cons_append, List.nil_append, serE_end m pend' hp', hr none (PendOk.none m)]

/-- the events tokens of author markup are spliced in as: an empty text after every START keeps
    `EmptyTagFilter` from merging it with a following END (the author wrote `<b></b>`, not `<b/>`) -/
def spliceEvents : List Tok → List Ev
  | [] => []
  | .text s f :: rest => .text s f :: spliceEvents rest
  | .open t a :: rest => .start t a :: .text [] false :: spliceEvents rest
  | .close t :: rest => .end_ t :: spliceEvents rest
  | .empty t a :: rest => .start t a :: .end_ t :: spliceEvents rest

def simpleToks (m : Method) (toks : List Tok) : Prop :=
  ∀ tok ∈ toks, (∀ t a, tok ≠ .empty t a) ∧
    (∀ t a, tok = .open t a → (noescapeElems m).contains t = false ∧ attrsOkB m a = true)

theorem emitOpen_plain (m : Method) (t : Name) (a : List (Name × List Char)) (h : attrsOkB m a = true) :
    emitOpen m t a = emitOpen .xml t a := by
  have hx : attrsOkB .xml a = true := by
    simp only [attrsOkB, List.all_eq_true, Bool.and_eq_true] at h ⊢
    intro p hp; exact ⟨(h p hp).1, rfl⟩
  simp only [emitOpen, emitAttrs_plain m a h, emitAttrs_plain .xml a hx]

/-- the spliced events are written as the serialization of the tokens -/
theorem serE_splice (m : Method) (toks : List Tok) (hs : simpleToks m toks) (rest : List Ev) :
    serE m none (spliceEvents toks ++ rest) = serToks .xml false toks ++ serE m none rest := by
  induction toks with
  | nil => rfl
  | cons tok ts ih =>
    have hts : simpleToks m ts := fun x hx => hs x (List.mem_cons_of_mem _ hx)
    have ih' := ih hts
    cases tok with
    | text s f =>
      simp only [spliceEvents, List.cons_append, serE_text m none (PendOk.none m), prePend, List.nil_append, ih']
      cases f <;> simp [serToks, emitText]
    | close t =>
      simp only [spliceEvents, List.cons_append, serE_end m none (PendOk.none m), ih']
      simp [serToks]
    | «open» t a =>
      obtain ⟨hne, hat⟩ := (hs _ (by simp)).2 t a rfl
      have hpt : PendOk m (some (t, a)) := by intro t1 a1 e1; cases e1; exact hne
      simp only [spliceEvents, List.cons_append, serE_start m none (PendOk.none m), prePend, List.nil_append,
        serE_text m _ hpt, Bool.false_eq_true, ↓reduceIte, ih']
      simp [serToks, emitOpen_plain m t a hat, emitText, escapePy, noescapeElems, replace, replaceGo]
    | empty t a => exact absurd rfl ((hs _ (by simp)).1 t a)

/-- **a `Markup` text that is a serialization of tokens = those tokens in the stream** -/
theorem SameOut.splice (m : Method) (toks : List Tok) (hs : simpleToks m toks) :
    SameOut m [.text (serToks .xml false toks) true] (.text [] true :: spliceEvents toks) := by
  intro pend hp rest rest' hr
  simp only [List.cons_append, List.nil_append, serE_text m pend hp, ↓reduceIte, serE_splice m toks hs,
    hr none (PendOk.none m)]

/-! ### the invariant of the template induction, with spliced markup -/

/-- `evs` is written like a stream `evs'` the serializer / reader theorems apply to, and that
    stream reads as `exp` -/
def Sem (m : Method) (evs exp : List Ev) : Prop :=
  ∃ evs', SameOut m evs evs' ∧ StreamOk m evs' ∧ TEq evs' exp

theorem startsOk_of_streamOk {m : Method} {evs : List Ev} (h : StreamOk m evs) : StartsOk m evs := by
  intro t a hm
  have := h.ev _ hm
  simp only [evOkB, Bool.and_eq_true, Bool.not_eq_true'] at this
  exact this.2

theorem Sem.of_spec {m : Method} {evs exp : List Ev} (hs : StreamOk m evs) (ht : TEq evs exp) : Sem m evs exp :=
  ⟨evs, SameOut.refl m evs (startsOk_of_streamOk hs), hs, ht⟩

theorem Sem.append {m : Method} {a b ea eb : List Ev} (h1 : Sem m a ea) (h2 : Sem m b eb) :
    Sem m (a ++ b) (ea ++ eb) := by
  obtain ⟨a', s1, o1, t1⟩ := h1
  obtain ⟨b', s2, o2, t2⟩ := h2
  exact ⟨a' ++ b', SameOut.append s1 s2, StreamOk.append o1 o2, TEq.append t1 t2⟩

theorem Sem.wrap {m : Method} {kids exp : List Ev} (t : Name) (at_ : List (Name × List Char))
    (ht : tagOkB m t = true) (hat : attrsOkB m at_ = true) (hopen : openOk m t = true) (hk : Sem m kids exp) :
    Sem m (.start t at_ :: (kids ++ [.end_ t])) (.start t at_ :: (exp ++ [.end_ t])) := by
  obtain ⟨kids', s1, o1, t1⟩ := hk
  have hne : (noescapeElems m).contains t = false := by
    simp only [tagOkB, Bool.and_eq_true, Bool.not_eq_true'] at ht; exact ht.2
  exact ⟨.start t at_ :: (kids' ++ [.end_ t]), SameOut.wrap t at_ hne s1,
    StreamOk.wrap t at_ ht hat (Or.inl hopen) o1, TEq.wrap t at_ t1⟩

/-- what the template induction is for: re-reading (no stripping) -/
theorem Sem.read {m : Method} {evs exp : List Ev} (h : Sem m evs exp) :
    readDoc m (serialize m false evs) = some (coalesce exp) := by
  obtain ⟨evs', s1, o1, t1⟩ := h
  have hout : serialize m false evs = serialize m false evs' := by
    have := s1 none (PendOk.none m) [] [] (fun _ _ => rfl)
    simpa [serE, serialize, emptyTags] using this
  have hnest : emptyOkGo m none evs' = true := by
    have := o1.closed.1 []
    simpa [emptyOkGo] using this
  rw [hout, readDoc_serialize_nostrip m _ o1.ev o1.safe hnest]
  have := t1 (fun _ => flushData) [] 0 [] []
  simp only [List.append_nil, ← coalesceGo_eq_with] at this
  simp [coalesce, this]

/-! ### the `Markup(fmt) % (…)` site with author tags -/

theorem fillAttrs_names : ∀ (attrs : List (Name × FAttr)) (args : List (List Char))
    (at_ : List (Name × List Char)) (args' : List (List Char)),
    fillAttrs attrs args = some (at_, args') → at_.map (·.1) = attrs.map (·.1)
  | [], _, _, _, h => by simp only [fillAttrs, Option.some.injEq, Prod.mk.injEq] at h; rw [← h.1]; rfl
  | (n, .lit v) :: rest, args, at_, args', h => by
      simp only [fillAttrs, Option.map_eq_some_iff] at h
      obtain ⟨⟨a1, r1⟩, h1, h2⟩ := h
      simp only [Prod.mk.injEq] at h2
      rw [← h2.1]
      simp [fillAttrs_names rest args a1 r1 h1]
  | (n, .hole) :: rest, [], _, _, h => by simp [fillAttrs] at h
  | (n, .hole) :: rest, x :: xs, at_, args', h => by
      simp only [fillAttrs, Option.map_eq_some_iff] at h
      obtain ⟨⟨a1, r1⟩, h1, h2⟩ := h
      simp only [Prod.mk.injEq] at h2
      rw [← h2.1]
      simp [fillAttrs_names rest xs a1 r1 h1]

theorem attrsOkB_of_names (m : Method) (a : List (Name × List Char)) (attrs : List (Name × FAttr))
    (hn : a.map (·.1) = attrs.map (·.1)) (h : ∀ p ∈ attrs, attrNameOkB m p.1 = true) : attrsOkB m a = true := by
  simp only [attrsOkB, List.all_eq_true]
  intro p hp
  have : p.1 ∈ attrs.map (·.1) := hn ▸ List.mem_map.mpr ⟨p, hp, rfl⟩
  obtain ⟨q, hq, hqn⟩ := List.mem_map.mp this
  have := h q hq
  simp only [attrNameOkB] at this
  rw [← hqn]; exact this

/-- the parts of `StreamOk` a segment of spliced events has (it may start with an END, so it is
    only closed when nothing is pending) -/
structure InnerOk (m : Method) (evs : List Ev) : Prop where
  ev : ∀ e ∈ evs, evOkB m e = true
  safe : TextsOk evs
  closed : ∀ rest, emptyOkGo m none (evs ++ rest) = emptyOkGo m none rest

theorem InnerOk.nil (m : Method) : InnerOk m [] :=
  ⟨(by intro e he; cases he), (by intro s hs; cases hs), (by intro rest; rfl)⟩

theorem InnerOk.append {m : Method} {a b : List Ev} (ha : InnerOk m a) (hb : InnerOk m b) : InnerOk m (a ++ b) := by
  refine ⟨?_, ?_, ?_⟩
  · intro e he
    rcases List.mem_append.mp he with h | h
    · exact ha.ev e h
    · exact hb.ev e h
  · intro s hs
    rcases List.mem_append.mp hs with h | h
    · exact ha.safe s h
    · exact hb.safe s h
  · intro rest
    rw [List.append_assoc, ha.closed, hb.closed]

/-- with a TEXT event in front the segment is a stream of the kind the theorems speak about -/
theorem InnerOk.streamOk {m : Method} {evs : List Ev} (h : InnerOk m evs) (s : List Char) (hs : SafeOk s) :
    StreamOk m (.text s true :: evs) := by
  refine ⟨?_, ?_, ?_, ?_⟩
  · intro e he
    rcases List.mem_cons.mp he with rfl | he'
    · rfl
    · exact h.ev e he'
  · intro s' hs'
    rcases List.mem_cons.mp hs' with e | hs''
    · simp only [Ev.text.injEq] at e; rw [e.1]; exact hs
    · exact h.safe s' hs''
  · intro rest
    simp only [List.cons_append, emptyOkGo, h.closed]
  · intro t rest _
    simp only [List.cons_append, emptyOkGo, h.closed]

/-- everything the induction needs about the filled pieces -/
theorem fmtp_spec (m : Method) : ∀ (ps : List FPiece) (args : List (List Char)) (toks : List Tok),
    (∀ p ∈ ps, fpieceOkB m p = true) → fillEsc ps args = some toks →
    simpleToks m toks ∧ InnerOk m (spliceEvents toks) ∧ piecesNoPct ps ∧
    (∀ tok ∈ toks, tokOkB .xml tok = true) ∧
    ∃ evs, fillEvents ps args = some evs ∧ TEq (spliceEvents toks) evs := by
  intro ps
  induction ps with
  | nil =>
    intro args toks _ h
    cases args with
    | nil =>
      simp [fillEsc] at h; subst h
      refine ⟨?_, InnerOk.nil m, trivial, ?_, [], rfl, TEq.refl _⟩
      · intro t ht; cases ht
      · intro t ht; cases ht
    | cons a as => simp [fillEsc] at h
  | cons p ps ih =>
    intro args toks hok h
    have hok' : ∀ q ∈ ps, fpieceOkB m q = true := fun q hq => hok q (List.mem_cons_of_mem _ hq)
    have hp := hok p (by simp)
    cases p with
    | text s =>
      simp only [fillEsc, Option.map_eq_some_iff] at h
      obtain ⟨ts, h1, rfl⟩ := h
      obtain ⟨i1, i2, i3, i4, evs, i5, i6⟩ := ih args ts hok' h1
      refine ⟨?_, ?_, by simpa [piecesNoPct] using i3, ?_, .text s false :: evs, by simp [fillEvents, i5], ?_⟩
      · intro tok ht
        rcases List.mem_cons.mp ht with rfl | ht'
        · exact ⟨by simp, by simp⟩
        · exact i1 tok ht'
      · have hseg : InnerOk m [.text s false] :=
          ⟨(by intro e he; simp at he; subst he; rfl), (by intro s' hs'; simp at hs'), (by intro rest; simp [emptyOkGo])⟩
        simpa [spliceEvents] using InnerOk.append hseg i2
      · intro tok ht
        rcases List.mem_cons.mp ht with rfl | ht'
        · rfl
        · exact i4 tok ht'
      · simpa [spliceEvents] using TEq.append (TEq.refl [Ev.text s false]) i6
    | hole =>
      cases args with
      | nil => simp [fillEsc] at h
      | cons a as =>
        simp only [fillEsc, Option.map_eq_some_iff] at h
        obtain ⟨ts, h1, rfl⟩ := h
        obtain ⟨i1, i2, i3, i4, evs, i5, i6⟩ := ih as ts hok' h1
        refine ⟨?_, ?_, by simpa [piecesNoPct] using i3, ?_, .text a false :: evs, by simp [fillEvents, i5], ?_⟩
        · intro tok ht
          rcases List.mem_cons.mp ht with rfl | ht'
          · exact ⟨by simp, by simp⟩
          · exact i1 tok ht'
        · have hseg : InnerOk m [.text (escapePy true a) true] := by
            refine ⟨(by intro e he; simp at he; subst he; rfl), ?_, (by intro rest; simp [emptyOkGo])⟩
            intro s' hs'
            simp only [List.mem_singleton, Ev.text.injEq] at hs'
            rw [hs'.1]; exact SafeOk.escaped true a
          simpa [spliceEvents] using InnerOk.append hseg i2
        · intro tok ht
          rcases List.mem_cons.mp ht with rfl | ht'
          · rfl
          · exact i4 tok ht'
        · have hh : TEq [Ev.text (escapePy true a) true] [Ev.text a false] := by
            apply TEq.texts
            · intro e he; simp at he; exact ⟨_, _, he⟩
            · intro e he; simp at he; exact ⟨_, _, he⟩
            · simp [dataOf, textValue, unescape_escapePy]
          simpa [spliceEvents] using TEq.append hh i6
    | «open» t attrs =>
      simp only [fpieceOkB, Bool.and_eq_true] at hp
      obtain ⟨⟨⟨htag, htp⟩, hopen⟩, hattrs⟩ := hp
      simp only [fillEsc] at h
      cases hfa : fillAttrs attrs args with
      | none => simp [hfa] at h
      | some r =>
        obtain ⟨at_, args'⟩ := r
        simp only [hfa, Option.map_eq_some_iff] at h
        obtain ⟨ts, h1, rfl⟩ := h
        obtain ⟨i1, i2, i3, i4, evs, i5, i6⟩ := ih args' ts hok' h1
        have hnames := fillAttrs_names attrs args at_ args' hfa
        have hattrs' : ∀ q ∈ attrs, attrNameOkB m q.1 = true ∧ nameNoPctB q.1 = true := by
          intro q hq
          have := (List.all_eq_true.mp hattrs) q hq
          simpa [Bool.and_eq_true] using this
        have hatOk : attrsOkB m at_ = true := attrsOkB_of_names m at_ attrs hnames fun q hq => (hattrs' q hq).1
        have hne : (noescapeElems m).contains t = false := by
          simp only [tagOkB, Bool.and_eq_true, Bool.not_eq_true'] at htag; exact htag.2
        have hname : isNameB t = true := by
          simp only [tagOkB, Bool.and_eq_true] at htag; exact htag.1
        refine ⟨?_, ?_, ?_, ?_, .start t at_ :: evs, by simp [fillEvents, hfa, i5], ?_⟩
        · intro tok ht
          rcases List.mem_cons.mp ht with rfl | ht'
          · exact ⟨by simp, by intro t2 a2 he; simp only [Tok.open.injEq] at he; rw [← he.1, ← he.2]; exact ⟨hne, hatOk⟩⟩
          · exact i1 tok ht'
        · have hseg : InnerOk m [.start t at_, .text [] false] := by
            refine ⟨?_, (by intro s hs; simp at hs), (by intro rest; simp [emptyOkGo, hopen])⟩
            intro e he
            simp only [List.mem_cons, List.not_mem_nil, or_false] at he
            rcases he with rfl | rfl
            · simp only [evOkB, hname, hatOk, hne]; simp
            · rfl
          simpa [spliceEvents] using InnerOk.append hseg i2
        · simp only [piecesNoPct]
          refine ⟨?_, ?_, i3⟩
          · intro c hc e; subst e
            simp only [nameNoPctB, Bool.not_eq_true', List.contains_eq_mem, decide_eq_false_iff_not] at htp
            exact htp hc
          · intro q hq c hc e
            subst e
            have := (hattrs' q hq).2
            simp only [nameNoPctB, Bool.not_eq_true', List.contains_eq_mem, decide_eq_false_iff_not] at this
            exact this hc
        · intro tok ht
          rcases List.mem_cons.mp ht with rfl | ht'
          · have hx : attrsOkB .xml at_ = true := by
              simp only [attrsOkB, List.all_eq_true, Bool.and_eq_true] at hatOk ⊢
              intro q hq; exact ⟨(hatOk q hq).1, rfl⟩
            simp [tokOkB, hname, hx, noescapeElems]
          · exact i4 tok ht'
        · have hh : TEq [Ev.start t at_, Ev.text [] false] [Ev.start t at_] := by
            intro fl pres p pend rest
            simp [coalesceWith, textValue]
          simpa [spliceEvents] using TEq.append hh i6
    | close t =>
      simp only [fpieceOkB, Bool.and_eq_true] at hp
      simp only [fillEsc, Option.map_eq_some_iff] at h
      obtain ⟨ts, h1, rfl⟩ := h
      obtain ⟨i1, i2, i3, i4, evs, i5, i6⟩ := ih args ts hok' h1
      refine ⟨?_, ?_, ?_, ?_, .end_ t :: evs, by simp [fillEvents, i5], ?_⟩
      · intro tok ht
        rcases List.mem_cons.mp ht with rfl | ht'
        · exact ⟨by simp, by simp⟩
        · exact i1 tok ht'
      · have hseg : InnerOk m [.end_ t] :=
          ⟨(by intro e he; simp at he; subst he; simpa [evOkB] using hp.1), (by intro s hs; simp at hs),
           (by intro rest; simp [emptyOkGo])⟩
        simpa [spliceEvents] using InnerOk.append hseg i2
      · simp only [piecesNoPct]
        refine ⟨?_, i3⟩
        intro c hc e; subst e
        have := hp.2
        simp only [nameNoPctB, Bool.not_eq_true', List.contains_eq_mem, decide_eq_false_iff_not] at this
        exact this hc
      · intro tok ht
        rcases List.mem_cons.mp ht with rfl | ht'
        · simpa [tokOkB] using hp.1
        · exact i4 tok ht'
      · simpa [spliceEvents] using TEq.append (TEq.refl [Ev.end_ t]) i6

/-! ### the template induction with spliced markup -/

theorem strLit_args (env : Env) : ∀ (as : List Atom), as.all strLitB = true →
    (as.map fun a => toOpnd (evalAtom env a)) = (as.filterMap strOf).map Opnd.plain ∧
    (as.map fun a => opndText (evalAtom env a)) = as.filterMap strOf
  | [], _ => ⟨rfl, rfl⟩
  | a :: as, h => by
      simp only [List.all_cons, Bool.and_eq_true] at h
      obtain ⟨i1, i2⟩ := strLit_args env as h.2
      cases a with
      | var i => simp [strLitB] at h
      | lit x =>
        cases x with
        | str s =>
          constructor
          · rw [List.map_cons, i1]; rfl
          · rw [List.map_cons, i2]; rfl
        | none => simp [strLitB] at h
        | markup s => simp [strLitB] at h
        | num s => simp [strLitB] at h
        | obj s o => simp [strLitB] at h

theorem site_sem (m : Method) (env : Env) (e : SExpr) (hs : sexprOkM m e = true)
    (hd : siteOk env e = true) (he : EnvOk env) : Sem m (evalSite env e) (expectedSite env e) := by
  cases e with
  | fmtp ps as =>
    simp only [sexprOkM, Bool.and_eq_true] at hs
    obtain ⟨⟨hps, hlit⟩, hfill⟩ := hs
    obtain ⟨ha1, ha2⟩ := strLit_args env as hlit
    cases hf : fillEsc ps (as.filterMap strOf) with
    | none => simp [hf] at hfill
    | some toks =>
      obtain ⟨i1, i2, i3, i4, evs, i5, i6⟩ := fmtp_spec m ps (as.filterMap strOf) toks
        (fun p hp => (List.all_eq_true.mp hps) p hp) hf
      have hm := mMod_pieces ps (as.filterMap strOf) toks i3 hf
      rw [← serToks_raw .xml toks i4] at hm
      have hrender : evalSite env (.fmtp ps as) = [.text (serToks .xml false toks) true] := by
        simp only [evalSite, markupOp, ha1, hm]
      have hexp : expectedSite env (.fmtp ps as) = evs := by
        simp only [expectedSite, ha2, i5]
      rw [hrender, hexp]
      refine ⟨.text [] true :: spliceEvents toks, SameOut.splice m toks i1, i2.streamOk [] SafeOk.nil, ?_⟩
      have h0 : TEq [Ev.text [] true] [] := by
        apply TEq.texts
        · intro e he'; simp at he'; exact ⟨_, _, he'⟩
        · intro e he'; cases he'
        · simp [dataOf, textValue, unescape_nil]
      simpa using TEq.append h0 i6
  | v e' => obtain ⟨h1, h2⟩ := site_spec m env (.v e') hs hd he; exact Sem.of_spec h1 h2
  | add mk a => obtain ⟨h1, h2⟩ := site_spec m env (.add mk a) hs hd he; exact Sem.of_spec h1 h2
  | radd mk a => obtain ⟨h1, h2⟩ := site_spec m env (.radd mk a) hs hd he; exact Sem.of_spec h1 h2
  | join sep items => obtain ⟨h1, h2⟩ := site_spec m env (.join sep items) hs hd he; exact Sem.of_spec h1 h2
  | esc a q => obtain ⟨h1, h2⟩ := site_spec m env (.esc a q) hs hd he; exact Sem.of_spec h1 h2
  | fmt f args => obtain ⟨h1, h2⟩ := site_spec m env (.fmt f args) hs hd he; exact Sem.of_spec h1 h2
  | build b => obtain ⟨h1, h2⟩ := site_spec m env (.build b) hs hd he; exact Sem.of_spec h1 h2
  | frag kids => obtain ⟨h1, h2⟩ := site_spec m env (.frag kids) hs hd he; exact Sem.of_spec h1 h2

theorem Sem.nil (m : Method) : Sem m [] [] := Sem.of_spec (StreamOk.nil m) (TEq.refl _)

theorem flatMap_sem (m : Method) (xs : List Scalar) (f g : Scalar → List Ev)
    (h : ∀ x ∈ xs, Sem m (f x) (g x)) : Sem m (xs.flatMap f) (xs.flatMap g) := by
  induction xs with
  | nil => exact Sem.nil m
  | cons x xs ih =>
    simp only [List.flatMap_cons]
    exact Sem.append (h x (by simp)) (ih fun y hy => h y (List.mem_cons_of_mem _ hy))

/-- the attributes of an element before interpolation, after `py:attrs` -/
def attribOf (env : Env) (attrs : List (Name × AttrSpec)) (pa : Option (List (Name × Atom))) :
    List (Name × AttrSpec) :=
  match pa with
  | none => attrs
  | some items => applyPyAttrs env attrs items

theorem renderNode_el (env : Env) (t : Name) (attrs : List (Name × AttrSpec))
    (pa : Option (List (Name × Atom))) (kids : List Node) :
    renderNode env (.el t attrs pa kids) =
      .start t (evalAttrs env (attribOf env attrs pa)) :: (renderList env kids ++ [.end_ t]) := by
  cases pa <;> simp [renderNode, attribOf]

theorem expectedNode_el (env : Env) (t : Name) (attrs : List (Name × AttrSpec))
    (pa : Option (List (Name × Atom))) (kids : List Node) :
    expectedNode env (.el t attrs pa kids) =
      .start t (evalAttrs env (attribOf env attrs pa)) :: (expectedList env kids ++ [.end_ t]) := by
  cases pa <;> simp [expectedNode, attribOf]

mutual
  theorem node_sem (m : Method) : ∀ (n : Node) (env : Env), nodeOkM m n = true → nodeOk env n = true →
      EnvOk env → Sem m (renderNode env n) (expectedNode env n)
    | .lit s, env, _, _, _ => by
        simpa [renderNode, expectedNode] using
          (Sem.of_spec (StreamOk.text m s false (by simp)) (TEq.refl _) : Sem m [.text s false] [.text s false])
    | .site e, env, hs, hd, he => by
        simpa [renderNode, expectedNode] using site_sem m env e (by simpa [nodeOkM] using hs)
          (by simpa [nodeOk] using hd) he
    | .el t attrs pa kids, env, hs, hd, he => by
        simp only [nodeOkM, Bool.and_eq_true] at hs
        obtain ⟨⟨⟨⟨ht, ha⟩, hpa⟩, hvoid⟩, hk⟩ := hs
        have hattrs : ∀ p ∈ attrs, attrNameOkB m p.1 = true := by
          intro p hp
          have := (List.all_eq_true.mp ha) p hp
          simp only [Bool.and_eq_true] at this
          exact this.1
        have hattrib : attrsOkB m (evalAttrs env (attribOf env attrs pa)) = true := by
          apply evalAttrs_ok
          cases pa with
          | none => exact hattrs
          | some items =>
            apply applyPyAttrs_names m env attrs items hattrs
            intro p hp
            have := (List.all_eq_true.mp hpa) p hp
            simp only [Bool.and_eq_true] at this
            exact this.1
        rw [renderNode_el, expectedNode_el]
        cases kids with
        | nil =>
          simp only [renderList, expectedList]
          exact Sem.of_spec (StreamOk.wrap t _ ht hattrib (Or.inr rfl) (StreamOk.nil m)) (TEq.refl _)
        | cons k ks =>
          have hopen : openOk m t = true := by simpa using hvoid
          exact Sem.wrap t _ ht hattrib hopen (list_sem m (k :: ks) env hk (by simpa [nodeOk] using hd) he)
    | .loop e kids, env, hs, hd, he => by
        simp only [nodeOkM, Bool.and_eq_true] at hs
        have hv := evalV_ok env e hs.1 he
        have hx := itemsOf_ok _ hv
        simp only [nodeOk, List.all_eq_true] at hd
        simp only [renderNode, expectedNode]
        apply flatMap_sem
        intro x hxm
        exact list_sem m kids (x :: env) hs.2 (hd x hxm) (EnvOk.cons (hx x hxm) he)
    | .bind a kids, env, hs, hd, he => by
        simp only [nodeOkM, Bool.and_eq_true] at hs
        simpa [renderNode, expectedNode] using
          list_sem m kids (evalAtom env a :: env) hs.2 (by simpa [nodeOk] using hd)
            (EnvOk.cons (evalAtom_ok env a hs.1 he) he)
    | .cond b kids, env, hs, hd, he => by
        cases b with
        | false => simpa [renderNode, expectedNode] using Sem.nil m
        | true =>
          simpa [renderNode, expectedNode] using
            list_sem m kids env (by simpa [nodeOkM] using hs) (by simpa [nodeOk] using hd) he
  theorem list_sem (m : Method) : ∀ (ns : List Node) (env : Env), nodesOkM m ns = true → listOk env ns = true →
      EnvOk env → Sem m (renderList env ns) (expectedList env ns)
    | [], _, _, _, _ => by simpa [renderList, expectedList] using Sem.nil m
    | n :: ns, env, hs, hd, he => by
        simp only [nodesOkM, Bool.and_eq_true] at hs
        simp only [listOk, Bool.and_eq_true] at hd
        simp only [renderList, expectedList]
        exact Sem.append (node_sem m n env hs.1 hd.1 he) (list_sem m ns env hs.2 hd.2 he)
end

end Genshi.Subst

/-
  C03 — the concrete evaluator and the abstract one.

  * `evalD_eq_eval`: on expressions without a lambda, `evalD σ look mk` (the evaluator that runs in the
    driver, closures as data) IS `eval σ look` (the evaluator `xform_correct` is about) — for every `σ`, `look`,
    environment; comprehensions, generator expressions, nested scopes, calls, lookups included.
  * `linked_concrete`: the hypotheses `Linked` of `xform_correct` hold for the concrete semantics
    `C.sem strict data cc`, the concrete world `C.world strict data` and the globals `C.globals strict data`.
-/
import Genshi.Lemmas.PyEval
import Genshi.Model.PyEvalC
namespace Genshi.Py

mutual
/-- no lambda expression inside (and helper nodes where they belong) -/
def lamFree : PyExpr → Bool
  | .name _ => true
  | .const _ => true
  | .boolOp _ vs => lamFreeL vs
  | .binOp l _ r => lamFree l && lamFree r
  | .unaryOp _ e => lamFree e
  | .lambda _ _ _ _ _ _ => false
  | .ifExp t b o => lamFree t && lamFree b && lamFree o
  | .dict items => items.all isDictItemE && lamFreeL items
  | .listComp elt gens => gens.all isCompE && lamFree elt && lamFreeL gens
  | .genExp elt gens => gens.all isCompE && lamFree elt && lamFreeL gens
  | .yield_ v => lamFreeO v
  | .compare l rest => rest.all isCmpE && lamFree l && lamFreeL rest
  | .call f args kws => kws.all isKw && lamFree f && lamFreeL args && lamFreeL kws
  | .attribute v _ => lamFree v
  | .subscript v s => lamFree v && lamFree s
  | .slice l u st => lamFreeO l && lamFreeO u && lamFreeO st
  | .starred e => lamFree e
  | .list elts => lamFreeL elts
  | .tuple elts => lamFreeL elts
  | .unsupported _ => true
  | .keyword _ v => lamFree v
  | .comp _ it ifs _ => lamFree it && lamFreeL ifs
  | .param _ _ d => lamFreeO d
  | .dictItem k v => lamFreeO k && lamFree v
  | .cmpRhs _ e => lamFree e
def lamFreeL : List PyExpr → Bool
  | [] => true
  | e :: es => lamFree e && lamFreeL es
def lamFreeO : Option PyExpr → Bool
  | none => true
  | some e => lamFree e
end

section
variable {V E : Type} (σ : Sem V E) (look : Look V E)
  (mk : (po ar : List (Str × Option V)) → (va : Option Str) → (ko : List (Str × Option V)) → (ka : Option Str)
      → (names : List Str) → (body : PyExpr) → (env : Env V) → V)

mutual
theorem evalD_eq_eval : ∀ (e : PyExpr) (env : Env V), lamFree e = true → evalD σ look mk e env = eval σ look e env
  | .name id, env, _ => by
      rw [evalD, eval]
      cases env.find id with
      | none => rfl
      | some v => cases v <;> rfl
  | .const c, env, _ => by rw [evalD, eval]
  | .boolOp op vs, env, h => by
      simp only [lamFree] at h
      cases vs with
      | nil => rw [evalD, eval]
      | cons v rest =>
        simp only [lamFreeL, Bool.and_eq_true] at h
        rw [evalD, eval, evalD_eq_eval v env h.1]
        congr 1; funext x
        exact evalBoolD_eq _ x rest env h.2
  | .binOp l op r, env, h => by
      simp only [lamFree, Bool.and_eq_true] at h
      rw [evalD, eval, evalD_eq_eval l env h.1, evalD_eq_eval r env h.2]
  | .unaryOp op e, env, h => by
      simp only [lamFree] at h
      rw [evalD, eval, evalD_eq_eval e env h]
  | .lambda _ _ _ _ _ _, _, h => by simp [lamFree] at h
  | .ifExp t b o, env, h => by
      simp only [lamFree, Bool.and_eq_true] at h
      rw [evalD, eval, evalD_eq_eval t env h.1.1, evalD_eq_eval b env h.1.2, evalD_eq_eval o env h.2]
  | .dict items, env, h => by
      simp only [lamFree, Bool.and_eq_true] at h
      rw [evalD, eval, evalDictD_eq items env h.1 h.2]
  | .listComp elt gens, env, h => by
      simp only [lamFree, Bool.and_eq_true] at h
      rw [evalD, eval, evalCompD_eq elt gens env h.1.1 h.1.2 h.2]
  | .genExp elt gens, env, h => by
      simp only [lamFree, Bool.and_eq_true] at h
      obtain ⟨⟨hall, helt⟩, hgens⟩ := h
      cases gens with
      | nil =>
        rw [evalD, eval]
        all_goals (intro _ _ _ _ _ h; cases h)
      | cons c rest =>
        simp only [List.all_cons, Bool.and_eq_true] at hall
        cases c <;> first
          | (simp [isCompE] at hall; done)
          | skip
        rename_i t it ifs a
        simp only [lamFreeL, lamFree, Bool.and_eq_true] at hgens
        rw [evalD, eval, evalD_eq_eval it env hgens.1.1]
        congr 1; funext itV
        congr 1; funext itr
        congr 2
        congr 1; funext items
        exact runFromD_eq t ifs rest items _ elt hgens.1.2 hgens.2 hall.2 helt
  | .yield_ v, env, h => by
      simp only [lamFree] at h
      rw [evalD, eval, evalOptD_eq v env h]
  | .compare l rest, env, h => by
      simp only [lamFree, Bool.and_eq_true] at h
      rw [evalD, eval, evalD_eq_eval l env h.1.2]
      congr 1; funext a
      exact evalCmpD_eq a rest env h.1.1 h.2
  | .call f args kws, env, h => by
      simp only [lamFree, Bool.and_eq_true] at h
      rw [evalD, eval, evalD_eq_eval f env h.1.1.2, evalArgsD_eq args env h.1.2, evalKwsD_eq kws env h.1.1.1 h.2]
  | .attribute v a, env, h => by
      simp only [lamFree] at h
      rw [evalD, eval, evalD_eq_eval v env h]
  | .subscript v s, env, h => by
      simp only [lamFree, Bool.and_eq_true] at h
      rw [evalD, eval, evalD_eq_eval v env h.1, evalD_eq_eval s env h.2]
  | .slice l u st, env, h => by
      simp only [lamFree, Bool.and_eq_true] at h
      rw [evalD, eval, evalOptD_eq l env h.1.1, evalOptD_eq u env h.1.2, evalOptD_eq st env h.2]
  | .starred e, env, h => by
      simp only [lamFree] at h
      rw [evalD, eval, evalD_eq_eval e env h]
  | .list elts, env, h => by
      simp only [lamFree] at h
      rw [evalD, eval, evalArgsD_eq elts env h]
  | .tuple elts, env, h => by
      simp only [lamFree] at h
      rw [evalD, eval, evalArgsD_eq elts env h]
  | .unsupported _, env, _ => by rw [evalD, eval]
  | .keyword _ v, env, h => by
      simp only [lamFree] at h
      rw [evalD, eval, evalD_eq_eval v env h]
  | .comp _ it _ _, env, h => by
      simp only [lamFree, Bool.and_eq_true] at h
      rw [evalD, eval, evalD_eq_eval it env h.1]
  | .param _ _ d, env, h => by
      simp only [lamFree] at h
      rw [evalD, eval, evalOptD_eq d env h]
      cases evalOpt σ look d env with
      | error _ => rfl
      | ok x => cases x <;> rfl
  | .dictItem _ v, env, h => by
      simp only [lamFree, Bool.and_eq_true] at h
      rw [evalD, eval, evalD_eq_eval v env h.2]
  | .cmpRhs _ e, env, h => by
      simp only [lamFree] at h
      rw [evalD, eval, evalD_eq_eval e env h]
termination_by e => sizeOf e
theorem evalBoolD_eq (isAnd : Bool) (x : V) : ∀ (vs : List PyExpr) (env : Env V), lamFreeL vs = true →
    evalBoolD σ look mk isAnd x vs env = evalBool σ look isAnd x vs env
  | [], env, _ => by rw [evalBoolD, evalBool]
  | v :: rest, env, h => by
      simp only [lamFreeL, Bool.and_eq_true] at h
      rw [evalBoolD, evalBool]
      congr 1; funext t
      split
      · rw [evalD_eq_eval v env h.1]
        congr 1; funext y
        exact evalBoolD_eq isAnd y rest env h.2
      · rfl
termination_by vs => sizeOf vs
theorem evalCmpD_eq (a : V) : ∀ (rest : List PyExpr) (env : Env V), rest.all isCmpE = true → lamFreeL rest = true →
    evalCmpD σ look mk a rest env = evalCmp σ look a rest env
  | [], env, _, _ => by rw [evalCmpD, evalCmp]
  | c :: rest, env, hall, h => by
      simp only [List.all_cons, Bool.and_eq_true] at hall
      cases c <;> first
        | (simp [isCmpE] at hall; done)
        | skip
      rename_i op e
      simp only [lamFreeL, lamFree, Bool.and_eq_true] at h
      rw [evalCmpD, evalCmp, evalD_eq_eval e env h.1]
      congr 1; funext b
      congr 1; funext r
      split
      · rfl
      · congr 1; funext t
        split
        · exact evalCmpD_eq b rest env hall.2 h.2
        · rfl
termination_by rest => sizeOf rest
theorem evalOptD_eq : ∀ (o : Option PyExpr) (env : Env V), lamFreeO o = true →
    evalOptD σ look mk o env = evalOpt σ look o env
  | none, env, _ => by rw [evalOptD, evalOpt]
  | some e, env, h => by
      simp only [lamFreeO] at h
      rw [evalOptD, evalOpt, evalD_eq_eval e env h]
termination_by o => sizeOf o
theorem evalArgsD_eq : ∀ (es : List PyExpr) (env : Env V), lamFreeL es = true →
    evalArgsD σ look mk es env = evalArgs σ look es env
  | [], env, _ => by rw [evalArgsD, evalArgs]
  | e :: rest, env, h => by
      simp only [lamFreeL, Bool.and_eq_true] at h
      by_cases hs : isStarredE e = true
      · cases e <;> first
          | (simp [isStarredE] at hs; done)
          | skip
        rename_i y
        simp only [lamFree] at h
        rw [evalArgsD, evalArgs, evalD_eq_eval y env h.1, evalArgsD_eq rest env h.2]
      · have hs' : isStarredE e = false := by simpa using hs
        rw [evalArgs_cons_plain _ _ _ _ hs', evalArgsD_cons_plain e rest env hs', evalD_eq_eval e env h.1, evalArgsD_eq rest env h.2]
termination_by es => sizeOf es
theorem evalArgsD_cons_plain (e : PyExpr) (rest : List PyExpr) (env : Env V) (h : isStarredE e = false) :
    evalArgsD σ look mk (e :: rest) env = (do
      let x ← evalD σ look mk e env
      let xs ← evalArgsD σ look mk rest env
      .ok ((false, x) :: xs)) := by
  rw [evalArgsD]
  intro y hy; subst hy; simp [isStarredE] at h
theorem evalKwsD_eq : ∀ (es : List PyExpr) (env : Env V), es.all isKw = true → lamFreeL es = true →
    evalKwsD σ look mk es env = evalKws σ look es env
  | [], env, _, _ => by rw [evalKwsD, evalKws]
  | e :: rest, env, hall, h => by
      simp only [List.all_cons, Bool.and_eq_true] at hall
      cases e <;> first
        | (simp [isKw] at hall; done)
        | skip
      rename_i n v
      simp only [lamFreeL, lamFree, Bool.and_eq_true] at h
      rw [evalKwsD, evalKws, evalD_eq_eval v env h.1, evalKwsD_eq rest env hall.2 h.2]
termination_by es => sizeOf es
theorem evalDictD_eq : ∀ (es : List PyExpr) (env : Env V), es.all isDictItemE = true → lamFreeL es = true →
    evalDictD σ look mk es env = evalDict σ look es env
  | [], env, _, _ => by rw [evalDictD, evalDict]
  | e :: rest, env, hall, h => by
      simp only [List.all_cons, Bool.and_eq_true] at hall
      cases e <;> first
        | (simp [isDictItemE] at hall; done)
        | skip
      rename_i k v
      simp only [lamFreeL, lamFree, Bool.and_eq_true] at h
      rw [evalDictD, evalDict, evalOptD_eq k env h.1.1, evalD_eq_eval v env h.1.2, evalDictD_eq rest env hall.2 h.2]
termination_by es => sizeOf es
theorem evalCondsD_eq : ∀ (es : List PyExpr) (env : Env V), lamFreeL es = true →
    evalCondsD σ look mk es env = evalConds σ look es env
  | [], env, _ => by rw [evalCondsD, evalConds]
  | c :: rest, env, h => by
      simp only [lamFreeL, Bool.and_eq_true] at h
      rw [evalCondsD, evalConds, evalD_eq_eval c env h.1]
      congr 1; funext x
      congr 1; funext t
      split
      · exact evalCondsD_eq rest env h.2
      · rfl
termination_by es => sizeOf es
theorem evalCompD_eq (elt : PyExpr) : ∀ (gens : List PyExpr) (env : Env V), gens.all isCompE = true → lamFree elt = true →
    lamFreeL gens = true → evalCompD σ look mk elt gens env = evalComp σ look elt gens env
  | [], env, _, _, _ => by
      rw [evalCompD, evalComp]
      all_goals (intro _ _ _ _ _ h; cases h)
  | c :: rest, env, hall, helt, hgens => by
      simp only [List.all_cons, Bool.and_eq_true] at hall
      cases c <;> first
        | (simp [isCompE] at hall; done)
        | skip
      rename_i t it ifs a
      simp only [lamFreeL, lamFree, Bool.and_eq_true] at hgens
      rw [evalCompD, evalComp, evalD_eq_eval it env hgens.1.1]
      congr 1; funext itV
      congr 1; funext items
      exact runFromD_eq t ifs rest items _ elt hgens.1.2 hgens.2 hall.2 helt
termination_by gens => sizeOf elt + sizeOf gens
theorem runFromD_eq (t : PyExpr) (ifs rest : List PyExpr) (items : List V) (env : Env V) (elt : PyExpr)
    (hifs : lamFreeL ifs = true) (hrest : lamFreeL rest = true) (hall : rest.all isCompE = true) (helt : lamFree elt = true) :
    runFromD σ look mk t ifs rest items env elt = runFrom σ look t ifs rest items env elt := by
  rw [runFromD, runFrom]
  congr 2
  funext item
  congr 1; funext b
  dsimp only
  rw [evalCondsD_eq ifs _ hifs]
  congr 1; funext c
  split
  · exact runGensD_eq rest _ elt hrest hall helt
  · rfl
termination_by sizeOf t + sizeOf ifs + sizeOf rest + sizeOf elt + 1
theorem runGensD_eq : ∀ (rest : List PyExpr) (env : Env V) (elt : PyExpr), lamFreeL rest = true → rest.all isCompE = true →
    lamFree elt = true → runGensD σ look mk rest env elt = runGens σ look rest env elt
  | [], env, elt, _, _, helt => by
      rw [runGensD, runGens, evalD_eq_eval elt env helt]
  | c :: rest, env, elt, hgens, hall, helt => by
      simp only [List.all_cons, Bool.and_eq_true] at hall
      cases c <;> first
        | (simp [isCompE] at hall; done)
        | skip
      rename_i t it ifs a
      simp only [lamFreeL, lamFree, Bool.and_eq_true] at hgens
      rw [runGensD, runGens, evalD_eq_eval it env hgens.1.1]
      congr 1; funext itV
      congr 1; funext items
      exact runFromD_eq t ifs rest items env elt hgens.1.2 hgens.2 hall.2 helt
termination_by rest _ elt => sizeOf rest + sizeOf elt
end

end

/-! ### the rewriting introduces no lambda -/

theorem all_isKw_xfL (L : List (List Str)) : ∀ es : List PyExpr, es.all isKw = true → (xfL L es).all isKw = true
  | [], _ => by simp [xfL]
  | e :: rest, h => by
      simp only [List.all_cons, Bool.and_eq_true] at h
      cases e <;> first
        | (simp [isKw] at h; done)
        | skip
      simp only [xfL, xf, List.all_cons, isKw, Bool.true_and]
      exact all_isKw_xfL L rest h.2

theorem all_isCmpE_xfL (L : List (List Str)) : ∀ es : List PyExpr, es.all isCmpE = true → (xfL L es).all isCmpE = true
  | [], _ => by simp [xfL]
  | e :: rest, h => by
      simp only [List.all_cons, Bool.and_eq_true] at h
      cases e <;> first
        | (simp [isCmpE] at h; done)
        | skip
      simp only [xfL, xf, List.all_cons, isCmpE, Bool.true_and]
      exact all_isCmpE_xfL L rest h.2

theorem all_isDictItemE_xfL (L : List (List Str)) : ∀ es : List PyExpr, es.all isDictItemE = true →
    (xfL L es).all isDictItemE = true
  | [], _ => by simp [xfL]
  | e :: rest, h => by
      simp only [List.all_cons, Bool.and_eq_true] at h
      cases e <;> first
        | (simp [isDictItemE] at h; done)
        | skip
      simp only [xfL, xf, List.all_cons, isDictItemE, Bool.true_and]
      exact all_isDictItemE_xfL L rest h.2

theorem all_isCompE_xfGens (L0 L1 : List (List Str)) : ∀ es : List PyExpr, es.all isCompE = true →
    (xfGens L0 L1 es).all isCompE = true
  | [], _ => by simp [xfGens]
  | e :: rest, h => by
      simp only [List.all_cons, Bool.and_eq_true] at h
      cases e <;> first
        | (simp [isCompE] at h; done)
        | skip
      simp only [xfGens, List.all_cons, isCompE, Bool.true_and]
      exact all_isCompE_xfGens L1 L1 rest h.2

mutual
theorem lamFree_xf : ∀ (e : PyExpr) (L : List (List Str)), lamFree e = true → lamFree (xf L e) = true
  | .name id, L, _ => by
      simp only [xf]
      split
      · rfl
      · simp [lookupNameCall, lamFree, lamFreeL, strConst, isKw]
  | .const _, _, _ => by simp [xf, lamFree]
  | .boolOp _ vs, L, h => by
      simp only [lamFree] at h
      simp only [xf, lamFree]; exact lamFreeL_xfL vs L h
  | .binOp l _ r, L, h => by
      simp only [lamFree, Bool.and_eq_true] at h
      simp only [xf, lamFree, Bool.and_eq_true]; exact ⟨lamFree_xf l L h.1, lamFree_xf r L h.2⟩
  | .unaryOp _ e, L, h => by
      simp only [lamFree] at h
      simp only [xf, lamFree]; exact lamFree_xf e L h
  | .lambda _ _ _ _ _ _, _, h => by simp [lamFree] at h
  | .ifExp t b o, L, h => by
      simp only [lamFree, Bool.and_eq_true] at h
      simp only [xf, lamFree, Bool.and_eq_true]; exact ⟨⟨lamFree_xf t L h.1.1, lamFree_xf b L h.1.2⟩, lamFree_xf o L h.2⟩
  | .dict items, L, h => by
      simp only [lamFree, Bool.and_eq_true] at h
      simp only [xf, lamFree, Bool.and_eq_true]; exact ⟨all_isDictItemE_xfL L items h.1, lamFreeL_xfL items L h.2⟩
  | .listComp elt gens, L, h => by
      simp only [lamFree, Bool.and_eq_true] at h
      simp only [xf, lamFree, Bool.and_eq_true]
      exact ⟨⟨all_isCompE_xfGens _ _ gens h.1.1, lamFree_xf elt _ h.1.2⟩, lamFreeL_xfGens gens _ _ h.2⟩
  | .genExp elt gens, L, h => by
      simp only [lamFree, Bool.and_eq_true] at h
      simp only [xf, lamFree, Bool.and_eq_true]
      exact ⟨⟨all_isCompE_xfGens _ _ gens h.1.1, lamFree_xf elt _ h.1.2⟩, lamFreeL_xfGens gens _ _ h.2⟩
  | .yield_ v, L, h => by
      simp only [lamFree] at h
      simp only [xf, lamFree]; exact lamFreeO_xfO v L h
  | .compare l rest, L, h => by
      simp only [lamFree, Bool.and_eq_true] at h
      simp only [xf, lamFree, Bool.and_eq_true]
      exact ⟨⟨all_isCmpE_xfL L rest h.1.1, lamFree_xf l L h.1.2⟩, lamFreeL_xfL rest L h.2⟩
  | .call f args kws, L, h => by
      simp only [lamFree, Bool.and_eq_true] at h
      simp only [xf, lamFree, Bool.and_eq_true]
      exact ⟨⟨⟨all_isKw_xfL L kws h.1.1.1, lamFree_xf f L h.1.1.2⟩, lamFreeL_xfL args L h.1.2⟩, lamFreeL_xfL kws L h.2⟩
  | .attribute v a, L, h => by
      simp only [lamFree] at h
      simp [xf, lookupAttrCall, lamFree, lamFreeL, strConst, lamFree_xf v L h]
  | .subscript v s, L, h => by
      simp only [lamFree, Bool.and_eq_true] at h
      simp only [xf]
      split
      · simp only [lamFree, Bool.and_eq_true]; exact ⟨lamFree_xf v L h.1, lamFree_xf s L h.2⟩
      · simp [lookupItemCall, lamFree, lamFreeL, lamFree_xf v L h.1, lamFree_xf s L h.2]
  | .slice l u st, L, h => by
      simp only [lamFree, Bool.and_eq_true] at h
      simp only [xf, lamFree, Bool.and_eq_true]
      exact ⟨⟨lamFreeO_xfO l L h.1.1, lamFreeO_xfO u L h.1.2⟩, lamFreeO_xfO st L h.2⟩
  | .starred e, L, h => by
      simp only [lamFree] at h
      simp only [xf, lamFree]; exact lamFree_xf e L h
  | .list elts, L, h => by
      simp only [lamFree] at h
      simp only [xf, lamFree]; exact lamFreeL_xfL elts L h
  | .tuple elts, L, h => by
      simp only [lamFree] at h
      simp only [xf, lamFree]; exact lamFreeL_xfL elts L h
  | .unsupported _, _, _ => by simp [xf, lamFree]
  | .keyword _ v, L, h => by
      simp only [lamFree] at h
      simp only [xf, lamFree]; exact lamFree_xf v L h
  | .comp t it ifs a, L, h => by
      simp only [lamFree, Bool.and_eq_true] at h
      simp only [xf, lamFree, Bool.and_eq_true]; exact ⟨lamFree_xf it L h.1, lamFreeL_xfL ifs L h.2⟩
  | .param _ _ d, L, h => by
      simp only [lamFree] at h
      simp only [xf, lamFree]; exact lamFreeO_xfO d L h
  | .dictItem k v, L, h => by
      simp only [lamFree, Bool.and_eq_true] at h
      simp only [xf, lamFree, Bool.and_eq_true]; exact ⟨lamFreeO_xfO k L h.1, lamFree_xf v L h.2⟩
  | .cmpRhs _ e, L, h => by
      simp only [lamFree] at h
      simp only [xf, lamFree]; exact lamFree_xf e L h
theorem lamFreeL_xfL : ∀ (es : List PyExpr) (L : List (List Str)), lamFreeL es = true → lamFreeL (xfL L es) = true
  | [], _, _ => by simp [xfL, lamFreeL]
  | e :: rest, L, h => by
      simp only [lamFreeL, Bool.and_eq_true] at h
      simp only [xfL, lamFreeL, Bool.and_eq_true]; exact ⟨lamFree_xf e L h.1, lamFreeL_xfL rest L h.2⟩
theorem lamFreeO_xfO : ∀ (o : Option PyExpr) (L : List (List Str)), lamFreeO o = true → lamFreeO (xfO L o) = true
  | none, _, _ => by simp [xfO, lamFreeO]
  | some e, L, h => by
      simp only [lamFreeO] at h
      simp only [xfO, lamFreeO]; exact lamFree_xf e L h
theorem lamFreeL_xfGens : ∀ (es : List PyExpr) (L0 L1 : List (List Str)), lamFreeL es = true →
    lamFreeL (xfGens L0 L1 es) = true
  | [], _, _, _ => by simp [xfGens, lamFreeL]
  | e :: rest, L0, L1, h => by
      simp only [lamFreeL, Bool.and_eq_true] at h
      cases e
      case comp t it ifs a =>
        simp only [lamFree, Bool.and_eq_true] at h
        simp only [xfGens, lamFreeL, lamFree, Bool.and_eq_true]
        exact ⟨⟨lamFree_xf it L0 h.1.1, lamFreeL_xfL ifs L1 h.1.2⟩, lamFreeL_xfGens rest L1 L1 h.2⟩
      all_goals
        simp only [xfGens, lamFreeL, Bool.and_eq_true]
        exact ⟨lamFree_xf _ L1 h.1, lamFreeL_xfGens rest L1 L1 h.2⟩
end

/-! ### the concrete semantics satisfies the hypotheses of `xform_correct` -/
namespace C

theorem constV_str (id : Str) : constV ⟨.str, '\'' :: (id ++ ['\''])⟩ = .str id := by
  simp [constV]

theorem linked_concrete (strict : Bool) (data : List (Str × CV)) (cc : CallT) :
    Linked (sem strict data cc) (world strict data) (globals strict data) where
  data := ⟨.builtin cs!"__data__", .builtin cs!"_lookup_name", by simp [globals], by simp [globals], by
    intro id; simp [sem, call, sem0]⟩
  attr := ⟨.builtin cs!"_lookup_attr", by simp [globals], by
    intro obj a
    simp [sem, call, sem0]
    rfl⟩
  item := ⟨.builtin cs!"_lookup_item", by simp [globals], by
    intro obj k
    refine ⟨.tuple [k], ?_, ?_⟩
    · rfl
    · simp [sem, call, sem0]
      rfl⟩
  str := fun id => constV_str id
  consts := by
    intro id hid
    simp only [constantNames, List.mem_cons, List.mem_nil_iff, or_false] at hid
    rcases hid with rfl | rfl | rfl | rfl | rfl <;> simp [globals, constantNames]

end C
end Genshi.Py

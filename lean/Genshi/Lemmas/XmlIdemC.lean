/-
  C02 — idempotence for builder streams, part 2: one start tag in the second
  pass.  The first pass (no pending declarations) invents declarations `D`; the
  second pass meets them as explicit ones (`xmlns=""` as `None`), takes all of
  them, and then finds for the tag and every attribute the prefix the first
  pass chose, declaring nothing.
-/
import Genshi.Lemmas.XmlIdemB
namespace Genshi.Xml
open Genshi Genshi.Xml.Reader

/-- a namespace URI as the parser reports it in START_NS: `xmlns=""` gives `None` -/
def toNone (u : Str) : Str := if (normUri u).isEmpty then noneUri else normUri u

def toNoneD (D : List (Str × Str)) : List (Str × Str) := D.map fun d => (d.1, toNone d.2)

theorem toNone_nil : toNone [] = noneUri := by decide

theorem toNone_ok {u : Str} (h1 : u ≠ []) (h2 : u ≠ noneUri) : toNone u = u := by
  unfold toNone
  rw [normUri_of_ne h2]
  have : u.isEmpty = false := by simpa using h1
  simp [this]

theorem normUri_toNone (u : Str) : normUri (toNone u) = normUri u := by
  unfold toNone
  by_cases h : (normUri u).isEmpty = true
  · rw [if_pos h]
    have : normUri u = [] := by simpa using h
    rw [this]; decide
  · rw [if_neg h]
    unfold normUri
    by_cases e : u = noneUri
    · simp [e]
    · simp [e]

theorem toNoneD_ok (D : List (Str × Str)) (h : ∀ d ∈ D, d.2 ≠ [] ∧ d.2 ≠ noneUri) : toNoneD D = D := by
  unfold toNoneD
  conv => rhs; rw [← List.map_id D]
  apply List.map_congr_left
  intro d hd
  obtain ⟨h1, h2⟩ := h d hd
  simp [toNone_ok h1 h2]

theorem nsEvents_toNoneD (D : List (Str × Str)) :
    nsEvents (D.map fun d => (d.1, normUri d.2)) = nsEv (toNoneD D) := by
  unfold nsEvents nsEv toNoneD
  rw [List.map_map, List.map_map]
  rfl

/-- the tag-name step of the first pass on a tag without pending declarations,
    and what the second pass makes of its declaration -/
theorem flatTag_builder (pref : List (Str × Str)) (t0 : TagSt) (hd : t0.declared = [])
    (tag : QName) (htag : tagOK tag = true) :
    (∀ T0 : TagSt, scopeOf T0.bindings = scopeOf t0.bindings →
      scopeOf (takePending T0 (toNoneD (flatTag pref t0 tag).2.declared)).bindings =
        scopeOf (flatTag pref t0 tag).2.bindings ∧
      (takePending T0 (toNoneD (flatTag pref t0 tag).2.declared)).declared =
        T0.declared ++ toNoneD (flatTag pref t0 tag).2.declared) ∧
    (tag.ns = [] → (flatTag pref t0 tag).1 = tag.loc) ∧
    (tag.ns ≠ [] → ∃ p, (flatTag pref t0 tag).1 = qualify p tag.loc ∧
      findPrefix (flatTag pref t0 tag).2.bindings tag.ns false = some p) := by
  have htag' : locOK tag.loc = true ∧ nsOK tag.ns = true := by
    unfold tagOK at htag; simpa using htag
  obtain ⟨hns1, hns2⟩ := nsOK_ne htag'.2
  have hnd : ([] : Str) ∉ t0.declared.map Prod.fst := by rw [hd]; simp
  unfold flatTag
  by_cases hn : tag.ns = []
  · have hne : tag.ns.isEmpty = true := by simp [hn]
    simp only [hne, if_true]
    cases hu : uriOf t0.bindings [] with
    | none => exact absurd hu (uriOf_nil_ne_none _)
    | some u =>
      simp only
      by_cases hc : ¬ falsyUri u = true ∧ autoOf t0.bindings [] = true
      · rw [if_pos hc, declare_given_nil pref t0 [] hnd]
        simp only [hd, List.nil_append]
        refine ⟨?_, fun _ => trivial, fun h => absurd hn h⟩
        intro T0 hT
        have hcond : uriOf T0.bindings [] ≠ some noneUri ∧
            (¬ ([] : Str).isEmpty ∨ falsyUri noneUri ∨ findPrefix T0.bindings noneUri false = none) := by
          refine ⟨?_, Or.inr (Or.inl (by decide))⟩
          intro e
          have := uriOf_scope T0.bindings t0.bindings hT []
          rw [e, hu] at this
          simp only [Option.map_some, Option.some.injEq] at this
          have h0 : normUri noneUri = [] := by decide
          rw [h0] at this
          exact hc.1 (falsy_of_normUri_nil this.symm)
        have e1 : toNoneD [(([] : Str), ([] : Str))] = [([], noneUri)] := by decide
        rw [e1, takePending, if_pos hcond]
        simp only [takePending]
        refine ⟨?_, trivial⟩
        simp only [scopeOf, List.map_cons, proj] at hT ⊢
        rw [hT]
        have h0 : normUri noneUri = normUri [] := by decide
        rw [h0]
      · rw [if_neg hc]
        simp only [hd]
        refine ⟨?_, fun _ => trivial, fun h => absurd hn h⟩
        intro T0 hT
        exact ⟨hT, by simp [toNoneD, takePending]⟩
  · have hne : tag.ns.isEmpty = false := by simpa using hn
    simp only [hne, Bool.false_eq_true, if_false]
    cases hf : findPrefix t0.bindings tag.ns false with
    | some p =>
      simp only [hd]
      refine ⟨?_, fun h => absurd h hn, fun _ => ⟨p, rfl, hf⟩⟩
      intro T0 hT
      exact ⟨hT, by simp [toNoneD, takePending]⟩
    | none =>
      simp only
      rw [declare_given_nil pref t0 tag.ns hnd]
      simp only [hd, List.nil_append]
      refine ⟨?_, fun h => absurd h hn, fun _ => ⟨[], rfl, ?_⟩⟩
      · intro T0 hT
        have hcond : uriOf T0.bindings [] ≠ some tag.ns ∧
            (¬ ([] : Str).isEmpty ∨ falsyUri tag.ns ∨ findPrefix T0.bindings tag.ns false = none) := by
          refine ⟨?_, Or.inr (Or.inr ?_)⟩
          · intro e
            have := uriOf_scope_some hT hn hns1 e
            have : findPrefix t0.bindings tag.ns false = some [] := by
              unfold findPrefix; rw [if_pos ⟨rfl, this⟩]
            rw [hf] at this; cases this
          · rw [findPrefix_scope hT hn hns1]; exact hf
        have e1 : toNoneD [(([] : Str), tag.ns)] = [([], tag.ns)] := by
          simp [toNoneD, toNone_ok hn hns1]
        rw [e1, takePending, if_pos hcond]
        simp only [takePending]
        refine ⟨?_, trivial⟩
        simp only [scopeOf, List.map_cons, proj] at hT ⊢
        rw [hT]
      · unfold findPrefix
        rw [if_pos ⟨rfl, by rw [uriOf_cons]; simp⟩]

end Genshi.Xml

namespace Genshi.Xml
open Genshi Genshi.Xml.Reader

theorem toNoneD_append (A B : List (Str × Str)) : toNoneD (A ++ B) = toNoneD A ++ toNoneD B := by
  simp [toNoneD]

/-- **one start tag in the second pass** (tag state level): `t0` is the first
    pass's state at the tag (no pending declarations), `T0` the second pass's,
    seeing the same bindings; the second pass is handed the first pass's
    declarations -/
theorem tag_second (pref : List (Str × Str)) (hpref : prefOK pref = true) (base : List Binding)
    (t0 : TagSt) (ht0 : TagInv base t0) (hd0 : t0.declared = [])
    (tag : QName) (attrs : AttrList) (htag : tagOK tag = true) (hattrs : ∀ a ∈ attrs, attrOK a = true)
    (hj : tag.ns = [] → JProp t0.bindings)
    (T0 : TagSt) (hT : scopeOf T0.bindings = scopeOf t0.bindings) (hTd : T0.declared = []) :
    ∀ T2, T2 = takePending T0 (toNoneD (flatAttrs pref (flatTag pref t0 tag).2 attrs).2.declared) →
      T2.declared = toNoneD (flatAttrs pref (flatTag pref t0 tag).2 attrs).2.declared ∧
      scopeOf T2.bindings = scopeOf (flatAttrs pref (flatTag pref t0 tag).2 attrs).2.bindings ∧
      flatTag pref T2 tag = ((flatTag pref t0 tag).1, T2) ∧
      flatAttrs pref T2 attrs = ((flatAttrs pref (flatTag pref t0 tag).2 attrs).1, T2) := by
  have htag' : locOK tag.loc = true ∧ nsOK tag.ns = true := by
    unfold tagOK at htag; simpa using htag
  obtain ⟨hns1, hns2⟩ := nsOK_ne htag'.2
  obtain ⟨b1, b2, b3⟩ := flatTag_builder pref t0 hd0 tag htag
  obtain ⟨i1, r1, _⟩ := flatTag_spec pref hpref base t0 ht0 tag htag hj (by rw [hd0]; simp)
  generalize flatTag pref t0 tag = ft at *
  obtain ⟨name, t1⟩ := ft
  simp only at b1 b2 b3 i1 r1 ⊢
  obtain ⟨c1, c2⟩ := b1 T0 hT
  obtain ⟨DA, d1, d2, d3, d4⟩ := takePending_second_attrs pref hpref base attrs t1 i1 hattrs
    (takePending T0 (toNoneD t1.declared)) c1
  obtain ⟨i2, e2, _⟩ := flatAttrs_spec pref hpref base attrs t1 i1 hattrs
  have hD : toNoneD (flatAttrs pref t1 attrs).2.declared = toNoneD t1.declared ++ DA := by
    rw [d1, toNoneD_append, toNoneD_ok DA d2]
  intro T2 hT2
  rw [hD, takePending_append] at hT2
  subst hT2
  refine ⟨by rw [d4, c2, hTd, hD]; simp, d3, ?_, ?_⟩
  · by_cases hn : tag.ns = []
    · have hne : tag.ns.isEmpty = true := by simp [hn]
      unfold TagRes at r1
      rw [if_pos hn] at r1
      obtain ⟨_, u, hu, hfu⟩ := r1
      rw [← e2.default.1] at hu
      have hs := uriOf_scope _ _ d3 []
      rw [hu] at hs
      unfold flatTag
      simp only [hne, if_true]
      cases hu2 : uriOf (takePending (takePending T0 (toNoneD t1.declared)) DA).bindings [] with
      | none => exact absurd hu2 (uriOf_nil_ne_none _)
      | some u2 =>
        rw [hu2] at hs
        simp only [Option.map_some, Option.some.injEq] at hs
        rw [normUri_falsy hfu] at hs
        have hf2 := falsy_of_normUri_nil hs
        simp only
        rw [if_neg (fun x => x.1 hf2), b2 hn]
    · have hne : tag.ns.isEmpty = false := by simpa using hn
      obtain ⟨p, hp1, hp2⟩ := b3 hn
      have hst := flatAttrs_stable pref hpref base tag.ns p false attrs t1 i1 hattrs hp2
      have hT2f : findPrefix (takePending (takePending T0 (toNoneD t1.declared)) DA).bindings tag.ns false = some p := by
        rw [findPrefix_scope d3 hn hns1]; exact hst
      unfold flatTag
      simp only [hne, Bool.false_eq_true, if_false, hT2f, hp1]
  · exact flatAttrs_second pref hpref base attrs t1 i1 hattrs _ d3

theorem flatStart_eq (pref : List (Str × Str)) (st : FSt) (tag : QName) (attrs : AttrList) :
    flatStart pref st tag attrs =
      ((flatTag pref (takePending ⟨st.bindings, [], st.counter⟩ st.pending) tag).1,
       (flatAttrs pref (flatTag pref (takePending ⟨st.bindings, [], st.counter⟩ st.pending) tag).2 attrs).2.declared.map
          (fun d => (nsAttrName d.1, d.2)) ++
         (flatAttrs pref (flatTag pref (takePending ⟨st.bindings, [], st.counter⟩ st.pending) tag).2 attrs).1,
       (flatAttrs pref (flatTag pref (takePending ⟨st.bindings, [], st.counter⟩ st.pending) tag).2 attrs).2) := rfl

theorem normAttrs_decls (D : List (Str × Str)) :
    normAttrs ((toNoneD D).map fun d => (nsAttrName d.1, d.2)) = normAttrs (D.map fun d => (nsAttrName d.1, d.2)) := by
  simp [normAttrs, toNoneD, List.map_map, Function.comp_def, normUri_toNone]

/-- **one start tag in the second pass** (filter state level) -/
theorem flatStart_second (pref : List (Str × Str)) (hpref : prefOK pref = true)
    (st1 : FSt) (rst : RSt) (ck : CkSt) (inv : Inv st1 rst ck) (hp1 : st1.pending = [])
    (st2 : FSt) (hk : scopeOf st2.bindings = scopeOf st1.bindings)
    (tag : QName) (attrs : AttrList) (d' : Bool) (hck : ckStartLike ck tag attrs = some d') :
    ∀ r1, r1 = flatStart pref st1 tag attrs →
    ∀ r2, r2 = flatStart pref { st2 with pending := toNoneD r1.2.2.declared } tag attrs →
      r2.1 = r1.1 ∧ normAttrs r2.2.1 = normAttrs r1.2.1 ∧
      scopeOf r2.2.2.bindings = scopeOf r1.2.2.bindings ∧
      r2.2.2.declared = toNoneD r1.2.2.declared ∧ r2.2.2.counter = st2.counter := by
  obtain ⟨hd', _, htag, hattrs, hdn⟩ := ckStartLike_parts hck
  obtain ⟨hattrs1, _⟩ := attrsOK_parts hattrs
  obtain ⟨lv1, lv2, lv3⟩ := inv.level
  have t0inv : TagInv st1.bindings { bindings := st1.bindings, declared := [], counter := st1.counter } :=
    ⟨⟨[], rfl, rfl⟩, by simp, lv1, lv2⟩
  have hd'' : d' = ck.dTruthy := by
    rw [hd', inv.pendD, hp1]; rfl
  have hj : tag.ns = [] → JProp st1.bindings := fun hn => lv3 (by rw [← hd'']; exact hdn hn)
  have key := tag_second pref hpref st1.bindings ⟨st1.bindings, [], st1.counter⟩ t0inv rfl tag attrs htag hattrs1 hj
    ⟨st2.bindings, [], st2.counter⟩ hk rfl _ rfl
  obtain ⟨k1, k2, k3, k4⟩ := key
  intro r1 hr1 r2 hr2
  rw [flatStart_eq, hp1] at hr1
  simp only [takePending] at hr1
  subst hr1
  rw [flatStart_eq] at hr2
  simp only at hr2
  rw [k3] at hr2
  simp only at hr2
  rw [k4] at hr2
  simp only at hr2
  subst hr2
  simp only
  refine ⟨trivial, ?_, k2, k1, takePending_counter _ _⟩
  rw [k1]
  simp only [normAttrs, List.map_append]
  congr 1
  exact normAttrs_decls _

end Genshi.Xml

/-
  C09 — helper lemmas, part A: a start tag that writes no declaration
  (`declared = []`) is computed from `bindings` alone — not from `pending`, not
  from the prefix generator's counter, not from `elems` — and leaves the tag
  state as it found it.
-/
import Genshi.Model.OutputFlattenCache
namespace Genshi.Xml
open Genshi

/-! ### `declared` only grows -/

theorem takePending_len (ps : List (Str × Str)) :
    ∀ t : TagSt, t.declared.length ≤ (takePending t ps).declared.length := by
  induction ps with
  | nil => intro t; simp [takePending]
  | cons pu rest ih =>
    intro t
    obtain ⟨p, u⟩ := pu
    simp only [takePending]
    split
    · have := ih { t with bindings := (p, u, false) :: t.bindings, declared := t.declared ++ [(p, u)] }
      simp only [List.length_append, List.length_cons, List.length_nil] at this
      omega
    · exact ih t

theorem takePending_same (ps : List (Str × Str)) :
    ∀ t : TagSt, (takePending t ps).declared.length = t.declared.length → takePending t ps = t := by
  induction ps with
  | nil => intro t _; simp [takePending]
  | cons pu rest ih =>
    intro t h
    obtain ⟨p, u⟩ := pu
    by_cases hc : uriOf t.bindings p ≠ some u ∧ (¬ p.isEmpty ∨ falsyUri u ∨ findPrefix t.bindings u false = none)
    · have e : takePending t ((p, u) :: rest) = takePending
          { t with bindings := (p, u, false) :: t.bindings, declared := t.declared ++ [(p, u)] } rest := by
        simp only [takePending]; rw [if_pos hc]
      rw [e] at h
      have := takePending_len rest
        { t with bindings := (p, u, false) :: t.bindings, declared := t.declared ++ [(p, u)] }
      simp only [List.length_append, List.length_cons, List.length_nil] at this
      omega
    · have e : takePending t ((p, u) :: rest) = takePending t rest := by
        simp only [takePending]; rw [if_neg hc]
      rw [e] at h ⊢
      exact ih t h

theorem declare_len (pref : List (Str × Str)) (t : TagSt) (uri : Str) (pfx : Option Str) :
    (declare pref t uri pfx).2.declared.length = t.declared.length + 1 := by
  simp [declare]

/-- the tag state with another value of the prefix generator's counter -/
def TagSt.wc (t : TagSt) (c : Nat) : TagSt := { t with counter := c }

@[simp] theorem TagSt.wc_bindings (t : TagSt) (c : Nat) : (t.wc c).bindings = t.bindings := rfl
@[simp] theorem TagSt.wc_declared (t : TagSt) (c : Nat) : (t.wc c).declared = t.declared := rfl
@[simp] theorem TagSt.wc_counter (t : TagSt) (c : Nat) : (t.wc c).counter = c := rfl
theorem TagSt.wc_self (t : TagSt) : t.wc t.counter = t := rfl

theorem flatTag_len (pref : List (Str × Str)) (t : TagSt) (tag : QName) :
    t.declared.length ≤ (flatTag pref t tag).2.declared.length := by
  unfold flatTag
  split
  · split
    · split
      · simp [declare_len]
      · simp
    · simp
  · split
    · simp
    · simp [declare_len]

theorem flatTag_same_aux (pref : List (Str × Str)) (bs : List Binding) (d : List (Str × Str)) (c0 : Nat)
    (tag : QName)
    (h : (flatTag pref ⟨bs, d, c0⟩ tag).2.declared.length = d.length) :
    ∃ name, ∀ c, flatTag pref ⟨bs, d, c⟩ tag = (name, ⟨bs, d, c⟩) := by
  by_cases hn : tag.ns.isEmpty = true
  · cases hu : uriOf bs [] with
    | none => exact ⟨tag.loc, fun c => by simp [flatTag, hn, hu]⟩
    | some u =>
      by_cases hc : ¬ falsyUri u ∧ autoOf bs []
      · have e : (flatTag pref ⟨bs, d, c0⟩ tag).2 = (declare pref ⟨bs, d, c0⟩ [] (some [])).2 := by
          simp only [flatTag, hn, hu, ↓reduceIte]; rw [if_pos hc]
        rw [e, declare_len] at h; simp at h
      · refine ⟨tag.loc, fun c => ?_⟩
        simp only [flatTag, hn, hu, ↓reduceIte]; rw [if_neg hc]
  · cases hf : findPrefix bs tag.ns false with
    | some p => exact ⟨qualify p tag.loc, fun c => by simp [flatTag, hn, hf]⟩
    | none =>
      have e : (flatTag pref ⟨bs, d, c0⟩ tag).2 = (declare pref ⟨bs, d, c0⟩ tag.ns (some [])).2 := by
        simp [flatTag, hn, hf]
      rw [e, declare_len] at h; simp at h

/-- no declaration for the element name: the state is untouched and the name depends on the
    bindings only -/
theorem flatTag_same (pref : List (Str × Str)) (t : TagSt) (tag : QName)
    (h : (flatTag pref t tag).2.declared.length = t.declared.length) :
    (flatTag pref t tag).2 = t ∧
    ∀ c, flatTag pref (t.wc c) tag = ((flatTag pref t tag).1, t.wc c) := by
  obtain ⟨bs, d, c0⟩ := t
  obtain ⟨name, hname⟩ := flatTag_same_aux pref bs d c0 tag h
  simp only [TagSt.wc, hname]
  simp

theorem flatAttrsT_cons_plain (pref : List (Str × Str)) (t : TagSt) (n : QName) (v : TVal) (rest : TAttrs)
    (hn : n.ns.isEmpty = true) :
    flatAttrsT pref t ((n, v) :: rest) =
      ((n.loc, v) :: (flatAttrsT pref t rest).1, (flatAttrsT pref t rest).2) := by
  simp [flatAttrsT, hn]

theorem flatAttrsT_cons_found (pref : List (Str × Str)) (t : TagSt) (n : QName) (v : TVal) (rest : TAttrs)
    (p : Str) (hn : ¬ n.ns.isEmpty = true) (hp : findPrefix t.bindings n.ns true = some p) :
    flatAttrsT pref t ((n, v) :: rest) =
      ((p ++ ':' :: n.loc, v) :: (flatAttrsT pref t rest).1, (flatAttrsT pref t rest).2) := by
  simp [flatAttrsT, hn, hp]

theorem flatAttrsT_cons_decl (pref : List (Str × Str)) (t : TagSt) (n : QName) (v : TVal) (rest : TAttrs)
    (hn : ¬ n.ns.isEmpty = true) (hp : findPrefix t.bindings n.ns true = none) :
    (flatAttrsT pref t ((n, v) :: rest)).2 = (flatAttrsT pref (declare pref t n.ns none).2 rest).2 := by
  simp [flatAttrsT, hn, hp]

theorem flatAttrsT_len (pref : List (Str × Str)) (a : TAttrs) :
    ∀ t : TagSt, t.declared.length ≤ (flatAttrsT pref t a).2.declared.length := by
  induction a with
  | nil => intro t; simp [flatAttrsT]
  | cons av rest ih =>
    intro t
    obtain ⟨n, v⟩ := av
    by_cases hn : n.ns.isEmpty = true
    · rw [flatAttrsT_cons_plain pref t n v rest hn]; exact ih t
    · cases hp : findPrefix t.bindings n.ns true with
      | some p => rw [flatAttrsT_cons_found pref t n v rest p hn hp]; exact ih t
      | none =>
        rw [flatAttrsT_cons_decl pref t n v rest hn hp]
        have := ih (declare pref t n.ns none).2
        rw [declare_len] at this
        omega

/-- no declaration for the attributes: the state is untouched and the flattened attributes depend
    on the bindings only -/
theorem flatAttrsT_same (pref : List (Str × Str)) (a : TAttrs) :
    ∀ t : TagSt, (flatAttrsT pref t a).2.declared.length = t.declared.length →
      (flatAttrsT pref t a).2 = t ∧
      ∀ c, flatAttrsT pref (t.wc c) a = ((flatAttrsT pref t a).1, t.wc c) := by
  induction a with
  | nil => intro t _; simp [flatAttrsT]
  | cons av rest ih =>
    intro t h
    obtain ⟨n, v⟩ := av
    by_cases hn : n.ns.isEmpty = true
    · rw [flatAttrsT_cons_plain pref t n v rest hn] at h ⊢
      obtain ⟨h1, h2⟩ := ih t h
      refine ⟨h1, fun c => ?_⟩
      rw [flatAttrsT_cons_plain pref (t.wc c) n v rest hn, h2 c]
    · cases hp : findPrefix t.bindings n.ns true with
      | some p =>
        rw [flatAttrsT_cons_found pref t n v rest p hn hp] at h ⊢
        obtain ⟨h1, h2⟩ := ih t h
        refine ⟨h1, fun c => ?_⟩
        rw [flatAttrsT_cons_found pref (t.wc c) n v rest p hn hp, h2 c]
      | none =>
        rw [flatAttrsT_cons_decl pref t n v rest hn hp] at h
        have := flatAttrsT_len pref rest (declare pref t n.ns none).2
        rw [declare_len] at this
        omega

end Genshi.Xml

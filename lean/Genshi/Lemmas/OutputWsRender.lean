/-
  Helper lemmas for C08: `strip_whitespace=True` on a forest reduces to `strip_whitespace=False` on
  the normalised forest.
  * the filter chain with `WhitespaceFilter` on a forest in one namespace (`filtered_strip_forestU`);
  * the main loop writes the same for the filter's forest and the normalised forest (`serSpec_ws_eq`);
  * the normalised forest is again a forest in the same namespace (`okList_normForest`,
    `uniformNs_normForest`), so every statement about `strip_whitespace=False` applies to it.
  Mathlib-free.
-/
import Genshi.Lemmas.OutputWsSpec
import Genshi.Lemmas.ReaderDocTop
namespace Genshi.Output
open Genshi Genshi.Escape Genshi.Reader

/-! ### the normalised forest is a forest in the same namespace -/

theorem wsf_okList_append (a b : List Node) : okList (a ++ b) = (okList a && okList b) := by
  induction a with
  | nil => simp [okList]
  | cons n ns ih => simp [okList, ih, Bool.and_assoc]

theorem okList_flushS (p : Bool) (b : Option Str) : okList (flushS p b) = true := by
  cases b <;> simp [flushS, okList, Node.ok, Event.isStartEnd]

theorem uniformNs_flushS (u : Str) (p : Bool) (b : Option Str) : forestUniformNs u (flushS p b) = true := by
  cases b <;> simp [flushS, forestUniformNs, uniformNs, leafF]

mutual
  theorem okList_normTreeA (m : Method) : ∀ (n : Node) (p : Bool) (b : Option Str),
      n.ok = true → okList (normTreeA m p b n).1 = true
    | .elem t a ks, p, b, h => by
        cases ks with
        | nil => simp [normTreeA, wsf_okList_append, okList_flushS, okList, Node.ok]
        | cons k ks' =>
          have hk : okList (k :: ks') = true := by simpa [Node.ok] using h
          have := okList_normForestA m (k :: ks') (p || presTrig m t a) none hk
          simp [normTreeA, wsf_okList_append, okList_flushS, okList, Node.ok, this]
    | .leaf e, p, b, h => by
        cases e <;> simp [Node.ok, Event.isStartEnd] at h <;>
          simp [normTreeA, wsf_okList_append, okList_flushS, okList, Node.ok, Event.isStartEnd]
  theorem okList_normForestA (m : Method) : ∀ (ns : List Node) (p : Bool) (b : Option Str),
      okList ns = true → okList (normForestA m p b ns).1 = true
    | [], p, b, _ => by simp [normForestA, okList]
    | n :: ns, p, b, h => by
        simp only [okList, Bool.and_eq_true] at h
        simp [normForestA, wsf_okList_append, okList_normTreeA m n p b h.1, okList_normForestA m ns p _ h.2]
end

theorem okList_normForest (m : Method) (ns : List Node) (h : okList ns = true) : okList (normForest m ns) = true := by
  simp [normForest, wsf_okList_append, okList_flushS, okList_normForestA m ns false none h]

mutual
  theorem uniformNs_normTreeA (u : Str) (m : Method) : ∀ (n : Node) (p : Bool) (b : Option Str),
      uniformNs u n = true → forestUniformNs u (normTreeA m p b n).1 = true
    | .elem t a ks, p, b, h => by
        simp only [uniformNs, Bool.and_eq_true] at h
        cases ks with
        | nil =>
          simp [normTreeA, wsf_uniformNs_append, uniformNs_flushS, forestUniformNs, uniformNs, h.1.1, h.1.2]
        | cons k ks' =>
          have := uniformNs_normForestA u m (k :: ks') (p || presTrig m t a) none h.2
          simp [normTreeA, wsf_uniformNs_append, uniformNs_flushS, forestUniformNs, uniformNs, h.1.1, h.1.2, this]
    | .leaf e, p, b, h => by
        cases e <;> simp [uniformNs, leafF] at h <;>
          simp [normTreeA, wsf_uniformNs_append, uniformNs_flushS, forestUniformNs, uniformNs, leafF]
  theorem uniformNs_normForestA (u : Str) (m : Method) : ∀ (ns : List Node) (p : Bool) (b : Option Str),
      forestUniformNs u ns = true → forestUniformNs u (normForestA m p b ns).1 = true
    | [], p, b, _ => by simp [normForestA, forestUniformNs]
    | n :: ns, p, b, h => by
        simp only [forestUniformNs, Bool.and_eq_true] at h
        simp [normForestA, wsf_uniformNs_append, uniformNs_normTreeA u m n p b h.1,
          uniformNs_normForestA u m ns p _ h.2]
end

theorem uniformNs_normForest (u : Str) (m : Method) (ns : List Node) (h : forestUniformNs u ns = true) :
    forestUniformNs u (normForest m ns) = true := by
  simp [normForest, wsf_uniformNs_append, uniformNs_flushS, uniformNs_normForestA u m ns false none h]

/-! ### the main loop writes the same for the filter's forest and the normalised forest -/

theorem wsSim_init : WsSim {} none 0 false := ⟨rfl, rfl, rfl, rfl, rfl, by intro p hp; cases hp⟩

theorem serSpec_ws_eq (m : Method) (o : Opts) (u : Str) (c : Ctx) (hc : c.raw = false) (ns : List Node)
    (hd : wsDom m ns = true) :
    serSpec m o c (forestFu u false (wsForest (wsCfg m) ns)) = serSpec m o c (forestFu u false (normForest m ns)) := by
  have h := wsSim_forest m o u ns {} none 0 false c false wsSim_init hc hd
  have hfl := flush_outEq m o u false _ _ 0 false _ h.sim h.raw
  exact (OutEq.append h.out hfl.1).1

/-! ### the filter chain with `WhitespaceFilter` -/

theorem filtered_strip_forestU (m : Method) (dropd : Bool) (u : Str) (hu : u ≠ xmlNs) (dopt : Option DocTypeT)
    (ns : List Node) (hok : okList ns = true) (hns : forestUniformNs u ns = true) :
    filtered m { strip := true, cache := false, doctype := dopt, dropXmlDecl := dropd } (flattenList ns) =
      some (withDoctype dopt (forestFu u false (wsForest (wsCfg m) ns))) := by
  have := flatten_forestU u hu (wsForest (wsCfg m) ns) [] false [] (uniformNs_wsForest u (wsCfg m) ns hns)
  simp only [List.append_nil, flatten, Option.map_some] at this
  have h0 : nsSt u false [] = flatInit m := by simp [nsSt, scopeB, flatInit]
  rw [h0] at this
  simp [filtered, preFlat, emptyTag_flattenList ns hok, wsFilter_forestQ _ ns hok, this]

end Genshi.Output

namespace Genshi.Output
open Genshi Genshi.Escape Genshi.Reader

/-! ### with a doctype option: `DocTypeInserter` looks at the first event only -/

/-- the first node is an element or a text / comment / PI / DOCTYPE leaf (or there is none) -/
def goodHead : List Node → Bool
  | [] => true
  | .elem _ _ _ :: _ => true
  | .leaf (.text _ _) :: _ => true
  | .leaf (.comment _) :: _ => true
  | .leaf (.pi _ _) :: _ => true
  | .leaf (.doctype _ _ _) :: _ => true
  | _ => false

theorem notXdHead_goodHead (u : Str) (s : Bool) (X : List Node) (h : goodHead X = true) :
    notXdHead (forestFu u s X) = true := by
  cases X with
  | nil => rfl
  | cons n rest =>
    cases n with
    | elem t a ks =>
      cases ks <;> simp [forestFu, treeFu, notXdHead]
    | leaf e => cases e <;> simp [goodHead] at h <;> simp [forestFu, treeFu, leafF, notXdHead]

theorem wsFlushN_pending (norm : Bool → Str → Str) (st : WsSt) (h : st.textbuf ≠ []) :
    ∃ x, wsFlushN norm st = [.leaf (.text x true)] := by
  unfold wsFlushN
  have : st.textbuf.isEmpty = false := by simpa using h
  simp [this]

theorem wsTreeG_nontext (norm : Bool → Str → Str) (cfg : WsCfg) (st : WsSt) (n : Node)
    (h : ∀ s f, n ≠ .leaf (.text s f)) : ∃ y, (wsTreeG norm cfg st n).1 = wsFlushN norm st ++ [y] := by
  cases n with
  | elem t a ks => cases ks <;> simp [wsTreeG]
  | leaf e => cases e <;> first | exact absurd rfl (h _ _) | simp [wsTreeG]

/-- pending text comes out first -/
theorem wsForestG_pending_first (norm : Bool → Str → Str) (cfg : WsCfg) : ∀ (ns : List Node) (st : WsSt),
    st.textbuf ≠ [] →
    ∃ x rest, (wsForestG norm cfg st ns).1 ++ wsFlushN norm (wsForestG norm cfg st ns).2 = .leaf (.text x true) :: rest
  | [], st, h => by
      obtain ⟨x, hx⟩ := wsFlushN_pending norm st h
      exact ⟨x, [], by simp [wsForestG, hx]⟩
  | n :: ns, st, h => by
      simp only [wsForestG]
      by_cases ht : ∃ s f, n = .leaf (.text s f)
      · obtain ⟨s, f, rfl⟩ := ht
        have := wsForestG_pending_first norm cfg ns
          { st with textbuf := st.textbuf ++ [(s, f || st.noescape || st.inCdata)] } (by simp)
        simpa [wsTreeG] using this
      · have hn : ∀ s f, n ≠ .leaf (.text s f) := fun s f e => ht ⟨s, f, e⟩
        obtain ⟨y, hy⟩ := wsTreeG_nontext norm cfg st n hn
        obtain ⟨x, hx⟩ := wsFlushN_pending norm st h
        rw [hy, hx]
        exact ⟨x, _, rfl⟩

theorem normTreeA_nontext (m : Method) (p : Bool) (b : Option Str) (n : Node)
    (h : ∀ s f, n ≠ .leaf (.text s f)) : ∃ y, (normTreeA m p b n).1 = flushS p b ++ [y] := by
  cases n with
  | elem t a ks => cases ks <;> simp [normTreeA]
  | leaf e => cases e <;> first | exact absurd rfl (h _ _) | simp [normTreeA]

theorem normForestA_pending_first (m : Method) (p : Bool) : ∀ (ns : List Node) (b : Str),
    ∃ x rest, (normForestA m p (some b) ns).1 ++ flushS p (normForestA m p (some b) ns).2 = .leaf (.text x false) :: rest
  | [], b => ⟨_, [], rfl⟩
  | n :: ns, b => by
      simp only [normForestA]
      by_cases ht : ∃ s f, n = .leaf (.text s f)
      · obtain ⟨s, f, rfl⟩ := ht
        have := normForestA_pending_first m p ns (b ++ s)
        simpa [normTreeA] using this
      · have hn : ∀ s f, n ≠ .leaf (.text s f) := fun s f e => ht ⟨s, f, e⟩
        obtain ⟨y, hy⟩ := normTreeA_nontext m p (some b) n hn
        rw [hy]
        exact ⟨_, _, rfl⟩

/-- a forest of the domain that does not begin with an XML declaration: neither does what the
    filter makes of it -/
theorem goodHead_wsForest (m : Method) (n : Node) (rest : List Node) (hd : wsDom m (n :: rest) = true)
    (hx : ∀ v e s, n ≠ .leaf (.xmlDecl v e s)) : goodHead (wsForest (wsCfg m) (n :: rest)) = true := by
  simp only [wsDom, wsDomF, Bool.and_eq_true] at hd
  by_cases ht : ∃ s f, n = .leaf (.text s f)
  · obtain ⟨s, f, rfl⟩ := ht
    obtain ⟨x, r, hxr⟩ := wsForestG_pending_first stdNorm (wsCfg m) rest
      { ({} : WsSt) with textbuf := ([] : List (Str × Bool)) ++ [(s, f || false || false)] } (by simp)
    have : wsForest (wsCfg m) (.leaf (.text s f) :: rest) = .leaf (.text x true) :: r := by
      simpa [wsForest, wsForestG, wsTreeG] using hxr
    rw [this]; rfl
  · have hn : ∀ s f, n ≠ .leaf (.text s f) := fun s f e => ht ⟨s, f, e⟩
    cases n with
    | elem t a ks => cases ks <;> simp [wsForest, wsForestG, wsTreeG, wsFlushN, goodHead]
    | leaf e =>
      cases e <;> first
        | exact absurd rfl (hn _ _)
        | exact absurd rfl (hx _ _ _)
        | (simp [wsDomT] at hd; done)
        | simp [wsForest, wsForestG, wsTreeG, wsFlushN, goodHead]

theorem goodHead_normForest (m : Method) (n : Node) (rest : List Node) (hd : wsDom m (n :: rest) = true)
    (hx : ∀ v e s, n ≠ .leaf (.xmlDecl v e s)) : goodHead (normForest m (n :: rest)) = true := by
  simp only [wsDom, wsDomF, Bool.and_eq_true] at hd
  by_cases ht : ∃ s f, n = .leaf (.text s f)
  · obtain ⟨s, f, rfl⟩ := ht
    obtain ⟨x, r, hxr⟩ := normForestA_pending_first m false rest s
    have : normForest m (.leaf (.text s f) :: rest) = .leaf (.text x false) :: r := by
      simpa [normForest, normForestA, normTreeA] using hxr
    rw [this]; rfl
  · have hn : ∀ s f, n ≠ .leaf (.text s f) := fun s f e => ht ⟨s, f, e⟩
    cases n with
    | elem t a ks => cases ks <;> simp [normForest, normForestA, normTreeA, flushS, goodHead]
    | leaf e =>
      cases e <;> first
        | exact absurd rfl (hn _ _)
        | exact absurd rfl (hx _ _ _)
        | (simp [wsDomT] at hd; done)
        | simp [normForest, normForestA, normTreeA, flushS, goodHead]

theorem wsForest_xmlDecl (cfg : WsCfg) (v : Str) (e : Option Str) (s : Int) (rest : List Node) :
    wsForest cfg (.leaf (.xmlDecl v e s) :: rest) = .leaf (.xmlDecl v e s) :: wsForest cfg rest := by
  simp [wsForest, wsForestG, wsTreeG, wsFlushN, ofEvent, wsUpdate]

theorem normForest_xmlDecl (m : Method) (v : Str) (e : Option Str) (s : Int) (rest : List Node) :
    normForest m (.leaf (.xmlDecl v e s) :: rest) = .leaf (.xmlDecl v e s) :: normForest m rest := by
  simp [normForest, normForestA, normTreeA, flushS]

/-- the main loop behind `DocTypeInserter` -/
theorem serSpec_ws_dt_eq (m : Method) (o : Opts) (u : Str) (dopt : Option DocTypeT) (ns : List Node)
    (hd : wsDom m ns = true) :
    serSpec m o {} (withDoctype dopt (forestFu u false (wsForest (wsCfg m) ns))) =
      serSpec m o {} (withDoctype dopt (forestFu u false (normForest m ns))) := by
  cases dopt with
  | none => exact serSpec_ws_eq m o u {} rfl ns hd
  | some d =>
    simp only [withDoctype]
    cases ns with
    | nil => rfl
    | cons n rest =>
      by_cases hx : ∃ v e s, n = .leaf (.xmlDecl v e s)
      · obtain ⟨v, e, s, rfl⟩ := hx
        have hd' : wsDom m rest = true := by
          simp only [wsDom, wsDomF, Bool.and_eq_true] at hd; exact hd.2
        rw [wsForest_xmlDecl, normForest_xmlDecl]
        simp only [forestFu, treeFu, leafF, Option.toList_some, List.singleton_append, docTypeInsert, serSpec]
        rw [serSpec_ws_eq m o u _ (by simp only [ctxAfter]; split <;> rfl) rest hd']
      · have hx' : ∀ v e s, n ≠ .leaf (.xmlDecl v e s) := fun v e s h => hx ⟨v, e, s, h⟩
        rw [docTypeInsert_notXd d _ (notXdHead_goodHead u false _ (goodHead_wsForest m n rest hd hx')),
          docTypeInsert_notXd d _ (notXdHead_goodHead u false _ (goodHead_normForest m n rest hd hx'))]
        simp only [serSpec]
        rw [serSpec_ws_eq m o u _ rfl (n :: rest) hd]

end Genshi.Output

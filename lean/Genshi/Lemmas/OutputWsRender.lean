/-
  Helper lemmas for C08: `strip_whitespace=True` on a forest reduces to `strip_whitespace=False` on
  the normalised forest.
  * the filter chain with `WhitespaceFilter` on a forest in one namespace (`filtered_strip_forestU`);
  * the main loop writes the same for the filter's forest and the normalised forest (`serSpec_ws_eq`);
  * the normalised forest is again a forest in the same namespace (`okList_normForest`,
    `uniformNs_normForest`), so every statement about `strip_whitespace=False` applies to it.
  Mathlib-free.
-/
import Genshi.Lemmas.OutputWsSpec
import Genshi.Lemmas.ReaderDocTop
namespace Genshi.Output
open Genshi Genshi.Escape Genshi.Reader

/-! ### the normalised forest is a forest in the same namespace -/

theorem wsf_okList_append (a b : List Node) : okList (a ++ b) = (okList a && okList b) := by
  induction a with
  | nil => simp [okList]
  | cons n ns ih => simp [okList, ih, Bool.and_assoc]

theorem okList_flushS (p : Bool) (b : Option Str) : okList (flushS p b) = true := by
  cases b <;> simp [flushS, okList, Node.ok, Event.isStartEnd]

theorem uniformNs_flushS (u : Str) (p : Bool) (b : Option Str) : forestUniformNs u (flushS p b) = true := by
  cases b <;> simp [flushS, forestUniformNs, uniformNs, leafF]

mutual
  theorem okList_normTreeA (m : Method) : ∀ (n : Node) (p : Bool) (b : Option Str),
      n.ok = true → okList (normTreeA m p b n).1 = true
    | .elem t a ks, p, b, h => by
        cases ks with
        | nil => simp [normTreeA, wsf_okList_append, okList_flushS, okList, Node.ok]
        | cons k ks' =>
          have hk : okList (k :: ks') = true := by simpa [Node.ok] using h
          have := okList_normForestA m (k :: ks') (p || presTrig m t a) none hk
          simp [normTreeA, wsf_okList_append, okList_flushS, okList, Node.ok, this]
    | .leaf e, p, b, h => by
        cases e <;> simp [Node.ok, Event.isStartEnd] at h <;>
          simp [normTreeA, wsf_okList_append, okList_flushS, okList, Node.ok, Event.isStartEnd]
  theorem okList_normForestA (m : Method) : ∀ (ns : List Node) (p : Bool) (b : Option Str),
      okList ns = true → okList (normForestA m p b ns).1 = true
    | [], p, b, _ => by simp [normForestA, okList]
    | n :: ns, p, b, h => by
        simp only [okList, Bool.and_eq_true] at h
        simp [normForestA, wsf_okList_append, okList_normTreeA m n p b h.1, okList_normForestA m ns p _ h.2]
end

theorem okList_normForest (m : Method) (ns : List Node) (h : okList ns = true) : okList (normForest m ns) = true := by
  simp [normForest, wsf_okList_append, okList_flushS, okList_normForestA m ns false none h]

mutual
  theorem uniformNs_normTreeA (u : Str) (m : Method) : ∀ (n : Node) (p : Bool) (b : Option Str),
      uniformNs u n = true → forestUniformNs u (normTreeA m p b n).1 = true
    | .elem t a ks, p, b, h => by
        simp only [uniformNs, Bool.and_eq_true] at h
        cases ks with
        | nil =>
          simp [normTreeA, wsf_uniformNs_append, uniformNs_flushS, forestUniformNs, uniformNs, h.1.1, h.1.2]
        | cons k ks' =>
          have := uniformNs_normForestA u m (k :: ks') (p || presTrig m t a) none h.2
          simp [normTreeA, wsf_uniformNs_append, uniformNs_flushS, forestUniformNs, uniformNs, h.1.1, h.1.2, this]
    | .leaf e, p, b, h => by
        cases e <;> simp [uniformNs, leafF] at h <;>
          simp [normTreeA, wsf_uniformNs_append, uniformNs_flushS, forestUniformNs, uniformNs, leafF]
  theorem uniformNs_normForestA (u : Str) (m : Method) : ∀ (ns : List Node) (p : Bool) (b : Option Str),
      forestUniformNs u ns = true → forestUniformNs u (normForestA m p b ns).1 = true
    | [], p, b, _ => by simp [normForestA, forestUniformNs]
    | n :: ns, p, b, h => by
        simp only [forestUniformNs, Bool.and_eq_true] at h
        simp [normForestA, wsf_uniformNs_append, uniformNs_normTreeA u m n p b h.1,
          uniformNs_normForestA u m ns p _ h.2]
end

theorem uniformNs_normForest (u : Str) (m : Method) (ns : List Node) (h : forestUniformNs u ns = true) :
    forestUniformNs u (normForest m ns) = true := by
  simp [normForest, wsf_uniformNs_append, uniformNs_flushS, uniformNs_normForestA u m ns false none h]

/-! ### the main loop writes the same for the filter's forest and the normalised forest -/

theorem wsSim_init : WsSim {} none 0 false := ⟨rfl, rfl, rfl, rfl, rfl, by intro p hp; cases hp⟩

theorem serSpec_ws_eq (m : Method) (o : Opts) (u : Str) (c : Ctx) (hc : c.raw = false) (ns : List Node)
    (hd : wsDom m ns = true) :
    serSpec m o c (forestFu u false (wsForest (wsCfg m) ns)) = serSpec m o c (forestFu u false (normForest m ns)) := by
  have h := wsSim_forest m o u ns {} none 0 false c false wsSim_init hc hd
  have hfl := flush_outEq m o u false _ _ 0 false _ h.sim h.raw
  exact (OutEq.append h.out hfl.1).1

/-! ### the filter chain with `WhitespaceFilter` -/

theorem filtered_strip_forestU (m : Method) (dropd : Bool) (u : Str) (hu : u ≠ xmlNs) (dopt : Option DocTypeT)
    (ns : List Node) (hok : okList ns = true) (hns : forestUniformNs u ns = true) :
    filtered m { strip := true, cache := false, doctype := dopt, dropXmlDecl := dropd } (flattenList ns) =
      some (withDoctype dopt (forestFu u false (wsForest (wsCfg m) ns))) := by
  have := flatten_forestU u hu (wsForest (wsCfg m) ns) [] false [] (uniformNs_wsForest u (wsCfg m) ns hns)
  simp only [List.append_nil, flatten, Option.map_some] at this
  have h0 : nsSt u false [] = flatInit m := by simp [nsSt, scopeB, flatInit]
  rw [h0] at this
  simp [filtered, preFlat, emptyTag_flattenList ns hok, wsFilter_forestQ _ ns hok, this]

end Genshi.Output

/-
  C12 — the tree specification read off the marks of a matcher run over the whole document.

  `specNode`/`specList` (Model/MatchSpec.lean) ask the matcher in the state reached along the
  ancestors of an element.  For a matcher that obeys the law (an END undoes its START) and that is
  not moved by other events, this is the verdict the matcher gives at the element's START event when
  it is run over *every* event of the document (`marksOf`): closed subtrees leave no trace.
  `mkNode`/`mkKids` (Model/MatchReal.lean) rewrite a forest from such a list of marks.
-/
import Genshi.Lemmas.MatchSync
import Genshi.Model.MatchReal
namespace Genshi.Match
open Genshi

variable {σ : Type}

/-- events that are neither START nor END leave the matcher's state alone -/
def LeafFree (t : MT σ) : Prop :=
  ∀ st e u, isStart e = false → isEnd e = false → (t.step st e u).1 = st

theorem marksOf_append (step : σ → Event → Bool → σ × Bool) : ∀ (a b : List Event) (s : σ),
    marksOf step s (a ++ b) =
      ((marksOf step s a).1 ++ (marksOf step (marksOf step s a).2 b).1, (marksOf step (marksOf step s a).2 b).2) := by
  intro a
  induction a with
  | nil => intro b s; rfl
  | cons e es ih => intro b s; simp [marksOf, ih]

theorem marksOf_length (step : σ → Event → Bool → σ × Bool) : ∀ (a : List Event) (s : σ),
    (marksOf step s a).1.length = a.length := by
  intro a
  induction a with
  | nil => intro s; rfl
  | cons e es ih => intro s; simp [marksOf, ih]

theorem not_se_of_ok {e : Event} (h : (!e.isStartEnd) = true) : isStart e = false ∧ isEnd e = false := by
  cases e <;> simp_all [Event.isStartEnd, isStart, isEnd]

mutual
  /-- over the events of a tree the matcher returns to the state it had, and the tree rewrite of the
      specification is the rewrite by the marks -/
  theorem spec_marks_node (t : MT σ) (hl : Lawful t) (hf : LeafFree t) (b : σ) :
      ∀ (n : Node) (anc : List Open), n.ok = true →
        (marksOf t.step (openSt t.step b anc) n.flatten).2 = openSt t.step b anc ∧
        ∀ rest, mkNode t.body t.recursive n ((marksOf t.step (openSt t.step b anc) n.flatten).1 ++ rest)
          = (specNode t b anc n, rest)
    | .leaf e, anc, hok => by
        simp only [Node.ok] at hok
        obtain ⟨h1, h2⟩ := not_se_of_ok hok
        refine ⟨?_, fun rest => ?_⟩
        · simp [Node.flatten, marksOf, hf _ e false h1 h2]
        · simp [Node.flatten, marksOf, mkNode, specNode]
    | .elem tg at_ kids, anc, hok => by
        simp only [Node.ok] at hok
        have ih := spec_marks_list t hl hf b kids ((tg, at_) :: anc) hok
        have hs1 : (t.step (openSt t.step b anc) (.start tg at_) false).1 = openSt t.step b ((tg, at_) :: anc) := rfl
        have hend : (t.step (openSt t.step b ((tg, at_) :: anc)) (.end_ tg) false).1 = openSt t.step b anc := by
          rw [← hs1]; exact hl _ tg at_ false false
        refine ⟨?_, fun rest => ?_⟩
        · simp only [Node.flatten, marksOf, hs1, marksOf_append, ih.1, hend]
        · simp only [Node.flatten, marksOf, hs1, marksOf_append, ih.1, mkNode, List.cons_append, List.tail_cons,
            List.headD_cons, List.append_assoc, ih.2, specNode, List.nil_append]
  theorem spec_marks_list (t : MT σ) (hl : Lawful t) (hf : LeafFree t) (b : σ) :
      ∀ (ns : List Node) (anc : List Open), okList ns = true →
        (marksOf t.step (openSt t.step b anc) (flattenList ns)).2 = openSt t.step b anc ∧
        ∀ rest, mkKids t.body t.recursive ns ((marksOf t.step (openSt t.step b anc) (flattenList ns)).1 ++ rest)
          = (specList t b anc ns, rest)
    | [], anc, _ => by
        refine ⟨rfl, fun rest => ?_⟩
        simp [flattenList, marksOf, mkKids, specList]
    | n :: ns, anc, hok => by
        simp only [okList, Bool.and_eq_true] at hok
        have h1 := spec_marks_node t hl hf b n anc hok.1
        have h2 := spec_marks_list t hl hf b ns anc hok.2
        refine ⟨?_, fun rest => ?_⟩
        · simp only [flattenList, marksOf_append, h1.1, h2.1]
        · simp only [flattenList, marksOf_append, h1.1, mkKids, List.append_assoc, h1.2, h2.2, specList]
end

/-- the marks of a forest are the marks of its trees, each run from the same state -/
theorem marks_forest (t : MT σ) (hl : Lawful t) (hf : LeafFree t) (b : σ) : ∀ (ns : List Node), okList ns = true →
    (marksOf t.step b (flattenList ns)).1 = ns.flatMap fun n => (marksOf t.step b n.flatten).1 := by
  intro ns
  induction ns with
  | nil => intro _; rfl
  | cons n ns ih =>
    intro hok
    simp only [okList, Bool.and_eq_true] at hok
    have h1 := (spec_marks_node t hl hf b n [] hok.1).1
    simp only [openSt] at h1
    simp only [flattenList, marksOf_append, h1, List.flatMap_cons, ih hok.2]

end Genshi.Match

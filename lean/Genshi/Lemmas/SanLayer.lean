/-
  C06 — the tokens read back from a sanitized document, handed to genshi's own `HTMLParser`
  layer (model of work package `parse`: `Genshi.Parse.htmlStep`, with `stripentities` plugged in
  for the layer's `strip` parameter): the events it builds carry the same guarantees.  The layer
  decodes every attribute value once more; the values the sanitizer emits are fixed points of
  that decoding (`AttrFacts.stable`), so nothing changes.
-/
import Genshi.Lemmas.SanReparse
import Genshi.Model.ParseHtml
set_option linter.unusedSimpArgs false
namespace Genshi.San
open Genshi Genshi.San.Spec

/-- the layer's environment with `genshi.util.stripentities` as modelled here -/
def layerEnv (lower : Str → Str) (void : List Str) : Parse.Env where
  strip := fun v => match stripentities v with
    | .ok r => .ok r
    | .error _ => .error Parse.valueError
  lower := lower
  void := void

/-- the callback an HTML tokenizer makes for a token -/
def cbOf : Reader.Tok → Parse.HtmlCb
  | .start nm ats sc => if sc then .startendtag nm ats else .starttag nm ats
  | .end_ nm => .endtag nm
  | .text s => .data s
  | .comment s => .comment s
  | .pi s => .pi s
  | .doctype s => .decl s

/-- the guarantees of the property for one event of the re-parsed stream -/
def EventSafe (cfg : Cfg) : Event → Prop
  | .start tag attrs => tag.text ∈ cfg.safeTags ∧
      ∀ a ∈ attrs, a.1.text ∈ cfg.safeAttrs ∧ ValueSafe cfg a.1.text a.2
  | .end_ tag => tag.text ∈ cfg.safeTags
  | .text _ _ => True
  | _ => False

theorem lstripBrace_id {s : Str} (h : '{' ∉ s) : Parse.lstripBrace s = s := by
  cases s with
  | nil => rfl
  | cons c cs =>
    have : c ≠ '{' := fun e => h (by simp [e])
    unfold Parse.lstripBrace
    split
    · rename_i heq; simp at heq; exact absurd heq.1 this
    · rfl

theorem splitBrace_none {s : Str} (h : '}' ∉ s) : Parse.splitBrace s = none := by
  induction s with
  | nil => rfl
  | cons c cs ih =>
    have hc : c ≠ '}' := fun e => h (by simp [e])
    have hcs : '}' ∉ cs := fun hm => h (by simp [hm])
    simp [Parse.splitBrace, hc, ih hcs]

theorem mkQName_text {s : Str} (h1 : '{' ∉ s) (h2 : '}' ∉ s) : (Parse.mkQName s).text = s := by
  unfold Parse.mkQName
  rw [lstripBrace_id h1, splitBrace_none h2]
  simp [QName.text]

/-- the attribute loop of `handle_starttag` on safe attributes: every value passes the second
    decoding unchanged -/
theorem fixAttrs_safe {cfg : Cfg} (hm : CfgMarkupOk cfg) (lower : Str → Str) (void : List Str) :
    ∀ (ats : List (Str × Option Str)),
      (∀ p ∈ ats, p.1 ∈ cfg.safeAttrs ∧ ∀ val, p.2 = some val → ValueSafe cfg p.1 val) →
      ∃ fixed, Parse.fixAttrs (layerEnv lower void) ats = .ok fixed ∧
        ∀ a ∈ fixed, a.1.text ∈ cfg.safeAttrs ∧ (∃ p ∈ ats, a.1.text = p.1 ∧ (p.2 = some a.2 ∨ (p.2 = none ∧ a.2 = p.1))) := by
  intro ats
  induction ats with
  | nil => intro _; exact ⟨[], rfl, by simp⟩
  | cons p rest ih =>
    intro h
    obtain ⟨fixed, hf, hall⟩ := ih (fun q hq => h q (by simp [hq]))
    obtain ⟨n, v⟩ := p
    have hp := h (n, v) (by simp)
    obtain ⟨hn, hb, hcol, _⟩ := hm.attrs _ hp.1
    have hbr := hm.braces.2 _ hp.1
    have hstable : stripentities (v.getD n) = .ok (v.getD n) := by
      cases v with
      | none => exact stripentities_no_amp (nameOk_no_amp hn)
      | some val => exact (hp.2 val rfl).1
    refine ⟨(Parse.mkQName n, v.getD n) :: fixed, ?_, ?_⟩
    · simp only [Parse.fixAttrs, layerEnv, hstable]
      have hf' := hf
      simp only [layerEnv] at hf'
      rw [hf']
    · intro a ha
      simp at ha
      rcases ha with rfl | ha
      · refine ⟨by rw [mkQName_text hb hbr]; exact hp.1, (n, v), by simp, mkQName_text hb hbr, ?_⟩
        cases v with
        | none => exact Or.inr ⟨rfl, rfl⟩
        | some val => exact Or.inl rfl
      · obtain ⟨h1, q, hq, h2⟩ := hall a ha
        exact ⟨h1, q, by simp [hq], h2⟩

theorem starttag_safe {cfg : Cfg} (hm : CfgMarkupOk cfg) (lower : Str → Str) (void : List Str)
    (openTags : List Str) (ho : ∀ o ∈ openTags, o ∈ cfg.safeTags) (nm : Str) (ats : List (Str × Option Str))
    (h : TokSafe cfg (.start nm ats false)) :
    ∃ o' evs, Parse.handleStarttag (layerEnv lower void) openTags nm ats = .ok (o', evs) ∧
      (∀ o ∈ o', o ∈ cfg.safeTags) ∧ ∀ e ∈ evs, EventSafe cfg e := by
  obtain ⟨hnm, hats⟩ := h
  obtain ⟨fixed, hf, hall⟩ := fixAttrs_safe hm lower void ats hats
  obtain ⟨_, hb, _⟩ := hm.tags _ hnm
  have htext := mkQName_text hb (hm.braces.1 _ hnm)
  have hstart : EventSafe cfg (.start (Parse.mkQName nm) fixed) := by
    refine ⟨by rw [htext]; exact hnm, ?_⟩
    intro a ha
    obtain ⟨h1, p, hp, hname, hval⟩ := hall a ha
    refine ⟨h1, ?_⟩
    rw [hname]
    rcases hval with hv | ⟨hv, hv2⟩
    · exact (hats p hp).2 a.2 hv
    · -- a minimised attribute: its value is its name
      rw [hv2]
      obtain ⟨hn, _, hcol, _⟩ := hm.attrs _ (hats p hp).1
      refine ⟨stripentities_no_amp (nameOk_no_amp hn), fun _ sch hb' => ?_, fun hnin hst => ?_⟩
      · rw [browserScheme_no_colon hcol] at hb'; cases hb'
      · -- `style` as a minimised attribute: the word `style` as CSS text
        rw [hst]
        refine ⟨by decide +kernel, by decide +kernel, ?_⟩
        have : urlArgs styleWord = [] := by decide +kernel
        rw [this]; simp
  unfold Parse.handleStarttag
  rw [hf]
  simp only
  by_cases hv : (layerEnv lower void).void.contains nm = true
  · simp only [hv, ↓reduceIte]
    refine ⟨_, _, rfl, ho, ?_⟩
    intro e he
    simp at he
    rcases he with rfl | rfl
    · exact hstart
    · show (Parse.mkQName nm).text ∈ cfg.safeTags
      rw [htext]; exact hnm
  · simp only [hv, Bool.false_eq_true, ↓reduceIte]
    refine ⟨_, _, rfl, ?_, ?_⟩
    · intro o hoo
      simp at hoo
      rcases hoo with rfl | hoo
      · exact hnm
      · exact ho o hoo
    · intro e he
      simp at he; subst he; exact hstart

theorem popTo_safe {cfg : Cfg} (hm : CfgMarkupOk cfg) (env : Parse.Env) (tag : Str) :
    ∀ (openTags : List Str), (∀ o ∈ openTags, o ∈ cfg.safeTags) →
      (∀ o ∈ (Parse.popTo env tag openTags).1, o ∈ cfg.safeTags) ∧
      ∀ e ∈ (Parse.popTo env tag openTags).2, EventSafe cfg e := by
  intro openTags
  induction openTags with
  | nil => intro _; simp [Parse.popTo]
  | cons t rest ih =>
    intro ho
    have ht := ho t (by simp)
    have hrest := ih (fun o h => ho o (by simp [h]))
    have hend : EventSafe cfg (.end_ (Parse.mkQName t)) := by
      show (Parse.mkQName t).text ∈ cfg.safeTags
      rw [mkQName_text (hm.tags _ ht).2.1 (hm.braces.1 _ ht)]; exact ht
    unfold Parse.popTo
    by_cases he : env.lower t = env.lower tag
    · simp only [he, ↓reduceIte]
      exact ⟨fun o h => ho o (by simp [h]), by intro e h; simp at h; subst h; exact hend⟩
    · simp only [he, ↓reduceIte]
      refine ⟨hrest.1, ?_⟩
      intro e h
      simp at h
      rcases h with rfl | h
      · exact hend
      · exact hrest.2 e h

theorem handleEndtag_safe {cfg : Cfg} (hm : CfgMarkupOk cfg) (env : Parse.Env) (tag : Str)
    (openTags : List Str) (ho : ∀ o ∈ openTags, o ∈ cfg.safeTags) :
    (∀ o ∈ (Parse.handleEndtag env openTags tag).1, o ∈ cfg.safeTags) ∧
      ∀ e ∈ (Parse.handleEndtag env openTags tag).2, EventSafe cfg e := by
  unfold Parse.handleEndtag
  by_cases hv : env.void.contains tag = true
  · simp only [hv, ↓reduceIte]
    exact ⟨ho, by simp⟩
  · simp only [hv, Bool.false_eq_true, ↓reduceIte]
    exact popTo_safe hm env tag openTags ho

/-- one callback of a safe token: the layer does not fail, its open tags stay safe, and every
    event it enqueues is safe -/
theorem htmlStep_safe {cfg : Cfg} (hm : CfgMarkupOk cfg) (lower : Str → Str) (void : List Str)
    (openTags : List Str) (ho : ∀ o ∈ openTags, o ∈ cfg.safeTags) (t : Reader.Tok) (ht : TokSafe cfg t) :
    ∃ o' evs, Parse.htmlStep (layerEnv lower void) openTags (cbOf t) = .ok (o', evs) ∧
      (∀ o ∈ o', o ∈ cfg.safeTags) ∧ ∀ e ∈ evs, EventSafe cfg e := by
  cases t with
  | start nm ats sc =>
    have ht' : TokSafe cfg (.start nm ats false) := ht
    obtain ⟨o', evs, hs, ho', hev⟩ := starttag_safe hm lower void openTags ho nm ats ht'
    cases sc with
    | false => exact ⟨o', evs, by simp [cbOf, Parse.htmlStep, hs], ho', hev⟩
    | true =>
      have hE := handleEndtag_safe hm (layerEnv lower void) nm o' ho'
      refine ⟨(Parse.handleEndtag (layerEnv lower void) o' nm).1,
        evs ++ (Parse.handleEndtag (layerEnv lower void) o' nm).2, by simp [cbOf, Parse.htmlStep, hs], hE.1, ?_⟩
      intro e he
      simp at he
      rcases he with he | he
      · exact hev e he
      · exact hE.2 e he
  | end_ nm =>
    have hE := handleEndtag_safe hm (layerEnv lower void) nm openTags ho
    exact ⟨_, _, rfl, hE.1, hE.2⟩
  | text s => exact ⟨openTags, [.text s false], rfl, ho, by intro e he; simp at he; subst he; trivial⟩
  | comment s => exact absurd ht (by simp [TokSafe])
  | pi s => exact absurd ht (by simp [TokSafe])
  | doctype s => exact absurd ht (by simp [TokSafe])

/-- the layer run over a token list (one callback per token; batching is irrelevant by C07's
    `html_batching_irrelevant`), closers included -/
def layerRun (env : Parse.Env) : List Str → List Reader.Tok → Except Parse.PyExc Stream
  | openTags, [] => .ok (Parse.closers openTags)
  | openTags, t :: ts =>
    match Parse.htmlStep env openTags (cbOf t) with
    | .error e => .error e
    | .ok (o', evs) =>
      match layerRun env o' ts with
      | .error e => .error e
      | .ok rest => .ok (evs ++ rest)

theorem layerRun_safe {cfg : Cfg} (hm : CfgMarkupOk cfg) (lower : Str → Str) (void : List Str) :
    ∀ (toks : List Reader.Tok) (openTags : List Str), (∀ o ∈ openTags, o ∈ cfg.safeTags) →
      (∀ t ∈ toks, TokSafe cfg t) →
      ∃ evs, layerRun (layerEnv lower void) openTags toks = .ok evs ∧ ∀ e ∈ evs, EventSafe cfg e := by
  intro toks
  induction toks with
  | nil =>
    intro openTags ho _
    refine ⟨_, rfl, ?_⟩
    intro e he
    simp only [Parse.closers, List.mem_map] at he
    obtain ⟨t, ht, rfl⟩ := he
    show (Parse.mkQName t).text ∈ cfg.safeTags
    have := ho t ht
    rw [mkQName_text (hm.tags _ this).2.1 (hm.braces.1 _ this)]; exact this
  | cons t ts ih =>
    intro openTags ho ht
    obtain ⟨o', evs, hs, ho', hev⟩ := htmlStep_safe hm lower void openTags ho t (ht t (by simp))
    obtain ⟨rest, hr, hrest⟩ := ih o' ho' (fun x hx => ht x (by simp [hx]))
    refine ⟨evs ++ rest, by simp [layerRun, hs, hr], ?_⟩
    intro e he
    simp at he
    rcases he with he | he
    · exact hev e he
    · exact hrest e he

end Genshi.San

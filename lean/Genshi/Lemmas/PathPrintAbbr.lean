/-
  C05 `parse ∘ print = id`, part 7: the abbreviated spelling of steps (`a`, `@x`, `text()`; the
  other axes stay `axis::`) — `parse (printPathsA p) = p` on the same domain.
-/
import Genshi.Lemmas.PathPrintNum
namespace Genshi.Path
namespace Print
open Genshi

theorem peek_head {ts : List Str} {pos : Nat} {c : Str} {L : List Str} (h : ts.drop pos = c :: L) :
    peek ts pos = .ok L.head? := by
  cases L with
  | nil => simpa using peek_drop_one h
  | cons y r => simpa using peek_drop_two h

/-- the first token of a node test at a step -/
theorem stepTest_first (attr : Bool) (t : NodeTest) (ht : stepTestOk attr t = true) :
    ∃ c r, stepTestToks t = c :: r ∧ (c == ['@']) = false ∧ (c == ['.']) = false ∧ (c == ['.', '.']) = false ∧
      startsWithSlash c = false ∧ (∀ y r', r = y :: r' → y ≠ [':', ':']) := by
  have nf : ∀ n, nameOk n = true → (n == ['@']) = false ∧ (n == ['.']) = false ∧ (n == ['.', '.']) = false ∧
      startsWithSlash n = false := by
    intro n hn
    obtain ⟨_, _, _, _, g5, _, _, g8, _, _, _, g12, g13⟩ := nameOk_facts n hn
    exact ⟨by simpa using g5, by simpa using g8, by simpa using g13, g12⟩
  cases t with
  | principal a => exact ⟨_, _, rfl, by decide, by decide, by decide, by decide, by intro y r' h; cases h⟩
  | localName a n =>
    simp only [stepTestOk, testOk, Bool.and_eq_true] at ht
    obtain ⟨f1, f2, f3, f4⟩ := nf n ht.1
    exact ⟨_, _, rfl, f1, f2, f3, f4, by intro y r' h; cases h⟩
  | qprincipal a p =>
    simp only [stepTestOk, testOk, Bool.and_eq_true] at ht
    obtain ⟨f1, f2, f3, f4⟩ := nf p ht.1
    exact ⟨_, _, rfl, f1, f2, f3, f4, by intro y r' h; cases h; decide⟩
  | qname a p n =>
    simp only [stepTestOk, testOk, Bool.and_eq_true] at ht
    obtain ⟨f1, f2, f3, f4⟩ := nf p ht.1.1
    exact ⟨_, _, rfl, f1, f2, f3, f4, by intro y r' h; cases h; decide⟩
  | comment => exact ⟨_, _, rfl, by decide, by decide, by decide, by decide, by intro y r' h; cases h; decide⟩
  | node => exact ⟨_, _, rfl, by decide, by decide, by decide, by decide, by intro y r' h; cases h; decide⟩
  | text => exact ⟨_, _, rfl, by decide, by decide, by decide, by decide, by intro y r' h; cases h; decide⟩
  | pi tg =>
    cases tg with
    | none => exact ⟨_, _, rfl, by decide, by decide, by decide, by decide, by intro y r' h; cases h; decide⟩
    | some tg => exact ⟨_, _, rfl, by decide, by decide, by decide, by decide, by intro y r' h; cases h; decide⟩

/-- the first token of an abbreviated step -/
theorem stepToksA_cons (s : Step) (hs : stepOk s = true) :
    ∃ x r, stepToksA s = x :: r ∧ startsWithSlash x = false := by
  simp only [stepOk, Bool.and_eq_true] at hs
  obtain ⟨c, r, hc, _, _, _, h4, _⟩ := stepTest_first _ s.test hs.1
  cases ha : s.axis with
  | child => exact ⟨c, r ++ predsToks s.preds, by simp [stepToksA, axisToksA, ha, hc], h4⟩
  | «attribute» => exact ⟨['@'], stepTestToks s.test ++ predsToks s.preds, by simp [stepToksA, axisToksA, ha], by decide⟩
  | descendant => exact ⟨axisTok .descendant, [':', ':'] :: (stepTestToks s.test ++ predsToks s.preds), by simp [stepToksA, axisToksA, ha], by decide⟩
  | descendantOrSelf => exact ⟨axisTok .descendantOrSelf, [':', ':'] :: (stepTestToks s.test ++ predsToks s.preds), by simp [stepToksA, axisToksA, ha], by decide⟩
  | self => exact ⟨axisTok .self, [':', ':'] :: (stepTestToks s.test ++ predsToks s.preds), by simp [stepToksA, axisToksA, ha], by decide⟩

/-- what `_location_step` returns as axis for an abbreviated step -/
def axisRead : Axis → Option Axis
  | .child => none
  | a => some a

theorem axisRead_getD (a : Axis) : (axisRead a).getD .child = a := by cases a <;> rfl

/-- `_location_step` on an abbreviated step -/
theorem locationStep_printA (ts : List Str) (s : Step) (hs : stepOk s = true) (rem : List Str) (hr : Rem rem)
    (hh : ∀ y r, rem = y :: r → y = ['/'] ∨ y = ['|']) (f pos : Nat)
    (h : ts.drop pos = stepToksA s ++ rem) (hf : 13 * ts.length + 9 ≤ f) :
    ∃ q last, locationStep ts f pos = .ok ((axisRead s.axis, s.test, s.preds), q) ∧ At ts q last rem ∧ LastOk last := by
  have hs' := hs
  simp only [stepOk, Bool.and_eq_true, List.all_eq_true] at hs'
  obtain ⟨hst, hps⟩ := hs'
  have hremP := rem_preds s.preds rem hr
  have hsep := sepHead_preds s.preds rem hh
  have hhb : ∀ y r, rem = y :: r → y ≠ ['['] := fun y r hy => by
    rcases hh y r hy with h1 | h1 <;> (rw [h1]; decide)
  -- the part after the axis: node test and predicates, started at `p`
  have after : ∀ p, ts.drop p = stepTestToks s.test ++ (predsToks s.preds ++ rem) →
      ∃ q last, (nodeTest ts p (s.axis == .attribute)).bind
          (fun x => (predLoop ts f x.2 []).bind (fun y => .ok ((axisRead s.axis, x.1, y.1), y.2)))
        = .ok ((axisRead s.axis, s.test, s.preds), q) ∧ At ts q last rem ∧ LastOk last := by
    intro p hp
    obtain ⟨q1, last1, hq1, hat1, hl1⟩ := nodeTest_step ts p (s.axis == .attribute) s.test hst _ hremP hsep hp
    have hplen : s.preds.length ≤ ts.length := by
      have h1 := drop_length_le hp
      have h2 := predsToks_length s.preds
      simp at h1; omega
    obtain ⟨q2, last2, hq2, hat2, hl2⟩ := predLoop_print ts rem hr hhb s.preds [] f q1 last1
      (fun e he => hps e he) hat1 hl1 (by omega)
    exact ⟨q2, last2, by simp [hq1, hq2, Except.bind], hat2, hl2⟩
  cases ha : s.axis with
  | child =>
    have htoks : stepToksA s = stepTestToks s.test ++ predsToks s.preds := by simp [stepToksA, axisToksA, ha]
    rw [htoks, List.append_assoc] at h
    obtain ⟨c, r, hc, c1, c2, c3, _, c5⟩ := stepTest_first _ s.test hst
    have h' : ts.drop pos = c :: (r ++ (predsToks s.preds ++ rem)) := by rw [h, hc]; rfl
    have hpk := peek_head h'
    have hne : ((r ++ (predsToks s.preds ++ rem)).head? == some [':', ':']) = false := by
      cases r with
      | cons y r' => simpa using c5 y r' rfl
      | nil =>
        rcases hL : predsToks s.preds ++ rem with _ | ⟨y, L⟩
        · simp
        · rcases hsep y L hL with h1 | h1 | h1 <;> (simp [h1])
    obtain ⟨q, last, hq, hat, hl⟩ := after pos h
    rw [ha] at hq
    refine ⟨q, last, ?_, hat, hl⟩
    have hb : ((none : Option Axis) == some Axis.attribute) = false := rfl
    have hb2 : (Axis.child == Axis.attribute) = false := by decide
    simp only [hb2] at hq
    simp only [locationStep, cur_drop h', c1, c2, c3, hpk, hne, hb, bind, pure, Except.pure, Bool.false_eq_true,
      if_false, Except.bind]
    simpa [Except.bind, axisRead] using hq
  | «attribute» =>
    have htoks : stepToksA s = ['@'] :: (stepTestToks s.test ++ predsToks s.preds) := by simp [stepToksA, axisToksA, ha]
    rw [htoks] at h
    simp only [List.cons_append, List.append_assoc] at h
    obtain ⟨c, r, hc, _⟩ := stepTest_first _ s.test hst
    have h' : ts.drop pos = ['@'] :: c :: (r ++ (predsToks s.preds ++ rem)) := by rw [h, hc]; rfl
    obtain ⟨q, last, hq, hat, hl⟩ := after (pos + 1) (drop_succ h)
    rw [ha] at hq
    refine ⟨q, last, ?_, hat, hl⟩
    have hb : (some Axis.attribute == some Axis.attribute) = true := rfl
    have hb2 : (Axis.attribute == Axis.attribute) = true := by decide
    simp only [hb2] at hq
    simp only [locationStep, cur_drop h', next_drop h', hb, bind, pure, Except.pure, beq_self_eq_true, if_true, Except.bind]
    simpa [Except.bind, axisRead] using hq
  | descendant =>
    have htoks : stepToksA s = stepToks s := by simp [stepToksA, stepToks, axisToksA, ha]
    rw [htoks] at h
    obtain ⟨q, last, hq, hat, hl⟩ := locationStep_print ts s hs rem hr hh f pos h hf
    exact ⟨q, last, by rw [hq, ha]; rfl, hat, hl⟩
  | descendantOrSelf =>
    have htoks : stepToksA s = stepToks s := by simp [stepToksA, stepToks, axisToksA, ha]
    rw [htoks] at h
    obtain ⟨q, last, hq, hat, hl⟩ := locationStep_print ts s hs rem hr hh f pos h hf
    exact ⟨q, last, by rw [hq, ha]; rfl, hat, hl⟩
  | self =>
    have htoks : stepToksA s = stepToks s := by simp [stepToksA, stepToks, axisToksA, ha]
    rw [htoks] at h
    obtain ⟨q, last, hq, hat, hl⟩ := locationStep_print ts s hs rem hr hh f pos h hf
    exact ⟨q, last, by rw [hq, ha]; rfl, hat, hl⟩

theorem restToksA_length (r : List Step) : r.length ≤ (restToksA r).length := by
  induction r with
  | nil => simp [restToksA]
  | cons s r ih => simp [restToksA]; omega

theorem rem_restA (r : List Step) (hrs : ∀ x ∈ r, stepOk x = true) (rem : List Str) (hr : Rem rem) :
    Rem (restToksA r ++ rem) := by
  cases r with
  | nil => simpa [restToksA] using hr
  | cons s r =>
    obtain ⟨x, r', hx, _⟩ := stepToksA_cons s (hrs s List.mem_cons_self)
    exact Or.inr ⟨['/'], x, r' ++ (restToksA r ++ rem), by simp [restToksA, hx]⟩

/-- the loop of `_location_path` over abbreviated steps -/
theorem locLoop_printA (ts : List Str) (rem : List Str) (hr : Rem rem) (hh : ∀ y r, rem = y :: r → y = ['|']) :
    ∀ (r : List Step) (s : Step) (acc : List Step) (f pos : Nat),
      stepOk s = true → (∀ x ∈ r, stepOk x = true) →
      ts.drop pos = stepToksA s ++ (restToksA r ++ rem) → 13 * ts.length + 10 + r.length + 1 ≤ f →
      ∃ q last, locLoop ts f pos acc = .ok (acc ++ s :: r, q) ∧ At ts q last rem ∧ LastOk last := by
  intro r
  induction r with
  | nil =>
    intro s acc f pos hs _ h hf
    obtain ⟨f', rfl⟩ : ∃ f', f = f' + 1 := ⟨f - 1, by omega⟩
    simp only [restToksA, List.nil_append] at h
    obtain ⟨x, r', hx, a4⟩ := stepToksA_cons s hs
    have h' : ts.drop pos = x :: (r' ++ rem) := by rw [h, hx]; rfl
    obtain ⟨q, last, hq, hat, hl⟩ := locationStep_printA ts s hs rem hr
      (fun y r hy => Or.inr (hh y r hy)) f' pos h (by omega)
    refine ⟨q, last, ?_, hat, hl⟩
    rw [locLoop]
    rcases hr with rfl | ⟨y2, z2, r2, rfl⟩
    · simp [cur_drop h', a4, hq, cur_drop hat.nil, atEnd_drop_one hat.nil, axisRead_getD, bind, Except.bind, pure, Except.pure]
    · have hy2 := hh y2 _ rfl
      subst hy2
      have hsl : startsWithSlash ['|'] = false := by decide
      simp [cur_drop h', a4, hq, cur_drop hat.cons, atEnd_drop_two hat.cons, hsl, axisRead_getD, bind, Except.bind, pure, Except.pure]
  | cons s' r ih =>
    intro s acc f pos hs hrs h hf
    obtain ⟨f', rfl⟩ : ∃ f', f = f' + 1 + 1 := ⟨f - 2, by simp at hf; omega⟩
    obtain ⟨x, r', hx, a4⟩ := stepToksA_cons s hs
    have h' : ts.drop pos = x :: (r' ++ (restToksA (s' :: r) ++ rem)) := by rw [h, hx]; rfl
    have hrem := rem_restA (s' :: r) hrs rem hr
    obtain ⟨q, last, hq, hat, hl⟩ := locationStep_printA ts s hs (restToksA (s' :: r) ++ rem) hrem
      (fun y r hy => by simp [restToksA] at hy; exact Or.inl hy.1.symm) (f' + 1) pos h (by omega)
    have hs' := hrs s' List.mem_cons_self
    obtain ⟨x', r'', hx', b4⟩ := stepToksA_cons s' hs'
    have hdq : ts.drop q = ['/'] :: x' :: (r'' ++ (restToksA r ++ rem)) := by
      have : restToksA (s' :: r) ++ rem = ['/'] :: x' :: (r'' ++ (restToksA r ++ rem)) := by
        simp [restToksA, hx']
      rw [this] at hat
      exact hat.cons
    have hd1 : ts.drop (q + 1) = stepToksA s' ++ (restToksA r ++ rem) := by
      rw [drop_succ hdq, hx']; simp
    obtain ⟨q', last', hq', hat', hl'⟩ := ih s' (acc ++ [s]) (f' + 1) (q + 1)
      hs' (fun x hx => hrs x (List.mem_cons_of_mem _ hx)) hd1 (by simp at hf ⊢; omega)
    refine ⟨q', last', ?_, hat', hl'⟩
    have hsl : startsWithSlash ['/'] = true := by decide
    rw [locLoop]
    simp only [cur_drop h', a4, hq, cur_drop hdq, atEnd_drop_two hdq, hsl, bind, Except.bind, pure, Except.pure,
      Bool.false_eq_true, if_false, Bool.not_true, Bool.or_self, axisRead_getD]
    have hstep : (⟨s.axis, s.test, s.preds⟩ : Step) = s := rfl
    rw [hstep, locLoop_slash ts f' q (acc ++ [s]) _ _ (by simp) b4 hdq, hq']
    simp

theorem unionToksA_length (ps : List LocPath) : ps.length ≤ (unionToksA ps).length := by
  induction ps with
  | nil => simp [unionToksA]
  | cons p r ih => simp [unionToksA]; omega

theorem rem_unionA (ps : List LocPath) (hps : ∀ p ∈ ps, pathOk p = true) : Rem (unionToksA ps) := by
  cases ps with
  | nil => exact Or.inl rfl
  | cons p r =>
    obtain ⟨s, r', rfl, hs, _⟩ := pathOk_cons p (hps p List.mem_cons_self)
    obtain ⟨x, r'', hx, _⟩ := stepToksA_cons s hs
    exact Or.inr ⟨['|'], x, r'' ++ (restToksA r' ++ unionToksA r), by simp [unionToksA, pathToksA, hx]⟩

theorem head_unionA (ps : List LocPath) : ∀ y r, unionToksA ps = y :: r → y = ['|'] := by
  intro y r h
  cases ps with
  | nil => simp [unionToksA] at h
  | cons p r' => simp [unionToksA] at h; exact h.1.symm

theorem unionLoop_printA (ts : List Str) :
    ∀ (ps : List LocPath) (acc : List LocPath) (f q : Nat) (last : Str),
      (∀ p ∈ ps, pathOk p = true) → At ts q last (unionToksA ps) → LastOk last →
      14 * ts.length + 12 + ps.length ≤ f →
      ∃ q' last', unionLoop ts f q acc = .ok (acc ++ ps, q') ∧ At ts q' last' [] := by
  intro ps
  induction ps with
  | nil =>
    intro acc f q last _ hat hl hf
    obtain ⟨f', rfl⟩ : ∃ f', f = f' + 1 := ⟨f - 1, by omega⟩
    refine ⟨q, last, ?_, hat⟩
    have hb : (last == ['|']) = false := by simpa using hl.2.2
    simp [unionLoop, cur_drop hat.nil, hb, bind, Except.bind, pure, Except.pure]
  | cons p ps ih =>
    intro acc f q last hps hat hl hf
    obtain ⟨f', rfl⟩ : ∃ f', f = f' + 1 := ⟨f - 1, by omega⟩
    obtain ⟨s, r, rfl, hs, hrs⟩ := pathOk_cons p (hps p List.mem_cons_self)
    obtain ⟨x, r', hx, _⟩ := stepToksA_cons s hs
    have hd : ts.drop q = ['|'] :: (stepToksA s ++ (restToksA r ++ unionToksA ps)) := by
      have : unionToksA ((s :: r) :: ps) = ['|'] :: (stepToksA s ++ (restToksA r ++ unionToksA ps)) := by
        simp [unionToksA, pathToksA]
      rw [this] at hat
      exact hat.cons
    have hd' : ts.drop q = ['|'] :: x :: (r' ++ (restToksA r ++ unionToksA ps)) := by
      rw [hd, hx]; rfl
    have hps' : ∀ p ∈ ps, pathOk p = true := fun x hx => hps x (List.mem_cons_of_mem _ hx)
    have hrl : r.length ≤ ts.length := by
      have h1 := drop_length_le hd
      have h2 := restToksA_length r
      simp at h1; omega
    obtain ⟨q1, last1, hq1, hat1, hl1⟩ := locLoop_printA ts (unionToksA ps) (rem_unionA ps hps') (head_unionA ps)
      r s [] f' (q + 1) hs hrs (drop_succ hd) (by simp at hf; omega)
    obtain ⟨q', last', hq', hat'⟩ := ih (acc ++ [s :: r]) f' q1 last1 hps' hat1 hl1 (by simp at hf ⊢; omega)
    refine ⟨q', last', ?_, hat'⟩
    rw [unionLoop]
    simp only [cur_drop hd', next_drop hd', hq1, beq_self_eq_true, if_true, bind, Except.bind, List.nil_append]
    rw [hq']
    simp

/-- the parser reads every abbreviated print back -/
theorem parseTokens_printA (ps : List LocPath) (h : pathsOk ps = true) :
    parseTokens (pathsToksA ps) = .ok ps := by
  cases ps with
  | nil => simp [pathsOk] at h
  | cons p rest =>
    simp only [pathsOk, List.isEmpty_cons, Bool.not_false, Bool.true_and, List.all_cons, Bool.and_eq_true,
      List.all_eq_true] at h
    obtain ⟨hp, hrest⟩ := h
    obtain ⟨s, r, rfl, hs, hrs⟩ := pathOk_cons p hp
    have hts : pathsToksA ((s :: r) :: rest) = stepToksA s ++ (restToksA r ++ unionToksA rest) := by
      simp [pathsToksA, pathToksA]
    generalize htsd : pathsToksA ((s :: r) :: rest) = ts at hts
    have hd0 : ts.drop 0 = stepToksA s ++ (restToksA r ++ unionToksA rest) := by simpa using hts
    have hrl : r.length + rest.length ≤ ts.length := by
      have h2 := restToksA_length r
      have h3 := unionToksA_length rest
      rw [hts]; simp; omega
    obtain ⟨q1, last1, hq1, hat1, hl1⟩ := locLoop_printA ts (unionToksA rest) (rem_unionA rest hrest) (head_unionA rest)
      r s [] (16 * (ts.length + 2)) 0 hs hrs hd0 (by omega)
    obtain ⟨q', last', hq', hat'⟩ := unionLoop_printA ts rest [s :: r] (16 * (ts.length + 2)) q1 last1 hrest hat1 hl1
      (by omega)
    simp only [parseTokens, hq1, hq', bind, Except.bind, atEnd_drop_one hat'.nil, pure, Except.pure, List.nil_append]
    simp

/-! ### the tokenizer -/

theorem stepToksA_ok (s : Step) (h : stepOk s = true) : ∀ x ∈ stepToksA s, TokOk x := by
  have h' := h
  simp only [stepOk, Bool.and_eq_true, List.all_eq_true] at h'
  intro x hx
  simp only [stepToksA, List.mem_append] at hx
  rcases hx with hx | hx | hx
  · cases ha : s.axis <;> simp [axisToksA, ha] at hx
    · subst hx; exact tab _ (by decide)
    · rcases hx with rfl | rfl
      · exact nm _ (by decide)
      · exact tab _ (by decide)
    · rcases hx with rfl | rfl
      · exact nm _ (by decide)
      · exact tab _ (by decide)
    · rcases hx with rfl | rfl
      · exact nm _ (by decide)
      · exact tab _ (by decide)
  · exact stepTestToks_ok _ _ h'.1 x hx
  · exact predsToks_ok _ h'.2 x hx

theorem restToksA_ok (r : List Step) (h : ∀ s ∈ r, stepOk s = true) : ∀ x ∈ restToksA r, TokOk x := by
  induction r with
  | nil => intro x hx; simp [restToksA] at hx
  | cons s r ih =>
    intro x hx
    simp only [restToksA, List.mem_cons, List.mem_append] at hx
    rcases hx with rfl | hx | hx
    · exact tab _ (by decide)
    · exact stepToksA_ok s (h s List.mem_cons_self) x hx
    · exact ih (fun y hy => h y (List.mem_cons_of_mem _ hy)) x hx

theorem pathToksA_ok (p : LocPath) (h : pathOk p = true) : ∀ x ∈ pathToksA p, TokOk x := by
  obtain ⟨s, r, rfl, hs, hr⟩ := pathOk_cons p h
  intro x hx
  simp only [pathToksA, List.mem_append] at hx
  rcases hx with hx | hx
  · exact stepToksA_ok s hs x hx
  · exact restToksA_ok r hr x hx

theorem unionToksA_ok (ps : List LocPath) (h : ∀ p ∈ ps, pathOk p = true) : ∀ x ∈ unionToksA ps, TokOk x := by
  induction ps with
  | nil => intro x hx; simp [unionToksA] at hx
  | cons p r ih =>
    intro x hx
    simp only [unionToksA, List.mem_cons, List.mem_append] at hx
    rcases hx with rfl | hx | hx
    · exact tab _ (by decide)
    · exact pathToksA_ok p (h p List.mem_cons_self) x hx
    · exact ih (fun y hy => h y (List.mem_cons_of_mem _ hy)) x hx

theorem pathsToksA_ok (ps : List LocPath) (h : pathsOk ps = true) : ∀ x ∈ pathsToksA ps, TokOk x := by
  cases ps with
  | nil => simp [pathsOk] at h
  | cons p rest =>
    simp only [pathsOk, List.isEmpty_cons, Bool.not_false, Bool.true_and, List.all_cons, Bool.and_eq_true,
      List.all_eq_true] at h
    intro x hx
    simp only [pathsToksA, List.mem_append] at hx
    rcases hx with hx | hx
    · exact pathToksA_ok p h.1 x hx
    · exact unionToksA_ok rest h.2 x hx

/-- **`PathParser(text).parse()` reads every abbreviated print back.** -/
theorem parse_printA (ps : List LocPath) (h : pathsOk ps = true) : parse (printPathsA ps) = .ok ps := by
  unfold parse printPathsA
  rw [tokenize_render _ (pathsToksA_ok ps h)]
  exact parseTokens_printA ps h

end Print
end Genshi.Path

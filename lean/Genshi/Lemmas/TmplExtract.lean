/-
  C04: the flat `_extract_directives` pass (depth counter + `dirmap`) computes the
  tree-recursive extraction, and the whole construction-time pipeline on the parsed
  stream equals `compileNodes`.
-/
import Genshi.Model.TmplExtract
namespace Genshi.Tmpl

theorem extractFlatFrom_append (s : XSt) (a b : List PEv) :
    extractFlatFrom s (a ++ b) = extractFlatFrom (extractFlatFrom s a) b := by
  simp [extractFlatFrom, List.foldl_append]

theorem extractFlatFrom_cons (s : XSt) (e : PEv) (b : List PEv) :
    extractFlatFrom s (e :: b) = extractFlatFrom (extractStep s e) b := rfl

theorem extractFlatFrom_nil (s : XSt) : extractFlatFrom s [] = s := rfl

/-- every pending `dirmap` entry belongs to an element that is still open -/
def KeysBelow (m : DirMap) (depth : Nat) : Prop := ∀ p ∈ m, p.1.1 < depth

theorem get?_none_of_keysBelow {m : DirMap} {d : Nat} (h : KeysBelow m d) (t : PTag) :
    m.get? (d, t) = none := by
  induction m with
  | nil => rfl
  | cons p m ih =>
    obtain ⟨k, v⟩ := p
    have hk := h (k, v) (List.mem_cons_self ..)
    simp only [DirMap.get?]
    rw [if_neg]
    · exact ih (fun q hq => h q (List.mem_cons_of_mem _ hq))
    · intro he; rw [he] at hk; simp at hk

theorem erase_of_keysBelow {m : DirMap} {d : Nat} (h : KeysBelow m d) (t : PTag) :
    m.erase (d, t) = m := by
  unfold DirMap.erase
  rw [List.filter_eq_self]
  intro p hp
  have := h p hp
  simp only [ne_eq, decide_eq_true_eq]
  intro he; rw [he] at this; simp at this

theorem get?_put (m : DirMap) (k v) : (m.put k v).get? k = some v := by
  simp [DirMap.put, DirMap.get?]

theorem erase_put {m : DirMap} {d : Nat} (h : KeysBelow m d) (t : PTag) (v) :
    (m.put (d, t) v).erase (d, t) = m := by
  simp only [DirMap.put, erase_of_keysBelow h]
  simp only [DirMap.erase, List.filter_cons, ne_eq, not_true_eq_false, decide_false]
  exact erase_of_keysBelow h t

theorem keysBelow_put {m : DirMap} {d : Nat} (h : KeysBelow m d) (t : PTag) (v) :
    KeysBelow (m.put (d, t) v) (d + 1) := by
  intro p hp
  simp only [DirMap.put, List.mem_cons] at hp
  rcases hp with rfl | hp
  · simp
  · rw [erase_of_keysBelow h] at hp
    exact Nat.lt_succ_of_lt (h p hp)

theorem keysBelow_succ {m : DirMap} {d : Nat} (h : KeysBelow m d) : KeysBelow m (d + 1) :=
  fun p hp => Nat.lt_succ_of_lt (h p hp)

theorem trimEnds_wrap {α : Type} (a b : α) (l : List α) : trimEnds (a :: (l ++ [b])) = l := by
  simp [trimEnds]

theorem sortBy_single {α : Type} (key : α → Nat) (x : α) : sortBy key [x] = [x] := rfl

mutual
  theorem extract_node : ∀ (n : TNode) (d : Nat) (m : DirMap) (out : List REv), KeysBelow m d →
      extractFlatFrom ⟨d, m, out⟩ (toStream n) = ⟨d, m, out ++ extractTree n⟩
    | .text s, d, m, out, _ => by simp [toStream, extractTree, extractFlatFrom, extractStep]
    | .expr x, d, m, out, _ => by simp [toStream, extractTree, extractFlatFrom, extractStep]
    | .elem tag attrs dirs kids, d, m, out, hk => by
        simp only [toStream, extractFlatFrom_cons, extractFlatFrom_append, extractFlatFrom_nil, extractStep,
          List.nil_append]
        cases hd : dirs.isEmpty with
        | true =>
          simp only [if_true]
          rw [extract_nodes kids (d + 1) m _ (keysBelow_succ hk)]
          simp only [extractStep, Nat.add_sub_cancel, get?_none_of_keysBelow hk, extractTree, hd, if_true]
          simp [List.append_assoc]
        | false =>
          simp only [Bool.false_eq_true, if_false]
          rw [extract_nodes kids (d + 1) _ _ (keysBelow_put hk _ _)]
          simp only [extractStep, Nat.add_sub_cancel, get?_put, Option.isSome_none, Bool.false_eq_true,
            if_false, erase_put hk, extractTree, hd]
          simp [List.append_assoc]
    | .delem dd kids, d, m, out, hk => by
        simp only [toStream, extractFlatFrom_cons, extractFlatFrom_append, extractFlatFrom_nil, extractStep,
          List.append_nil, List.isEmpty_cons, Bool.false_eq_true, if_false, sortBy_single]
        rw [extract_nodes kids (d + 1) _ _ (keysBelow_put hk _ _)]
        simp only [extractStep, Nat.add_sub_cancel, get?_put, Option.isSome_some, if_true, erase_put hk,
          extractTree]
        simp [List.append_assoc, trimEnds_wrap]
  theorem extract_nodes : ∀ (ns : List TNode) (d : Nat) (m : DirMap) (out : List REv), KeysBelow m d →
      extractFlatFrom ⟨d, m, out⟩ (toStreams ns) = ⟨d, m, out ++ extractTrees ns⟩
    | [], d, m, out, _ => by simp [toStreams, extractTrees, extractFlatFrom]
    | n :: ns, d, m, out, hk => by
        simp only [toStreams, extractFlatFrom_append, extractTrees]
        rw [extract_node n d m out hk, extract_nodes ns d m _ hk]
        simp [List.append_assoc]
end

/-- The one-pass algorithm with the `(depth, tag)` dictionary nests exactly like the tree. -/
theorem extractFlat_eq_tree (ns : List TNode) : extractFlat (toStreams ns) = extractTrees ns := by
  unfold extractFlat
  rw [extract_nodes ns 0 [] [] (by intro p hp; simp at hp)]
  simp

/-! ### `_prepare` on the extracted stream = `compileNodes` -/

theorem toCEvs_eq_map (l : List REv) : toCEvs l = l.map toCEv := by
  induction l with
  | nil => rfl
  | cons e es ih => simp [toCEvs, ih]

theorem toCEvs_append (a b : List REv) : toCEvs (a ++ b) = toCEvs a ++ toCEvs b := by
  simp [toCEvs_eq_map]

theorem prepareRs_append (a b : List REv) : prepareRs (a ++ b) = prepareRs a ++ prepareRs b := by
  induction a with
  | nil => simp [prepareRs]
  | cons e es ih => simp [prepareRs, ih, List.append_assoc]

theorem attach_toCEvs (ds : List Dir) : ∀ body : List REv,
    attach ds (toCEvs body) = ((attachR ds body).1, toCEvs (attachR ds body).2) := by
  induction ds with
  | nil => intro body; rfl
  | cons d ds ih =>
    intro body
    cases d with
    | replace x => simp only [attach, attachR]; rw [← ih]; rfl
    | content x =>
      cases body with
      | nil => simp only [attach, attachR, toCEvs]; exact ih []
      | cons e rest =>
        cases e with
        | start t a =>
          simp only [attach, attachR, toCEvs, toCEv]
          rw [← ih]
          congr 1
          simp only [toCEvs, toCEv, toCEvs_eq_map]
          congr 2
          cases hl : rest.getLast? with
          | none =>
            have : rest = [] := List.getLast?_eq_none_iff.1 hl
            subst this; simp [toCEv]
          | some l =>
            have hne : rest ≠ [] := by intro h; subst h; simp at hl
            simp [List.getLast?_cons, List.getLast?_map, hl, toCEv]
        | end_ t =>
          have := ih (REv.end_ t :: rest)
          simpa only [attach, attachR, toCEvs, toCEv] using this
        | text s =>
          have := ih (REv.text s :: rest)
          simpa only [attach, attachR, toCEvs, toCEv] using this
        | xexpr y =>
          have := ih (REv.xexpr y :: rest)
          simpa only [attach, attachR, toCEvs, toCEv] using this
        | sub ds2 b2 =>
          have := ih (REv.sub ds2 b2 :: rest)
          simpa only [attach, attachR, toCEvs, toCEv] using this
    | def_ n ps => simp only [attach, attachR, ih]
    | when e => simp only [attach, attachR, ih]
    | otherwise => simp only [attach, attachR, ih]
    | for_ v e => simp only [attach, attachR, ih]
    | if_ e => simp only [attach, attachR, ih]
    | choose e => simp only [attach, attachR, ih]
    | with_ bs => simp only [attach, attachR, ih]
    | attrs e => simp only [attach, attachR, ih]
    | strip c => simp only [attach, attachR, ih]

theorem toCEvs_mkSubR (ds : List Dir) (body : List REv) :
    toCEvs (mkSubR ds body) = mkSub ds (toCEvs body) := by
  unfold mkSubR mkSub
  split <;> simp [toCEvs, toCEv]

mutual
  theorem prepare_node : ∀ n : TNode, toCEvs (prepareRs (extractTree n)) = compileNode n
    | .text s => by simp [extractTree, prepareRs, prepareR, toCEvs, toCEv, compileNode]
    | .expr x => by simp [extractTree, prepareRs, prepareR, toCEvs, toCEv, compileNode]
    | .elem tag attrs dirs kids => by
        have ih := prepare_nodes kids
        have hbody : toCEvs (prepareRs (REv.start (plainTag tag) attrs ::
            (extractTrees kids ++ [REv.end_ (plainTag tag)]))) =
            CEv.start tag attrs :: (compileNodes kids ++ [CEv.end_ tag]) := by
          simp only [prepareRs, prepareR, prepareRs_append, List.append_nil, List.cons_append,
            List.nil_append, toCEvs, toCEv, toCEvs_append, ih, plainTag]
        simp only [extractTree, compileNode]
        cases hd : dirs.isEmpty with
        | true =>
          have : dirs = [] := by simpa using hd
          subst this
          simp only [if_true, hbody, sortBy, attach, mkSub, List.isEmpty_nil]
        | false =>
          simp only [Bool.false_eq_true, if_false, prepareRs, prepareR, List.append_nil, toCEvs_mkSubR]
          rw [← hbody, attach_toCEvs]
          simp [prepareRs, prepareR]
    | .delem d kids => by
        have ih := prepare_nodes kids
        simp only [extractTree, compileNode, prepareRs, prepareR, List.append_nil, toCEvs_mkSubR]
        rw [← ih, attach_toCEvs]
  theorem prepare_nodes : ∀ ns : List TNode, toCEvs (prepareRs (extractTrees ns)) = compileNodes ns
    | [] => by simp [extractTrees, prepareRs, toCEvs, compileNodes]
    | n :: ns => by
        simp only [extractTrees, prepareRs_append, toCEvs_append, compileNodes]
        rw [prepare_node n, prepare_nodes ns]
end

/-- The construction-time pipeline as the code runs it (flat extraction pass, then `attach`)
    produces the prepared stream `compileNodes` that the run-time model and all theorems use. -/
theorem compileFlat_eq_compile (ns : List TNode) : compileFlat ns = compileNodes ns := by
  unfold compileFlat
  rw [extractFlat_eq_tree, prepare_nodes]

end Genshi.Tmpl

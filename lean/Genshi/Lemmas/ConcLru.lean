/-
  C16 — in every reachable state of the interleaving model the cache is one that a sequence of
  container operations builds from the empty cache; hence its concrete linked structure is
  well-formed and within its bound, under every schedule.
-/
import Genshi.Lemmas.Conc
import Genshi.Lemmas.LoaderLru
namespace Genshi.Conc
open Genshi.Lru Genshi.Loader

theorem csStep_reach (c : CCfg) (tid : Tid) (x : CS) (cap : Nat) (h : CacheReach cap x.ls.cache) :
    CacheReach cap (csStep c tid x).ls.cache := by
  obtain ⟨ls, stack, completed⟩ := x
  cases stack with
  | nil => exact h
  | cons f rest =>
    obtain ⟨q, pc⟩ := f
    cases pc with
    | start => exact h
    | acquired =>
      simp only [csStep]
      cases alookup q.key ls.cache.items with
      | none => exact h
      | some v => exact h.step _
    | looked hit => exact h
    | found loc f u isabs =>
      simp only [csStep]
      split
      · exact h
      · simp only; split <;> exact h
    | calling t u todo =>
      cases todo with
      | nil => simp only [csStep]; split <;> exact h
      | cons ch todo => exact h
    | called t u => exact h.step _
    | done res => exact h
    | released res =>
      cases rest with
      | nil => exact h
      | cons p rest' =>
        obtain ⟨pq, ppc⟩ := p
        cases res <;> exact h

theorem step_reach {c : CCfg} {g g' : G} {t : Tid} {cap : Nat} (h : CacheReach cap g.ls.cache)
    (hs : step c g t = some g') : CacheReach cap g'.ls.cache := by
  cases step_kind hs with
  | call q more _ _ hg => subst hg; exact h
  | ret q res _ hg => subst hg; exact h
  | acq q rest _ _ hg => subst hg; exact csStep_reach c t _ cap h
  | cs _ hg => subst hg; exact csStep_reach c t _ cap h

theorem exec_reach {c : CCfg} {g : G} {cap : Nat} (h : CacheReach cap g.ls.cache) (sched : List Tid) :
    CacheReach cap (exec c g sched).ls.cache := by
  induction sched generalizing g with
  | nil => exact h
  | cons t ts ih =>
    simp only [exec]
    cases hs : step c g t with
    | none => exact ih h
    | some g' => exact ih (step_reach h hs)

/-- a reached cache is represented by a well-formed concrete structure within its bound -/
theorem reach_concrete {cap : Nat} {a : ALru Key Tmpl} (h : CacheReach cap a) (d : Node Key Tmpl) :
    ∃ (cops : List (Op Key Tmpl)) (cc : CLru Key Tmpl) (outs : List (Out Key Tmpl)),
      crun (Lru.empty cap d) cops = some (cc, outs) ∧ Wf cc ∧ Lru.abs cc = some a ∧ len cc ≤ cap := by
  obtain ⟨cops, hc⟩ := h
  obtain ⟨cc, ids, hrun', hrepr, habs⟩ := crun_refines (empty_repr cap d) cops
  have e : absOf (Lru.empty cap d) [] = (aempty cap : ALru Key Tmpl) := rfl
  rw [e] at hrun' habs
  refine ⟨cops, cc, _, hrun', ⟨ids, hrepr⟩, by rw [hrepr.abs, habs, hc], ?_⟩
  have hb := (arun_awf (aempty_awf (K := Key) (V := Tmpl) cap) cops)
  have hlen : (absOf cc ids).items.length ≤ cap := by
    rw [habs]; exact Nat.le_trans hb.1.1 (Nat.le_of_eq hb.2)
  simpa [len, absOf, kvOf, hrepr.dict.size] using hlen

end Genshi.Conc

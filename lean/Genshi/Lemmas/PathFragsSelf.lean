/-
  Every location path SimplePathStrategy supports (no attribute step), whatever its spelling:
  `SimplePathStrategy.__init__` (`fragLoop`) either finds the path impossible — then XPath
  selects nothing — or builds a fragment list whose path selects the same nodes: a
  `self::t` step after a step with the same test is redundant, after a step with another
  test it makes the path empty.
-/
import Genshi.Lemmas.PathFrags
namespace Genshi.Path.Frags
open Genshi Genshi.Path Genshi.Path.Ref Genshi.Path.Kmp

/-- a step SimplePathStrategy supports, other than a final attribute step -/
def SStep (s : Step) : Prop := s.preds = [] ∧ simpleT s.test = true ∧ s.axis ≠ .attribute

theorem nodesEqual_eq (t u : NodeTest) (ht : simpleT t = true) (hu : simpleT u = true)
    (h : nodesEqual t u = true) : t = u := by
  rcases simpleT_cases t ht with ⟨a, rfl⟩ | rfl | rfl <;> rcases simpleT_cases u hu with ⟨b, rfl⟩ | rfl | rfl <;>
    simp_all [nodesEqual]

theorem test_clash (ns : NsMap) (t u : NodeTest) (ht : simpleT t = true) (hu : simpleT u = true)
    (h : nodesEqual t u = false) (n : Node) : (testNode t n ns && testNode u n ns) = false := by
  rcases simpleT_cases t ht with ⟨a, rfl⟩ | rfl | rfl <;> rcases simpleT_cases u hu with ⟨b, rfl⟩ | rfl | rfl <;>
    cases n with
    | elem tg ats ks =>
      simp_all [nodesEqual, testNode]
      try (intro h1 h2; exact h (h1.symm.trans h2))
    | leaf e => cases e <;> simp_all [nodesEqual, testNode]

section
variable (ns : NsMap) (xvs : XVars)

theorem reach_false_prefix (X : LocPath) (t : LNode) (h : ∀ c, reach ns xvs X c t = false) :
    ∀ (pre : LocPath) (c : LNode), reach ns xvs (pre ++ X) c t = false := by
  intro pre
  induction pre with
  | nil => exact h
  | cons s pre ih =>
    intro c
    simp only [List.cons_append, reach]
    rw [List.any_eq_false]
    intro m _
    simp [ih m]

theorem reach_congr_prefix (q1 q2 : LocPath) (t : LNode) (h : ∀ c, reach ns xvs q1 c t = reach ns xvs q2 c t) :
    ∀ (pre : LocPath) (c : LNode), reach ns xvs (pre ++ q1) c t = reach ns xvs (pre ++ q2) c t := by
  intro pre
  induction pre with
  | nil => exact h
  | cons s pre ih =>
    intro c
    simp only [List.cons_append, reach]
    apply List.any_congr rfl
    intro m
    exact ih m

/-- `…/s/self::s.test/…` ≡ `…/s/…` -/
theorem self_merge (ax : Axis) (g : NodeTest) (q : LocPath) (c t : LNode) :
    reach ns xvs (⟨ax, g, []⟩ :: ⟨.self, g, []⟩ :: q) c t = reach ns xvs (⟨ax, g, []⟩ :: q) c t := by
  rw [reach_cons ns xvs _ _ (nonpos_nopreds ns xvs _ _), reach_cons ns xvs _ _ (nonpos_nopreds ns xvs _ _)]
  apply List.any_congr rfl
  intro m
  rw [reach_self ns xvs _ _ (nonpos_nopreds ns xvs _ _) rfl, hitR_nopreds, hitR_nopreds]
  cases testNode g m.node ns <;> simp

/-- `…/s/self::u/…` with another test `u` selects nothing -/
theorem self_clash (ax : Axis) (g u : NodeTest) (hg : simpleT g = true) (hu : simpleT u = true)
    (h : nodesEqual u g = false) (q : LocPath) (c t : LNode) :
    reach ns xvs (⟨ax, g, []⟩ :: ⟨.self, u, []⟩ :: q) c t = false := by
  rw [reach_cons ns xvs _ _ (nonpos_nopreds ns xvs _ _), List.any_eq_false]
  intro m _
  rw [reach_self ns xvs _ _ (nonpos_nopreds ns xvs _ _) rfl, hitR_nopreds, hitR_nopreds]
  have := test_clash ns u g hu hg h m.node
  cases h1 : testNode g m.node ns <;> cases h2 : testNode u m.node ns <;> simp_all

/-- what `fragLoop` returns for the rest `q` of a path whose part `pre` has been read -/
def LoopSem (q : LocPath) (frs : List Frag) (acc : List NodeTest) (sb : Bool) (pre : LocPath) : Prop :=
  match fragLoop q frs acc sb with
  | none => ∀ c t, reach ns xvs (pre ++ q) c t = false
  | some out =>
      ∃ ts more, out = frs ++ ⟨acc ++ ts, calculatePi (acc ++ ts), none, sb⟩ :: more ∧ TailOk more ∧
        (∀ t ∈ ts, simpleT t = true) ∧ (∀ f ∈ more, ∀ t ∈ f.tests, simpleT t = true) ∧
        (acc ++ ts = [] → more = [] → q = []) ∧
        ∀ c t, reach ns xvs (pre ++ q) c t = reach ns xvs (pre ++ (childChain ts ++ tailPath more)) c t

theorem fragLoop_sem : ∀ (q : LocPath), (∀ s ∈ q, SStep s) → ∀ (frs : List Frag) (acc : List NodeTest) (sb : Bool)
    (pre : LocPath),
    (acc ≠ [] → ∃ pre0 ax g, pre = pre0 ++ [⟨ax, g, []⟩] ∧ acc.getLast? = some g ∧ simpleT g = true) →
    (acc = [] → ∀ s, q.head? = some s → s.axis ≠ .self) →
    LoopSem ns xvs q frs acc sb pre
  | [], _, frs, acc, sb, pre, _, _ => by
      simp only [LoopSem, fragLoop]
      exact ⟨[], [], by simp, fun f hf => by simp at hf, by simp, by simp, by simp, fun c t => by simp [childChain, tailPath]⟩
  | s :: q', hq, frs, acc, sb, pre, hlast, hself => by
      obtain ⟨hp, hsim, hna⟩ := hq s List.mem_cons_self
      have hq' : ∀ s' ∈ q', SStep s' := fun s' hs' => hq s' (List.mem_cons_of_mem _ hs')
      obtain ⟨ax, g, preds⟩ := s
      simp only at hp hsim hna
      subst hp
      have happ : ∀ (X : LocPath), pre ++ ⟨ax, g, []⟩ :: X = (pre ++ [⟨ax, g, []⟩]) ++ X := by intro X; simp
      cases ax with
      | «attribute» => exact absurd rfl hna
      | child =>
        have ih := fragLoop_sem q' hq' frs (acc ++ [g]) sb (pre ++ [⟨.child, g, []⟩])
          (fun _ => ⟨pre, .child, g, rfl, by simp, hsim⟩) (fun h => by simp at h)
        simp only [LoopSem, fragLoop] at ih ⊢
        cases hf : fragLoop q' frs (acc ++ [g]) sb with
        | none =>
          rw [hf] at ih
          simp only at ih ⊢
          intro c t; rw [happ]; exact ih c t
        | some out =>
          rw [hf] at ih
          simp only at ih ⊢
          obtain ⟨ts', more, e1, e2, e3, e4, e5, e6⟩ := ih
          refine ⟨g :: ts', more, by rw [e1]; simp, e2, ?_, e4, by simp, fun c t => ?_⟩
          · intro t ht; rcases List.mem_cons.mp ht with h | h
            · rw [h]; exact hsim
            · exact e3 t h
          · rw [happ, e6 c t]; simp [childChain]
      | descendant =>
        have ih := fragLoop_sem q' hq' (frs ++ [⟨acc, calculatePi acc, none, sb⟩]) [g] false (pre ++ [⟨.descendant, g, []⟩])
          (fun _ => ⟨pre, .descendant, g, rfl, by simp, hsim⟩) (fun h => by simp at h)
        simp only [LoopSem, fragLoop] at ih ⊢
        cases hf : fragLoop q' (frs ++ [⟨acc, calculatePi acc, none, sb⟩]) [g] false with
        | none =>
          rw [hf] at ih
          simp only at ih ⊢
          intro c t; rw [happ]; exact ih c t
        | some out =>
          rw [hf] at ih
          simp only at ih ⊢
          obtain ⟨ts', more, e1, e2, e3, e4, e5, e6⟩ := ih
          refine ⟨[], ⟨[g] ++ ts', calculatePi ([g] ++ ts'), none, false⟩ :: more, by rw [e1]; simp, ?_, by simp, ?_,
            by simp, fun c t => ?_⟩
          · intro f hf'
            rcases List.mem_cons.mp hf' with h | h
            · rw [h]; exact ⟨by simp, rfl, rfl⟩
            · exact e2 f h
          · intro f hf' t ht
            rcases List.mem_cons.mp hf' with h | h
            · rw [h] at ht; simp only [List.singleton_append, List.mem_cons] at ht
              rcases ht with h' | h'
              · rw [h']; exact hsim
              · exact e3 t h'
            · exact e4 f h t ht
          · rw [happ, e6 c t]; simp [childChain, tailPath, fragSteps, fragPath]
      | descendantOrSelf =>
        have ih := fragLoop_sem q' hq' (frs ++ [⟨acc, calculatePi acc, none, sb⟩]) [g] true
          (pre ++ [⟨.descendantOrSelf, g, []⟩])
          (fun _ => ⟨pre, .descendantOrSelf, g, rfl, by simp, hsim⟩) (fun h => by simp at h)
        simp only [LoopSem, fragLoop] at ih ⊢
        cases hf : fragLoop q' (frs ++ [⟨acc, calculatePi acc, none, sb⟩]) [g] true with
        | none =>
          rw [hf] at ih
          simp only at ih ⊢
          intro c t; rw [happ]; exact ih c t
        | some out =>
          rw [hf] at ih
          simp only at ih ⊢
          obtain ⟨ts', more, e1, e2, e3, e4, e5, e6⟩ := ih
          refine ⟨[], ⟨[g] ++ ts', calculatePi ([g] ++ ts'), none, true⟩ :: more, by rw [e1]; simp, ?_, by simp, ?_,
            by simp, fun c t => ?_⟩
          · intro f hf'
            rcases List.mem_cons.mp hf' with h | h
            · rw [h]; exact ⟨by simp, rfl, rfl⟩
            · exact e2 f h
          · intro f hf' t ht
            rcases List.mem_cons.mp hf' with h | h
            · rw [h] at ht; simp only [List.singleton_append, List.mem_cons] at ht
              rcases ht with h' | h'
              · rw [h']; exact hsim
              · exact e3 t h'
            · exact e4 f h t ht
          · rw [happ, e6 c t]; simp [childChain, tailPath, fragSteps, fragPath]
      | self =>
        by_cases hacc : acc = []
        · exact absurd rfl (hself hacc _ rfl)
        · obtain ⟨pre0, ax0, g0, rfl, hl, hg0⟩ := hlast hacc
          simp only [LoopSem, fragLoop, hl]
          by_cases hne : nodesEqual g g0 = true
          · have hgg : g = g0 := nodesEqual_eq g g0 hsim hg0 hne
            subst hgg
            have ih := fragLoop_sem q' hq' frs acc sb (pre0 ++ [⟨ax0, g, []⟩])
              (fun _ => ⟨pre0, ax0, g, rfl, hl, hsim⟩) (fun h => absurd h hacc)
            simp only [LoopSem] at ih
            have hmerge : ∀ c t, reach ns xvs ((pre0 ++ [⟨ax0, g, []⟩]) ++ ⟨.self, g, []⟩ :: q') c t
                = reach ns xvs ((pre0 ++ [⟨ax0, g, []⟩]) ++ q') c t := by
              intro c t
              have := reach_congr_prefix ns xvs (⟨ax0, g, []⟩ :: ⟨.self, g, []⟩ :: q') (⟨ax0, g, []⟩ :: q') t
                (fun c' => self_merge ns xvs ax0 g q' c' t) pre0 c
              simpa using this
            simp only [hne, Bool.not_true, Bool.false_eq_true, if_false]
            cases hf : fragLoop q' frs acc sb with
            | none =>
              rw [hf] at ih
              simp only at ih ⊢
              intro c t; rw [hmerge c t]; exact ih c t
            | some out =>
              rw [hf] at ih
              simp only at ih ⊢
              obtain ⟨ts', more, e1, e2, e3, e4, e5, e6⟩ := ih
              refine ⟨ts', more, e1, e2, e3, e4, ?_, fun c t => ?_⟩
              · intro h1 _
                have : acc = [] := by
                  cases acc with
                  | nil => rfl
                  | cons a l => simp at h1
                exact absurd this hacc
              · rw [hmerge c t]; exact e6 c t
          · have hne' : nodesEqual g g0 = false := by simpa using hne
            simp only [hne', Bool.not_false, if_true]
            intro c t
            have := reach_false_prefix ns xvs (⟨ax0, g0, []⟩ :: ⟨.self, g, []⟩ :: q') t
              (fun c' => self_clash ns xvs ax0 g0 g hg0 hsim hne' q' c' t) pre0 c
            simpa using this

theorem fragsOk_mk (ts0 : List NodeTest) (sb : Bool) (more : List Frag) (hs0 : ∀ t ∈ ts0, simpleT t = true)
    (hmore : TailOk more) (hsm : ∀ f ∈ more, ∀ t ∈ f.tests, simpleT t = true)
    (hhead : ts0 = [] → sb = false ∧ more ≠ []) :
    FragsOk (⟨ts0, calculatePi ts0, none, sb⟩ :: more) := by
  refine ⟨?_, ?_, ?_, ?_, ?_⟩
  · intro f hf
    rcases List.mem_cons.mp hf with h | h
    · rw [h]
    · exact (hmore f h).2.1
  · intro f hf
    rcases List.mem_cons.mp hf with h | h
    · rw [h]
    · exact (hmore f h).2.2
  · intro f hf t ht
    rcases List.mem_cons.mp hf with h | h
    · rw [h] at ht; exact hs0 t ht
    · exact hsm f h t ht
  · intro i f hf
    have : more[i]? = some f := by simpa using hf
    exact (hmore f (List.mem_of_getElem? this)).1
  · refine ⟨_, rfl, fun h => ?_⟩
    obtain ⟨h1, h2⟩ := hhead h
    refine ⟨h1, ?_⟩
    cases more with
    | nil => exact absurd rfl h2
    | cons a l => simp

/-- **`SimplePathStrategy.__init__` is sound for every supported spelling**: either the path
    is found impossible and selects nothing in XPath, or the fragment list built is well formed
    and its path selects the same nodes -/
theorem fragments_sem (p : LocPath) (hp : ∀ s ∈ p, SStep s) (hne : p ≠ []) :
    match fragments p with
    | none => ∀ c t, reach ns xvs p c t = false
    | some out => FragsOk out ∧ ∀ c t, reach ns xvs p c t = reach ns xvs (normPath out) c t := by
  cases p with
  | nil => exact absurd rfl hne
  | cons s0 q =>
    obtain ⟨hp0, hsim, hna⟩ := hp s0 List.mem_cons_self
    have hq : ∀ s ∈ q, SStep s := fun s hs => hp s (List.mem_cons_of_mem _ hs)
    obtain ⟨ax, g, preds⟩ := s0
    simp only at hp0 hsim hna
    subst hp0
    by_cases hax : ax = .self
    · subst hax
      have h := fragLoop_sem ns xvs q hq [] [g] true [⟨.self, g, []⟩]
        (fun _ => ⟨[], .self, g, rfl, rfl, hsim⟩) (fun h => by simp at h)
      simp only [LoopSem] at h
      simp only [fragments, fragLoop, List.getLast?_nil]
      cases hf : fragLoop q [] [g] true with
      | none =>
        rw [hf] at h
        simp only at h ⊢
        intro c t; exact h c t
      | some out =>
        rw [hf] at h
        simp only at h ⊢
        obtain ⟨ts, more, e1, e2, e3, e4, e5, e6⟩ := h
        simp only [List.nil_append] at e1
        subst e1
        refine ⟨fragsOk_mk _ true more ?_ e2 e4 (fun h => by simp at h), fun c t => ?_⟩
        · intro t ht
          simp only [List.singleton_append, List.mem_cons] at ht
          rcases ht with h' | h'
          · rw [h']; exact hsim
          · exact e3 t h'
        · have := e6 c t
          simp only [List.singleton_append, List.cons_append, List.nil_append] at this
          rw [this]
          simp [normPath, headPath, fragPath]
    · have h := fragLoop_sem ns xvs (⟨ax, g, []⟩ :: q) hp [] [] false []
        (fun h => absurd rfl h) (fun _ s hs => by simp at hs; subst hs; exact hax)
      simp only [LoopSem] at h
      simp only [fragments]
      cases hf : fragLoop (⟨ax, g, []⟩ :: q) [] [] false with
      | none =>
        rw [hf] at h
        simp only at h ⊢
        intro c t; exact h c t
      | some out =>
        rw [hf] at h
        simp only at h ⊢
        obtain ⟨ts, more, e1, e2, e3, e4, e5, e6⟩ := h
        simp only [List.nil_append] at e1 e5
        subst e1
        refine ⟨fragsOk_mk _ false more e3 e2 e4 (fun h => ⟨rfl, fun hm => ?_⟩), fun c t => ?_⟩
        · have := e5 h hm; simp at this
        · have := e6 c t
          simp only [List.nil_append] at this
          rw [this]
          simp [normPath, headPath]

theorem run_none (ig : Bool) : ∀ (es : List Event) (st : PState),
    (runOne (pStep none ig ns) st es).1 = List.replicate es.length .none
  | [], _ => rfl
  | e :: es, st => by
      simp only [runOne, pStep, List.length_cons, List.replicate_succ]
      rw [run_none ig es st]

end

/-- **SimplePathStrategy designates the XPath node set of every path it supports** (no
    attribute step), whatever the spelling: interior `self::` steps included -/
theorem operand_simple_supported (ns : NsMap) (vs : Vars) (p : LocPath) (hp : ∀ s ∈ p, SStep s) (hne : p ≠ [])
    (tag : QName) (attrs : AttrList) (kids : List Node) (hcl : cleanList kids = true) :
    Operand ns vs (toXVars vs) (.elem tag attrs kids) p (.simple (fragments p) false) (.p []) := by
  have h := fragments_sem ns (toXVars vs) p hp hne
  have hlast : ∃ last, p.getLast? = some last ∧ last.axis ≠ .attribute := by
    cases hl : p.getLast? with
    | none => simp [List.getLast?_eq_none_iff] at hl; exact absurd hl hne
    | some last => exact ⟨last, rfl, (hp last (List.mem_of_getLast? hl)).2.2⟩
  cases hf : fragments p with
  | none =>
    rw [hf] at h
    simp only at h
    obtain ⟨o1, o2⟩ := okVals_replicate (eventLocs (.elem tag attrs kids) [])
    rw [eventLocs_length] at o1 o2
    refine ⟨?_, fun x => ?_, hlast⟩
    · rw [runTest_simpleL, run_none]; exact o1
    · rw [runTest_simpleL, run_none, o2 x.loc, h]
  | some out =>
    rw [hf] at h
    simp only at h
    obtain ⟨hok, hr⟩ := h
    obtain ⟨h1, h2⟩ := simple_marks ns (toXVars vs) out hok tag attrs kids hcl
    refine ⟨?_, fun x => ?_, hlast⟩
    · rw [runTest_simpleL]; exact h1
    · rw [runTest_simpleL]
      apply Bool.eq_iff_iff.mpr
      rw [h2 x, hr]

/-- a path the driver reports as in the scope of the spelling theorems satisfies their hypotheses -/
theorem allSStepM_sound (p : LocPath) (h : FragsM.allSStepM p = true) : (∀ s ∈ p, SStep s) ∧ p ≠ [] := by
  simp only [FragsM.allSStepM, Bool.and_eq_true, Bool.not_eq_true', List.all_eq_true] at h
  refine ⟨fun s hs => ?_, by intro hp; rw [hp] at h; simp at h⟩
  have := h.2 s hs
  simp only [FragsM.sstepM, Bool.and_eq_true, bne_iff_ne, ne_eq, List.isEmpty_iff] at this
  exact ⟨this.1.1, by rw [← simpleTM_eq]; exact this.1.2, this.2⟩

theorem stepsOk_of_sstep (ns : NsMap) (vs : Vars) (p : LocPath) (hp : ∀ s ∈ p, SStep s) (hne : p ≠ []) :
    StepsOk ns vs p := by
  refine ⟨by cases p <;> simp_all, fun s hs => (hp s hs).2.2, ?_, ?_, ?_⟩
  · intro s hs
    rcases simpleT_cases s.test (hp s hs).2.1 with ⟨n, h⟩ | h | h <;> rw [h] <;> simp [NodeTest.elemWf]
  · intro s hs q hq
    rw [(hp s hs).1] at hq; simp at hq
  · intro s hs q hq
    rw [(hp s hs).1] at hq; simp at hq

end Genshi.Path.Frags

/-
  C15 — soundness of the executable well-formedness check: what the walks over the real
  fields establish is exactly `Wf`.
-/
import Genshi.Lemmas.Lru
namespace Genshi.Lru
set_option linter.unusedSectionVars false
variable {K V : Type} [DecidableEq K]

/-- the `nxt` half of a segment -/
def FwdOK (h : Id → Node K V) : List Id → Option Id → Prop
  | [], _ => True
  | i :: rest, q => (h i).nxt = rest.head?.or q ∧ FwdOK h rest q

/-- the `prv` half of a segment -/
def BwdOK (h : Id → Node K V) : Option Id → List Id → Prop
  | _, [] => True
  | p, i :: rest => (h i).prv = p ∧ BwdOK h (some i) rest

theorem seg_iff (h : Id → Node K V) (p : Option Id) (ids : List Id) (q : Option Id) :
    Seg h p ids q ↔ FwdOK h ids q ∧ BwdOK h p ids := by
  induction ids generalizing p with
  | nil => simp [Seg, FwdOK, BwdOK]
  | cons i r ih =>
    simp only [Seg, FwdOK, BwdOK, ih]
    constructor
    · rintro ⟨a, b, c, d⟩; exact ⟨⟨b, c⟩, a, d⟩
    · rintro ⟨⟨b, c⟩, a, d⟩; exact ⟨a, b, c, d⟩

theorem walkNxt_fwd {h : Id → Node K V} {n : Nat} {start : Option Id} {f : List Id}
    (hw : walkNxt h n start = some f) : start = f.head? ∧ FwdOK h f none := by
  induction n generalizing start f with
  | zero =>
    cases start with
    | none => simp [walkNxt] at hw; subst hw; exact ⟨rfl, trivial⟩
    | some i => simp [walkNxt] at hw
  | succ n ih =>
    cases start with
    | none => simp [walkNxt] at hw; subst hw; exact ⟨rfl, trivial⟩
    | some i =>
      simp only [walkNxt, Option.map_eq_some_iff] at hw
      obtain ⟨r, hr, rfl⟩ := hw
      obtain ⟨h1, h2⟩ := ih hr
      exact ⟨rfl, by simp only [FwdOK, Option.or_none]; exact ⟨h1, h2⟩⟩

/-- along `prv`: every node's `prv` is the next one of the walk -/
def PrvFwd (h : Id → Node K V) : List Id → Prop
  | [] => True
  | i :: rest => (h i).prv = rest.head? ∧ PrvFwd h rest

theorem walkPrv_fwd {h : Id → Node K V} {n : Nat} {start : Option Id} {b : List Id}
    (hw : walkPrv h n start = some b) : start = b.head? ∧ PrvFwd h b := by
  induction n generalizing start b with
  | zero =>
    cases start with
    | none => simp [walkPrv] at hw; subst hw; exact ⟨rfl, trivial⟩
    | some i => simp [walkPrv] at hw
  | succ n ih =>
    cases start with
    | none => simp [walkPrv] at hw; subst hw; exact ⟨rfl, trivial⟩
    | some i =>
      simp only [walkPrv, Option.map_eq_some_iff] at hw
      obtain ⟨r, hr, rfl⟩ := hw
      obtain ⟨h1, h2⟩ := ih hr
      exact ⟨rfl, h1, h2⟩

theorem bwdOK_append (h : Id → Node K V) (p : Option Id) (xs : List Id) (i : Id) :
    BwdOK h p (xs ++ [i]) ↔ BwdOK h p xs ∧ (h i).prv = xs.getLast?.or p := by
  induction xs generalizing p with
  | nil => simp [BwdOK]
  | cons x r ih =>
    simp only [List.cons_append, BwdOK, ih, getLast?_cons_or]
    constructor
    · rintro ⟨a, b, c⟩; exact ⟨⟨a, b⟩, c⟩
    · rintro ⟨⟨a, b⟩, c⟩; exact ⟨a, b, c⟩

/-- the backward walk, read in reverse, is the `prv` half -/
theorem prvFwd_reverse {h : Id → Node K V} {b : List Id} (hb : PrvFwd h b) : BwdOK h none b.reverse := by
  induction b with
  | nil => trivial
  | cons i r ih =>
    obtain ⟨h1, h2⟩ := hb
    rw [List.reverse_cons, bwdOK_append]
    refine ⟨ih h2, ?_⟩
    rw [h1, List.getLast?_reverse, Option.or_none]


/-- soundness of the executable check: if it accepts and `keys` covers the dictionary, the
    structure is well-formed -/
theorem wfCheck_sound {c : CLru K V} {keys : List K} (h : wfCheck c keys = true)
    (hcov : ∀ k i, c.dict k = some i → k ∈ keys) : Wf c := by
  unfold wfCheck at h
  cases hf : walkNxt c.heap (c.size + 1) c.head with
  | none => simp [hf] at h
  | some f =>
    cases hb : walkPrv c.heap (c.size + 1) c.tail with
    | none => simp [hf, hb] at h
    | some b =>
      simp only [hf, hb, Bool.and_eq_true, beq_iff_eq, List.all_eq_true, decide_eq_true_eq] at h
      obtain ⟨⟨⟨⟨⟨hrev, hlen⟩, hnd⟩, hfresh⟩, hdict⟩, hkeys⟩ := h
      obtain ⟨hhead, hfwd⟩ := walkNxt_fwd hf
      obtain ⟨htail, hprv⟩ := walkPrv_fwd hb
      have hbwd : BwdOK c.heap none f := by rw [hrev]; exact prvFwd_reverse hprv
      refine ⟨f, ⟨(seg_iff _ _ _ _).mpr ⟨hfwd, hbwd⟩, hhead, ?_, hnd⟩, ⟨hdict, ?_, hlen.symm⟩, hfresh⟩
      · rw [htail, hrev, List.getLast?_reverse]
      · intro k i hk
        have := hkeys k (hcov k i hk)
        simp only [hk, Bool.and_eq_true, List.contains_iff_mem, decide_eq_true_eq] at this
        exact this

/-- on a key universe that covers the dictionary the check decides well-formedness -/
theorem wfCheck_iff {c : CLru K V} {keys : List K} (hcov : ∀ k i, c.dict k = some i → k ∈ keys) :
    wfCheck c keys = true ↔ Wf c :=
  ⟨fun h => wfCheck_sound h hcov, fun ⟨_, hr⟩ => hr.wfCheck keys⟩

end Genshi.Lru

/-
  C11: run-time semantics = specification for file sets WITH match templates, under the hypothesis `inHS`:
  inside a zone (an element a match template may rewrite, a match template body) every include is of
  window-independent content.  Simulation on the same raw stream and the same context; the two evaluators
  differ only in the window of match templates they render an include's target (or fallback) under.
-/
import Genshi.Lemmas.InclSpec
import Genshi.Lemmas.InclPrep
namespace Genshi.Incl

theorem find_fileOkS {T : List Name} {files : Files} (hH : inHS T files = true) {n : Name} {f : File}
    (h : files.find n = some f) : fileOkS T files f = true := by
  obtain ⟨d, hd, hm⟩ := find_mem h
  simp only [inHS, List.all_eq_true] at hH
  exact hH d hd (n, f) hm

/-! ## small facts -/

mutual
theorem winfreeSN_of_textual (T : List Name) : ∀ n : Node, textualN n = true → winfreeSN T n = true
  | .text _, _ => rfl
  | .var _, _ => rfl
  | .call _, h => by simp [textualN] at h
  | .select, h => by simp [textualN] at h
  | .elem _ _, h => by simp [textualN] at h
  | .matchT _ _, h => by simp [textualN] at h
  | .cond _ b, h => by simp only [textualN] at h; simp only [winfreeSN]; exact winfreeSL_of_textual T b h
  | .loop _ _ b, h => by simp only [textualN] at h; simp only [winfreeSN]; exact winfreeSL_of_textual T b h
  | .inlined b, h => by simp only [textualN] at h; simp only [winfreeSN]; exact winfreeSL_of_textual T b h
  | .defn _ _, _ => rfl
  | .include _ cls _ fb _, h => by
    simp only [textualN, Bool.and_eq_true] at h
    simp only [winfreeSN, Bool.and_eq_true]
    exact ⟨h.1, winfreeSL_of_textual T fb h.2⟩
termination_by structural n => n
theorem winfreeSL_of_textual (T : List Name) : ∀ ns : List Node, textualL ns = true → winfreeSL T ns = true
  | [], _ => rfl
  | n :: ns, h => by
    simp only [textualL, Bool.and_eq_true] at h
    simp only [winfreeSL, Bool.and_eq_true]
    exact ⟨winfreeSN_of_textual T n h.1, winfreeSL_of_textual T ns h.2⟩
termination_by structural ns => ns
end

mutual
theorem plainN_ok (T : List Name) (files : Files) : ∀ (n : Node) (z : Bool), plainN n = true →
    tagsOkN T n = true ∧ zoneFreeSN files T z n = true
  | .text _, _, _ => ⟨rfl, rfl⟩
  | .elem t b, z, h => by
    have := plainL_ok T files b (z || decide (t ∈ T)) (by simpa [plainN] using h)
    exact ⟨by simp only [tagsOkN]; exact this.1, by simp only [zoneFreeSN]; exact this.2⟩
  | .var _, _, h => by simp [plainN] at h
  | .cond _ _, _, h => by simp [plainN] at h
  | .loop _ _ _, _, h => by simp [plainN] at h
  | .defn _ _, _, h => by simp [plainN] at h
  | .call _, _, h => by simp [plainN] at h
  | .matchT _ _, _, h => by simp [plainN] at h
  | .select, _, h => by simp [plainN] at h
  | .include _ _ _ _ _, _, h => by simp [plainN] at h
  | .inlined _, _, h => by simp [plainN] at h
termination_by structural n => n
theorem plainL_ok (T : List Name) (files : Files) : ∀ (ns : List Node) (z : Bool), plainL ns = true →
    tagsOkL T ns = true ∧ zoneFreeSL files T z ns = true
  | [], _, _ => ⟨rfl, rfl⟩
  | n :: ns, z, h => by
    simp only [plainL, Bool.and_eq_true] at h
    have h1 := plainN_ok T files n z h.1
    have h2 := plainL_ok T files ns z h.2
    exact ⟨by simp only [tagsOkL, Bool.and_eq_true]; exact ⟨h1.1, h2.1⟩,
           by simp only [zoneFreeSL, Bool.and_eq_true]; exact ⟨h1.2, h2.2⟩⟩
termination_by structural ns => ns
end

theorem firstMatchFrom_mem {rng : Rng} {tag : Name} : ∀ {ms : List (Name × List Node)} {i idx : Nat} {mb : List Node},
    firstMatchFrom rng tag ms i = some (idx, mb) → (tag, mb) ∈ ms
  | [], _, _, _, h => by simp [firstMatchFrom] at h
  | (t, b) :: rest, i, idx, mb, h => by
    simp only [firstMatchFrom] at h
    by_cases hc : (rng.contains i && decide (t = tag)) = true
    · simp only [hc, if_true, Option.some.injEq, Prod.mk.injEq] at h
      simp only [Bool.and_eq_true, decide_eq_true_eq] at hc
      rw [← hc.2, ← h.2]; exact List.mem_cons_self
    · simp only [hc, if_false] at h
      exact List.mem_cons_of_mem _ (firstMatchFrom_mem h)

theorem firstMatchFrom_none_notin {T : List Name} {rng : Rng} {tag : Name} (ht : tag ∉ T) :
    ∀ (ms : List (Name × List Node)) (i : Nat), (∀ p ∈ ms, p.1 ∈ T) → firstMatchFrom rng tag ms i = none
  | [], _, _ => rfl
  | (t, b) :: rest, i, h => by
    have hne : t ≠ tag := fun he => ht (he ▸ h (t, b) List.mem_cons_self)
    simp only [firstMatchFrom, hne, decide_false, Bool.and_false, Bool.false_eq_true, if_false]
    exact firstMatchFrom_none_notin ht rest (i + 1) (fun p hp => h p (List.mem_cons_of_mem _ hp))

theorem loadRaw_ok_find {files : Files} {name : Name} {cls : Kind} {body : List Node}
    (h : loadRaw files name cls = .ok body) : files.find name = some ⟨cls, some body⟩ := by
  simp only [loadRaw] at h
  cases hf : files.find name with
  | none => simp [hf] at h
  | some f =>
    obtain ⟨fk, fb⟩ := f
    simp only [hf] at h
    by_cases hk : fk = cls
    · subst hk
      cases fb with
      | none => simp at h
      | some b => simp at h; subst h; rfl
    · simp [hk] at h

theorem loadRaw_notFound_find {files : Files} {name : Name} {cls : Kind}
    (h : loadRaw files name cls = .err .notFound) : files.find name = none := by
  simp only [loadRaw] at h
  cases hf : files.find name with
  | none => rfl
  | some f =>
    obtain ⟨fk, fb⟩ := f
    simp only [hf] at h
    by_cases hk : fk = cls
    · subst hk
      cases fb with
      | none => simp at h
      | some b => simp at h
    · simp [hk] at h

/-! ## the invariant and the relation -/

/-- the macros and match templates registered so far come from streams inside the hypothesis -/
structure OkStZ (T : List Name) (files : Files) (st : St) : Prop where
  macros : ∀ p, p ∈ st.macros → tagsOkL T p.2 = true ∧ zoneFreeSL files T false p.2 = true
  mts : ∀ p, p ∈ st.mts → p.1 ∈ T ∧ tagsOkL T p.2 = true ∧ zoneFreeSL files T true p.2 = true

/-- equal results, and a successful one ends in a context of the same kind -/
def SRZ (T : List Name) (files : Files) (x y : R) : Prop := x = y ∧ ∀ r, x = .ok r → OkStZ T files r.2

theorem SRZ.fuel {T files} : SRZ T files .fuel .fuel := ⟨rfl, by intro r h; cases h⟩
theorem SRZ.err {T files} (e : Err) : SRZ T files (.err e) (.err e) := ⟨rfl, by intro r h; cases h⟩
theorem SRZ.ok {T files} {o : List Ev} {s : St} (h : OkStZ T files s) : SRZ T files (.ok (o, s)) (.ok (o, s)) :=
  ⟨rfl, by intro r hr; cases hr; exact h⟩

theorem SRZ.bind {T files} {x y : R} {k k' : List Ev × St → R} (hx : SRZ T files x y)
    (hk : ∀ r, OkStZ T files r.2 → SRZ T files (k r) (k' r)) : SRZ T files (x.bind k) (y.bind k') := by
  obtain ⟨rfl, hok⟩ := hx
  cases x with
  | fuel => exact SRZ.fuel
  | err e => exact SRZ.err e
  | ok a => exact hk a (hok a rfl)

theorem loopItems_srz {T files} {k k' : St → R} (x : Name) (hk : ∀ s, OkStZ T files s → SRZ T files (k s) (k' s)) :
    ∀ (vs : List Value) (s : St), OkStZ T files s → SRZ T files (loopItems k x vs s) (loopItems k' x vs s)
  | [], s, hs => SRZ.ok hs
  | v :: vs, s, hs => by
    simp only [loopItems]
    refine SRZ.bind (hk _ ⟨hs.macros, hs.mts⟩) fun r1 h1 => ?_
    refine SRZ.bind (loopItems_srz x hk vs _ ⟨h1.macros, h1.mts⟩) fun r2 h2 => ?_
    exact SRZ.ok h2

/-- how the windows of the two evaluators are coupled: the same window, the full one outside zones — or
the stream does not depend on the window (`w`) -/
def CoupS (z : Bool) (rR rS : Rng) (w : Bool) : Prop :=
  (rR = rS ∧ rR.nomt = false ∧ (z = false → rR = .full)) ∨ w = true

theorem CoupS.full {w : Bool} : CoupS false .full .full w := .inl ⟨rfl, rfl, fun _ => rfl⟩

/-- entering a stream at lower fuel -/
def JZ (T : List Name) (files : Files) (J J' : RJ) : Prop :=
  ∀ z rR rS ns st, tagsOkL T ns = true → zoneFreeSL files T z ns = true → CoupS z rR rS (winfreeSL T ns) →
    OkStZ T files st → SRZ T files (J rR ns st) (J' rS ns st)

mutual
theorem zspecN {T : List Name} {files : Files} (hS : inHS T files = true) {J J' : RJ} (hJ : JZ T files J J') :
    ∀ (n : Node) (z : Bool) (rR rS : Rng) (st : St), tagsOkN T n = true → zoneFreeSN files T z n = true →
      CoupS z rR rS (winfreeSN T n) → OkStZ T files st →
      SRZ T files (renderN .runtime files J rR n st) (specN files J' rS n st)
  | .text _, _, _, _, _, _, _, _, hs => SRZ.ok hs
  | .var x, z, rR, rS, st, _, _, _, hs => by
    rw [renderN_var, specN_var]
    cases st.lookup x with
    | none => exact SRZ.err _
    | some v =>
      dsimp only
      cases v.text? with
      | none => exact SRZ.err _
      | some s => exact SRZ.ok hs
  | .elem tag body, z, rR, rS, st, ht, hz, hc, hs => by
    rw [renderN_elem, specN_elem]
    simp only [tagsOkN] at ht
    simp only [zoneFreeSN] at hz
    by_cases htT : tag ∈ T
    · -- a matchable element: the windows are the same
      rcases hc with ⟨he, hn, _⟩ | hw
      · subst he
        simp only [htT, decide_true, Bool.or_true] at hz
        cases hfm : firstMatch st.mts rR tag with
        | none =>
          dsimp only
          refine SRZ.bind (zspecL hS hJ body true rR rR st ht hz (.inl ⟨rfl, hn, fun h => by cases h⟩) hs) fun r hr => ?_
          exact SRZ.ok hr
        | some p =>
          obtain ⟨idx, mb⟩ := p
          dsimp only
          have hmem := hs.mts (tag, mb) (firstMatchFrom_mem hfm)
          refine SRZ.bind (zspecL hS hJ body true _ _ st ht hz (.inl ⟨rfl, rfl, fun h => by cases h⟩) hs) fun r hr => ?_
          refine SRZ.bind (hJ true _ _ mb _ hmem.2.1 hmem.2.2 (.inl ⟨rfl, rfl, fun h => by cases h⟩)
            ⟨hr.macros, hr.mts⟩) fun r' hr' => ?_
          exact SRZ.ok ⟨hr'.macros, hr'.mts⟩
      · simp [winfreeSN, htT] at hw
    · -- no match template is written for this tag: the windows are not consulted
      have h1 : firstMatch st.mts rR tag = none := firstMatchFrom_none_notin htT st.mts 0 (fun p hp => (hs.mts p hp).1)
      have h2 : firstMatch st.mts rS tag = none := firstMatchFrom_none_notin htT st.mts 0 (fun p hp => (hs.mts p hp).1)
      rw [h1, h2]
      dsimp only
      simp only [htT, decide_false, Bool.or_false] at hz
      have hc' : CoupS z rR rS (winfreeSL T body) := by
        rcases hc with h | hw
        · exact .inl h
        · simp only [winfreeSN, Bool.and_eq_true] at hw; exact .inr hw.2
      refine SRZ.bind (zspecL hS hJ body z rR rS st ht hz hc' hs) fun r hr => ?_
      exact SRZ.ok hr
  | .select, z, rR, rS, st, _, _, hc, hs => by
    rw [renderN_select, specN_select]
    rcases hc with ⟨he, hn, hf⟩ | hw
    · subst he
      cases st.sel with
      | nil => exact SRZ.err _
      | cons c _ =>
        have hp := plainL_ok T files (evsToNodes c) z (evsToNodes_plain c)
        exact hJ z rR rR _ st hp.1 hp.2 (.inl ⟨rfl, hn, hf⟩) hs
    · simp [winfreeSN] at hw
  | .cond c body, z, rR, rS, st, ht, hz, hc, hs => by
    rw [renderN_cond, specN_cond]
    simp only [tagsOkN] at ht
    simp only [zoneFreeSN] at hz
    cases evalCond st c with
    | fuel => exact SRZ.fuel
    | err e => exact SRZ.err e
    | ok b =>
      cases b with
      | true => exact zspecL hS hJ body z rR rS st ht hz (by simpa [winfreeSN] using hc) hs
      | false => exact SRZ.ok hs
  | .loop x xs body, z, rR, rS, st, ht, hz, hc, hs => by
    rw [renderN_loop, specN_loop]
    simp only [tagsOkN] at ht
    simp only [zoneFreeSN] at hz
    cases st.lookup xs with
    | none => exact SRZ.err _
    | some v =>
      exact loopItems_srz x (fun s h => zspecL hS hJ body z rR rS s ht hz (by simpa [winfreeSN] using hc) h) _ st hs
  | .defn m body, z, _, _, st, ht, hz, _, hs => by
    simp only [tagsOkN] at ht
    simp only [zoneFreeSN] at hz
    rw [renderN_defn]
    show SRZ T files _ (Res.ok ([], { st with macros := (m, body) :: st.macros }))
    refine SRZ.ok ⟨?_, hs.mts⟩
    intro p hp
    cases hp with
    | head => exact ⟨ht, hz⟩
    | tail _ h => exact hs.macros p h
  | .call m, z, rR, rS, st, _, hz, hc, hs => by
    rw [renderN_call, specN_call]
    simp only [zoneFreeSN, Bool.not_eq_true'] at hz
    subst hz
    rcases hc with ⟨he, hn, hf⟩ | hw
    · subst he
      cases hm : st.macros.lookup m with
      | some body =>
        have hb := hs.macros (m, body) (lookup_mem hm)
        exact hJ false rR rR body st hb.1 hb.2 (.inl ⟨rfl, hn, hf⟩) hs
      | none => cases st.lookup m <;> exact SRZ.err _
    · simp [winfreeSN] at hw
  | .matchT tag body, z, _, _, st, ht, hz, _, hs => by
    simp only [tagsOkN, Bool.and_eq_true, decide_eq_true_eq] at ht
    simp only [zoneFreeSN] at hz
    rw [renderN_matchT]
    show SRZ T files _ (Res.ok ([], { st with mts := st.mts ++ [(tag, body)] }))
    refine SRZ.ok ⟨hs.macros, ?_⟩
    intro p hp
    rcases List.mem_append.mp hp with h | h
    · exact hs.mts p h
    · simp only [List.mem_singleton] at h
      subst h
      exact ⟨ht.1, ht.2, hz⟩
  | .include (.static h) cls hasFb fb pos, z, rR, rS, st, ht, hz, hc, hs => by
    rw [renderN_include, specN_include]
    simp only [tagsOkN] at ht
    simp only [zoneFreeSN, Bool.and_eq_true, Bool.or_eq_true, Bool.not_eq_true'] at hz
    obtain ⟨hz0, hzfb⟩ := hz
    simp only [evalHref, Res.bind_ok]
    cases hres : resolve pos h with
    | none => exact SRZ.err _
    | some name =>
      simp only [loadT]
      cases hl : loadRaw files name cls with
      | fuel => exact SRZ.fuel
      | ok body =>
        simp only [Res.map_ok]
        have hfind := loadRaw_ok_find hl
        have hok := find_fileOkS hS hfind
        simp only [fileOkS, Bool.and_eq_true] at hok
        refine hJ false _ _ body st hok.1.1 hok.1.2 ?_ hs
        cases cls with
        | text => exact .inr (winfreeSL_of_textual T body hok.2)
        | markup =>
          cases z with
          | true =>
            rcases hz0 with hz0 | hz0
            · cases hz0
            · exact .inr (by simpa [zoneTargetOkS, hres, hfind] using hz0)
          | false =>
            rcases hc with ⟨he, _, hfull⟩ | hw
            · rw [← he, hfull rfl]; exact CoupS.full
            · simp [winfreeSN] at hw
      | err e =>
        simp only [Res.map_err]
        cases e with
        | notFound =>
          have hfind := loadRaw_notFound_find hl
          cases hasFb with
          | true =>
            simp only [if_true]
            refine zspecL hS hJ fb false _ _ st ht hzfb ?_ hs
            cases z with
            | true =>
              rcases hz0 with hz0 | hz0
              · cases hz0
              · exact .inr (by simpa [zoneTargetOkS, hres, hfind] using hz0)
            | false =>
              rcases hc with ⟨he, hn, hfull⟩ | hw
              · subst he
                rw [Rng.fresh_of_nomt hn, hfull rfl]; exact CoupS.full
              · simp only [winfreeSN, Bool.and_eq_true] at hw
                exact .inr hw.2
          | false => exact SRZ.err _
        | syntaxErr => exact SRZ.err _
        | undefined => exact SRZ.err _
        | unmodelled => exact SRZ.err _
  | .include (.dyn ps) cls hasFb fb pos, z, rR, rS, st, ht, hz, hc, hs => by
    rw [renderN_include, specN_include]
    simp only [tagsOkN] at ht
    simp only [zoneFreeSN, Bool.and_eq_true, Bool.or_eq_true, Bool.not_eq_true', decide_eq_true_eq] at hz
    obtain ⟨hz0, hzfb⟩ := hz
    cases evalHref st (.dyn ps) with
    | fuel => exact SRZ.fuel
    | err e => exact SRZ.err e
    | ok h =>
      simp only [Res.bind_ok]
      cases hres : resolve pos h with
      | none => exact SRZ.err _
      | some name =>
        simp only [loadT]
        -- in a zone, or inside window-independent content: the include is of a text template
        have htxt : (z = true ∨ winfreeSN T (.include (.dyn ps) cls hasFb fb pos) = true) →
            cls = .text ∧ winfreeSL T fb = true := by
          intro hh
          rcases hh with hzt | hw
          · rcases hz0 with hz0 | hz0
            · rw [hzt] at hz0; cases hz0
            · exact hz0
          · simpa [winfreeSN] using hw
        cases hl : loadRaw files name cls with
        | fuel => exact SRZ.fuel
        | ok body =>
          simp only [Res.map_ok]
          have hfind := loadRaw_ok_find hl
          have hok := find_fileOkS hS hfind
          simp only [fileOkS, Bool.and_eq_true] at hok
          refine hJ false _ _ body st hok.1.1 hok.1.2 ?_ hs
          cases cls with
          | text => exact .inr (winfreeSL_of_textual T body hok.2)
          | markup =>
            cases z with
            | true => exact absurd (htxt (.inl rfl)).1 (by simp)
            | false =>
              rcases hc with ⟨he, _, hfull⟩ | hw
              · rw [← he, hfull rfl]; exact CoupS.full
              · exact absurd (htxt (.inr hw)).1 (by simp)
        | err e =>
          simp only [Res.map_err]
          cases e with
          | notFound =>
            cases hasFb with
            | true =>
              simp only [if_true]
              refine zspecL hS hJ fb false _ _ st ht hzfb ?_ hs
              cases z with
              | true => exact .inr (htxt (.inl rfl)).2
              | false =>
                rcases hc with ⟨he, hn, hfull⟩ | hw
                · subst he
                  rw [Rng.fresh_of_nomt hn, hfull rfl]; exact CoupS.full
                · exact .inr (htxt (.inr hw)).2
            | false => exact SRZ.err _
          | syntaxErr => exact SRZ.err _
          | undefined => exact SRZ.err _
          | unmodelled => exact SRZ.err _
  | .inlined body, z, rR, rS, st, ht, hz, hc, hs => by
    rw [renderN_inlined, specN_inlined]
    simp only [tagsOkN] at ht
    simp only [zoneFreeSN] at hz
    exact hJ z rR rS body st ht hz (by simpa [winfreeSN] using hc) hs
termination_by structural n => n
theorem zspecL {T : List Name} {files : Files} (hS : inHS T files = true) {J J' : RJ} (hJ : JZ T files J J') :
    ∀ (ns : List Node) (z : Bool) (rR rS : Rng) (st : St), tagsOkL T ns = true → zoneFreeSL files T z ns = true →
      CoupS z rR rS (winfreeSL T ns) → OkStZ T files st →
      SRZ T files (renderL .runtime files J rR ns st) (specL files J' rS ns st)
  | [], _, _, _, _, _, _, _, hs => SRZ.ok hs
  | n :: ns, z, rR, rS, st, ht, hz, hc, hs => by
    rw [renderL_cons, specL_cons]
    simp only [tagsOkL, Bool.and_eq_true] at ht
    simp only [zoneFreeSL, Bool.and_eq_true] at hz
    have hc1 : CoupS z rR rS (winfreeSN T n) := by
      rcases hc with h | hw
      · exact .inl h
      · simp only [winfreeSL, Bool.and_eq_true] at hw; exact .inr hw.1
    have hc2 : CoupS z rR rS (winfreeSL T ns) := by
      rcases hc with h | hw
      · exact .inl h
      · simp only [winfreeSL, Bool.and_eq_true] at hw; exact .inr hw.2
    refine SRZ.bind (zspecN hS hJ n z rR rS st ht.1 hz.1 hc1 hs) fun r1 h1 => ?_
    refine SRZ.bind (zspecL hS hJ ns z rR rS r1.2 ht.2 hz.2 hc2 h1) fun r2 h2 => ?_
    exact SRZ.ok h2
termination_by structural ns => ns
end

theorem zspec {T : List Name} {files : Files} (hS : inHS T files = true) :
    ∀ f : Nat, JZ T files (render .runtime files f) (spec files f)
  | 0 => fun _ _ _ _ _ _ _ _ _ => SRZ.fuel
  | f + 1 => fun z rR rS ns st ht hz hc hs => by
    rw [render_succ, spec_succ]
    exact zspecL hS (zspec hS f) ns z rR rS st ht hz hc hs

end Genshi.Incl

/-
  One match template as a tree rewrite.  The specification side: replace every element at which
  the template's matcher fires (in the state it reaches along the element's ancestors) by the body
  instantiated with the element's content; leave everything else alone.  The stage of the filter
  that owns one template computes exactly this.
-/
import Genshi.Lemmas.MatchPipeline
namespace Genshi.Match
open Genshi
variable {σ : Type}

/-! ### empty windows -/

theorem scanP_nowin (e : Event) : ∀ (N : List (MT σ)) (v : Nat → Bool), (∀ p, v p = false) → scanP v e N = (N, none) := by
  intro N
  induction N with
  | nil => intro v _; rfl
  | cons x xs ihx =>
    intro v hv
    unfold scanP
    simp only [hv 0, Bool.false_eq_true, ↓reduceIte]
    rw [ihx (fun p => v (p + 1)) (fun p => hv (p + 1))]
    simp

theorem mapW_nowin (g : MT σ → MT σ) : ∀ (N : List (MT σ)) (v : Nat → Bool), (∀ p, v p = false) → mapW v g N = N := by
  intro N
  induction N with
  | nil => intro v _; rfl
  | cons x xs ih => intro v hv; simp [mapW, hv 0, ih (fun p => v (p + 1)) (fun p => hv (p + 1))]

/-- a filter whose window is empty passes everything and touches nothing -/
theorem run_empty_window : ∀ (f s : Nat) (en : Option Nat) (items : List (Item σ)) (M : List (MT σ))
    (r : List (MT σ) × List Event), (∀ j, inWindow s en j = false) → NoReg items →
    run f s en items M = some r → r = (M, evs items) := by
  intro f
  induction f with
  | zero => intro s en items M r _ _ h; simp [run] at h
  | succ f ih =>
    intro s en items M r hw hnr h
    have hwin : (fun p => inWindow s en (0 + p)) = fun _ => false := by funext p; exact hw _
    cases items with
    | nil => simp [run] at h; subst h; rfl
    | cons it rest =>
      cases it with
      | reg t => exact absurd (by simp) (hnr t)
      | ev e =>
        have hnr' : NoReg rest := fun y hy => hnr y (by simp [hy])
        simp only [run] at h
        by_cases hS : isStart e = true
        · simp only [hS, ↓reduceIte] at h
          rw [scan_eq_scanP, hwin, scanP_nowin e M _ (fun _ => rfl)] at h
          simp only [Option.map_none] at h
          obtain ⟨q, hq, rfl⟩ := emit_some h
          rw [ih s en rest M q hw hnr' hq]; rfl
        · simp only [hS, Bool.false_eq_true, ↓reduceIte] at h
          by_cases hE : isEnd e = true
          · simp only [hE, ↓reduceIte] at h
            rw [scanEnd_eq_mapW, hwin, mapW_nowin _ M _ (fun _ => rfl)] at h
            obtain ⟨q, hq, rfl⟩ := emit_some h
            rw [ih s en rest M q hw hnr' hq]; rfl
          · simp only [hE, Bool.false_eq_true, ↓reduceIte] at h
            obtain ⟨q, hq, rfl⟩ := emit_some h
            rw [ih s en rest M q hw hnr' hq]; rfl

/-! ### flattened forests are closed -/

mutual
  theorem lvl_flatten : ∀ (n : Node) (d : Nat) (rest : List Event), n.ok = true →
      lvl d (n.flatten ++ rest) = lvl d rest
    | .elem t a ks, d, rest, h => by
        simp only [Node.flatten, List.cons_append, List.append_assoc, lvl, isStart, ↓reduceIte]
        rw [lvl_flattenList ks (d + 1) _ (by simpa [Node.ok] using h)]
        simp [lvl, isStart, isEnd]
    | .leaf e, d, rest, h => by
        simp only [Node.flatten, List.cons_append, List.nil_append, lvl]
        have : e.isStartEnd = false := by simpa [Node.ok] using h
        have h1 : isStart e = false := by cases e <;> simp_all [Event.isStartEnd, isStart]
        have h2 : isEnd e = false := by cases e <;> simp_all [Event.isStartEnd, isEnd]
        simp [h1, h2]
  theorem lvl_flattenList : ∀ (ns : List Node) (d : Nat) (rest : List Event), okList ns = true →
      lvl d (flattenList ns ++ rest) = lvl d rest
    | [], d, rest, _ => by simp [flattenList]
    | n :: ns, d, rest, h => by
        simp only [okList, Bool.and_eq_true] at h
        simp only [flattenList, List.append_assoc]
        rw [lvl_flatten n d _ h.1, lvl_flattenList ns d rest h.2]
end

theorem closed_flattenList (ns : List Node) (h : okList ns = true) : Closed (flattenList ns) := by
  have := lvl_flattenList ns 0 [] h
  simpa [Closed, lvl] using this

end Genshi.Match

namespace Genshi.Match
open Genshi
variable {σ : Type}

theorem scanP_none_nofire (e : Event) : ∀ (M : List (MT σ)) (w : Nat → Bool), (scanP w e M).2 = none →
    ∀ i x, M[i]? = some x → w i = true → (x.test e false).2 = false := by
  intro M
  induction M with
  | nil => intro w _ i x hx; simp at hx
  | cons t ts ih =>
    intro w h i x hx hw
    unfold scanP at h
    cases i with
    | zero =>
      simp only [List.getElem?_cons_zero, Option.some.injEq] at hx; subst hx
      simp only [hw, ↓reduceIte] at h
      cases hf : (t.test e false).2 with
      | false => rfl
      | true => simp [hf] at h
    | succ i =>
      simp only [List.getElem?_cons_succ] at hx
      by_cases hw0 : w 0 = true
      · simp only [hw0, ↓reduceIte] at h
        by_cases hf : (t.test e false).2 = true
        · simp [hf] at h
        · simp only [hf, Bool.false_eq_true, ↓reduceIte] at h
          cases hq : (scanP (fun p => w (p + 1)) e ts).2 with
          | none => exact ih _ hq i x hx hw
          | some j => rw [hq] at h; simp at h
      · simp only [hw0, Bool.false_eq_true, ↓reduceIte] at h
        cases hq : (scanP (fun p => w (p + 1)) e ts).2 with
        | none => exact ih _ hq i x hx hw
        | some j => rw [hq] at h; simp at h

/-- slot `i` holds the live template `t` (up to state, counter) in sync with the open ancestors `anc` -/
def SlotAt (i : Nat) (t : MT σ) (b : σ) (anc : List Open) (M : List (MT σ)) : Prop :=
  ∃ t', M[i]? = some t' ∧ Shape t t' ∧ t'.retired = false ∧ t'.st = openSt t.step b anc

theorem win_single (i j : Nat) : inWindow i (some (i + 1)) j = true ↔ j = i := by
  rw [inWindow_iff]
  constructor
  · intro h; have := h.2 (i + 1) rfl; omega
  · intro h; subst h; exact ⟨Nat.le_refl _, fun n hn => by cases hn; omega⟩

theorem win_empty (i j : Nat) : inWindow (i + 1) (some (i + 1)) j = false := by
  cases h : inWindow (i + 1) (some (i + 1)) j with
  | false => rfl
  | true => have := (inWindow_iff _ _ _).mp h; have h2 := this.2 (i + 1) rfl; omega

theorem win_empty' (i j : Nat) : inWindow i (some i) j = false := by
  cases h : inWindow i (some i) j with
  | false => rfl
  | true => have := (inWindow_iff _ _ _).mp h; have h2 := this.2 i rfl; omega

theorem test_live {t : MT σ} (h : t.retired = false) (e : Event) (u : Bool) :
    (t.test e u).1.st = (t.step t.st e u).1 ∧ (t.test e u).2 = (t.step t.st e u).2 ∧ (t.test e u).1.retired = false := by
  unfold MT.test; simp [h]

/-- **One template, one tree rewrite.**  The stage of the filter that owns the template of slot `i`
    (window `[i, i+1)`, the template live, without `once`, its matcher lawful) maps the flattening of
    a forest to its specification: every element at which the matcher fires — in the state it reaches
    by testing the STARTs of the element's ancestors — is replaced by the body instantiated with
    START, the rewritten content (the plain content when `recursive="false"`), END; everything else
    passes.  Afterwards the matcher is back in the state it had. -/
theorem stage_is_spec (t : MT σ) (b : σ) (i : Nat) (hl : Lawful t) (ho : t.once = false) :
    ∀ (f : Nat) (ns : List Node) (anc : List Open) (M : List (MT σ)) (r : List (MT σ) × List Event),
    okList ns = true → SlotAt i t b anc M →
    run f i (some (i + 1)) (evItems (flattenList ns)) M = some r →
    r.2 = specList t b anc ns ∧ SlotAt i t b anc r.1 := by
  intro f
  induction f with
  | zero => intro ns anc M r _ _ h; simp [run] at h
  | succ f ih =>
    intro ns anc M r hokl hslot h
    cases ns with
    | nil =>
      simp [flattenList, evItems, run] at h; subst h
      exact ⟨by simp [specList], hslot⟩
    | cons n rest =>
      simp only [okList, Bool.and_eq_true] at hokl
      obtain ⟨hn, hrestok⟩ := hokl
      cases n with
      | leaf e =>
        have hse : e.isStartEnd = false := by simpa [Node.ok] using hn
        have h1 : isStart e = false := by cases e <;> simp_all [Event.isStartEnd, isStart]
        have h2 : isEnd e = false := by cases e <;> simp_all [Event.isStartEnd, isEnd]
        simp only [flattenList, Node.flatten, List.cons_append, List.nil_append, evItems_cons, run, h1, h2,
          Bool.false_eq_true, ↓reduceIte] at h
        obtain ⟨q, hq, rfl⟩ := emit_some h
        obtain ⟨e1, e2⟩ := ih rest anc M q hrestok hslot hq
        exact ⟨by simp [specList, specNode, e1], e2⟩
      | elem tg at_ kids =>
        have hkids : okList kids = true := by simpa [Node.ok] using hn
        obtain ⟨t', ht', hsh, hret, hst⟩ := hslot
        have hstep : t'.step = t.step := hsh.1
        have hitems : (evItems (flattenList (Node.elem tg at_ kids :: rest)) : List (Item σ)) =
            .ev (Event.start tg at_) :: (evItems (flattenList kids) ++ .ev (Event.end_ tg) :: evItems (flattenList rest)) := by
          simp [flattenList, Node.flatten, evItems]
        rw [hitems] at h
        have hclk : Closed (evs (evItems (flattenList kids) : List (Item σ))) := by
          simp only [evs_evItems]; exact closed_flattenList kids hkids
        have hstrip := strip_of_closed (evItems (flattenList kids) : List (Item σ)) 0 (Event.end_ tg)
          (evItems (flattenList rest)) hclk rfl rfl
        have hlive := test_live hret (Event.start tg at_) false
        rcases run_start_cases (show isStart (Event.start tg at_) = true from rfl) h with ⟨M1, p, hsc, hp, rfl⟩ |
          ⟨M1, idx, tf, inner, tail, rest', M3, innerOut, M4, outb, p, hsc, htf, hst', h3, h4, h5, rfl⟩
        · -- the matcher does not fire here
          have hnf : (t'.test (Event.start tg at_) false).2 = false := by
            have hq : (scanP (win i (some (i + 1))) (Event.start tg at_) M).2 = none := by
              have := scan_eq_scanP_win (Event.start tg at_) i (some (i + 1)) M
              rw [hsc] at this; simp only [Prod.mk.injEq] at this; exact this.2.symm
            exact scanP_none_nofire _ M _ hq i t' ht' ((win_single i i).mpr rfl)
          have hspec : (t.step (openSt t.step b anc) (Event.start tg at_) false).2 = false := by
            have h0 : (t'.step t'.st (Event.start tg at_) false).2 = false := by rw [← hlive.2.1]; exact hnf
            rw [hst, hstep] at h0; exact h0
          have hM1 : M1[i]? = some (t'.test (Event.start tg at_) false).1 := by
            have := scan_none_get (Event.start tg at_) i (some (i + 1)) 0 M (by rw [hsc]) i
            rw [hsc] at this; simp only [Nat.zero_add] at this
            rw [this, ht']; simp [(win_single i i).mpr rfl]
          have hslot1 : SlotAt i t b ((tg, at_) :: anc) M1 :=
            ⟨_, hM1, Shape.trans hsh (test_shape t' _ _), hlive.2.2, by rw [hlive.1, hst, hstep]; rfl⟩
          obtain ⟨r1, r2, hr1, hr2, hpe⟩ := run_append f i (some (i + 1)) (evItems (flattenList kids))
            (.ev (Event.end_ tg) :: evItems (flattenList rest)) 0 M1 p hclk hp
          obtain ⟨ek1, ek2⟩ := ih kids ((tg, at_) :: anc) M1 r1 hkids hslot1 hr1
          obtain ⟨f0, rfl⟩ : ∃ f0, f = f0 + 1 := ⟨f - 1, by have := run_fuel_pos hr2; omega⟩
          simp only [run, isStart, isEnd, Bool.false_eq_true, ↓reduceIte] at hr2
          obtain ⟨q, hq, rfl⟩ := emit_some hr2
          have hq' := run_mono _ _ _ _ _ _ hq
          -- the END undoes the START
          obtain ⟨t1, ht1, hsh1, hret1, hst1⟩ := ek2
          have hlive1 := test_live hret1 (Event.end_ tg) false
          have hslotE : SlotAt i t b anc (scanEnd (Event.end_ tg) i (some (i + 1)) 0 r1.1) := by
            refine ⟨(t1.test (Event.end_ tg) false).1, ?_, Shape.trans hsh1 (test_shape t1 _ _), hlive1.2.2, ?_⟩
            · rw [scanEnd_get, ht1]; simp [(win_single i i).mpr rfl]
            · rw [hlive1.1, hst1, hsh1.1]; simp only [openSt]; exact hl _ _ _ _ _
          obtain ⟨er1, er2⟩ := ih rest anc _ q hrestok hslotE hq'
          refine ⟨?_, by rw [hpe]; exact er2⟩
          rw [hpe]
          simp only [specList, specNode, hspec, Bool.false_eq_true, ↓reduceIte, ek1, er1]
          simp
        · -- the matcher fires: the element is replaced
          rw [hstrip] at hst'
          simp only [Option.some.injEq, Prod.mk.injEq] at hst'
          obtain ⟨rfl, rfl, rfl⟩ := hst'
          obtain ⟨hwi, ⟨t0, ht0, hfire⟩, _⟩ := scan_first (Event.start tg at_) i (some (i + 1)) M idx (by rw [hsc])
          have hidx : idx = i := (win_single i idx).mp hwi
          subst hidx
          rw [ht'] at ht0; cases ht0
          have hspec : (t.step (openSt t.step b anc) (Event.start tg at_) false).2 = true := by
            have h0 : (t'.step t'.st (Event.start tg at_) false).2 = true := by rw [← hlive.2.1]; exact hfire
            rw [hst, hstep] at h0; exact h0
          obtain ⟨j, t0', hj, ht0', _, _, _, heq, _, _⟩ := scan_some_get (Event.start tg at_) idx (some (idx + 1)) 0 M idx (by rw [hsc])
          simp only [Nat.zero_add] at hj; subst hj
          rw [hsc] at heq; simp only at heq
          rw [ht'] at ht0'; cases ht0'
          rw [htf] at heq
          simp only [Option.some.injEq] at heq
          have hshf : Shape t tf := by
            rw [heq]
            exact Shape.trans hsh ⟨(test_shape t' _ false).1, (test_shape t' _ false).2.1, (test_shape t' _ false).2.2.1,
              (test_shape t' _ false).2.2.2.1, (test_shape t' _ false).2.2.2.2⟩
          have honce : tf.once = false := by rw [hshf.2.2.1]; exact ho
          have hfired : fired tf idx M1 = M1 := by unfold fired; simp [honce]
          rw [hfired] at h3
          have hslot1 : SlotAt idx t b ((tg, at_) :: anc) M1 := by
            refine ⟨tf, htf, hshf, ?_, ?_⟩
            · rw [heq]; exact hlive.2.2
            · rw [heq]; simp only; rw [hlive.1, hst, hstep]; rfl
          -- the content
          have hinner : innerOut = (if t.recursive then specList t b ((tg, at_) :: anc) kids else flattenList kids) ∧
              SlotAt idx t b ((tg, at_) :: anc) M3 := by
            by_cases hrec : t.recursive = true
            · have hpe : preEnd tf idx = idx + 1 := by unfold preEnd; simp [hshf.2.2.2.1, hrec]
              rw [hpe] at h3
              obtain ⟨e1, e2⟩ := ih kids ((tg, at_) :: anc) M1 (M3, innerOut) hkids hslot1 h3
              simp only at e1 e2
              exact ⟨by simp [hrec, e1], e2⟩
            · have hrec' : t.recursive = false := by simpa using hrec
              have hpe : preEnd tf idx = idx := by unfold preEnd; simp [hshf.2.2.2.1, hrec', honce]
              rw [hpe] at h3
              have := run_empty_window _ _ _ _ _ _ (win_empty' idx) (noReg_evItems _) h3
              simp only [Prod.mk.injEq, evs_evItems] at this
              obtain ⟨hM3, hio⟩ := this
              rw [hM3]
              exact ⟨by simp [hrec', hio], hslot1⟩
          obtain ⟨hio, hslot3⟩ := hinner
          -- the body is matched against no template of this stage
          have hb := run_empty_window _ _ _ _ _ _ (win_empty idx) (noReg_evItems _) h4
          simp only [Prod.mk.injEq, evs_evItems] at hb
          obtain ⟨hM4, houtb⟩ := hb
          rw [hM4] at h5
          -- the END undoes the START
          obtain ⟨t3, ht3, hsh3, hret3, hst3⟩ := hslot3
          have hlive3 := test_live hret3 (Event.end_ tg) true
          have hslot5 : SlotAt idx t b anc (updRange (Event.end_ tg) idx (idx + 1) 0 M3) := by
            refine ⟨(t3.test (Event.end_ tg) true).1, ?_, Shape.trans hsh3 (test_shape t3 _ _), hlive3.2.2, ?_⟩
            · rw [updRange_get, ht3]; simp
            · rw [hlive3.1, hst3, hsh3.1]; simp only [openSt]; exact hl _ _ _ _ _
          obtain ⟨er1, er2⟩ := ih rest anc _ p hrestok hslot5 h5
          refine ⟨?_, er2⟩
          simp only [specList, specNode, hspec, ↓reduceIte, er1, houtb, hshf.2.1, hio]
          simp

end Genshi.Match

namespace Genshi.Match
open Genshi
variable {σ : Type}

/-! ### select() on trees -/

/-- does the single step of the select path accept this child? -/
def Sel.keeps (s : Sel) : Node → Bool
  | .leaf e => s.nodeTest e
  | .elem t a _ => s.nodeTest (.start t a)

/-- below the depth the step looks at, nothing is selected -/
theorem selM_skip (s : Sel) : ∀ (mid : List Event) (j j' d : Nat) (rest : List Event),
    s.depth < d → lvl j mid = some j' → selM s (d + j) 0 (mid ++ rest) = selM s (d + j') 0 rest := by
  intro mid
  induction mid with
  | nil => intro j j' d rest _ h; simp [lvl] at h; subst h; rfl
  | cons e es ih =>
    intro j j' d rest hd h
    simp only [lvl] at h
    have hne : ¬ (d + j = s.depth ∧ s.nodeTest e = true) := by omega
    by_cases hs : isStart e = true
    · simp only [hs, ↓reduceIte] at h
      simp only [List.cons_append, selM, hs, ↓reduceIte]
      rw [if_neg hne, show d + j + 1 = d + (j + 1) by omega]
      exact ih (j + 1) j' d rest hd h
    · simp only [hs, Bool.false_eq_true, ↓reduceIte] at h
      by_cases he : isEnd e = true
      · simp only [he, ↓reduceIte] at h
        cases j with
        | zero => simp at h
        | succ j =>
          simp only at h
          simp only [List.cons_append, selM, hs, he, Bool.false_eq_true, ↓reduceIte]
          rw [show d + (j + 1) - 1 = d + j by omega]
          exact ih j j' d rest hd h
      · simp only [he, Bool.false_eq_true, ↓reduceIte] at h
        simp only [List.cons_append, selM, hs, he, Bool.false_eq_true, ↓reduceIte]
        rw [if_neg hne]
        exact ih j j' d rest hd h

theorem selM_children (s : Sel) (hs1 : s.depth = 1) : ∀ (kids : List Node) (rest : List Event), okList kids = true →
    selM s 1 0 (flattenList kids ++ rest) = flattenList (kids.filter s.keeps) ++ selM s 1 0 rest := by
  intro kids
  induction kids with
  | nil => intro rest _; simp [flattenList]
  | cons k ks ih =>
    intro rest hok
    simp only [okList, Bool.and_eq_true] at hok
    obtain ⟨hk, hks⟩ := hok
    cases k with
    | leaf e =>
      have hse : e.isStartEnd = false := by simpa [Node.ok] using hk
      have h1 : isStart e = false := by cases e <;> simp_all [Event.isStartEnd, isStart]
      have h2 : isEnd e = false := by cases e <;> simp_all [Event.isStartEnd, isEnd]
      simp only [flattenList, Node.flatten, List.cons_append, List.nil_append, selM, h1, h2, Bool.false_eq_true, ↓reduceIte,
        List.filter_cons, Sel.keeps]
      by_cases hn : s.nodeTest e = true
      · simp [hn, hs1, ih rest hks, flattenList, Node.flatten]
      · simp [hn, hs1, ih rest hks]
    | elem tg at_ gk =>
      have hgk : okList gk = true := by simpa [Node.ok] using hk
      have hcl := lvl_flattenList gk 0 [] hgk
      simp only [List.append_nil, lvl] at hcl
      simp only [flattenList, Node.flatten, List.cons_append, List.append_assoc, selM, isStart, ↓reduceIte,
        List.filter_cons, Sel.keeps]
      by_cases hn : s.nodeTest (Event.start tg at_) = true
      · rw [if_pos ⟨hs1.symm, hn⟩]
        have := selM_copy s (flattenList gk) 0 0 2 0 (Event.end_ tg :: (flattenList ks ++ rest)) hcl
        simp only [Nat.add_zero] at this
        simp only [hn, ↓reduceIte, flattenList, Node.flatten, List.cons_append, List.append_assoc, List.nil_append,
          Nat.reduceAdd]
        rw [this]
        simp only [selM, isStart, isEnd, Bool.false_eq_true, ↓reduceIte, Nat.add_one_sub_one, Nat.reduceSub]
        rw [ih rest hks]
      · rw [if_neg (by intro h; exact hn h.2)]
        have := selM_skip s (flattenList gk) 0 0 2 (Event.end_ tg :: (flattenList ks ++ rest)) (by omega) hcl
        simp only [Nat.add_zero] at this
        simp only [hn, Bool.false_eq_true, ↓reduceIte, List.nil_append, Nat.reduceAdd]
        rw [this]
        simp only [selM, isStart, isEnd, Bool.false_eq_true, ↓reduceIte, Nat.add_one_sub_one, Nat.reduceSub]
        rw [ih rest hks]

/-- **select() on a tree.**  On the content of a matched element `<tg …>kids</tg>`:
    `select('.')` is the element, and each of the child paths (`node()`, `*`, `text()`, `*|text()`,
    `name`) is the flattening of exactly the children its node test accepts, in document order. -/
theorem select_on_tree (s : Sel) (tg : QName) (at_ : AttrList) (kids : List Node) (hk : okList kids = true) :
    select s (Event.start tg at_ :: flattenList kids ++ [Event.end_ tg]) =
      if s.depth = 0 then Event.start tg at_ :: flattenList kids ++ [Event.end_ tg]
      else flattenList (kids.filter s.keeps) := by
  by_cases h0 : s.depth = 0
  · simp only [h0, ↓reduceIte]
    have : s = Sel.self := by cases s <;> simp_all [Sel.depth]
    subst this
    exact select_self rfl rfl (closed_flattenList kids hk)
  · simp only [h0, ↓reduceIte]
    have h1 : s.depth = 1 := by cases s <;> simp_all [Sel.depth]
    have hne : ¬ (0 = s.depth ∧ s.nodeTest (Event.start tg at_) = true) := by omega
    simp only [select, List.cons_append, selM, isStart, ↓reduceIte]
    rw [if_neg hne, selM_children s h1 kids [Event.end_ tg] hk]
    simp [selM, isStart, isEnd]

end Genshi.Match

/-
  C13 — statements: a node class without visitor, an operator missing from the table or a rejected
  embedded expression *anywhere* in a module body makes the generator raise (`genModule = none`).
-/
import Genshi.Lemmas.PyGenOk
namespace Genshi.Py
open Genshi.Gen

def rejectsItems : List (PyExpr × Option PyExpr) → Bool
  | [] => false
  | (c, v) :: r => rejects c || rejectsO v || rejectsItems r

mutual
/-- somewhere in the statement there is something the generator has no visitor / no table entry for -/
def rejectsS : PyStmt → Bool
  | .expr e => rejects e
  | .assign ts v => rejectsL ts || rejects v
  | .augAssign t op v => (lookup AstGen.binaryOperators op).isNone || rejects t || rejects v
  | .return_ v => rejectsO v
  | .delete ts => rejectsL ts
  | .pass_ | .break_ | .continue_ => false
  | .assert_ t m => rejects t || rejectsO m
  | .raise_ e c => rejectsO e || rejectsO c
  | .global_ _ => false
  | .import_ _ => false
  | .importFrom m _ _ => m.isNone            -- `from . import x`: `_write(None)` raises
  | .if_ t b o => rejects t || rejectsB b || rejectsB o
  | .while_ t b o => rejects t || rejectsB b || rejectsB o
  | .for_ t it b o => rejects t || rejects it || rejectsB b || rejectsB o
  | .with_ items b => rejectsItems items || rejectsB b
  | .try_ b hs o f => rejectsB b || rejectsB hs || rejectsB o || rejectsB f
  | .handler t _ b => rejectsO t || rejectsB b
  | .functionDef _ po ar va ko ka body decos ret _ =>
      rejectsL po || rejectsL ar || rejectsO va || rejectsL ko || rejectsO ka || rejectsB body || rejectsL decos || rejectsO ret
  | .classDef _ bases kws body decos _ => rejectsL bases || rejectsL kws || rejectsB body || rejectsL decos
  | .unsupported k => !hasVisitor k
def rejectsB : List PyStmt → Bool
  | [] => false
  | s :: ss => rejectsS s || rejectsB ss
end

theorem items_not_rejects (items : List (PyExpr × Option PyExpr))
    (h : items.all (fun i => genOk i.1 && genOkOpt i.2) = true) : rejectsItems items = false := by
  induction items with
  | nil => rfl
  | cons x r ih =>
    obtain ⟨c, v⟩ := x
    simp only [List.all_cons, Bool.and_eq_true] at h
    simp [rejectsItems, genOk_not_rejects c h.1.1, genOkO_not_rejects v h.1.2, ih h.2]

mutual
theorem genOkS_not_rejectsS : ∀ (s : PyStmt), genOkS s = true → rejectsS s = false
  | .expr e, h => by simp only [genOkS, Bool.and_eq_true] at h; simp [rejectsS, genOk_not_rejects e h.2]
  | .assign ts v, h => by
      simp only [genOkS, Bool.and_eq_true] at h; simp [rejectsS, genOkL_not_rejects ts h.1.2, genOk_not_rejects v h.2]
  | .augAssign t op v, h => by
      simp only [genOkS, Bool.and_eq_true] at h
      simp [rejectsS, genOk_not_rejects t h.1.2, genOk_not_rejects v h.2, h.1.1.2]
  | .return_ v, h => by simp only [genOkS, Bool.and_eq_true] at h; simp [rejectsS, genOkO_not_rejects v h.2]
  | .delete ts, h => by simp only [genOkS, Bool.and_eq_true] at h; simp [rejectsS, genOkL_not_rejects ts h.2]
  | .pass_, _ => rfl
  | .break_, _ => rfl
  | .continue_, _ => rfl
  | .assert_ t m, h => by
      simp only [genOkS, Bool.and_eq_true] at h; simp [rejectsS, genOk_not_rejects t h.1.2, genOkO_not_rejects m h.2]
  | .raise_ e c, h => by
      simp only [genOkS, Bool.and_eq_true] at h; simp [rejectsS, genOkO_not_rejects e h.1.2, genOkO_not_rejects c h.2]
  | .global_ _, _ => rfl
  | .import_ _, _ => rfl
  | .importFrom m _ _, h => by
      simp only [genOkS, Bool.and_eq_true] at h
      cases m <;> simp_all [rejectsS]
  | .if_ t b o, h => by
      simp only [genOkS, Bool.and_eq_true] at h
      simp [rejectsS, genOk_not_rejects t h.1.1.2, genOkB_not_rejectsB b h.1.2, genOkB_not_rejectsB o h.2]
  | .while_ t b o, h => by
      simp only [genOkS, Bool.and_eq_true] at h
      simp [rejectsS, genOk_not_rejects t h.1.1.2, genOkB_not_rejectsB b h.1.2, genOkB_not_rejectsB o h.2]
  | .for_ t it b o, h => by
      simp only [genOkS, Bool.and_eq_true] at h
      simp [rejectsS, genOk_not_rejects t h.1.1.1.2, genOk_not_rejects it h.1.1.2, genOkB_not_rejectsB b h.1.2,
        genOkB_not_rejectsB o h.2]
  | .with_ items b, h => by
      simp only [genOkS, Bool.and_eq_true] at h
      simp [rejectsS, items_not_rejects items h.1.2, genOkB_not_rejectsB b h.2]
  | .try_ b hs o f, h => by
      simp only [genOkS, Bool.and_eq_true] at h
      simp [rejectsS, genOkB_not_rejectsB b h.1.1.1.2, genOkB_not_rejectsB hs h.1.1.2, genOkB_not_rejectsB o h.1.2,
        genOkB_not_rejectsB f h.2]
  | .handler t _ b, h => by
      simp only [genOkS, Bool.and_eq_true] at h
      simp [rejectsS, genOkO_not_rejects t h.1.2, genOkB_not_rejectsB b h.2]
  | .functionDef _ po ar va ko ka body decos ret _, h => by
      simp only [genOkS, Bool.and_eq_true] at h
      obtain ⟨⟨⟨⟨⟨⟨⟨⟨⟨_, _⟩, h1⟩, h2⟩, h3⟩, h4⟩, h5⟩, h6⟩, h7⟩, h8⟩ := h
      simp [rejectsS, genOkL_not_rejects po h1, genOkL_not_rejects ar h2, genOkO_not_rejects va h3, genOkL_not_rejects ko h4,
        genOkO_not_rejects ka h5, genOkB_not_rejectsB body h6, genOkL_not_rejects decos h7, genOkO_not_rejects ret h8]
  | .classDef _ bases kws body decos _, h => by
      simp only [genOkS, Bool.and_eq_true] at h
      simp [rejectsS, genOkL_not_rejects bases h.1.1.1.2, genOkL_not_rejects kws h.1.1.2, genOkB_not_rejectsB body h.1.2,
        genOkL_not_rejects decos h.2]
  | .unsupported k, h => by simp only [genOkS] at h; simp [rejectsS, h]
theorem genOkB_not_rejectsB : ∀ (ss : List PyStmt), genOkBody ss = true → rejectsB ss = false
  | [], _ => rfl
  | s :: ss, h => by
      simp only [genOkBody, Bool.and_eq_true] at h
      simp [rejectsB, genOkS_not_rejectsS s h.1, genOkB_not_rejectsB ss h.2]
end

end Genshi.Py

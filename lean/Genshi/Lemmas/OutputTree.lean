/-
  Helper lemmas for C08: what the filter chain (EmptyTagFilter, lite
  NamespaceFlattener, no whitespace filter, no doctype option) delivers for the
  flattening of a namespace-free forest — an explicit function of the forest.
-/
import Genshi.Model.OutputPipeline
import Genshi.Lemmas.Core
namespace Genshi.Output
open Genshi

/-! ### EmptyTagFilter on a forest -/

mutual
  /-- the events of a tree with childless elements merged into EMPTY -/
  def treeQ : Node → List QEv
    | .elem t a ks => if ks.isEmpty then [.empty t a] else .start t a :: (forestQ ks ++ [.end_ t])
    | .leaf e => [ofEvent e]
  def forestQ : List Node → List QEv
    | [] => []
    | n :: ns => treeQ n ++ forestQ ns
end

theorem emptyTag_none_nonstart (e : Event) (es : Stream) (h : e.isStartEnd = false) :
    emptyTag none (e :: es) = ofEvent e :: emptyTag none es := by
  cases e <;> simp_all [Event.isStartEnd, emptyTag]

theorem emptyTag_some_nonend (t : QName) (a : AttrList) (e : Event) (es : Stream)
    (h : ∀ t', e ≠ .end_ t') :
    emptyTag (some (t, a)) (e :: es) = .start t a :: emptyTag none (e :: es) := by
  cases e with
  | end_ t' => exact absurd rfl (h t')
  | start t' a' => simp [emptyTag]
  | _ => simp [emptyTag]

/-- the first event of a non-empty well-formed forest is not an END -/
theorem flattenList_head (n : Node) (ns : List Node) (h : n.ok = true) :
    ∃ e es, flattenList (n :: ns) = e :: es ∧ ∀ t', e ≠ .end_ t' := by
  cases n with
  | elem t a ks =>
    exact ⟨.start t a, (flattenList ks ++ [.end_ t]) ++ flattenList ns, by simp [flattenList, Node.flatten],
      by intro t' h; cases h⟩
  | leaf e =>
    refine ⟨e, flattenList ns, by simp [flattenList, Node.flatten], ?_⟩
    intro t' he
    subst he
    simp [Node.ok, Event.isStartEnd] at h

mutual
  theorem emptyTag_tree : ∀ (n : Node) (rest : Stream), n.ok = true →
      emptyTag none (n.flatten ++ rest) = treeQ n ++ emptyTag none rest
    | .elem t a ks, rest, h => by
        have hk : okList ks = true := by simpa [Node.ok] using h
        cases ks with
        | nil => simp [Node.flatten, flattenList, treeQ, emptyTag]
        | cons k ks' =>
          have hk1 : k.ok = true := by simp only [okList, Bool.and_eq_true] at hk; exact hk.1
          obtain ⟨e, es, he, hne⟩ := flattenList_head k ks' hk1
          have ih := emptyTag_forest (k :: ks') (.end_ t :: rest) hk
          simp only [Node.flatten, List.cons_append, List.append_assoc, treeQ, List.isEmpty_cons,
            Bool.false_eq_true, ↓reduceIte, List.singleton_append, List.nil_append]
          have step1 : emptyTag none (.start t a :: (flattenList (k :: ks') ++ (.end_ t :: rest))) =
              .start t a :: emptyTag none (flattenList (k :: ks') ++ (.end_ t :: rest)) := by
            rw [he]
            simp only [List.cons_append]
            rw [show emptyTag none (Event.start t a :: e :: (es ++ Event.end_ t :: rest)) =
                  emptyTag (some (t, a)) (e :: (es ++ Event.end_ t :: rest)) by simp [emptyTag]]
            exact emptyTag_some_nonend t a e _ hne
          rw [step1, ih]
          simp [emptyTag, ofEvent]
    | .leaf e, rest, h => by
        have he : e.isStartEnd = false := by simpa [Node.ok] using h
        simp only [Node.flatten, List.singleton_append, treeQ]
        exact emptyTag_none_nonstart e rest he
  theorem emptyTag_forest : ∀ (ns : List Node) (rest : Stream), okList ns = true →
      emptyTag none (flattenList ns ++ rest) = forestQ ns ++ emptyTag none rest
    | [], rest, _ => by simp [flattenList, forestQ]
    | n :: ns, rest, h => by
        simp only [okList, Bool.and_eq_true] at h
        simp only [flattenList, List.append_assoc, forestQ]
        rw [emptyTag_tree n _ h.1, emptyTag_forest ns rest h.2]
end

/-- EmptyTagFilter on a whole forest -/
theorem emptyTag_flattenList (ns : List Node) (h : okList ns = true) :
    emptyTag none (flattenList ns) = forestQ ns := by
  have := emptyTag_forest ns [] h
  simpa [emptyTag] using this

/-! ### the lite flattener on a namespace-free forest -/

/-- flattened attribute name on the lite domain -/
def fName (q : QName) : Str := if q.ns.isEmpty then q.loc else ['x', 'm', 'l', ':'] ++ q.loc

def fAttrs (a : AttrList) : FAttrs := a.map fun p => (fName p.1, p.2)

def attrNsOk (a : AttrList) : Bool := a.all fun p => p.1.ns.isEmpty || p.1.ns == xmlNs

/-- leaves the filters pass on one-to-one -/
def leafF : Event → Option FEv
  | .text s f => some (.text s f)
  | .comment s => some (.comment s)
  | .pi t d => some (.pi t d)
  | .doctype n p q => some (.doctype n p q)
  | .xmlDecl v e q => some (.xmlDecl v e q)
  | .startCdata => some .startCdata
  | .endCdata => some .endCdata
  | _ => none

mutual
  /-- no element namespace, attribute namespaces none or XML, no namespace events -/
  def nsFree : Node → Bool
    | .elem t a ks => t.ns.isEmpty && attrNsOk a && forestNsFree ks
    | .leaf e => (leafF e).isSome
  def forestNsFree : List Node → Bool
    | [] => true
    | n :: ns => nsFree n && forestNsFree ns
end

mutual
  /-- what reaches the main loop for a tree -/
  def treeF : Node → List FEv
    | .elem t a ks =>
        if ks.isEmpty then [.empty t.loc (fAttrs a)]
        else .start t.loc (fAttrs a) :: (forestF ks ++ [.end_ t.loc])
    | .leaf e => (leafF e).toList
  def forestF : List Node → List FEv
    | [] => []
    | n :: ns => treeF n ++ forestF ns
end

theorem flatAttrs_nsOk (a : AttrList) (h : attrNsOk a = true) : flatAttrs a = some (fAttrs a) := by
  induction a with
  | nil => rfl
  | cons p ps ih =>
    simp only [attrNsOk, List.all_cons, Bool.and_eq_true] at h
    have ih' := ih (by simpa [attrNsOk] using h.2)
    have hp : flatAttr p = some (fName p.1, p.2) := by
      unfold flatAttr fName
      by_cases h1 : p.1.ns.isEmpty = true
      · simp [h1]
      · have h2 : p.1.ns = xmlNs := by simpa [h1] using h.1
        have hx : ¬ xmlNs = [] := by decide
        simp [h2, hx]
    simp [flatAttrs, hp, ih', fAttrs]

/-- the flattener state between the events of a namespace-free forest: nothing bound, nothing
    pending, nothing cached; only the stack of open element names varies -/
def cleanSt (elems : List (Str × Nat)) : FlatSt := ⟨[], none, elems, []⟩

theorem flatStartCore_nsFree (t : QName) (a : AttrList) (ht : t.ns.isEmpty = true) (ha : attrNsOk a = true) :
    flatStartCore [] none t a = some ([], t.loc, fAttrs a) := by
  have ht' : t.ns = [] := by simpa using ht
  have hx : ¬ (([] : Str) = xmlNs) := by decide
  simp [flatStartCore, flatD1, flatD2, ht', hx, defaultNs, flatAttrs_nsOk a ha]

theorem flatten_cons_some (c : Bool) (st : FlatSt) (ev : QEv) (rest : List QEv) (r : FlatSt × List FEv)
    (h : flatStep c st ev = some r) :
    flatten c st (ev :: rest) = (flatten c r.1 rest).map (r.2 ++ ·) := by
  simp only [flatten, h]
  cases flatten c r.1 rest <;> simp

mutual
  theorem flatten_tree : ∀ (n : Node) (rest : List QEv) (E : List (Str × Nat)), nsFree n = true →
      flatten false (cleanSt E) (treeQ n ++ rest) = (flatten false (cleanSt E) rest).map (treeF n ++ ·)
    | .elem t a ks, rest, E, h => by
        simp only [nsFree, Bool.and_eq_true] at h
        obtain ⟨⟨ht, ha⟩, hk⟩ := h
        have hcore := flatStartCore_nsFree t a ht ha
        cases ks with
        | nil =>
          have hs : flatStep false (cleanSt E) (.empty t a) = some (cleanSt E, [.empty t.loc (fAttrs a)]) := by
            simp [flatStep, flatEmptyMiss, cleanSt, hcore]
          simp only [treeQ, List.isEmpty_nil, ↓reduceIte, List.singleton_append, treeF]
          rw [flatten_cons_some false _ _ _ _ hs]
          dsimp only
          cases hf : flatten false (cleanSt E) rest <;> simp [hf]
        | cons k ks' =>
          have hs : flatStep false (cleanSt E) (.start t a) =
              some (cleanSt ((t.loc, 0) :: E), [.start t.loc (fAttrs a)]) := by
            simp [flatStep, flatStartMiss, cleanSt, hcore]
          have he : flatStep false (cleanSt ((t.loc, 0) :: E)) (.end_ t) = some (cleanSt E, [.end_ t.loc]) := by
            simp [flatStep, cleanSt]
          simp only [treeQ, List.isEmpty_cons, Bool.false_eq_true, ↓reduceIte, List.cons_append, List.append_assoc,
            List.singleton_append, treeF]
          rw [flatten_cons_some false _ _ _ _ hs, flatten_forest (k :: ks') _ _ hk,
            flatten_cons_some false _ _ _ _ he]
          cases hf : flatten false (cleanSt E) rest <;> simp [hf]
    | .leaf e, rest, E, h => by
        cases e <;> simp [nsFree, leafF] at h <;>
          simp [treeQ, treeF, leafF, ofEvent, flatten, flatStep, cleanSt] <;>
          cases flatten false ⟨[], none, E, []⟩ rest <;> simp
  theorem flatten_forest : ∀ (ns : List Node) (rest : List QEv) (E : List (Str × Nat)), forestNsFree ns = true →
      flatten false (cleanSt E) (forestQ ns ++ rest) = (flatten false (cleanSt E) rest).map (forestF ns ++ ·)
    | [], rest, E, _ => by simp [forestQ, forestF]
    | n :: ns, rest, E, h => by
        simp only [forestNsFree, Bool.and_eq_true] at h
        simp only [forestQ, forestF, List.append_assoc]
        rw [flatten_tree n _ E h.1, flatten_forest ns rest E h.2]
        cases hf : flatten false (cleanSt E) rest <;> simp [hf]
end

/-- the filter chain without whitespace filter and doctype option on a namespace-free forest -/
theorem filtered_forest (m : Method) (cache dropd : Bool) (ns : List Node)
    (hok : okList ns = true) (hns : forestNsFree ns = true) :
    filtered m { strip := false, cache := false, doctype := none, dropXmlDecl := dropd } (flattenList ns) =
      some (forestF ns) := by
  have := flatten_forest ns [] [] hns
  simp only [List.append_nil, flatten, Option.map_some] at this
  simp [filtered, preFlat, withDoctype, emptyTag_flattenList ns hok, flatInit, cleanSt] at this ⊢
  exact this

end Genshi.Output

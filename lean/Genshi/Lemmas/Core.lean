/-
  Lemmas about well-nestedness shared by the stream properties.
-/
import Genshi.Model.Core
namespace Genshi

theorem balance_append (st : List QName) (a b : Stream) :
    balance st (a ++ b) = (balance st a).bind (fun st' => balance st' b) := by
  induction a generalizing st with
  | nil => simp [balance]
  | cons e es ih =>
    cases e with
    | start t at_ => simp [balance, ih]
    | end_ t =>
      cases st with
      | nil => simp [balance]
      | cons t' st => by_cases h : t = t' <;> simp [balance, h, ih]
    | _ => simp [balance, ih]

theorem wellNested_append {a b : Stream} (ha : WellNested a) (hb : WellNested b) :
    WellNested (a ++ b) := by
  unfold WellNested at *; rw [balance_append, ha]; simpa using hb

/-- a balanced segment leaves any stack as it found it -/
theorem balance_frame (a : Stream) : ∀ st st' ext, balance st a = some st' →
    balance (st ++ ext) a = some (st' ++ ext) := by
  induction a with
  | nil => intro st st' ext h; simp [balance] at h ⊢; exact h
  | cons e es ih =>
    intro st st' ext h
    cases e with
    | start t at_ =>
      simp only [balance] at h ⊢
      have := ih (t :: st) st' ext h
      simpa using this
    | end_ t =>
      cases st with
      | nil => simp [balance] at h
      | cons t' st =>
        simp only [balance, List.cons_append] at h ⊢
        by_cases ht : t = t'
        · simp only [ht, ↓reduceIte] at h ⊢; exact ih st st' ext h
        · simp [ht] at h
    | text s f => cases st <;> (simp only [balance] at h ⊢; exact ih _ st' ext h)
    | comment s => cases st <;> (simp only [balance] at h ⊢; exact ih _ st' ext h)
    | pi t d => cases st <;> (simp only [balance] at h ⊢; exact ih _ st' ext h)
    | doctype n p s => cases st <;> (simp only [balance] at h ⊢; exact ih _ st' ext h)
    | xmlDecl v e s => cases st <;> (simp only [balance] at h ⊢; exact ih _ st' ext h)
    | startNs p u => cases st <;> (simp only [balance] at h ⊢; exact ih _ st' ext h)
    | endNs p => cases st <;> (simp only [balance] at h ⊢; exact ih _ st' ext h)
    | startCdata => cases st <;> (simp only [balance] at h ⊢; exact ih _ st' ext h)
    | endCdata => cases st <;> (simp only [balance] at h ⊢; exact ih _ st' ext h)

theorem wellNested_wrap {a : Stream} (t : QName) (at_ : AttrList) (ha : WellNested a) :
    WellNested (.start t at_ :: (a ++ [.end_ t])) := by
  unfold WellNested at *
  simp only [balance]
  rw [balance_append]
  have := balance_frame a [] [] [t] ha
  simp at this
  simp [this, balance]

mutual
  def Node.ok : Node → Bool
    | .elem _ _ ks => okList ks
    | .leaf e => !e.isStartEnd
  def okList : List Node → Bool
    | [] => true
    | n :: ns => n.ok && okList ns
end

/-- removing or inserting a non START/END event does not affect nesting -/
theorem balance_skip (e : Event) (h : e.isStartEnd = false) (st : List QName) (es : Stream) :
    balance st (e :: es) = balance st es := by
  cases e <;> simp_all [Event.isStartEnd] <;> cases st <;> simp [balance]

mutual
  theorem balance_flatten : ∀ (n : Node) (st : List QName) (rest : Stream), n.ok = true →
      balance st (n.flatten ++ rest) = balance st rest
    | .elem t a ks, st, rest, h => by
        simp only [Node.flatten, List.cons_append, List.append_assoc, balance]
        rw [balance_flattenList ks (t :: st) _ (by simpa [Node.ok] using h)]
        simp [balance]
    | .leaf e, st, rest, h => by
        simp only [Node.flatten, List.cons_append, List.nil_append]
        exact balance_skip e (by simpa [Node.ok] using h) st rest
  theorem balance_flattenList : ∀ (ns : List Node) (st : List QName) (rest : Stream), okList ns = true →
      balance st (flattenList ns ++ rest) = balance st rest
    | [], st, rest, _ => by simp [flattenList]
    | n :: ns, st, rest, h => by
        simp only [okList, Bool.and_eq_true] at h
        simp only [flattenList, List.append_assoc]
        rw [balance_flatten n st _ h.1, balance_flattenList ns st rest h.2]
end

/-- the flattening of a forest whose leaves are not START/END events is well nested -/
theorem wellNested_flattenList (ns : List Node) (h : okList ns = true) : WellNested (flattenList ns) := by
  unfold WellNested
  have := balance_flattenList ns [] [] h
  simpa [balance] using this

end Genshi

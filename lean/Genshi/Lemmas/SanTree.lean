/-
  C06 — the filter on the flattening of a forest is the flattening of the pruned forest:
  a dropped element disappears with its whole subtree, nothing else is lost.
-/
import Genshi.Lemmas.SanFilter
set_option linter.unusedSimpArgs false
namespace Genshi.San

/-! ### the pruned forest (specification of what survives) -/

mutual
  /-- an element that is not safe disappears with everything inside; comments and the markers of CDATA sections disappear; every
      other node stays, elements with their attributes filtered -/
  def prune (cfg : Cfg) : Node → Except Err (List Node)
    | .elem t a ks =>
      if !isSafeElem cfg t a then pure []
      else do
        let a' ← sanAttrs cfg a
        let ks' ← pruneList cfg ks
        pure [.elem t a' ks']
    | .leaf e =>
      match e with
      | .comment _ => pure []
      | .startCdata => pure []
      | .doctype n p s => if dtHasGt n p s then pure [] else pure [.leaf (.doctype n p s)]
      | .endCdata => pure []
      | .pi t d => if List.contains t '>' || List.contains d '>' then pure [] else pure [.leaf (.pi t d)]
      | e => pure [.leaf e]
  def pruneList (cfg : Cfg) : List Node → Except Err (List Node)
    | [] => pure []
    | n :: ns => do
      let a ← prune cfg n
      let b ← pruneList cfg ns
      pure (a ++ b)
end

theorem sanitizeFrom_ok_cons {cfg : Cfg} {st st' : St} {e : Event} {es out : Stream}
    (h : step cfg st e = .ok (st', out)) :
    sanitizeFrom cfg st (e :: es) = (do let rest ← sanitizeFrom cfg st' es; pure (out ++ rest)) := by
  conv => lhs; unfold sanitizeFrom
  simp [h]

@[simp] theorem error_bind {ε α β} (e : ε) (f : α → Except ε β) : (Except.error e >>= f) = .error e := rfl

theorem flattenList_append (p q : List Node) : flattenList (p ++ q) = flattenList p ++ flattenList q := by
  induction p with
  | nil => simp [flattenList]
  | cons n ns ih => simp [flattenList, ih]

theorem bind_pure_nil (x : Except Err Stream) : (do let r ← x; pure ([] ++ r)) = x := by
  cases x <;> rfl

/-! ### inside a dropped element nothing is emitted and the state comes back -/

theorem drop_leaf (cfg : Cfg) (w : QName) (d : Nat) (e : Event) (he : e.isStartEnd = false) (rest : Stream) :
    sanitizeFrom cfg ⟨some w, d⟩ (e :: rest) = sanitizeFrom cfg ⟨some w, d⟩ rest := by
  have : step cfg ⟨some w, d⟩ e = .ok (⟨some w, d⟩, []) := by
    cases e <;> simp_all [Event.isStartEnd, step]
  rw [sanitizeFrom_ok_cons this, bind_pure_nil]

theorem beq_text_comm (a b : QName) : (a.text == b.text) = (b.text == a.text) := by
  by_cases h : a.text = b.text
  · simp [h]
  · have h' : ¬ b.text = a.text := fun e => h e.symm
    rw [beq_eq_false_iff_ne.mpr h, beq_eq_false_iff_ne.mpr h']

mutual
  theorem drop_node (cfg : Cfg) (w : QName) : ∀ (n : Node) (d : Nat) (rest : Stream), n.ok = true → 1 ≤ d →
      sanitizeFrom cfg ⟨some w, d⟩ (n.flatten ++ rest) = sanitizeFrom cfg ⟨some w, d⟩ rest
    | .elem t a ks, d, rest, hok, hd => by
      simp only [Node.flatten, List.cons_append, List.append_assoc, List.nil_append]
      have hs : step cfg ⟨some w, d⟩ (.start t a) =
          .ok (⟨some w, if (t.text == w.text) = true then d + 1 else d⟩, []) := by
        simp only [step]
        by_cases ht : (t.text == w.text) = true <;> simp [ht]
      rw [sanitizeFrom_ok_cons hs, bind_pure_nil]
      have hk := drop_list cfg w ks (if (t.text == w.text) = true then d + 1 else d) (.end_ t :: rest)
        (by simpa [Node.ok] using hok) (by split <;> omega)
      rw [hk]
      have he : step cfg ⟨some w, if (t.text == w.text) = true then d + 1 else d⟩ (.end_ t) =
          .ok (⟨some w, d⟩, []) := by
        simp only [step]
        by_cases ht : (t.text == w.text) = true
        · have ht' : (w.text == t.text) = true := by rw [beq_text_comm]; exact ht
          have hne : ¬ d = 0 := by omega
          simp [ht, ht', hne]
        · have ht' : (w.text == t.text) = false := by
            rw [beq_text_comm]; simpa using ht
          simp [ht, ht']
      rw [sanitizeFrom_ok_cons he, bind_pure_nil]
    | .leaf e, d, rest, hok, _ => by
      simp only [Node.flatten, List.cons_append, List.nil_append]
      exact drop_leaf cfg w d e (by simpa [Node.ok] using hok) rest
  theorem drop_list (cfg : Cfg) (w : QName) : ∀ (ns : List Node) (d : Nat) (rest : Stream), okList ns = true → 1 ≤ d →
      sanitizeFrom cfg ⟨some w, d⟩ (flattenList ns ++ rest) = sanitizeFrom cfg ⟨some w, d⟩ rest
    | [], d, rest, _, _ => by simp [flattenList]
    | n :: ns, d, rest, hok, hd => by
      simp only [okList, Bool.and_eq_true] at hok
      simp only [flattenList, List.append_assoc]
      rw [drop_node cfg w n d _ hok.1 hd, drop_list cfg w ns d rest hok.2 hd]
end

/-! ### outside: the output is the flattening of the pruned forest -/

theorem keep_leaf (cfg : Cfg) (e : Event) (he : e.isStartEnd = false) (rest : Stream) :
    sanitizeFrom cfg St.init (e :: rest) =
      (do let p ← prune cfg (.leaf e); let r ← sanitizeFrom cfg St.init rest; pure (flattenList p ++ r)) := by
  obtain ⟨o, ho⟩ := sanitizeFrom_ok cfg St.init rest
  cases e with
  | start t a => simp [Event.isStartEnd] at he
  | end_ t => simp [Event.isStartEnd] at he
  | comment c =>
    have : step cfg St.init (.comment c) = .ok (St.init, []) := rfl
    rw [sanitizeFrom_ok_cons this]
    simp [prune, ho, flattenList]
  | text s f =>
    have : step cfg St.init (.text s f) = .ok (St.init, [.text s f]) := rfl
    rw [sanitizeFrom_ok_cons this]; simp [prune, ho, flattenList, Node.flatten]
  | pi t d =>
    by_cases hgt : (List.contains t '>' || List.contains d '>') = true
    · have : step cfg St.init (.pi t d) = .ok (St.init, []) := by
        simp only [step, hgt, ↓reduceIte]; rfl
      rw [sanitizeFrom_ok_cons this, bind_pure_nil]
      simp only [prune, hgt, ↓reduceIte]
      simp [ho, flattenList]
    · have : step cfg St.init (.pi t d) = .ok (St.init, [.pi t d]) := by
        simp only [step, hgt, Bool.false_eq_true, ↓reduceIte]; rfl
      rw [sanitizeFrom_ok_cons this]
      simp only [prune, hgt, Bool.false_eq_true, ↓reduceIte]
      simp [ho, flattenList, Node.flatten]
  | doctype n p s =>
    by_cases hgt : dtHasGt n p s = true
    · have : step cfg St.init (.doctype n p s) = .ok (St.init, []) := by
        simp only [step, hgt, ↓reduceIte]; rfl
      rw [sanitizeFrom_ok_cons this, bind_pure_nil]
      simp only [prune, hgt, ↓reduceIte]
      simp [ho, flattenList]
    · have : step cfg St.init (.doctype n p s) = .ok (St.init, [.doctype n p s]) := by
        simp only [step, hgt, Bool.false_eq_true, ↓reduceIte]; rfl
      rw [sanitizeFrom_ok_cons this]
      simp only [prune, hgt, Bool.false_eq_true, ↓reduceIte]
      simp [ho, flattenList, Node.flatten]
  | xmlDecl v e s =>
    have : step cfg St.init (.xmlDecl v e s) = .ok (St.init, [.xmlDecl v e s]) := rfl
    rw [sanitizeFrom_ok_cons this]; simp [prune, ho, flattenList, Node.flatten]
  | startNs p u =>
    have : step cfg St.init (.startNs p u) = .ok (St.init, [.startNs p u]) := rfl
    rw [sanitizeFrom_ok_cons this]; simp [prune, ho, flattenList, Node.flatten]
  | endNs p =>
    have : step cfg St.init (.endNs p) = .ok (St.init, [.endNs p]) := rfl
    rw [sanitizeFrom_ok_cons this]; simp [prune, ho, flattenList, Node.flatten]
  | startCdata =>
    have : step cfg St.init .startCdata = .ok (St.init, []) := rfl
    rw [sanitizeFrom_ok_cons this]
    simp [prune, ho, flattenList]
  | endCdata =>
    have : step cfg St.init .endCdata = .ok (St.init, []) := rfl
    rw [sanitizeFrom_ok_cons this]
    simp [prune, ho, flattenList]

mutual
  theorem keep_node (cfg : Cfg) : ∀ (n : Node) (rest : Stream), n.ok = true →
      sanitizeFrom cfg St.init (n.flatten ++ rest) =
        (do let p ← prune cfg n; let r ← sanitizeFrom cfg St.init rest; pure (flattenList p ++ r))
    | .elem t a ks, rest, hok => by
      obtain ⟨o, ho⟩ := sanitizeFrom_ok cfg St.init rest
      simp only [Node.flatten, List.cons_append, List.append_assoc, List.nil_append]
      by_cases hs : isSafeElem cfg t a = true
      · obtain ⟨as, has⟩ := sanAttrs_ok cfg a
        have hst : step cfg St.init (.start t a) = .ok (St.init, [.start t as]) := by
          simp [step, St.init, hs, has]
        rw [sanitizeFrom_ok_cons hst]
        have hk := keep_list cfg ks (.end_ t :: rest) (by simpa [Node.ok] using hok)
        rw [hk]
        have he : step cfg St.init (.end_ t) = .ok (St.init, [.end_ t]) := rfl
        rw [sanitizeFrom_ok_cons he]
        obtain ⟨pk, hpk⟩ : ∃ pk, pruneList cfg ks = .ok pk := by
          cases hp : pruneList cfg ks with
          | ok pk => exact ⟨pk, rfl⟩
          | error e =>
            -- impossible: the filter is total, so is the pruning it equals
            have h1 := sanitizeFrom_ok cfg St.init (flattenList ks ++ (.end_ t :: rest))
            rw [hk, hp] at h1
            obtain ⟨x, hx⟩ := h1
            cases hx
        simp [prune, hs, has, hpk, ho, flattenList, Node.flatten]
      · have hst : step cfg St.init (.start t a) = .ok (⟨some t, 1⟩, []) := by
          simp [step, St.init, hs]
        rw [sanitizeFrom_ok_cons hst, bind_pure_nil]
        rw [drop_list cfg t ks 1 (.end_ t :: rest) (by simpa [Node.ok] using hok) (Nat.le_refl 1)]
        have he : step cfg ⟨some t, 1⟩ (.end_ t) = .ok (St.init, []) := by
          simp [step, St.init]
        rw [sanitizeFrom_ok_cons he, bind_pure_nil]
        simp [prune, hs, ho, flattenList]
    | .leaf e, rest, hok => by
      simp only [Node.flatten, List.cons_append, List.nil_append]
      exact keep_leaf cfg e (by simpa [Node.ok] using hok) rest
  theorem keep_list (cfg : Cfg) : ∀ (ns : List Node) (rest : Stream), okList ns = true →
      sanitizeFrom cfg St.init (flattenList ns ++ rest) =
        (do let p ← pruneList cfg ns; let r ← sanitizeFrom cfg St.init rest; pure (flattenList p ++ r))
    | [], rest, _ => by
      obtain ⟨o, ho⟩ := sanitizeFrom_ok cfg St.init rest
      simp [flattenList, pruneList, ho]
    | n :: ns, rest, hok => by
      simp only [okList, Bool.and_eq_true] at hok
      simp only [flattenList, List.append_assoc]
      rw [keep_node cfg n _ hok.1, keep_list cfg ns rest hok.2]
      obtain ⟨o, ho⟩ := sanitizeFrom_ok cfg St.init rest
      cases hp : prune cfg n with
      | error e => simp [pruneList, hp]
      | ok p =>
        cases hq : pruneList cfg ns with
        | error e => simp [pruneList, hp, hq]
        | ok q =>
          simp [pruneList, hp, hq, ho]
          rw [flattenList_append, List.append_assoc]
end

end Genshi.San

/-
  C19 — what `MessageBuffer.append` files for the content of a message: message forests,
  the groups of events of every element (`elemGroups`), and the proof that they are "good"
  in the sense of `Genshi/Lemmas/I18nRun.lean` when no two child elements are adjacent.
-/
import Genshi.Lemmas.I18nRunSub
namespace Genshi.I18n
open Genshi

/-- content of a message directive: text, expressions (with the parameter name they are
    bound to), elements — plain, or carrying directives (`sd = some dirs`: the element is a SUB
    event of the template stream); no comments or processing instructions -/
inductive MNode where
  | text (s : Str)
  | expr (name : Str) (id : Nat) (cm : List CodeMsg)
  | elem (sd : Option (List Dir)) (tag : QName) (attrs : TAttrs) (kids : List MNode)
  deriving Inhabited

mutual
  def MNode.flatten : MNode → TStream
    | .text s => [.text s]
    | .expr _ i cm => [.expr i cm]
    | .elem none t a ks => .start t a :: (flattenM ks ++ [.end_ t])
    | .elem (some ds) t a ks => [.sub ds (.start t a :: (flattenM ks ++ [.end_ t]))]
  def flattenM : List MNode → TStream
    | [] => []
    | n :: ns => n.flatten ++ flattenM ns
end

mutual
  /-- number of elements -/
  def MNode.size : MNode → Nat
    | .elem _ _ _ ks => sizeM ks + 1
    | _ => 0
  def sizeM : List MNode → Nat
    | [] => 0
    | n :: ns => n.size + sizeM ns
end

/-- number of child elements at this level -/
def countE : List MNode → Nat
  | [] => 0
  | .elem _ _ _ _ :: ns => countE ns + 1
  | _ :: ns => countE ns

/-- no two elements next to each other at this level; `prevE`: the previous node is an element -/
def noAdjF : Bool → List MNode → Bool
  | _, [] => true
  | prevE, .elem _ _ _ _ :: ns => !prevE && noAdjF true ns
  | _, _ :: ns => noAdjF false ns

/-! ### the parent's view of its groups while its children are appended -/

structure PV where
  closed : List (List MEv)
  cur : Option (List MEv)

def PV.groups (p : PV) : List (List MEv) := p.closed ++ p.cur.toList

def PV.addEv (p : PV) (e : MEv) : PV :=
  match p.cur with
  | some g => { p with cur := some (g ++ [e]) }
  | none => { p with cur := some [e] }

def PV.close (p : PV) : PV :=
  match p.cur with
  | some g => ⟨p.closed ++ [g], none⟩
  | none => p

def pvFeed (p : PV) : List MNode → PV
  | [] => p
  | .text s :: ns => pvFeed (p.addEv (.ev (.text (escBrackets s)))) ns
  | .expr _ i cm :: ns => pvFeed (p.addEv (.ev (.expr i cm))) ns
  | .elem _ _ _ _ :: ns => pvFeed p.close ns

/-- the groups `MessageBuffer` files for an element with children `ks` -/
def elemGroups (t : QName) (a : TAttrs) (ks : List MNode) : List (List MEv) :=
  ((pvFeed ⟨[], some [.ev (.start t a)]⟩ ks).addEv (.ev (.end_ t))).groups

/-! ### what such groups emit -/

def MEv.textual : MEv → Bool
  | .ev (.text _) => true
  | .ev (.expr _ _) => true
  | _ => false

def textualG (g : List MEv) : Bool := g.all MEv.textual

theorem textual_simple (x : MEv) (h : x.textual = true) : x.simple = true := by
  cases x with
  | ev e => cases e <;> simp_all [MEv.textual, MEv.simple]
  | _ => simp [MEv.textual] at h

theorem textualG_simple (g : List MEv) (h : textualG g = true) : simpleG g = true := by
  simp only [textualG, simpleG, List.all_eq_true] at *
  exact fun x hx => textual_simple x (h x hx)

theorem tags_textual : ∀ g : List MEv, textualG g = true → tags g = []
  | [], _ => rfl
  | .ev (.text _) :: g, h => by simp only [tags]; exact tags_textual g (by simpa [textualG, MEv.textual] using h)
  | .ev (.expr _ _) :: g, h => by simp only [tags]; exact tags_textual g (by simpa [textualG, MEv.textual] using h)
  | .ev (.start _ _) :: _, h => by simp [textualG, MEv.textual] at h
  | .ev (.end_ _) :: _, h => by simp [textualG, MEv.textual] at h
  | .ev (.exec _) :: _, h => by simp [textualG, MEv.textual] at h
  | .ev (.sub _ _) :: _, h => by simp [textualG, MEv.textual] at h
  | .ev (.other _) :: _, h => by simp [textualG, MEv.textual] at h
  | .subStart :: _, h => by simp [textualG, MEv.textual] at h
  | .subEnd :: _, h => by simp [textualG, MEv.textual] at h

theorem tags_textual_end (t : QName) : ∀ g : List MEv, textualG g = true → tags (g ++ [.ev (.end_ t)]) = [.end_ t]
  | [], _ => rfl
  | .ev (.text _) :: g, h => by
      simp only [List.cons_append, tags]; exact tags_textual_end t g (by simpa [textualG, MEv.textual] using h)
  | .ev (.expr _ _) :: g, h => by
      simp only [List.cons_append, tags]; exact tags_textual_end t g (by simpa [textualG, MEv.textual] using h)
  | .ev (.start _ _) :: _, h => by simp [textualG, MEv.textual] at h
  | .ev (.end_ _) :: _, h => by simp [textualG, MEv.textual] at h
  | .ev (.exec _) :: _, h => by simp [textualG, MEv.textual] at h
  | .ev (.sub _ _) :: _, h => by simp [textualG, MEv.textual] at h
  | .ev (.other _) :: _, h => by simp [textualG, MEv.textual] at h
  | .subStart :: _, h => by simp [textualG, MEv.textual] at h
  | .subEnd :: _, h => by simp [textualG, MEv.textual] at h

/-- a group of text and expressions emits just the string -/
theorem groupOut_textual (e : List TEvent) : ∀ g : List MEv, textualG g = true → groupOut e g = e
  | [], _ => rfl
  | .ev (.text _) :: g, h => by
      simp [groupOut, tags_textual g (by simpa [textualG, MEv.textual] using h)]
  | .ev (.expr _ _) :: g, h => by
      simp only [groupOut]; exact groupOut_textual e g (by simpa [textualG, MEv.textual] using h)
  | .ev (.start _ _) :: _, h => by simp [textualG, MEv.textual] at h
  | .ev (.end_ _) :: _, h => by simp [textualG, MEv.textual] at h
  | .ev (.exec _) :: _, h => by simp [textualG, MEv.textual] at h
  | .ev (.sub _ _) :: _, h => by simp [textualG, MEv.textual] at h
  | .ev (.other _) :: _, h => by simp [textualG, MEv.textual] at h
  | .subStart :: _, h => by simp [textualG, MEv.textual] at h
  | .subEnd :: _, h => by simp [textualG, MEv.textual] at h

theorem groupOut_textual_end (e : List TEvent) (t : QName) : ∀ g : List MEv, textualG g = true →
    groupOut e (g ++ [.ev (.end_ t)]) = e ++ [.end_ t]
  | [], _ => by simp [groupOut, tags]
  | .ev (.text _) :: g, h => by
      simp [groupOut, tags_textual_end t g (by simpa [textualG, MEv.textual] using h)]
  | .ev (.expr _ _) :: g, h => by
      simp only [List.cons_append, groupOut]
      exact groupOut_textual_end e t g (by simpa [textualG, MEv.textual] using h)
  | .ev (.start _ _) :: _, h => by simp [textualG, MEv.textual] at h
  | .ev (.end_ _) :: _, h => by simp [textualG, MEv.textual] at h
  | .ev (.exec _) :: _, h => by simp [textualG, MEv.textual] at h
  | .ev (.sub _ _) :: _, h => by simp [textualG, MEv.textual] at h
  | .ev (.other _) :: _, h => by simp [textualG, MEv.textual] at h
  | .subStart :: _, h => by simp [textualG, MEv.textual] at h
  | .subEnd :: _, h => by simp [textualG, MEv.textual] at h

theorem groupOut_start_textual (e : List TEvent) (t : QName) (a : TAttrs) (g : List MEv) (h : textualG g = true) :
    groupOut e (.ev (.start t a) :: g) = .start t a :: e := by
  simp [groupOut, tags_textual g h]

theorem groupOut_start_textual_end (e : List TEvent) (t : QName) (a : TAttrs) (g : List MEv) (h : textualG g = true) :
    groupOut e (.ev (.start t a) :: (g ++ [.ev (.end_ t)])) = .start t a :: (e ++ [.end_ t]) := by
  simp [groupOut, tags_textual_end t g h]

/-- the outputs of the `m + 1` groups of an element, as a list -/
def expectedList (t : QName) (a : TAttrs) (m : Nat) (e : List TEvent) : List (List TEvent) :=
  match m with
  | 0 => [.start t a :: (e ++ [.end_ t])]
  | m + 1 => (.start t a :: e) :: (List.replicate m e ++ [e ++ [.end_ t]])


theorem expectedList_length (t : QName) (a : TAttrs) (m : Nat) (e : List TEvent) :
    (expectedList t a m e).length = m + 1 := by
  cases m <;> simp [expectedList]

theorem expectedList_getElem (t : QName) (a : TAttrs) (m : Nat) (e : List TEvent) (i : Nat)
    (h : i < (expectedList t a m e).length) : (expectedList t a m e)[i] = expectedOut t a m i e := by
  cases m with
  | zero =>
    simp only [expectedList, List.length_cons, List.length_nil] at h
    have : i = 0 := by omega
    subst this
    simp [expectedList, expectedOut]
  | succ m =>
    simp only [expectedList_length] at h
    cases i with
    | zero => simp [expectedList, expectedOut]
    | succ i =>
      simp only [expectedList, List.getElem_cons_succ]
      by_cases hi : i < m
      · rw [List.getElem_append_left (by simpa using hi)]
        have h1 : i ≠ m := by omega
        simp [expectedOut, h1]
      · have him : i = m := by omega
        subst him
        rw [List.getElem_append_right (by simp)]
        simp [expectedOut]

/-- `j` child elements seen, `prevE` = the last node was an element -/
def FeedOK (t : QName) (a : TAttrs) (j : Nat) (prevE : Bool) (p : PV) : Prop :=
  (∀ g ∈ p.closed, simpleG g = true) ∧
  match j with
  | 0 => prevE = false ∧ p.closed = [] ∧ ∃ tx, p.cur = some (.ev (.start t a) :: tx) ∧ textualG tx = true
  | j + 1 => (∀ e, p.closed.map (groupOut e) = (.start t a :: e) :: List.replicate j e) ∧
      (if prevE then p.cur = none else ∃ tx, p.cur = some tx ∧ textualG tx = true)

def lastE : Bool → List MNode → Bool
  | b, [] => b
  | _, .elem _ _ _ _ :: ns => lastE true ns
  | _, _ :: ns => lastE false ns

theorem textualG_snoc (g : List MEv) (x : MEv) (hg : textualG g = true) (hx : x.textual = true) :
    textualG (g ++ [x]) = true := by
  simp only [textualG, List.all_append, List.all_cons, List.all_nil, Bool.and_true, Bool.and_eq_true] at *
  exact ⟨hg, hx⟩

theorem feedOK_textual (t : QName) (a : TAttrs) (j : Nat) (prevE : Bool) (p : PV) (x : MEv)
    (hx : x.textual = true) (h : FeedOK t a j prevE p) : FeedOK t a j false (p.addEv x) := by
  obtain ⟨hs, h⟩ := h
  cases j with
  | zero =>
    obtain ⟨_, hc, tx, hcur, htx⟩ := h
    refine ⟨by simpa [PV.addEv, hcur] using hs, rfl, by simpa [PV.addEv, hcur] using hc, tx ++ [x], ?_, textualG_snoc tx x htx hx⟩
    simp [PV.addEv, hcur]
  | succ j =>
    obtain ⟨hm, hcur⟩ := h
    cases prevE with
    | true =>
      simp only [↓reduceIte] at hcur
      refine ⟨by simpa [PV.addEv, hcur] using hs, by simpa [PV.addEv, hcur] using hm, ?_⟩
      simp only [Bool.false_eq_true, ↓reduceIte]
      exact ⟨[x], by simp [PV.addEv, hcur], by simp [textualG, hx]⟩
    | false =>
      simp only [Bool.false_eq_true, ↓reduceIte] at hcur
      obtain ⟨tx, hcur, htx⟩ := hcur
      refine ⟨by simpa [PV.addEv, hcur] using hs, by simpa [PV.addEv, hcur] using hm, ?_⟩
      simp only [Bool.false_eq_true, ↓reduceIte]
      exact ⟨tx ++ [x], by simp [PV.addEv, hcur], textualG_snoc tx x htx hx⟩

theorem feedOK_elem (t : QName) (a : TAttrs) (j : Nat) (p : PV) (h : FeedOK t a j false p) :
    FeedOK t a (j + 1) true p.close := by
  obtain ⟨hs, h⟩ := h
  cases j with
  | zero =>
    obtain ⟨_, hc, tx, hcur, htx⟩ := h
    refine ⟨?_, ?_, ?_⟩
    · intro g hg
      simp only [PV.close, hcur, hc, List.nil_append, List.mem_cons, List.not_mem_nil, or_false] at hg
      subst hg
      simp only [simpleG, List.all_cons, MEv.simple, Bool.true_and]
      exact textualG_simple tx htx
    · intro e
      have := groupOut_start_textual e t a tx htx
      simp [PV.close, hcur, hc, this]
    · simp [PV.close, hcur]
  | succ j =>
    obtain ⟨hm, hcur⟩ := h
    simp only [Bool.false_eq_true, ↓reduceIte] at hcur
    obtain ⟨tx, hcur, htx⟩ := hcur
    refine ⟨?_, ?_, ?_⟩
    · intro g hg
      simp only [PV.close, hcur, List.mem_append, List.mem_cons, List.not_mem_nil, or_false] at hg
      rcases hg with hg | hg
      · exact hs g hg
      · rw [hg]; exact textualG_simple tx htx
    · intro e
      simp only [PV.close, hcur, List.map_append, List.map_cons, List.map_nil, hm e, groupOut_textual e tx htx]
      rw [List.replicate_succ' (n := j)]
      simp
    · simp [PV.close, hcur]

theorem feedOK_feed (t : QName) (a : TAttrs) : ∀ (ks : List MNode) (j : Nat) (prevE : Bool) (p : PV),
    FeedOK t a j prevE p → noAdjF prevE ks = true → FeedOK t a (j + countE ks) (lastE prevE ks) (pvFeed p ks)
  | [], j, prevE, p, h, _ => by simpa [countE, lastE, pvFeed] using h
  | .text s :: ns, j, prevE, p, h, hn => by
      simp only [countE, lastE, pvFeed]
      exact feedOK_feed t a ns j false _ (feedOK_textual t a j prevE p _ rfl h) (by simpa [noAdjF] using hn)
  | .expr _ i cm :: ns, j, prevE, p, h, hn => by
      simp only [countE, lastE, pvFeed]
      exact feedOK_feed t a ns j false _ (feedOK_textual t a j prevE p _ rfl h) (by simpa [noAdjF] using hn)
  | .elem _ _ _ _ :: ns, j, prevE, p, h, hn => by
      simp only [noAdjF, Bool.and_eq_true, Bool.not_eq_true'] at hn
      obtain ⟨hp, hn⟩ := hn
      subst hp
      simp only [countE, lastE, pvFeed]
      have := feedOK_feed t a ns (j + 1) true _ (feedOK_elem t a j p h) hn
      have harith : j + (countE ns + 1) = j + 1 + countE ns := by omega
      rw [harith]; exact this

theorem feedOK_final (t : QName) (a : TAttrs) (j : Nat) (prevE : Bool) (p : PV) (h : FeedOK t a j prevE p) :
    (∀ g ∈ (p.addEv (.ev (.end_ t))).groups, simpleG g = true) ∧
    ∀ e, (p.addEv (.ev (.end_ t))).groups.map (groupOut e) = expectedList t a j e := by
  obtain ⟨hs, h⟩ := h
  cases j with
  | zero =>
    obtain ⟨_, hc, tx, hcur, htx⟩ := h
    refine ⟨?_, ?_⟩
    · intro g hg
      simp only [PV.addEv, hcur, PV.groups, hc, Option.toList_some, List.nil_append, List.mem_cons,
        List.not_mem_nil, or_false] at hg
      subst hg
      have := textualG_simple tx htx
      simp only [simpleG, List.all_eq_true] at this ⊢
      intro x hx
      simp only [List.cons_append, List.mem_cons, List.mem_append, List.not_mem_nil, or_false] at hx
      rcases hx with rfl | hx | rfl
      · rfl
      · exact this x hx
      · rfl
    · intro e
      simp [PV.addEv, hcur, PV.groups, hc, expectedList, groupOut_start_textual_end e t a tx htx]
  | succ j =>
    obtain ⟨hm, hcur⟩ := h
    cases prevE with
    | true =>
      simp only [↓reduceIte] at hcur
      refine ⟨?_, ?_⟩
      · intro g hg
        simp only [PV.addEv, hcur, PV.groups, Option.toList_some, List.mem_append, List.mem_cons,
          List.not_mem_nil, or_false] at hg
        rcases hg with hg | rfl
        · exact hs g hg
        · simp [simpleG, MEv.simple]
      · intro e
        simp [PV.addEv, hcur, PV.groups, expectedList, hm e, groupOut, tags]
    | false =>
      simp only [Bool.false_eq_true, ↓reduceIte] at hcur
      obtain ⟨tx, hcur, htx⟩ := hcur
      refine ⟨?_, ?_⟩
      · intro g hg
        simp only [PV.addEv, hcur, PV.groups, Option.toList_some, List.mem_append, List.mem_cons,
          List.not_mem_nil, or_false] at hg
        rcases hg with hg | rfl
        · exact hs g hg
        · have := textualG_simple tx htx
          simp only [simpleG, List.all_eq_true] at this ⊢
          intro x hx
          simp only [List.mem_append, List.mem_cons, List.not_mem_nil, or_false] at hx
          rcases hx with hx | rfl
          · exact this x hx
          · rfl
      · intro e
        simp [PV.addEv, hcur, PV.groups, expectedList, hm e, groupOut_textual_end e t tx htx]

/-- **the groups of an element are good** when no two of its child elements are adjacent -/
theorem elemGroups_good (t : QName) (a : TAttrs) (ks : List MNode) (h : noAdjF false ks = true) :
    GoodElem (elemGroups t a ks) t a (countE ks) := by
  have h0 : FeedOK t a 0 false ⟨[], some [.ev (.start t a)]⟩ :=
    ⟨by simp, rfl, rfl, [], rfl, rfl⟩
  have h1 := feedOK_feed t a ks 0 false _ h0 h
  simp only [Nat.zero_add] at h1
  obtain ⟨hs, hm⟩ := feedOK_final t a _ _ _ h1
  have hlen : (elemGroups t a ks).length = countE ks + 1 := by
    have := congrArg List.length (hm [])
    simpa [expectedList_length, elemGroups] using this
  refine ⟨hlen, hs, ?_⟩
  intro i hi e
  have h2 := hm e
  have hi' : i < ((elemGroups t a ks).map (groupOut e)).length := by simpa using hi
  have h3 : ((elemGroups t a ks).map (groupOut e))[i] = groupOut e (elemGroups t a ks)[i] := by simp
  rw [← h3]
  have h4 : i < (expectedList t a (countE ks) e).length := by rw [expectedList_length]; omega
  rw [← expectedList_getElem t a (countE ks) e i h4]
  simp only [elemGroups] at h2 ⊢
  simp [h2]


/-! ### forests: names, values, linearisation, element numbering -/

mutual
  /-- parameter names of the expressions, in document order -/
  def MNode.names : MNode → List Str
    | .expr n _ _ => [n]
    | .elem _ _ _ ks => namesM ks
    | .text _ => []
  def namesM : List MNode → List Str
    | [] => []
    | n :: ns => n.names ++ namesM ns
end

mutual
  /-- the bindings `MessageBuffer.values` receives, in document order -/
  def MNode.vals : MNode → List (Str × TEvent)
    | .expr n i cm => [(n, .expr i cm)]
    | .elem _ _ _ ks => valsM ks
    | .text _ => []
  def valsM : List MNode → List (Str × TEvent)
    | [] => []
    | n :: ns => n.vals ++ valsM ns
end

mutual
  /-- the message string of the content, the first element being numbered `o` -/
  def MNode.fmt (o : Nat) : MNode → Str
    | .text s => escBrackets s
    | .expr n _ _ => '%' :: '(' :: n ++ [')', 's']
    | .elem _ _ _ ks => '[' :: natStr o ++ [':'] ++ (fmtM (o + 1) ks ++ [']'])
  def fmtM (o : Nat) : List MNode → Str
    | [] => []
    | n :: ns => n.fmt o ++ fmtM (o + n.size) ns
end

mutual
  /-- element number `k` (first element = `o`, document order): tag, attributes, number of child
      elements, directives of a directive-carrying element -/
  def MNode.info (o : Nat) : MNode → Nat → Option (QName × TAttrs × Nat × Option (List Dir))
    | .elem sd t a ks, k => if k = o then some (t, a, countE ks, sd) else infoM (o + 1) ks k
    | _, _ => none
  def infoM (o : Nat) : List MNode → Nat → Option (QName × TAttrs × Nat × Option (List Dir))
    | [], _ => none
    | n :: ns, k =>
        match n.info o k with
        | some x => some x
        | none => infoM (o + n.size) ns k
end

mutual
  /-- no two adjacent elements among the children of any element -/
  def MNode.deepNoAdj : MNode → Bool
    | .elem _ _ _ ks => noAdjF false ks && deepNoAdjM ks
    | _ => true
  def deepNoAdjM : List MNode → Bool
    | [] => true
    | n :: ns => n.deepNoAdj && deepNoAdjM ns
end

mutual
  theorem MNode.info_range (o : Nat) : ∀ (n : MNode) (k : Nat) x, n.info o k = some x → o ≤ k ∧ k < o + n.size
    | .elem sd t a ks, k, x, h => by
        simp only [MNode.info] at h
        by_cases hk : k = o
        · subst hk; simp [MNode.size]
        · simp only [hk, ↓reduceIte] at h
          have := infoM_range (o + 1) ks k x h
          simp only [MNode.size]; omega
    | .text _, _, _, h => by simp [MNode.info] at h
    | .expr _ _ _, _, _, h => by simp [MNode.info] at h
  theorem infoM_range (o : Nat) : ∀ (ns : List MNode) (k : Nat) x, infoM o ns k = some x → o ≤ k ∧ k < o + sizeM ns
    | [], _, _, h => by simp [infoM] at h
    | n :: ns, k, x, h => by
        simp only [infoM] at h
        cases hn : n.info o k with
        | some y =>
          have := MNode.info_range o n k y hn
          simp only [sizeM]; omega
        | none =>
          simp only [hn] at h
          have := infoM_range (o + n.size) ns k x h
          simp only [sizeM]; omega
end

/-! ### `MessageBuffer._add_event` -/

theorem appendLast_snoc {α} (l : List (List α)) (g : List α) (x : α) :
    appendLast (l ++ [g]) x = l ++ [g ++ [x]] := by
  induction l with
  | nil => simp [appendLast]
  | cons h t ih =>
    cases t with
    | nil => simp [appendLast]
    | cons h' t' =>
      simp only [List.cons_append] at ih ⊢
      rw [appendLast]
      · rw [ih]
      · simp

theorem add_events_same (b : MB) (k : Nat) (e : MEv) (h : b.prevOrder = some k) :
    (b.add k e).events k = some (appendLast ((b.events k).getD []) e) ∧ (b.add k e).prevOrder = some k := by
  simp [MB.add, h, setGroups]

theorem add_events_new (b : MB) (k : Nat) (e : MEv) (h : b.prevOrder ≠ some k) :
    (b.add k e).events k = some ((b.events k).getD [] ++ [[e]]) ∧ (b.add k e).prevOrder = some k := by
  simp [MB.add, h, setGroups]

theorem add_events_other (b : MB) (k j : Nat) (e : MEv) (h : j ≠ k) : (b.add k e).events j = b.events j := by
  unfold MB.add; split <;> simp [setGroups, h]

theorem add_prev (b : MB) (k : Nat) (e : MEv) : (b.add k e).prevOrder = some k := by
  unfold MB.add; split <;> simp_all

@[simp] theorem add_stack (b : MB) (k : Nat) (e : MEv) : (b.add k e).stack = b.stack := by
  unfold MB.add; split <;> rfl
@[simp] theorem add_order (b : MB) (k : Nat) (e : MEv) : (b.add k e).order = b.order := by
  unfold MB.add; split <;> rfl
@[simp] theorem add_depth (b : MB) (k : Nat) (e : MEv) : (b.add k e).depth = b.depth := by
  unfold MB.add; split <;> rfl
@[simp] theorem add_str (b : MB) (k : Nat) (e : MEv) : (b.add k e).str = b.str := by
  unfold MB.add; split <;> rfl
@[simp] theorem add_params (b : MB) (k : Nat) (e : MEv) : (b.add k e).params = b.params := by
  unfold MB.add; split <;> rfl
@[simp] theorem add_values (b : MB) (k : Nat) (e : MEv) : (b.add k e).values = b.values := by
  unfold MB.add; split <;> rfl
@[simp] theorem add_subdirs (b : MB) (k : Nat) (e : MEv) : (b.add k e).subdirs = b.subdirs := by
  unfold MB.add; split <;> rfl

/-- the buffer agrees with the parent's view `p` of the groups of order `top` -/
structure Rel (b : MB) (top : Nat) (p : PV) : Prop where
  groups : (b.events top).getD [] = p.groups
  openIff : b.prevOrder = some top ↔ p.cur.isSome = true

theorem Rel.add_top {b : MB} {top : Nat} {p : PV} (h : Rel b top p) (e : MEv) : Rel (b.add top e) top (p.addEv e) := by
  cases hc : p.cur with
  | some g =>
    have hp : b.prevOrder = some top := h.openIff.mpr (by simp [hc])
    obtain ⟨h1, h2⟩ := add_events_same b top e hp
    refine ⟨?_, ?_⟩
    · rw [h1, h.groups]; simp [PV.groups, PV.addEv, hc, appendLast_snoc]
    · simp [h2, PV.addEv, hc]
  | none =>
    have hp : b.prevOrder ≠ some top := fun hp => by have := h.openIff.mp hp; simp [hc] at this
    obtain ⟨h1, h2⟩ := add_events_new b top e hp
    refine ⟨?_, ?_⟩
    · rw [h1, h.groups]; simp [PV.groups, PV.addEv, hc]
    · simp [h2, PV.addEv, hc]

theorem PV.close_groups (p : PV) : p.close.groups = p.groups := by
  cases p with
  | mk closed cur =>
    cases cur with
    | none => rfl
    | some g => simp [PV.close, PV.groups]

theorem PV.close_cur (p : PV) : p.close.cur = none := by
  cases p with
  | mk closed cur =>
    cases cur with
    | none => rfl
    | some g => rfl

theorem Rel.add_other {b : MB} {top : Nat} {p : PV} (h : Rel b top p) (k : Nat) (hk : k ≠ top) (e : MEv) :
    Rel (b.add k e) top p.close := by
  refine ⟨?_, ?_⟩
  · rw [add_events_other b k top e (Ne.symm hk), h.groups, PV.close_groups]
  · rw [add_prev, PV.close_cur]
    simp [hk]

/-- fields that only change through `_add_event` keep the relation -/
theorem Rel.congr {b b' : MB} {top : Nat} {p : PV} (h : Rel b top p) (he : b'.events = b.events)
    (hp : b'.prevOrder = b.prevOrder) : Rel b' top p :=
  ⟨by rw [he]; exact h.groups, by rw [hp]; exact h.openIff⟩


/-! ### appending a forest -/

structure Inv (b : MB) : Prop where
  fresh : ∀ k, b.order ≤ k → b.events k = none
  freshSub : ∀ k, b.order ≤ k → assocGet b.subdirs k = none
  prevLt : ∀ k, b.prevOrder = some k → k < b.order
  depthPos : 0 < b.depth

/-- what appending the forest `ns` under the open element `top` does to the buffer -/
structure Post (b b' : MB) (top : Nat) (p : PV) (ns : List MNode) (rest : List Str) : Prop where
  stack : b'.stack = b.stack
  order : b'.order = b.order + sizeM ns
  depth : b'.depth = b.depth
  str : b'.str = b.str ++ fmtM b.order ns
  params : b'.params = rest
  subKeep : ∀ k, k < b.order → assocGet b'.subdirs k = assocGet b.subdirs k
  values : b'.values = (valsM ns).reverse ++ b.values
  rel : Rel b' top (pvFeed p ns)
  inv : Inv b'
  below : ∀ k, k ≠ top → k < b.order → b'.events k = b.events k
  elems : ∀ k t a c kd, infoM b.order ns k = some (t, a, c, kd) →
    ∃ gs, b'.events k = some gs ∧ GoodElemK gs kd t a c ∧ ∀ ds, kd = some ds → assocGet b'.subdirs k = some ds
  prev : b'.prevOrder = b.prevOrder ∨ b'.prevOrder = some top ∨ ∃ k, b.order ≤ k ∧ b'.prevOrder = some k

theorem mbAppendList_append (b : MB) : ∀ (x y : List TEvent),
    mbAppendList b (x ++ y) = (mbAppendList b x).bind (fun b' => mbAppendList b' y)
  | [], y => by simp [mbAppendList, Except.bind, pure, Except.pure]
  | e :: x, y => by
      simp only [List.cons_append, mbAppendList, bind]
      cases h : mbAppend b e with
      | error err => simp [Except.bind]
      | ok b1 => simp only [Except.bind]; exact mbAppendList_append b1 x y

theorem mbAppendList_single (b : MB) (e : TEvent) : mbAppendList b [e] = mbAppend b e := by
  simp only [mbAppendList, bind]
  cases mbAppend b e <;> simp [Except.bind, pure, Except.pure]

theorem pvFeed_append (p : PV) : ∀ (x y : List MNode), pvFeed p (x ++ y) = pvFeed (pvFeed p x) y
  | [], y => rfl
  | .text s :: x, y => by simp only [List.cons_append, pvFeed]; exact pvFeed_append _ x y
  | .expr _ _ _ :: x, y => by simp only [List.cons_append, pvFeed]; exact pvFeed_append _ x y
  | .elem _ _ _ _ :: x, y => by simp only [List.cons_append, pvFeed]; exact pvFeed_append _ x y

theorem add_events_is_some (b : MB) (k : Nat) (e : MEv) :
    (b.add k e).events k = some (((b.add k e).events k).getD []) := by
  unfold MB.add; split <;> simp [setGroups]

theorem assocGet_nil {β} (j : Nat) : assocGet ([] : List (Nat × β)) j = none := rfl

theorem assocGet_cons {β} (q : Nat × β) (qs : List (Nat × β)) (j : Nat) :
    assocGet (q :: qs) j = if q.1 = j then some q.2 else assocGet qs j := by
  unfold assocGet
  by_cases h : q.1 = j <;> simp [List.find?, h]

theorem assocGet_map_other (ds : List Dir) (k j : Nat) (h : j ≠ k) : ∀ (m : List (Nat × List Dir)),
    assocGet (m.map (fun p => if p.1 = k then (p.1, p.2 ++ ds) else p)) j = assocGet m j
  | [] => rfl
  | q :: qs => by
      simp only [List.map_cons, assocGet_cons]
      by_cases hq : q.1 = k
      · have hqj : ¬ q.1 = j := fun h' => h (h'.symm.trans hq)
        simp [hq, hqj, Ne.symm h, assocGet_map_other ds k j h qs]
      · by_cases hqj : q.1 = j
        · have hjk : ¬ j = k := h
          simp [hq, hqj, hjk]
        · simp [hq, hqj, assocGet_map_other ds k j h qs]

theorem assocGet_append_single {β} (k j : Nat) (v : β) : ∀ (m : List (Nat × β)),
    assocGet (m ++ [(k, v)]) j = match assocGet m j with | some x => some x | none => if k = j then some v else none
  | [] => by simp [assocGet_cons, assocGet_nil]
  | q :: qs => by
      simp only [List.cons_append, assocGet_cons]
      by_cases hq : q.1 = j
      · simp [hq]
      · simp [hq, assocGet_append_single k j v qs]

theorem assocGet_any_false {β} (k : Nat) : ∀ (m : List (Nat × β)), assocGet m k = none →
    m.any (fun p => decide (p.1 = k)) = false
  | [], _ => rfl
  | q :: qs, h => by
      rw [assocGet_cons] at h
      by_cases hq : q.1 = k
      · simp [hq] at h
      · simp only [hq, ↓reduceIte] at h
        simp [hq, assocGet_any_false k qs h]

theorem assocGet_extend_same (m : List (Nat × List Dir)) (k : Nat) (ds : List Dir) (h : assocGet m k = none) :
    assocGet (extendAssoc m k ds) k = some ds := by
  unfold extendAssoc
  simp only [assocGet_any_false k m h, Bool.false_eq_true, ↓reduceIte]
  rw [assocGet_append_single, h]
  simp

theorem assocGet_extend_other (m : List (Nat × List Dir)) (k j : Nat) (ds : List Dir) (h : j ≠ k) :
    assocGet (extendAssoc m k ds) j = assocGet m j := by
  unfold extendAssoc
  split
  · exact assocGet_map_other ds k j h m
  · rw [assocGet_append_single]
    cases assocGet m j with
    | some x => rfl
    | none => simp [Ne.symm h]

/-- the groups of a directive-carrying element -/
def subGroups (t : QName) (a : TAttrs) (ks : List MNode) : List (List MEv) :=
  (((pvFeed ⟨[], some [.subStart, .ev (.start t a)]⟩ ks).addEv (.ev (.end_ t))).addEv .subEnd).groups

/-- put `x` in front of the first group -/
def PV.prefixFirst (x : MEv) (p : PV) : PV :=
  match p.closed with
  | [] => ⟨[], p.cur.map (x :: ·)⟩
  | g :: gs => ⟨(x :: g) :: gs, p.cur⟩

theorem PV.prefixFirst_addEv (x e : MEv) (p : PV) (h : p.closed ≠ [] ∨ p.cur.isSome = true) :
    (p.prefixFirst x).addEv e = (p.addEv e).prefixFirst x := by
  obtain ⟨closed, cur⟩ := p
  cases closed with
  | nil =>
    cases cur with
    | none => simp at h
    | some g => simp [PV.prefixFirst, PV.addEv]
  | cons g gs => cases cur <;> simp [PV.prefixFirst, PV.addEv]

theorem PV.prefixFirst_close (x : MEv) (p : PV) (h : p.closed ≠ [] ∨ p.cur.isSome = true) :
    (p.prefixFirst x).close = p.close.prefixFirst x := by
  obtain ⟨closed, cur⟩ := p
  cases closed with
  | nil =>
    cases cur with
    | none => simp at h
    | some g => simp [PV.prefixFirst, PV.close]
  | cons g gs => cases cur <;> simp [PV.prefixFirst, PV.close]

theorem PV.nonempty_addEv (p : PV) (e : MEv) : (p.addEv e).closed ≠ [] ∨ (p.addEv e).cur.isSome = true := by
  right; unfold PV.addEv; cases p.cur <;> simp

theorem PV.nonempty_close (p : PV) (h : p.closed ≠ [] ∨ p.cur.isSome = true) :
    p.close.closed ≠ [] ∨ p.close.cur.isSome = true := by
  obtain ⟨closed, cur⟩ := p
  cases cur with
  | none => simpa [PV.close] using h
  | some g => left; simp [PV.close]

theorem pvFeed_prefixFirst (x : MEv) : ∀ (ks : List MNode) (p : PV), (p.closed ≠ [] ∨ p.cur.isSome = true) →
    pvFeed (p.prefixFirst x) ks = (pvFeed p ks).prefixFirst x ∧
    ((pvFeed p ks).closed ≠ [] ∨ (pvFeed p ks).cur.isSome = true)
  | [], p, h => ⟨rfl, h⟩
  | .text s :: ns, p, h => by
      simp only [pvFeed]; rw [PV.prefixFirst_addEv x _ p h]
      exact pvFeed_prefixFirst x ns _ (PV.nonempty_addEv p _)
  | .expr _ i cm :: ns, p, h => by
      simp only [pvFeed]; rw [PV.prefixFirst_addEv x _ p h]
      exact pvFeed_prefixFirst x ns _ (PV.nonempty_addEv p _)
  | .elem _ _ _ _ :: ns, p, h => by
      simp only [pvFeed]; rw [PV.prefixFirst_close x p h]
      exact pvFeed_prefixFirst x ns _ (PV.nonempty_close p h)

theorem PV.prefixFirst_groups (x : MEv) (p : PV) (h : p.closed ≠ [] ∨ p.cur.isSome = true) :
    (p.prefixFirst x).groups = mapFirst (x :: ·) p.groups := by
  obtain ⟨closed, cur⟩ := p
  cases closed with
  | nil =>
    cases cur with
    | none => simp at h
    | some g => simp [PV.prefixFirst, PV.groups, mapFirst]
  | cons g gs => cases cur <;> simp [PV.prefixFirst, PV.groups, mapFirst]

theorem mapLast_snoc {α} (f : α → α) : ∀ (l : List α) (x : α), mapLast f (l ++ [x]) = l ++ [f x]
  | [], x => rfl
  | [y], x => by simp [mapLast]
  | y :: z :: l, x => by
      have := mapLast_snoc f (z :: l) x
      simp only [List.cons_append] at this ⊢
      simp [mapLast, this]

theorem PV.addEv_groups_last (p : PV) (e1 e2 : MEv) :
    ((p.addEv e1).addEv e2).groups = mapLast (· ++ [e2]) (p.addEv e1).groups := by
  obtain ⟨closed, cur⟩ := p
  cases cur with
  | none => simp [PV.addEv, PV.groups, mapLast_snoc]
  | some g => simp [PV.addEv, PV.groups, mapLast_snoc]

/-- the groups of a directive-carrying element are those of the plain element, wrapped -/
theorem subGroups_eq (ds : List Dir) (t : QName) (a : TAttrs) (ks : List MNode) :
    subGroups t a ks = wrapK (some ds) (elemGroups t a ks) := by
  have h0 : (⟨[], some [.subStart, .ev (.start t a)]⟩ : PV) = (⟨[], some [.ev (.start t a)]⟩ : PV).prefixFirst .subStart := by
    simp [PV.prefixFirst]
  obtain ⟨hfeed, hne⟩ := pvFeed_prefixFirst .subStart ks ⟨[], some [.ev (.start t a)]⟩ (Or.inr rfl)
  unfold subGroups elemGroups wrapK
  rw [h0, hfeed, PV.addEv_groups_last, PV.prefixFirst_addEv _ _ _ hne,
    PV.prefixFirst_groups _ _ (PV.nonempty_addEv _ _)]
  -- mapLast and mapFirst commute
  generalize ((pvFeed ⟨[], some [.ev (.start t a)]⟩ ks).addEv (.ev (.end_ t))).groups = gs
  cases gs with
  | nil => rfl
  | cons g rest =>
    cases rest with
    | nil => simp [mapFirst, mapLast]
    | cons g2 rest2 => simp [mapFirst, mapLast]

mutual
  theorem append_node : ∀ (n : MNode) (b : MB) (top : Nat) (st : List Nat) (p : PV) (rest : List Str),
      b.stack = top :: st → top < b.order → b.params = n.names ++ rest → Rel b top p → Inv b →
      n.deepNoAdj = true →
      ∃ b', mbAppendList b n.flatten = .ok b' ∧ Post b b' top p [n] rest
    | .text s, b, top, st, p, rest, hst, hlt, hpar, hrel, hinv, _ => by
        let b0 : MB := { b with str := b.str ++ escBrackets s }
        have hrel0 : Rel b0 top p := hrel.congr rfl rfl
        refine ⟨b0.add top (.ev (.text (escBrackets s))), ?_, ?_⟩
        · simp [MNode.flatten, mbAppendList_single, mbAppend, hst, b0, pure, Except.pure]
        · refine { stack := by simp [b0], order := by simp [b0, sizeM, MNode.size], depth := by simp [b0],
                   str := by simp [b0, fmtM, MNode.fmt], params := by simpa [b0, MNode.names] using hpar,
                   subKeep := fun k _ => by simp [b0], values := by simp [b0, valsM, MNode.vals],
                   rel := by simpa [pvFeed] using hrel0.add_top _, inv := ?_, below := ?_, elems := ?_, prev := ?_ }
          · refine ⟨fun k hk => ?_, fun k hk => ?_, fun k hk => ?_, by simpa [b0] using hinv.depthPos⟩
            · have hkt : k ≠ top := by simp only [add_order, b0] at hk; omega
              rw [add_events_other _ _ _ _ hkt]; exact hinv.fresh k (by simpa [b0] using hk)
            · simp only [add_subdirs, b0]; exact hinv.freshSub k (by simpa [b0] using hk)
            · rw [add_prev] at hk; cases hk; simpa [b0] using hlt
          · intro k hk _; rw [add_events_other _ _ _ _ hk]
          · intro k t a c kd h; simp [infoM, MNode.info] at h
          · right; left; exact add_prev _ _ _
    | .expr name i cm, b, top, st, p, rest, hst, hlt, hpar, hrel, hinv, _ => by
        simp only [MNode.names, List.cons_append, List.nil_append] at hpar
        let b0 : MB := { b with params := rest, str := b.str ++ ('%' :: '(' :: name ++ [')', 's']),
                                values := (name, .expr i cm) :: b.values }
        have hrel0 : Rel b0 top p := hrel.congr rfl rfl
        refine ⟨b0.add top (.ev (.expr i cm)), ?_, ?_⟩
        · simp [MNode.flatten, mbAppendList_single, mbAppend, hst, hpar, b0, pure, Except.pure]
        · refine { stack := by simp [b0], order := by simp [b0, sizeM, MNode.size], depth := by simp [b0],
                   str := by simp [b0, fmtM, MNode.fmt], params := by simp [b0],
                   subKeep := fun k _ => by simp [b0], values := by simp [b0, valsM, MNode.vals],
                   rel := by simpa [pvFeed] using hrel0.add_top _, inv := ?_, below := ?_, elems := ?_, prev := ?_ }
          · refine ⟨fun k hk => ?_, fun k hk => ?_, fun k hk => ?_, by simpa [b0] using hinv.depthPos⟩
            · have hkt : k ≠ top := by simp only [add_order, b0] at hk; omega
              rw [add_events_other _ _ _ _ hkt]; exact hinv.fresh k (by simpa [b0] using hk)
            · simp only [add_subdirs, b0]; exact hinv.freshSub k (by simpa [b0] using hk)
            · rw [add_prev] at hk; cases hk; simpa [b0] using hlt
          · intro k hk _; rw [add_events_other _ _ _ _ hk]
          · intro k t a c kd h; simp [infoM, MNode.info] at h
          · right; left; exact add_prev _ _ _
    | .elem sd t a ks, b, top, st, p, rest, hst, hlt, hpar, hrel, hinv, hna => by
        simp only [MNode.deepNoAdj, Bool.and_eq_true] at hna
        simp only [MNode.names] at hpar
        let o := b.order
        -- what comes in front of START: nothing, or SUB_START and the directives
        let pre : List MEv := match sd with | none => [] | some _ => [.subStart]
        let bs : MB := match sd with
          | none => b
          | some ds => ({ b with subdirs := extendAssoc b.subdirs o ds } : MB).add o .subStart
        have hbs_fields : bs.stack = b.stack ∧ bs.order = b.order ∧ bs.depth = b.depth ∧ bs.str = b.str ∧
            bs.params = b.params ∧ bs.values = b.values := by
          cases sd <;> simp [bs]
        have hbs_ev : ∀ k, k ≠ o → bs.events k = b.events k := fun k hk => by
          cases sd with
          | none => rfl
          | some ds => simp only [bs]; rw [add_events_other _ _ _ _ hk]
        have hbs_o : (bs.events o).getD [] ++ [[MEv.ev (.start t a)]] = [[MEv.ev (.start t a)]] ∨
            (bs.prevOrder = some o ∧ (bs.events o).getD [] = [[.subStart]]) := by
          cases sd with
          | none => left; simp [bs, hinv.fresh o (Nat.le_refl _)]
          | some ds =>
            right
            have hp : ({ b with subdirs := extendAssoc b.subdirs o ds } : MB).prevOrder ≠ some o := fun h => by
              have := hinv.prevLt o (by simpa using h); simp [o] at this
            obtain ⟨h1, h2⟩ := add_events_new ({ b with subdirs := extendAssoc b.subdirs o ds } : MB) o .subStart hp
            have hfr : ({ b with subdirs := extendAssoc b.subdirs o ds } : MB).events o = none := hinv.fresh o (Nat.le_refl _)
            exact ⟨h2, by simp only [bs]; rw [h1, hfr]; simp⟩
        have hbs_sub : ∀ k, assocGet bs.subdirs k = match sd with
            | none => assocGet b.subdirs k
            | some ds => if k = o then some ds else assocGet b.subdirs k := fun k => by
          cases sd with
          | none => rfl
          | some ds =>
            simp only [bs, add_subdirs]
            by_cases hk : k = o
            · subst hk
              simp only [↓reduceIte]
              exact assocGet_extend_same _ _ _ (hinv.freshSub _ (Nat.le_refl _))
            · simp [hk, assocGet_extend_other _ _ _ _ hk]
        -- START
        let b0 : MB := { bs with str := bs.str ++ ('[' :: natStr o ++ [':']), stack := o :: bs.stack,
                                 depth := bs.depth + 1, order := o + 1 }
        let b1 : MB := b0.add o (.ev (.start t a))
        have hstart : mbAppend bs (.start t a) = .ok b1 := by
          simp [mbAppend, b1, b0, o, hbs_fields.2.1, pure, Except.pure]
        have hev1' : b1.events o = some [pre ++ [.ev (.start t a)]] ∧ b1.prevOrder = some o := by
          rcases hbs_o with h | ⟨hp, hg⟩
          · cases sd with
            | some ds =>
              -- impossible: the SUB_START group is there
              exfalso
              have hp : ({ b with subdirs := extendAssoc b.subdirs o ds } : MB).prevOrder ≠ some o := fun h' => by
                have := hinv.prevLt o (by simpa using h'); simp [o] at this
              obtain ⟨h1, _⟩ := add_events_new ({ b with subdirs := extendAssoc b.subdirs o ds } : MB) o .subStart hp
              have hfr : ({ b with subdirs := extendAssoc b.subdirs o ds } : MB).events o = none := hinv.fresh o (Nat.le_refl _)
              simp only [bs] at h
              rw [h1, hfr] at h
              simp at h
            | none =>
              have hprev0 : b0.prevOrder ≠ some o := fun h' => by
                have := hinv.prevLt o (by simpa [b0, bs] using h'); simp [o] at this
              obtain ⟨h1, h2⟩ := add_events_new b0 o (.ev (.start t a)) hprev0
              exact ⟨by simp only [b1]; rw [h1]; simp [b0, bs, pre, hinv.fresh o (Nat.le_refl _)], h2⟩
          · cases sd with
            | none => simp [bs, hinv.fresh o (Nat.le_refl _)] at hg
            | some ds =>
              obtain ⟨h1, h2⟩ := add_events_same b0 o (.ev (.start t a)) (by simpa [b0] using hp)
              refine ⟨?_, h2⟩
              simp only [b1]; rw [h1]
              simp only [b0, hg, pre]; rfl
        have hrel1 : Rel b1 o ⟨[], some (pre ++ [.ev (.start t a)])⟩ :=
          ⟨by simp [hev1'.1, PV.groups], by simp [hev1'.2]⟩
        have hinv1 : Inv b1 := by
          refine ⟨fun k hk => ?_, fun k hk => ?_, fun k hk => ?_, ?_⟩
          · have hko : k ≠ o := by simp only [b1, add_order, b0] at hk; omega
            simp only [b1]; rw [add_events_other _ _ _ _ hko]
            simp only [b0]; rw [hbs_ev k hko]
            exact hinv.fresh k (by simp only [b1, add_order, b0] at hk; omega)
          · simp only [b1, add_subdirs, b0]
            rw [hbs_sub k]
            have hko : k ≠ o := by simp only [b1, add_order, b0] at hk; omega
            have hfr := hinv.freshSub k (by simp only [b1, add_order, b0] at hk; omega)
            cases sd <;> simp [hko, hfr]
          · simp only [b1, add_prev] at hk; cases hk; simp [b1, b0]
          · have := hinv.depthPos; simp only [b1, add_depth, b0, hbs_fields.2.2.1]; omega
        -- the children
        obtain ⟨b2, hrun2, post2⟩ := append_nodes ks b1 o (top :: st) ⟨[], some (pre ++ [.ev (.start t a)])⟩ rest
          (by simp [b1, b0, hbs_fields.1, hst]) (by simp [b1, b0]) (by simpa [b1, b0, hbs_fields.2.2.2.2.1] using hpar)
          hrel1 hinv1 hna.2
        -- END
        have hd2 : b2.depth = b.depth + 1 := by rw [post2.depth]; simp [b1, b0, hbs_fields.2.2.1]
        have hst2 : b2.stack = o :: top :: st := by rw [post2.stack]; simp [b1, b0, hbs_fields.1, hst]
        let b2' : MB := { b2 with depth := b2.depth - 1, str := b2.str ++ [']'], stack := top :: st }
        let b3 : MB := b2'.add o (.ev (.end_ t))
        have hend : mbAppend b2 (.end_ t) = .ok b3 := by
          have hne : ¬ (b2.depth - 1 = 0) := by have := hinv.depthPos; omega
          simp [mbAppend, hne, hst2, b3, b2', pure, Except.pure]
        have hrel3 : Rel b3 o ((pvFeed ⟨[], some (pre ++ [.ev (.start t a)])⟩ ks).addEv (.ev (.end_ t))) :=
          (post2.rel.congr (b' := b2') rfl rfl).add_top _
        -- SUB_END
        let b4 : MB := match sd with | none => b3 | some _ => b3.add o .subEnd
        have hb4_fields : b4.stack = b3.stack ∧ b4.order = b3.order ∧ b4.depth = b3.depth ∧ b4.str = b3.str ∧
            b4.params = b3.params ∧ b4.values = b3.values ∧ b4.subdirs = b3.subdirs ∧ b4.prevOrder = some o := by
          cases sd <;> simp [b4, b3, add_prev]
        have hb4_ev : ∀ k, k ≠ o → b4.events k = b2.events k := fun k hk => by
          cases sd with
          | none => simp only [b4, b3]; rw [add_events_other _ _ _ _ hk]
          | some ds => simp only [b4, b3]; rw [add_events_other _ _ _ _ hk, add_events_other _ _ _ _ hk]
        have hev4 : b4.events o = some (wrapK sd (elemGroups t a ks)) := by
          cases sd with
          | none =>
            have := add_events_is_some b2' o (.ev (.end_ t))
            simp only [b4, b3]
            rw [this]
            have hg := hrel3.groups
            simp only [b3] at hg
            rw [hg]; rfl
          | some ds =>
            have hrel4 := hrel3.add_top .subEnd
            have := add_events_is_some b3 o .subEnd
            simp only [b4]
            rw [this, hrel4.groups]
            have := subGroups_eq ds t a ks
            simp only [subGroups] at this
            simp only [pre, List.cons_append, List.nil_append]
            rw [this]
        have hoth1 : ∀ k, k ≠ o → b1.events k = b.events k := fun k hk => by
          simp only [b1]; rw [add_events_other _ _ _ _ hk]; simp only [b0]; exact hbs_ev k hk
        have hto : top ≠ o := by simp only [o]; omega
        have hrun : mbAppendList b (MNode.elem sd t a ks).flatten = .ok b4 := by
          have hcore : mbAppendList bs (.start t a :: (flattenM ks ++ [.end_ t])) = .ok b3 := by
            rw [show (TEvent.start t a :: (flattenM ks ++ [.end_ t])) = [.start t a] ++ (flattenM ks ++ [.end_ t]) from rfl]
            rw [mbAppendList_append, mbAppendList_single, hstart]
            simp only [Except.bind]
            rw [mbAppendList_append, hrun2]
            simp only [Except.bind]
            rw [mbAppendList_single, hend]
          cases sd with
          | none => simpa [MNode.flatten, bs, b4] using hcore
          | some ds =>
            simp only [MNode.flatten, mbAppendList_single, mbAppend, bind, Except.bind]
            simp only [bs] at hcore
            rw [hcore]
            simp only [b4, pure, Except.pure]
            rfl
        refine ⟨b4, hrun, ?_⟩
        refine { stack := by rw [hb4_fields.1]; simp [b3, b2', hst], order := ?_, depth := ?_, str := ?_, params := ?_,
                 subKeep := ?_, values := ?_, rel := ?_, inv := ?_, below := ?_, elems := ?_, prev := ?_ }
        · rw [hb4_fields.2.1]; simp only [b3, add_order, b2']; rw [post2.order]; simp [b1, b0, o, sizeM, MNode.size]; omega
        · rw [hb4_fields.2.2.1]; simp only [b3, add_depth, b2']; rw [hd2]; omega
        · rw [hb4_fields.2.2.2.1]; simp only [b3, add_str, b2']; rw [post2.str]
          simp [b1, b0, o, hbs_fields.2.2.2.1, fmtM, MNode.fmt, List.append_assoc]
        · rw [hb4_fields.2.2.2.2.1]; simp only [b3, add_params, b2']; exact post2.params
        · intro k hk
          rw [hb4_fields.2.2.2.2.2.2.1]
          simp only [b3, add_subdirs, b2']
          rw [post2.subKeep k (by simp [b1, b0, o]; omega)]
          simp only [b1, add_subdirs, b0]
          rw [hbs_sub k]
          have hko : k ≠ o := by simp only [o]; omega
          cases sd <;> simp [hko]
        · rw [hb4_fields.2.2.2.2.2.1]; simp only [b3, add_values, b2']; rw [post2.values]
          simp [b1, b0, hbs_fields.2.2.2.2.2, valsM, MNode.vals]
        · refine ⟨?_, ?_⟩
          · rw [hb4_ev top hto, post2.below top hto (by simp [b1, b0, o]; omega), hoth1 top hto, hrel.groups]
            simp [pvFeed, PV.close_groups]
          · rw [hb4_fields.2.2.2.2.2.2.2]
            simp only [pvFeed, PV.close_cur]
            simp [Ne.symm hto]
        · refine ⟨fun k hk => ?_, fun k hk => ?_, fun k hk => ?_, ?_⟩
          · have hk' : b2.order ≤ k := by rw [hb4_fields.2.1] at hk; simpa [b3, b2'] using hk
            have hko : k ≠ o := by rw [post2.order] at hk'; simp [b1, b0] at hk'; omega
            rw [hb4_ev k hko]; exact post2.inv.fresh k hk'
          · have hk' : b2.order ≤ k := by rw [hb4_fields.2.1] at hk; simpa [b3, b2'] using hk
            rw [hb4_fields.2.2.2.2.2.2.1]; simp only [b3, add_subdirs, b2']
            exact post2.inv.freshSub k hk'
          · rw [hb4_fields.2.2.2.2.2.2.2] at hk; cases hk
            rw [hb4_fields.2.1]; simp only [b3, add_order, b2']; rw [post2.order]; simp [b1, b0, o]; omega
          · rw [hb4_fields.2.2.1]; simp only [b3, add_depth, b2']; rw [hd2]; have := hinv.depthPos; omega
        · intro k hk hko
          have hko' : k ≠ o := by simp only [o]; omega
          rw [hb4_ev k hko', post2.below k hko' (by simp [b1, b0, o]; omega), hoth1 k hko']
        · intro k t' a' c kd h
          simp only [infoM, MNode.info] at h
          by_cases hk : k = b.order
          · simp only [hk, ↓reduceIte] at h
            cases h
            refine ⟨wrapK sd (elemGroups t a ks), by rw [hk]; exact hev4,
              ⟨elemGroups t a ks, elemGroups_good t a ks hna.1, rfl⟩, fun ds hds => ?_⟩
            subst hds
            rw [hb4_fields.2.2.2.2.2.2.1]; simp only [b3, add_subdirs, b2']
            rw [hk, post2.subKeep b.order (by simp [b1, b0, o])]
            simp only [b1, add_subdirs, b0]
            rw [hbs_sub b.order]
            simp [o]
          · simp only [hk, ↓reduceIte] at h
            have hinfo : infoM (b.order + 1) ks k = some (t', a', c, kd) := by
              cases hi : infoM (b.order + 1) ks k with
              | some x => simpa [hi] using h
              | none => simp [hi, infoM] at h
            have hr := infoM_range (b.order + 1) ks k _ hinfo
            obtain ⟨gs, hgs, hgood, hsd⟩ := post2.elems k t' a' c kd (by simpa [b1, b0, o] using hinfo)
            refine ⟨gs, by rw [hb4_ev k (by simp only [o]; omega)]; exact hgs, hgood, fun ds hds => ?_⟩
            rw [hb4_fields.2.2.2.2.2.2.1]; simp only [b3, add_subdirs, b2']
            exact hsd ds hds
        · right; right; exact ⟨o, Nat.le_refl _, hb4_fields.2.2.2.2.2.2.2⟩
  theorem append_nodes : ∀ (ns : List MNode) (b : MB) (top : Nat) (st : List Nat) (p : PV) (rest : List Str),
      b.stack = top :: st → top < b.order → b.params = namesM ns ++ rest → Rel b top p → Inv b →
      deepNoAdjM ns = true →
      ∃ b', mbAppendList b (flattenM ns) = .ok b' ∧ Post b b' top p ns rest
    | [], b, top, st, p, rest, _, _, hpar, hrel, hinv, _ => by
        refine ⟨b, by simp [flattenM, mbAppendList, pure, Except.pure], ?_⟩
        exact { stack := rfl, order := by simp [sizeM], depth := rfl, str := by simp [fmtM],
                params := by simpa [namesM] using hpar, subKeep := fun _ _ => rfl, values := by simp [valsM],
                rel := by simpa [pvFeed] using hrel, inv := hinv, below := fun _ _ _ => rfl,
                elems := fun k t a c kd h => by simp [infoM] at h, prev := Or.inl rfl }
    | n :: ns, b, top, st, p, rest, hst, hlt, hpar, hrel, hinv, hna => by
        simp only [deepNoAdjM, Bool.and_eq_true] at hna
        simp only [namesM, List.append_assoc] at hpar
        obtain ⟨b1, hrun1, post1⟩ := append_node n b top st p (namesM ns ++ rest) hst hlt hpar hrel hinv hna.1
        have ho1 : b1.order = b.order + n.size := by rw [post1.order]; simp [sizeM]
        obtain ⟨b2, hrun2, post2⟩ := append_nodes ns b1 top st (pvFeed p [n]) rest
          (by rw [post1.stack, hst]) (by rw [ho1]; omega) post1.params post1.rel post1.inv hna.2
        refine ⟨b2, ?_, ?_⟩
        · simp only [flattenM]; rw [mbAppendList_append, hrun1]; simp only [Except.bind]; exact hrun2
        · refine { stack := by rw [post2.stack, post1.stack], order := ?_, depth := by rw [post2.depth, post1.depth],
                   str := ?_, params := post2.params, subKeep := ?_,
                   values := ?_, rel := ?_, inv := post2.inv, below := ?_, elems := ?_, prev := ?_ }
          · rw [post2.order, ho1]; simp [sizeM]; omega
          · rw [post2.str, post1.str, ho1]; simp [fmtM, List.append_assoc]
          · intro k hk
            rw [post2.subKeep k (by rw [ho1]; omega), post1.subKeep k hk]
          · rw [post2.values, post1.values]; simp [valsM, List.append_assoc]
          · have := post2.rel
            rwa [← pvFeed_append p [n] ns] at this
          · intro k hk hko
            rw [post2.below k hk (by rw [ho1]; omega), post1.below k hk hko]
          · intro k t a c kd h
            simp only [infoM] at h
            cases hn : n.info b.order k with
            | some x =>
              simp only [hn] at h
              cases h
              have hr := MNode.info_range b.order n k _ hn
              obtain ⟨gs, hgs, hgood, hsd⟩ := post1.elems k t a c kd (by simp [infoM, hn])
              refine ⟨gs, ?_, hgood, fun ds hds => ?_⟩
              · rw [post2.below k (by omega) (by rw [ho1]; omega)]; exact hgs
              · rw [post2.subKeep k (by rw [ho1]; omega)]; exact hsd ds hds
            | none =>
              simp only [hn] at h
              exact post2.elems k t a c kd (by rw [ho1]; exact h)
          · rcases post2.prev with h2 | h2 | ⟨k, hk, h2⟩
            · rcases post1.prev with h1 | h1 | ⟨k, hk, h1⟩
              · left; rw [h2, h1]
              · right; left; rw [h2, h1]
              · right; right; exact ⟨k, hk, by rw [h2, h1]⟩
            · right; left; exact h2
            · right; right; exact ⟨k, by rw [ho1] at hk; omega, h2⟩
end

end Genshi.I18n

/-
  C04: the directive chain as big-step inference rules (iff form), and the
  congruence / equivalence lemmas behind the documented equivalences.
-/
import Genshi.Lemmas.TmplSim
namespace Genshi.Tmpl

theorem IOk.succ {t : ITask} {st st' : St} {o : List Event} :
    IOk t st o st' ↔ ∃ m, run (m + 1) t st = .ok (o, st') := by
  constructor
  · rintro ⟨m, h⟩
    cases m with
    | zero => simp [run] at h
    | succ m => exact ⟨m, h⟩
  · rintro ⟨m, h⟩; exact ⟨m + 1, h⟩

theorem IOk.apply_nil_iff {body} {st s1 : St} {o : List Event} :
    IOk (.apply [] body) st o s1 ↔ IOk (.flat body) st o s1 :=
  ⟨IOk.apply_nil_inv, IOk.apply_nil⟩

theorem IOk.ev_sub_iff {ds body} {st s1 : St} {o : List Event} :
    IOk (.ev (.sub ds body)) st o s1 ↔ IOk (.apply ds body) st o s1 := by
  rw [IOk.succ]
  simp only [run]
  exact ⟨fun ⟨m, h⟩ => ⟨m, h⟩, fun ⟨m, h⟩ => ⟨m, h⟩⟩

theorem IOk.flat_single_iff {e : CEv} {st s1 : St} {o : List Event} :
    IOk (.flat [e]) st o s1 ↔ IOk (.ev e) st o s1 := by
  constructor
  · intro h
    obtain ⟨o1, t1, o2, h1, h2, rfl⟩ := IOk.flat_cons_inv h
    obtain ⟨rfl, rfl⟩ := IOk.flat_nil_inv h2
    simpa using h1
  · exact IOk.flat_single

theorem IOk.if_iff {e ds body} {st st' : St} {o : List Event} :
    IOk (.apply (.if_ e :: ds) body) st o st' ↔
      ∃ v, eval st.look e = .ok v ∧
        ((v.truthy = true ∧ IOk (.apply ds body) st o st') ∨ (v.truthy = false ∧ o = [] ∧ st' = st)) := by
  rw [IOk.succ]
  simp only [run, bind_ok]
  constructor
  · rintro ⟨m, v, hv, h⟩
    refine ⟨v, hv, ?_⟩
    cases ht : v.truthy with
    | true => simp only [ht, if_true] at h; exact Or.inl ⟨rfl, m, h⟩
    | false =>
      simp only [ht, Bool.false_eq_true, if_false, pure, Except.pure, Except.ok.injEq, Prod.mk.injEq] at h
      exact Or.inr ⟨rfl, h.1.symm, h.2.symm⟩
  · rintro ⟨v, hv, ⟨ht, m, h⟩ | ⟨ht, rfl, rfl⟩⟩
    · exact ⟨m, v, hv, by simpa [ht] using h⟩
    · exact ⟨0, v, hv, by simp [ht, pure, Except.pure]⟩

theorem IOk.for_iff {v e ds body} {st st' : St} {o : List Event} :
    IOk (.apply (.for_ v e :: ds) body) st o st' ↔
      ∃ it items, eval st.look e = .ok it ∧ iterItems it = .ok items ∧
        IOk (.loop v items ds body) st o st' := by
  rw [IOk.succ]
  simp only [run, bind_ok]
  constructor
  · rintro ⟨m, it, h1, items, h2, h3⟩; exact ⟨it, items, h1, h2, m, h3⟩
  · rintro ⟨it, items, h1, h2, m, h3⟩; exact ⟨m, it, h1, items, h2, h3⟩

theorem IOk.loop_nil_iff {v ds body} {st st' : St} {o : List Event} :
    IOk (.loop v [] ds body) st o st' ↔ o = [] ∧ st' = st := by
  rw [IOk.succ]
  simp only [run, Except.ok.injEq, Prod.mk.injEq]
  constructor
  · rintro ⟨_, h1, h2⟩; exact ⟨h1.symm, h2.symm⟩
  · rintro ⟨rfl, rfl⟩; exact ⟨0, rfl, rfl⟩

theorem IOk.loop_cons_iff {v item items ds body} {st st' : St} {o : List Event} :
    IOk (.loop v (item :: items) ds body) st o st' ↔
      ∃ o1 s1 o2, IOk (.apply ds body) (st.push [(v, item)]) o1 s1 ∧
        IOk (.loop v items ds body) s1.pop o2 st' ∧ o = o1 ++ o2 := by
  rw [IOk.succ]
  simp only [run, seq_ok]
  constructor
  · rintro ⟨m, o1, s1, o2, h1, h2, rfl⟩; exact ⟨o1, s1, o2, ⟨m, h1⟩, ⟨m, h2⟩, rfl⟩
  · rintro ⟨o1, s1, o2, ⟨m1, h1⟩, ⟨m2, h2⟩, rfl⟩
    exact ⟨max m1 m2, o1, s1, o2, IOk.lift h1 (Nat.le_max_left _ _), IOk.lift h2 (Nat.le_max_right _ _), rfl⟩

theorem IOk.choose_iff {e ds body} {st st' : St} {o : List Event} :
    IOk (.apply (.choose e :: ds) body) st o st' ↔
      ∃ v s1, evalOpt st.look e = .ok v ∧
        IOk (.apply ds body) { st with choice := ⟨false, e.isSome, v⟩ :: st.choice } o s1 ∧
        st' = s1.popChoice := by
  rw [IOk.succ]
  simp only [run, bind_ok, mapSt_ok]
  constructor
  · rintro ⟨m, v, hv, s1, h, rfl⟩; exact ⟨v, s1, hv, ⟨m, h⟩, rfl⟩
  · rintro ⟨v, s1, hv, ⟨m, h⟩, rfl⟩; exact ⟨m, v, hv, s1, h, rfl⟩

theorem IOk.with_iff {bs ds body} {st st' : St} {o : List Event} :
    IOk (.apply (.with_ bs :: ds) body) st o st' ↔
      ∃ s1, IOk (.binds bs ds body) (st.push []) o s1 ∧ st' = s1.pop := by
  rw [IOk.succ]
  simp only [run, mapSt_ok]
  constructor
  · rintro ⟨m, s1, h, rfl⟩; exact ⟨s1, ⟨m, h⟩, rfl⟩
  · rintro ⟨s1, ⟨m, h⟩, rfl⟩; exact ⟨m, s1, h, rfl⟩

theorem IOk.binds_nil_iff {ds body} {st st' : St} {o : List Event} :
    IOk (.binds [] ds body) st o st' ↔ IOk (.apply ds body) st o st' := by
  rw [IOk.succ]
  simp only [run]
  exact ⟨fun ⟨m, h⟩ => ⟨m, h⟩, fun ⟨m, h⟩ => ⟨m, h⟩⟩

theorem IOk.binds_cons_iff {x e bs ds body} {st st' : St} {o : List Event} :
    IOk (.binds ((x, e) :: bs) ds body) st o st' ↔
      ∃ v, eval st.look e = .ok v ∧ IOk (.binds bs ds body) (st.setTop x v) o st' := by
  rw [IOk.succ]
  simp only [run, bind_ok]
  constructor
  · rintro ⟨m, v, hv, h⟩; exact ⟨v, hv, m, h⟩
  · rintro ⟨v, hv, m, h⟩; exact ⟨m, v, hv, h⟩

theorem IOk.otherwise_iff {ds body} {st st' : St} {o : List Event} :
    IOk (.apply (.otherwise :: ds) body) st o st' ↔
      ∃ c cs, st.choice = c :: cs ∧
        ((c.matched = true ∧ o = [] ∧ st' = st) ∨
         (c.matched = false ∧ IOk (.apply ds body) (st.setMatched c cs true) o st')) := by
  rw [IOk.succ]
  simp only [run]
  constructor
  · rintro ⟨m, h⟩
    split at h
    · simp at h
    · rename_i c cs hc
      refine ⟨c, cs, hc, ?_⟩
      cases hm : c.matched with
      | true =>
        simp only [hm, if_true, Except.ok.injEq, Prod.mk.injEq] at h
        exact Or.inl ⟨rfl, h.1.symm, h.2.symm⟩
      | false =>
        simp only [hm, Bool.false_eq_true, if_false] at h
        exact Or.inr ⟨rfl, m, h⟩
  · rintro ⟨c, cs, hc, ⟨hm, rfl, rfl⟩ | ⟨hm, m, h⟩⟩
    · exact ⟨0, by simp [hc, hm]⟩
    · exact ⟨m, by simpa [hc, hm] using h⟩

theorem IOk.when_iff {e ds body} {st st' : St} {o : List Event} :
    IOk (.apply (.when e :: ds) body) st o st' ↔
      ∃ c cs, st.choice = c :: cs ∧
        ((c.matched = true ∧ o = [] ∧ st' = st) ∨
         (c.matched = false ∧ ∃ m, whenMatches st.look c e = .ok m ∧
            ((m = true ∧ IOk (.apply ds body) (st.setMatched c cs true) o st') ∨
             (m = false ∧ o = [] ∧ st' = st.setMatched c cs false)))) := by
  rw [IOk.succ]
  simp only [run]
  constructor
  · rintro ⟨k, h⟩
    split at h
    · simp at h
    · rename_i c cs hc
      refine ⟨c, cs, hc, ?_⟩
      cases hm : c.matched with
      | true =>
        simp only [hm, if_true, Except.ok.injEq, Prod.mk.injEq] at h
        exact Or.inl ⟨rfl, h.1.symm, h.2.symm⟩
      | false =>
        simp only [hm, Bool.false_eq_true, if_false] at h
        split at h
        · simp at h
        · simp only [bind_ok] at h
          obtain ⟨m, hmm, h2⟩ := h
          refine Or.inr ⟨rfl, m, hmm, ?_⟩
          cases m with
          | true => simp only [if_true] at h2; exact Or.inl ⟨rfl, k, h2⟩
          | false =>
            simp only [Bool.false_eq_true, if_false, pure, Except.pure, Except.ok.injEq, Prod.mk.injEq] at h2
            exact Or.inr ⟨rfl, h2.1.symm, h2.2.symm⟩
  · rintro ⟨c, cs, hc, ⟨hm, rfl, rfl⟩ | ⟨hm, m, hmm, ⟨rfl, k, h⟩ | ⟨rfl, rfl, rfl⟩⟩⟩
    · exact ⟨0, by simp [hc, hm]⟩
    · have ht : (!c.hasTest && e.isNone) = false := by
        unfold whenMatches at hmm
        cases hh : c.hasTest <;> cases e <;> simp_all
      exact ⟨k, by simp [hc, hm, ht, hmm, h, bind, Except.bind]⟩
    · have ht : (!c.hasTest && e.isNone) = false := by
        unfold whenMatches at hmm
        cases hh : c.hasTest <;> cases e <;> simp_all
      exact ⟨0, by simp [hc, hm, ht, hmm, bind, Except.bind, pure, Except.pure]⟩

/-! ### congruence: what follows a control directive may be replaced by an equivalent tail -/

/-- control directives other than `py:def` (whose effect is to *store* its tail) -/
def Dir.ctl : Dir → Bool
  | .when _ | .otherwise | .for_ _ _ | .if_ _ | .choose _ | .with_ _ => true
  | _ => false

/-- two (directive list, sub-stream) pairs that render alike from every state -/
def TailEq (ds : List Dir) (body : List CEv) (ds' : List Dir) (body' : List CEv) : Prop :=
  ∀ st o st', IOk (.apply ds body) st o st' ↔ IOk (.apply ds' body') st o st'

theorem loop_congr {ds body ds' body'} (h : TailEq ds body ds' body') (v : Name) :
    ∀ items st o st', IOk (.loop v items ds body) st o st' ↔ IOk (.loop v items ds' body') st o st' := by
  intro items
  induction items with
  | nil => intro st o st'; rw [IOk.loop_nil_iff, IOk.loop_nil_iff]
  | cons item items ih =>
    intro st o st'
    rw [IOk.loop_cons_iff, IOk.loop_cons_iff]
    constructor
    · rintro ⟨o1, s1, o2, h1, h2, rfl⟩; exact ⟨o1, s1, o2, (h _ _ _).1 h1, (ih _ _ _).1 h2, rfl⟩
    · rintro ⟨o1, s1, o2, h1, h2, rfl⟩; exact ⟨o1, s1, o2, (h _ _ _).2 h1, (ih _ _ _).2 h2, rfl⟩

theorem binds_congr {ds body ds' body'} (h : TailEq ds body ds' body') :
    ∀ bs st o st', IOk (.binds bs ds body) st o st' ↔ IOk (.binds bs ds' body') st o st' := by
  intro bs
  induction bs with
  | nil => intro st o st'; rw [IOk.binds_nil_iff, IOk.binds_nil_iff]; exact h _ _ _
  | cons p bs ih =>
    obtain ⟨x, e⟩ := p
    intro st o st'
    rw [IOk.binds_cons_iff, IOk.binds_cons_iff]
    constructor
    · rintro ⟨v, hv, h1⟩; exact ⟨v, hv, (ih _ _ _).1 h1⟩
    · rintro ⟨v, hv, h1⟩; exact ⟨v, hv, (ih _ _ _).2 h1⟩

theorem apply_cons_congr {ds body ds' body'} (d : Dir) (hd : d.ctl = true)
    (h : TailEq ds body ds' body') : TailEq (d :: ds) body (d :: ds') body' := by
  intro st o st'
  cases d <;> simp [Dir.ctl] at hd
  · -- when
    rw [IOk.when_iff, IOk.when_iff]
    constructor
    · rintro ⟨c, cs, hc, hh⟩
      refine ⟨c, cs, hc, ?_⟩
      rcases hh with hh | ⟨hm, m, hmm, ⟨rfl, h1⟩ | hh⟩
      · exact Or.inl hh
      · exact Or.inr ⟨hm, true, hmm, Or.inl ⟨rfl, (h _ _ _).1 h1⟩⟩
      · exact Or.inr ⟨hm, m, hmm, Or.inr hh⟩
    · rintro ⟨c, cs, hc, hh⟩
      refine ⟨c, cs, hc, ?_⟩
      rcases hh with hh | ⟨hm, m, hmm, ⟨rfl, h1⟩ | hh⟩
      · exact Or.inl hh
      · exact Or.inr ⟨hm, true, hmm, Or.inl ⟨rfl, (h _ _ _).2 h1⟩⟩
      · exact Or.inr ⟨hm, m, hmm, Or.inr hh⟩
  · -- otherwise
    rw [IOk.otherwise_iff, IOk.otherwise_iff]
    constructor
    · rintro ⟨c, cs, hc, hh | ⟨hm, h1⟩⟩
      · exact ⟨c, cs, hc, Or.inl hh⟩
      · exact ⟨c, cs, hc, Or.inr ⟨hm, (h _ _ _).1 h1⟩⟩
    · rintro ⟨c, cs, hc, hh | ⟨hm, h1⟩⟩
      · exact ⟨c, cs, hc, Or.inl hh⟩
      · exact ⟨c, cs, hc, Or.inr ⟨hm, (h _ _ _).2 h1⟩⟩
  · -- for
    rw [IOk.for_iff, IOk.for_iff]
    constructor
    · rintro ⟨it, items, h1, h2, h3⟩; exact ⟨it, items, h1, h2, (loop_congr h _ _ _ _ _).1 h3⟩
    · rintro ⟨it, items, h1, h2, h3⟩; exact ⟨it, items, h1, h2, (loop_congr h _ _ _ _ _).2 h3⟩
  · -- if
    rw [IOk.if_iff, IOk.if_iff]
    constructor
    · rintro ⟨v, hv, ⟨ht, h1⟩ | hh⟩
      · exact ⟨v, hv, Or.inl ⟨ht, (h _ _ _).1 h1⟩⟩
      · exact ⟨v, hv, Or.inr hh⟩
    · rintro ⟨v, hv, ⟨ht, h1⟩ | hh⟩
      · exact ⟨v, hv, Or.inl ⟨ht, (h _ _ _).2 h1⟩⟩
      · exact ⟨v, hv, Or.inr hh⟩
  · -- choose
    rw [IOk.choose_iff, IOk.choose_iff]
    constructor
    · rintro ⟨v, s1, hv, h1, rfl⟩; exact ⟨v, s1, hv, (h _ _ _).1 h1, rfl⟩
    · rintro ⟨v, s1, hv, h1, rfl⟩; exact ⟨v, s1, hv, (h _ _ _).2 h1, rfl⟩
  · -- with
    rw [IOk.with_iff, IOk.with_iff]
    constructor
    · rintro ⟨s1, h1, rfl⟩; exact ⟨s1, (binds_congr h _ _ _ _).1 h1, rfl⟩
    · rintro ⟨s1, h1, rfl⟩; exact ⟨s1, (binds_congr h _ _ _ _).2 h1, rfl⟩

theorem apply_prefix_congr {ds body ds' body'} (pre : List Dir) (hpre : ∀ d ∈ pre, d.ctl = true)
    (h : TailEq ds body ds' body') : TailEq (pre ++ ds) body (pre ++ ds') body' := by
  induction pre with
  | nil => simpa using h
  | cons d pre ih =>
    simp only [List.cons_append]
    exact apply_cons_congr d (hpre d (List.mem_cons_self ..))
      (ih (fun x hx => hpre x (List.mem_cons_of_mem _ hx)))

/-! ### attribute form = element form -/

theorem IOk.mkSub_iff {ds body} {st s1 : St} {o : List Event} :
    IOk (.flat (Genshi.Tmpl.mkSub ds body)) st o s1 ↔ IOk (.apply ds body) st o s1 := by
  refine ⟨?_, IOk.mkSub⟩
  unfold Genshi.Tmpl.mkSub
  split
  · rename_i he
    have : ds = [] := by simpa using he
    subst this
    exact IOk.apply_nil
  · intro h
    exact IOk.ev_sub_iff.1 (IOk.flat_single_iff.1 h)

/-- one step: a directive followed by others on the same sub-stream = the directive alone
    around a nested SUB carrying the others -/
theorem elem_form_step (d : Dir) (hd : d.ctl = true) (ds : List Dir) (body : List CEv) :
    TailEq (d :: ds) body [d] [.sub ds body] := by
  refine apply_cons_congr d hd ?_
  intro st o st'
  rw [IOk.apply_nil_iff, IOk.flat_single_iff, IOk.ev_sub_iff]

/-- the prepared stream of directives written as nested directive elements, outermost first,
    around an element that keeps the directives `stay` as attributes -/
def nestSubs : List Dir → List Dir → List CEv → List CEv
  | [], stay, body => mkSub stay body
  | d :: pre, stay, body => [.sub [d] (nestSubs pre stay body)]

theorem nested_eq_chain (pre : List Dir) (hpre : ∀ d ∈ pre, d.ctl = true) (stay : List Dir)
    (body : List CEv) : ∀ st o st',
    IOk (.flat (nestSubs pre stay body)) st o st' ↔ IOk (.apply (pre ++ stay) body) st o st' := by
  induction pre with
  | nil => intro st o st'; simpa [nestSubs] using IOk.mkSub_iff
  | cons d pre ih =>
    intro st o st'
    have ih' := ih (fun x hx => hpre x (List.mem_cons_of_mem _ hx))
    simp only [nestSubs, List.cons_append]
    rw [IOk.flat_single_iff, IOk.ev_sub_iff]
    refine (apply_cons_congr d (hpre d (List.mem_cons_self ..)) ?_) st o st'
    intro s p s'
    rw [IOk.apply_nil_iff]
    exact ih' s p s'

/-! ### py:replace = py:content + py:strip -/

theorem replace_tail_eq (x : XExpr) (t : Name) (a : List (Name × Str)) :
    TailEq [] [.xexpr x] [.strip none] [.start t a, .xexpr x, .end_ t] := by
  intro st o st'
  rw [IOk.apply_nil_iff, IOk.succ (t := .apply [.strip none] _)]
  simp only [run, stripBody, stripCond, bind, Except.bind, pure, Except.pure, if_true,
    List.dropLast]
  constructor
  · rintro ⟨m, h⟩; exact ⟨m, h⟩
  · rintro ⟨m, h⟩; exact ⟨m, h⟩

/-! one-directional version of the congruence (for refinements that are not equivalences) -/

def TailImp (ds : List Dir) (body : List CEv) (ds' : List Dir) (body' : List CEv) : Prop :=
  ∀ st o st', IOk (.apply ds body) st o st' → IOk (.apply ds' body') st o st'

theorem loop_imp {ds body ds' body'} (h : TailImp ds body ds' body') (v : Name) :
    ∀ items st o st', IOk (.loop v items ds body) st o st' → IOk (.loop v items ds' body') st o st' := by
  intro items
  induction items with
  | nil => intro st o st'; rw [IOk.loop_nil_iff, IOk.loop_nil_iff]; exact id
  | cons item items ih =>
    intro st o st'
    rw [IOk.loop_cons_iff, IOk.loop_cons_iff]
    rintro ⟨o1, s1, o2, h1, h2, rfl⟩
    exact ⟨o1, s1, o2, h _ _ _ h1, ih _ _ _ h2, rfl⟩

theorem binds_imp {ds body ds' body'} (h : TailImp ds body ds' body') :
    ∀ bs st o st', IOk (.binds bs ds body) st o st' → IOk (.binds bs ds' body') st o st' := by
  intro bs
  induction bs with
  | nil => intro st o st'; rw [IOk.binds_nil_iff, IOk.binds_nil_iff]; exact h _ _ _
  | cons p bs ih =>
    obtain ⟨x, e⟩ := p
    intro st o st'
    rw [IOk.binds_cons_iff, IOk.binds_cons_iff]
    rintro ⟨v, hv, h1⟩
    exact ⟨v, hv, ih _ _ _ h1⟩

theorem apply_cons_imp {ds body ds' body'} (d : Dir) (hd : d.ctl = true)
    (h : TailImp ds body ds' body') : TailImp (d :: ds) body (d :: ds') body' := by
  intro st o st'
  cases d <;> simp [Dir.ctl] at hd
  · rw [IOk.when_iff, IOk.when_iff]
    rintro ⟨c, cs, hc, hh⟩
    refine ⟨c, cs, hc, ?_⟩
    rcases hh with hh | ⟨hm, m, hmm, ⟨rfl, h1⟩ | hh⟩
    · exact Or.inl hh
    · exact Or.inr ⟨hm, true, hmm, Or.inl ⟨rfl, h _ _ _ h1⟩⟩
    · exact Or.inr ⟨hm, m, hmm, Or.inr hh⟩
  · rw [IOk.otherwise_iff, IOk.otherwise_iff]
    rintro ⟨c, cs, hc, hh | ⟨hm, h1⟩⟩
    · exact ⟨c, cs, hc, Or.inl hh⟩
    · exact ⟨c, cs, hc, Or.inr ⟨hm, h _ _ _ h1⟩⟩
  · rw [IOk.for_iff, IOk.for_iff]
    rintro ⟨it, items, h1, h2, h3⟩
    exact ⟨it, items, h1, h2, loop_imp h _ _ _ _ _ h3⟩
  · rw [IOk.if_iff, IOk.if_iff]
    rintro ⟨v, hv, ⟨ht, h1⟩ | hh⟩
    · exact ⟨v, hv, Or.inl ⟨ht, h _ _ _ h1⟩⟩
    · exact ⟨v, hv, Or.inr hh⟩
  · rw [IOk.choose_iff, IOk.choose_iff]
    rintro ⟨v, s1, hv, h1, rfl⟩
    exact ⟨v, s1, hv, h _ _ _ h1, rfl⟩
  · rw [IOk.with_iff, IOk.with_iff]
    rintro ⟨s1, h1, rfl⟩
    exact ⟨s1, binds_imp h _ _ _ _ h1, rfl⟩

theorem apply_prefix_imp {ds body ds' body'} (pre : List Dir) (hpre : ∀ d ∈ pre, d.ctl = true)
    (h : TailImp ds body ds' body') : TailImp (pre ++ ds) body (pre ++ ds') body' := by
  induction pre with
  | nil => simpa using h
  | cons d pre ih =>
    simp only [List.cons_append]
    exact apply_cons_imp d (hpre d (List.mem_cons_self ..))
      (ih (fun x hx => hpre x (List.mem_cons_of_mem _ hx)))

/-- with `py:attrs` on the element: content + strip evaluates it (and may fail there), replace
    does not — whenever content + strip renders, replace renders the same -/
theorem replace_attrs_tail_imp (x : XExpr) (e : Expr) (t : Name) (a : List (Name × Str)) :
    TailImp [.attrs e, .strip none] [.start t a, .xexpr x, .end_ t] [.attrs e] [.xexpr x] := by
  intro st o st' h
  rw [IOk.succ] at h
  obtain ⟨m, h⟩ := h
  simp only [run, attrsHead, bind_ok, pure, Except.pure, Except.ok.injEq] at h
  obtain ⟨b, ⟨v, _, ps, _, rfl⟩, b', hb', h2⟩ := h
  simp only [stripBody, stripCond, bind, Except.bind, pure, Except.pure, if_true, List.dropLast,
    Except.ok.injEq] at hb'
  subst hb'
  exact ⟨m + 1, by simp [run, attrsHead, h2, bind, Except.bind]⟩

/-! ### a loop = its unrolling with py:with -/

/-- the unrolled loop: one SUB per item that binds the loop variable with `py:with` -/
def unroll (v : Name) (items : List Val) (ds : List Dir) (body : List CEv) : List CEv :=
  items.map fun item => .sub (.with_ [(v, .lit item)] :: ds) body

theorem with_single_iff {v : Name} {item : Val} {ds body} {st st' : St} {o : List Event} :
    IOk (.apply (.with_ [(v, .lit item)] :: ds) body) st o st' ↔
      ∃ s1, IOk (.apply ds body) (st.push [(v, item)]) o s1 ∧ st' = s1.pop := by
  rw [IOk.with_iff]
  have hset : (st.push []).setTop v item = st.push [(v, item)] := by simp [St.setTop, St.push]
  constructor
  · rintro ⟨s1, h1, rfl⟩
    rw [IOk.binds_cons_iff] at h1
    obtain ⟨w, hw, h2⟩ := h1
    simp only [eval, Except.ok.injEq] at hw
    subst hw
    rw [IOk.binds_nil_iff, hset] at h2
    exact ⟨s1, h2, rfl⟩
  · rintro ⟨s1, h1, rfl⟩
    refine ⟨s1, ?_, rfl⟩
    rw [IOk.binds_cons_iff]
    refine ⟨item, by simp [eval], ?_⟩
    rw [IOk.binds_nil_iff, hset]
    exact h1

theorem loop_eq_unrolled (v : Name) (ds : List Dir) (body : List CEv) :
    ∀ items st o st',
      IOk (.loop v items ds body) st o st' ↔ IOk (.flat (unroll v items ds body)) st o st' := by
  intro items
  induction items with
  | nil =>
    intro st o st'
    rw [IOk.loop_nil_iff]
    constructor
    · rintro ⟨rfl, rfl⟩; exact IOk.flat_nil _
    · intro h; exact IOk.flat_nil_inv (by simpa [unroll] using h)
  | cons item items ih =>
    intro st o st'
    rw [IOk.loop_cons_iff]
    simp only [unroll, List.map_cons]
    constructor
    · rintro ⟨o1, s1, o2, h1, h2, rfl⟩
      refine IOk.flat_cons (IOk.ev_sub_iff.2 (with_single_iff.2 ⟨s1, h1, rfl⟩)) ?_
      exact (ih _ _ _).1 h2
    · intro h
      obtain ⟨o1, t1, o2, h1, h2, rfl⟩ := IOk.flat_cons_inv h
      obtain ⟨s1, h3, rfl⟩ := with_single_iff.1 (IOk.ev_sub_iff.1 h1)
      exact ⟨o1, s1, o2, h3, (ih _ _ _).2 h2, rfl⟩

/-! ### only the first matching branch of a choose is rendered -/

/-- a branch of a choose: test of the `py:when`, further directives, sub-stream -/
abbrev Branch := Option Expr × List Dir × List CEv

def branchEv (b : Branch) : CEv := .sub (.when b.1 :: b.2.1) b.2.2

theorem setMatched_false_self {st : St} {c : Choice} {cs : List Choice}
    (hc : st.choice = c :: cs) (hm : c.matched = false) : st.setMatched c cs false = st := by
  cases st; cases c
  simp_all [St.setMatched]

/-- a `py:when` that does not match renders nothing and changes nothing -/
theorem branch_skip {b : Branch} {st : St} {c : Choice} {cs : List Choice}
    (hc : st.choice = c :: cs) (hm : c.matched = false)
    (hb : whenMatches st.look c b.1 = .ok false) : IOk (.ev (branchEv b)) st [] st := by
  rw [branchEv, IOk.ev_sub_iff, IOk.when_iff]
  exact ⟨c, cs, hc, Or.inr ⟨hm, false, hb, Or.inr ⟨rfl, rfl, (setMatched_false_self hc hm).symm⟩⟩⟩

/-- once a branch has matched every later `py:when` renders nothing, whatever its test -/
theorem branches_after_match (post : List Branch) {st : St} {c : Choice} {cs : List Choice}
    (hc : st.choice = c :: cs) (hm : c.matched = true) :
    IOk (.flat (post.map branchEv)) st [] st := by
  induction post with
  | nil => exact IOk.flat_nil _
  | cons b post ih =>
    have h1 : IOk (.ev (branchEv b)) st [] st := by
      rw [branchEv, IOk.ev_sub_iff, IOk.when_iff]
      exact ⟨c, cs, hc, Or.inl ⟨hm, rfl, rfl⟩⟩
    simpa using IOk.flat_cons h1 ih

/-! ### node level: compile of nested directive elements / of a sorted attribute list -/

theorem insertBy_lt {α : Type} (key : α → Nat) (x : α) (ys : List α)
    (h : ∀ y ∈ ys, key x < key y) : insertBy key x ys = x :: ys := by
  cases ys with
  | nil => rfl
  | cons y ys =>
    have := h y (List.mem_cons_self ..)
    simp only [insertBy]
    rw [if_neg (by omega)]

theorem sortBy_of_sorted {α : Type} (key : α → Nat) (xs : List α)
    (h : (xs.map key).Pairwise (· < ·)) : sortBy key xs = xs := by
  induction xs with
  | nil => rfl
  | cons x xs ih =>
    rw [List.map_cons, List.pairwise_cons] at h
    simp only [sortBy]
    rw [ih h.2]
    exact insertBy_lt key x xs (fun y hy => h.1 _ (List.mem_map.2 ⟨y, hy, rfl⟩))

theorem sortBy_implIdx_of_sorted (ds : List Dir) (h : StrictSorted ds) : sortBy Dir.implIdx ds = ds := by
  have : Dir.implIdx = Dir.rank := funext implIdx_eq_rank
  rw [this]; exact sortBy_of_sorted Dir.rank ds h

theorem ctl_keeps {d : Dir} (h : d.ctl = true) : d.rank ≠ 8 ∧ d.rank ≠ 9 := by
  cases d <;> simp [Dir.ctl, Dir.rank] at h ⊢

theorem attach_ctl_prefix (pre : List Dir) (hpre : ∀ d ∈ pre, d.ctl = true) (tl : List Dir)
    (body : List CEv) :
    attach (pre ++ tl) body = (pre ++ (attach tl body).1, (attach tl body).2) := by
  induction pre with
  | nil => simp
  | cons d pre ih =>
    simp only [List.cons_append]
    rw [attach_keep d _ body (ctl_keeps (hpre d (List.mem_cons_self ..))),
      ih (fun x hx => hpre x (List.mem_cons_of_mem _ hx))]

/-- directives written as nested directive elements around a node -/
def nestNodes : List Dir → TNode → TNode
  | [], inner => inner
  | d :: pre, inner => .delem d [nestNodes pre inner]

theorem compile_nest_cons (d : Dir) (hd : d.ctl = true) (pre : List Dir) (inner : TNode) :
    compileNode (nestNodes (d :: pre) inner) = [.sub [d] (compileNode (nestNodes pre inner))] := by
  simp only [nestNodes, compileNode, compileNodes, List.append_nil]
  rw [attach_keep d [] _ (ctl_keeps hd)]
  simp [attach, mkSub]

theorem StrictSorted.suffix {pre tl : List Dir} (h : StrictSorted (pre ++ tl)) : StrictSorted tl := by
  induction pre with
  | nil => simpa using h
  | cons d pre ih => exact ih (by simpa using h.tail)

end Genshi.Tmpl

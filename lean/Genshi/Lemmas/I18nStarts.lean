/-
  C19 — the START events of a translated message: one per placeholder, in the order of
  the translation.
-/
import Genshi.Lemmas.I18nTrim
namespace Genshi.I18n
open Genshi

mutual
  /-- tag and attributes of the START events of an event, also inside a SUB event -/
  def startsEv : TEvent → List (QName × TAttrs)
    | .start t a => [(t, a)]
    | .sub _ b => startsOf b
    | _ => []
  /-- tag and attributes of the START events of a stream, in order (SUB events are looked into) -/
  def startsOf : List TEvent → List (QName × TAttrs)
    | [] => []
    | e :: es => startsEv e ++ startsOf es
end

theorem startsOf_append : ∀ (a b : List TEvent), startsOf (a ++ b) = startsOf a ++ startsOf b
  | [], b => by simp [startsOf]
  | e :: a, b => by simp [startsOf, startsOf_append a b, List.append_assoc]

theorem startsOf_single (e : TEvent) : startsOf [e] = startsEv e := by simp [startsOf]

theorem ypStep_noStart (vs : List (Str × TEvent)) (hv : ∀ p ∈ vs, startsOf [p.2] = [])
    (acc : List TEvent) (p : Str ⊕ Str) (acc' : List TEvent) (ha : startsOf acc = [])
    (h : ypStep vs acc p = .ok acc') : startsOf acc' = [] := by
  cases p with
  | inl t =>
    simp only [ypStep, pure, Except.pure, Except.ok.injEq] at h
    subst h
    split
    · exact ha
    · simp [startsOf_append, ha, startsOf, startsEv]
  | inr n =>
    simp only [ypStep] at h
    cases hl : lookupValue vs n with
    | none => simp [hl] at h
    | some e =>
      simp only [hl, pure, Except.pure, Except.ok.injEq] at h
      subst h
      have : (n, e) ∈ vs ∨ True := Or.inr trivial
      have hmem : ∃ p ∈ vs, p.2 = e := by
        unfold lookupValue at hl
        cases hf : vs.find? (fun p => p.1 = n) with
        | none => simp [hf] at hl
        | some q =>
          simp only [hf, Option.some.injEq] at hl
          exact ⟨q, List.mem_of_find?_eq_some hf, hl⟩
      obtain ⟨q, hq, hqe⟩ := hmem
      have := hv q hq
      rw [hqe] at this
      simp [startsOf_append, ha, this]

theorem foldlM_noStart (vs : List (Str × TEvent)) (hv : ∀ p ∈ vs, startsOf [p.2] = []) :
    ∀ (l : List (Str ⊕ Str)) (acc out : List TEvent), startsOf acc = [] →
      l.foldlM (ypStep vs) acc = .ok out → startsOf out = []
  | [], acc, out, ha, h => by
      simp only [List.foldlM, pure, Except.pure, Except.ok.injEq] at h; subst h; exact ha
  | p :: l, acc, out, ha, h => by
      simp only [List.foldlM, bind, Except.bind] at h
      cases hs : ypStep vs acc p with
      | error e => simp [hs] at h
      | ok acc' =>
        simp only [hs] at h
        exact foldlM_noStart vs hv l acc' out (ypStep_noStart vs hv acc p acc' ha hs) h

/-- `yield_parts` emits text and bound values only: no START event when no value is one -/
theorem yieldParts_noStart (vs : List (Str × TEvent)) (hv : ∀ p ∈ vs, startsOf [p.2] = []) (s : Str)
    (e : List TEvent) (h : yieldParts vs s = .ok e) : startsOf e = [] :=
  foldlM_noStart vs hv _ [] e rfl (by rw [yieldParts_eq] at h; exact h)

/-- tag and attributes of element `n` -/
def tagOf (W : WorldK) (n : Nat) : Option (QName × TAttrs) := (W n).map fun x => (x.1, x.2.1)

mutual
  theorem XNode.render_starts (W : WorldK) (Y : Str → List TEvent) : ∀ (x : XNode),
      (∀ s ∈ x.segs, startsOf (Y s) = []) → (∀ n ∈ x.nums, (W n).isSome = true) →
      startsOf (x.renderK W Y) = x.nums.filterMap (tagOf W)
    | .ph n s0 r, h, hw => by
        have hn := hw n (by simp [XNode.nums])
        cases hwn : W n with
        | none => simp [hwn] at hn
        | some ta =>
          obtain ⟨t, a, kd⟩ := ta
          have hr := XRest.render_starts W Y r (fun s hs => h s (by simp [XNode.segs, hs]))
            (fun k hk => hw k (by simp [XNode.nums, hk]))
          cases kd <;>
          simp [XNode.renderK, hwn, XNode.nums, List.filterMap_cons, startsOf, startsEv, startsOf_append, hr,
            h s0 (by simp [XNode.segs]), tagOf]
  theorem XRest.render_starts (W : WorldK) (Y : Str → List TEvent) : ∀ (r : XRest),
      (∀ s ∈ r.segs, startsOf (Y s) = []) → (∀ n ∈ r.nums, (W n).isSome = true) →
      startsOf (r.renderK W Y) = r.nums.filterMap (tagOf W)
    | .nil, _, _ => by simp [XRest.renderK, XRest.nums, startsOf]
    | .cons x s r, h, hw => by
        have hx := XNode.render_starts W Y x (fun s' hs => h s' (by simp [XRest.segs, hs]))
          (fun k hk => hw k (by simp [XRest.nums, hk]))
        have hr := XRest.render_starts W Y r (fun s' hs => h s' (by simp [XRest.segs, hs]))
          (fun k hk => hw k (by simp [XRest.nums, hk]))
        simp [XRest.renderK, XRest.nums, startsOf_append, hx, hr, h s (by simp [XRest.segs]), List.filterMap_append]
end

mutual
  theorem XNode.compat_isSome (F : List MNode) : ∀ (x : XNode) (i : Bool), XNode.compat (infoM 1 F) i x →
      ∀ n ∈ x.nums, (worldOf F n).isSome = true
    | .ph n s0 r, i, h, k, hk => by
        simp only [XNode.compat] at h
        simp only [XNode.nums, List.mem_cons] at hk
        rcases hk with rfl | hk
        · obtain ⟨⟨t, a, kd, hi⟩, _⟩ := h; simp [worldOf, hi]
        · exact XRest.compat_isSome F r _ h.2.2 k hk
  theorem XRest.compat_isSome (F : List MNode) : ∀ (r : XRest) (i : Bool), XRest.compat (infoM 1 F) i r →
      ∀ n ∈ r.nums, (worldOf F n).isSome = true
    | .nil, _, _, k, hk => by simp [XRest.nums] at hk
    | .cons x s r, i, h, k, hk => by
        simp only [XRest.compat] at h
        simp only [XRest.nums, List.mem_append] at hk
        rcases hk with hk | hk
        · exact XNode.compat_isSome F x i h.1 k hk
        · exact XRest.compat_isSome F r i h.2 k hk
end

mutual
  theorem MNode.vals_noStart : ∀ (n : MNode), ∀ p ∈ n.vals, startsOf [p.2] = []
    | .text _, p, hp => by simp [MNode.vals] at hp
    | .expr _ _ _, p, hp => by simp only [MNode.vals, List.mem_singleton] at hp; subst hp; rfl
    | .elem _ _ _ ks, p, hp => valsM_noStart ks p (by simpa [MNode.vals] using hp)
  theorem valsM_noStart : ∀ (ns : List MNode), ∀ p ∈ valsM ns, startsOf [p.2] = []
    | [], p, hp => by simp [valsM] at hp
    | n :: ns, p, hp => by
        simp only [valsM, List.mem_append] at hp
        rcases hp with hp | hp
        · exact MNode.vals_noStart n p hp
        · exact valsM_noStart ns p hp
end

end Genshi.I18n

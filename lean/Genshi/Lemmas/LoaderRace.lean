/-
  C15 / C16 — a replacement of the file a load is opening (`Genshi/Model/LoaderRace.lean`):
  with the modification time taken from the opened file, the racing load is the plain load
  followed (or preceded) by the write — so histories with racing replacements are plain
  histories and every theorem about those applies.
-/
import Genshi.Model.LoaderRace
import Genshi.Lemmas.Loader
namespace Genshi.Loader
open Genshi.Lru

/-! ### the search loop -/

/-- `directory()` hands out the time of the file it found -/
theorem probe_dir_found {fs : FS} {fault : Fault} {d : Nat} {b : Bool} {key : Key} {loc : Loc} {f : File}
    {u : Utd} (h : probe fs fault (.dir d b) key = .found loc f u) : u = .mtime loc f.mtime := by
  unfold probe at h
  simp only at h
  cases hl : locate (.dir d b) key with
  | none => simp [hl] at h
  | some l =>
    simp only [hl] at h
    cases hf : fs l with
    | none => simp [hf] at h
    | some f' =>
      simp only [hf, Probe.found.injEq] at h
      obtain ⟨rfl, rfl, rfl⟩ := h
      rfl

/-- replacement right after `open`, time of the opened file: the loop does what it does without
    the replacement -/
theorem searchRace_after (cfg : Cfg) (fs : FS) (clock : Nat) (s : LState) (r : Req) (key : Key)
    (isabs : Bool) (rw : RaceW) (hb : rw.before = false) (entries : List Entry) :
    (searchRace true cfg fs clock s r key isabs rw entries).1 = search cfg fs s r key isabs entries := by
  induction entries with
  | nil => rfl
  | cons e rest ih =>
    unfold searchRace search
    cases hp : probe fs r.fault e key with
    | skip => simp only; exact ih
    | raise => rfl
    | found loc f u =>
      cases e with
      | fn d c => rfl
      | dir d b =>
        have hu := probe_dir_found hp
        subst hu
        simp [hb]

/-- a replacement only lands on a file that is there -/
theorem searchRace_fired {fstat : Bool} {cfg : Cfg} {fs : FS} {clock : Nat} {s : LState} {r : Req}
    {key : Key} {isabs : Bool} {rw : RaceW} {entries : List Entry} {loc : Loc}
    (h : (searchRace fstat cfg fs clock s r key isabs rw entries).2 = some loc) : ∃ f, fs loc = some f := by
  induction entries with
  | nil => simp [searchRace] at h
  | cons e rest ih =>
    unfold searchRace at h
    cases hp : probe fs r.fault e key with
    | skip => simp only [hp] at h; exact ih h
    | raise => simp [hp] at h
    | found l f u =>
      simp only [hp] at h
      cases e with
      | fn d c => simp at h
      | dir d b =>
        obtain ⟨_, hfs, _⟩ := probe_found hp
        by_cases hb : rw.before = true
        · simp only [hb, ↓reduceIte, Option.some.injEq] at h; subst h; exact ⟨f, hfs⟩
        · simp only [hb, Bool.false_eq_true, ↓reduceIte, Option.some.injEq] at h; subst h; exact ⟨f, hfs⟩

/-- no replacement landed: the plain loop -/
theorem searchRace_notfired {fstat : Bool} {cfg : Cfg} {fs : FS} {clock : Nat} {s : LState} {r : Req}
    {key : Key} {isabs : Bool} {rw : RaceW} {entries : List Entry}
    (h : (searchRace fstat cfg fs clock s r key isabs rw entries).2 = none) :
    (searchRace fstat cfg fs clock s r key isabs rw entries).1 = search cfg fs s r key isabs entries := by
  induction entries with
  | nil => rfl
  | cons e rest ih =>
    unfold searchRace search
    unfold searchRace at h
    cases hp : probe fs r.fault e key with
    | skip => simp only [hp] at h ⊢; exact ih h
    | raise => rfl
    | found l f u =>
      simp only [hp] at h
      cases e with
      | fn d c => rfl
      | dir d b =>
        by_cases hb : rw.before = true
        · simp [hb] at h
        · simp [hb] at h

/-- an entry that was passed over is passed over after the replacement too -/
theorem probe_skip_fsSet {fs : FS} {fault : Fault} {e : Entry} {key : Key} {loc : Loc} {f : File}
    (v : Option File) (hp : probe fs fault e key = .skip) (hf : fs loc = some f) :
    probe (fsSet fs loc v) fault e key = .skip := by
  have hne : ∀ l, fs l = none → fsSet fs loc v l = none := by
    intro l hl
    unfold fsSet
    by_cases e : l = loc
    · subst e; rw [hf] at hl; cases hl
    · simp [e, hl]
  unfold probe at hp ⊢
  cases e with
  | dir d b =>
    simp only at hp ⊢
    cases hl : locate (.dir d b) key with
    | none => rfl
    | some l =>
      simp only [hl] at hp ⊢
      cases hfl : fs l with
      | none => simp [hne l hfl]
      | some f' => simp [hfl] at hp
  | fn d c =>
    simp only at hp ⊢
    cases fault with
    | io => rfl
    | other => simp at hp
    | none =>
      simp only at hp ⊢
      cases hl : locate (.fn d c) key with
      | none => rfl
      | some l =>
        simp only [hl] at hp ⊢
        cases hfl : fs l with
        | none => simp [hne l hfl]
        | some f' => simp [hfl] at hp

/-- replacement before `open`: the loop does what it does on the file system with the new file -/
theorem searchRace_before {fstat : Bool} {cfg : Cfg} {fs : FS} {clock : Nat} {s : LState} {r : Req}
    {key : Key} {isabs : Bool} {rw : RaceW} {entries : List Entry} {loc : Loc} (hb : rw.before = true)
    (h : (searchRace fstat cfg fs clock s r key isabs rw entries).2 = some loc) :
    (searchRace fstat cfg fs clock s r key isabs rw entries).1 =
      search cfg (fsSet fs loc (some ⟨rw.content, rw.bad, clock⟩)) s r key isabs entries := by
  obtain ⟨f0, hf0⟩ := searchRace_fired h
  induction entries with
  | nil => simp [searchRace] at h
  | cons e rest ih =>
    unfold searchRace search
    unfold searchRace at h
    cases hp : probe fs r.fault e key with
    | skip =>
      simp only [hp] at h ⊢
      rw [probe_skip_fsSet _ hp hf0]
      exact ih h
    | raise => simp [hp] at h
    | found l f u =>
      simp only [hp] at h
      cases e with
      | fn d c => simp at h
      | dir d b =>
        simp only [hb, ↓reduceIte, Option.some.injEq] at h
        subst h
        obtain ⟨hl, _, _⟩ := probe_found hp
        have hp' : probe (fsSet fs l (some ⟨rw.content, rw.bad, clock⟩)) r.fault (.dir d b) key =
            .found l ⟨rw.content, rw.bad, clock⟩ (.mtime l clock) := by
          unfold probe
          simp [hl, fsSet]
        rw [hp']
        simp [hb]

/-! ### between acquire and release -/

theorem loadBodyRace_cases (fstat : Bool) (cfg : Cfg) (fs : FS) (clock : Nat) (s : LState) (r : Req)
    (key : Key) (rw : RaceW) :
    (∃ t, alookup key s.cache.items = some t ∧
        (cfg.autoReload = false ∨ stillCurrent fs s key = true) ∧
        loadBodyRace fstat cfg fs clock s r key rw = ((touched s key, .ok t), none)) ∨
    ((alookup key s.cache.items = none ∨ (cfg.autoReload = true ∧ stillCurrent fs s key = false)) ∧
      ((searchPath cfg r key = none ∧
          loadBodyRace fstat cfg fs clock s r key rw = ((touched s key, .err .noSearchPath), none)) ∨
       ∃ entries isabs, searchPath cfg r key = some (entries, isabs) ∧
         loadBodyRace fstat cfg fs clock s r key rw =
           searchRace fstat cfg fs clock (touched s key) r key isabs rw entries)) := by
  have hsc : ∀ c, stillCurrent fs { s with cache := c } key = stillCurrent fs s key := fun _ => rfl
  unfold loadBodyRace touched
  cases hl : alookup key s.cache.items with
  | none =>
    right
    refine ⟨Or.inl rfl, ?_⟩
    cases hsp : searchPath cfg r key with
    | none => left; simp
    | some p => right; exact ⟨p.1, p.2, rfl, by simp⟩
  | some t =>
    by_cases har : cfg.autoReload = true
    · by_cases hcur : stillCurrent fs s key = true
      · left; refine ⟨t, rfl, Or.inr hcur, ?_⟩
        simp [har, hsc, hcur]
      · have hcur' : stillCurrent fs s key = false := by simpa using hcur
        right
        refine ⟨Or.inr ⟨har, hcur'⟩, ?_⟩
        cases hsp : searchPath cfg r key with
        | none => left; simp [har, hsc, hcur']
        | some p => right; exact ⟨p.1, p.2, rfl, by simp [har, hsc, hcur']⟩
    · have har' : cfg.autoReload = false := by simpa using har
      left; refine ⟨t, rfl, Or.inl har', ?_⟩
      simp [har']

/-- how `loadBody` relates to the two case lemmas: the same decision, the plain loop -/
theorem loadBody_search {cfg : Cfg} {fs : FS} {s : LState} {r : Req} {key : Key} {entries : List Entry}
    {isabs : Bool}
    (hno : alookup key s.cache.items = none ∨ (cfg.autoReload = true ∧ stillCurrent fs s key = false))
    (hsp : searchPath cfg r key = some (entries, isabs)) :
    loadBody cfg fs s r key = search cfg fs (touched s key) r key isabs entries := by
  rcases loadBody_cases cfg fs s r key with ⟨t, hl, hc, _⟩ | ⟨_, ⟨hn, _⟩ | ⟨en, ia, hsp', hb⟩⟩
  · rcases hno with hno | ⟨har, hcur⟩
    · rw [hno] at hl; cases hl
    · rcases hc with hc | hc
      · rw [har] at hc; cases hc
      · rw [hcur] at hc; cases hc
  · rw [hsp] at hn; cases hn
  · rw [hsp] at hsp'
    simp only [Option.some.injEq, Prod.mk.injEq] at hsp'
    obtain ⟨rfl, rfl⟩ := hsp'
    exact hb

theorem loadBody_nopath {cfg : Cfg} {fs : FS} {s : LState} {r : Req} {key : Key}
    (hno : alookup key s.cache.items = none ∨ (cfg.autoReload = true ∧ stillCurrent fs s key = false))
    (hsp : searchPath cfg r key = none) :
    loadBody cfg fs s r key = (touched s key, .err .noSearchPath) := by
  rcases loadBody_cases cfg fs s r key with ⟨t, hl, hc, _⟩ | ⟨_, ⟨_, hb⟩ | ⟨en, ia, hsp', _⟩⟩
  · rcases hno with hno | ⟨har, hcur⟩
    · rw [hno] at hl; cases hl
    · rcases hc with hc | hc
      · rw [har] at hc; cases hc
      · rw [hcur] at hc; cases hc
  · exact hb
  · rw [hsp] at hsp'; cases hsp'

/-- no replacement landed (served from the cache, nothing found, a user's load function
    delivered): the plain body -/
theorem loadBodyRace_notfired {fstat : Bool} {cfg : Cfg} {fs : FS} {clock : Nat} {s : LState} {r : Req}
    {key : Key} {rw : RaceW} (h : (loadBodyRace fstat cfg fs clock s r key rw).2 = none) :
    (loadBodyRace fstat cfg fs clock s r key rw).1 = loadBody cfg fs s r key := by
  rcases loadBodyRace_cases fstat cfg fs clock s r key rw with ⟨t, hl, hc, hb⟩ | ⟨hno, ⟨hsp, hb⟩ | ⟨en, ia, hsp, hb⟩⟩
  · rw [hb, loadBody_served hl hc]
  · rw [hb, loadBody_nopath hno hsp]
  · rw [hb] at h ⊢
    rw [loadBody_search hno hsp]
    exact searchRace_notfired h

/-- replacement right after `open`: the plain body on the old file system -/
theorem loadBodyRace_after (cfg : Cfg) (fs : FS) (clock : Nat) (s : LState) (r : Req) (key : Key)
    (rw : RaceW) (hb : rw.before = false) :
    (loadBodyRace true cfg fs clock s r key rw).1 = loadBody cfg fs s r key := by
  rcases loadBodyRace_cases true cfg fs clock s r key rw with ⟨t, hl, hc, hbd⟩ | ⟨hno, ⟨hsp, hbd⟩ | ⟨en, ia, hsp, hbd⟩⟩
  · rw [hbd, loadBody_served hl hc]
  · rw [hbd, loadBody_nopath hno hsp]
  · rw [hbd, loadBody_search hno hsp]
    exact searchRace_after cfg fs clock _ r key ia rw hb en

/-- a cached template that is not current stays not current when a file gets a time that no
    remembered time equals -/
theorem stillCurrent_fsSet {fs : FS} {s : LState} {key : Key} {loc : Loc} {f0 : File} {c : Nat} {b : Bool}
    {clock : Nat} (hf0 : fs loc = some f0) (hold : ∀ l m, s.utd key = some (.mtime l m) → m < clock)
    (h : stillCurrent fs s key = false) :
    stillCurrent (fsSet fs loc (some ⟨c, b, clock⟩)) s key = false := by
  unfold stillCurrent at h ⊢
  cases hu : s.utd key with
  | none => rfl
  | some u =>
    cases u with
    | never => rfl
    | mtime l m =>
      simp only [hu] at h ⊢
      have hm := hold l m hu
      by_cases e : l = loc
      · subst e
        simp only [fsSet, ↓reduceIte]
        simp only [beq_eq_false_iff_ne, ne_eq]
        omega
      · simp only [fsSet, e, ↓reduceIte]
        exact h

/-- replacement before `open`: the plain body on the file system that holds the new file -/
theorem loadBodyRace_before {fstat : Bool} {cfg : Cfg} {fs : FS} {clock : Nat} {s : LState} {r : Req}
    {key : Key} {rw : RaceW} {loc : Loc} (hb : rw.before = true)
    (hold : ∀ t, alookup key s.cache.items = some t → ∀ l m, s.utd key = some (.mtime l m) → m < clock)
    (h : (loadBodyRace fstat cfg fs clock s r key rw).2 = some loc) :
    (loadBodyRace fstat cfg fs clock s r key rw).1 =
      loadBody cfg (fsSet fs loc (some ⟨rw.content, rw.bad, clock⟩)) s r key := by
  rcases loadBodyRace_cases fstat cfg fs clock s r key rw with ⟨t, hl, hc, hbd⟩ | ⟨hno, ⟨hsp, hbd⟩ | ⟨en, ia, hsp, hbd⟩⟩
  · rw [hbd] at h; cases h
  · rw [hbd] at h; cases h
  · rw [hbd] at h ⊢
    obtain ⟨f0, hf0⟩ := searchRace_fired h
    have hno' : alookup key s.cache.items = none ∨ (cfg.autoReload = true ∧
        stillCurrent (fsSet fs loc (some ⟨rw.content, rw.bad, clock⟩)) s key = false) := by
      cases hl : alookup key s.cache.items with
      | none => exact Or.inl rfl
      | some t =>
        rcases hno with hno | ⟨har, hcur⟩
        · rw [hl] at hno; cases hno
        · exact Or.inr ⟨har, stillCurrent_fsSet hf0 (hold t hl) hcur⟩
    rw [loadBody_search hno' hsp]
    exact searchRace_before hb h

/-! ### `load` -/

theorem loadRace_none {fstat : Bool} {cfg : Cfg} {fs : FS} {clock : Nat} {s : LState} {r : Req} {rw : RaceW} :
    loadRace fstat cfg fs clock s r rw = none ↔ load cfg fs s r = none := by
  unfold loadRace load
  cases resolve cfg.path.isEmpty r <;> simp

theorem loadRace_notfired {fstat : Bool} {cfg : Cfg} {fs : FS} {clock : Nat} {s : LState} {r : Req}
    {rw : RaceW} {p : LState × Res} (h : loadRace fstat cfg fs clock s r rw = some (p, none)) :
    load cfg fs s r = some p := by
  unfold loadRace at h
  unfold load
  cases hk : resolve cfg.path.isEmpty r with
  | none => simp [hk] at h
  | some key =>
    simp only [hk, Option.some.injEq, Prod.mk.injEq] at h ⊢
    obtain ⟨h1, h2⟩ := h
    rw [← loadBodyRace_notfired h2]
    exact h1

theorem loadRace_after {cfg : Cfg} {fs : FS} {clock : Nat} {s : LState} {r : Req}
    {rw : RaceW} {p : LState × Res} {fired : Option Loc} (hb : rw.before = false)
    (h : loadRace true cfg fs clock s r rw = some (p, fired)) : load cfg fs s r = some p := by
  unfold loadRace at h
  unfold load
  cases hk : resolve cfg.path.isEmpty r with
  | none => simp [hk] at h
  | some key =>
    simp only [hk, Option.some.injEq, Prod.mk.injEq] at h ⊢
    obtain ⟨h1, _⟩ := h
    rw [← loadBodyRace_after cfg fs clock _ r key rw hb]
    exact h1

theorem loadRace_before {fstat : Bool} {cfg : Cfg} {fs : FS} {clock : Nat} {s : LState} {r : Req}
    {rw : RaceW} {p : LState × Res} {loc : Loc} (hb : rw.before = true)
    (hold : ∀ key t, alookup key s.cache.items = some t → ∀ l m, s.utd key = some (.mtime l m) → m < clock)
    (h : loadRace fstat cfg fs clock s r rw = some (p, some loc)) :
    load cfg (fsSet fs loc (some ⟨rw.content, rw.bad, clock⟩)) s r = some p := by
  unfold loadRace at h
  unfold load
  cases hk : resolve cfg.path.isEmpty r with
  | none => simp [hk] at h
  | some key =>
    simp only [hk, Option.some.injEq, Prod.mk.injEq] at h ⊢
    obtain ⟨h1, h2⟩ := h
    have hold' : ∀ t, alookup key ({ s with lock := s.lock + 1 } : LState).cache.items = some t →
        ∀ l m, ({ s with lock := s.lock + 1 } : LState).utd key = some (.mtime l m) → m < clock :=
      fun t ht l m hu => hold key t ht l m hu
    rw [← loadBodyRace_before hb hold' h2]
    exact h1

/-! ### histories -/

/-- the plain history a racing load amounts to, given where the replacement landed -/
def linearise (r : Req) (rw : RaceW) : Option Loc → List HOp
  | none => [.load r]
  | some loc =>
    if rw.before then [.write loc rw.content rw.bad, .load r] else [.load r, .write loc rw.content rw.bad]

/-- where the replacement lands for this request in this world -/
def firedAt (cfg : Cfg) (w : World) (r : Req) (rw : RaceW) : Option Loc :=
  match loadRace true cfg w.fs w.clock w.ls r rw with
  | some (_, l) => l
  | none => none

theorem hrun_append (cfg : Cfg) (w : World) (a b : List HOp) :
    hrun cfg w (a ++ b) =
      ((hrun cfg (hrun cfg w a).1 b).1, (hrun cfg w a).2 ++ (hrun cfg (hrun cfg w a).1 b).2) := by
  induction a generalizing w with
  | nil => rfl
  | cons op a ih => simp only [List.cons_append, hrun, ih]

/-- **Linearisation of one racing load.**  In a world reached by a history (`Inv`), a load during
    which the file it opens is replaced has exactly the effect — file system, clock, loader state,
    result — of the plain load followed by the write (replacement after `open`), of the write
    followed by the plain load (replacement before `open`), or of the plain load alone (no
    directory file was opened). -/
theorem hstepR_linear {cfg : Cfg} {w : World} (hi : Inv w) (r : Req) (rw : RaceW) :
    (hrun cfg w (linearise r rw (firedAt cfg w r rw))).1 = (hstepR true cfg w (.loadRace r rw)).1 ∧
    (hrun cfg w (linearise r rw (firedAt cfg w r rw))).2.filterMap id =
      [(hstepR true cfg w (.loadRace r rw)).2].filterMap id := by
  unfold firedAt hstepR
  cases hlr : loadRace true cfg w.fs w.clock w.ls r rw with
  | none =>
    have hl := loadRace_none.mp hlr
    simp [linearise, hrun, hstep, hl, hlr]
  | some q =>
    obtain ⟨⟨ls', res⟩, fired⟩ := q
    cases fired with
    | none =>
      have hl := loadRace_notfired hlr
      simp [linearise, hrun, hstep, hl, hlr]
    | some loc =>
      by_cases hb : rw.before = true
      · have hold : ∀ key t, alookup key w.ls.cache.items = some t →
            ∀ l m, w.ls.utd key = some (.mtime l m) → m < w.clock :=
          fun key t ht l m hu => (hi.coherent key t (alookup_mem ht) l m hu).2.1
        have hl := loadRace_before hb hold hlr
        simp [linearise, hb, hrun, hstep, hl, hlr]
      · have hb' : rw.before = false := by simpa using hb
        have hl := loadRace_after hb' hlr
        simp [linearise, hb', hrun, hstep, hl, hlr]

/-- does the history use `writeAt`? -/
def HOpR.isWriteAt : HOpR → Bool
  | .writeAt _ _ _ _ => true
  | _ => false

/-- **Histories with racing replacements are plain histories**: for every history in which
    loads may be raced by a replacement of the file they open (and every modification is stamped
    by the clock) there is a plain history (writes, touches, deletions, loads) with the same final
    world and the same results of the loads, in order. -/
theorem hrunR_plain (cfg : Cfg) (ops : List HOpR) (hno : ∀ op ∈ ops, op.isWriteAt = false) :
    ∀ (w : World), Inv w →
    ∃ ops' : List HOp, (hrun cfg w ops').1 = (hrunR true cfg w ops).1 ∧
      (hrun cfg w ops').2.filterMap id = (hrunR true cfg w ops).2.filterMap id := by
  induction ops with
  | nil => intro w _; exact ⟨[], rfl, rfl⟩
  | cons op rest ih =>
    intro w hi
    have hno' : ∀ op ∈ rest, op.isWriteAt = false := fun o ho => hno o (List.mem_cons_of_mem _ ho)
    cases op with
    | plain p =>
      obtain ⟨rest', h1, h2⟩ := ih hno' (hstep cfg w p).1 (inv_hstep hi p)
      refine ⟨p :: rest', ?_, ?_⟩
      · simp only [hrun, hrunR, hstepR]; exact h1
      · simp only [hrun, hrunR, hstepR]
        cases (hstep cfg w p).2 <;> simp [h2]
    | loadRace r rw =>
      obtain ⟨hw, hres⟩ := hstepR_linear (cfg := cfg) hi r rw
      have hi1 : Inv (hstepR true cfg w (.loadRace r rw)).1 := by
        rw [← hw]; exact inv_hrun hi _
      obtain ⟨rest', h1, h2⟩ := ih hno' _ hi1
      refine ⟨linearise r rw (firedAt cfg w r rw) ++ rest', ?_, ?_⟩
      · rw [hrun_append]; simp only [hrunR]; rw [hw]; exact h1
      · rw [hrun_append]; simp only [hrunR, List.filterMap_append]
        rw [hres, hw, h2]
        cases (hstepR true cfg w (.loadRace r rw)).2 <;> simp
    | writeAt loc c b m =>
      have := hno (.writeAt loc c b m) (by simp)
      simp [HOpR.isWriteAt] at this

/-! ### modification times that do not grow -/

/-- the time a modification sets differs from every time the loader remembers for that file
    (in particular from the file's current time while its cached template is current).  A
    different content under a remembered time is the known limit of reloading by modification
    time (`mtime_reuse_serves_stale` in `Props/C15.lean`). -/
def FreshTime (w : World) (loc : Loc) (m : Nat) : Prop :=
  ∀ k t m', (k, t) ∈ w.ls.cache.items → w.ls.utd k = some (.mtime loc m') → m' ≠ m

/-- every `writeAt` of the history sets a fresh time, judged in the world it happens in -/
def ValidR (cfg : Cfg) : World → List HOpR → Prop
  | _, [] => True
  | w, op :: ops =>
    (match op with
      | .writeAt loc _ _ m => FreshTime w loc m
      | _ => True) ∧ ValidR cfg (hstepR true cfg w op).1 ops

theorem validR_of_noWriteAt (cfg : Cfg) (ops : List HOpR) (hno : ∀ op ∈ ops, op.isWriteAt = false) :
    ∀ w, ValidR cfg w ops := by
  induction ops with
  | nil => intro _; trivial
  | cons op rest ih =>
    intro w
    refine ⟨?_, ih (fun o ho => hno o (List.mem_cons_of_mem _ ho)) _⟩
    cases op with
    | writeAt loc c b m =>
      have := hno (.writeAt loc c b m) (by simp)
      simp [HOpR.isWriteAt] at this
    | _ => trivial

theorem inv_writeAt {w : World} (hi : Inv w) (loc : Loc) (c : Nat) (b : Bool) (m : Nat)
    (hf : FreshTime w loc m) :
    Inv { w with fs := fsSet w.fs loc (some ⟨c, b, m⟩), clock := max w.clock (m + 1) } := by
  refine ⟨?_, ?_, hi.awf, hi.objs, hi.parsedOld, hi.lock⟩
  · intro l f hfl
    simp only [fsSet] at hfl ⊢
    split at hfl
    · cases hfl; simp only; omega
    · have := hi.mtimes l f hfl; omega
  · intro k t hm l m' hutd
    obtain ⟨h1, h2, h3⟩ := hi.coherent k t hm l m' hutd
    refine ⟨h1, by simp only; omega, ?_⟩
    intro f hfl hfm
    simp only [fsSet] at hfl
    split at hfl
    · rename_i e
      subst e
      cases hfl
      exact absurd hfm.symm (hf k t m' hm hutd)
    · exact h3 f hfl hfm

theorem inv_hstepR {cfg : Cfg} {w : World} (hi : Inv w) (op : HOpR)
    (hv : match op with
      | .writeAt loc _ _ m => FreshTime w loc m
      | _ => True) : Inv (hstepR true cfg w op).1 := by
  cases op with
  | plain p => exact inv_hstep hi p
  | loadRace r rw =>
    rw [← (hstepR_linear (cfg := cfg) hi r rw).1]; exact inv_hrun hi _
  | writeAt loc c b m => exact inv_writeAt hi loc c b m hv

/-- the history invariant holds after every valid history: racing replacements, and
    modifications that set any fresh time, older ones included -/
theorem inv_hrunR {cfg : Cfg} (ops : List HOpR) : ∀ {w : World}, Inv w → ValidR cfg w ops →
    Inv (hrunR true cfg w ops).1 := by
  induction ops with
  | nil => intro w hi _; exact hi
  | cons op rest ih =>
    intro w hi hv
    simp only [hrunR]
    exact ih (inv_hstepR hi op hv.1) hv.2

end Genshi.Loader

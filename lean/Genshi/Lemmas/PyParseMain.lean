/-
  C13 — `parse_gen`: the structural induction over syntax trees.
-/
import Genshi.Lemmas.PyParseLambda
namespace Genshi.Py
open Genshi.Gen

/-- what the induction establishes for a node (helper nodes: the goals of their parts) -/
def Goal : PyExpr → Prop
  | .starred x => ExprGoal x
  | .keyword n v => (∀ s, n = some s → IdentOK s) ∧ ExprGoal v
  | .comp t it ifs _ => ExprGoal t ∧ ExprGoal it ∧ ∀ c ∈ ifs, ExprGoal c
  | .param n ann d => IdentOK n ∧ OptGoal ann ∧ OptGoal d
  | .dictItem k v => OptGoal k ∧ ExprGoal v
  | .cmpRhs op e => (lookup AstGen.comparisonOperators op).isSome = true ∧ ExprGoal e
  | .slice l u st => OptGoal l ∧ OptGoal u ∧ OptGoal st
  | .unsupported _ => True
  | e => ExprGoal e

theorem goal_expr {e : PyExpr} (he : isExpr e = true) (g : Goal e) : ExprGoal e := by
  cases e <;> first | exact g | simp [isExpr] at he

theorem goals_expr {es : List PyExpr} (he : es.all isExpr = true) (g : ∀ x ∈ es, Goal x) : ∀ x ∈ es, ExprGoal x :=
  fun x hx => goal_expr (List.all_eq_true.mp he x hx) (g x hx)

theorem goal_optexpr {o : Option PyExpr} (he : exprO o = true) (g : ∀ x, o = some x → Goal x) : OptGoal o := by
  intro x hx; subst hx; exact goal_expr he (g x rfl)

theorem goals_elt {es : List PyExpr} (he : es.all isElt = true) (g : ∀ x ∈ es, Goal x) : ∀ x ∈ es, EltGoal x := by
  intro x hx
  have h1 := List.all_eq_true.mp he x hx
  have h2 := g x hx
  cases x <;> first
    | exact Or.inl ⟨_, rfl, h2⟩
    | exact Or.inr ⟨rfl, h2⟩
    | simp [isElt, isExpr] at h1

theorem goals_kw {es : List PyExpr} (he : es.all isKw = true) (g : ∀ x ∈ es, Goal x) : ∀ x ∈ es, KwGoal x := by
  intro x hx
  have h1 := List.all_eq_true.mp he x hx
  have h2 := g x hx
  cases x <;> first
    | exact ⟨_, _, rfl, h2.1, h2.2⟩
    | simp [isKw] at h1

theorem goals_ditem {es : List PyExpr} (he : es.all isDItem = true) (g : ∀ x ∈ es, Goal x) :
    ∀ x ∈ es, DItemGoal x := by
  intro x hx
  have h1 := List.all_eq_true.mp he x hx
  have h2 := g x hx
  cases x with
  | dictItem k v =>
    cases k with
    | none => simp [isDItem] at h1
    | some k => exact ⟨k, v, rfl, h2.1 k rfl, h2.2⟩
  | _ => simp [isDItem] at h1

theorem goals_comp {es : List PyExpr} (he : es.all isComp = true) (g : ∀ x ∈ es, Goal x) :
    ∀ x ∈ es, CompGoal x := by
  intro x hx
  have h1 := List.all_eq_true.mp he x hx
  have h2 := g x hx
  cases x <;> first
    | exact ⟨_, _, _, _, rfl, h2.1, h2.2.1, h2.2.2⟩
    | simp [isComp] at h1

theorem goals_cmp {es : List PyExpr} (he : es.all isCmp = true) (g : ∀ x ∈ es, Goal x) :
    ∀ x ∈ es, CmpGoal x := by
  intro x hx
  have h1 := List.all_eq_true.mp he x hx
  have h2 := g x hx
  cases x <;> first
    | exact ⟨_, _, rfl, h2.1, h2.2⟩
    | simp [isCmp] at h1

theorem goals_param {es : List PyExpr} (he : es.all isPlainParam = true) (g : ∀ x ∈ es, Goal x) :
    ∀ x ∈ es, ParamGoal x := by
  intro x hx
  have h1 := List.all_eq_true.mp he x hx
  have h2 := g x hx
  cases x with
  | param n ann d =>
    cases ann with
    | some a => simp [isPlainParam] at h1
    | none => exact ⟨n, d, rfl, h2.1, h2.2.2⟩
  | _ => simp [isPlainParam] at h1

theorem goal_var {o : Option PyExpr} (he : ∀ v, o = some v → isVarParam v = true) (g : ∀ x, o = some x → Goal x) :
    VarGoal o := by
  intro p hp
  have h1 := he p hp
  have h2 := g p hp
  cases p with
  | param n ann d =>
    cases ann with
    | some a => simp [isVarParam] at h1
    | none =>
      cases d with
      | some a => simp [isVarParam] at h1
      | none => exact ⟨n, rfl, h2.1⟩
  | _ => simp [isVarParam] at h1

theorem goal_slice {s : PyExpr} (hs : isExpr s = true ∨ isSlice s = true) (g : Goal s) : SliceGoal s := by
  rcases hs with h | h
  · left
    refine ⟨?_, goal_expr h g⟩
    cases s <;> first | rfl | simp [isExpr] at h
  · cases s <;> first
      | exact Or.inr ⟨_, _, _, rfl, g.1, g.2.1, g.2.2⟩
      | simp [isSlice] at h

mutual
theorem main : ∀ (e : PyExpr), WF e → Goal e
  | .name id, h => spine_name id h
  | .const c, h => spine_const c h
  | .boolOp op vs, h => by
      simp only [WF] at h
      exact goal_boolOp op vs h.1 h.2.1 (goals_expr h.2.2.2 (mainL vs h.2.2.1))
  | .binOp l op r, h => by
      simp only [WF] at h
      exact goal_binOp l r op (goal_expr h.2.2.2.1 (main l h.2.1)) (goal_expr h.2.2.2.2 (main r h.2.2.1)) h.1
  | .unaryOp op e, h => by
      simp only [WF] at h
      exact goal_unaryOp e op (goal_expr h.2.2 (main e h.2.1)) h.1
  | .lambda po ar va ko ka body, h => by
      simp only [WF] at h
      obtain ⟨h1, h2, h3, h4, h5, h6, h7, h8, h9, h10, h11, h12⟩ := h
      exact goal_lambda po ar va ko ka body (goals_param h8 (mainL po h1)) (goals_param h9 (mainL ar h2))
        (goals_param h10 (mainL ko h4)) (goal_var h11 (mainO va h3)) (goal_var h12 (mainO ka h5))
        (goal_expr h7 (main body h6))
  | .ifExp t b o, h => by
      simp only [WF] at h
      exact goal_ifExp t b o (goal_expr h.2.2.2.1 (main t h.1)) (goal_expr h.2.2.2.2.1 (main b h.2.1))
        (goal_expr h.2.2.2.2.2 (main o h.2.2.1))
  | .dict items, h => by
      simp only [WF] at h
      exact goal_dict items (goals_ditem h.2 (mainL items h.1))
  | .listComp elt gens, h => by
      simp only [WF] at h
      exact goal_listComp elt gens (goal_expr h.2.1 (main elt h.1)) h.2.2.2.1 (goals_comp h.2.2.2.2 (mainL gens h.2.2.1))
  | .genExp elt gens, h => by
      simp only [WF] at h
      exact goal_genExp elt gens (goal_expr h.2.1 (main elt h.1)) h.2.2.2.1 (goals_comp h.2.2.2.2 (mainL gens h.2.2.1))
  | .yield_ none, _ => goal_yield_none
  | .yield_ (some x), h => by
      simp only [WF, WFO, exprO] at h
      exact goal_yield_some x (goal_expr h.2 (main x h.1))
  | .compare l rest, h => by
      simp only [WF] at h
      exact goal_compare l rest (goal_expr h.2.1 (main l h.1)) h.2.2.2.1 (goals_cmp h.2.2.2.2 (mainL rest h.2.2.1))
  | .call f args kws, h => by
      simp only [WF] at h
      exact goal_call f args kws (goal_expr h.2.1 (main f h.1)) (goals_elt h.2.2.2.1 (mainL args h.2.2.1))
        (goals_kw h.2.2.2.2.2 (mainL kws h.2.2.2.2.1))
  | .attribute v a, h => by
      simp only [WF] at h
      exact goal_attribute v a (goal_expr h.2.1 (main v h.1)) h.2.2.2
  | .subscript v s, h => by
      simp only [WF] at h
      exact goal_subscript v s (goal_expr h.2.1 (main v h.1)) (goal_slice h.2.2.2 (main s h.2.2.1))
  | .slice l u st, h => by
      simp only [WF] at h
      exact ⟨goal_optexpr h.2.2.2.1 (mainO l h.1), goal_optexpr h.2.2.2.2.1 (mainO u h.2.1),
        goal_optexpr h.2.2.2.2.2 (mainO st h.2.2.1)⟩
  | .starred e, h => by
      simp only [WF] at h
      exact goal_expr h.2 (main e h.1)
  | .list elts, h => by
      simp only [WF] at h
      exact goal_list elts (goals_elt h.2 (mainL elts h.1))
  | .tuple elts, h => by
      simp only [WF] at h
      exact goal_tuple elts (goals_elt h.2 (mainL elts h.1))
  | .unsupported _, _ => trivial
  | .keyword n v, h => by
      simp only [WF] at h
      exact ⟨h.1, goal_expr h.2.2 (main v h.2.1)⟩
  | .comp t it ifs a, h => by
      simp only [WF] at h
      exact ⟨goal_expr h.2.1 (main t h.1), goal_expr h.2.2.2.1 (main it h.2.2.1),
        goals_expr h.2.2.2.2.2 (mainL ifs h.2.2.2.2.1)⟩
  | .param n ann d, h => by
      simp only [WF] at h
      exact ⟨h.1, goal_optexpr h.2.2.2.1 (mainO ann h.2.1), goal_optexpr h.2.2.2.2 (mainO d h.2.2.1)⟩
  | .dictItem k v, h => by
      simp only [WF] at h
      exact ⟨goal_optexpr h.2.1 (mainO k h.1), goal_expr h.2.2.2 (main v h.2.2.1)⟩
  | .cmpRhs op e, h => by
      simp only [WF] at h
      exact ⟨h.1, goal_expr h.2.2 (main e h.2.1)⟩
theorem mainL : ∀ (es : List PyExpr), WFL es → ∀ x ∈ es, Goal x
  | [], _ => by simp
  | e :: es, h => by
      simp only [WFL] at h
      intro x hx
      rcases List.mem_cons.mp hx with hxe | hx
      · rw [hxe]; exact main e h.1
      · exact mainL es h.2 x hx
theorem mainO : ∀ (o : Option PyExpr), WFO o → ∀ x, o = some x → Goal x
  | none, _ => by simp
  | some e, h => by
      simp only [WFO] at h
      intro x hx
      cases hx
      exact main e h
end

end Genshi.Py

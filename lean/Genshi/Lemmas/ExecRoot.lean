/-
  Helper lemmas tying the roots of C14 (how the root template comes to exist: `mkLoader`,
  `mkRoot` of `Genshi/Model/ExecGraph.lean`, defined from the generated tables) to the invariants
  of `Genshi/Lemmas/ExecGraph.lean`.
-/
import Genshi.Lemmas.Exec
import Genshi.Lemmas.ExecGraph
namespace Genshi.Exec
open Genshi.Gen.Exec

/-! ### the include-graph model: arbitrary (cyclic) include graphs, caches, histories -/

theorem st0_clean (ar : Bool) : StClean (st0 false ar) := ⟨rfl, by intro k t h; simp [st0] at h⟩

theorem mkLoader_disabled (cfg : Config) (root : Root) (st : St) (hd : root.disabled cfg)
    (h : mkLoader cfg root = .ok st) : StClean st ∧ st.sentinel = [] := by
  cases root with
  | direct c s own =>
      cases own with
      | true =>
          have ht : cfg.tmpl = .off := hd
          simp only [mkLoader, ht] at h
          cases c <;> cases s <;> simp [directLoaderFlag] at h <;> (subst h; exact ⟨st0_clean _, rfl⟩)
      | false =>
          obtain ⟨ht, hl⟩ : cfg.tmpl = .off ∧ cfg.loader = .off := hd
          simp only [mkLoader, ht, hl] at h
          cases c <;> cases s <;> simp [directLoaderFlag] at h <;> (subst h; exact ⟨st0_clean _, rfl⟩)
  | load c d =>
      have hl : cfg.loader = .off := hd
      simp only [mkLoader, hl] at h
      cases c <;> cases d <;> simp [loaderFlag] at h <;> (subst h; exact ⟨st0_clean _, rfl⟩)
  | pluginFile p =>
      have hp : parseOpt cfg.opt = .deny := documented_off_denied_lem _ hd
      simp only [mkLoader, hp] at h
      cases h; exact ⟨st0_clean _, rfl⟩
  | pluginString p =>
      have hp : parseOpt cfg.opt = .deny := documented_off_denied_lem _ hd
      simp only [mkLoader, hp] at h
      cases h; exact ⟨st0_clean _, rfl⟩

theorem directFlag_off (c : Cls) (s : Src) (tf : Bool) :
    (directFlag c s .off none = some tf → tf = false) ∧
    (directFlag c s .off (some .off) = some tf → tf = false) := by
  cases c <;> cases s <;> simp [directFlag] <;> (intro h; exact h.symm)

theorem mkRoot_disabled (cfg : Config) (fs : FS) (rn : Nat) (st st' : St) (root : Root) (t : Tmpl)
    (stack : List Nat) (hd : root.disabled cfg) (hc : StClean st)
    (h : mkRoot cfg fs rn st root = .ok (st', t, stack)) :
    StClean st' ∧ noCode t.items = true ∧ st'.sentinel = st.sentinel := by
  cases root with
  | direct c s own =>
      simp only [mkRoot] at h
      cases hf : fs.lookup rn with
      | none => simp [hf] at h
      | some f =>
          cases hdf : directFlag c s cfg.tmpl (if own = true then none else some cfg.loader) with
          | none => simp [hdf] at h
          | some tf =>
              simp only [hdf, hf] at h
              have htf : tf = false := by
                cases own with
                | true =>
                    have ht : cfg.tmpl = .off := hd
                    simp only [ht] at hdf
                    exact (directFlag_off c s tf).1 hdf
                | false =>
                    obtain ⟨ht, hl⟩ : cfg.tmpl = .off ∧ cfg.loader = .off := hd
                    simp [ht, hl] at hdf
                    exact (directFlag_off c s tf).2 hdf
              subst htf
              cases hp : parseFile c false rn f with
              | error e => simp [hp] at h
              | ok t1 =>
                  simp only [hp] at h
                  cases h
                  exact ⟨hc, parse_off_clean c rn f t hp, rfl⟩
  | load c d =>
      simp only [mkRoot] at h
      cases hl : load fs st rn c with
      | error e => simp [hl] at h
      | ok pr =>
          obtain ⟨s1, t1⟩ := pr
          simp only [hl] at h
          cases h
          obtain ⟨h1, h2, h3, _, _⟩ := load_clean fs st st' rn c false t hc hl
          exact ⟨h1, h2, h3⟩
  | pluginFile p =>
      simp only [mkRoot] at h
      cases hpc : pluginCls p with
      | none => simp [hpc] at h
      | some c =>
          simp only [hpc] at h
          cases hl : load fs st rn c with
          | error e => simp [hl] at h
          | ok pr =>
              obtain ⟨s1, t1⟩ := pr
              simp only [hl] at h
              cases h
              obtain ⟨h1, h2, h3, _, _⟩ := load_clean fs st st' rn c false t hc hl
              exact ⟨h1, h2, h3⟩
  | pluginString p =>
      simp only [mkRoot] at h
      rw [hc.1] at h
      cases hpc : pluginCls p with
      | none => simp [hpc] at h
      | some c =>
          cases hr : pluginByFlag p false with
          | none => simp [hpc, hr] at h
          | some row =>
              cases hf : fs.lookup rn with
              | none => simp [hpc, hr, hf] at h
              | some f =>
                  have hs := pluginByFlag_false_safe p row hr
                  simp only [hpc, hr, hf, hs.2.2.2, hs.2.1.2] at h
                  cases hp : parseFile c false rn f with
                  | error e => simp [hp] at h
                  | ok t1 =>
                      simp only [hp] at h
                      cases h
                      refine ⟨⟨rfl, ?_⟩, ?_, rfl⟩
                      · intro k t2 hk; simp [st0] at hk
                      · exact parse_off_clean c rn f t1 hp

/-- which (class, source kind) pairs exist: a parsed stream is a markup-only source -/
def srcOk (c : Cls) (s : Src) : Bool :=
  match c, s with
  | .newtext, .stream => false
  | .oldtext, .stream => false
  | _, _ => true

theorem directFlag_isSome (c : Cls) (s : Src) (q : Req) (ld : Option Req) :
    (directFlag c s q ld).isSome = srcOk c s ∧ (directLoaderFlag c s q ld).isSome = srcOk c s := by
  rcases ld with _ | l
  · cases c <;> cases s <;> cases q <;> exact ⟨rfl, rfl⟩
  · cases c <;> cases s <;> cases q <;> cases l <;> exact ⟨rfl, rfl⟩

theorem loaderFlag_isSome (c : Cls) (d : Bool) (q : Req) : (loaderFlag c d q).isSome = true := by
  cases c <;> cases d <;> cases q <;> rfl

theorem pluginRow_total_check (p : Plugin) (b : Bool) :
    (pluginByFlag p b).any (fun row => row.strF.isSome && row.strLF.isSome) = true := by
  cases p <;> cases b <;> decide +kernel

theorem pluginRow_total (p : Plugin) (b : Bool) :
    ∃ row tf lf, pluginByFlag p b = some row ∧ row.strF = some tf ∧ row.strLF = some lf := by
  have h := pluginRow_total_check p b
  cases hr : pluginByFlag p b with
  | none => rw [hr] at h; cases h
  | some row =>
      rw [hr] at h
      simp only [Option.any_some, Bool.and_eq_true] at h
      obtain ⟨h1, h2⟩ := h
      cases hf : row.strF with
      | none => rw [hf] at h1; cases h1
      | some tf =>
          cases hl : row.strLF with
          | none => rw [hl] at h2; cases h2
          | some lf => exact ⟨row, tf, lf, rfl, hf, hl⟩

/-- reload mode of the loader a root works with -/
def rootAR (root : Root) (ar : Bool) : Bool :=
  match root with
  | .direct _ _ true => false
  | _ => ar

theorem mkLoader_shape (cfg : Config) (root : Root) (st : St) (h : mkLoader cfg root = .ok st) :
    st = st0 st.flag (rootAR root cfg.autoReload) := by
  cases root with
  | direct c s own =>
      simp only [mkLoader] at h
      cases hd : directLoaderFlag c s cfg.tmpl (if own = true then none else some cfg.loader) with
      | none => simp [hd] at h
      | some lf => simp only [hd] at h; cases h; cases own <;> rfl
  | load c d =>
      simp only [mkLoader] at h
      cases hd : loaderFlag c d cfg.loader with
      | none => simp [hd] at h
      | some lf => simp only [hd] at h; cases h; rfl
  | pluginFile p =>
      simp only [mkLoader] at h
      cases hp : parseOpt cfg.opt <;> simp only [hp] at h <;> first | (cases h; rfl) | cases h
  | pluginString p =>
      simp only [mkLoader] at h
      cases hp : parseOpt cfg.opt <;> simp only [hp] at h <;> first | (cases h; rfl) | cases h

/-- bringing the root into existence under another configuration, from a loader state that
    differs in the flag only, over code-free files: same error, or the same template object and
    a state that again differs in the flag only -/
theorem mkRoot_flag (cfg cfg' : Config) (fs : FS) (hfs : FsNoCode fs) (rn : Nat) (st : St) (b : Bool)
    (root : Root) :
    ∃ b', mkRoot cfg' fs rn (st.setFlag b) root =
      match mkRoot cfg fs rn st root with
      | .error e => .error e
      | .ok (s, t, k) => .ok (s.setFlag b', t, k) := by
  cases root with
  | direct c s own =>
      refine ⟨b, ?_⟩
      simp only [mkRoot]
      have h1 := (directFlag_isSome c s cfg.tmpl (if own = true then none else some cfg.loader)).1
      have h2 := (directFlag_isSome c s cfg'.tmpl (if own = true then none else some cfg'.loader)).1
      cases hd : directFlag c s cfg.tmpl (if own = true then none else some cfg.loader) with
      | none =>
          rw [hd] at h1
          cases hd' : directFlag c s cfg'.tmpl (if own = true then none else some cfg'.loader) with
          | none => rfl
          | some tf' => rw [hd', ← h1] at h2; cases h2
      | some tf =>
          rw [hd] at h1
          cases hd' : directFlag c s cfg'.tmpl (if own = true then none else some cfg'.loader) with
          | none => rw [hd', ← h1] at h2; cases h2
          | some tf' =>
              cases hf : fs.lookup rn with
              | none => rfl
              | some f =>
                  simp only
                  rw [parse_noCode_flag c rn f (hfs rn f hf) tf' tf]
                  cases parseFile c tf rn f with
                  | error e => rfl
                  | ok t => rfl
  | load c d =>
      refine ⟨b, ?_⟩
      simp only [mkRoot]
      rw [load_flag fs hfs st rn c false b]
      cases load fs st rn c with
      | error e => rfl
      | ok pr => obtain ⟨s1, t1⟩ := pr; rfl
  | pluginFile p =>
      refine ⟨b, ?_⟩
      simp only [mkRoot]
      cases pluginCls p with
      | none => rfl
      | some c =>
          simp only
          rw [load_flag fs hfs st rn c false b]
          cases load fs st rn c with
          | error e => rfl
          | ok pr => obtain ⟨s1, t1⟩ := pr; rfl
  | pluginString p =>
      obtain ⟨row, tf, lf, hr, htf, hlf⟩ := pluginRow_total p st.flag
      obtain ⟨row', tf', lf', hr', htf', hlf'⟩ := pluginRow_total p b
      refine ⟨lf', ?_⟩
      simp only [mkRoot]
      have hb : (st.setFlag b).flag = b := rfl
      rw [hb, hr, hr']
      cases pluginCls p with
      | none => rfl
      | some c =>
          cases hf : fs.lookup rn with
          | none => rfl
          | some f =>
              simp only [htf, hlf, htf', hlf']
              rw [parse_noCode_flag c rn f (hfs rn f hf) tf' tf]
              cases parseFile c tf rn f with
              | error e => rfl
              | ok t => rfl

theorem st0_faithful (fs : FS) (b ar : Bool) : Faithful fs (st0 b ar) := by
  intro k t h; simp [st0] at h

theorem mkLoader_faithful (cfg : Config) (fs : FS) (root : Root) (st : St) (h : mkLoader cfg root = .ok st) :
    Faithful fs st := by
  rw [mkLoader_shape cfg root st h]; exact st0_faithful fs _ _

theorem mkRoot_faithful (cfg : Config) (fs : FS) (rn : Nat) (st st' : St) (root : Root) (t : Tmpl)
    (stack : List Nat) (hf : Faithful fs st) (h : mkRoot cfg fs rn st root = .ok (st', t, stack)) :
    Faithful fs st' ∧ t.name = rn ∧ TF fs t := by
  have parsed : ∀ c tf f (t : Tmpl), fs.lookup rn = some f → parseFile c tf rn f = .ok t → t.name = rn ∧ TF fs t := by
    intro c tf f t hfl hp
    obtain ⟨hi, hn, hcls⟩ := parse_items c tf rn f t hp
    exact ⟨hn, ⟨f, by rw [hn]; exact hfl, hi, hcls⟩⟩
  cases root with
  | direct c s own =>
      simp only [mkRoot] at h
      cases hfl : fs.lookup rn with
      | none => simp [hfl] at h
      | some f =>
          cases hdf : directFlag c s cfg.tmpl (if own = true then none else some cfg.loader) with
          | none => simp [hdf] at h
          | some tf =>
              simp only [hdf, hfl] at h
              cases hp : parseFile c tf rn f with
              | error e => simp [hp] at h
              | ok t1 =>
                  simp only [hp] at h
                  cases h
                  exact ⟨hf, parsed c tf f _ hfl hp⟩
  | load c d =>
      simp only [mkRoot] at h
      cases hl : load fs st rn c with
      | error e => simp [hl] at h
      | ok pr =>
          obtain ⟨s1, t1⟩ := pr
          simp only [hl] at h
          cases h
          obtain ⟨h1, _, h3, h4, _⟩ := load_faithful fs st st' rn c false t hf hl
          exact ⟨h1, h3, h4⟩
  | pluginFile p =>
      simp only [mkRoot] at h
      cases hpc : pluginCls p with
      | none => simp [hpc] at h
      | some c =>
          simp only [hpc] at h
          cases hl : load fs st rn c with
          | error e => simp [hl] at h
          | ok pr =>
              obtain ⟨s1, t1⟩ := pr
              simp only [hl] at h
              cases h
              obtain ⟨h1, _, h3, h4, _⟩ := load_faithful fs st st' rn c false t hf hl
              exact ⟨h1, h3, h4⟩
  | pluginString p =>
      simp only [mkRoot] at h
      cases hpc : pluginCls p with
      | none => simp [hpc] at h
      | some c =>
          cases hr : pluginByFlag p st.flag with
          | none => simp [hpc, hr] at h
          | some row =>
              cases hfl : fs.lookup rn with
              | none => simp [hpc, hr, hfl] at h
              | some f =>
                  simp only [hpc, hr, hfl] at h
                  cases h1 : row.strF with
                  | none => simp [h1] at h
                  | some tf =>
                      cases h2 : row.strLF with
                      | none => simp [h1, h2] at h
                      | some lf =>
                          simp only [h1, h2] at h
                          cases hp : parseFile c tf rn f with
                          | error e => simp [hp] at h
                          | ok t1 =>
                              simp only [hp] at h
                              obtain ⟨hi, hn, hcls⟩ := parse_items c tf rn f t1 hp
                              cases h
                              refine ⟨?_, hn, ⟨f, by show fs.lookup t1.name = some f; rw [hn]; exact hfl, hi, hcls⟩⟩
                              intro k t2 hk; simp [st0] at hk


end Genshi.Exec

/-
  Paths without position tests under GenericStrategy as operands (`Operand`): what
  `select_eq_xp_nonpositional` (C05) and the spelling theorems of C17 are assembled from.
-/
import Genshi.Lemmas.PathGeneric
import Genshi.Lemmas.PathAgree
import Genshi.Lemmas.PathChain
namespace Genshi.Path
open Genshi Genshi.Path.Ref

theorem runTest_genericL (steps : List Step) (ns : NsMap) (vs : Vars) (g : GState) (es : List Event) :
    runTest [.generic steps] ns vs [.g g] es = (runOne (gStep steps ns vs) g es).1 := by
  induction es generalizing g with
  | nil => rfl
  | cons e es ih =>
    simp only [runTest, multiStep, List.zip_cons_cons, List.zip_nil_right, List.map_cons, List.map_nil,
      Matcher.step, List.foldl_cons, List.foldl_nil, Val.isNone, runOne]
    rw [ih]
    simp

/-- the steps GenericStrategy works with keep the static hypotheses -/
theorem stepsOk_gSteps (ns : NsMap) (vs : Vars) (p : LocPath) (hp : StepsOk ns vs p) :
    StepsOk ns vs (gSteps p false) := by
  obtain ⟨s0, rest, rfl⟩ : ∃ s0 rest, p = s0 :: rest := by
    cases p with
    | nil => have := hp.ne; simp at this
    | cons a b => exact ⟨a, b, rfl⟩
  have hds : StepsOk ns vs (dotSlash :: s0 :: rest) := by
    refine ⟨by simp, ?_, ?_, ?_, ?_⟩
    · intro s hs
      rcases List.mem_cons.mp hs with h | h
      · subst h; simp [dotSlash]
      · exact hp.na s h
    · intro s hs
      rcases List.mem_cons.mp hs with h | h
      · subst h; simp [dotSlash, NodeTest.elemWf]
      · exact hp.wf s h
    · intro s hs
      rcases List.mem_cons.mp hs with h | h
      · subst h; simp [dotSlash]
      · exact hp.typed s h
    · intro s hs
      rcases List.mem_cons.mp hs with h | h
      · subst h; simp [dotSlash]
      · exact hp.nonpos s h
  simp only [gSteps, Bool.false_eq_true, if_false]
  split
  · exact hds
  · exact hp

/-- at the root, position 0 of GenericStrategy's step list stands for the path itself -/
theorem RR_gSteps (ns : NsMap) (vs : Vars) (p : LocPath) (hp : StepsOk ns vs p)
    (tag : QName) (attrs : AttrList) (kids : List Node) (t : LNode) :
    RR ns (toXVars vs) (gSteps p false) 0 ⟨[], .elem tag attrs kids⟩ t
      = reach ns (toXVars vs) p ⟨[], .elem tag attrs kids⟩ t := by
  obtain ⟨s0, rest, rfl⟩ : ∃ s0 rest, p = s0 :: rest := by
    cases p with
    | nil => have := hp.ne; simp at this
    | cons a b => exact ⟨a, b, rfl⟩
  have hna := hp.na s0 List.mem_cons_self
  simp only [gSteps, Bool.false_eq_true, if_false]
  cases hax : s0.axis with
  | «attribute» => exact absurd hax hna
  | child =>
    simp only [RR, pathAt, List.drop_zero, convAxis, dotSlash, withAxis, beq_self_eq_true, Bool.true_or, if_true]
    rw [reach_self ns (toXVars vs) _ _ (by intro q hq; simp at hq) rfl]
    simp [hitR, testNode]
  | descendant =>
    simp only [RR, pathAt, List.drop_zero, convAxis, dotSlash, withAxis, beq_self_eq_true, Bool.true_or,
      Bool.or_true, if_true]
    rw [reach_self ns (toXVars vs) _ _ (by intro q hq; simp at hq) rfl]
    simp [hitR, testNode]
  | self =>
    have h1 : (Axis.self == Axis.child || Axis.self == Axis.attribute || Axis.self == Axis.descendant) = false := by decide
    simp only [h1, Bool.false_eq_true, if_false, RR, pathAt, List.drop_zero, hax, convAxis]
    congr 2
    cases s0; simp_all [withAxis]
  | descendantOrSelf =>
    have h1 : (Axis.descendantOrSelf == Axis.child || Axis.descendantOrSelf == Axis.attribute
                || Axis.descendantOrSelf == Axis.descendant) = false := by decide
    simp only [h1, Bool.false_eq_true, if_false, RR, pathAt, List.drop_zero, hax, convAxis]
    congr 2
    cases s0; simp_all [withAxis]

theorem nodeFor_gSteps (ns : NsMap) (vs : Vars) (p : LocPath) (n : Node) (h : NodeFor p ns vs n) :
    NodeFor (gSteps p false) ns vs n := by
  obtain ⟨h1, h2, h3, h4⟩ := h
  refine ⟨h1, h2, h3, ?_⟩
  cases p with
  | nil => intro s hs; simp [gSteps] at hs
  | cons s0 rest =>
    simp only [gSteps, Bool.false_eq_true, if_false]
    split
    · intro s hs
      rcases List.mem_cons.mp hs with h | h
      · subst h; intro q hq; simp [dotSlash] at hq
      · exact h4 s h
    · exact h4

/-- a path without position tests under GenericStrategy as an operand of a union -/
theorem operand_nonpositional (p : LocPath) (ns : NsMap) (vs : Vars) (hp : StepsOk ns vs p)
    (tag : QName) (attrs : AttrList) (kids : List Node)
    (hcl : (Node.elem tag attrs kids).clean = true)
    (hnodes : AllNodes (NodeFor p ns vs) (.elem tag attrs kids)) :
    Operand ns vs (toXVars vs) (.elem tag attrs kids) p (.generic (gSteps p false)) (.g gInit) := by
  have hS := stepsOk_gSteps ns vs p hp
  refine ⟨?_, ?_, ?_⟩
  · rw [runTest_genericL]
    exact okVals_run _ (gStep_out _ ns vs (fun e => hS.lastResult ns vs e)) _ [] _
  · intro x
    rw [runTest_genericL, generic_nonpos_marks ns vs _ hS _ hcl
      (AllNodes.imp (fun n hn => nodeFor_gSteps ns vs p n hn) _ hnodes) x]
    exact RR_gSteps ns vs p hp tag attrs kids x
  · cases hl : p.getLast? with
    | none =>
      have := List.getLast?_eq_none_iff.mp hl
      have h0 := hp.ne
      simp [this] at h0
    | some last => exact ⟨last, rfl, hp.na last (List.mem_of_getLast? hl)⟩


end Genshi.Path

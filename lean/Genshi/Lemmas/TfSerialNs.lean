/-
  C20 — the NamespaceFlattener (C02's total model `Genshi.Xml.flatRun`, `Model/XmlFlatten.lean`:
  genshi/output.py after the repair "NamespaceFlattener keeps track of which prefix is bound to
  which URI") maps EVERY well-nested stream to a well-nested stream: the name written for an END is
  the name written for its START (the filter keeps the open elements on a stack, `elems`).
-/
import Genshi.Model.XmlFlatten
import Genshi.Lemmas.TfSerial
namespace Genshi.Tf.Serial
open Genshi Genshi.Xml

/-- the stream after `EmptyTagFilter` (C02's vocabulary) read back in the shared vocabulary -/
def expandX : Xml.XEv → List Event
  | .ev e => [e]
  | .empty t a => [.start t a, .end_ t]

def toStreamX (es : List Xml.XEv) : Stream := es.flatMap expandX

/-- the flattened stream (C02's vocabulary) read back in the shared vocabulary -/
def expandXF : Xml.FEv → List Event
  | .start n a => [.start (qn n) (qnAttrs a)]
  | .empty n a => [.start (qn n) (qnAttrs a), .end_ (qn n)]
  | .end_ n => [.end_ (qn n)]
  | .other e => [e]

def toStreamXF (es : List Xml.FEv) : Stream := es.flatMap expandXF

@[simp] theorem toStreamX_cons (e : Xml.XEv) (es : List Xml.XEv) : toStreamX (e :: es) = expandX e ++ toStreamX es := by
  simp [toStreamX]

@[simp] theorem toStreamXF_append (a b : List Xml.FEv) : toStreamXF (a ++ b) = toStreamXF a ++ toStreamXF b := by
  simp [toStreamXF]

/-- the names of the open elements, as the balance stack of the output -/
def openNames (st : FSt) : List QName := st.elems.map fun p => qn p.1

theorem flatRun_balance (pref : List (Str × Str)) : ∀ (s : List Xml.XEv) (st : FSt) (stk : List QName),
    stk.length = st.elems.length → balance stk (toStreamX s) = some [] →
    balance (openNames st) (toStreamXF (flatRun pref st s)) = some []
  | [], st, stk, hl, h => by
    simp only [toStreamX, List.flatMap_nil, balance, Option.some.injEq] at h
    subst h
    have : st.elems = [] := by
      cases he : st.elems with
      | nil => rfl
      | cons p r => rw [he] at hl; simp at hl
    simp [flatRun, toStreamXF, openNames, this, balance]
  | x :: s, st, stk, hl, h => by
    have ih := flatRun_balance pref s
    cases x with
    | empty tag attrs =>
      simp only [toStreamX_cons, expandX, List.cons_append, List.nil_append, balance_empty] at h
      simp only [flatRun, flatStep]
      generalize flatStart pref st tag attrs = r
      obtain ⟨name, as, t⟩ := r
      simp only [toStreamXF_append]
      have := ih { bindings := st.bindings, pending := [], elems := st.elems, counter := t.counter } stk hl h
      simpa [toStreamXF, expandXF, balance_empty, openNames] using this
    | ev e =>
      cases e with
      | start tag attrs =>
        simp only [toStreamX_cons, expandX, List.cons_append, List.nil_append, balance_start] at h
        simp only [flatRun, flatStep]
        generalize flatStart pref st tag attrs = r
        obtain ⟨name, as, t⟩ := r
        simp only [toStreamXF_append]
        have := ih { bindings := t.bindings, pending := [], elems := (name, t.declared.length) :: st.elems,
                     counter := t.counter } (tag :: stk) (by simp [hl]) h
        simpa [toStreamXF, expandXF, balance_start, openNames] using this
      | end_ tag =>
        simp only [toStreamX_cons, expandX, List.cons_append, List.nil_append] at h
        cases stk with
        | nil => simp [balance] at h
        | cons t' stk' =>
          have ht : tag = t' := by
            refine Classical.byContradiction fun hne => ?_
            simp [balance, hne] at h
          subst ht
          rw [balance_end_same] at h
          cases he : st.elems with
          | nil => rw [he] at hl; simp at hl
          | cons p rest =>
            obtain ⟨name, n⟩ := p
            simp only [flatRun, flatStep, he, toStreamXF_append]
            have := ih { st with bindings := st.bindings.drop n, elems := rest } stk'
              (by rw [he] at hl; simpa using hl) h
            simpa [toStreamXF, expandXF, openNames, he, balance_end_same] using this
      | startNs p u =>
        simp only [toStreamX_cons, expandX, List.cons_append, List.nil_append, balance_startNs] at h
        simp only [flatRun, flatStep, List.nil_append]
        exact ih { st with pending := st.pending.filter (fun d => d.1 ≠ p) ++ [(p, u)] } stk hl h
      | endNs p =>
        simp only [toStreamX_cons, expandX, List.cons_append, List.nil_append, balance_endNs] at h
        simp only [flatRun, flatStep, List.nil_append]
        exact ih { st with pending := st.pending.filter (fun d => d.1 ≠ p) } stk hl h
      | text t f =>
        simp only [toStreamX_cons, expandX, List.cons_append, List.nil_append, balance_text] at h
        simpa [flatRun, flatStep, toStreamXF, expandXF] using ih st stk hl h
      | comment t =>
        simp only [toStreamX_cons, expandX, List.cons_append, List.nil_append, balance_comment] at h
        simpa [flatRun, flatStep, toStreamXF, expandXF] using ih st stk hl h
      | pi t d =>
        simp only [toStreamX_cons, expandX, List.cons_append, List.nil_append, balance_pi] at h
        simpa [flatRun, flatStep, toStreamXF, expandXF] using ih st stk hl h
      | doctype a b c =>
        simp only [toStreamX_cons, expandX, List.cons_append, List.nil_append, balance_doctype] at h
        simpa [flatRun, flatStep, toStreamXF, expandXF] using ih st stk hl h
      | xmlDecl a b c =>
        simp only [toStreamX_cons, expandX, List.cons_append, List.nil_append, balance_xmlDecl] at h
        simpa [flatRun, flatStep, toStreamXF, expandXF] using ih st stk hl h
      | startCdata =>
        simp only [toStreamX_cons, expandX, List.cons_append, List.nil_append, balance_startCdata] at h
        simpa [flatRun, flatStep, toStreamXF, expandXF] using ih st stk hl h
      | endCdata =>
        simp only [toStreamX_cons, expandX, List.cons_append, List.nil_append, balance_endCdata] at h
        simpa [flatRun, flatStep, toStreamXF, expandXF] using ih st stk hl h

/-- NamespaceFlattener, full domain (any prefix table, any namespaces, explicit START_NS / END_NS
    events anywhere): well nested in, well nested out. -/
theorem ns_flattener_wellnested (pref : List (Str × Str)) (s : List Xml.XEv) (h : WellNested (toStreamX s)) :
    WellNested (toStreamXF (Xml.flatten pref s)) := by
  have := flatRun_balance pref s FSt.init [] (by simp [FSt.init]) h
  simpa [openNames, FSt.init, Xml.flatten, WellNested] using this

/-- … and with the EmptyTagFilter in front of it, on every well-nested stream of the shared vocabulary -/
theorem emptyTagX_wellnested : ∀ (s : Stream) (p : Option (QName × AttrList)) (stk : List QName),
    balance (pendStack p stk) s = some [] → balance stk (toStreamX (emptyTagGo p s)) = some [] := by
  intro s
  induction s with
  | nil =>
    intro p stk h
    cases p with
    | none => simpa [emptyTagGo, toStreamX, pendStack] using h
    | some q => simp [pendStack, balance] at h
  | cons e es ih =>
    intro p stk h
    cases p with
    | none =>
      cases e with
      | start t a =>
        simp only [emptyTagGo]
        exact ih (some (t, a)) stk (by simpa [pendStack, balance_start] using h)
      | end_ t =>
        simp only [pendStack] at h
        cases stk with
        | nil => simp [balance] at h
        | cons t' stk' =>
          have ht : t = t' := by
            refine Classical.byContradiction fun hne => ?_
            simp [balance, hne] at h
          subst ht
          rw [balance_end_same] at h
          simp only [emptyTagGo, toStreamX_cons, expandX, List.cons_append, List.nil_append, balance_end_same]
          exact ih none stk' (by simpa [pendStack] using h)
      | text t f => simpa [emptyTagGo, expandX, pendStack] using ih none stk (by simpa [pendStack] using h)
      | comment t => simpa [emptyTagGo, expandX, pendStack] using ih none stk (by simpa [pendStack] using h)
      | pi t d => simpa [emptyTagGo, expandX, pendStack] using ih none stk (by simpa [pendStack] using h)
      | doctype a b c => simpa [emptyTagGo, expandX, pendStack] using ih none stk (by simpa [pendStack] using h)
      | xmlDecl a b c => simpa [emptyTagGo, expandX, pendStack] using ih none stk (by simpa [pendStack] using h)
      | startNs a b => simpa [emptyTagGo, expandX, pendStack] using ih none stk (by simpa [pendStack] using h)
      | endNs a => simpa [emptyTagGo, expandX, pendStack] using ih none stk (by simpa [pendStack] using h)
      | startCdata => simpa [emptyTagGo, expandX, pendStack] using ih none stk (by simpa [pendStack] using h)
      | endCdata => simpa [emptyTagGo, expandX, pendStack] using ih none stk (by simpa [pendStack] using h)
    | some q =>
      obtain ⟨t, a⟩ := q
      simp only [pendStack] at h
      cases e with
      | start t' a' =>
        simp only [emptyTagGo, toStreamX_cons, expandX, List.cons_append, List.nil_append, balance_start]
        exact ih (some (t', a')) (t :: stk) (by simpa [pendStack, balance_start] using h)
      | end_ t' =>
        have ht : t' = t := by
          refine Classical.byContradiction fun hne => ?_
          simp [balance, hne] at h
        subst ht
        rw [balance_end_same] at h
        simp only [emptyTagGo, toStreamX_cons, expandX, List.cons_append, List.nil_append, balance_empty]
        exact ih none stk (by simpa [pendStack] using h)
      | text x f => simpa [emptyTagGo, expandX, pendStack, balance_start] using ih none (t :: stk) (by simpa [pendStack] using h)
      | comment x => simpa [emptyTagGo, expandX, pendStack, balance_start] using ih none (t :: stk) (by simpa [pendStack] using h)
      | pi x d => simpa [emptyTagGo, expandX, pendStack, balance_start] using ih none (t :: stk) (by simpa [pendStack] using h)
      | doctype x b c => simpa [emptyTagGo, expandX, pendStack, balance_start] using ih none (t :: stk) (by simpa [pendStack] using h)
      | xmlDecl x b c => simpa [emptyTagGo, expandX, pendStack, balance_start] using ih none (t :: stk) (by simpa [pendStack] using h)
      | startNs x b => simpa [emptyTagGo, expandX, pendStack, balance_start] using ih none (t :: stk) (by simpa [pendStack] using h)
      | endNs x => simpa [emptyTagGo, expandX, pendStack, balance_start] using ih none (t :: stk) (by simpa [pendStack] using h)
      | startCdata => simpa [emptyTagGo, expandX, pendStack, balance_start] using ih none (t :: stk) (by simpa [pendStack] using h)
      | endCdata => simpa [emptyTagGo, expandX, pendStack, balance_start] using ih none (t :: stk) (by simpa [pendStack] using h)

/-- EmptyTagFilter → NamespaceFlattener on every well-nested stream, every prefix table -/
theorem emptytag_ns_flattener_wellnested (pref : List (Str × Str)) (s : Stream) (h : WellNested s) :
    WellNested (toStreamXF (Xml.flatten pref (Xml.emptyTag s))) :=
  ns_flattener_wellnested pref _ (emptyTagX_wellnested s none [] (by simpa [pendStack, WellNested] using h))

end Genshi.Tf.Serial

namespace Genshi.Tf.Serial
open Genshi Genshi.Xml

/-- non-vacuity: two namespaces, a START_NS / END_NS pair INSIDE an element, an empty element -/
example :
    let s : Stream := [.start ⟨['u'], ['a']⟩ [], .startNs ['p'] ['v'], .start ⟨['v'], ['b']⟩ [(⟨['u'], ['k']⟩, ['1'])],
      .end_ ⟨['v'], ['b']⟩, .endNs ['p'], .text ['t'] false, .end_ ⟨['u'], ['a']⟩]
    WellNested s ∧ WellNested (toStreamXF (Xml.flatten [] (Xml.emptyTag s))) := by decide

end Genshi.Tf.Serial

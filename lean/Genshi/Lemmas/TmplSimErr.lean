/-
  C04: failing renders — when the documentation semantics fails, the implementation
  model fails too (forward error simulation).
-/
import Genshi.Lemmas.TmplSimMain
import Genshi.Lemmas.TmplErrRules
namespace Genshi.Tmpl


theorem posErr_ne_fuel (body : List CEv) : posErr body ≠ .fuel := by
  unfold posErr; split <;> simp

theorem tail_after_replace_err {x : XExpr} {st : St} (h : IErr (.ev (.xexpr x)) st) :
    ∀ ds : List Dir, StrictSorted ds → (∀ d ∈ ds, 8 < d.rank) →
    IErr (.apply (attach ds [.xexpr x]).1 (attach ds [.xexpr x]).2) st := by
  have hf : IErr (.flat [.xexpr x]) st := IErr.flat_single h
  intro ds
  induction ds with
  | nil => intro _ _; exact IErr.apply_nil hf
  | cons d ds ih =>
    intro hs hr
    have hd := hr d (List.mem_cons_self ..)
    obtain ⟨k, e', hk, he'⟩ := hf
    cases d <;> simp [Dir.rank] at hd
    · simp only [attach]
      exact ih hs.tail (fun y hy => hr y (List.mem_cons_of_mem _ hy))
    · rcases sorted_after_attrs hs with rfl | ⟨c, rfl⟩
      · exact ⟨k + 1, e', by simp [attach, run, attrsHead, hk, bind, Except.bind], he'⟩
      · exact ⟨k + 1, e', by simp [attach, run, attrsHead, stripBody, hk, bind, Except.bind], he'⟩
    · rw [sorted_after_strip hs]
      exact ⟨k + 1, e', by simp [attach, run, stripBody, hk, bind, Except.bind], he'⟩

theorem sim_err : ∀ (n : Nat) (T : DTask) (loc : Env) (d : DSt) (e : Err),
    doc n T loc d = .error e → e ≠ .fuel → TaskWF T →
    ∀ st : St, loc = st.scopes.flatten → SimG d st → BindsPre T st → IErr (taskOf T) st := by
  intro n
  induction n with
  | zero => intro T loc d e h he; simp [doc] at h; exact absurd h.symm he
  | succ n ih =>
    intro T loc d e h he hwf st hl hg hb
    have hlook := look_sim hl hg.glob
    cases T with
    | nodes ns =>
      cases ns with
      | nil => simp [doc] at h
      | cons nd rest =>
        simp only [doc, seq_err] at h
        obtain ⟨w1, w2⟩ := wfNodes_cons hwf
        simp only [taskOf, compileNodes_cons]
        rcases h with h | ⟨o1, d1, h1, h2⟩
        · exact IErr.flat_append_left (ih _ _ _ _ h he w1 st hl hg trivial)
        · obtain ⟨s1, r1, g1⟩ := sim_ok n _ _ _ _ _ h1 w1 st hl hg trivial
          have hs1 : s1.scopes = st.scopes := r1.scopes
          exact IErr.flat_append_right r1 (ih _ _ _ _ h2 he w2 s1 (by rw [hs1]; exact hl) g1 trivial)
    | node nd =>
      cases nd with
      | text s => simp [doc] at h
      | expr x =>
        simp only [doc] at h
        simpa [taskOf, compileNode] using IErr.flat_single (ih _ _ _ _ h he trivial st hl hg trivial)
      | elem tag attrs dirs kids =>
        simp only [doc] at h
        have hw : wfNode (.elem tag attrs dirs kids) = true := hwf
        simp only [wfNode, Bool.and_eq_true, decide_eq_true_eq] at hw
        have hdw : DirsWF (sortBy Dir.docIdx dirs) (.elem tag attrs kids) :=
          ⟨sortBy_docIdx_strict dirs hw.1, trivial, hw.2⟩
        have r1 := ih _ _ _ _ h he hdw st hl hg trivial
        simp only [taskOf, compileNode, implIdx_eq_docIdx]
        exact IErr.mkSub r1
      | delem dd kids =>
        simp only [doc] at h
        have hw : wfNode (.delem dd kids) = true := hwf
        simp only [wfNode, Bool.and_eq_true, Bool.not_eq_true'] at hw
        have hdw : DirsWF [dd] (.frag kids) :=
          ⟨by simp [StrictSorted], by intro x hx; simp at hx; subst hx; exact hw.1, hw.2⟩
        have r1 := ih _ _ _ _ h he hdw st hl hg trivial
        simp only [taskOf, compileNode]
        exact IErr.mkSub r1
    | xexpr x =>
      cases x with
      | pure e0 =>
        simp only [doc, bind_err, pure, Except.pure] at h
        rw [hlook] at h
        refine ⟨1, e, ?_, he⟩
        rcases h with h | ⟨v, hv, h | ⟨out, hout, h⟩⟩
        · simp [taskOf, run, h, bind, Except.bind]
        · simp [taskOf, run, hv, h, bind, Except.bind]
        · cases h
      | call f args =>
        simp only [doc, bind_err] at h
        rw [hlook] at h
        rcases h with h | ⟨fv, hfv, h | ⟨vs, hvs, h | ⟨dm, hdm, h | ⟨scope, hsc, h⟩⟩⟩⟩
        · exact ⟨1, e, by simp [taskOf, run, h, bind, Except.bind], he⟩
        · exact ⟨1, e, by simp [taskOf, run, hfv, h, bind, Except.bind], he⟩
        · -- the callee is not a macro: the same error class on both sides
          refine ⟨1, e, ?_, he⟩
          have : getMacro st fv = .error e := by
            cases fv with
            | «macro» i =>
              simp only [getDMacro] at h
              simp only [getMacro]
              cases hi : d.macros[i]? with
              | some dm => simp [hi] at h
              | none =>
                have : st.macros[i]? = none := by
                  rw [List.getElem?_eq_none_iff] at hi ⊢; rw [← hg.mlen]; exact hi
                simp [hi] at h; simp [this, h]
            | atom a => simpa [getDMacro, getMacro] using h
            | list xs => simpa [getDMacro, getMacro] using h
            | dict kv => simpa [getDMacro, getMacro] using h
            | undef => simpa [getDMacro, getMacro] using h
          simp [taskOf, run, hfv, hvs, this, bind, Except.bind]
        · obtain ⟨m, hm, ms⟩ := getMacro_sim hg hdm
          obtain ⟨hp, _, _, _⟩ := ms
          rw [hp] at h
          exact ⟨1, e, by simp [taskOf, run, hfv, hvs, hm, h, bind, Except.bind], he⟩
        · obtain ⟨m, hm, ms⟩ := getMacro_sim hg hdm
          obtain ⟨hp, hdw, hd1, hd2⟩ := ms
          rw [hp] at hsc
          have r1 := ih _ _ _ _ h he hdw (st.push scope) (by simp [St.push, hl]) (hg.of_same rfl rfl rfl) trivial
          obtain ⟨k, e', r1, he'⟩ := r1
          simp only [taskOf] at r1
          rw [← hd1, ← hd2] at r1
          exact ⟨k + 1, e', by simp [taskOf, run, hfv, hvs, hm, hsc, r1, bind, Except.bind, mapSt], he'⟩
    | dirs ds t =>
      have hdw : DirsWF ds t := hwf
      cases ds with
      | nil =>
        cases t with
        | elem tag attrs kids =>
          simp only [doc, wrapOut_err] at h
          have r1 := ih _ _ _ _ h he hdw.wf st hl hg trivial
          simp only [taskOf, attach, targetBody] at r1 ⊢
          exact IErr.apply_nil (IErr.flat_cons_right (IOk.ev_start tag attrs st) (IErr.flat_append_left r1))
        | frag kids =>
          simp only [doc] at h
          have r1 := ih _ _ _ _ h he hdw.wf st hl hg trivial
          exact IErr.apply_nil (by simpa [taskOf, attach, targetBody] using r1)
      | cons dd ds =>
        have hdt : DirsWF ds t := hdw.tail
        cases dd with
        | def_ name params => simp [doc] at h
        | when e0 =>
          simp only [doc] at h
          have hch := hg.ch
          cases hcs : st.choice with
          | nil =>
            exact ⟨1, posErr (attach ds (targetBody t)).2, by simp [taskOf, attach_keep (.when e0) ds _ (by simp [Dir.rank]), run, hcs],
              posErr_ne_fuel _⟩
          | cons c cs =>
            simp only [hcs, List.head?_cons] at hch
            simp only [hch] at h
            cases hm : c.matched with
            | true => simp [hm] at h
            | false =>
              simp only [hm, Bool.false_eq_true, if_false, bind_err] at h
              rw [hlook] at h
              by_cases htest : (!c.hasTest && e0.isNone) = true
              · exact ⟨1, posErr (attach ds (targetBody t)).2, by simp [taskOf, attach_keep (.when e0) ds _ (by simp [Dir.rank]), run, hcs, hm, htest],
                  posErr_ne_fuel _⟩
              · have htest' : (!c.hasTest && e0.isNone) = false := Bool.eq_false_iff.mpr htest
                rcases h with h | ⟨m, hmm, h⟩
                · exact ⟨1, e, by simp [taskOf, attach_keep (.when e0) ds _ (by simp [Dir.rank]), run, hcs, hm,
                    htest', h, bind, Except.bind], he⟩
                · cases m with
                  | true =>
                    simp only [if_true] at h
                    obtain ⟨k, e', r1, he'⟩ := ih _ _ _ _ h he hdt (st.setMatched c cs true)
                      (by simpa [St.setMatched] using hl) (hg.setMatched c cs true) trivial
                    simp only [taskOf] at r1
                    exact ⟨k + 1, e', by simp [taskOf, attach_keep (.when e0) ds _ (by simp [Dir.rank]), run, hcs, hm,
                      htest', hmm, r1, bind, Except.bind], he'⟩
                  | false => simp [pure, Except.pure] at h
        | otherwise =>
          simp only [doc] at h
          have hch := hg.ch
          cases hcs : st.choice with
          | nil =>
            exact ⟨1, posErr (attach ds (targetBody t)).2, by simp [taskOf, attach_keep .otherwise ds _ (by simp [Dir.rank]), run, hcs],
              posErr_ne_fuel _⟩
          | cons c cs =>
            simp only [hcs, List.head?_cons] at hch
            simp only [hch] at h
            cases hm : c.matched with
            | true => simp [hm] at h
            | false =>
              simp only [hm, Bool.false_eq_true, if_false] at h
              obtain ⟨k, e', r1, he'⟩ := ih _ _ _ _ h he hdt (st.setMatched c cs true)
                (by simpa [St.setMatched] using hl) (hg.setMatched c cs true) trivial
              simp only [taskOf] at r1
              exact ⟨k + 1, e', by simp [taskOf, attach_keep .otherwise ds _ (by simp [Dir.rank]), run, hcs, hm, r1], he'⟩
        | for_ v e0 =>
          simp only [doc, bind_err] at h
          rw [hlook] at h
          rcases h with h | ⟨it, hit, h | ⟨items, hitems, h⟩⟩
          · exact ⟨1, e, by simp [taskOf, attach_keep (.for_ v e0) ds _ (by simp [Dir.rank]), run, h, bind, Except.bind], he⟩
          · exact ⟨1, e, by simp [taskOf, attach_keep (.for_ v e0) ds _ (by simp [Dir.rank]), run, hit, h, bind,
              Except.bind], he⟩
          · obtain ⟨k, e', r1, he'⟩ := ih _ _ _ _ h he hdt st hl hg trivial
            simp only [taskOf] at r1
            exact ⟨k + 1, e', by simp [taskOf, attach_keep (.for_ v e0) ds _ (by simp [Dir.rank]), run, hit, hitems,
              r1, bind, Except.bind], he'⟩
        | if_ e0 =>
          simp only [doc, bind_err] at h
          rw [hlook] at h
          rcases h with h | ⟨v, hv, h⟩
          · exact ⟨1, e, by simp [taskOf, attach_keep (.if_ e0) ds _ (by simp [Dir.rank]), run, h, bind, Except.bind], he⟩
          · cases ht : v.truthy with
            | true =>
              simp only [ht, if_true] at h
              obtain ⟨k, e', r1, he'⟩ := ih _ _ _ _ h he hdt st hl hg trivial
              simp only [taskOf] at r1
              exact ⟨k + 1, e', by simp [taskOf, attach_keep (.if_ e0) ds _ (by simp [Dir.rank]), run, hv, ht, r1,
                bind, Except.bind], he'⟩
            | false => simp [ht, pure, Except.pure] at h
        | choose e0 =>
          simp only [doc, bind_err, mapSt_err] at h
          rw [hlook] at h
          rcases h with h | ⟨v, hv, h⟩
          · exact ⟨1, e, by simp [taskOf, attach_keep (.choose e0) ds _ (by simp [Dir.rank]), run, h, bind, Except.bind], he⟩
          · have hg0 : SimG { d with ch := some ⟨false, e0.isSome, v⟩ }
                { st with choice := ⟨false, e0.isSome, v⟩ :: st.choice } := ⟨hg.glob, rfl, hg.mlen, hg.macros⟩
            obtain ⟨k, e', r1, he'⟩ := ih _ _ _ _ h he hdt
              { st with choice := ⟨false, e0.isSome, v⟩ :: st.choice } hl hg0 trivial
            simp only [taskOf] at r1
            exact ⟨k + 1, e', by simp [taskOf, attach_keep (.choose e0) ds _ (by simp [Dir.rank]), run, hv, r1, bind,
              Except.bind, mapSt], he'⟩
        | with_ bs =>
          simp only [doc] at h
          obtain ⟨k, e', r1, he'⟩ := ih _ _ _ _ h he hdt (st.push []) (by simp [St.push, hl])
            (hg.of_same rfl rfl rfl) (by simp [BindsPre, St.push])
          simp only [taskOf] at r1
          exact ⟨k + 1, e', by simp [taskOf, attach_keep (.with_ bs) ds _ (by simp [Dir.rank]), run, r1, mapSt], he'⟩
        | replace x =>
          simp only [doc] at h
          have r1 := ih _ _ _ _ h he trivial st hl hg trivial
          simp only [taskOf, attach] at r1 ⊢
          exact tail_after_replace_err r1 ds hdt.sorted
            (fun y hy => by simpa [Dir.rank] using hdw.sorted.head_lt y hy)
        | content x =>
          cases t with
          | frag kids =>
            have := hdw.tok (.content x) (List.mem_cons_self ..)
            simp [Dir.elemOnly] at this
          | elem tag attrs kids =>
            simp only [doc] at h
            have hdt' : DirsWF ds (.elem tag attrs [.expr x]) :=
              ⟨hdt.sorted, trivial, by simp [Target.kids, wfNodes, wfNode]⟩
            have r1 := ih _ _ _ _ h he hdt' st hl hg trivial
            simp only [taskOf, targetBody, attach, getLast_body] at r1 ⊢
            simpa [compileNodes, compileNode] using r1
        | attrs e0 =>
          cases t with
          | frag kids =>
            have := hdw.tok (.attrs e0) (List.mem_cons_self ..)
            simp [Dir.elemOnly] at this
          | elem tag attrs kids =>
            simp only [doc, bind_err] at h
            rw [hlook] at h
            have hsh := sorted_after_attrs hdw.sorted
            rcases h with h | ⟨v, hv, h | ⟨ps, hps, h⟩⟩
            · rcases hsh with rfl | ⟨c, rfl⟩
              · exact ⟨1, e, by simp [taskOf, attach, targetBody, run, attrsHead, h, bind, Except.bind], he⟩
              · exact ⟨1, e, by simp [taskOf, attach, targetBody, run, attrsHead, h, bind, Except.bind], he⟩
            · rcases hsh with rfl | ⟨c, rfl⟩
              · exact ⟨1, e, by simp [taskOf, attach, targetBody, run, attrsHead, hv, h, bind, Except.bind], he⟩
              · exact ⟨1, e, by simp [taskOf, attach, targetBody, run, attrsHead, hv, h, bind, Except.bind], he⟩
            · have hdt' : DirsWF ds (.elem tag (Genshi.Escape.Attrs.or attrs ps) kids) :=
                ⟨hdt.sorted, trivial, hdt.wf⟩
              obtain ⟨k, e', r1, he'⟩ := ih _ _ _ _ h he hdt' st hl hg trivial
              obtain ⟨k, rfl⟩ : ∃ j, k = j + 1 := by
                cases k with
                | zero => simp [run] at r1; exact absurd r1.symm he'
                | succ j => exact ⟨j, rfl⟩
              rcases hsh with rfl | ⟨c, rfl⟩
              · simp only [taskOf, attach, targetBody, run] at r1
                exact ⟨k + 1, e', by simp [taskOf, attach, targetBody, run, attrsHead, hv, hps, r1, bind, Except.bind,
                  pure, Except.pure], he'⟩
              · simp only [taskOf, attach, targetBody, run] at r1
                refine ⟨k + 1, e', ?_, he'⟩
                simp only [taskOf, attach, targetBody, run, attrsHead, hv, hps, bind, Except.bind, pure, Except.pure]
                exact r1
        | strip c =>
          cases t with
          | frag kids =>
            have := hdw.tok (.strip c) (List.mem_cons_self ..)
            simp [Dir.elemOnly] at this
          | elem tag attrs kids =>
            have hnil := sorted_after_strip hdw.sorted
            subst hnil
            simp only [doc, bind_err] at h
            rw [hlook] at h
            rcases h with h | ⟨b, hb', h⟩
            · exact ⟨1, e, by simp [taskOf, attach, targetBody, run, stripBody, h, bind, Except.bind], he⟩
            · cases b with
              | true =>
                simp only [if_true] at h
                have r1 := ih _ _ _ _ h he ⟨by simp [StrictSorted], by intro y hy; simp at hy, hdt.wf⟩ st hl hg trivial
                obtain ⟨k, e', r1, he'⟩ := IErr.apply_nil_inv (by simpa [taskOf, attach, targetBody] using r1)
                refine ⟨k + 1, e', ?_, he'⟩
                cases hck : compileNodes kids ++ [CEv.end_ tag] with
                | nil => simp at hck
                | cons e1 rest1 =>
                  have hdl : (e1 :: rest1).dropLast = compileNodes kids := by rw [← hck]; simp
                  simp [taskOf, attach, targetBody, run, stripBody, hb', hck, hdl, r1, bind, Except.bind, pure,
                    Except.pure]
              | false =>
                simp only [Bool.false_eq_true, if_false] at h
                have r1 := ih _ _ _ _ h he ⟨by simp [StrictSorted], trivial, hdt.wf⟩ st hl hg trivial
                obtain ⟨k, e', r1, he'⟩ := IErr.apply_nil_inv (by simpa [taskOf, attach] using r1)
                simp only [targetBody] at r1
                exact ⟨k + 1, e', by simp [taskOf, attach, targetBody, run, stripBody, hb', r1, bind, Except.bind,
                  pure, Except.pure], he'⟩
    | loop v items ds t =>
      have hdw : DirsWF ds t := hwf
      cases items with
      | nil => simp [doc] at h
      | cons item items =>
        simp only [doc, seq_err] at h
        rcases h with h | ⟨o1, d1, h1, h2⟩
        · obtain ⟨k, e', r1, he'⟩ := ih _ _ _ _ h he hdw (st.push [(v, item)]) (by simp [St.push, hl])
            (hg.of_same rfl rfl rfl) trivial
          exact ⟨k + 1, e', by simp only [taskOf] at r1; simp only [taskOf, run, seq_err]; exact Or.inl r1, he'⟩
        · obtain ⟨s1, ⟨k1, r1⟩, g1⟩ := sim_ok n _ _ _ _ _ h1 hdw (st.push [(v, item)]) (by simp [St.push, hl])
            (hg.of_same rfl rfl rfl) trivial
          have hs1 : s1.scopes = (st.push [(v, item)]).scopes := run_scopes k1 _ _ _ _ r1
          obtain ⟨k2, e', r2, he'⟩ := ih _ _ _ _ h2 he hdw s1.pop (by simp [St.pop, hs1, St.push, hl])
            (g1.of_same rfl rfl rfl) trivial
          refine ⟨max k1 k2 + 1, e', ?_, he'⟩
          simp only [taskOf] at r1 r2 ⊢
          simp only [run, seq_err]
          exact Or.inr ⟨o1, s1, IOk.lift r1 (Nat.le_max_left _ _), IErr.lift r2 he' (Nat.le_max_right _ _)⟩
    | binds bs ds t =>
      have hdw : DirsWF ds t := hwf
      cases bs with
      | nil =>
        simp only [doc] at h
        obtain ⟨k, e', r1, he'⟩ := ih _ _ _ _ h he hdw st hl hg trivial
        exact ⟨k + 1, e', by simpa only [taskOf, run] using r1, he'⟩
      | cons p bs =>
        obtain ⟨x, e0⟩ := p
        simp only [doc, bind_err] at h
        rw [hlook] at h
        rcases h with h | ⟨v, hv, h⟩
        · exact ⟨1, e, by simp [taskOf, run, h, bind, Except.bind], he⟩
        · have hne : st.scopes ≠ [] := hb
          obtain ⟨f, fs, hfs⟩ : ∃ f fs, st.scopes = f :: fs := by
            cases hsc : st.scopes with
            | nil => exact absurd hsc hne
            | cons f fs => exact ⟨f, fs, rfl⟩
          have hset : (st.setTop x v).scopes = ((x, v) :: f) :: fs := by simp [St.setTop, hfs]
          obtain ⟨k, e', r1, he'⟩ := ih _ _ _ _ h he hdw (st.setTop x v)
            (by rw [hset, hl, hfs]; simp)
            (hg.of_same (by simp [St.setTop, hfs]) (by simp [St.setTop, hfs]) (by simp [St.setTop, hfs]))
            (by show (st.setTop x v).scopes ≠ []; rw [hset]; simp)
          simp only [taskOf] at r1
          exact ⟨k + 1, e', by simp [taskOf, run, hv, r1, bind, Except.bind], he'⟩

end Genshi.Tmpl

/-
  C10 — world-level lemmas: every API action leaves the template value alone (`SameTmpl`),
  actions other than `step j` leave render `j` alone, and the schedule induction
  (`run_outputs`).
-/
import Genshi.Lemmas.Heap
namespace Genshi.Heap

/-- no thread is between the two assignments of `_prepare_self` -/
def World.Consistent (w : World) : Prop := w.prepared = false → w.streamPrepared = false

instance (w : World) : Decidable w.Consistent := by unfold World.Consistent; infer_instance

theorem access_ok (w : World) (hc : w.Consistent) : w.access.2 = true := by
  unfold World.access
  split
  · rfl
  · split
    · rename_i h1 h2; simp [World.Consistent] at hc; simp_all
    · rfl

theorem access_view (w : World) (hc : w.Consistent) :
    w.access.1.view = w.view ∧ w.access.1.translator = w.translator ∧ w.access.1.image = w.image ∧
    w.access.1.renders = w.renders ∧ w.access.1.prepared = true ∧ w.access.1.Consistent := by
  unfold World.access
  split
  · rename_i h; simp [h, World.Consistent]
  · split
    · rename_i h1 h2; simp [World.Consistent] at hc; simp_all
    · rename_i h1 h2; simp [World.view, h1, World.Consistent]

theorem access_prepared (w : World) (hp : w.prepared = true) : w.access = (w, true) := by
  simp [World.access, hp]


/-- `w'` is the same template value as `w`: what any render reads, and the flags, agree -/
structure SameTmpl (w w' : World) : Prop where
  view : w'.view = w.view
  translator : w'.translator = w.translator
  image : w'.image = w.image
  cons : w'.Consistent
  stay : w.prepared = true → w'.prepared = true ∧ w'.heap = w.heap ∧ w'.streamPrepared = w.streamPrepared

theorem SameTmpl.refl (w : World) (hc : w.Consistent) : SameTmpl w w :=
  ⟨rfl, rfl, rfl, hc, fun h => ⟨h, rfl, rfl⟩⟩

theorem SameTmpl.trans {a b c : World} (h1 : SameTmpl a b) (h2 : SameTmpl b c) : SameTmpl a c :=
  ⟨h2.view.trans h1.view, h2.translator.trans h1.translator, h2.image.trans h1.image, h2.cons,
   fun h => by
     obtain ⟨p1, q1, r1⟩ := h1.stay h
     obtain ⟨p2, q2, r2⟩ := h2.stay p1
     exact ⟨p2, q2.trans q1, r2.trans r1⟩⟩

theorem sameTmpl_access (w : World) (hc : w.Consistent) : SameTmpl w w.access.1 := by
  obtain ⟨h1, h2, h3, _, h5, h6⟩ := access_view w hc
  refine ⟨h1, h2, h3, h6, ?_⟩
  intro hp
  rw [access_prepared w hp]
  exact ⟨hp, rfl, rfl⟩

/-- changing only the renders / the loader count does not touch the template value -/
theorem sameTmpl_of_fields (w w' : World) (hc : w.Consistent)
    (h1 : w'.heap = w.heap) (h2 : w'.image = w.image) (h3 : w'.streamPrepared = w.streamPrepared)
    (h4 : w'.prepared = w.prepared) (h5 : w'.translator = w.translator) : SameTmpl w w' := by
  refine ⟨?_, h5, h2, ?_, ?_⟩
  · simp [World.view, h1, h2, h4]
  · intro h; rw [h3]; apply hc; rw [← h4]; exact h
  · intro h; exact ⟨by rw [h4]; exact h, h1, h3⟩

theorem exec_sameTmpl (v : Variant) (hv1 : v.callCopies = true) (hv2 : v.extractCopies = true)
    (fuel : Nat) (w : World) (hc : w.Consistent) (a : Act) : SameTmpl w (exec v fuel w a).1 := by
  cases a with
  | access =>
    simp only [exec]
    exact sameTmpl_access w hc
  | «open» d =>
    simp only [exec]
    have hs := sameTmpl_access w hc
    have ha := access_ok w hc
    generalize hw1 : w.access = p at *
    obtain ⟨w1, ok⟩ := p
    simp only at ha hs ⊢
    subst ha
    simp only [if_true]
    exact hs.trans (sameTmpl_of_fields w1 _ hs.cons rfl rfl rfl rfl rfl)
  | step i =>
    simp only [exec]
    split
    · exact SameTmpl.refl w hc
    · rename_i r _
      have hh := stepR_heap v hv1 fuel w.heap r
      generalize hs : stepR v fuel w.heap r = q at *
      obtain ⟨h1, r1, o⟩ := q
      simp only at hh ⊢
      exact sameTmpl_of_fields w _ hc hh rfl rfl rfl rfl
  | extract =>
    simp only [exec]
    have hs := sameTmpl_access w hc
    have ha := access_ok w hc
    generalize hw1 : w.access = p at *
    obtain ⟨w1, ok⟩ := p
    simp only at ha hs ⊢
    subst ha
    simp only [if_true]
    split
    · exact hs
    · rename_i root _
      exact hs.trans (sameTmpl_of_fields w1 _ hs.cons (extractEvs_heap v hv2 fuel w1.heap root) rfl rfl rfl rfl)
  | pickle => simp only [exec]; exact SameTmpl.refl w hc
  | register => simp only [exec]; exact sameTmpl_of_fields w _ hc rfl rfl rfl rfl rfl


theorem access_renders (w : World) : w.access.1.renders = w.renders := by
  unfold World.access
  split
  · rfl
  · split <;> rfl

/-- an action other than `step j` leaves render `j` as it is (opening appends at the end) -/
theorem exec_renders_other (v : Variant) (fuel : Nat) (w : World) (a : Act) (j : Nat) (r : Render)
    (ha : a ≠ .step j) (hr : w.renders[j]? = some r) : (exec v fuel w a).1.renders[j]? = some r := by
  cases a with
  | access => simp only [exec]; rw [access_renders]; exact hr
  | «open» d =>
    simp only [exec]
    have h := access_renders w
    generalize w.access = p at *
    obtain ⟨w1, ok⟩ := p
    simp only at h ⊢
    split
    · simp only [h]
      have hlt : j < w.renders.length := by
        rcases Nat.lt_or_ge j w.renders.length with h' | h'
        · exact h'
        · rw [List.getElem?_eq_none h'] at hr; cases hr
      rw [List.getElem?_append_left hlt]; exact hr
    · rw [h]; exact hr
  | step i =>
    have hij : i ≠ j := fun h => ha (by rw [h])
    simp only [exec]
    split
    · exact hr
    · simp only []
      rw [List.getElem?_set_ne hij]; exact hr
  | extract =>
    simp only [exec]
    have h := access_renders w
    generalize w.access = p at *
    obtain ⟨w1, ok⟩ := p
    simp only at h ⊢
    split
    · split <;> (simp only [h]; exact hr)
    · rw [h]; exact hr
  | pickle => exact hr
  | register => exact hr

/-- observations of actions other than `step` are not outputs of a render -/
theorem outputsOf_exec_other (v : Variant) (fuel : Nat) (w : World) (a : Act) (i : Nat) (rest : List Obs)
    (ha : ∀ j, a ≠ .step j) : outputsOf i ((exec v fuel w a).2 :: rest) = outputsOf i rest := by
  cases a with
  | step j => exact absurd rfl (ha j)
  | access => simp only [exec]; split <;> rfl
  | «open» d => simp only [exec]; split <;> rfl
  | extract =>
    simp only [exec]
    split
    · split <;> rfl
    · rfl
  | pickle => rfl
  | register => rfl


theorem run_cons (v : Variant) (fuel : Nat) (w : World) (a : Act) (as : List Act) :
    run v fuel w (a :: as) =
      ((run v fuel (exec v fuel w a).1 as).1, (exec v fuel w a).2 :: (run v fuel (exec v fuel w a).1 as).2) := by
  simp [run]

/-- the schedule induction: in a prepared world the outputs a schedule produces for render `i`
    are the outputs of stepping that render alone, whatever else the schedule does -/
theorem run_outputs (v : Variant) (hv1 : v.callCopies = true) (hv2 : v.extractCopies = true) (fuel : Nat) :
    ∀ (s : List Act) (w : World) (i : Nat) (r : Render),
      w.Consistent → w.prepared = true → w.renders[i]? = some r →
      outputsOf i (run v fuel w s).2 = soloSteps v fuel w.heap (countSteps i s) r := by
  intro s
  induction s with
  | nil => intro w i r _ _ _; simp [run, outputsOf, countSteps, soloSteps]
  | cons a as ih =>
    intro w i r hc hp hr
    rw [run_cons]
    have hsame := exec_sameTmpl v hv1 hv2 fuel w hc a
    obtain ⟨hp1, hh1, _⟩ := hsame.stay hp
    by_cases hstep : a = .step i
    · subst hstep
      -- the step of render i itself
      have hlt : i < w.renders.length := by
        rcases Nat.lt_or_ge i w.renders.length with h' | h'
        · exact h'
        · rw [List.getElem?_eq_none h'] at hr; cases hr
      have hex : exec v fuel w (.step i) =
          ({ w with heap := (stepR v fuel w.heap r).1, renders := w.renders.set i (stepR v fuel w.heap r).2.1 },
           .out i (stepR v fuel w.heap r).2.2) := by
        simp only [exec, hr]
      have hr1 : (exec v fuel w (.step i)).1.renders[i]? = some (stepR v fuel w.heap r).2.1 := by
        rw [hex]; simp only []; rw [List.getElem?_set_self hlt]
      have ih' := ih (exec v fuel w (.step i)).1 i _ hsame.cons hp1 hr1
      simp only [countSteps, if_true]
      rw [Nat.add_comm]
      simp only [soloSteps]
      rw [hh1] at ih'
      rw [← ih']
      rw [hex]
      simp [outputsOf]
    · -- any other action
      have hr1 := exec_renders_other v fuel w a i r hstep hr
      have ih' := ih (exec v fuel w a).1 i r hsame.cons hp1 hr1
      rw [hh1] at ih'
      cases a with
      | step j =>
        have hji : j ≠ i := fun h => hstep (by rw [h])
        simp only [countSteps, hji, if_false, Nat.zero_add]
        rw [← ih']
        simp only [exec]
        split
        · simp [outputsOf, hji]
        · simp [outputsOf, hji]
      | access => rw [outputsOf_exec_other v fuel w _ i _ (by intro j h; cases h)]; simpa [countSteps] using ih'
      | «open» d => rw [outputsOf_exec_other v fuel w _ i _ (by intro j h; cases h)]; simpa [countSteps] using ih'
      | extract => rw [outputsOf_exec_other v fuel w _ i _ (by intro j h; cases h)]; simpa [countSteps] using ih'
      | pickle => rw [outputsOf_exec_other v fuel w _ i _ (by intro j h; cases h)]; simpa [countSteps] using ih'
      | register => rw [outputsOf_exec_other v fuel w _ i _ (by intro j h; cases h)]; simpa [countSteps] using ih'

end Genshi.Heap

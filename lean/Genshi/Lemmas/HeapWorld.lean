/-
  C10 — world-level lemmas: every API action leaves the template value alone (`SameTmpl`),
  actions other than `step j` leave render `j` alone, and the schedule induction
  (`run_outputs`).
-/
import Genshi.Lemmas.Heap
namespace Genshi.Heap

/-- no thread is between the two assignments of `_prepare_self` -/
def TState.ok (x : TState) : Bool := x.prepared || !x.streamPrepared

/-- every template of the loader is either unprepared or completely prepared -/
def World.Consistent (w : World) : Prop := w.tmpls.all TState.ok = true

instance (w : World) : Decidable w.Consistent := by unfold World.Consistent; infer_instance

theorem accessT_spec (ts : List TState) (t : Nat) (hc : ts.all TState.ok = true) :
    (accessT ts t).2 = true ∧ (accessT ts t).1.all TState.ok = true ∧
    (accessT ts t).1.map (·.root) = ts.map (·.root) := by
  unfold accessT
  cases hx : ts[t]? with
  | none => exact ⟨rfl, hc, rfl⟩
  | some x =>
    simp only []
    have hxok : x.ok = true := by
      have hmem : x ∈ ts := List.mem_of_getElem? hx
      exact (List.all_eq_true.mp hc) x hmem
    split
    · exact ⟨rfl, hc, rfl⟩
    · rename_i hp
      split
      · rename_i hsp
        simp [TState.ok, hp, hsp] at hxok
      · refine ⟨rfl, ?_, ?_⟩
        · rw [List.all_eq_true]
          intro y hy
          rcases List.mem_or_eq_of_mem_set hy with h | h
          · exact (List.all_eq_true.mp hc) y h
          · subst h; simp [TState.ok]
        · apply List.ext_getElem?
          intro i
          simp only [List.getElem?_map]
          by_cases hit : i = t
          · subst hit
            by_cases hlt : i < ts.length
            · rw [List.getElem?_set_self hlt]; simp [hx]
            · have : ts.length ≤ i := Nat.le_of_not_lt hlt
              rw [List.getElem?_eq_none this] at hx; cases hx
          · rw [List.getElem?_set_ne (Ne.symm hit)]

theorem markPrepared_spec : ∀ (touched : List Nat) (ts : List TState), ts.all TState.ok = true →
    (markPrepared ts touched).all TState.ok = true ∧
    (markPrepared ts touched).map (·.root) = ts.map (·.root) := by
  intro touched
  induction touched with
  | nil => intro ts hc; exact ⟨hc, rfl⟩
  | cons t rest ih =>
    intro ts hc
    obtain ⟨_, h2, h3⟩ := accessT_spec ts t hc
    obtain ⟨i1, i2⟩ := ih _ h2
    exact ⟨i1, i2.trans h3⟩

theorem access_ok (w : World) (hc : w.Consistent) : w.access.2 = true := by
  unfold World.access
  exact (accessT_spec w.tmpls 0 hc).1

/-- `w'` is the same template value as `w`: every list a render reads, the filters, and the loader's
    templates agree; only `_stream`/`_prepared` flags may have gone from unprepared to prepared -/
structure SameTmpl (w w' : World) : Prop where
  heap : w'.heap = w.heap
  translator : w'.translator = w.translator
  roots : w'.roots = w.roots
  cons : w'.Consistent

theorem SameTmpl.refl (w : World) (hc : w.Consistent) : SameTmpl w w := ⟨rfl, rfl, rfl, hc⟩

theorem SameTmpl.trans {a b c : World} (h1 : SameTmpl a b) (h2 : SameTmpl b c) : SameTmpl a c :=
  ⟨h2.heap.trans h1.heap, h2.translator.trans h1.translator, h2.roots.trans h1.roots, h2.cons⟩

theorem sameTmpl_access (w : World) (hc : w.Consistent) : SameTmpl w w.access.1 := by
  obtain ⟨_, h2, h3⟩ := accessT_spec w.tmpls 0 hc
  unfold World.access
  exact ⟨rfl, rfl, h3, h2⟩

theorem access_renders (w : World) : w.access.1.renders = w.renders := rfl

/-- changing only the renders / the loader count does not touch the template value -/
theorem sameTmpl_of_fields (w w' : World) (hc : w.Consistent)
    (h1 : w'.heap = w.heap) (h2 : w'.tmpls = w.tmpls) (h5 : w'.translator = w.translator) :
    SameTmpl w w' := by
  refine ⟨h1, h5, ?_, ?_⟩
  · simp [World.roots, h2]
  · simp only [World.Consistent, h2]; exact hc

theorem exec_sameTmpl (v : Variant) (hv1 : v.callCopies = true) (hv2 : v.extractCopies = true)
    (fuel : Nat) (w : World) (hc : w.Consistent) (a : Act) : SameTmpl w (exec v fuel w a).1 := by
  cases a with
  | access =>
    simp only [exec]
    exact sameTmpl_access w hc
  | «open» d =>
    simp only [exec]
    have hs := sameTmpl_access w hc
    have ha := access_ok w hc
    generalize hw1 : w.access = p at *
    obtain ⟨w1, ok⟩ := p
    simp only at ha hs ⊢
    subst ha
    simp only [if_true]
    exact hs.trans (sameTmpl_of_fields w1 _ hs.cons rfl rfl rfl)
  | step i =>
    simp only [exec]
    split
    · exact SameTmpl.refl w hc
    · rename_i r _
      have hh := stepR_heap v hv1 w.translator w.roots fuel w.heap r
      obtain ⟨m1, m2⟩ := markPrepared_spec (stepR v w.translator w.roots fuel w.heap r).touched w.tmpls hc
      exact ⟨hh, rfl, m2, m1⟩
  | extract =>
    simp only [exec]
    have hs := sameTmpl_access w hc
    have ha := access_ok w hc
    generalize hw1 : w.access = p at *
    obtain ⟨w1, ok⟩ := p
    simp only at ha hs ⊢
    subst ha
    simp only [if_true]
    split
    · exact hs
    · rename_i root _
      exact hs.trans (sameTmpl_of_fields w1 _ hs.cons (extractEvs_heap v hv2 fuel w1.heap root) rfl rfl)
  | pickle => simp only [exec]; exact SameTmpl.refl w hc
  | register => simp only [exec]; exact sameTmpl_of_fields w _ hc rfl rfl rfl

/-- an action other than `step j` leaves render `j` as it is (opening appends at the end) -/
theorem exec_renders_other (v : Variant) (fuel : Nat) (w : World) (a : Act) (j : Nat) (r : Render)
    (ha : a ≠ .step j) (hr : w.renders[j]? = some r) : (exec v fuel w a).1.renders[j]? = some r := by
  cases a with
  | access => simp only [exec]; exact hr
  | «open» d =>
    simp only [exec]
    have h := access_renders w
    generalize w.access = p at *
    obtain ⟨w1, ok⟩ := p
    simp only at h ⊢
    split
    · simp only [h]
      have hlt : j < w.renders.length := by
        rcases Nat.lt_or_ge j w.renders.length with h' | h'
        · exact h'
        · rw [List.getElem?_eq_none h'] at hr; cases hr
      rw [List.getElem?_append_left hlt]; exact hr
    · rw [h]; exact hr
  | step i =>
    have hij : i ≠ j := fun h => ha (by rw [h])
    simp only [exec]
    split
    · exact hr
    · simp only []
      rw [List.getElem?_set_ne hij]; exact hr
  | extract =>
    simp only [exec]
    have h := access_renders w
    generalize w.access = p at *
    obtain ⟨w1, ok⟩ := p
    simp only at h ⊢
    split
    · split <;> (simp only [h]; exact hr)
    · rw [h]; exact hr
  | pickle => exact hr
  | register => exact hr

/-- observations of actions other than `step` are not outputs of a render -/
theorem outputsOf_exec_other (v : Variant) (fuel : Nat) (w : World) (a : Act) (i : Nat) (rest : List Obs)
    (ha : ∀ j, a ≠ .step j) : outputsOf i ((exec v fuel w a).2 :: rest) = outputsOf i rest := by
  cases a with
  | step j => exact absurd rfl (ha j)
  | access => simp only [exec]; split <;> rfl
  | «open» d => simp only [exec]; split <;> rfl
  | extract =>
    simp only [exec]
    split
    · split <;> rfl
    · rfl
  | pickle => rfl
  | register => rfl

theorem run_cons (v : Variant) (fuel : Nat) (w : World) (a : Act) (as : List Act) :
    run v fuel w (a :: as) =
      ((run v fuel (exec v fuel w a).1 as).1, (exec v fuel w a).2 :: (run v fuel (exec v fuel w a).1 as).2) := by
  simp [run]

/-- the schedule induction: the outputs a schedule produces for render `i` are the outputs of
    stepping that render alone, whatever else the schedule does -/
theorem run_outputs (v : Variant) (hv1 : v.callCopies = true) (hv2 : v.extractCopies = true) (fuel : Nat) :
    ∀ (s : List Act) (w : World) (i : Nat) (r : Render),
      w.Consistent → w.renders[i]? = some r →
      outputsOf i (run v fuel w s).2 = soloSteps v w.translator w.roots fuel w.heap (countSteps i s) r := by
  intro s
  induction s with
  | nil => intro w i r _ _; simp [run, outputsOf, countSteps, soloSteps]
  | cons a as ih =>
    intro w i r hc hr
    rw [run_cons]
    have hsame := exec_sameTmpl v hv1 hv2 fuel w hc a
    by_cases hstep : a = .step i
    · subst hstep
      -- the step of render i itself
      have hlt : i < w.renders.length := by
        rcases Nat.lt_or_ge i w.renders.length with h' | h'
        · exact h'
        · rw [List.getElem?_eq_none h'] at hr; cases hr
      have hex : exec v fuel w (.step i) =
          ({ w with heap := (stepR v w.translator w.roots fuel w.heap r).h,
                    renders := w.renders.set i (stepR v w.translator w.roots fuel w.heap r).r,
                    tmpls := markPrepared w.tmpls (stepR v w.translator w.roots fuel w.heap r).touched },
           .out i (stepR v w.translator w.roots fuel w.heap r).out) := by
        simp only [exec, hr]
      have hr1 : (exec v fuel w (.step i)).1.renders[i]? = some (stepR v w.translator w.roots fuel w.heap r).r := by
        rw [hex]; simp only []; rw [List.getElem?_set_self hlt]
      have ih' := ih (exec v fuel w (.step i)).1 i _ hsame.cons hr1
      rw [hsame.heap, hsame.translator, hsame.roots] at ih'
      simp only [countSteps, if_true]
      rw [Nat.add_comm]
      simp only [soloSteps]
      rw [← ih']
      rw [hex]
      simp [outputsOf]
    · -- any other action
      have hr1 := exec_renders_other v fuel w a i r hstep hr
      have ih' := ih (exec v fuel w a).1 i r hsame.cons hr1
      rw [hsame.heap, hsame.translator, hsame.roots] at ih'
      cases a with
      | step j =>
        have hji : j ≠ i := fun h => hstep (by rw [h])
        simp only [countSteps, hji, if_false, Nat.zero_add]
        rw [← ih']
        simp only [exec]
        split
        · simp [outputsOf, hji]
        · simp [outputsOf, hji]
      | access => rw [outputsOf_exec_other v fuel w _ i _ (by intro j h; cases h)]; simpa [countSteps] using ih'
      | «open» d => rw [outputsOf_exec_other v fuel w _ i _ (by intro j h; cases h)]; simpa [countSteps] using ih'
      | extract => rw [outputsOf_exec_other v fuel w _ i _ (by intro j h; cases h)]; simpa [countSteps] using ih'
      | pickle => rw [outputsOf_exec_other v fuel w _ i _ (by intro j h; cases h)]; simpa [countSteps] using ih'
      | register => rw [outputsOf_exec_other v fuel w _ i _ (by intro j h; cases h)]; simpa [countSteps] using ih'

end Genshi.Heap

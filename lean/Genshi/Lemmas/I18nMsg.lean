/-
  C19 — the message algebra: buffer a message forest, translate any compatible translation
  tree; corollaries for the identity translation.
-/
import Genshi.Lemmas.I18nBuf
namespace Genshi.I18n
open Genshi

/-- the elements of the message `F` (numbered from 1 in document order) -/
def worldOf (F : List MNode) : WorldK := fun k =>
  match infoM 1 F k with
  | some (t, a, _, kd) => some (t, a, kd)
  | none => none

/-- element number ↦ tag, attributes, number of child elements, directives -/
abbrev Info := Nat → Option (QName × TAttrs × Nat × Option (List Dir))

/-- is element `n` a directive-carrying one -/
def isSubAt (I : Info) (n : Nat) : Bool :=
  match I n with
  | some (_, _, _, some _) => true
  | _ => false

mutual
  /-- every placeholder names an element of the message and has as many child placeholders
      as that element has child elements; a directive-carrying element does not lie inside
      another one (`inSub`; finding C19-nested-directives) -/
  def XNode.compat (I : Info) : Bool → XNode → Prop
    | inSub, .ph n _ r => (∃ t a kd, I n = some (t, a, r.length, kd)) ∧ (isSubAt I n = true → inSub = false) ∧
        r.compat I (inSub || isSubAt I n)
  def XRest.compat (I : Info) : Bool → XRest → Prop
    | _, .nil => True
    | inSub, .cons x _ r => x.compat I inSub ∧ r.compat I inSub
end

/-- the message has text or an expression outside its elements -/
def hasTopText : List MNode → Bool
  | [] => false
  | .elem _ _ _ _ :: ns => hasTopText ns
  | _ :: _ => true

theorem new_rel (ps : List Str) : Rel (MB.new ps) 0 ⟨[], none⟩ :=
  ⟨by simp [MB.new, PV.groups], by simp [MB.new]⟩

theorem new_inv (ps : List Str) : Inv (MB.new ps) :=
  ⟨fun _ _ => rfl, fun _ _ => rfl, fun k h => by simp [MB.new] at h, by simp [MB.new]⟩

/-- all groups of the top level are textual -/
def PV.textual (p : PV) : Prop := (∀ g ∈ p.closed, textualG g = true) ∧ ∀ g, p.cur = some g → textualG g = true

theorem PV.textual_addEv (p : PV) (x : MEv) (hx : x.textual = true) (h : p.textual) : (p.addEv x).textual := by
  obtain ⟨hc, hcur⟩ := h
  cases hp : p.cur with
  | none =>
    refine ⟨by simpa [PV.addEv, hp] using hc, fun g hg => ?_⟩
    simp only [PV.addEv, hp, Option.some.injEq] at hg
    subst hg; simp [textualG, hx]
  | some g0 =>
    refine ⟨by simpa [PV.addEv, hp] using hc, fun g hg => ?_⟩
    simp only [PV.addEv, hp, Option.some.injEq] at hg
    subst hg; exact textualG_snoc g0 x (hcur g0 hp) hx

theorem PV.textual_close (p : PV) (h : p.textual) : p.close.textual := by
  obtain ⟨hc, hcur⟩ := h
  cases hp : p.cur with
  | none =>
    refine ⟨fun g hg => hc g (by simpa [PV.close, hp] using hg), fun g hg => ?_⟩
    simp [PV.close, hp] at hg
  | some g0 =>
    refine ⟨fun g hg => ?_, fun g hg => by simp [PV.close, hp] at hg⟩
    simp only [PV.close, hp, List.mem_append, List.mem_cons, List.not_mem_nil, or_false] at hg
    rcases hg with hg | hg
    · exact hc g hg
    · rw [hg]; exact hcur g0 hp

theorem pvFeed_textual : ∀ (ns : List MNode) (p : PV), p.textual → (pvFeed p ns).textual
  | [], p, h => h
  | .text s :: ns, p, h => pvFeed_textual ns _ (PV.textual_addEv p _ rfl h)
  | .expr _ _ _ :: ns, p, h => pvFeed_textual ns _ (PV.textual_addEv p _ rfl h)
  | .elem _ _ _ _ :: ns, p, h => pvFeed_textual ns _ (PV.textual_close p h)

theorem PV.groups_textual (p : PV) (h : p.textual) : ∀ g ∈ p.groups, textualG g = true := by
  intro g hg
  simp only [PV.groups, List.mem_append, Option.mem_toList] at hg
  rcases hg with hg | hg
  · exact h.1 g hg
  · exact h.2 g hg

theorem pvFeed_groups_ne_nil : ∀ (ns : List MNode) (p : PV), (hasTopText ns = true ∨ p.groups ≠ []) →
    (pvFeed p ns).groups ≠ []
  | [], p, h => by simpa [hasTopText, pvFeed] using h
  | .text s :: ns, p, _ => by
      simp only [pvFeed]
      refine pvFeed_groups_ne_nil ns _ (Or.inr ?_)
      cases hp : p.cur <;> simp [PV.addEv, PV.groups, hp]
  | .expr _ _ _ :: ns, p, _ => by
      simp only [pvFeed]
      refine pvFeed_groups_ne_nil ns _ (Or.inr ?_)
      cases hp : p.cur <;> simp [PV.addEv, PV.groups, hp]
  | .elem _ _ _ _ :: ns, p, h => by
      simp only [pvFeed]
      refine pvFeed_groups_ne_nil ns _ ?_
      rcases h with h | h
      · left; simpa [hasTopText] using h
      · right; rw [PV.close_groups]; exact h

mutual
  theorem XNode.goodK_of_compat (F : List MNode) (sd : Nat → Option (List Dir)) (ev : Groups)
      (hev : ∀ k t a c kd, infoM 1 F k = some (t, a, c, kd) →
        ∃ gs, ev k = some gs ∧ GoodElemK gs kd t a c ∧ ∀ ds, kd = some ds → sd k = some ds) :
      ∀ (x : XNode) (inSub : Bool), x.compat (infoM 1 F) inSub → x.goodK (worldOf F) sd ev inSub
    | .ph n s0 r, inSub, h => by
        simp only [XNode.compat] at h
        obtain ⟨⟨t, a, kd, hi⟩, hsub, hr⟩ := h
        obtain ⟨gs, hgs, hgood, hsd⟩ := hev n t a _ kd hi
        have hn : n ≠ 0 := by have := (infoM_range 1 F n _ hi).1; omega
        have hkd : isSubAt (infoM 1 F) n = kd.isSome := by
          simp only [isSubAt, hi]; cases kd <;> rfl
        refine ⟨hn, t, a, kd, gs, by simp [worldOf, hi], hgs, hgood, fun ds hds => ?_, ?_⟩
        · subst hds
          exact ⟨hsub (by rw [hkd]; rfl), hsd ds rfl⟩
        · rw [← hkd]; exact XRest.goodK_of_compat F sd ev hev r _ hr
  theorem XRest.goodK_of_compat (F : List MNode) (sd : Nat → Option (List Dir)) (ev : Groups)
      (hev : ∀ k t a c kd, infoM 1 F k = some (t, a, c, kd) →
        ∃ gs, ev k = some gs ∧ GoodElemK gs kd t a c ∧ ∀ ds, kd = some ds → sd k = some ds) :
      ∀ (r : XRest) (inSub : Bool), r.compat (infoM 1 F) inSub → r.goodK (worldOf F) sd ev inSub
    | .nil, _, _ => trivial
    | .cons x s r, inSub, h => by
        simp only [XRest.compat] at h
        exact ⟨XNode.goodK_of_compat F sd ev hev x inSub h.1, XRest.goodK_of_compat F sd ev hev r inSub h.2⟩
end

/-- **the message algebra.**  Buffer the content `F` of a message (no two adjacent child
    elements inside an element); then for *every* translation `s0 child₁ seg₁ …` whose
    placeholders name distinct elements of `F` with the right number of children, whose
    segments contain no bracket / backslash and are accepted by `yield_parts`,
    `MessageBuffer.translate` returns the translation with every placeholder replaced by the
    original element, each exactly once, in the order of the translation; a directive-carrying
    element comes out as one SUB event with its directives. -/
theorem translate_message (F : List MNode) (extra : List Str) (Y : Str → List TEvent) (s0 : Str) (r : XRest)
    (hna : deepNoAdjM F = true) (hc : r.compat (infoM 1 F) false) (hnd : r.nums.Nodup)
    (hp0 : plainSeg s0 = true) (hp : r.plain = true)
    (hseg : ∀ s ∈ s0 :: r.segs, yieldParts (valsM F).reverse s = .ok (Y s))
    (htop : (∀ s ∈ s0 :: r.topSegs, s = []) ∨ hasTopText F = true) :
    ∃ b, mbAppendList (MB.new (namesM F ++ extra)) (flattenM F) = .ok b ∧
      b.format = strip (fmtM 1 F) ∧
      b.translate (s0 ++ r.fmt) = .ok (Y s0 ++ r.renderK (worldOf F) Y) := by
  obtain ⟨b, hrun, post⟩ := append_nodes F (MB.new (namesM F ++ extra)) 0 [] ⟨[], none⟩ extra
    (by simp [MB.new]) (by simp [MB.new]) (by simp [MB.new]) (new_rel _) (new_inv _) hna
  refine ⟨b, hrun, ?_, ?_⟩
  · simp [MB.format, post.str, MB.new]
  · have hvals : b.values = (valsM F).reverse := by rw [post.values]; simp [MB.new]
    have hgood : r.goodK (worldOf F) (assocGet b.subdirs) b.events false :=
      XRest.goodK_of_compat F _ b.events (fun k t a c kd h => post.elems k t a c kd (by simpa [MB.new] using h)) r false hc
    refine translate_treeK b (worldOf F) Y s0 r hp0 hp hgood hnd (by rw [hvals]; exact hseg) ?_
    rcases htop with h | h
    · exact Or.inl h
    · right
      have htx : (pvFeed ⟨[], none⟩ F).textual := pvFeed_textual F _ ⟨by simp, by simp⟩
      have hne := pvFeed_groups_ne_nil F ⟨[], none⟩ (Or.inl h)
      have hg := post.rel.groups
      cases hev : b.events 0 with
      | none => rw [hev] at hg; simp at hg; exact absurd hg.symm hne.symm
      | some gs =>
        rw [hev] at hg; simp only [Option.getD_some] at hg
        refine ⟨gs, hev, fun g hgm => ?_⟩
        have := PV.groups_textual _ htx g (hg ▸ hgm)
        exact ⟨textualG_simple g this, fun e => groupOut_textual e g this⟩

end Genshi.I18n

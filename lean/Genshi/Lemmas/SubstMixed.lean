/-
  C01 — `unescape` on text whose pieces were escaped with different `quotes` settings
  (a text run mixes `escape(v, quotes=False)` of the serializer with `escape(v)` of the
  `Markup` operators): the per-character generalisation of `unescape_escapeSpec`.
-/
import Genshi.Lemmas.Escape
namespace Genshi.Subst
open Genshi.Escape Genshi.Str

/-- a source character together with the `quotes` flag it was escaped under -/
abbrev QChar := Bool × Char

def escapeMixed (ps : List QChar) : List Char := ps.flatMap fun p => escC p.1 p.2

def stP (k : Nat) (p : QChar) : List Char := stage p.1 k p.2

def stageM (k : Nat) (ps : List QChar) : List Char := ps.flatMap (stP k)

theorem stP_mk (k : Nat) (q : Bool) (c : Char) : stP k (q, c) = stage q k c := rfl

theorem escapeSpec_eq_mixed (q : Bool) (s : List Char) :
    escapeSpec q s = escapeMixed (s.map fun c => (q, c)) := by
  simp [escapeSpec, escapeMixed, List.flatMap_map]

theorem escapeMixed_append (a b : List QChar) : escapeMixed (a ++ b) = escapeMixed a ++ escapeMixed b := by
  simp [escapeMixed]

private theorem no_amp_step' (p new : List Char) (c : Char) (rest : List Char) (hc : c ≠ '&') :
    replaceGo ('&' :: p) new 0 (c :: rest) = c :: replaceGo ('&' :: p) new 0 rest := by
  have : ('&' == c) = false := by simp; exact fun h => hc h.symm
  simp [replaceGo, List.isPrefixOf, this]

theorem stageM_step1 (ps : List QChar) :
    replaceGo qt ['"'] 0 (stageM 0 ps) = stageM 1 ps := by
  simp only [qt, stageM]
  induction ps with
  | nil => simp [replaceGo]
  | cons p ps ih =>
    obtain ⟨q, c⟩ := p
    simp only [List.flatMap_cons, stP_mk]
    by_cases h4 : c = '"'
    · subst h4
      cases q
      · simp [stage, replaceGo, List.isPrefixOf, ih]
      · simp [stage, replaceGo, List.isPrefixOf, qt, ih]
    by_cases h3 : c = '>'
    · subst h3; simp [stage, replaceGo, List.isPrefixOf, gt, ih]
    by_cases h2 : c = '<'
    · subst h2; simp [stage, replaceGo, List.isPrefixOf, lt, ih]
    by_cases h1 : c = '&'
    · subst h1; simp [stage, replaceGo, List.isPrefixOf, amp, ih]
    · simp only [stage, h1, h2, h3, h4, ↓reduceIte, List.cons_append, List.nil_append]
      rw [no_amp_step' _ _ _ _ h1, ih]

theorem stageM_step2 (ps : List QChar) :
    replaceGo gt ['>'] 0 (stageM 1 ps) = stageM 2 ps := by
  simp only [gt, stageM]
  induction ps with
  | nil => simp [replaceGo]
  | cons p ps ih =>
    obtain ⟨q, c⟩ := p
    simp only [List.flatMap_cons, stP_mk]
    by_cases h4 : c = '"'
    · subst h4
      cases q
      · simp [stage, replaceGo, List.isPrefixOf, ih]
      · simp [stage, replaceGo, List.isPrefixOf, ih]
    by_cases h3 : c = '>'
    · subst h3; simp [stage, replaceGo, List.isPrefixOf, gt, ih]
    by_cases h2 : c = '<'
    · subst h2; simp [stage, replaceGo, List.isPrefixOf, lt, ih]
    by_cases h1 : c = '&'
    · subst h1; simp [stage, replaceGo, List.isPrefixOf, amp, ih]
    · simp only [stage, h1, h2, h3, h4, ↓reduceIte, List.cons_append, List.nil_append]
      rw [no_amp_step' _ _ _ _ h1, ih]

theorem stageM_step3 (ps : List QChar) :
    replaceGo lt ['<'] 0 (stageM 2 ps) = stageM 3 ps := by
  simp only [lt, stageM]
  induction ps with
  | nil => simp [replaceGo]
  | cons p ps ih =>
    obtain ⟨q, c⟩ := p
    simp only [List.flatMap_cons, stP_mk]
    by_cases h4 : c = '"'
    · subst h4
      cases q
      · simp [stage, replaceGo, List.isPrefixOf, ih]
      · simp [stage, replaceGo, List.isPrefixOf, ih]
    by_cases h3 : c = '>'
    · subst h3; simp [stage, replaceGo, List.isPrefixOf, ih]
    by_cases h2 : c = '<'
    · subst h2; simp [stage, replaceGo, List.isPrefixOf, lt, ih]
    by_cases h1 : c = '&'
    · subst h1; simp [stage, replaceGo, List.isPrefixOf, amp, ih]
    · simp only [stage, h1, h2, h3, h4, ↓reduceIte, List.cons_append, List.nil_append]
      rw [no_amp_step' _ _ _ _ h1, ih]

theorem stageM_step4 (ps : List QChar) :
    replaceGo amp ['&'] 0 (stageM 3 ps) = stageM 4 ps := by
  simp only [amp, stageM]
  induction ps with
  | nil => simp [replaceGo]
  | cons p ps ih =>
    obtain ⟨q, c⟩ := p
    simp only [List.flatMap_cons, stP_mk]
    by_cases h4 : c = '"'
    · subst h4
      cases q
      · simp [stage, replaceGo, List.isPrefixOf, ih]
      · simp [stage, replaceGo, List.isPrefixOf, ih]
    by_cases h3 : c = '>'
    · subst h3; simp [stage, replaceGo, List.isPrefixOf, ih]
    by_cases h2 : c = '<'
    · subst h2; simp [stage, replaceGo, List.isPrefixOf, ih]
    by_cases h1 : c = '&'
    · subst h1; simp [stage, replaceGo, List.isPrefixOf, amp, ih]
    · simp only [stage, h1, h2, h3, h4, ↓reduceIte, List.cons_append, List.nil_append]
      rw [no_amp_step' _ _ _ _ h1, ih]

/-- `unescape` inverts escaping whatever `quotes` setting each character was escaped under -/
theorem unescape_escapeMixed (ps : List QChar) : unescape (escapeMixed ps) = ps.map (·.2) := by
  have h4 : stageM 4 ps = ps.map (·.2) := by
    unfold stageM
    induction ps with
    | nil => rfl
    | cons p ps ih => simp [List.flatMap_cons, stP, stage_four, ih]
  have h0 : escapeMixed ps = stageM 0 ps := by
    unfold escapeMixed stageM; congr 1; funext p; exact (stage_zero p.1 p.2).symm
  unfold unescape replace
  simp only [qt, gt, lt, amp, List.isEmpty_cons, Bool.false_eq_true, ↓reduceIte]
  rw [h0]
  have s1 := stageM_step1 ps; have s2 := stageM_step2 ps
  have s3 := stageM_step3 ps; have s4 := stageM_step4 ps
  simp only [qt, gt, lt, amp] at s1 s2 s3 s4
  rw [s1, s2, s3, s4, h4]

theorem escapeMixed_isEmpty (ps : List QChar) : (escapeMixed ps).isEmpty = ps.isEmpty := by
  cases ps with
  | nil => rfl
  | cons p ps =>
    obtain ⟨q, c⟩ := p
    simp only [escapeMixed, List.flatMap_cons, List.isEmpty_cons]
    have : escC q c ≠ [] := by
      unfold escC
      by_cases h1 : c = '&' <;> by_cases h2 : c = '<' <;> by_cases h3 : c = '>' <;>
        by_cases h4 : c = '"' <;> cases q <;> simp_all [amp, lt, gt, qt]
    cases h : escC q c with
    | nil => exact absurd h this
    | cons _ _ => simp

end Genshi.Subst

/-
  Matchers that designate the same node set report the same result at every event:
  the per-event results are determined by the set of marked nodes.
-/
import Genshi.Lemmas.PathUnion
namespace Genshi.Path
open Genshi Genshi.Path.Ref

/-- the locations of the events that stand for a node -/
def locsOf (ls : List (Option LNode)) : List (List Nat) := ls.filterMap fun l => l.map (·.loc)

theorem locsOf_append (a b : List (Option LNode)) : locsOf (a ++ b) = locsOf a ++ locsOf b := by
  simp [locsOf, List.filterMap_append]

theorem mem_locsOf {ls : List (Option LNode)} {x : List Nat} (h : x ∈ locsOf ls) : ∃ m, some m ∈ ls ∧ m.loc = x := by
  simp only [locsOf, List.mem_filterMap] at h
  obtain ⟨l, hl, hx⟩ := h
  cases l with
  | none => simp at hx
  | some m => exact ⟨m, hl, by simpa using hx⟩

mutual
  theorem eventLocs_nodup : ∀ (n : Node) (loc : List Nat), (locsOf (eventLocs n loc)).Nodup
    | .elem t a ks, loc => by
        have hk := eventLocsList_nodup ks loc 0
        simp only [eventLocs]
        have : locsOf (some ⟨loc, .elem t a ks⟩ :: (eventLocsList ks loc 0 ++ [none]))
            = loc :: locsOf (eventLocsList ks loc 0) := by
          simp [locsOf, List.filterMap_append]
        rw [this, List.nodup_cons]
        refine ⟨?_, hk⟩
        intro hmem
        obtain ⟨m, hm, hloc⟩ := mem_locsOf hmem
        exact loc_ne_of_underFrom (eventLocsList_under ks loc 0 m hm) hloc
    | .leaf e, loc => by simp [eventLocs, locsOf]
  theorem eventLocsList_nodup : ∀ (ks : List Node) (loc : List Nat) (i : Nat), (locsOf (eventLocsList ks loc i)).Nodup
    | [], _, _ => by simp [eventLocsList, locsOf]
    | k :: ks, loc, i => by
        simp only [eventLocsList, locsOf_append]
        rw [List.nodup_append]
        refine ⟨eventLocs_nodup k (loc ++ [i]), eventLocsList_nodup ks loc (i + 1), ?_⟩
        intro a ha b hb hab
        obtain ⟨m, hm, hloc⟩ := mem_locsOf ha
        obtain ⟨m', hm', hloc'⟩ := mem_locsOf hb
        exact underFrom_disjoint (eventLocs_under k (loc ++ [i]) m hm) (eventLocsList_under ks loc (i + 1) m' hm')
          (by rw [hloc, hloc', hab])
end

theorem selB_mem (vals : List Val) (locs : List (Option LNode)) (x : List Nat) (h : selB vals locs x = true) :
    x ∈ locsOf locs := by
  simp only [selB, List.any_eq_true, beq_iff_eq] at h
  obtain ⟨m, hm, hx⟩ := h
  have := matched_mem vals locs m hm
  simp only [locsOf, List.mem_filterMap]
  exact ⟨some m, this, by simp [hx]⟩

/-- the per-event results are determined by the marked locations -/
theorem vals_eq_of_marks : ∀ (locs : List (Option LNode)) (v1 v2 : List Val), okVals v1 locs → okVals v2 locs →
    (locsOf locs).Nodup → (∀ x, selB v1 locs x = selB v2 locs x) → v1 = v2
  | [], [], [], _, _, _, _ => rfl
  | [], _ :: _, _, h, _, _, _ => by simp [okVals] at h
  | [], [], _ :: _, _, h, _, _ => by simp [okVals] at h
  | _ :: _, [], _, h, _, _, _ => by simp [okVals] at h
  | _ :: _, _ :: _, [], _, h, _, _ => by simp [okVals] at h
  | l :: ls, a :: v1, b :: v2, h1, h2, hnd, hsel => by
      cases l with
      | none =>
        have ha : a = .none := by rcases h1.1 with h | h; exact h; simp at h
        have hb : b = .none := by rcases h2.1 with h | h; exact h; simp at h
        subst ha; subst hb
        have hnd' : (locsOf ls).Nodup := by simpa [locsOf] using hnd
        have := vals_eq_of_marks ls v1 v2 h1.2 h2.2 hnd' (fun x => by
          have := hsel x
          simpa [selB_cons] using this)
        rw [this]
      | some n =>
        have hnd' : n.loc ∉ locsOf ls ∧ (locsOf ls).Nodup := by
          simpa [locsOf, List.nodup_cons] using hnd
        have hno1 : selB v1 ls n.loc = false := by
          cases h : selB v1 ls n.loc with
          | false => rfl
          | true => exact absurd (selB_mem _ _ _ h) hnd'.1
        have hno2 : selB v2 ls n.loc = false := by
          cases h : selB v2 ls n.loc with
          | false => rfl
          | true => exact absurd (selB_mem _ _ _ h) hnd'.1
        have hab : a = b := by
          have := hsel n.loc
          simp only [selB_cons, hno1, hno2, beq_self_eq_true, Bool.and_true, Bool.or_false] at this
          rcases h1.1 with ha | ⟨ha, _⟩ <;> rcases h2.1 with hb | ⟨hb, _⟩ <;> subst ha <;> subst hb <;>
            simp [Val.truthy] at this ⊢
        subst hab
        have := vals_eq_of_marks ls v1 v2 h1.2 h2.2 hnd'.2 (fun x => by
          have hx := hsel x
          simp only [selB_cons] at hx
          by_cases hxn : n.loc = x
          · subst hxn; rw [hno1, hno2]
          · have : (n.loc == x) = false := by simpa using hxn
            simpa [this] using hx)
        rw [this]

/-- two matchers that designate the node sets of paths with the same XPath meaning report
    the same result at every event -/
theorem operands_agree (ns : NsMap) (vs : Vars) (xvs : XVars) (root : Node) (p1 p2 : LocPath)
    (m1 m2 : Matcher) (st1 st2 : MState)
    (h1 : Operand ns vs xvs root p1 m1 st1) (h2 : Operand ns vs xvs root p2 m2 st2)
    (hr : ∀ x : LNode, reach ns xvs p1 ⟨[], root⟩ x = reach ns xvs p2 ⟨[], root⟩ x) :
    runTest [m1] ns vs [st1] root.flatten = runTest [m2] ns vs [st2] root.flatten := by
  apply vals_eq_of_marks (eventLocs root []) _ _ h1.ok h2.ok (eventLocs_nodup root [])
  intro x
  have e1 := h1.sel ⟨x, root⟩
  have e2 := h2.sel ⟨x, root⟩
  have := hr ⟨x, root⟩
  simp only at e1 e2
  rw [e1, e2, this]

end Genshi.Path

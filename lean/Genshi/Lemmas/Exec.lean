/-
  Helper lemmas for the reachability model of C14 (`Genshi/Model/Exec.lean`): the invariant
  carried along include chains, the option-spelling lemmas, and the safety of every disabled root
  (finite case analyses over the generated tables of `Genshi/Gen/Exec.lean`).
-/
import Genshi.Model.Exec
namespace Genshi.Exec
open Genshi.Gen.Exec

/-! ### the invariant carried along include chains -/

/-- a reached template is *safe*: a code block in it is rejected with a syntax error, and the
    loader it holds (which instantiates whatever it includes) has execution switched off -/
def Safe (n : Node) : Prop := n.verdict = .reject ∧ n.loaderFlag = false

/-- table fact: a loader whose flag is off rejects code blocks of whatever it instantiates for
    an include, and hands on a loader whose flag is off — for every including class, parse mode
    and reload mode.  (Breaks at the named case when a forwarding entry flips.) -/
theorem inclStep_off (c : Cls) (p : Parse) (ar : Bool) (c' : Cls) (v : Verdict) (lf : Bool)
    (h : inclStep c p false ar = some (c', v, lf)) : v = .reject ∧ lf = false := by
  cases c <;> cases p <;> cases ar <;> simp [inclStep] at h <;>
    (obtain ⟨_, rfl, rfl⟩ := h; exact ⟨rfl, rfl⟩)

theorem step_safe (n m : Node) (p : Parse) (hn : Safe n) (hs : step n p = some m) : Safe m := by
  obtain ⟨_, hlf⟩ := hn
  unfold step at hs
  rw [hlf] at hs
  cases hi : inclStep n.cls p false n.autoReload with
  | none => rw [hi] at hs; cases hs
  | some t =>
      obtain ⟨c', v, lf⟩ := t
      rw [hi] at hs
      cases hs
      exact inclStep_off _ _ _ _ _ _ hi

/-! ### plugin option spellings -/

theorem toNat_ofNat_small (n : Nat) (h : n < 55296) : (Char.ofNat n).toNat = n := by
  have hv : n.isValidChar := Or.inl h
  unfold Char.ofNat
  rw [dif_pos hv]
  simp [Char.ofNatAux, Char.toNat]

/-- every string is one of the letter-case variants of its own lower-casing -/
theorem mem_variants_lower (s : List Char) : s ∈ variants (lower s) := by
  induction s with
  | nil => simp [lower, variants]
  | cons c cs ih =>
      have ih' : cs ∈ variants (List.map lowerC cs) := ih
      simp only [lower, List.map_cons, variants]
      by_cases hup : 65 ≤ c.toNat ∧ c.toNat ≤ 90
      · have hl : lowerC c = Char.ofNat (c.toNat + 32) := by simp [lowerC, hup]
        have hn : (Char.ofNat (c.toNat + 32)).toNat = c.toNat + 32 :=
          toNat_ofNat_small _ (by omega)
        rw [hl, hn]
        have hr : 97 ≤ c.toNat + 32 ∧ c.toNat + 32 ≤ 122 := by omega
        rw [if_pos hr]
        have hb : Char.ofNat (c.toNat + 32 - 32) = c := by
          rw [Nat.add_sub_cancel]; exact Char.ofNat_toNat c
        rw [hb]
        exact List.mem_append_right _ (List.mem_map.mpr ⟨cs, ih', rfl⟩)
      · have hl : lowerC c = c := by simp [lowerC, hup]
        rw [hl]
        by_cases hlo : 97 ≤ c.toNat ∧ c.toNat ≤ 122
        · rw [if_pos hlo]
          exact List.mem_append_left _ (List.mem_map.mpr ⟨cs, ih', rfl⟩)
        · rw [if_neg hlo]
          exact List.mem_map.mpr ⟨cs, ih', rfl⟩

/-- the probed spellings: every documented off-spelling is read as "deny", every documented
    on-spelling as "allow" (finite check over all letter-case variants) -/
theorem spellings_parse :
    (∀ s ∈ offSpellings, parseOpt (.str s) = .deny) ∧ (∀ s ∈ onSpellings, parseOpt (.str s) = .allow) := by
  decide

/-- **for every string**: the option parser says "deny" exactly for the documented
    off-spellings — `no`, `false`, `off`, `0` in any letter case, and nothing else -/
theorem parse_deny_iff_documented_lem (s : List Char) :
    parseOpt (.str s) = .deny ↔ s ∈ offSpellings := by
  constructor
  · intro h
    simp only [parseOpt] at h
    by_cases h1 : lower s ∈ wordsOn
    · rw [if_pos h1] at h; cases h
    · rw [if_neg h1] at h
      by_cases h2 : lower s ∈ wordsOff
      · simp only [offSpellings, List.mem_flatMap]
        exact ⟨lower s, h2, mem_variants_lower s⟩
      · rw [if_neg h2] at h; cases h
  · exact spellings_parse.1 s

/-- any letter-casing of a false-word switches execution off -/
theorem off_spelling_any_case_lem (s : List Char) (h : lower s ∈ wordsOff) : parseOpt (.str s) = .deny :=
  (parse_deny_iff_documented_lem s).mpr
    (by simp only [offSpellings, List.mem_flatMap]; exact ⟨lower s, h, mem_variants_lower s⟩)

/-- whatever the documentation calls "off" is read as "deny" -/
theorem documented_off_denied_lem (o : Opt) (h : documented o = some false) : parseOpt o = .deny := by
  cases o with
  | absent => simp [documented] at h
  | bool b => cases b <;> simp_all [documented, parseOpt]
  | int n => simp [documented] at h
  | none => simp [documented] at h
  | str s =>
      simp only [documented] at h
      by_cases h1 : s ∈ offSpellings
      · exact spellings_parse.1 s h1
      · rw [if_neg h1] at h
        by_cases h2 : s ∈ onSpellings
        · rw [if_pos h2] at h; cases h
        · rw [if_neg h2] at h; cases h

/-! ### roots -/

theorem pluginByFlag_false_check (p : Plugin) :
    (pluginByFlag p false).all (fun row => decide
      ((row.fileV = .reject ∧ row.fileLF = some false) ∧ (row.strV = .reject ∧ row.strLF = some false)
        ∧ row.fileF = some false ∧ row.strF = some false)) = true := by
  cases p <;> decide +kernel

theorem pluginByFlag_false_safe (p : Plugin) (row : PluginRow) (h : pluginByFlag p false = some row) :
    (row.fileV = .reject ∧ row.fileLF = some false) ∧ (row.strV = .reject ∧ row.strLF = some false)
      ∧ row.fileF = some false ∧ row.strF = some false := by
  have hc := pluginByFlag_false_check p
  rw [h] at hc
  simpa using hc

theorem rootNode_safe (cfg : Config) (r : Root) (n : Node) (hd : r.disabled cfg)
    (hn : rootNode cfg r = some n) : Safe n := by
  cases r with
  | direct c s own =>
      cases own with
      | true =>
          have ht : cfg.tmpl = .off := hd
          simp only [rootNode, ht] at hn
          cases c <;> cases s <;> simp [directLoaderFlag, directVerdict] at hn <;>
            (subst hn; exact ⟨rfl, rfl⟩)
      | false =>
          obtain ⟨ht, hl⟩ : cfg.tmpl = .off ∧ cfg.loader = .off := hd
          simp only [rootNode, ht, hl] at hn
          cases c <;> cases s <;> simp [directLoaderFlag, directVerdict] at hn <;>
            (subst hn; exact ⟨rfl, rfl⟩)
  | load c d =>
      have hl : cfg.loader = .off := hd
      simp only [rootNode, hl] at hn
      cases c <;> cases d <;> simp [loadLoaderFlag, loadVerdict] at hn <;>
        (subst hn; exact ⟨rfl, rfl⟩)
  | pluginFile p =>
      have hp : parseOpt cfg.opt = .deny := documented_off_denied_lem _ hd
      simp only [rootNode, hp] at hn
      cases hc : pluginCls p with
      | none => simp [hc] at hn
      | some c =>
          simp only [hc] at hn
          cases hr : pluginByFlag p false with
          | none => simp [hr] at hn
          | some row =>
              have hs := pluginByFlag_false_safe p row hr
              simp only [hr, Option.bind_some, hs.1.2, Option.map_some] at hn
              cases hn
              exact ⟨hs.1.1, rfl⟩
  | pluginString p =>
      have hp : parseOpt cfg.opt = .deny := documented_off_denied_lem _ hd
      simp only [rootNode, hp] at hn
      cases hc : pluginCls p with
      | none => simp [hc] at hn
      | some c =>
          simp only [hc] at hn
          cases hr : pluginByFlag p false with
          | none => simp [hr] at hn
          | some row =>
              have hs := pluginByFlag_false_safe p row hr
              simp only [hr, Option.bind_some, hs.2.1.2, Option.map_some] at hn
              cases hn
              exact ⟨hs.2.1.1, rfl⟩

/-! ### the property -/

/-- every template reachable from a disabled root is safe — induction over include depth -/
theorem node_safe (cfg : Config) (r : Reach) (n : Node) (hd : r.rootOf.disabled cfg)
    (hn : node cfg r = some n) : Safe n := by
  induction r generalizing n with
  | root r0 => exact rootNode_safe cfg r0 n hd hn
  | incl parent p ih =>
      simp only [node] at hn
      cases hp : node cfg parent with
      | none => rw [hp] at hn; cases hn
      | some m =>
          rw [hp] at hn
          exact step_safe m n p (ih m hd hp) hn


end Genshi.Exec

/-
  Lemmas for C05 `pred_eval_sound`: the model's predicate evaluation
  (`Expr.eval`, the coercions `as_*`, `_compare`, the functions) computes the
  XPath 1.0 value of the reference (`Ref.xEval`) on the typed fragment.
-/
import Genshi.Model.Path
import Genshi.Model.PathRef
namespace Genshi.Path
open Genshi Genshi.Path.Ref

/-- the XPath value a model value stands for (`None` is the empty node set) -/
def Val.toX : Val → Option XVal
  | .none => some (.nodes [])
  | .bool b => some (.bool b)
  | .num x => some (.num x)
  | .str s => some (.str s)
  | .attrs a => some (.nodes a)
  | .event _ => Option.none

theorem asBool_toX {v : Val} {x : XVal} (h : v.toX = some x) : v.asBool = xBoolean x := by
  cases v <;> simp [Val.toX] at h <;> subst h <;> simp [Val.asBool, xBoolean, Val.truthy]

theorem asFloat_toX {v : Val} {x : XVal} (h : v.toX = some x) : v.asFloat = xNumber x := by
  cases v with
  | attrs a => simp [Val.toX] at h; subst h; cases a with
    | nil => simp [Val.asFloat, Val.asScalar, xNumber, XNum.parse]
    | cons p r => obtain ⟨q, s⟩ := p; simp [Val.asFloat, Val.asScalar, xNumber]
  | _ => simp [Val.toX] at h <;> subst h <;> simp [Val.asFloat, Val.asScalar, xNumber]

theorem asString_toX {v : Val} {x : XVal} (h : v.toX = some x) : v.asString = xString x := by
  cases v with
  | attrs a => simp [Val.toX] at h; subst h; cases a with
    | nil => simp [Val.asString, Val.asScalar, xString]
    | cons p r => obtain ⟨q, s⟩ := p; simp [Val.asString, Val.asScalar, xString]
  | bool b => simp [Val.toX] at h; subst h; cases b <;> simp [Val.asString, Val.asScalar, xString]
  | _ => simp [Val.toX] at h <;> subst h <;> simp [Val.asString, Val.asScalar, xString]

theorem numOp_eq_xNumCmp (op : CmpOp) (a b : XNum) : numOp op a b = xNumCmp op a b := by
  cases a <;> cases b <;> cases op <;> simp [numOp, xNumCmp, XNum.cmp]

/-- the side condition of the pinned behaviour (finding C05-ne-absent-attribute): the
    comparison does not hit the "absent attribute" branch of `_compare` with a true result -/
def absentOk (op : CmpOp) (l r : Val) : Bool :=
  l.isBool || r.isBool || !(l.isNone || r.isNone) || op.relational || !(eqOp op (l.isNone && r.isNone))

theorem any_values_attrs (a : AttrList) (f : Val → Bool) :
    (Val.attrs a).values.any f = a.any fun p => f (.str p.2) := by
  simp [Val.values, List.any_map, Function.comp_def]

theorem isRel_eq (op : CmpOp) : isRel op = op.relational := by cases op <;> rfl

theorem eqOp_xEq_str (op : CmpOp) (h : op.relational = false) (a b : Str) :
    eqOp op (a == b) = xEq op a b := by
  cases op <;> simp [eqOp, xEq, CmpOp.relational] at h ⊢

theorem eqOp_xEq_bool (op : CmpOp) (h : op.relational = false) (a b : Bool) :
    eqOp op (a == b) = xEq op a b := by
  cases op <;> simp [eqOp, xEq, CmpOp.relational] at h ⊢

theorem compare_eq_xCompare (op : CmpOp) {l r : Val} {x y : XVal}
    (hl : l.toX = some x) (hr : r.toX = some y) (hok : absentOk op l r = true) :
    compare op l r = xCompare op x y := by
  cases hrel : op.relational <;>
  cases l <;> simp [Val.toX] at hl <;> subst hl <;>
  cases r <;> simp [Val.toX] at hr <;> subst hr <;>
  simp [compare, xCompare, Val.isBool, Val.isNone, Val.isNum, hrel, isRel_eq, Val.asBool, Val.truthy,
        Val.values, Val.asFloat, Val.asString, Val.asScalar, xNumber, xString, xBoolean, numOp_eq_xNumCmp,
        eqOp_xEq_str op, eqOp_xEq_bool op, List.any_map, Function.comp_def, absentOk, relOperand] at hok ⊢
  all_goals first
    | exact hok
    | (simp [hok]; done)
    | (rename_i b; cases op <;> cases b <;> simp_all [eqOp, xEq, CmpOp.relational]; done)

/-! ## Attribute name tests -/

/-- a local name does not look like an expanded name -/
def nameOk (s : Str) : Bool := s.head? != some '{'

/-- attribute lists as the XML parser delivers them: pairwise distinct names, local names that
    do not start with `{`, namespace URIs without `}` -/
def attrsOk (a : AttrList) : Prop :=
  (a.map Prod.fst).Nodup ∧ ∀ p ∈ a, nameOk p.1.loc = true ∧ '}' ∉ p.1.ns

theorem text_eq_plain {q : QName} {name : Str} (hq : nameOk q.loc = true) (hn : nameOk name = true) :
    q.text = name ↔ (q.ns.isEmpty = true ∧ q.loc = name) := by
  unfold QName.text
  by_cases h : q.ns.isEmpty = true
  · simp [h]
  · rw [if_neg h]
    constructor
    · intro he
      simp [nameOk, ← he] at hn
    · intro ⟨h', _⟩; exact absurd h' h

theorem append_cons_inj {α : Type} (c : α) : ∀ (a a' b b' : List α), c ∉ a → c ∉ a' →
    a ++ c :: b = a' ++ c :: b' → a = a' ∧ b = b' := by
  intro a
  induction a with
  | nil =>
    intro a' b b' _ ha' h
    cases a' with
    | nil => simpa using h
    | cons x xs =>
      simp at h
      exact absurd (h.1 ▸ List.mem_cons_self) ha'
  | cons x xs ih =>
    intro a' b b' ha ha' h
    cases a' with
    | nil =>
      simp at h
      exact absurd (h.1 ▸ List.mem_cons_self) ha
    | cons y ys =>
      simp at h
      have := ih ys b b' (fun hm => ha (List.mem_cons_of_mem _ hm)) (fun hm => ha' (List.mem_cons_of_mem _ hm)) h.2
      exact ⟨by rw [h.1, this.1], this.2⟩

def qnOk (q : QName) : Prop := nameOk q.loc = true ∧ '}' ∉ q.ns

theorem text_inj {q r : QName} (hq : qnOk q) (hr : qnOk r) : q.text = r.text ↔ q = r := by
  constructor
  · intro h
    obtain ⟨qn, ql⟩ := q
    obtain ⟨rn, rl⟩ := r
    simp only [QName.text] at h
    by_cases h1 : qn.isEmpty = true <;> by_cases h2 : rn.isEmpty = true
    · simp only [h1, h2, if_true] at h
      simp [List.isEmpty_iff] at h1 h2
      simp [h1, h2, h]
    · simp only [h1, h2, if_true] at h
      have := hq.1; simp [nameOk, h] at this
    · simp only [h1, h2, if_true] at h
      have := hr.1; simp [nameOk, ← h] at this
    · simp only [h1, h2] at h
      simp at h
      have := append_cons_inj '}' qn rn ql rl hq.2 hr.2 h
      simp [this.1, this.2]
  · intro h; rw [h]

theorem filter_none_of_nodup {q : QName} {r : AttrList} (h : q ∉ r.map Prod.fst) (name : Str)
    (hq : q.ns.isEmpty = true ∧ q.loc = name) :
    r.filter (fun a => a.1.ns.isEmpty && a.1.loc == name) = [] := by
  rw [List.filter_eq_nil_iff]
  intro a ha hcond
  simp only [Bool.and_eq_true, beq_iff_eq] at hcond
  apply h
  rw [List.mem_map]
  refine ⟨a, ha, ?_⟩
  obtain ⟨ns, loc⟩ := q
  obtain ⟨⟨ns', loc'⟩, v⟩ := a
  simp only [List.isEmpty_iff] at hq hcond
  simp_all

theorem localName_attr (name : Str) (hn : nameOk name = true) (a : AttrList) (ha : attrsOk a) :
    a.filter (fun p => p.1.ns.isEmpty && p.1.loc == name) =
      (match attrGetText name a with
       | some v => [(QName.plain name, v)]
       | Option.none => []) := by
  induction a with
  | nil => simp [attrGetText]
  | cons p r ih =>
    obtain ⟨q, v⟩ := p
    have hr : attrsOk r := by
      refine ⟨(List.nodup_cons.mp (by simpa using ha.1)).2, fun p hp => ha.2 p (List.mem_cons_of_mem _ hp)⟩
    have hq := (ha.2 (q, v) (List.mem_cons_self)).1
    have hnot : q ∉ r.map Prod.fst := (List.nodup_cons.mp (by simpa using ha.1)).1
    simp only [attrGetText]
    by_cases ht : q.text = name
    · have hq' := (text_eq_plain hq hn).mp ht
      simp only [ht, if_true]
      rw [List.filter_cons]
      simp only [hq'.1, hq'.2, beq_self_eq_true, Bool.and_self, if_true]
      rw [filter_none_of_nodup hnot name hq']
      obtain ⟨ns, loc⟩ := q
      simp only [List.isEmpty_iff] at hq'
      simp [QName.plain, hq'.1, hq'.2]
    · simp only [ht, if_false]
      rw [List.filter_cons]
      have : (q.ns.isEmpty && q.loc == name) = false := by
        cases hc : (q.ns.isEmpty && q.loc == name) with
        | false => rfl
        | true =>
          simp only [Bool.and_eq_true, beq_iff_eq] at hc
          exact absurd ((text_eq_plain hq hn).mpr hc) ht
      simp only [this, Bool.false_eq_true, if_false]
      exact ih hr

theorem qname_attr (u name : Str) (hq : qnOk ⟨u, name⟩) (a : AttrList) (ha : attrsOk a) :
    a.filter (fun p => p.1.ns == u && p.1.loc == name) =
      (match attrGetQ ⟨u, name⟩ a with
       | some v => [((⟨u, name⟩ : QName), v)]
       | Option.none => []) := by
  induction a with
  | nil => simp [attrGetQ]
  | cons p r ih =>
    obtain ⟨q, v⟩ := p
    have hr : attrsOk r := by
      refine ⟨(List.nodup_cons.mp (by simpa using ha.1)).2, fun p hp => ha.2 p (List.mem_cons_of_mem _ hp)⟩
    have hqq : qnOk q := ha.2 (q, v) List.mem_cons_self
    have hnot : q ∉ r.map Prod.fst := (List.nodup_cons.mp (by simpa using ha.1)).1
    simp only [attrGetQ]
    by_cases ht : q.text = (⟨u, name⟩ : QName).text
    · have heq : q = ⟨u, name⟩ := (text_inj hqq hq).mp ht
      subst heq
      simp only [if_true, List.filter_cons, beq_self_eq_true, Bool.and_self]
      have : r.filter (fun p => p.1.ns == u && p.1.loc == name) = [] := by
        rw [List.filter_eq_nil_iff]
        intro x hx hc
        simp only [Bool.and_eq_true, beq_iff_eq] at hc
        apply hnot
        rw [List.mem_map]
        refine ⟨x, hx, ?_⟩
        obtain ⟨⟨xn, xl⟩, xv⟩ := x
        simp_all
      rw [this]
    · simp only [ht, if_false, List.filter_cons]
      have : (q.ns == u && q.loc == name) = false := by
        cases hc : (q.ns == u && q.loc == name) with
        | false => rfl
        | true =>
          simp only [Bool.and_eq_true, beq_iff_eq] at hc
          obtain ⟨qn, ql⟩ := q
          simp only at hc
          exact absurd (by rw [hc.1, hc.2]) ht
      simp only [this, Bool.false_eq_true, if_false]
      exact ih hr

/-! ## String functions -/

theorem indexOf_eq (c : Char) (fr : Str) (k : Nat) :
    indexOf c fr k = (fr.idxOf? c).map (· + k) := by
  induction fr generalizing k with
  | nil => simp [indexOf]
  | cons d r ih =>
    simp only [indexOf, List.idxOf?_cons]
    by_cases h : d = c
    · simp [h]
    · have h' : (d == c) = false := by simp [h]
      simp [h, h', ih, Option.map_map, Function.comp_def]
      cases r.idxOf? c <;> simp; omega
theorem translate_eq (s fr to : Str) : translate s fr to = xTranslate s fr to := by
  unfold translate xTranslate
  congr 1; funext c
  rw [indexOf_eq]; simp
  cases fr.idxOf? c <;> rfl

abbrev ws := XNum.isXmlSpace

/-- empty, or ends in a non-whitespace character -/
def endsNonWs (t : Str) : Prop := t = [] ∨ ∃ t0 c, t = t0 ++ [c] ∧ ws c = false

theorem endsNonWs_tail {c : Char} {cs : Str} (h : endsNonWs (c :: cs)) : endsNonWs cs := by
  rcases h with h | ⟨t0, d, h, hd⟩
  · cases h
  · cases t0 with
    | nil => simp at h; left; exact h.2
    | cons e t0' =>
      simp at h
      right; exact ⟨t0', d, h.2, hd⟩

theorem endsNonWs_single {c : Char} (h : endsNonWs [c]) : ws c = false := by
  rcases h with h | ⟨t0, d, h, hd⟩
  · cases h
  · cases t0 with
    | nil => simp at h; rw [h]; exact hd
    | cons e t0' => simp at h

theorem join_cons_ne (w : Str) (W : List Str) (h : W ≠ []) :
    Str.join [' '] (w :: W) = w ++ ' ' :: Str.join [' '] W := by
  cases W with
  | nil => exact absurd rfl h
  | cons x xs => simp [Str.join]

/-- a string with a non-whitespace character somewhere has at least one word -/
theorem wordsGo_ne_nil_of_cur (s : Str) (cur : Str) (h : cur ≠ []) : wordsGo s cur ≠ [] := by
  induction s generalizing cur with
  | nil => simp [wordsGo, h]
  | cons c cs ih =>
    simp only [wordsGo]
    by_cases hc : ws c = true
    · simp [hc, h]
    · simp only [hc]; exact ih (c :: cur) (by simp)

theorem wordsGo_ne_nil (s : Str) (hs : s ≠ []) (he : endsNonWs s) : wordsGo s [] ≠ [] := by
  induction s with
  | nil => exact absurd rfl hs
  | cons c cs ih =>
    simp only [wordsGo]
    by_cases hc : ws c = true
    · simp only [hc, if_true, List.isEmpty_nil]
      by_cases hcs : cs = []
      · subst hcs; have := endsNonWs_single he; simp [hc] at this
      · exact ih hcs (endsNonWs_tail he)
    · simp only [hc]; exact wordsGo_ne_nil_of_cur cs [c] (by simp)

theorem collapse_words (s : Str) (he : endsNonWs s) :
    (∀ cur, cur ≠ [] → cur.reverse ++ collapseGo false s = Str.join [' '] (wordsGo s cur)) ∧
    collapseGo true s = Str.join [' '] (wordsGo s []) := by
  induction s with
  | nil =>
    refine ⟨fun cur hcur => ?_, by simp [collapseGo, wordsGo, Str.join]⟩
    have hne : cur.isEmpty = false := by cases cur <;> simp_all
    simp [collapseGo, wordsGo, Str.join, hne]
  | cons c cs ih =>
    have ih := ih (endsNonWs_tail he)
    by_cases hc : ws c = true
    · have hcs : cs ≠ [] := by
        intro h; subst h; have := endsNonWs_single he; simp [hc] at this
      constructor
      · intro cur hcur
        have hne : cur.isEmpty = false := by cases cur <;> simp_all
        simp only [collapseGo, wordsGo, hc, if_true, hne, Bool.false_eq_true, if_false]
        rw [join_cons_ne _ _ (wordsGo_ne_nil cs hcs (endsNonWs_tail he)), ih.2]
      · simp only [collapseGo, wordsGo, hc, if_true, List.isEmpty_nil]
        exact ih.2
    · constructor
      · intro cur hcur
        simp only [collapseGo, wordsGo, hc]
        have := ih.1 (c :: cur) (by simp)
        simpa using this
      · simp only [collapseGo, wordsGo, hc]
        have := ih.1 [c] (by simp)
        simpa using this

theorem wordsGo_allWs (w : Str) (hw : ∀ c ∈ w, ws c = true) (cur : Str) :
    wordsGo w cur = if cur.isEmpty then [] else [cur.reverse] := by
  induction w generalizing cur with
  | nil => simp [wordsGo]
  | cons c cs ih =>
    have hc := hw c List.mem_cons_self
    have ih := fun cur => ih (fun d hd => hw d (List.mem_cons_of_mem _ hd)) cur
    simp only [wordsGo, hc, if_true]
    cases cur with
    | nil => simp [ih]
    | cons d ds => simp [ih]

theorem wordsGo_append_ws (t w : Str) (hw : ∀ c ∈ w, ws c = true) (cur : Str) :
    wordsGo (t ++ w) cur = wordsGo t cur := by
  induction t generalizing cur with
  | nil => simp [wordsGo, wordsGo_allWs w hw]
  | cons c cs ih =>
    simp only [List.cons_append, wordsGo, ih]

theorem wordsGo_dropWhile (s : Str) : wordsGo (s.dropWhile ws) [] = wordsGo s [] := by
  induction s with
  | nil => rfl
  | cons c cs ih =>
    by_cases hc : ws c = true
    · simp [hc, wordsGo, ih]
    · simp [hc]

theorem strip_core (s' : Str) (hlead : ∀ c cs, s' = c :: cs → ws c = false) :
    collapseGo false (s'.reverse.dropWhile ws).reverse = Str.join [' '] (wordsGo s' []) := by
  obtain ⟨t, ht⟩ : ∃ t, t = (s'.reverse.dropWhile ws).reverse := ⟨_, rfl⟩
  obtain ⟨w, hw⟩ : ∃ w, w = (s'.reverse.takeWhile ws).reverse := ⟨_, rfl⟩
  have hsplit : s' = t ++ w := by
    rw [ht, hw, ← List.reverse_append, List.takeWhile_append_dropWhile, List.reverse_reverse]
  have hwall : ∀ c ∈ w, ws c = true := by
    intro c hc
    rw [hw, List.mem_reverse] at hc
    have := List.all_takeWhile (p := ws) (l := s'.reverse)
    rw [List.all_eq_true] at this
    exact this c hc
  have hte : endsNonWs t := by
    cases hd : s'.reverse.dropWhile ws with
    | nil => left; rw [ht, hd]; rfl
    | cons c r =>
      right
      refine ⟨r.reverse, c, by rw [ht, hd]; simp, ?_⟩
      have := List.head_dropWhile_not ws (l := s'.reverse) (by rw [hd]; simp)
      simpa [hd] using this
  rw [← ht]
  have hwords : wordsGo s' [] = wordsGo t [] := by
    rw [hsplit, wordsGo_append_ws _ _ hwall]
  rw [hwords]
  cases htl : t with
  | nil => simp [collapseGo, wordsGo, Str.join]
  | cons c cs =>
    have hcne : ws c = false := hlead c (cs ++ w) (by rw [hsplit, htl]; rfl)
    have := (collapse_words cs (endsNonWs_tail (htl ▸ hte))).1 [c] (by simp)
    simp only [collapseGo, wordsGo, hcne, Bool.false_eq_true, if_false]
    simpa using this

/-- `str.strip` of XML whitespace, then one space per run = the words joined by one space -/
theorem normalizeSpace_eq (s : Str) : normalizeSpace s = xNormalize s := by
  unfold normalizeSpace xNormalize stripXml collapseXml
  rw [strip_core (s.dropWhile ws), wordsGo_dropWhile]
  intro c cs h
  have := List.head_dropWhile_not ws (l := s) (by rw [h]; simp)
  simpa [h] using this

/-! ## The typed fragment and the main induction -/

/-- the event the matchers see for a node -/
def nodeEvent : Node → Event
  | .elem t a _ => .start t a
  | .leaf e => e

/-- trees as the parser delivers them: a leaf is never a START / END event, attribute lists are
    hygienic -/
def nodeOk : Node → Prop
  | .elem _ a _ => attrsOk a
  | .leaf e => e.isStartEnd = false

def NodeTest.isAttrName : NodeTest → Bool
  | .principal true | .qprincipal true _ | .localName true _ | .qname true _ _ => true
  | _ => false

/-- prefixes are bound, names are plain -/
def NodeTest.wf (ns : NsMap) : NodeTest → Bool
  | .qprincipal _ pfx => (lookup pfx ns).isSome
  | .localName _ name => nameOk name
  | .qname _ pfx name => (match lookup pfx ns with
      | some u => !(List.elem '}' u)
      | Option.none => false) && nameOk name
  | _ => true

/-- the typed fragment of predicate expressions (static part): attribute lookups, literals,
    bound variables of type string / number / boolean, the functions and operators of the
    documented subset except `substring` (finding C05-substring) and the non-XPath `matches` -/
def Expr.typed (ns : NsMap) (vs : Vars) : Expr → Bool
  | .test t => t.isAttrName && t.wf ns
  | .str _ | .num _ | .fn0 _ => true
  | .var n => (match lookup n vs with
      | some (.bool _) | some (.num _) | some (.str _) => true
      | _ => false)
  | .fn1 _ a => a.typed ns vs
  | .fn2 f a b => f != .substring && f != .matches && a.typed ns vs && b.typed ns vs
  | .fn3 f a b c => f == .translate && a.typed ns vs && b.typed ns vs && c.typed ns vs
  | .concat1 a => a.typed ns vs
  | .concat a r => a.typed ns vs && r.typed ns vs
  | .and_ a b | .or_ a b | .cmp _ a b => a.typed ns vs && b.typed ns vs

/-- dynamic part: no `=` / `!=` evaluation hits the pinned treatment of an absent attribute -/
def Expr.absentFree (e : Event) (ns : NsMap) (vs : Vars) : Expr → Bool
  | .fn1 _ a | .concat1 a => a.absentFree e ns vs
  | .fn2 _ a b | .concat a b | .and_ a b | .or_ a b => a.absentFree e ns vs && b.absentFree e ns vs
  | .fn3 _ a b c => a.absentFree e ns vs && b.absentFree e ns vs && c.absentFree e ns vs
  | .cmp op a b => a.absentFree e ns vs && b.absentFree e ns vs && absentOk op (a.eval e ns vs) (b.eval e ns vs)
  | _ => true

/-- the variable bindings as XPath values -/
def toXVars (vs : Vars) : XVars :=
  vs.filterMap fun p => p.2.toX.map fun x => (p.1, x)

theorem lookup_toXVars (n : Str) (vs : Vars) (v : Val) (x : XVal) (h : lookup n vs = some v)
    (hx : v.toX = some x) : lookup n (toXVars vs) = some x := by
  induction vs with
  | nil => simp [lookup] at h
  | cons p r ih =>
    obtain ⟨k, w⟩ := p
    simp only [lookup] at h
    by_cases hk : k = n
    · simp only [hk, if_true] at h
      cases h
      simp [toXVars, List.filterMap_cons, hx, lookup, hk]
    · simp only [hk, if_false] at h
      have := ih h
      cases hw : w.toX with
      | none => simpa [toXVars, List.filterMap_cons, hw] using this
      | some y => simpa [toXVars, List.filterMap_cons, hw, lookup, hk] using this

theorem attrTest_toX (t : NodeTest) (ns : NsMap) (n : Node) (hn : nodeOk n)
    (ht : t.isAttrName = true) (hwf : t.wf ns = true) :
    (t.apply (nodeEvent n) ns).toX = some (.nodes (attrNodes t n ns)) := by
  cases n with
  | leaf e =>
    simp only [nodeOk] at hn
    cases t <;> simp [NodeTest.isAttrName] at ht <;>
      cases e <;> simp_all [nodeEvent, NodeTest.apply, Val.toX, attrNodes, Event.isStartEnd]
  | elem tag a ks =>
    simp only [nodeOk] at hn
    cases t with
    | principal attr =>
      cases attr <;> simp [NodeTest.isAttrName] at ht
      cases a <;> simp [nodeEvent, NodeTest.apply, Val.toX, attrNodes]
    | qprincipal attr pfx =>
      cases attr <;> simp [NodeTest.isAttrName] at ht
      simp only [NodeTest.wf] at hwf
      obtain ⟨u, hu⟩ := Option.isSome_iff_exists.mp hwf
      simp only [nodeEvent, NodeTest.apply, nsOf, hu, Option.getD_some, attrNodes, if_true]
      have hf : (a.filter fun p => p.1.ns == u) = a.filter fun p => some p.1.ns == some u := by
        congr 1
      rw [hf]
      cases hs : (a.filter fun p => some p.1.ns == some u) <;> simp [Val.toX]
    | localName attr name =>
      cases attr <;> simp [NodeTest.isAttrName] at ht
      simp only [NodeTest.wf] at hwf
      simp only [nodeEvent, NodeTest.apply, attrNodes, if_true]
      rw [localName_attr name hwf a hn]
      cases attrGetText name a <;> simp [Val.toX]
    | qname attr pfx name =>
      cases attr <;> simp [NodeTest.isAttrName] at ht
      simp only [NodeTest.wf, Bool.and_eq_true] at hwf
      obtain ⟨hw1, hw2⟩ := hwf
      cases hu : lookup pfx ns with
      | none => simp [hu] at hw1
      | some u =>
        simp only [hu, Bool.not_eq_true', List.elem_eq_mem, decide_eq_false_iff_not] at hw1
        simp only [nodeEvent, NodeTest.apply, nsOf, hu, Option.getD_some, attrNodes, if_true]
        have hf : (a.filter fun p => some p.1.ns == some u && p.1.loc == name)
            = a.filter fun p => p.1.ns == u && p.1.loc == name := by
          congr 1
        rw [hf, qname_attr u name ⟨hw2, hw1⟩ a hn]
        cases attrGetQ ⟨u, name⟩ a <;> simp [Val.toX]
    | _ => simp [NodeTest.isAttrName] at ht

theorem fn0_toX (f : Fn0) (n : Node) (hn : nodeOk n) :
    (applyFn0 f (nodeEvent n)).toX = some (xFn0 f n) := by
  cases n with
  | elem t a ks => cases f <;> simp [applyFn0, xFn0, nodeEvent, Val.toX, expandedName]
  | leaf e =>
    simp only [nodeOk] at hn
    cases f <;> cases e <;> simp_all [applyFn0, xFn0, nodeEvent, Val.toX, Event.isStartEnd]

/-- `pred_eval_sound`, general form: on the typed fragment the model value of a predicate
    expression *is* the XPath value (a swapped operator or a wrong coercion breaks this) -/
theorem eval_toX (n : Node) (hn : nodeOk n) (ns : NsMap) (vs : Vars) (e : Expr)
    (ht : e.typed ns vs = true) (hab : e.absentFree (nodeEvent n) ns vs = true) :
    (e.eval (nodeEvent n) ns vs).toX = some (xEval n ns (toXVars vs) e) := by
  induction e with
  | test t =>
    simp only [Expr.typed, Bool.and_eq_true] at ht
    simpa [Expr.eval, xEval] using attrTest_toX t ns n hn ht.1 ht.2
  | str s => simp [Expr.eval, xEval, Val.toX]
  | num x => simp [Expr.eval, xEval, Val.toX]
  | var v =>
    simp only [Expr.typed] at ht
    cases hl : lookup v vs with
    | none => simp [hl] at ht
    | some w =>
      cases w with
      | bool b => simp [Expr.eval, xEval, hl, Val.toX, lookup_toXVars v vs _ (.bool b) hl rfl]
      | num x => simp [Expr.eval, xEval, hl, Val.toX, lookup_toXVars v vs _ (.num x) hl rfl]
      | str s => simp [Expr.eval, xEval, hl, Val.toX, lookup_toXVars v vs _ (.str s) hl rfl]
      | _ => simp [hl] at ht
  | fn0 f => simpa [Expr.eval, xEval] using fn0_toX f n hn
  | fn1 f a iha =>
    simp only [Expr.typed] at ht
    simp only [Expr.absentFree] at hab
    have ha := iha ht hab
    cases f <;> simp_all [Expr.eval, xEval, applyFn1, Val.toX, asBool_toX ha, asFloat_toX ha, asString_toX ha,
      normalizeSpace_eq]
  | fn2 f a b iha ihb =>
    simp only [Expr.typed, Bool.and_eq_true, bne_iff_ne, ne_eq] at ht
    simp only [Expr.absentFree, Bool.and_eq_true] at hab
    have ha := iha ht.1.2 hab.1
    have hb := ihb ht.2 hab.2
    cases f <;> simp_all [Expr.eval, xEval, applyFn2, Val.toX, asString_toX ha, asString_toX hb,
      substringAfter, xSubstringAfter, substringBefore, xSubstringBefore] <;> rfl
  | fn3 f a b c iha ihb ihc =>
    simp only [Expr.typed, Bool.and_eq_true, beq_iff_eq] at ht
    simp only [Expr.absentFree, Bool.and_eq_true] at hab
    have ha := iha ht.1.1.2 hab.1.1
    have hb := ihb ht.1.2 hab.1.2
    have hc := ihc ht.2 hab.2
    rw [ht.1.1.1]
    simp [Expr.eval, xEval, applyFn3, Val.toX, asString_toX ha, asString_toX hb, asString_toX hc, translate_eq]
  | concat1 a iha =>
    simp only [Expr.typed] at ht
    simp only [Expr.absentFree] at hab
    simp [Expr.eval, xEval, Val.toX, asString_toX (iha ht hab)]
  | concat a r iha ihr =>
    simp only [Expr.typed, Bool.and_eq_true] at ht
    simp only [Expr.absentFree, Bool.and_eq_true] at hab
    simp [Expr.eval, xEval, Val.toX, asString_toX (iha ht.1 hab.1), asString_toX (ihr ht.2 hab.2)]
  | and_ a b iha ihb =>
    simp only [Expr.typed, Bool.and_eq_true] at ht
    simp only [Expr.absentFree, Bool.and_eq_true] at hab
    simp [Expr.eval, xEval, Val.toX, asBool_toX (iha ht.1 hab.1), asBool_toX (ihb ht.2 hab.2)]
  | or_ a b iha ihb =>
    simp only [Expr.typed, Bool.and_eq_true] at ht
    simp only [Expr.absentFree, Bool.and_eq_true] at hab
    simp [Expr.eval, xEval, Val.toX, asBool_toX (iha ht.1 hab.1), asBool_toX (ihb ht.2 hab.2)]
  | cmp op a b iha ihb =>
    simp only [Expr.typed, Bool.and_eq_true] at ht
    simp only [Expr.absentFree, Bool.and_eq_true] at hab
    simp [Expr.eval, xEval, Val.toX,
      compare_eq_xCompare op (iha ht.1 hab.1.1) (ihb ht.2 hab.1.2) hab.2]

end Genshi.Path

/-
  C20 re-uses the theorems of the owners of the other built-in stream filters for "maps a
  well-nested stream to a well-nested stream": the sanitizer (C06, `wellNested_sanitize`) and the
  translation filter (C19, `trList_nodes`: the pass is a tree homomorphism on the flattening of a
  forest).  Read-only imports; nothing here changes those files.
-/
import Genshi.Lemmas.SanNest
import Genshi.Lemmas.I18nTree
namespace Genshi.I18n
open Genshi

/-- the START / END skeleton of a translator stream (its nesting) -/
def tTags : TStream → Stream
  | [] => []
  | .start t _ :: s => .start t [] :: tTags s
  | .end_ t :: s => .end_ t :: tTags s
  | _ :: s => tTags s

theorem tTags_append : ∀ (a b : TStream), tTags (a ++ b) = tTags a ++ tTags b
  | [], b => rfl
  | e :: a, b => by cases e <;> simp [tTags, tTags_append a b]

theorem tTags_leaf (e : TEvent) (h : e.isBracket = false) : tTags [e] = [] := by
  cases e <;> simp_all [tTags, TEvent.isBracket]

mutual
  theorem tnode_balance : ∀ (n : TNode) (st : List QName) (rest : Stream), n.ok = true →
      balance st (tTags n.flatten ++ rest) = balance st rest
    | .elem t a ks, st, rest, h => by
        have hk : okNodes ks = true := by simpa [TNode.ok] using h
        simp only [TNode.flatten, tTags, tTags_append, List.cons_append, List.append_assoc, balance]
        rw [tnodes_balance ks (t :: st) _ hk]
        simp [tTags, balance]
    | .leaf e, st, rest, h => by
        have he : e.isBracket = false := by simpa [TNode.ok] using h
        simp [TNode.flatten, tTags_leaf e he]
  theorem tnodes_balance : ∀ (ns : List TNode) (st : List QName) (rest : Stream), okNodes ns = true →
      balance st (tTags (flattenNodes ns) ++ rest) = balance st rest
    | [], st, rest, _ => by simp [flattenNodes, tTags]
    | n :: ns, st, rest, h => by
        simp only [okNodes, Bool.and_eq_true] at h
        simp only [flattenNodes, tTags_append, List.append_assoc]
        rw [tnode_balance n st _ h.1, tnodes_balance ns st rest h.2]
end

theorem trLeaf_not_bracket (cfg : Cfg) (cat : Catalog) (ctx : Ctx) (tt ta : Bool) (e : TEvent)
    (h : e.isBracket = false) : (trLeaf cfg cat ctx tt ta e).isBracket = false := by
  cases e with
  | text s => cases tt <;> simp [trLeaf, TEvent.isBracket]
  | sub d b => simp [trLeaf, trSub, TEvent.isBracket]
  | start t a => simp [TEvent.isBracket] at h
  | end_ t => simp [TEvent.isBracket] at h
  | _ => simp [trLeaf, TEvent.isBracket]

mutual
  theorem trNode_ok (cfg : Cfg) (cat : Catalog) (ctx : Ctx) (tt ta : Bool) : ∀ (n : TNode), n.ok = true →
      (trNode cfg cat ctx tt ta n).ok = true
    | .elem t a ks, h => by
        have hk : okNodes ks = true := by simpa [TNode.ok] using h
        simp only [trNode]
        split
        · exact h
        · simpa [TNode.ok] using trNodes_ok cfg cat ctx tt ta ks hk
    | .leaf e, h => by
        have he : e.isBracket = false := by simpa [TNode.ok] using h
        simp [trNode, TNode.ok, trLeaf_not_bracket cfg cat ctx tt ta e he]
  theorem trNodes_ok (cfg : Cfg) (cat : Catalog) (ctx : Ctx) (tt ta : Bool) : ∀ (ns : List TNode),
      okNodes ns = true → okNodes (trNodes cfg cat ctx tt ta ns) = true
    | [], _ => rfl
    | n :: ns, h => by
        simp only [okNodes, Bool.and_eq_true] at h
        simp only [trNodes, okNodes, Bool.and_eq_true]
        exact ⟨trNode_ok cfg cat ctx tt ta n h.1, trNodes_ok cfg cat ctx tt ta ns h.2⟩
end

/-- the translation pass maps the flattening of a forest to a well-nested stream, and its input is
    well nested too: for every catalogue, context and flags -/
theorem translate_wellNested (cfg : Cfg) (cat : Catalog) (ctx : Ctx) (tt ta : Bool) (ns : List TNode)
    (h : okNodes ns = true) :
    WellNested (tTags (flattenNodes ns)) ∧
    WellNested (tTags (trList cfg cat ctx tt ta 0 (flattenNodes ns))) := by
  have h1 := trList_nodes cfg cat ctx tt ta ns [] h
  simp only [List.append_nil] at h1
  have h0 : trList cfg cat ctx tt ta 0 [] = [] := by simp [trList]
  rw [h0, List.append_nil] at h1
  refine ⟨?_, ?_⟩
  · have := tnodes_balance ns [] [] h
    simpa [WellNested, balance] using this
  · rw [h1]
    have := tnodes_balance (trNodes cfg cat ctx tt ta ns) [] [] (trNodes_ok cfg cat ctx tt ta ns h)
    simpa [WellNested, balance] using this

end Genshi.I18n

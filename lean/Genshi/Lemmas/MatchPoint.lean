/-
  Pointwise descriptions of the list operations of the match model: what happens to slot `i`.
-/
import Genshi.Lemmas.Match
namespace Genshi.Match
open Genshi
variable {σ : Type}

theorem scanEnd_length (e : Event) (s : Nat) (en : Option Nat) : ∀ (k : Nat) (mts : List (MT σ)),
    (scanEnd e s en k mts).length = mts.length := by
  intro k mts
  induction mts generalizing k with
  | nil => rfl
  | cons t ts ih => simp [scanEnd, ih]

theorem scanEnd_get (e : Event) (s : Nat) (en : Option Nat) : ∀ (k : Nat) (mts : List (MT σ)) (i : Nat),
    (scanEnd e s en k mts)[i]? =
      (mts[i]?).map fun t => if inWindow s en (k + i) then (t.test e false).1 else t := by
  intro k mts
  induction mts generalizing k with
  | nil => intro i; simp [scanEnd]
  | cons t ts ih =>
    intro i
    cases i with
    | zero => simp [scanEnd]
    | succ i =>
      simp only [scanEnd, List.getElem?_cons_succ]
      rw [ih (k + 1) i]
      congr 2
      funext x
      rw [show k + 1 + i = k + (i + 1) by omega]

theorem updRange_length (e : Event) (lo hi : Nat) : ∀ (k : Nat) (mts : List (MT σ)),
    (updRange e lo hi k mts).length = mts.length := by
  intro k mts
  induction mts generalizing k with
  | nil => rfl
  | cons t ts ih => simp [updRange, ih]

theorem updRange_get (e : Event) (lo hi : Nat) : ∀ (k : Nat) (mts : List (MT σ)) (i : Nat),
    (updRange e lo hi k mts)[i]? =
      (mts[i]?).map fun t => if decide (lo ≤ k + i) && decide (k + i < hi) then (t.test e true).1 else t := by
  intro k mts
  induction mts generalizing k with
  | nil => intro i; simp [updRange]
  | cons t ts ih =>
    intro i
    cases i with
    | zero => simp [updRange]
    | succ i =>
      simp only [updRange, List.getElem?_cons_succ]
      rw [ih (k + 1) i]
      congr 2
      funext x
      rw [show k + 1 + i = k + (i + 1) by omega]

theorem retireAt_length : ∀ (j : Nat) (mts : List (MT σ)), (retireAt j mts).length = mts.length := by
  intro j mts
  induction mts generalizing j with
  | nil => cases j <;> rfl
  | cons t ts ih => cases j <;> simp [retireAt, ih]

theorem retireAt_get : ∀ (j : Nat) (mts : List (MT σ)) (i : Nat),
    (retireAt j mts)[i]? = (mts[i]?).map fun t => if i = j then t.retire else t := by
  intro j mts
  induction mts generalizing j with
  | nil => intro i; cases j <;> simp [retireAt]
  | cons t ts ih =>
    intro i
    cases j with
    | zero =>
      cases i with
      | zero => simp [retireAt]
      | succ i => simp [retireAt]
    | succ j =>
      cases i with
      | zero => simp [retireAt]
      | succ i => simp [retireAt, ih j i]

theorem scan_length (e : Event) (s : Nat) (en : Option Nat) : ∀ (k : Nat) (mts : List (MT σ)),
    (scan e s en k mts).1.length = mts.length := by
  intro k mts
  induction mts generalizing k with
  | nil => rfl
  | cons t ts ih =>
    unfold scan
    by_cases hw : inWindow s en k = true
    · simp only [hw, ↓reduceIte]
      by_cases hf : (t.test e false).2 = true
      · simp [hf]
      · simp [hf, ih]
    · simp [hw, ih]

/-- slot `i` after a scan in which no template fired -/
theorem scan_none_get (e : Event) (s : Nat) (en : Option Nat) : ∀ (k : Nat) (mts : List (MT σ)),
    (scan e s en k mts).2 = none → ∀ i,
    (scan e s en k mts).1[i]? =
      (mts[i]?).map fun t => if inWindow s en (k + i) then (t.test e false).1 else t := by
  intro k mts
  induction mts generalizing k with
  | nil => intro _ i; simp [scan]
  | cons t ts ih =>
    intro h i
    unfold scan at h ⊢
    by_cases hw : inWindow s en k = true
    · simp only [hw, ↓reduceIte] at h ⊢
      by_cases hf : (t.test e false).2 = true
      · simp [hf] at h
      · simp only [hf, Bool.false_eq_true, ↓reduceIte] at h ⊢
        cases i with
        | zero => simp [hw]
        | succ i =>
          simp only [List.getElem?_cons_succ]
          rw [ih (k + 1) h i]
          congr 2; funext x; rw [show k + 1 + i = k + (i + 1) by omega]
    · simp only [hw, Bool.false_eq_true, ↓reduceIte] at h ⊢
      cases i with
      | zero => simp [hw]
      | succ i =>
        simp only [List.getElem?_cons_succ]
        rw [ih (k + 1) h i]
        congr 2; funext x; rw [show k + 1 + i = k + (i + 1) by omega]

/-- slot `i` after a scan in which template `idx` fired: the slots of the window before it were
    tested, it was tested and answered True, the ones after it were not touched -/
theorem scan_some_get (e : Event) (s : Nat) (en : Option Nat) : ∀ (k : Nat) (mts : List (MT σ)) (idx : Nat),
    (scan e s en k mts).2 = some idx →
    ∃ j t, idx = k + j ∧ mts[j]? = some t ∧ inWindow s en idx = true ∧ (t.test e false).2 = true ∧
      (∀ i, i < j → (scan e s en k mts).1[i]? =
          (mts[i]?).map fun x => if inWindow s en (k + i) then (x.test e false).1 else x) ∧
      (scan e s en k mts).1[j]? = some { (t.test e false).1 with hits := (t.test e false).1.hits + 1 } ∧
      (∀ i, j < i → (scan e s en k mts).1[i]? = mts[i]?) ∧
      (∀ i x, i < j → mts[i]? = some x → inWindow s en (k + i) = true → (x.test e false).2 = false) := by
  intro k mts
  induction mts generalizing k with
  | nil => intro idx h; simp [scan] at h
  | cons t ts ih =>
    intro idx h
    unfold scan at h ⊢
    by_cases hw : inWindow s en k = true
    · simp only [hw, ↓reduceIte] at h ⊢
      by_cases hf : (t.test e false).2 = true
      · simp only [hf, ↓reduceIte, Option.some.injEq] at h ⊢
        subst h
        refine ⟨0, t, rfl, rfl, hw, hf, ?_, rfl, ?_, ?_⟩
        · intro i hi; omega
        · intro i hi
          cases i with
          | zero => omega
          | succ i => simp
        · intro i x hi; omega
      · simp only [hf, Bool.false_eq_true, ↓reduceIte] at h ⊢
        obtain ⟨j, t', h1, h2, h3, h4, h5, h6, h7, h8⟩ := ih (k + 1) idx h
        refine ⟨j + 1, t', by omega, by simpa using h2, h3, h4, ?_, by simpa using h6, ?_, ?_⟩
        · intro i hi
          cases i with
          | zero => simp [hw]
          | succ i =>
            simp only [List.getElem?_cons_succ]
            rw [h5 i (by omega)]
            congr 2; funext x; rw [show k + 1 + i = k + (i + 1) by omega]
        · intro i hi
          cases i with
          | zero => omega
          | succ i => simp only [List.getElem?_cons_succ]; exact h7 i (by omega)
        · intro i x hi hx hwi
          cases i with
          | zero =>
            simp at hx; subst hx
            simpa using hf
          | succ i =>
            simp only [List.getElem?_cons_succ] at hx
            exact h8 i x (by omega) hx (by rw [show k + 1 + i = k + (i + 1) by omega]; exact hwi)
    · simp only [hw, Bool.false_eq_true, ↓reduceIte] at h ⊢
      obtain ⟨j, t', h1, h2, h3, h4, h5, h6, h7, h8⟩ := ih (k + 1) idx h
      refine ⟨j + 1, t', by omega, by simpa using h2, h3, h4, ?_, by simpa using h6, ?_, ?_⟩
      · intro i hi
        cases i with
        | zero => simp [hw]
        | succ i =>
          simp only [List.getElem?_cons_succ]
          rw [h5 i (by omega)]
          congr 2; funext x; rw [show k + 1 + i = k + (i + 1) by omega]
      · intro i hi
        cases i with
        | zero => omega
        | succ i => simp only [List.getElem?_cons_succ]; exact h7 i (by omega)
      · intro i x hi hx hwi
        cases i with
        | zero => simp [hw] at hwi
        | succ i =>
          simp only [List.getElem?_cons_succ] at hx
          exact h8 i x (by omega) hx (by rw [show k + 1 + i = k + (i + 1) by omega]; exact hwi)

end Genshi.Match

/-
  C05 `parse ∘ print = id`, part 3: every printable predicate expression is read back by
  `_or_expr` (and by the parser function of every other level, with parentheses when the
  expression binds weaker than the level asks for).
-/
import Genshi.Lemmas.PathPrintPrim
namespace Genshi.Path
namespace Print
open Genshi

/-- "level `j` reads `e` back and is then in its loop at the token after `e`" -/
def AP (ts : List Str) (j : Nat) (e : Expr) (B : Nat) : Prop :=
  ∀ f pos t0 rest, ts.drop pos = toksAt j e ++ t0 :: rest → Follow (j + 1) t0 → B ≤ f + 1 →
    ∃ g q, f ≤ g + (toks e).length ∧ ts.drop q = t0 :: rest ∧
      (parseAt (j + 1) ts f pos).bind (fun r => loopAt j ts f r.2 r.1) = loopAt j ts g q e

/-- fuel on top of `12 · tokens`: how far level `k` is from the level that really parses `e` -/
def slack (k L : Nat) : Nat := if k ≤ L then L - k else L + 5 - k

def bnd (k : Nat) (e : Expr) : Nat := 12 * (toks e).length + slack k (level e) + 2

/-- both statements with a bound that does not depend on the level (for sub-expressions) -/
def Good (ts : List Str) (e : Expr) : Prop :=
  (∀ k, k ≤ 4 → SP ts k e (12 * (toks e).length + 8)) ∧ (∀ j, j < 4 → AP ts j e (12 * (toks e).length + 8))

theorem SP.mono {ts : List Str} {k : Nat} {e : Expr} {B B' : Nat} (h : SP ts k e B) (hb : B ≤ B') : SP ts k e B' :=
  fun f pos t0 rest hd hf hB => h f pos t0 rest hd hf (by omega)

theorem AP.mono {ts : List Str} {k : Nat} {e : Expr} {B B' : Nat} (h : AP ts k e B) (hb : B ≤ B') : AP ts k e B' :=
  fun f pos t0 rest hd hf hB => h f pos t0 rest hd hf (by omega)

/-- X1 -/
theorem SP_of_AP (ts : List Str) (j : Nat) (hj : j < 4) (e : Expr) (B : Nat) (hB : (toks e).length + 2 ≤ B)
    (h : AP ts j e B) : SP ts j e B := by
  intro f pos t0 rest hd hf hBf
  obtain ⟨f', rfl⟩ : ∃ f', f = f' + 1 := ⟨f - 1, by omega⟩
  obtain ⟨g, q, hg, hdq, heq⟩ := h f' pos t0 rest hd (hf.mono (by omega)) hBf
  obtain ⟨g', rfl⟩ : ∃ g', g = g' + 1 := ⟨g - 1, by omega⟩
  refine ⟨q, ?_, hdq⟩
  rw [parseAt_succ j hj, heq, loopAt_stop j j hj (Nat.le_refl _) ts g' q e t0 rest hdq hf]

theorem toksAt_succ_of_ne (e : Expr) (j : Nat) (h : level e ≠ j) : toksAt j e = toksAt (j + 1) e := by
  have : decide (level e < j) = decide (level e < j + 1) := by
    by_cases h1 : level e < j
    · simp [h1]; omega
    · simp [h1]; omega
  simp [toksAt, this]

/-- X2 -/
theorem AP_of_SP_succ (ts : List Str) (j : Nat) (e : Expr) (hl : level e ≠ j) (B' B : Nat)
    (hB : B' + 1 ≤ B) (h : SP ts (j + 1) e B') : AP ts j e B := by
  intro f pos t0 rest hd hf hBf
  rw [toksAt_succ_of_ne e j hl] at hd
  obtain ⟨q, hq, hdq⟩ := h f pos t0 rest hd hf (by omega)
  exact ⟨f, q, by omega, hdq, by rw [hq]; rfl⟩

theorem toksAt_length (k : Nat) (e : Expr) : (toks e).length ≤ (toksAt k e).length := by
  simp only [toksAt, paren]
  split <;> simp [lpar, rpar] <;> omega

theorem exprOk_bin {j : Nat} {tok : Str} {mk : Expr → Expr → Expr} (hb : BinAt j tok mk) (a b : Expr)
    (h : exprOk (mk a b) = true) : exprOk a = true ∧ exprOk b = true := by
  cases hb <;> simpa [exprOk] using h

/-- X3: a binary node at its own level -/
theorem AP_bin (ts : List Str) (j : Nat) (hj : j < 4) (e : Expr) (hl : level e = j) (hok : exprOk e = true)
    (ih : ∀ e', (toks e').length < (toks e).length → exprOk e' = true → Good ts e') :
    AP ts j e (12 * (toks e).length + 2) := by
  obtain ⟨tok, mk, a, b, hb, rfl, htk⟩ := bin_of_level e j hl hj
  obtain ⟨hoka, hokb⟩ := exprOk_bin hb a b hok
  have hla := toksAt_length j a
  have hlb := toksAt_length (j + 1) b
  have hlen : (toks (mk a b)).length = (toksAt j a).length + 1 + (toksAt (j + 1) b).length := by
    rw [htk]; simp; omega
  intro f pos t0 rest hd hf hBf
  have hself : toksAt j (mk a b) = toks (mk a b) := by
    simp [toksAt, paren, hl]
  rw [hself, htk] at hd
  obtain ⟨y, r', hy⟩ := exists_cons_append (toksAt (j + 1) b) t0 rest
  have hd' : ts.drop pos = toksAt j a ++ tok :: (toksAt (j + 1) b ++ t0 :: rest) := by
    rw [hd]; simp
  obtain ⟨g1, q1, hg1, hdq1, heq1⟩ := (ih a (by omega) hoka).2 j hj f pos tok _ hd' hb.follow (by omega)
  obtain ⟨g', rfl⟩ : ∃ g', g1 = g' + 1 := ⟨g1 - 1, by omega⟩
  have hdq1' : ts.drop q1 = tok :: y :: r' := by rw [hdq1, hy]
  have hdb : ts.drop (q1 + 1) = toksAt (j + 1) b ++ t0 :: rest := drop_succ hdq1
  obtain ⟨q2, hq2, hdq2⟩ := (ih b (by omega) hokb).1 (j + 1) (by omega) g' (q1 + 1) t0 rest hdb hf (by omega)
  refine ⟨g', q2, by omega, hdq2, ?_⟩
  rw [heq1, loopAt_op hb ts g' q1 a y r' hdq1', hq2]
  rfl

/-- X4: a parenthesised expression -/
theorem SP_paren (ts : List Str) (e : Expr) (hl : level e < 4) (B : Nat) (h : SP ts 0 e B) : SP ts 4 e (B + 1) := by
  intro f pos t0 rest hd hf hBf
  obtain ⟨f', rfl⟩ : ∃ f', f = f' + 1 := ⟨f - 1, by omega⟩
  have hp : toksAt 4 e = lpar :: (toks e ++ [rpar]) := by simp [toksAt, paren, hl]
  rw [hp] at hd
  simp only [List.cons_append, List.append_assoc, List.nil_append] at hd
  obtain ⟨y, r', hy⟩ := exists_cons_append (toks e) rpar (t0 :: rest)
  have hd' : ts.drop pos = lpar :: y :: r' := by rw [hd, hy]
  have hd1 : ts.drop (pos + 1) = toksAt 0 e ++ rpar :: t0 :: rest := by rw [toksAt_zero, drop_succ hd]
  obtain ⟨q, hq, hdq⟩ := h f' (pos + 1) rpar (t0 :: rest) hd1 (.rpar 0) (by omega)
  refine ⟨q + 1, ?_, drop_succ hdq⟩
  simp only [parseAt] at hq ⊢
  have h1 : (lpar != ['(']) = false := by decide
  have h2 : (rpar != [')']) = false := by decide
  rw [subExpr]
  simp [cur_drop hd', h1, next_drop hd', hq, cur_drop hdq, h2, next_drop hdq, bind, Except.bind, pure, Except.pure]

/-! ## primaries -/

theorem toksAt_self (e : Expr) (hl : level e = 4) : toksAt 4 e = toks e := by simp [toksAt, paren, hl]

theorem fn0Tok_ok (f : Fn0) : FnTok (fn0Tok f) := by cases f <;> (refine ⟨?_, ?_, ?_, ?_⟩ <;> decide)
theorem fn1Tok_ok (f : Fn1) : FnTok (fn1Tok f) := by cases f <;> (refine ⟨?_, ?_, ?_, ?_⟩ <;> decide)
theorem fn2Tok_ok (f : Fn2) : FnTok (fn2Tok f) := by cases f <;> (refine ⟨?_, ?_, ?_, ?_⟩ <;> decide)
theorem fn3Tok_ok (f : Fn3) : FnTok (fn3Tok f) := by cases f <;> (refine ⟨?_, ?_, ?_, ?_⟩ <;> decide)
theorem concatTok_ok : FnTok concatTok := by refine ⟨?_, ?_, ?_, ?_⟩ <;> decide

theorem functionOf_fn0 (f : Fn0) : functionOf (fn0Tok f) [] = .ok (.fn0 f) := by cases f <;> rfl
theorem functionOf_fn1 (f : Fn1) (a : Expr) : functionOf (fn1Tok f) [a] = .ok (.fn1 f a) := by cases f <;> rfl
theorem functionOf_fn2 (f : Fn2) (a b : Expr) : functionOf (fn2Tok f) [a, b] = .ok (.fn2 f a b) := by cases f <;> rfl
theorem functionOf_fn3 (f : Fn3) (hf : f ≠ .matches) (a b c : Expr) :
    functionOf (fn3Tok f) [a, b, c] = .ok (.fn3 f a b c) := by
  cases f
  · rfl
  · rfl
  · exact absurd rfl hf

/-- the arguments of a `concat` chain -/
def concatArgs : Expr → List Expr
  | .concat1 a => [a]
  | .concat a r => a :: concatArgs r
  | _ => []

theorem concat_facts (e : Expr) : isConcat e = true → exprOk e = true →
    ∃ a as, concatArgs e = a :: as ∧ mkConcat (a :: as) = some e ∧ argToks e = toks a ++ moreArgs as ∧
      (∀ x ∈ a :: as, exprOk x = true) ∧ as.length + 1 = concatLen e := by
  induction e with
  | concat1 a _ =>
    intro _ hok
    refine ⟨a, [], rfl, rfl, by simp [argToks, moreArgs], ?_, rfl⟩
    intro x hx
    simp at hx; subst hx
    simpa [exprOk] using hok
  | concat a r _ ihr =>
    intro _ hok
    simp only [exprOk, Bool.and_eq_true, decide_eq_true_eq] at hok
    obtain ⟨b, bs, h1, h2, h3, h4, h5⟩ := ihr hok.1.1.2 hok.1.2
    refine ⟨a, b :: bs, by simp [concatArgs, h1], ?_, ?_, ?_, ?_⟩
    · simp [mkConcat, h2]
    · simp [argToks, h3, moreArgs]
    · intro x hx
      rcases List.mem_cons.mp hx with rfl | hx'
      · exact hok.1.1.1
      · exact h4 x hx'
    · simp [concatLen]; omega
  | _ => intro hc; simp [isConcat] at hc

theorem functionOf_concat (a : Expr) (as : List Expr) (e : Expr) (hm : mkConcat (a :: as) = some e)
    (hl : as.length + 1 ≤ 99) : functionOf concatTok (a :: as) = .ok e := by
  rcases as with _ | ⟨b, _ | ⟨d, _ | ⟨x, r⟩⟩⟩
  · simp [mkConcat] at hm; subst hm; rfl
  · simp [mkConcat] at hm; subst hm; rfl
  · simp [mkConcat] at hm; subst hm; rfl
  · have hlk : lookup concatTok Gen.Path.functionMap = some (cConcatFunction, 0, 99) := by decide
    have hc : (cConcatFunction == cConcatFunction) = true := by decide
    have hlen : ((a :: b :: d :: x :: r).length < 0 || (a :: b :: d :: x :: r).length > 99) = false := by
      simp at hl ⊢; omega
    simp only [functionOf, hlk, hlen, hm, hc, Bool.false_eq_true, if_false, if_true]

/-- a call with at least one argument -/
theorem SP_call (ts : List Str) (e : Expr) (name : Str) (a : Expr) (as : List Expr) (hn : FnTok name)
    (htk : toks e = name :: lpar :: (toks a ++ (moreArgs as ++ [rpar]))) (hl : level e = 4)
    (hfn : functionOf name (a :: as) = .ok e) (hoks : ∀ x ∈ a :: as, exprOk x = true)
    (ih : ∀ e', (toks e').length < (toks e).length → exprOk e' = true → Good ts e') :
    SP ts 4 e (12 * (toks e).length + 2) := by
  intro f pos t0 rest hd hf hB
  rw [toksAt_self e hl, htk] at hd
  simp only [List.cons_append, List.append_assoc, List.nil_append] at hd
  have hlen : (toks e).length = 3 + (toks a).length + (moreArgs as).length := by rw [htk]; simp; omega
  have hM := moreArgs_length as
  obtain ⟨f', rfl⟩ : ∃ f', f = f' + 3 := ⟨f - 3, by omega⟩
  have hlt : ∀ x ∈ a :: as, (toks x).length + as.length ≤ (toks a).length + (moreArgs as).length := by
    intro x hx
    rcases List.mem_cons.mp hx with rfl | hx'
    · omega
    · have := moreArgs_mem_length as x hx'; omega
  have hsp : ∀ x ∈ a :: as, SP ts 0 x (12 * (toks x).length + 8) := by
    intro x hx
    have := hlt x hx
    exact (ih x (by omega) (hoks x hx)).1 0 (by omega)
  obtain ⟨q, hq, hdq⟩ := call_spec ts name hn a as f' pos t0 rest hd hsp
    (fun x hx => by have := hlt x hx; omega) (by omega) e hfn
  exact ⟨q, by simpa [parseAt] using hq, hdq⟩

/-- X5: an expression of level 4 where `_sub_expr` is asked -/
theorem SP_prim (ts : List Str) (e : Expr) (hl : level e = 4) (hok : exprOk e = true)
    (ih : ∀ e', (toks e').length < (toks e).length → exprOk e' = true → Good ts e') :
    SP ts 4 e (12 * (toks e).length + 2) := by
  cases e with
  | test t =>
    intro f pos t0 rest hd hf hB
    obtain ⟨f', rfl⟩ : ∃ f', f = f' + 2 := ⟨f - 2, by omega⟩
    rw [toksAt_self _ hl] at hd
    obtain ⟨q, hq, hdq⟩ := prim_test ts t (by simpa [exprOk] using hok) f' pos t0 rest 4 hf (by simpa [toks] using hd)
    exact ⟨q, by simpa [parseAt] using hq, hdq⟩
  | str s =>
    intro f pos t0 rest hd hf hB
    obtain ⟨f', rfl⟩ : ∃ f', f = f' + 2 := ⟨f - 2, by omega⟩
    rw [toksAt_self _ hl] at hd
    obtain ⟨q, hq, hdq⟩ := prim_str ts s f' pos t0 rest (by simpa [toks] using hd)
    exact ⟨q, by simpa [parseAt] using hq, hdq⟩
  | num x =>
    intro f pos t0 rest hd hf hB
    obtain ⟨f', rfl⟩ : ∃ f', f = f' + 2 := ⟨f - 2, by omega⟩
    rw [toksAt_self _ hl] at hd
    obtain ⟨q, hq, hdq⟩ := prim_num ts x (by simpa [exprOk] using hok) f' pos t0 rest (by simpa [toks] using hd)
    exact ⟨q, by simpa [parseAt] using hq, hdq⟩
  | var n =>
    intro f pos t0 rest hd hf hB
    obtain ⟨f', rfl⟩ : ∃ f', f = f' + 2 := ⟨f - 2, by omega⟩
    rw [toksAt_self _ hl] at hd
    obtain ⟨q, hq, hdq⟩ := prim_var ts n f' pos t0 rest (by simpa [toks] using hd)
    exact ⟨q, by simpa [parseAt] using hq, hdq⟩
  | fn0 fn =>
    intro f pos t0 rest hd hf hB
    have : (toks (.fn0 fn)).length = 2 := by simp [toks]
    obtain ⟨f', rfl⟩ : ∃ f', f = f' + 3 := ⟨f - 3, by omega⟩
    rw [toksAt_self _ hl] at hd
    obtain ⟨q, hq, hdq⟩ := call0_spec ts (fn0Tok fn) (fn0Tok_ok fn) f' pos t0 rest (by simpa [toks] using hd) _
      (functionOf_fn0 fn)
    exact ⟨q, by simpa [parseAt] using hq, hdq⟩
  | fn1 fn a =>
    refine SP_call ts _ (fn1Tok fn) a [] (fn1Tok_ok fn) (by simp [toks, moreArgs]) hl (functionOf_fn1 fn a) ?_ ih
    intro x hx; simp at hx; subst hx; simpa [exprOk] using hok
  | fn2 fn a b =>
    simp only [exprOk, Bool.and_eq_true] at hok
    refine SP_call ts _ (fn2Tok fn) a [b] (fn2Tok_ok fn) (by simp [toks, moreArgs]) hl (functionOf_fn2 fn a b) ?_ ih
    intro x hx; simp at hx; rcases hx with rfl | rfl
    · exact hok.1
    · exact hok.2
  | fn3 fn a b c =>
    simp only [exprOk, Bool.and_eq_true, bne_iff_ne, ne_eq] at hok
    refine SP_call ts _ (fn3Tok fn) a [b, c] (fn3Tok_ok fn) (by simp [toks, moreArgs]) hl
      (functionOf_fn3 fn hok.1.1.1 a b c) ?_ ih
    intro x hx; simp at hx; rcases hx with rfl | rfl | rfl
    · exact hok.1.1.2
    · exact hok.1.2
    · exact hok.2
  | concat1 a =>
    refine SP_call ts _ concatTok a [] concatTok_ok (by simp [toks, moreArgs]) hl rfl ?_ ih
    intro x hx; simp at hx; subst hx; simpa [exprOk] using hok
  | concat a r =>
    have hok' := hok
    simp only [exprOk, Bool.and_eq_true, decide_eq_true_eq] at hok'
    obtain ⟨b, bs, h1, h2, h3, h4, h5⟩ := concat_facts r hok'.1.1.2 hok'.1.2
    refine SP_call ts _ concatTok a (b :: bs) concatTok_ok ?_ hl ?_ ?_ ih
    · simp [toks, h3, moreArgs]
    · apply functionOf_concat
      · simp [mkConcat, h2]
      · simp; omega
    · intro x hx
      rcases List.mem_cons.mp hx with rfl | hx'
      · exact hok'.1.1.1
      · exact h4 x hx'
  | or_ a b => simp [level] at hl
  | and_ a b => simp [level] at hl
  | cmp op a b => cases op <;> simp [level] at hl

/-! ## all levels -/

theorem slack_le (k L : Nat) (hk : k ≤ 4) (hL : L ≤ 4) : slack k L ≤ 4 := by
  unfold slack; split <;> omega

theorem expr_step (ts : List Str) (e : Expr) (hok : exprOk e = true)
    (ih : ∀ e', (toks e').length < (toks e).length → exprOk e' = true → Good ts e') : Good ts e := by
  have hL := level_le e
  have key : ∀ r k, k ≤ 4 → slack k (level e) = r → SP ts k e (bnd k e) ∧ (k < 4 → AP ts k e (bnd k e)) := by
    intro r
    induction r with
    | zero =>
      intro k hk hs
      have hkl : level e = k := by
        unfold slack at hs; split at hs <;> omega
      by_cases h4 : k < 4
      · have hap : AP ts k e (bnd k e) := (AP_bin ts k h4 e hkl hok ih).mono (by unfold bnd; omega)
        exact ⟨SP_of_AP ts k h4 e _ (by unfold bnd; omega) hap, fun _ => hap⟩
      · have : k = 4 := by omega
        subst this
        exact ⟨(SP_prim ts e hkl hok ih).mono (by unfold bnd; omega), fun h => absurd h (by omega)⟩
    | succ r ihr =>
      intro k hk hs
      by_cases h4 : k < 4
      · have hne : level e ≠ k := by
          intro h; rw [h] at hs; simp [slack] at hs
        have hs' : slack (k + 1) (level e) = r := by
          unfold slack at hs ⊢; split at hs <;> split <;> omega
        have hsp := (ihr (k + 1) (by omega) hs').1
        have hap : AP ts k e (bnd k e) :=
          AP_of_SP_succ ts k e hne (bnd (k + 1) e) (bnd k e) (by unfold bnd; rw [hs, hs']; omega) hsp
        exact ⟨SP_of_AP ts k h4 e _ (by unfold bnd; omega) hap, fun _ => hap⟩
      · have : k = 4 := by omega
        subst this
        have hl4 : level e < 4 := by
          unfold slack at hs; split at hs <;> omega
        have hs0 : slack 0 (level e) = r := by
          unfold slack at hs ⊢; split at hs <;> simp <;> omega
        have hsp := (ihr 0 (by omega) hs0).1
        exact ⟨(SP_paren ts e hl4 _ hsp).mono (by unfold bnd; rw [hs, hs0]; omega), fun h => absurd h (by omega)⟩
  constructor
  · intro k hk
    have := slack_le k (level e) hk hL
    exact (key _ k hk rfl).1.mono (by unfold bnd; omega)
  · intro j hj
    have := slack_le j (level e) (by omega) hL
    exact ((key _ j (by omega) rfl).2 hj).mono (by unfold bnd; omega)

theorem expr_all (ts : List Str) : ∀ (n : Nat) (e : Expr), (toks e).length < n → exprOk e = true → Good ts e := by
  intro n
  induction n with
  | zero => intro e h; omega
  | succ n ih =>
    intro e hlen hok
    exact expr_step ts e hok (fun e' h' hok' => ih e' (by omega) hok')

/-- `_or_expr` reads a printable expression back: the result is the expression, the position is
    on the token that follows it -/
theorem orExpr_print (ts : List Str) (e : Expr) (hok : exprOk e = true) (f pos : Nat) (t0 : Str) (rest : List Str)
    (h : ts.drop pos = toks e ++ t0 :: rest) (hf : Follow 0 t0) (hfuel : 12 * (toks e).length + 8 ≤ f) :
    ∃ q, orExpr ts f pos = .ok (e, q) ∧ ts.drop q = t0 :: rest := by
  have := (expr_all ts _ e (Nat.lt_succ_self _) hok).1 0 (by omega) f pos t0 rest (by rw [toksAt_zero]; exact h) hf hfuel
  simpa [parseAt] using this

end Print
end Genshi.Path

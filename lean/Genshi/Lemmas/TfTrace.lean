/-
  The lazily evaluated chain (`runLazy`, the push pipeline) equals the link-by-link trace
  semantics (`runTrace`, Model/TfTrace.lean) whenever, between two barriers, no link writes a
  buffer that it or a link before it reads (`lazyRaw`).
-/
import Genshi.Lemmas.TfTraceDefs
namespace Genshi.Tf

/-! ### small facts -/

theorem contentAt_eq (b : BufF) (c : Content) : contentAt b c = contentF b c := by
  cases c <;> rfl

theorem injFree_outs : ∀ l : MStream, injFree (outs l) = true
  | [] => rfl
  | _ :: l => by simpa [outs, injFree] using injFree_outs l

theorem injFree_append : ∀ a1 a2 : List Act, injFree a1 = true → injFree a2 = true → injFree (a1 ++ a2) = true
  | [], _, _, h2 => h2
  | a :: a1, a2, h1, h2 => by
    cases a with
    | inj c => simp [injFree] at h1
    | out x => simpa [injFree] using injFree_append a1 a2 (by simpa [injFree] using h1) h2
    | reset id => simpa [injFree] using injFree_append a1 a2 (by simpa [injFree] using h1) h2
    | app id x => simpa [injFree] using injFree_append a1 a2 (by simpa [injFree] using h1) h2

theorem injFree_resolve : ∀ (a : List Act) (b : BufF), injFree (resolve b a) = true
  | [], _ => rfl
  | a :: as, b => by
    cases a with
    | out x => simpa [resolve, injFree] using injFree_resolve as b
    | reset id => simpa [resolve, injFree] using injFree_resolve as _
    | app id x => simpa [resolve, injFree] using injFree_resolve as _
    | inj c => exact injFree_append _ _ (injFree_outs _) (injFree_resolve as b)

theorem resolve_injFree : ∀ (a : List Act) (b : BufF), injFree a = true → resolve b a = a
  | [], _, _ => rfl
  | a :: as, b, h => by
    cases a with
    | inj c => simp [injFree] at h
    | out x => simp only [resolve]; rw [resolve_injFree as b (by simpa [injFree] using h)]
    | reset id => simp only [resolve]; rw [resolve_injFree as _ (by simpa [injFree] using h)]
    | app id x => simp only [resolve]; rw [resolve_injFree as _ (by simpa [injFree] using h)]

theorem execActs_outs (F : Nat) (push : List Ctl → BufF → MItem → R) : ∀ (l : MStream) cs b,
    execActs F push (outs l) cs b = pushList push l cs b
  | [], cs, b => rfl
  | x :: l, cs, b => by
    simp only [outs, List.map_cons, execActs, pushList]
    exact seqR_congr _ _ _ (fun cs b => execActs_outs F push l cs b)

theorem writes_eq_wrOps : ∀ ops : List Op, writes ops = wrOps ops
  | [] => rfl
  | op :: ops => by
    have ih := writes_eq_wrOps ops
    cases op <;> simp [writes, wrOps, wrOp, ih] <;> simp [wrOps]

/-- `rawOk` as a proposition -/
def RawOk : List Op → Prop
  | [] => True
  | op :: ops => (∀ i ∈ rdOp op, i ∉ wrOps ops) ∧ RawOk ops

theorem rawOk_iff : ∀ ops : List Op, rawOk ops = true → RawOk ops
  | [], _ => trivial
  | op :: ops, h => by
    simp only [rawOk, Bool.and_eq_true] at h
    refine ⟨fun i hi => ?_, rawOk_iff ops h.2⟩
    simp only [rdOp] at hi
    cases hr : readsOf op with
    | none => simp [hr] at hi
    | some id =>
      simp only [hr, Option.toList_some, List.mem_singleton] at hi
      subst hi
      have := h.1
      simp only [hr, Bool.not_eq_true', writes_eq_wrOps] at this
      intro hc
      have h2 : (wrOps ops).contains i = true := by simpa using hc
      rw [h2] at this; exact absurd this (by simp)

/-! ### the empty pipeline -/

theorem execActs_nil_ops (F : Nat) : ∀ (a : List Act) (b : BufF), injFree a = true →
    execActs F (pushItem F []) a [] b = .ok ([], effs a b, outsOf a)
  | [], b, _ => rfl
  | x :: as, b, h => by
    cases x with
    | inj c => simp [injFree] at h
    | out x =>
      have ih := execActs_nil_ops F as b (by simpa [injFree] using h)
      show seqR (pushItem F [] [] b x) (execActs F (pushItem F []) as) = _
      have h1 : pushItem F [] [] b x = .ok ([], b, [x]) := rfl
      rw [h1]
      simp only [seqR, ih, effs, outsOf, List.singleton_append]
    | reset id =>
      have ih := execActs_nil_ops F as (b.set id []) (by simpa [injFree] using h)
      simp only [execActs, ih, effs, outsOf]
    | app id x =>
      have ih := execActs_nil_ops F as (b.set id (b id ++ [x])) (by simpa [injFree] using h)
      simp only [execActs, ih, effs, outsOf]

/-! ### fusing the first link into the action list -/

theorem fuse (F : Nat) (op : Op) (ops : List Op) : ∀ (a : List Act) (c : Ctl) (cs : List Ctl) (b : BufF)
    (u : List Act), injFree a = true → linkU op c a = some u →
    seqF (execActs F (pushItem F (op :: ops)) a (c :: cs) b) (finish F (op :: ops)) =
      seqF (execActs F (pushItem F ops) u cs b) (finish F ops)
  | [], c, cs, b, u, _, h => by
    simp only [linkU] at h
    simp only [execActs]
    rw [seqF_ok_nil, finish_cons, h]
  | x :: as, c, cs, b, u, hf, h => by
    cases x with
    | inj ct => simp [injFree] at hf
    | reset id =>
      simp only [linkU, Option.map_eq_some_iff] at h
      obtain ⟨u', hu, rfl⟩ := h
      simp only [execActs]
      exact fuse F op ops as c cs _ u' (by simpa [injFree] using hf) hu
    | app id y =>
      simp only [linkU, Option.map_eq_some_iff] at h
      obtain ⟨u', hu, rfl⟩ := h
      simp only [execActs]
      exact fuse F op ops as c cs _ u' (by simpa [injFree] using hf) hu
    | out y =>
      simp only [linkU] at h
      cases hs : stepOp op c y with
      | none => simp [hs] at h
      | some r =>
        obtain ⟨c', a1⟩ := r
        simp only [hs, Option.map_eq_some_iff] at h
        obtain ⟨a2, h2, rfl⟩ := h
        have ih := fun cs b => fuse F op ops as c' cs b a2 (by simpa [injFree] using hf) h2
        simp only [execActs]
        rw [seqF_seqR, execActs_append, seqF_seqR]
        simp only [pushItem, hs]
        cases execActs F (pushItem F ops) a1 cs b with
        | err => rfl
        | div => rfl
        | ok r1 =>
          obtain ⟨cs1, b1, o1⟩ := r1
          simp only []
          rw [seqF_ok, seqF_ok, ih cs1 b1]

theorem fuse_none (F : Nat) (op : Op) (ops : List Op) : ∀ (a : List Act) (c : Ctl) (cs : List Ctl) (b : BufF),
    injFree a = true → linkU op c a = none →
    (seqF (execActs F (pushItem F (op :: ops)) a (c :: cs) b) (finish F (op :: ops))).toOption = none
  | [], c, cs, b, _, h => by
    simp only [linkU] at h
    simp only [execActs]
    rw [seqF_ok_nil, finish_cons, h]
    rfl
  | x :: as, c, cs, b, hf, h => by
    cases x with
    | inj ct => simp [injFree] at hf
    | reset id =>
      simp only [linkU, Option.map_eq_none_iff] at h
      simp only [execActs]
      exact fuse_none F op ops as c cs _ (by simpa [injFree] using hf) h
    | app id y =>
      simp only [linkU, Option.map_eq_none_iff] at h
      simp only [execActs]
      exact fuse_none F op ops as c cs _ (by simpa [injFree] using hf) h
    | out y =>
      simp only [linkU] at h
      simp only [execActs]
      rw [seqF_seqR]
      cases hs : stepOp op c y with
      | none => simp [pushItem, hs, seqF, Out.toOption]
      | some r =>
        obtain ⟨c', a1⟩ := r
        simp only [hs, Option.map_eq_none_iff] at h
        simp only [pushItem, hs]
        cases execActs F (pushItem F ops) a1 cs b with
        | err => rfl
        | div => rfl
        | ok r1 =>
          obtain ⟨cs1, b1, o1⟩ := r1
          have := fuse_none F op ops as c' cs1 b1 (by simpa [injFree] using hf) h
          simp only []
          rw [seqF_ok]
          exact prepF_toOption_none _ _ this

/-! ### resolving injections -/

theorem seqR_congr_ok (r : R) (k1 k2 : List Ctl → BufF → R)
    (h : ∀ cs b o, r = .ok (cs, b, o) → k1 cs b = k2 cs b) : seqR r k1 = seqR r k2 := by
  cases r with
  | err => rfl
  | div => rfl
  | ok x =>
    obtain ⟨cs, b, o⟩ := x
    simp only [seqR, h cs b o rfl]

theorem BufF.set_agree {w : List Nat} {b b0 : BufF} (id : Nat) (v v0 : List MEv)
    (h : ∀ i, i ∉ w → b i = b0 i) (hv : id ∉ w → v = v0) : ∀ i, i ∉ w → (b.set id v) i = (b0.set id v0) i := by
  intro i hi
  simp only [BufF.set]
  split
  · rename_i h1; subst h1; exact hv hi
  · exact h i hi

/-- a pipeline that does not write what the actions read: their injections can be expanded
    beforehand -/
theorem execActs_resolve {F : Nat} {push : List Ctl → BufF → MItem → R} {p : Nat → Bool} {w : List Nat}
    (hp : Respects push p w) : ∀ (a : List Act) cs (b b0 : BufF),
    (∀ x ∈ a, ∀ i ∈ x.rd, i ∉ w) → (∀ i, i ∉ w → b i = b0 i) →
    execActs F push a cs b = execActs F push (resolve b0 a) cs b
  | [], cs, b, b0, _, _ => rfl
  | x :: as, cs, b, b0, hrd, hb => by
    have hrd' : ∀ y ∈ as, ∀ i ∈ y.rd, i ∉ w := fun y hy => hrd y (List.mem_cons_of_mem _ hy)
    have ih := fun cs b b0 => execActs_resolve (F := F) hp as cs b b0 hrd'
    cases x with
    | out y =>
      simp only [resolve, execActs]
      exact seqR_congr_ok _ _ _ (fun cs1 b1 o1 h1 =>
        ih cs1 b1 b0 (fun i hi => by rw [hp.stable cs b y cs1 b1 o1 h1 i hi]; exact hb i hi))
    | reset id =>
      simp only [resolve, execActs]
      exact ih cs _ _ (BufF.set_agree id [] [] hb (fun _ => rfl))
    | app id y =>
      simp only [resolve, execActs]
      exact ih cs _ _ (BufF.set_agree id _ _ hb (fun hid => by rw [hb id hid]))
    | inj c =>
      cases c with
      | buf id =>
        have hid : id ∉ w := hrd _ (List.mem_cons_self ..) id (by simp [Act.rd])
        simp only [resolve, execActs, contentAt]
        rw [injLoop_const hp id hid _ 0 cs b (by omega), execActs_append, execActs_outs]
        simp only [List.drop_zero, hb id hid]
        exact seqR_congr_ok _ _ _ (fun cs1 b1 o1 h1 =>
          ih cs1 b1 b0 (fun i hi => by rw [pushList_stable hp _ cs b cs1 b1 o1 h1 i hi]; exact hb i hi))
      | str s =>
        simp only [resolve, execActs, contentAt]
        rw [execActs_append, execActs_outs]
        exact seqR_congr_ok _ _ _ (fun cs1 b1 o1 h1 =>
          ih cs1 b1 b0 (fun i hi => by rw [pushList_stable hp _ cs b cs1 b1 o1 h1 i hi]; exact hb i hi))
      | evs s =>
        simp only [resolve, execActs, contentAt]
        rw [execActs_append, execActs_outs]
        exact seqR_congr_ok _ _ _ (fun cs1 b1 o1 h1 =>
          ih cs1 b1 b0 (fun i hi => by rw [pushList_stable hp _ cs b cs1 b1 o1 h1 i hi]; exact hb i hi))

/-! ### what a link's output reads -/

theorem rd_of_injFree : ∀ (a : List Act), injFree a = true → ∀ x ∈ a, x.rd = []
  | [], _, x, hx => by simp at hx
  | y :: as, h, x, hx => by
    cases y with
    | inj c => simp [injFree] at h
    | out z =>
      rcases List.mem_cons.mp hx with rfl | hx
      · rfl
      · exact rd_of_injFree as (by simpa [injFree] using h) x hx
    | reset id =>
      rcases List.mem_cons.mp hx with rfl | hx
      · rfl
      · exact rd_of_injFree as (by simpa [injFree] using h) x hx
    | app id z =>
      rcases List.mem_cons.mp hx with rfl | hx
      · rfl
      · exact rd_of_injFree as (by simpa [injFree] using h) x hx

theorem linkU_rd (op : Op) : ∀ (a : List Act) (c : Ctl) (u : List Act), injFree a = true →
    linkU op c a = some u → ∀ x ∈ u, ∀ i ∈ x.rd, i ∈ rdOp op
  | [], c, u, _, h, x, hx, i, hi => by
    simp only [linkU] at h
    exact (finOp_fp op c u h x hx).2 i hi
  | y :: as, c, u, hf, h, x, hx, i, hi => by
    cases y with
    | inj ct => simp [injFree] at hf
    | reset id =>
      simp only [linkU, Option.map_eq_some_iff] at h
      obtain ⟨u', hu, rfl⟩ := h
      rcases List.mem_cons.mp hx with rfl | hx
      · simp [Act.rd] at hi
      · exact linkU_rd op as c u' (by simpa [injFree] using hf) hu x hx i hi
    | app id z =>
      simp only [linkU, Option.map_eq_some_iff] at h
      obtain ⟨u', hu, rfl⟩ := h
      rcases List.mem_cons.mp hx with rfl | hx
      · simp [Act.rd] at hi
      · exact linkU_rd op as c u' (by simpa [injFree] using hf) hu x hx i hi
    | out z =>
      simp only [linkU] at h
      cases hs : stepOp op c z with
      | none => simp [hs] at h
      | some r =>
        obtain ⟨c', a1⟩ := r
        simp only [hs, Option.map_eq_some_iff] at h
        obtain ⟨a2, h2, rfl⟩ := h
        rcases List.mem_append.mp hx with hx | hx
        · exact (stepOp_fp op c c' z a1 hs x hx).2 i hi
        · exact linkU_rd op as c' a2 (by simpa [injFree] using hf) h2 x hx i hi

/-! ### the pipeline, link by link -/

theorem pipeline_trace (F : Nat) : ∀ (ops : List Op) (cs : List Ctl) (b : BufF) (a : List Act),
    cs.length = ops.length → RawOk ops → injFree a = true →
    (seqF (execActs F (pushItem F ops) a cs b) (finish F ops)).toOption =
      (traceFrom ops cs b a).map fun t => (effs t b, outsOf t)
  | [], cs, b, a, hl, _, hf => by
    have : cs = [] := by simpa using hl
    subst this
    rw [execActs_nil_ops F a b hf]
    simp [seqF, finish, traceFrom, Out.toOption]
  | op :: ops, cs, b, a, hl, hraw, hf => by
    cases cs with
    | nil => simp at hl
    | cons c cs =>
      have hl' : cs.length = ops.length := by simpa using hl
      simp only [traceFrom]
      cases hu : linkU op c a with
      | none =>
        rw [fuse_none F op ops a c cs b hf hu]; rfl
      | some u =>
        have hp : Respects (pushItem F ops) (fun _ => false) (wrOps ops) :=
          pushItem_respects F ops (fun _ => false) (by intro i hi; simp at hi)
        have hrd : ∀ x ∈ u, ∀ i ∈ x.rd, i ∉ wrOps ops := fun x hx i hi =>
          hraw.1 i (linkU_rd op a c u hf hu x hx i hi)
        rw [fuse F op ops a c cs b u hf hu, execActs_resolve hp u cs b b hrd (fun _ _ => rfl),
          pipeline_trace F ops cs b (resolve b u) hl' hraw.2 (injFree_resolve u b)]

theorem runSeg_trace (F : Nat) (ops : List Op) (b : BufF) (s : MStream) (h : rawOk ops = true) :
    (runSeg F ops b s).toOption = traceSeg ops b s := by
  have hm := pipeline_trace F ops (ops.map initCtl) (proBufs ops b) (outs s) (by simp)
    (rawOk_iff ops h) (injFree_outs s)
  rw [execActs_outs] at hm
  rw [runSeg_eq]
  simp only [runFrom, traceSeg]
  cases hr : seqF (pushList (pushItem F ops) s (ops.map initCtl) (proBufs ops b)) (finish F ops) with
  | err =>
    rw [hr] at hm
    cases ht : traceFrom ops (ops.map initCtl) (proBufs ops b) (outs s) with
    | none => rfl
    | some t => simp [ht, Out.toOption] at hm
  | div =>
    rw [hr] at hm
    cases ht : traceFrom ops (ops.map initCtl) (proBufs ops b) (outs s) with
    | none => rfl
    | some t => simp [ht, Out.toOption] at hm
  | ok r =>
    obtain ⟨b', o⟩ := r
    rw [hr] at hm
    cases ht : traceFrom ops (ops.map initCtl) (proBufs ops b) (outs s) with
    | none => simp [ht, Out.toOption] at hm
    | some t =>
      simp only [ht, Out.toOption, Option.map_some, Option.some.injEq, Prod.mk.injEq] at hm
      simp [Out.toOption, hm.1, hm.2]

theorem runSegs_trace (F : Nat) : ∀ (ss : List (List Op)) (b : BufF) (s : MStream),
    ss.all rawOk = true → (runSegs F ss b s).toOption = traceSegs ss b s
  | [], b, s, _ => rfl
  | seg :: ss, b, s, h => by
    simp only [List.all_cons, Bool.and_eq_true] at h
    have h1 := runSeg_trace F seg b s h.1
    simp only [runSegs, traceSegs]
    cases hr : runSeg F seg b s with
    | err => rw [hr] at h1; simp only [Out.toOption] at h1; rw [← h1]; rfl
    | div => rw [hr] at h1; simp only [Out.toOption] at h1; rw [← h1]; rfl
    | ok r =>
      obtain ⟨s', b'⟩ := r
      rw [hr] at h1; simp only [Out.toOption] at h1
      rw [← h1]
      exact runSegs_trace F ss b' s' h.2

/-- The lazily evaluated chain is its link-by-link reading, for every chain in which reads come
    after writes. -/
theorem lazy_trace (F : Nat) (ops : List Op) (b : BufF) (s : MStream) (h : lazyRaw ops = true) :
    (runLazy F ops b s).toOption = runTrace ops b s :=
  runSegs_trace F (segs ops) b s h

end Genshi.Tf

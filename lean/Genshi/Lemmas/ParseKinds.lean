/-
  C07 — the kinds of events the HTML parser can deliver.
-/
import Genshi.Lemmas.ParseHtml
namespace Genshi.Parse
open Genshi

/-- START, END, TEXT, COMMENT, PI: the kinds `HTMLParser` documents -/
def htmlKind : Event → Bool
  | .start _ _ => true
  | .end_ _ => true
  | .text _ _ => true
  | .comment _ => true
  | .pi _ _ => true
  | _ => false

theorem mem_coalesceGo (f : Bool) : ∀ (s : Stream) (buf : Option Str) (e : Event),
    e ∈ coalesceGo f buf s → isText e = true ∨ e ∈ s
  | [], buf, e, h => by
      cases f <;> cases buf <;> simp_all [coalesceGo, flushBuf]
  | x :: xs, buf, e, h => by
      by_cases ht : isText x = true
      · obtain ⟨s, b, rfl⟩ := (isText_iff x).1 ht
        rw [coalesceGo_text] at h
        rcases mem_coalesceGo f xs _ e h with h | h
        · exact Or.inl h
        · exact Or.inr (List.mem_cons_of_mem _ h)
      · have h' : isText x = false := by simpa using ht
        rw [coalesceGo_nontext f buf x xs h'] at h
        simp only [List.mem_append, List.mem_cons] at h
        rcases h with h | h | h
        · cases buf with
          | none => simp [flushBuf] at h
          | some b => simp only [flushBuf, List.mem_singleton] at h; subst h; exact Or.inl rfl
        · subst h; exact Or.inr List.mem_cons_self
        · rcases mem_coalesceGo f xs none e h with h | h
          · exact Or.inl h
          · exact Or.inr (List.mem_cons_of_mem _ h)

theorem popTo_kinds (env : Env) (tag : Str) : ∀ (o : List Str) (e : Event), e ∈ (popTo env tag o).2 → htmlKind e = true
  | [], e, h => by simp [popTo] at h
  | t :: o, e, h => by
      simp only [popTo] at h
      split at h
      · simp only [List.mem_singleton] at h; subst h; rfl
      · simp only [List.mem_cons] at h
        rcases h with h | h
        · subst h; rfl
        · exact popTo_kinds env tag o e h

theorem handleEndtag_kinds (env : Env) (o : List Str) (tag : Str) (e : Event)
    (h : e ∈ (handleEndtag env o tag).2) : htmlKind e = true := by
  unfold handleEndtag at h
  split at h
  · simp at h
  · exact popTo_kinds env tag o e h

theorem handleStarttag_kinds (env : Env) (o o' : List Str) (tag : Str) (attrs : List (Str × Option Str))
    (evs : Stream) (h : handleStarttag env o tag attrs = .ok (o', evs)) (e : Event) (he : e ∈ evs) :
    htmlKind e = true := by
  unfold handleStarttag at h
  cases hf : fixAttrs env attrs with
  | error x => simp [hf] at h
  | ok fixed =>
    simp only [hf] at h
    split at h
    · simp only [Except.ok.injEq, Prod.mk.injEq] at h
      obtain ⟨rfl, rfl⟩ := h
      simp only [List.mem_cons, List.not_mem_nil, or_false] at he
      rcases he with he | he
      · subst he; rfl
      · subst he; rfl
    · simp only [Except.ok.injEq, Prod.mk.injEq] at h
      obtain ⟨rfl, rfl⟩ := h
      simp only [List.mem_singleton] at he
      subst he; rfl

theorem htmlStep_kinds (env : Env) (o o' : List Str) (c : HtmlCb) (evs : Stream)
    (h : htmlStep env o c = .ok (o', evs)) (e : Event) (he : e ∈ evs) : htmlKind e = true := by
  cases c with
  | starttag tag attrs => exact handleStarttag_kinds env o o' tag attrs evs h e he
  | endtag tag =>
    simp only [htmlStep, Except.ok.injEq] at h
    have := handleEndtag_kinds env o tag e
    rw [h] at this; exact this he
  | startendtag tag attrs =>
    simp only [htmlStep] at h
    cases hs : handleStarttag env o tag attrs with
    | error x => simp [hs] at h
    | ok r =>
      obtain ⟨o1, e1⟩ := r
      simp only [hs, Except.ok.injEq, Prod.mk.injEq] at h
      obtain ⟨rfl, rfl⟩ := h
      simp only [List.mem_append] at he
      rcases he with he | he
      · exact handleStarttag_kinds env o o1 tag attrs e1 hs e he
      · exact handleEndtag_kinds env o1 tag e he
  | data s =>
    simp only [htmlStep, Except.ok.injEq, Prod.mk.injEq] at h
    obtain ⟨rfl, rfl⟩ := h; simp only [List.mem_singleton] at he; subst he; rfl
  | comment s =>
    simp only [htmlStep, Except.ok.injEq, Prod.mk.injEq] at h
    obtain ⟨rfl, rfl⟩ := h; simp only [List.mem_singleton] at he; subst he; rfl
  | pi s =>
    simp only [htmlStep, Except.ok.injEq, Prod.mk.injEq] at h
    obtain ⟨rfl, rfl⟩ := h
    obtain ⟨t, d, hpi⟩ := piEvent_isPi s
    simp only [List.mem_singleton] at he; subst he; rw [hpi]; rfl
  | charref name =>
    simp only [htmlStep] at h
    cases hc : charrefText name with
    | error x => simp [hc] at h
    | ok t =>
      simp only [hc, Except.ok.injEq, Prod.mk.injEq] at h
      obtain ⟨rfl, rfl⟩ := h; simp only [List.mem_singleton] at he; subst he; rfl
  | entityref name =>
    simp only [htmlStep, Except.ok.injEq, Prod.mk.injEq] at h
    obtain ⟨rfl, rfl⟩ := h; simp only [List.mem_singleton] at he; subst he; rfl
  | decl s =>
    simp only [htmlStep, Except.ok.injEq, Prod.mk.injEq] at h
    obtain ⟨rfl, rfl⟩ := h; simp at he

theorem eager_html_kinds (env : Env) : ∀ (items : List (Item HtmlCb)) (o : List Str) (e : Event),
    e ∈ (eager (htmlLayer env) o items).1 → htmlKind e = true
  | [], o, e, h => by
      simp only [eager, htmlLayer, closers, List.mem_map] at h
      obtain ⟨t, _, rfl⟩ := h; rfl
  | .raise x :: rest, o, e, h => by simp [eager] at h
  | .cb c :: rest, o, e, h => by
      simp only [eager] at h
      cases hs : (htmlLayer env).step o c with
      | error x => simp [hs] at h
      | ok r =>
        obtain ⟨o', evs⟩ := r
        simp only [hs, List.mem_append] at h
        rcases h with h | h
        · exact htmlStep_kinds env o o' c evs hs e h
        · exact eager_html_kinds env rest o' e h

theorem isText_htmlKind (e : Event) (h : isText e = true) : htmlKind e = true := by
  obtain ⟨s, b, rfl⟩ := (isText_iff e).1 h; rfl

end Genshi.Parse

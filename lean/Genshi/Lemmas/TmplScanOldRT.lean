/-
  C04: old text syntax — the printer round trip of the scanner.  A well-formed list of cooked
  tokens (literal texts, directive / comment lines), printed with a backslash in front of every
  `#` of the texts, scans back to itself.  This is the induction over token lists on top of the
  three cases of `TmplScanOld.lean` (escaped text, a directive line at a line start, unescape).
-/
import Genshi.Lemmas.TmplScanOld
namespace Genshi.Tmpl.Scan
open Genshi.Gen

/-- cooked tokens of the old syntax: literal text, or a directive / comment line `blanks#body` + line feed
    (`body` without the line feed) -/
inductive OCTok where
  | text (s : Str)
  | line (blanks body : Str)
  deriving Repr, DecidableEq, Inhabited

def printOldTok : OCTok → Str
  | .text s => escapeOld s
  | .line b body => b ++ '#' :: (body ++ ['\n'])

def printOld : List OCTok → Str
  | [] => []
  | t :: ts => printOldTok t ++ printOld ts

/-- what a raw token means (the line feed that ends a directive line is not part of its body) -/
def cookOld : OTok → OCTok
  | .text raw => .text (unescapeOld raw)
  | .line b body => .line b (if body.getLast? = some '\n' then body.dropLast else body)

/-- documented constructs: non-empty text; a line whose blanks are `[ \t]*`, whose body starts with a
    word character or `#` and holds no line feed -/
def OkOTok : OCTok → Prop
  | .text s => s ≠ []
  | .line b body => (∀ c ∈ b, isBlank c = true) ∧
      (∃ c0 r, body = c0 :: r ∧ (Genshi.San.isReWord c0 = true ∨ c0 = '#')) ∧ (∀ c ∈ body, c ≠ '\n')

/-- text tokens are maximal; a text in front of a line ends with a line feed (a directive must start a line) -/
def WFOld : List OCTok → Prop
  | [] => True
  | t :: ts => OkOTok t ∧ WFOld ts ∧
      (∀ s, t = .text s → ∀ u, ts.head? = some u → (∃ b body, u = .line b body) ∧ s.getLast? = some '\n')

/-! ### escaped text followed by more input -/

theorem blank_nl : isBlank '\n' = false := by decide

/-- an escaped text that holds a character outside `[ \t]` does not start a directive line,
    whatever follows it -/
theorem escapeOld_dropBlank_app : ∀ (s rest : Str), (∃ c ∈ s, isBlank c = false) →
    (((escapeOld s) ++ rest).dropWhile isBlank).head? ≠ some '#'
  | [], _, h => by obtain ⟨c, hc, _⟩ := h; simp at hc
  | c :: r, rest, h => by
    have ih := escapeOld_dropBlank_app r rest
    by_cases hc : c = '#'
    · subst hc
      have e : escapeOld ('#' :: r) = '\\' :: '#' :: escapeOld r := by simp [escapeOld]
      rw [e]
      simp [blank_backslash]
    · have e : escapeOld (c :: r) = c :: escapeOld r := by simp [escapeOld, hc]
      rw [e]
      simp only [List.cons_append, List.dropWhile_cons]
      split
      · rename_i hb
        apply ih
        obtain ⟨d, hd, hdb⟩ := h
        simp only [List.mem_cons] at hd
        rcases hd with rfl | hd
        · rw [hb] at hdb; cases hdb
        · exact ⟨d, hd, hdb⟩
      · simpa using hc

theorem scanOldGo_push (f : Bool) (p d : Char) (acc X : Str) (hm : matchOldLine (d :: X) = none) :
    scanOldGo 0 f p acc (d :: X) = scanOldGo 0 false d (d :: acc) X := by
  conv => lhs; unfold scanOldGo
  simp [hm]

theorem scanOldGo_push_mid (p d : Char) (acc X : Str) (hp : p ≠ '\n') :
    scanOldGo 0 false p acc (d :: X) = scanOldGo 0 false d (d :: acc) X := by
  conv => lhs; unfold scanOldGo
  simp [hp]

theorem mem_of_getLast? {s : Str} {c : Char} (h : s.getLast? = some c) : c ∈ s :=
  List.mem_of_getLast? h

/-- escaped text that ends with a line feed holds no directive line, whatever follows it; the
    scanner goes on behind it at a line start with the text pending -/
theorem scanOld_escaped_go_app : ∀ (s : Str) (first : Bool) (p : Char) (acc rest : Str),
    s.getLast? = some '\n' →
    scanOldGo 0 first p acc (escapeOld s ++ rest) =
      scanOldGo 0 false '\n' ((escapeOld s).reverse ++ acc) rest
  | [], _, _, _, _, h => by simp at h
  | c :: r, f, p, acc, rest, h => by
    have hnb : ∃ d ∈ c :: r, isBlank d = false := ⟨'\n', mem_of_getLast? h, blank_nl⟩
    have hm : matchOldLine (escapeOld (c :: r) ++ rest) = none :=
      matchOldLine_none (escapeOld_dropBlank_app (c :: r) rest hnb)
    by_cases hc : c = '#'
    · subst hc
      have e : escapeOld ('#' :: r) = '\\' :: '#' :: escapeOld r := by simp [escapeOld]
      rw [e] at hm ⊢
      simp only [List.cons_append] at hm ⊢
      rw [scanOldGo_push _ _ _ _ _ hm, scanOldGo_push_mid _ _ _ _ (by decide)]
      cases r with
      | nil => simp at h
      | cons d r' =>
        have h' : (d :: r').getLast? = some '\n' := by simpa using h
        rw [scanOld_escaped_go_app (d :: r') false '#' _ rest h']
        simp
    · have e : escapeOld (c :: r) = c :: escapeOld r := by simp [escapeOld, hc]
      rw [e] at hm ⊢
      simp only [List.cons_append] at hm ⊢
      rw [scanOldGo_push _ _ _ _ _ hm]
      cases r with
      | nil =>
        have hcn : c = '\n' := by simpa using h
        subst hcn
        simp [escapeOld]
      | cons d r' =>
        have h' : (d :: r').getLast? = some '\n' := by simpa using h
        rw [scanOld_escaped_go_app (d :: r') false c _ rest h']
        simp

/-! ### raw form of a printed token, and cooking it -/

/-- the raw token the scanner yields for a printed cooked token -/
def rawOld : OCTok → OTok
  | .text s => .text (escapeOld s)
  | .line b body => .line b (body ++ ['\n'])

theorem cookOld_line (b body : Str) : cookOld (.line b (body ++ ['\n'])) = .line b body := by
  simp [cookOld]

theorem cookOld_text (s : Str) : cookOld (.text (escapeOld s)) = .text s := by
  simp [cookOld, unescape_escapeOld]

theorem cookOld_rawOld : ∀ (t : OCTok), cookOld (rawOld t) = t
  | .text s => cookOld_text s
  | .line b body => cookOld_line b body

theorem map_cookOld_rawOld (ts : List OCTok) : (ts.map rawOld).map cookOld = ts := by
  induction ts with
  | nil => rfl
  | cons t ts ih => simp only [List.map_cons, cookOld_rawOld, ih]

theorem flushOld_nil : flushOld [] = [] := rfl

theorem flushOld_escaped {s : Str} (hne : s ≠ []) (acc : Str) (hacc : acc = []) :
    flushOld ((escapeOld s).reverse ++ acc) = [.text (escapeOld s)] := by
  subst hacc
  have := escapeOld_ne_nil hne
  simp [flushOld, this]

/-! ### the induction over the token list -/

/-- the scanner on a printed well-formed token list; `acc` is the pending text, which may be
    non-empty only in front of a directive line (or the end) -/
theorem scan_old_print_go : ∀ (ts : List OCTok), WFOld ts → ∀ (first : Bool) (p : Char) (acc : Str),
    (first = true ∨ p = '\n') → (acc = [] ∨ ∀ s, ts.head? ≠ some (.text s)) →
    scanOldGo 0 first p acc (printOld ts) = flushOld acc ++ ts.map rawOld
  | [], _, first, p, acc, _, _ => by simp [printOld, scanOldGo]
  | .text s :: ts, wf, first, p, acc, _, hacc => by
    obtain ⟨hok, wft, hnext⟩ := wf
    have hacc : acc = [] := by
      rcases hacc with h | h
      · exact h
      · exact absurd rfl (h s)
    subst hacc
    have hne : s ≠ [] := hok
    cases ts with
    | nil =>
      simp only [printOld, printOldTok, List.append_nil]
      rw [scanOld_escaped_go, flushOld_escaped hne [] rfl]
      simp [flushOld_nil, rawOld]
    | cons u ts' =>
      obtain ⟨⟨b, body, hu⟩, hlast⟩ := hnext s rfl u rfl
      subst hu
      have ih := scan_old_print_go (.line b body :: ts') wft false '\n' ((escapeOld s).reverse ++ [])
        (Or.inr rfl) (Or.inr (by intro s'; simp))
      have e : printOld (.text s :: .line b body :: ts') = escapeOld s ++ printOld (.line b body :: ts') := rfl
      rw [e, scanOld_escaped_go_app s first p [] _ hlast, ih, flushOld_escaped hne [] rfl]
      simp [flushOld_nil, rawOld]
  | .line b body :: ts, wf, first, p, acc, hstart, _ => by
    obtain ⟨hok, wft, _⟩ := wf
    obtain ⟨hb, ⟨c0, r, hbody, hc0⟩, hnl⟩ := hok
    subst hbody
    have ih := scan_old_print_go ts wft false '\n' [] (Or.inr rfl) (Or.inl rfl)
    have e : printOld (.line b (c0 :: r) :: ts) = b ++ '#' :: c0 :: (r ++ '\n' :: printOld ts) := by
      simp [printOld, printOldTok]
    rw [e, scanOld_line b r (printOld ts) acc c0 p first hb hc0 hnl hstart, ih]
    simp [flushOld_nil, rawOld]

/-- the printer round trip of the old text syntax, raw form: a well-formed list of texts and
    directive / comment lines, printed (texts escaped), scans to exactly its raw tokens -/
theorem scan_old_print_raw (ts : List OCTok) (wf : WFOld ts) :
    scanOld (printOld ts) = ts.map rawOld := by
  unfold scanOld
  rw [scan_old_print_go ts wf true '\n' [] (Or.inl rfl) (Or.inl rfl)]
  simp [flushOld_nil]

/-- cooked form: scanning the printed list and cooking the raw tokens gives the list back -/
theorem scan_old_print_roundtrip (ts : List OCTok) (wf : WFOld ts) :
    (scanOld (printOld ts)).map cookOld = ts := by
  rw [scan_old_print_raw ts wf, map_cookOld_rawOld]

/-! ### non-vacuity -/

/-- a text, a directive line with blanks in front, a comment line, a trailing text -/
def exOld : List OCTok :=
  [.text ['a', '#', 'b', '\n'], .line [' ', '\t'] ['i', 'f', ' ', 'x'], .line [] ['#', ' ', 'n', 'o', 't', 'e'],
   .text ['z', ' ']]

example : printOld exOld =
    ['a', '\\', '#', 'b', '\n', ' ', '\t', '#', 'i', 'f', ' ', 'x', '\n', '#', '#', ' ', 'n', 'o', 't', 'e', '\n',
     'z', ' '] := by decide

theorem exOld_wf : WFOld exOld := by
  simp only [exOld, WFOld, OkOTok]
  refine ⟨by simp, ⟨?_, ⟨?_, ⟨by simp, trivial, by simp⟩, by simp⟩, by simp⟩, by simp⟩
  · refine ⟨by decide, ⟨'i', _, rfl, Or.inl (by decide)⟩, by decide⟩
  · refine ⟨by simp, ⟨'#', _, rfl, Or.inr rfl⟩, by decide⟩

example : (scanOld (printOld exOld)).map cookOld = exOld := scan_old_print_roundtrip exOld exOld_wf

example : scanOld (printOld exOld) = exOld.map rawOld := scan_old_print_raw exOld exOld_wf

set_option maxRecDepth 8000 in
example : (scanOld (printOld exOld)).map cookOld = exOld := by decide

end Genshi.Tmpl.Scan

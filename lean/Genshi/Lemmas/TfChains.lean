/-
  Chains of transformations: every admissible chain maps a well-nested stream
  to a well-nested stream.  Induction over the chain with the invariant
  "well nested; `Good` — or, after an `invert()`, free of ENTER/EXIT marks —;
  every buffer holds balanced content".
-/
import Genshi.Lemmas.TfFilter
namespace Genshi.Tf

/-- injected content is balanced: literal event streams must be, strings are, buffers are by
    the invariant of the chain -/
def Content.Ok : Content → Prop
  | .evs s => Bal s
  | _ => True

theorem content_bal {b : Bufs} (hb : BufsOk b) {c : Content} (h : c.Ok) : Bal (evsOf (content b c)) := by
  cases c with
  | str t => exact bal_ensureStr t
  | evs s => simpa [content, evsOf_map_ev, Content.Ok] using h
  | buf id => exact hb id

/-- operations admitted on a `Good` marking: all of them (injected event streams balanced;
    the filter of `filter(f)` keeps balanced input balanced) -/
def Op.OkGood : Op → Prop
  | .filter f => FOk f
  | .wrap _ _ kids => Bal kids
  | .replace c => c.Ok
  | .before c => c.Ok
  | .after c => c.Ok
  | .prepend c => c.Ok
  | .append c => c.Ok
  | _ => True

/-- operations admitted while the selection is inverted (documented precondition: a new
    `select` / `end` must come before anything that deletes, replaces, wraps or copies
    contiguous selections) -/
def Op.OkDirty : Op → Prop
  | .remove => False
  | .replace _ => False
  | .wrap _ _ _ => False
  | .cut _ _ => False
  | .copy _ _ => False
  | .filter _ => False
  | .before c => c.Ok
  | .after c => c.Ok
  | .prepend c => c.Ok
  | .append c => c.Ok
  | _ => True

/-- is the marking `Good` after the operation? -/
def Op.next (good : Bool) : Op → Bool
  | .select _ => true
  | .endSel => true
  | .invert => false
  | _ => good

def Admissible : Bool → List Op → Prop
  | _, [] => True
  | good, op :: ops => (if good then op.OkGood else op.OkDirty) ∧ Admissible (op.next good) ops

/-- the invariant of a chain -/
structure ChainInv (good : Bool) (s : MStream) (b : Bufs) : Prop where
  wn : WellNested (unmark s)
  isGood : good = true → Good s
  isInner : good = false → Inner s
  bufs : BufsOk b

theorem applyOp_good (b : Bufs) (op : Op) {s s' : MStream} {b' : Bufs}
    (hok : op.OkGood) (inv : ChainInv true s b) (hsel : op.selOkAt s = true)
    (h : applyOp b op s = some (s', b')) : ChainInv (op.next true) s' b' := by
  have hg := inv.isGood rfl
  have hwn := inv.wn
  have hb := inv.bufs
  have same : ∀ {t : MStream}, WellNested (unmark t) → Good t → ChainInv true t b :=
    fun h1 h2 => ⟨h1, fun _ => h2, fun h => by simp at h, hb⟩
  cases op with
  | select rs =>
    simp only [Op.selOkAt] at hsel
    obtain ⟨g, f⟩ := select_good rs s hwn hsel
    simp only [applyOp, select, f, ↓reduceIte, Option.map_some, Option.some.injEq, Prod.mk.injEq] at h
    obtain ⟨rfl, rfl⟩ := h
    exact same (by rw [unmark_selectGo_ok 0 rs s hsel]; exact hwn) g
  | selectFail => simp [applyOp] at h
  | invert =>
    simp only [applyOp, Option.some.injEq, Prod.mk.injEq] at h
    obtain ⟨rfl, rfl⟩ := h
    exact ⟨by rw [unmark_invert]; exact hwn, fun h => by simp [Op.next] at h, fun _ => invert_inner s, hb⟩
  | endSel =>
    simp only [applyOp, Option.some.injEq, Prod.mk.injEq] at h
    obtain ⟨rfl, rfl⟩ := h
    exact same (by rw [unmark_endSel]; exact hwn) (endSel_good hwn)
  | empty =>
    simp only [applyOp, Option.some.injEq, Prod.mk.injEq] at h
    obtain ⟨rfl, rfl⟩ := h
    exact same (by unfold WellNested; rw [empty_balance hg]; exact hwn) (empty_good hg)
  | remove =>
    simp only [applyOp, Option.some.injEq, Prod.mk.injEq] at h
    obtain ⟨rfl, rfl⟩ := h
    exact same (by unfold WellNested remove; rw [remove_balance hg]; exact hwn) (remove_good s)
  | unwrap =>
    simp only [applyOp, Option.some.injEq, Prod.mk.injEq] at h
    obtain ⟨rfl, rfl⟩ := h
    exact same (by unfold WellNested; rw [unwrap_balance hg]; exact hwn) (unwrap_good hg)
  | wrap t a kids =>
    simp only [applyOp, Option.some.injEq, Prod.mk.injEq] at h
    obtain ⟨rfl, rfl⟩ := h
    have hw : Wrapper (unmark (inj ((Event.start t a :: kids).map MEv.ev))) (unmark [(none, MEv.ev (.end_ t))]) := by
      rw [unmark_inj_ev]; simpa [unmark] using wrapper_elem_kids t a hok
    exact same (runGo_wn true hw hg hwn)
      (runGo_good true (inj_noneMarked _) (by intro p hp; simp at hp; simp [hp]) hg).1
  | replace c =>
    simp only [applyOp, Option.some.injEq, Prod.mk.injEq] at h
    obtain ⟨rfl, rfl⟩ := h
    have hw : Wrapper (unmark (inj (content b c))) (unmark []) := by
      rw [unmark_inj]; exact wrapper_inject (content_bal hb hok)
    exact same (runGo_wn false hw hg hwn)
      (runGo_good false (inj_noneMarked _) (by intro p hp; simp at hp) hg).1
  | before c =>
    simp only [applyOp, Option.some.injEq, Prod.mk.injEq] at h
    obtain ⟨rfl, rfl⟩ := h
    have hw : Wrapper (unmark (inj (content b c))) (unmark []) := by
      rw [unmark_inj]; exact wrapper_inject (content_bal hb hok)
    exact same (runGo_wn true hw hg hwn)
      (runGo_good true (inj_noneMarked _) (by intro p hp; simp at hp) hg).1
  | after c =>
    simp only [applyOp, Option.some.injEq, Prod.mk.injEq] at h
    obtain ⟨rfl, rfl⟩ := h
    have hw : Wrapper (unmark []) (unmark (inj (content b c))) := by
      rw [unmark_inj]; exact wrapper_after (content_bal hb hok)
    exact same (runGo_wn true hw hg hwn)
      (runGo_good true (by intro p hp; simp at hp) (inj_noneMarked _) hg).1
  | prepend c =>
    simp only [applyOp, Option.some.injEq, Prod.mk.injEq] at h
    obtain ⟨rfl, rfl⟩ := h
    exact same (by unfold WellNested; rw [prepend_balance _ (content_bal hb hok) hg]; exact hwn)
      (prepend_good _ (content_bal hb hok) hg)
  | append c =>
    simp only [applyOp, Option.some.injEq, Prod.mk.injEq] at h
    obtain ⟨rfl, rfl⟩ := h
    exact same (by unfold WellNested; rw [append_balance _ (content_bal hb hok) hg]; exact hwn)
      (append_good _ (content_bal hb hok) hg)
  | attr n v =>
    simp only [applyOp, Option.some.injEq, Prod.mk.injEq] at h
    obtain ⟨rfl, rfl⟩ := h
    exact same (by unfold WellNested setAttr; rw [map_balance (attrEv_effPres n v)]; exact hwn)
      (map_good (attrEv_effPres n v) hg)
  | attrFn n f =>
    simp only [applyOp, Option.some.injEq, Prod.mk.injEq] at h
    obtain ⟨rfl, rfl⟩ := h
    exact same (by unfold WellNested setAttrFn; rw [map_balance (attrFnEv_effPres n f)]; exact hwn)
      (map_good (attrFnEv_effPres n f) hg)
  | rename n =>
    simp only [applyOp, Option.some.injEq, Prod.mk.injEq] at h
    obtain ⟨rfl, rfl⟩ := h
    exact same (by unfold WellNested; rw [rename_balance n hg]; exact hwn) (rename_good n hg)
  | copy id acc =>
    simp only [applyOp, Option.some.injEq, Prod.mk.injEq] at h
    obtain ⟨rfl, rfl⟩ := h
    rw [copy_id]
    exact ⟨hwn, fun _ => hg, fun h => by simp [Op.next] at h,
      hb.set id ((copyBuf_bal acc hg).1 _ (hb id))⟩
  | cut id acc =>
    simp only [applyOp, Option.map_eq_some_iff, Prod.mk.injEq] at h
    obtain ⟨out, hc, rfl, rfl⟩ := h
    obtain ⟨g, bal⟩ := cut_good hg hc
    refine ⟨by unfold WellNested; rw [bal]; exact hwn, fun _ => g, fun h => by simp [Op.next] at h, ?_⟩
    rw [cutBuf_eq_copyBuf]
    exact hb.set id ((copyBuf_bal acc hg).1 _ (BalE.ite acc (hb id)))
  | buffer =>
    simp only [applyOp, Option.some.injEq, Prod.mk.injEq] at h
    obtain ⟨rfl, rfl⟩ := h
    exact same hwn hg
  | mapBang all =>
    simp only [applyOp, Option.some.injEq, Prod.mk.injEq] at h
    obtain ⟨rfl, rfl⟩ := h
    exact same (by unfold WellNested mapBang; rw [map_balance (mapBangEv_effPres all)]; exact hwn)
      (map_good (mapBangEv_effPres all) hg)
  | subst p r n =>
    simp only [applyOp, Option.some.injEq, Prod.mk.injEq] at h
    obtain ⟨rfl, rfl⟩ := h
    exact same (by unfold WellNested substitute; rw [map_balance (substEv_effPres p r n)]; exact hwn)
      (map_good (substEv_effPres p r n) hg)
  | mapText f =>
    simp only [applyOp, Option.some.injEq, Prod.mk.injEq] at h
    obtain ⟨rfl, rfl⟩ := h
    exact same (by unfold WellNested mapText; rw [map_balance (mapTextEv_effPres f)]; exact hwn)
      (map_good (mapTextEv_effPres f) hg)
  | trace =>
    simp only [applyOp, trace, Option.some.injEq, Prod.mk.injEq] at h
    obtain ⟨rfl, rfl⟩ := h
    exact same hwn hg
  | filter f =>
    simp only [applyOp, Option.some.injEq, Prod.mk.injEq] at h
    obtain ⟨rfl, rfl⟩ := h
    exact same (by unfold WellNested filterSel; rw [filter_balance hok hg]; exact hwn) (filter_good hok hg)

theorem applyOp_dirty (b : Bufs) (op : Op) {s s' : MStream} {b' : Bufs}
    (hok : op.OkDirty) (inv : ChainInv false s b) (hsel : op.selOkAt s = true)
    (h : applyOp b op s = some (s', b')) : ChainInv (op.next false) s' b' := by
  have hin := inv.isInner rfl
  have hwn := inv.wn
  have hb := inv.bufs
  have mkGood : ∀ {t : MStream}, WellNested (unmark t) → Good t → ChainInv true t b :=
    fun h1 h2 => ⟨h1, fun _ => h2, fun h => by simp at h, hb⟩
  have same : ∀ {t : MStream}, WellNested (unmark t) → Inner t → ChainInv false t b :=
    fun h1 h2 => ⟨h1, fun h => by simp at h, fun _ => h2, hb⟩
  cases op with
  | select rs =>
    simp only [Op.selOkAt] at hsel
    obtain ⟨g, f⟩ := select_good rs s hwn hsel
    simp only [applyOp, select, f, ↓reduceIte, Option.map_some, Option.some.injEq, Prod.mk.injEq] at h
    obtain ⟨rfl, rfl⟩ := h
    exact mkGood (by rw [unmark_selectGo_ok 0 rs s hsel]; exact hwn) g
  | selectFail => simp [applyOp] at h
  | invert =>
    simp only [applyOp, Option.some.injEq, Prod.mk.injEq] at h
    obtain ⟨rfl, rfl⟩ := h
    exact same (by rw [unmark_invert]; exact hwn) (invert_inner s)
  | endSel =>
    simp only [applyOp, Option.some.injEq, Prod.mk.injEq] at h
    obtain ⟨rfl, rfl⟩ := h
    exact mkGood (by rw [unmark_endSel]; exact hwn) (endSel_good hwn)
  | empty =>
    simp only [applyOp, Option.some.injEq, Prod.mk.injEq] at h
    obtain ⟨rfl, rfl⟩ := h
    rw [empty_inner hin]; exact same hwn hin
  | unwrap =>
    simp only [applyOp, Option.some.injEq, Prod.mk.injEq] at h
    obtain ⟨rfl, rfl⟩ := h
    rw [unwrap_inner hin]; exact same hwn hin
  | before c =>
    simp only [applyOp, Option.some.injEq, Prod.mk.injEq] at h
    obtain ⟨rfl, rfl⟩ := h
    have hc : Bal (unmark (inj (content b c))) := by rw [unmark_inj]; exact content_bal hb hok
    exact same (by unfold WellNested before; rw [runGo_balance_any (post := []) hc (show Bal (unmark []) from Bal.nil)]; exact hwn)
      (runGo_inner (inj_noneMarked _) (by intro p hp; simp at hp) s hin _)
  | after c =>
    simp only [applyOp, Option.some.injEq, Prod.mk.injEq] at h
    obtain ⟨rfl, rfl⟩ := h
    have hc : Bal (unmark (inj (content b c))) := by rw [unmark_inj]; exact content_bal hb hok
    exact same (by unfold WellNested after; rw [runGo_balance_any (pre := []) (show Bal (unmark []) from Bal.nil) hc]; exact hwn)
      (runGo_inner (by intro p hp; simp at hp) (inj_noneMarked _) s hin _)
  | prepend c =>
    simp only [applyOp, Option.some.injEq, Prod.mk.injEq] at h
    obtain ⟨rfl, rfl⟩ := h
    rw [prepend_inner' _ hin]; exact same hwn hin
  | append c =>
    simp only [applyOp, Option.some.injEq, Prod.mk.injEq] at h
    obtain ⟨rfl, rfl⟩ := h
    rw [append_inner' _ hin]; exact same hwn hin
  | attr n v =>
    simp only [applyOp, Option.some.injEq, Prod.mk.injEq] at h
    obtain ⟨rfl, rfl⟩ := h
    exact same (by unfold WellNested setAttr; rw [map_balance (attrEv_effPres n v)]; exact hwn)
      (map_inner (attrEv_effPres n v) hin)
  | attrFn n f =>
    simp only [applyOp, Option.some.injEq, Prod.mk.injEq] at h
    obtain ⟨rfl, rfl⟩ := h
    exact same (by unfold WellNested setAttrFn; rw [map_balance (attrFnEv_effPres n f)]; exact hwn)
      (map_inner (attrFnEv_effPres n f) hin)
  | rename n =>
    simp only [applyOp, Option.some.injEq, Prod.mk.injEq] at h
    obtain ⟨rfl, rfl⟩ := h
    rw [rename_inner n hin]; exact same hwn hin
  | buffer =>
    simp only [applyOp, Option.some.injEq, Prod.mk.injEq] at h
    obtain ⟨rfl, rfl⟩ := h
    exact same hwn hin
  | mapBang all =>
    simp only [applyOp, Option.some.injEq, Prod.mk.injEq] at h
    obtain ⟨rfl, rfl⟩ := h
    exact same (by unfold WellNested mapBang; rw [map_balance (mapBangEv_effPres all)]; exact hwn)
      (map_inner (mapBangEv_effPres all) hin)
  | subst p r n =>
    simp only [applyOp, Option.some.injEq, Prod.mk.injEq] at h
    obtain ⟨rfl, rfl⟩ := h
    exact same (by unfold WellNested substitute; rw [map_balance (substEv_effPres p r n)]; exact hwn)
      (map_inner (substEv_effPres p r n) hin)
  | mapText f =>
    simp only [applyOp, Option.some.injEq, Prod.mk.injEq] at h
    obtain ⟨rfl, rfl⟩ := h
    exact same (by unfold WellNested mapText; rw [map_balance (mapTextEv_effPres f)]; exact hwn)
      (map_inner (mapTextEv_effPres f) hin)
  | trace =>
    simp only [applyOp, trace, Option.some.injEq, Prod.mk.injEq] at h
    obtain ⟨rfl, rfl⟩ := h
    exact same hwn hin
  | remove => exact absurd hok (by simp [Op.OkDirty])
  | replace c => exact absurd hok (by simp [Op.OkDirty])
  | wrap t a kids => exact absurd hok (by simp [Op.OkDirty])
  | cut id acc => exact absurd hok (by simp [Op.OkDirty])
  | copy id acc => exact absurd hok (by simp [Op.OkDirty])
  | filter d => exact absurd hok (by simp [Op.OkDirty])

theorem runChain_wellnested : ∀ (ops : List Op) (good : Bool) (b : Bufs) (s : MStream),
    Admissible good ops → ChainInv good s b → chainSelOk ops b s = true →
    ∀ out b', runChain ops b s = some (out, b') → WellNested (unmark out) := by
  intro ops
  induction ops with
  | nil =>
    intro good b s _ inv _ out b' h
    simp only [runChain, Option.some.injEq, Prod.mk.injEq] at h
    obtain ⟨rfl, _⟩ := h
    exact inv.wn
  | cons op ops ih =>
    intro good b s hadm inv hsel out b' h
    simp only [runChain] at h
    simp only [chainSelOk, Bool.and_eq_true] at hsel
    cases ha : applyOp b op s with
    | none => simp [ha] at h
    | some r =>
      obtain ⟨s1, b1⟩ := r
      simp only [ha] at h hsel
      obtain ⟨hadm1, hadm2⟩ := hadm
      cases good with
      | true =>
        simp only [↓reduceIte] at hadm1
        exact ih (op.next true) b1 s1 hadm2 (applyOp_good b op hadm1 inv hsel.1 ha) hsel.2 out b' h
      | false =>
        simp only [Bool.false_eq_true, ↓reduceIte] at hadm1
        exact ih (op.next false) b1 s1 hadm2 (applyOp_dirty b op hadm1 inv hsel.1 ha) hsel.2 out b' h

/-- is the operation a `select`? -/
def isSelect : Op → Bool
  | .select _ => true
  | _ => false

theorem runChain_selects (ops : List Op) (hall : ∀ op ∈ ops, isSelect op = true) :
    ∀ (b : Bufs) (s : MStream), WellNested (unmark s) → chainSelOk ops b s = true →
      ∃ out, runChain ops b s = some (out, b) ∧ unmark out = unmark s := by
  induction ops with
  | nil => intro b s _ _; exact ⟨s, rfl, rfl⟩
  | cons op ops ih =>
    intro b s hwn hsel
    have hop := hall op (by simp)
    cases op with
    | select rs =>
      simp only [chainSelOk, Op.selOkAt, Bool.and_eq_true] at hsel
      obtain ⟨g, f⟩ := select_good rs s hwn hsel.1
      have ha : applyOp b (.select rs) s = some (selectGo 0 rs s, b) := by simp [applyOp, select, f]
      have hu := unmark_selectGo_ok 0 rs s hsel.1
      rw [ha] at hsel
      obtain ⟨out, h1, h2⟩ := ih (fun o ho => hall o (by simp [ho])) b (selectGo 0 rs s)
        (by rw [hu]; exact hwn) hsel.2
      exact ⟨out, by simp [runChain, ha, h1], by rw [h2, hu]⟩
    | _ => simp [isSelect] at hop

end Genshi.Tf

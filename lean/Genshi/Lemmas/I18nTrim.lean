/-
  C19 — white space at the edges of a message: `format()` strips the message string, which
  is the message string of the content with its edge white space removed (`trimF`).
-/
import Genshi.Lemmas.I18nIdentity
namespace Genshi.I18n
open Genshi Genshi.Str

/-! ### strip on concatenations -/

theorem lstripBy_append (p : Char → Bool) : ∀ (a b : Str),
    lstripBy p (a ++ b) = if a.all p then lstripBy p b else lstripBy p a ++ b
  | [], b => by simp
  | c :: cs, b => by
      by_cases hc : p c = true
      · simp only [List.cons_append, lstripBy, hc, ↓reduceIte, List.all_cons, Bool.true_and]
        exact lstripBy_append p cs b
      · simp [lstripBy, hc]

theorem lstripBy_all (p : Char → Bool) : ∀ (a : Str), a.all p = true → lstripBy p a = []
  | [], _ => rfl
  | c :: cs, h => by
      simp only [List.all_cons, Bool.and_eq_true] at h
      simp [lstripBy, h.1, lstripBy_all p cs h.2]

theorem lstripBy_head (p : Char → Bool) (c : Char) (cs : Str) (h : p c = false) : lstripBy p (c :: cs) = c :: cs := by
  simp [lstripBy, h]

theorem rstripBy_append (p : Char → Bool) (a b : Str) :
    rstripBy p (a ++ b) = if b.all p then rstripBy p a else a ++ rstripBy p b := by
  unfold rstripBy
  rw [List.reverse_append, lstripBy_append]
  simp only [List.all_reverse]
  split <;> simp

theorem rstripBy_all (p : Char → Bool) (a : Str) (h : a.all p = true) : rstripBy p a = [] := by
  unfold rstripBy; rw [lstripBy_all p _ (by simpa using h)]; rfl

theorem rstripBy_last (p : Char → Bool) (a : Str) (c : Char) (h : p c = false) : rstripBy p (a ++ [c]) = a ++ [c] := by
  unfold rstripBy; simp [lstripBy, h]

theorem lstripBy_suffix (p : Char → Bool) : ∀ (a : Str), ∀ c ∈ lstripBy p a, c ∈ a
  | [], c, h => by simp [lstripBy] at h
  | x :: xs, c, h => by
      by_cases hx : p x = true
      · simp only [lstripBy, hx, ↓reduceIte] at h
        exact List.mem_cons_of_mem _ (lstripBy_suffix p xs c h)
      · simpa [lstripBy, hx] using h

theorem rstripBy_mem (p : Char → Bool) (a : Str) : ∀ c ∈ rstripBy p a, c ∈ a := by
  intro c h
  unfold rstripBy at h
  have := lstripBy_suffix p a.reverse c (by simpa using h)
  simpa using this

theorem cleanText_lstrip (s : Str) (h : cleanText s = true) : cleanText (lstripBy isSpace s) = true := by
  simp only [cleanText, List.all_eq_true] at *
  exact fun c hc => h c (lstripBy_suffix _ s c hc)

theorem cleanText_rstrip (s : Str) (h : cleanText s = true) : cleanText (rstripBy isSpace s) = true := by
  simp only [cleanText, List.all_eq_true] at *
  exact fun c hc => h c (rstripBy_mem _ s c hc)

/-! ### trimming the content -/

def allSpace (s : Str) : Bool := s.all isSpace

/-- remove the white space at the start of the content -/
def ltrimN : List MNode → List MNode
  | .text s :: ns => if allSpace s then ltrimN ns else .text (lstripBy isSpace s) :: ns
  | ns => ns

def allSpaceN : List MNode → Bool
  | [] => true
  | .text s :: ns => allSpace s && allSpaceN ns
  | _ => false

def rtrimLast : MNode → List MNode
  | .text s => if allSpace s then [] else [.text (rstripBy isSpace s)]
  | n => [n]

/-- remove the white space at the end of the content -/
def rtrimN : List MNode → List MNode
  | [] => []
  | n :: ns => if allSpaceN ns then rtrimLast n else n :: rtrimN ns

/-- the content without the white space at its two edges -/
def trimF (F : List MNode) : List MNode := rtrimN (ltrimN F)

theorem isSpace_percent : isSpace '%' = false := by decide
theorem isSpace_lbracket : isSpace '[' = false := by decide
theorem isSpace_rbracket : isSpace ']' = false := by decide
theorem isSpace_s : isSpace 's' = false := by decide

theorem fmtM_single (o : Nat) (n : MNode) : fmtM o [n] = n.fmt o := by simp [fmtM]

theorem lstrip_fmtM (o : Nat) : ∀ (F : List MNode), cleanM F = true →
    lstripBy isSpace (fmtM o F) = fmtM o (ltrimN F)
  | [], _ => by simp [fmtM, ltrimN, lstripBy]
  | .text s :: ns, h => by
      simp only [cleanM, MNode.clean, Bool.and_eq_true] at h
      simp only [fmtM, MNode.fmt, MNode.size, Nat.add_zero, escBrackets_clean s h.1, ltrimN, allSpace]
      rw [lstripBy_append]
      by_cases hs : s.all isSpace = true
      · simp only [hs, ↓reduceIte]; exact lstrip_fmtM o ns h.2
      · simp only [hs, Bool.false_eq_true, ↓reduceIte, fmtM, MNode.fmt, MNode.size, Nat.add_zero]
        rw [escBrackets_clean _ (cleanText_lstrip s h.1)]
  | .expr n i cm :: ns, _ => by
      simp only [fmtM, MNode.fmt, ltrimN, List.cons_append]
      exact lstripBy_head _ _ _ isSpace_percent
  | .elem sd t a ks :: ns, _ => by
      simp only [fmtM, MNode.fmt, ltrimN, List.cons_append]
      exact lstripBy_head _ _ _ isSpace_lbracket

theorem allSpace_fmtM (o : Nat) : ∀ (F : List MNode), cleanM F = true → (fmtM o F).all isSpace = allSpaceN F
  | [], _ => rfl
  | .text s :: ns, h => by
      simp only [cleanM, MNode.clean, Bool.and_eq_true] at h
      simp only [fmtM, MNode.fmt, MNode.size, Nat.add_zero, escBrackets_clean s h.1, List.all_append, allSpaceN, allSpace]
      rw [allSpace_fmtM o ns h.2]
  | .expr n i cm :: ns, _ => by
      simp [fmtM, MNode.fmt, allSpaceN, isSpace_percent]
  | .elem sd t a ks :: ns, _ => by
      simp [fmtM, MNode.fmt, allSpaceN, isSpace_lbracket]

theorem rstrip_node (o : Nat) : ∀ (n : MNode), n.clean = true → rstripBy isSpace (n.fmt o) = fmtM o (rtrimLast n)
  | .text s, h => by
      simp only [MNode.clean] at h
      simp only [MNode.fmt, escBrackets_clean s h, rtrimLast, allSpace]
      by_cases hs : s.all isSpace = true
      · simp [hs, rstripBy_all _ s hs, fmtM]
      · simp [hs, fmtM, MNode.fmt, escBrackets_clean _ (cleanText_rstrip s h)]
  | .expr n i cm, _ => by
      simp only [MNode.fmt, rtrimLast, fmtM_single]
      have : ('%' :: '(' :: n ++ [')', 's']) = ('%' :: '(' :: n ++ [')']) ++ ['s'] := by simp
      rw [this, rstripBy_last _ _ _ isSpace_s]
  | .elem sd t a ks, _ => by
      simp only [MNode.fmt, rtrimLast, fmtM_single]
      have : ('[' :: natStr o ++ [':'] ++ (fmtM (o + 1) ks ++ [']'])) = ('[' :: natStr o ++ [':'] ++ fmtM (o + 1) ks) ++ [']'] := by simp
      rw [this, rstripBy_last _ _ _ isSpace_rbracket]

theorem rtrimLast_size : ∀ (n : MNode), sizeM (rtrimLast n) = n.size
  | .text s => by simp only [rtrimLast]; split <;> simp [sizeM, MNode.size]
  | .expr _ _ _ => by simp [rtrimLast, sizeM, MNode.size]
  | .elem _ _ _ _ => by simp [rtrimLast, sizeM]

theorem rstrip_fmtM : ∀ (F : List MNode) (o : Nat), cleanM F = true →
    rstripBy isSpace (fmtM o F) = fmtM o (rtrimN F)
  | [], o, _ => by simp [fmtM, rtrimN, rstripBy, lstripBy]
  | n :: ns, o, h => by
      simp only [cleanM, Bool.and_eq_true] at h
      simp only [fmtM, rtrimN]
      rw [rstripBy_append, allSpace_fmtM _ ns h.2]
      by_cases hs : allSpaceN ns = true
      · simp only [hs, ↓reduceIte]; exact rstrip_node o n h.1
      · simp only [hs, Bool.false_eq_true, ↓reduceIte, fmtM]
        rw [rstrip_fmtM ns _ h.2]

/-! ### trimming keeps what matters -/

theorem cleanM_ltrimN : ∀ (F : List MNode), cleanM F = true → cleanM (ltrimN F) = true
  | [], _ => rfl
  | .text s :: ns, h => by
      simp only [cleanM, MNode.clean, Bool.and_eq_true] at h
      simp only [ltrimN]
      split
      · exact cleanM_ltrimN ns h.2
      · simp [cleanM, MNode.clean, cleanText_lstrip s h.1, h.2]
  | .expr _ _ _ :: _, h => h
  | .elem _ _ _ _ :: _, h => h

theorem cleanM_rtrimLast : ∀ (n : MNode), n.clean = true → cleanM (rtrimLast n) = true
  | .text s, h => by
      simp only [MNode.clean] at h
      simp only [rtrimLast]; split
      · rfl
      · simp [cleanM, MNode.clean, cleanText_rstrip s h]
  | .expr _ _ _, h => by simpa [rtrimLast, cleanM] using h
  | .elem _ _ _ _, h => by simpa [rtrimLast, cleanM] using h

theorem cleanM_rtrimN : ∀ (F : List MNode), cleanM F = true → cleanM (rtrimN F) = true
  | [], _ => rfl
  | n :: ns, h => by
      simp only [cleanM, Bool.and_eq_true] at h
      simp only [rtrimN]; split
      · exact cleanM_rtrimLast n h.1
      · simp [cleanM, h.1, cleanM_rtrimN ns h.2]

theorem cleanM_trimF (F : List MNode) (h : cleanM F = true) : cleanM (trimF F) = true :=
  cleanM_rtrimN _ (cleanM_ltrimN F h)

theorem subsOKM_ltrimN (i : Bool) : ∀ (F : List MNode), subsOKM i F = true → subsOKM i (ltrimN F) = true
  | [], _ => rfl
  | .text s :: ns, h => by
      simp only [subsOKM, MNode.subsOK, Bool.true_and] at h
      simp only [ltrimN]
      split
      · exact subsOKM_ltrimN i ns h
      · simp [subsOKM, MNode.subsOK, h]
  | .expr _ _ _ :: _, h => h
  | .elem _ _ _ _ :: _, h => h

theorem subsOKM_rtrimLast (i : Bool) : ∀ (n : MNode), n.subsOK i = true → subsOKM i (rtrimLast n) = true
  | .text s, _ => by
      simp only [rtrimLast]; split
      · rfl
      · simp [subsOKM, MNode.subsOK]
  | .expr _ _ _, h => by simp [rtrimLast, subsOKM, MNode.subsOK]
  | .elem _ _ _ _, h => by simpa [rtrimLast, subsOKM] using h

theorem subsOKM_rtrimN (i : Bool) : ∀ (F : List MNode), subsOKM i F = true → subsOKM i (rtrimN F) = true
  | [], _ => rfl
  | n :: ns, h => by
      simp only [subsOKM, Bool.and_eq_true] at h
      simp only [rtrimN]; split
      · exact subsOKM_rtrimLast i n h.1
      · simp [subsOKM, h.1, subsOKM_rtrimN i ns h.2]

theorem subsOKM_trimF (i : Bool) (F : List MNode) (h : subsOKM i F = true) : subsOKM i (trimF F) = true :=
  subsOKM_rtrimN i _ (subsOKM_ltrimN i F h)

/-- **format() strips the message**: the stripped message string of the content is the
    message string of the trimmed content -/
theorem strip_fmtM (F : List MNode) (o : Nat) (h : cleanM F = true) : strip (fmtM o F) = fmtM o (trimF F) := by
  unfold strip stripBy trimF
  rw [lstrip_fmtM o F h, rstrip_fmtM _ o (cleanM_ltrimN F h)]


theorem valsM_ltrimN : ∀ (F : List MNode), valsM (ltrimN F) = valsM F
  | [] => rfl
  | .text s :: ns => by
      simp only [ltrimN]; split
      · simp [valsM, MNode.vals, valsM_ltrimN ns]
      · simp [valsM, MNode.vals]
  | .expr _ _ _ :: _ => rfl
  | .elem _ _ _ _ :: _ => rfl

theorem valsM_allSpaceN : ∀ (F : List MNode), allSpaceN F = true → valsM F = []
  | [], _ => rfl
  | .text s :: ns, h => by
      simp only [allSpaceN, Bool.and_eq_true] at h
      simp [valsM, MNode.vals, valsM_allSpaceN ns h.2]
  | .expr _ _ _ :: _, h => by simp [allSpaceN] at h
  | .elem _ _ _ _ :: _, h => by simp [allSpaceN] at h

theorem valsM_rtrimLast : ∀ (n : MNode), valsM (rtrimLast n) = n.vals
  | .text s => by simp only [rtrimLast]; split <;> simp [valsM, MNode.vals]
  | .expr _ _ _ => by simp [rtrimLast, valsM]
  | .elem _ _ _ _ => by simp [rtrimLast, valsM]

theorem valsM_rtrimN : ∀ (F : List MNode), valsM (rtrimN F) = valsM F
  | [] => rfl
  | n :: ns => by
      simp only [rtrimN]; split
      · rename_i h; simp [valsM, valsM_rtrimLast, valsM_allSpaceN ns h]
      · simp [valsM, valsM_rtrimN ns]

theorem valsM_trimF (F : List MNode) : valsM (trimF F) = valsM F := by
  unfold trimF; rw [valsM_rtrimN, valsM_ltrimN]

theorem infoM_ltrimN (o : Nat) : ∀ (F : List MNode) (k : Nat), infoM o (ltrimN F) k = infoM o F k
  | [], _ => rfl
  | .text s :: ns, k => by
      simp only [ltrimN]; split
      · simp [infoM, MNode.info, MNode.size, infoM_ltrimN o ns k]
      · simp [infoM, MNode.info, MNode.size]
  | .expr _ _ _ :: _, _ => rfl
  | .elem _ _ _ _ :: _, _ => rfl

theorem infoM_allSpaceN (o : Nat) : ∀ (F : List MNode) (k : Nat), allSpaceN F = true → infoM o F k = none
  | [], _, _ => rfl
  | .text s :: ns, k, h => by
      simp only [allSpaceN, Bool.and_eq_true] at h
      simp [infoM, MNode.info, MNode.size, infoM_allSpaceN o ns k h.2]
  | .expr _ _ _ :: _, _, h => by simp [allSpaceN] at h
  | .elem _ _ _ _ :: _, _, h => by simp [allSpaceN] at h

theorem infoM_rtrimLast (o : Nat) : ∀ (n : MNode) (k : Nat), infoM o (rtrimLast n) k = n.info o k
  | .text s, k => by simp only [rtrimLast]; split <;> simp [infoM, MNode.info]
  | .expr _ _ _, k => by simp [rtrimLast, infoM, MNode.info]
  | .elem sd t a ks, k => by
      simp only [rtrimLast, infoM]
      cases (MNode.elem sd t a ks).info o k <;> rfl

theorem infoM_rtrimN : ∀ (F : List MNode) (o k : Nat), infoM o (rtrimN F) k = infoM o F k
  | [], _, _ => rfl
  | n :: ns, o, k => by
      simp only [rtrimN]; split
      · rename_i h
        rw [infoM_rtrimLast]
        simp only [infoM, infoM_allSpaceN _ ns k h]
        cases n.info o k <;> rfl
      · simp only [infoM, infoM_rtrimN ns]

theorem infoM_trimF (F : List MNode) (o k : Nat) : infoM o (trimF F) k = infoM o F k := by
  unfold trimF; rw [infoM_rtrimN, infoM_ltrimN]

theorem ltrimN_noTop : ∀ (F : List MNode), hasTopText F = false → ltrimN F = F
  | [], _ => rfl
  | .text _ :: _, h => by simp [hasTopText] at h
  | .expr _ _ _ :: _, _ => rfl
  | .elem _ _ _ _ :: _, _ => rfl

theorem allSpaceN_noTop : ∀ (F : List MNode), hasTopText F = false → F ≠ [] → allSpaceN F = false
  | [], _, h => absurd rfl h
  | .text _ :: _, h, _ => by simp [hasTopText] at h
  | .expr _ _ _ :: _, _, _ => rfl
  | .elem _ _ _ _ :: _, _, _ => rfl

theorem rtrimN_noTop : ∀ (F : List MNode), hasTopText F = false → rtrimN F = F
  | [], _ => rfl
  | .text _ :: _, h => by simp [hasTopText] at h
  | .expr _ _ _ :: _, h => by simp [hasTopText] at h
  | .elem sd t a ks :: ns, h => by
      have hn : hasTopText ns = false := by simpa [hasTopText] using h
      simp only [rtrimN]
      cases ns with
      | nil => simp [allSpaceN, rtrimLast]
      | cons m ms =>
        rw [allSpaceN_noTop (m :: ms) hn (by simp)]
        simp [rtrimN_noTop (m :: ms) hn]

theorem trimF_noTop (F : List MNode) (h : hasTopText F = false) : trimF F = F := by
  unfold trimF; rw [ltrimN_noTop F h, rtrimN_noTop F h]

/-- **translate ∘ format under the identity catalogue** (`translate_format_id`): the buffer
    of a message, asked to translate its own `format()`, returns the content without its
    edge white space, adjacent text merged. -/
theorem translate_format_self (F : List MNode) (extra : List Str)
    (hc : cleanM F = true) (hna : deepNoAdjM F = true) (hnd : (namesM F).Nodup) (hso : subsOKM false F = true) :
    ∃ b, mbAppendList (MB.new (namesM F ++ extra)) (flattenM F) = .ok b ∧
      b.translate b.format = .ok (coalesce (flattenM (trimF F))) := by
  have hc' := cleanM_trimF F hc
  have hb : Bound (valsM F).reverse (trimF F) := by
    have := bound_self F hnd
    intro p hp; rw [valsM_trimF] at hp; exact this p hp
  have hseg : ∀ s ∈ segStr (firstSeg (trimF F)) :: (xRestOf 1 (trimF F)).segs,
      yieldParts (valsM F).reverse s = .ok (Yv (valsM F).reverse s) := by
    intro s hs
    simp only [List.mem_cons] at hs
    rcases hs with rfl | hs
    · exact Yv_ok _ _ _ (Yv_firstSeg _ _ hc' hb).1
    · exact segs_xRest _ _ 1 hc' hb s hs
  have htop : (∀ s ∈ segStr (firstSeg (trimF F)) :: (xRestOf 1 (trimF F)).topSegs, s = []) ∨ hasTopText F = true := by
    cases h : hasTopText F with
    | true => exact Or.inr rfl
    | false =>
      left
      rw [trimF_noTop F h]
      have := topSegs_noTop F 1 h
      intro s hs
      simp only [List.mem_cons] at hs
      rcases hs with rfl | hs
      · exact this.1
      · exact this.2 s hs
  obtain ⟨b, hrun, hfmt, htr⟩ := translate_message F extra (Yv (valsM F).reverse)
    (segStr (firstSeg (trimF F))) (xRestOf 1 (trimF F)) hna
    (compat_xRest (infoM 1 F) (trimF F) 1 false (fun k x h => by rwa [infoM_trimF] at h) (subsOKM_trimF false F hso))
    (by rw [nums_xRest]; exact List.nodup_range')
    (plainSeg_segStr _ (Piece.ok_firstSeg _ hc')) (plain_xRest 1 _ hc') hseg htop
  refine ⟨b, hrun, ?_⟩
  rw [hfmt, strip_fmtM F 1 hc, ← fmt_xRest 1 (trimF F) hc', htr]
  have := coal_forest (valsM F).reverse (worldOf F) (trimF F) 1 [] [] hc' hb
    (fun k t a c kd h => by rw [infoM_trimF] at h; simp [worldOf, h]) rfl
  simp only [List.append_nil] at this
  rw [coalesce, this, (Yv_firstSeg _ _ hc' hb).2]
  simp [segEvents, coalGo, flushText]


/-! ### MsgDirective.__call__ under the identity catalogue -/

theorem dropLast_append_last {α} : ∀ (rest : List α) (last : α), rest.getLast? = some last →
    rest = rest.dropLast ++ [last]
  | [], _, hl => by simp at hl
  | [x], last, hl => by simp at hl; simp [hl]
  | x :: y :: ys, last, hl => by
      rw [List.getLast?_cons_cons] at hl
      have := dropLast_append_last (y :: ys) last hl
      simp only [List.dropLast_cons_cons, List.cons_append]
      rw [← this]

/-- attribute form: `<p i18n:msg="…">content</p>` -/
theorem msgGenerate_identity_attr (t : QName) (a : TAttrs) (F : List MNode) (extra : List Str)
    (hc : cleanM F = true) (hna : deepNoAdjM F = true) (hnd : (namesM F).Nodup) (hso : subsOKM false F = true) :
    msgGenerate (namesM F ++ extra) (fun s => s) (.start t a :: (flattenM F ++ [.end_ t])) =
      .ok (.start t a :: (coalesce (flattenM (trimF F)) ++ [.end_ t])) := by
  obtain ⟨b, hrun, htr⟩ := translate_format_self F extra hc hna hnd hso
  simp only [msgGenerate, msgBuffer, TEvent.isStart, ↓reduceIte, List.getLast?_append, List.getLast?_singleton,
    Option.some_or, List.dropLast_concat, TEvent.isEnd, bind, Except.bind, pure, Except.pure, hrun, htr]
  simp

theorem msgBuffer_plain (ps : List Str) (first : TEvent) (rest : List TEvent)
    (h1 : first.isStart = false) (h2 : ((first :: rest).getLast?.map TEvent.isEnd) = some false) :
    msgBuffer ps (first :: rest) = (mbAppendList (MB.new ps) (first :: rest)).map (fun b => (b, [], [])) := by
  simp only [msgBuffer, h1, Bool.false_eq_true, ↓reduceIte, mbAppendList, bind]
  cases hb0 : mbAppend (MB.new ps) first with
  | error e => simp [Except.bind, Except.map]
  | ok b0 =>
    simp only [Except.bind]
    cases hl : rest.getLast? with
    | none =>
      have : rest = [] := by simpa using hl
      subst this
      simp [mbAppendList, Except.map, pure, Except.pure]
    | some last =>
      have hrest : rest = rest.dropLast ++ [last] := dropLast_append_last rest last hl
      have hlast : last.isEnd = false := by
        have hne : rest ≠ [] := by intro h; subst h; simp at hl
        have : (first :: rest).getLast? = some last := by rw [List.getLast?_cons_of_ne_nil hne]; exact hl
        rw [this] at h2; simpa using h2
      simp only [hlast, Bool.false_eq_true, ↓reduceIte]
      conv => rhs; rw [hrest, mbAppendList_append]
      cases mbAppendList b0 rest.dropLast with
      | error e => simp [Except.bind, Except.map]
      | ok b1 =>
        simp only [Except.bind, mbAppendList_single]
        cases mbAppend b1 last <;> simp [Except.map, pure, Except.pure]

def MNode.isElem : MNode → Bool
  | .elem _ _ _ _ => true
  | _ => false

theorem flatten_head_not_start : ∀ (n : MNode), n.isElem = false → ∃ e, n.flatten = [e] ∧ e.isStart = false ∧ e.isEnd = false
  | .text s, _ => ⟨.text s, rfl, rfl, rfl⟩
  | .expr _ i cm, _ => ⟨.expr i cm, rfl, rfl, rfl⟩
  | .elem _ _ _ _, h => by simp [MNode.isElem] at h

/-- element form: `<i18n:msg params="…">content</i18n:msg>`, the content neither starting nor
    ending with an element (else: finding C19-msg-element-first-child) -/
theorem msgGenerate_identity_elem (n : MNode) (mid : List MNode) (l : MNode) (extra : List Str)
    (hn : n.isElem = false) (hl : l.isElem = false)
    (hc : cleanM (n :: (mid ++ [l])) = true) (hna : deepNoAdjM (n :: (mid ++ [l])) = true)
    (hnd : (namesM (n :: (mid ++ [l]))).Nodup) (hso : subsOKM false (n :: (mid ++ [l])) = true) :
    msgGenerate (namesM (n :: (mid ++ [l])) ++ extra) (fun s => s) (flattenM (n :: (mid ++ [l]))) =
      .ok (coalesce (flattenM (trimF (n :: (mid ++ [l]))))) := by
  obtain ⟨b, hrun, htr⟩ := translate_format_self (n :: (mid ++ [l])) extra hc hna hnd hso
  obtain ⟨e1, he1, hs1, _⟩ := flatten_head_not_start n hn
  obtain ⟨e2, he2, _, hend2⟩ := flatten_head_not_start l hl
  have hflat : flattenM (n :: (mid ++ [l])) = e1 :: (flattenM mid ++ [e2]) := by
    have : ∀ (xs ys : List MNode), flattenM (xs ++ ys) = flattenM xs ++ flattenM ys := by
      intro xs ys; induction xs with
      | nil => simp [flattenM]
      | cons x xs ih => simp [flattenM, ih, List.append_assoc]
    simp [flattenM, he1, this, he2]
  rw [hflat] at hrun ⊢
  have hb := msgBuffer_plain (namesM (n :: (mid ++ [l])) ++ extra) e1 (flattenM mid ++ [e2]) hs1
    (by simp [List.getLast?_cons_of_ne_nil, hend2])
  simp only [msgGenerate, hb, hrun, Except.map, bind, Except.bind, htr, pure, Except.pure]
  simp

end Genshi.I18n

/-
  C19 — white space at the edges of a message: `format()` strips the message string, which
  is the message string of the content with its edge white space removed (`trimF`).
-/
import Genshi.Lemmas.I18nIdentity
namespace Genshi.I18n
open Genshi Genshi.Str

/-! ### strip on concatenations -/

theorem lstripBy_append (p : Char → Bool) : ∀ (a b : Str),
    lstripBy p (a ++ b) = if a.all p then lstripBy p b else lstripBy p a ++ b
  | [], b => by simp
  | c :: cs, b => by
      by_cases hc : p c = true
      · simp only [List.cons_append, lstripBy, hc, ↓reduceIte, List.all_cons, Bool.true_and]
        exact lstripBy_append p cs b
      · simp [lstripBy, hc]

theorem lstripBy_all (p : Char → Bool) : ∀ (a : Str), a.all p = true → lstripBy p a = []
  | [], _ => rfl
  | c :: cs, h => by
      simp only [List.all_cons, Bool.and_eq_true] at h
      simp [lstripBy, h.1, lstripBy_all p cs h.2]

theorem lstripBy_head (p : Char → Bool) (c : Char) (cs : Str) (h : p c = false) : lstripBy p (c :: cs) = c :: cs := by
  simp [lstripBy, h]

theorem rstripBy_append (p : Char → Bool) (a b : Str) :
    rstripBy p (a ++ b) = if b.all p then rstripBy p a else a ++ rstripBy p b := by
  unfold rstripBy
  rw [List.reverse_append, lstripBy_append]
  simp only [List.all_reverse]
  split <;> simp

theorem rstripBy_all (p : Char → Bool) (a : Str) (h : a.all p = true) : rstripBy p a = [] := by
  unfold rstripBy; rw [lstripBy_all p _ (by simpa using h)]; rfl

theorem rstripBy_last (p : Char → Bool) (a : Str) (c : Char) (h : p c = false) : rstripBy p (a ++ [c]) = a ++ [c] := by
  unfold rstripBy; simp [lstripBy, h]

theorem lstripBy_suffix (p : Char → Bool) : ∀ (a : Str), ∀ c ∈ lstripBy p a, c ∈ a
  | [], c, h => by simp [lstripBy] at h
  | x :: xs, c, h => by
      by_cases hx : p x = true
      · simp only [lstripBy, hx, ↓reduceIte] at h
        exact List.mem_cons_of_mem _ (lstripBy_suffix p xs c h)
      · simpa [lstripBy, hx] using h

theorem rstripBy_mem (p : Char → Bool) (a : Str) : ∀ c ∈ rstripBy p a, c ∈ a := by
  intro c h
  unfold rstripBy at h
  have := lstripBy_suffix p a.reverse c (by simpa using h)
  simpa using this

theorem cleanTextB_lstrip (s : Str) (h : cleanTextB s = true) : cleanTextB (lstripBy isSpace s) = true := by
  simp only [cleanTextB, List.all_eq_true] at *
  exact fun c hc => h c (lstripBy_suffix _ s c hc)

theorem cleanTextB_rstrip (s : Str) (h : cleanTextB s = true) : cleanTextB (rstripBy isSpace s) = true := by
  simp only [cleanTextB, List.all_eq_true] at *
  exact fun c hc => h c (rstripBy_mem _ s c hc)

/-! ### escaping brackets and stripping white space commute -/

theorem isSpace_backslash : isSpace '\\' = false := by decide
theorem isSpace_lbracket' : isSpace '[' = false := by decide
theorem isSpace_rbracket' : isSpace ']' = false := by decide

theorem escChar_space (c : Char) (h : isSpace c = true) : escChar c = [c] := by
  have h1 : c ≠ '[' := by intro hc; subst hc; rw [isSpace_lbracket'] at h; cases h
  have h2 : c ≠ ']' := by intro hc; subst hc; rw [isSpace_rbracket'] at h; cases h
  simp [escChar, h1, h2]

theorem escChar_all_space (c : Char) : (escChar c).all isSpace = isSpace c := by
  simp only [escChar]
  split
  · rename_i h; subst h; simp [isSpace_backslash, isSpace_lbracket']
  · split
    · rename_i h; subst h; simp [isSpace_backslash, isSpace_rbracket']
    · simp

theorem esc_all_space : ∀ (s : Str), (escBrackets s).all isSpace = s.all isSpace
  | [] => by simp [escBrackets_nil]
  | c :: cs => by
      have ih := esc_all_space cs
      rw [escBrackets_flatMap] at ih ⊢
      simp only [List.flatMap_cons, List.all_append, List.all_cons, escChar_all_space, ih]

/-- the first character of an escaped non-space character is no space -/
theorem escChar_head (c : Char) (h : isSpace c = false) : ∃ x xs, escChar c = x :: xs ∧ isSpace x = false := by
  simp only [escChar]
  split
  · exact ⟨'\\', ['['], rfl, isSpace_backslash⟩
  · split
    · exact ⟨'\\', [']'], rfl, isSpace_backslash⟩
    · exact ⟨c, [], rfl, h⟩

/-- … and so is its last character -/
theorem escChar_last (c : Char) (h : isSpace c = false) : ∃ xs x, escChar c = xs ++ [x] ∧ isSpace x = false := by
  simp only [escChar]
  split
  · exact ⟨['\\'], '[', rfl, isSpace_lbracket'⟩
  · split
    · exact ⟨['\\'], ']', rfl, isSpace_rbracket'⟩
    · exact ⟨[], c, rfl, h⟩

theorem lstrip_esc : ∀ (s : Str), lstripBy isSpace (escBrackets s) = escBrackets (lstripBy isSpace s)
  | [] => by simp [escBrackets_nil, lstripBy]
  | c :: cs => by
      have ih := lstrip_esc cs
      rw [escBrackets_flatMap] at ih ⊢
      simp only [List.flatMap_cons]
      by_cases hc : isSpace c = true
      · rw [escChar_space c hc]
        simp only [List.cons_append, List.nil_append, lstripBy, hc, ↓reduceIte]
        rw [ih, escBrackets_flatMap]
      · have hc' : isSpace c = false := by simpa using hc
        obtain ⟨x, xs, hx, hsp⟩ := escChar_head c hc'
        rw [hx]
        simp only [List.cons_append, lstripBy, hsp, hc', Bool.false_eq_true, ↓reduceIte]
        rw [escBrackets_flatMap, List.flatMap_cons, hx]
        rfl

theorem rstrip_esc : ∀ (s : Str), rstripBy isSpace (escBrackets s) = escBrackets (rstripBy isSpace s)
  | [] => by simp [escBrackets_nil, rstripBy, lstripBy]
  | c :: cs => by
      have ih := rstrip_esc cs
      have hall := esc_all_space cs
      rw [show c :: cs = [c] ++ cs from rfl, escBrackets_append, rstripBy_append, rstripBy_append, hall]
      by_cases hs : cs.all isSpace = true
      · simp only [hs, ↓reduceIte]
        by_cases hc : isSpace c = true
        · rw [rstripBy_all _ [c] (by simp [hc]), escBrackets_nil]
          exact rstripBy_all _ _ (by rw [esc_all_space]; simp [hc])
        · have hc' : isSpace c = false := by simpa using hc
          have h1 : rstripBy isSpace [c] = [c] := by simpa using rstripBy_last isSpace [] c hc'
          rw [h1]
          have hesc : escBrackets [c] = escChar c := by simp [escBrackets_flatMap]
          rw [hesc]
          obtain ⟨xs, x, hx, hsp⟩ := escChar_last c hc'
          rw [hx]
          exact rstripBy_last isSpace xs x hsp
      · simp only [hs, Bool.false_eq_true, ↓reduceIte]
        rw [ih, escBrackets_append]

theorem cleanTextB_of_subset (s t : Str) (h : cleanTextB s = true) (hsub : ∀ c ∈ t, c ∈ s) : cleanTextB t = true := by
  simp only [cleanTextB, List.all_eq_true] at *
  exact fun c hc => h c (hsub c hc)

/-! ### trimming the content -/

def allSpace (s : Str) : Bool := s.all isSpace

/-- remove the white space at the start of the content -/
def ltrimN : List MNode → List MNode
  | .text s :: ns => if allSpace s then ltrimN ns else .text (lstripBy isSpace s) :: ns
  | ns => ns

def allSpaceN : List MNode → Bool
  | [] => true
  | .text s :: ns => allSpace s && allSpaceN ns
  | _ => false

def rtrimLast : MNode → List MNode
  | .text s => if allSpace s then [] else [.text (rstripBy isSpace s)]
  | n => [n]

/-- remove the white space at the end of the content -/
def rtrimN : List MNode → List MNode
  | [] => []
  | n :: ns => if allSpaceN ns then rtrimLast n else n :: rtrimN ns

/-- the content without the white space at its two edges -/
def trimF (F : List MNode) : List MNode := rtrimN (ltrimN F)

theorem isSpace_percent : isSpace '%' = false := by decide
theorem isSpace_lbracket : isSpace '[' = false := by decide
theorem isSpace_rbracket : isSpace ']' = false := by decide
theorem isSpace_s : isSpace 's' = false := by decide

theorem fmtM_single (o : Nat) (n : MNode) : fmtM o [n] = n.fmt o := by simp [fmtM]

theorem lstrip_fmtM (o : Nat) : ∀ (F : List MNode), cleanB F = true →
    lstripBy isSpace (fmtM o F) = fmtM o (ltrimN F)
  | [], _ => by simp [fmtM, ltrimN, lstripBy]
  | .text s :: ns, h => by
      simp only [cleanB, MNode.cleanB, Bool.and_eq_true] at h
      simp only [fmtM, MNode.fmt, MNode.size, Nat.add_zero, ltrimN, allSpace]
      rw [lstripBy_append, esc_all_space]
      by_cases hs : s.all isSpace = true
      · simp only [hs, ↓reduceIte]; exact lstrip_fmtM o ns h.2
      · simp only [hs, Bool.false_eq_true, ↓reduceIte, fmtM, MNode.fmt, MNode.size, Nat.add_zero]
        rw [lstrip_esc]
  | .expr n i cm :: ns, _ => by
      simp only [fmtM, MNode.fmt, ltrimN, List.cons_append]
      exact lstripBy_head _ _ _ isSpace_percent
  | .elem sd t a ks :: ns, _ => by
      simp only [fmtM, MNode.fmt, ltrimN, List.cons_append]
      exact lstripBy_head _ _ _ isSpace_lbracket

theorem allSpace_fmtM (o : Nat) : ∀ (F : List MNode), cleanB F = true → (fmtM o F).all isSpace = allSpaceN F
  | [], _ => rfl
  | .text s :: ns, h => by
      simp only [cleanB, MNode.cleanB, Bool.and_eq_true] at h
      simp only [fmtM, MNode.fmt, MNode.size, Nat.add_zero, List.all_append, allSpaceN, allSpace, esc_all_space]
      rw [allSpace_fmtM o ns h.2]
  | .expr n i cm :: ns, _ => by
      simp [fmtM, MNode.fmt, allSpaceN, isSpace_percent]
  | .elem sd t a ks :: ns, _ => by
      simp [fmtM, MNode.fmt, allSpaceN, isSpace_lbracket]

theorem rstrip_node (o : Nat) : ∀ (n : MNode), n.cleanB = true → rstripBy isSpace (n.fmt o) = fmtM o (rtrimLast n)
  | .text s, h => by
      simp only [MNode.fmt, rtrimLast, allSpace]
      rw [rstrip_esc]
      by_cases hs : s.all isSpace = true
      · simp [hs, rstripBy_all _ s hs, fmtM, escBrackets_nil]
      · simp [hs, fmtM, MNode.fmt]
  | .expr n i cm, _ => by
      simp only [MNode.fmt, rtrimLast, fmtM_single]
      have : ('%' :: '(' :: n ++ [')', 's']) = ('%' :: '(' :: n ++ [')']) ++ ['s'] := by simp
      rw [this, rstripBy_last _ _ _ isSpace_s]
  | .elem sd t a ks, _ => by
      simp only [MNode.fmt, rtrimLast, fmtM_single]
      have : ('[' :: natStr o ++ [':'] ++ (fmtM (o + 1) ks ++ [']'])) = ('[' :: natStr o ++ [':'] ++ fmtM (o + 1) ks) ++ [']'] := by simp
      rw [this, rstripBy_last _ _ _ isSpace_rbracket]

theorem rtrimLast_size : ∀ (n : MNode), sizeM (rtrimLast n) = n.size
  | .text s => by simp only [rtrimLast]; split <;> simp [sizeM, MNode.size]
  | .expr _ _ _ => by simp [rtrimLast, sizeM, MNode.size]
  | .elem _ _ _ _ => by simp [rtrimLast, sizeM]

theorem rstrip_fmtM : ∀ (F : List MNode) (o : Nat), cleanB F = true →
    rstripBy isSpace (fmtM o F) = fmtM o (rtrimN F)
  | [], o, _ => by simp [fmtM, rtrimN, rstripBy, lstripBy]
  | n :: ns, o, h => by
      simp only [cleanB, Bool.and_eq_true] at h
      simp only [fmtM, rtrimN]
      rw [rstripBy_append, allSpace_fmtM _ ns h.2]
      by_cases hs : allSpaceN ns = true
      · simp only [hs, ↓reduceIte]; exact rstrip_node o n h.1
      · simp only [hs, Bool.false_eq_true, ↓reduceIte, fmtM]
        rw [rstrip_fmtM ns _ h.2]

/-! ### trimming keeps what matters -/

theorem cleanB_ltrimN : ∀ (F : List MNode), cleanB F = true → cleanB (ltrimN F) = true
  | [], _ => rfl
  | .text s :: ns, h => by
      simp only [cleanB, MNode.cleanB, Bool.and_eq_true] at h
      simp only [ltrimN]
      split
      · exact cleanB_ltrimN ns h.2
      · simp [cleanB, MNode.cleanB, cleanTextB_lstrip s h.1, h.2]
  | .expr _ _ _ :: _, h => h
  | .elem _ _ _ _ :: _, h => h

theorem cleanB_rtrimLast : ∀ (n : MNode), n.cleanB = true → cleanB (rtrimLast n) = true
  | .text s, h => by
      simp only [MNode.cleanB] at h
      simp only [rtrimLast]; split
      · rfl
      · simp [cleanB, MNode.cleanB, cleanTextB_rstrip s h]
  | .expr _ _ _, h => by simpa [rtrimLast, cleanB] using h
  | .elem _ _ _ _, h => by simpa [rtrimLast, cleanB] using h

theorem cleanB_rtrimN : ∀ (F : List MNode), cleanB F = true → cleanB (rtrimN F) = true
  | [], _ => rfl
  | n :: ns, h => by
      simp only [cleanB, Bool.and_eq_true] at h
      simp only [rtrimN]; split
      · exact cleanB_rtrimLast n h.1
      · simp [cleanB, h.1, cleanB_rtrimN ns h.2]

theorem cleanB_trimF (F : List MNode) (h : cleanB F = true) : cleanB (trimF F) = true :=
  cleanB_rtrimN _ (cleanB_ltrimN F h)

theorem subsOKM_ltrimN (i : Bool) : ∀ (F : List MNode), subsOKM i F = true → subsOKM i (ltrimN F) = true
  | [], _ => rfl
  | .text s :: ns, h => by
      simp only [subsOKM, MNode.subsOK, Bool.true_and] at h
      simp only [ltrimN]
      split
      · exact subsOKM_ltrimN i ns h
      · simp [subsOKM, MNode.subsOK, h]
  | .expr _ _ _ :: _, h => h
  | .elem _ _ _ _ :: _, h => h

theorem subsOKM_rtrimLast (i : Bool) : ∀ (n : MNode), n.subsOK i = true → subsOKM i (rtrimLast n) = true
  | .text s, _ => by
      simp only [rtrimLast]; split
      · rfl
      · simp [subsOKM, MNode.subsOK]
  | .expr _ _ _, h => by simp [rtrimLast, subsOKM, MNode.subsOK]
  | .elem _ _ _ _, h => by simpa [rtrimLast, subsOKM] using h

theorem subsOKM_rtrimN (i : Bool) : ∀ (F : List MNode), subsOKM i F = true → subsOKM i (rtrimN F) = true
  | [], _ => rfl
  | n :: ns, h => by
      simp only [subsOKM, Bool.and_eq_true] at h
      simp only [rtrimN]; split
      · exact subsOKM_rtrimLast i n h.1
      · simp [subsOKM, h.1, subsOKM_rtrimN i ns h.2]

theorem subsOKM_trimF (i : Bool) (F : List MNode) (h : subsOKM i F = true) : subsOKM i (trimF F) = true :=
  subsOKM_rtrimN i _ (subsOKM_ltrimN i F h)

/-- **format() strips the message**: the stripped message string of the content is the
    message string of the trimmed content -/
theorem strip_fmtM (F : List MNode) (o : Nat) (h : cleanB F = true) : strip (fmtM o F) = fmtM o (trimF F) := by
  unfold strip stripBy trimF
  rw [lstrip_fmtM o F h, rstrip_fmtM _ o (cleanB_ltrimN F h)]


theorem valsM_ltrimN : ∀ (F : List MNode), valsM (ltrimN F) = valsM F
  | [] => rfl
  | .text s :: ns => by
      simp only [ltrimN]; split
      · simp [valsM, MNode.vals, valsM_ltrimN ns]
      · simp [valsM, MNode.vals]
  | .expr _ _ _ :: _ => rfl
  | .elem _ _ _ _ :: _ => rfl

theorem valsM_allSpaceN : ∀ (F : List MNode), allSpaceN F = true → valsM F = []
  | [], _ => rfl
  | .text s :: ns, h => by
      simp only [allSpaceN, Bool.and_eq_true] at h
      simp [valsM, MNode.vals, valsM_allSpaceN ns h.2]
  | .expr _ _ _ :: _, h => by simp [allSpaceN] at h
  | .elem _ _ _ _ :: _, h => by simp [allSpaceN] at h

theorem valsM_rtrimLast : ∀ (n : MNode), valsM (rtrimLast n) = n.vals
  | .text s => by simp only [rtrimLast]; split <;> simp [valsM, MNode.vals]
  | .expr _ _ _ => by simp [rtrimLast, valsM]
  | .elem _ _ _ _ => by simp [rtrimLast, valsM]

theorem valsM_rtrimN : ∀ (F : List MNode), valsM (rtrimN F) = valsM F
  | [] => rfl
  | n :: ns => by
      simp only [rtrimN]; split
      · rename_i h; simp [valsM, valsM_rtrimLast, valsM_allSpaceN ns h]
      · simp [valsM, valsM_rtrimN ns]

theorem valsM_trimF (F : List MNode) : valsM (trimF F) = valsM F := by
  unfold trimF; rw [valsM_rtrimN, valsM_ltrimN]

theorem infoM_ltrimN (o : Nat) : ∀ (F : List MNode) (k : Nat), infoM o (ltrimN F) k = infoM o F k
  | [], _ => rfl
  | .text s :: ns, k => by
      simp only [ltrimN]; split
      · simp [infoM, MNode.info, MNode.size, infoM_ltrimN o ns k]
      · simp [infoM, MNode.info, MNode.size]
  | .expr _ _ _ :: _, _ => rfl
  | .elem _ _ _ _ :: _, _ => rfl

theorem infoM_allSpaceN (o : Nat) : ∀ (F : List MNode) (k : Nat), allSpaceN F = true → infoM o F k = none
  | [], _, _ => rfl
  | .text s :: ns, k, h => by
      simp only [allSpaceN, Bool.and_eq_true] at h
      simp [infoM, MNode.info, MNode.size, infoM_allSpaceN o ns k h.2]
  | .expr _ _ _ :: _, _, h => by simp [allSpaceN] at h
  | .elem _ _ _ _ :: _, _, h => by simp [allSpaceN] at h

theorem infoM_rtrimLast (o : Nat) : ∀ (n : MNode) (k : Nat), infoM o (rtrimLast n) k = n.info o k
  | .text s, k => by simp only [rtrimLast]; split <;> simp [infoM, MNode.info]
  | .expr _ _ _, k => by simp [rtrimLast, infoM, MNode.info]
  | .elem sd t a ks, k => by
      simp only [rtrimLast, infoM]
      cases (MNode.elem sd t a ks).info o k <;> rfl

theorem infoM_rtrimN : ∀ (F : List MNode) (o k : Nat), infoM o (rtrimN F) k = infoM o F k
  | [], _, _ => rfl
  | n :: ns, o, k => by
      simp only [rtrimN]; split
      · rename_i h
        rw [infoM_rtrimLast]
        simp only [infoM, infoM_allSpaceN _ ns k h]
        cases n.info o k <;> rfl
      · simp only [infoM, infoM_rtrimN ns]

theorem infoM_trimF (F : List MNode) (o k : Nat) : infoM o (trimF F) k = infoM o F k := by
  unfold trimF; rw [infoM_rtrimN, infoM_ltrimN]

theorem ltrimN_noTop : ∀ (F : List MNode), hasTopText F = false → ltrimN F = F
  | [], _ => rfl
  | .text _ :: _, h => by simp [hasTopText] at h
  | .expr _ _ _ :: _, _ => rfl
  | .elem _ _ _ _ :: _, _ => rfl

theorem allSpaceN_noTop : ∀ (F : List MNode), hasTopText F = false → F ≠ [] → allSpaceN F = false
  | [], _, h => absurd rfl h
  | .text _ :: _, h, _ => by simp [hasTopText] at h
  | .expr _ _ _ :: _, _, _ => rfl
  | .elem _ _ _ _ :: _, _, _ => rfl

theorem rtrimN_noTop : ∀ (F : List MNode), hasTopText F = false → rtrimN F = F
  | [], _ => rfl
  | .text _ :: _, h => by simp [hasTopText] at h
  | .expr _ _ _ :: _, h => by simp [hasTopText] at h
  | .elem sd t a ks :: ns, h => by
      have hn : hasTopText ns = false := by simpa [hasTopText] using h
      simp only [rtrimN]
      cases ns with
      | nil => simp [allSpaceN, rtrimLast]
      | cons m ms =>
        rw [allSpaceN_noTop (m :: ms) hn (by simp)]
        simp [rtrimN_noTop (m :: ms) hn]

theorem trimF_noTop (F : List MNode) (h : hasTopText F = false) : trimF F = F := by
  unfold trimF; rw [ltrimN_noTop F h, rtrimN_noTop F h]

/-- **translate ∘ format under the identity catalogue** (`translate_format_id`): the buffer
    of a message, asked to translate its own `format()`, returns the content without its
    edge white space, adjacent text merged. -/
theorem translate_format_selfB (F : List MNode) (extra : List Str)
    (hc : cleanB F = true) (hsg : segsOK (trimF F) = true)
    (hna : deepNoAdjM F = true) (hnd : (namesM F).Nodup) (hso : subsOKM false F = true) :
    ∃ b, mbAppendList (MB.new (namesM F ++ extra)) (flattenM F) = .ok b ∧
      b.translate b.format = .ok (coalesce (flattenM (trimF F))) := by
  have hc' := cleanB_trimF F hc
  have hb : Bound (valsM F).reverse (trimF F) := by
    have := bound_self F hnd
    intro p hp; rw [valsM_trimF] at hp; exact this p hp
  have hseg : ∀ s ∈ segStr (firstSeg (trimF F)) :: (xRestOf 1 (trimF F)).segs,
      yieldParts (valsM F).reverse s = .ok (Yv (valsM F).reverse s) := by
    intro s hs
    simp only [List.mem_cons] at hs
    rcases hs with rfl | hs
    · exact Yv_ok _ _ _ (Yv_firstSeg _ _ hc' hb).1
    · exact segs_xRest _ _ 1 hc' hb s hs
  have htop : (∀ s ∈ segStr (firstSeg (trimF F)) :: (xRestOf 1 (trimF F)).topSegs, s = []) ∨ hasTopText F = true := by
    cases h : hasTopText F with
    | true => exact Or.inr rfl
    | false =>
      left
      rw [trimF_noTop F h]
      have := topSegs_noTop F 1 h
      intro s hs
      simp only [List.mem_cons] at hs
      rcases hs with rfl | hs
      · exact this.1
      · exact this.2 s hs
  obtain ⟨b, hrun, hfmt, htr⟩ := translate_message F extra (Yv (valsM F).reverse)
    (segStr (firstSeg (trimF F))) (xRestOf 1 (trimF F)) hna
    (compat_xRest (infoM 1 F) (trimF F) 1 false (fun k x h => by rwa [infoM_trimF] at h) (subsOKM_trimF false F hso))
    (by rw [nums_xRest]; exact List.nodup_range')
    (by simp only [segsOK, Bool.and_eq_true] at hsg; exact hsg.1)
    (by simp only [segsOK, Bool.and_eq_true] at hsg; exact hsg.2) hseg htop
  refine ⟨b, hrun, ?_⟩
  rw [hfmt, strip_fmtM F 1 hc, ← fmt_xRest 1 (trimF F) hc', htr]
  have := coal_forest (valsM F).reverse (worldOf F) (trimF F) 1 [] [] hc' hb
    (fun k t a c kd h => by rw [infoM_trimF] at h; simp [worldOf, h]) rfl
  simp only [List.append_nil] at this
  rw [coalesce, this, (Yv_firstSeg _ _ hc' hb).2]
  simp [segEvents, coalGo, flushText]


/-! ### MsgDirective.__call__ under the identity catalogue -/

theorem dropLast_append_last {α} : ∀ (rest : List α) (last : α), rest.getLast? = some last →
    rest = rest.dropLast ++ [last]
  | [], _, hl => by simp at hl
  | [x], last, hl => by simp at hl; simp [hl]
  | x :: y :: ys, last, hl => by
      rw [List.getLast?_cons_cons] at hl
      have := dropLast_append_last (y :: ys) last hl
      simp only [List.dropLast_cons_cons, List.cons_append]
      rw [← this]

/-- attribute form: `<p i18n:msg="…">content</p>` -/
theorem msgGenerate_identity_attrB (t : QName) (a : TAttrs) (F : List MNode) (extra : List Str)
    (hc : cleanB F = true) (hsg : segsOK (trimF F) = true)
    (hna : deepNoAdjM F = true) (hnd : (namesM F).Nodup) (hso : subsOKM false F = true) :
    msgGenerate (namesM F ++ extra) (fun s => s) (.start t a :: (flattenM F ++ [.end_ t])) =
      .ok (.start t a :: (coalesce (flattenM (trimF F)) ++ [.end_ t])) := by
  obtain ⟨b, hrun, htr⟩ := translate_format_selfB F extra hc hsg hna hnd hso
  simp only [msgGenerate, msgBuffer, TEvent.isStart, ↓reduceIte, List.getLast?_append, List.getLast?_singleton,
    Option.some_or, List.dropLast_concat, TEvent.isEnd, bind, Except.bind, pure, Except.pure, hrun, htr]
  simp

theorem msgBuffer_plain (ps : List Str) (first : TEvent) (rest : List TEvent)
    (h1 : first.isStart = false) (h2 : ((first :: rest).getLast?.map TEvent.isEnd) = some false) :
    msgBuffer ps (first :: rest) = (mbAppendList (MB.new ps) (first :: rest)).map (fun b => (b, [], [])) := by
  simp only [msgBuffer, h1, Bool.false_eq_true, ↓reduceIte, mbAppendList, bind]
  cases hb0 : mbAppend (MB.new ps) first with
  | error e => simp [Except.bind, Except.map]
  | ok b0 =>
    simp only [Except.bind]
    cases hl : rest.getLast? with
    | none =>
      have : rest = [] := by simpa using hl
      subst this
      simp [mbAppendList, Except.map, pure, Except.pure]
    | some last =>
      have hrest : rest = rest.dropLast ++ [last] := dropLast_append_last rest last hl
      have hlast : last.isEnd = false := by
        have hne : rest ≠ [] := by intro h; subst h; simp at hl
        have : (first :: rest).getLast? = some last := by rw [List.getLast?_cons_of_ne_nil hne]; exact hl
        rw [this] at h2; simpa using h2
      simp only [hlast, Bool.false_eq_true, ↓reduceIte]
      conv => rhs; rw [hrest, mbAppendList_append]
      cases mbAppendList b0 rest.dropLast with
      | error e => simp [Except.bind, Except.map]
      | ok b1 =>
        simp only [Except.bind, mbAppendList_single]
        cases mbAppend b1 last <;> simp [Except.map, pure, Except.pure]

def MNode.isElem : MNode → Bool
  | .elem _ _ _ _ => true
  | _ => false

theorem flatten_head_not_start : ∀ (n : MNode), n.isElem = false → ∃ e, n.flatten = [e] ∧ e.isStart = false ∧ e.isEnd = false
  | .text s, _ => ⟨.text s, rfl, rfl, rfl⟩
  | .expr _ i cm, _ => ⟨.expr i cm, rfl, rfl, rfl⟩
  | .elem _ _ _ _, h => by simp [MNode.isElem] at h

/-- element form: `<i18n:msg params="…">content</i18n:msg>`, the content neither starting nor
    ending with an element (else: finding C19-msg-element-first-child) -/
theorem msgGenerate_identity_elemB (n : MNode) (mid : List MNode) (l : MNode) (extra : List Str)
    (hn : n.isElem = false) (hl : l.isElem = false)
    (hc : cleanB (n :: (mid ++ [l])) = true) (hsg : segsOK (trimF (n :: (mid ++ [l]))) = true) (hna : deepNoAdjM (n :: (mid ++ [l])) = true)
    (hnd : (namesM (n :: (mid ++ [l]))).Nodup) (hso : subsOKM false (n :: (mid ++ [l])) = true) :
    msgGenerate (namesM (n :: (mid ++ [l])) ++ extra) (fun s => s) (flattenM (n :: (mid ++ [l]))) =
      .ok (coalesce (flattenM (trimF (n :: (mid ++ [l]))))) := by
  obtain ⟨b, hrun, htr⟩ := translate_format_selfB (n :: (mid ++ [l])) extra hc hsg hna hnd hso
  obtain ⟨e1, he1, hs1, _⟩ := flatten_head_not_start n hn
  obtain ⟨e2, he2, _, hend2⟩ := flatten_head_not_start l hl
  have hflat : flattenM (n :: (mid ++ [l])) = e1 :: (flattenM mid ++ [e2]) := by
    have : ∀ (xs ys : List MNode), flattenM (xs ++ ys) = flattenM xs ++ flattenM ys := by
      intro xs ys; induction xs with
      | nil => simp [flattenM]
      | cons x xs ih => simp [flattenM, ih, List.append_assoc]
    simp [flattenM, he1, this, he2]
  rw [hflat] at hrun ⊢
  have hb := msgBuffer_plain (namesM (n :: (mid ++ [l])) ++ extra) e1 (flattenM mid ++ [e2]) hs1
    (by simp [List.getLast?_cons_of_ne_nil, hend2])
  simp only [msgGenerate, hb, hrun, Except.map, bind, Except.bind, htr, pure, Except.pure]
  simp

/-! ### the bracket-free case: the hypotheses of the first version of the identity theorems -/

/-- text the message format does not touch: no bracket, no backslash, no percent sign -/
def cleanText (s : Str) : Bool := s.all fun c => c != '[' && c != ']' && c != '\\' && c != '%'

mutual
  /-- clean text without brackets, well-formed parameter names -/
  def MNode.clean : MNode → Bool
    | .text s => cleanText s
    | .expr n _ _ => wordName n
    | .elem _ _ _ ks => cleanM ks
  def cleanM : List MNode → Bool
    | [] => true
    | n :: ns => n.clean && cleanM ns
end

theorem cleanTextB_of_cleanText (s : Str) (h : cleanText s = true) : cleanTextB s = true := by
  simp only [cleanText, cleanTextB, List.all_eq_true, Bool.and_eq_true, bne_iff_ne, ne_eq] at *
  exact fun c hc => ⟨(h c hc).1.2, (h c hc).2⟩

mutual
  theorem MNode.cleanB_of_clean : ∀ (n : MNode), n.clean = true → n.cleanB = true
    | .text s, h => cleanTextB_of_cleanText s h
    | .expr _ _ _, h => h
    | .elem _ _ _ ks, h => cleanB_of_cleanM ks h
  theorem cleanB_of_cleanM : ∀ (F : List MNode), cleanM F = true → cleanB F = true
    | [], _ => rfl
    | n :: ns, h => by
        simp only [cleanM, Bool.and_eq_true] at h
        simp only [cleanB, Bool.and_eq_true]
        exact ⟨MNode.cleanB_of_clean n h.1, cleanB_of_cleanM ns h.2⟩
end

theorem escBrackets_clean (s : Str) (h : cleanText s = true) : escBrackets s = s := by
  have h1 : ∀ c ∈ s, c ≠ '[' := by
    intro c hc
    simp only [cleanText, List.all_eq_true, Bool.and_eq_true, bne_iff_ne, ne_eq] at h
    exact (h c hc).1.1.1
  have h2 : ∀ c ∈ s, c ≠ ']' := by
    intro c hc
    simp only [cleanText, List.all_eq_true, Bool.and_eq_true, bne_iff_ne, ne_eq] at h
    exact (h c hc).1.1.2
  unfold escBrackets
  rw [replace_no_occ '[' [] _ s h1, replace_no_occ ']' [] _ s h2]

mutual
  def XNode.bare : XNode → Bool
    | .ph _ s0 r => bareSeg s0 && r.bare
  def XRest.bare : XRest → Bool
    | .nil => true
    | .cons x s r => x.bare && bareSeg s && r.bare
end

mutual
  theorem XNode.plain_of_bare : ∀ (x : XNode), x.bare = true → x.plain = true
    | .ph _ s0 r, h => by
        simp only [XNode.bare, Bool.and_eq_true] at h
        simp only [XNode.plain, Bool.and_eq_true]
        exact ⟨plainSeg_of_bare s0 h.1, XRest.plain_of_bare r h.2⟩
  theorem XRest.plain_of_bare : ∀ (r : XRest), r.bare = true → r.plain = true
    | .nil, _ => rfl
    | .cons x s r, h => by
        simp only [XRest.bare, Bool.and_eq_true] at h
        simp only [XRest.plain, Bool.and_eq_true]
        exact ⟨⟨XNode.plain_of_bare x h.1.1, plainSeg_of_bare s h.1.2⟩, XRest.plain_of_bare r h.2⟩
end

def Piece.okOld : Piece → Bool
  | .text s => cleanText s
  | .expr n _ _ => wordName n

theorem bareSeg_append (a b : Str) : bareSeg (a ++ b) = (bareSeg a && bareSeg b) := by
  simp [bareSeg, List.all_append]

theorem bareSeg_clean (s : Str) (h : cleanText s = true) : bareSeg s = true := by
  simp only [cleanText, bareSeg, List.all_eq_true, Bool.and_eq_true, bne_iff_ne, ne_eq] at *
  exact fun c hc => (h c hc).1

theorem bareSeg_param (n : Str) (h : wordName n = true) : bareSeg (paramStr n) = true := by
  simp only [wordName, Bool.and_eq_true, List.all_eq_true] at h
  have hn : bareSeg n = true := by
    simp only [bareSeg, List.all_eq_true, Bool.and_eq_true, bne_iff_ne, ne_eq]
    intro c hc
    have hw := h.2 c hc
    refine ⟨⟨?_, ?_⟩, ?_⟩ <;> intro he <;> subst he
    · rw [isWord_lbracket] at hw; cases hw
    · rw [isWord_rbracket] at hw; cases hw
    · rw [isWord_backslash] at hw; cases hw
  have : paramStr n = ['%', '('] ++ (n ++ [')', 's']) := by simp [paramStr]
  rw [this, bareSeg_append, bareSeg_append, hn]
  decide

theorem Piece.okOld_firstSeg : ∀ (ns : List MNode), cleanM ns = true → (firstSeg ns).all Piece.okOld = true
  | [], _ => rfl
  | .text s :: ns, h => by
      simp only [cleanM, MNode.clean, Bool.and_eq_true] at h
      simp [firstSeg, Piece.okOld, h.1, Piece.okOld_firstSeg ns h.2]
  | .expr n i cm :: ns, h => by
      simp only [cleanM, MNode.clean, Bool.and_eq_true] at h
      simp [firstSeg, Piece.okOld, h.1, Piece.okOld_firstSeg ns h.2]
  | .elem _ _ _ _ :: _, _ => rfl

theorem bareSeg_segStr : ∀ (ps : List Piece), ps.all Piece.okOld = true → bareSeg (segStr ps) = true
  | [], _ => rfl
  | .text s :: ps, h => by
      simp only [List.all_cons, Bool.and_eq_true, Piece.okOld] at h
      simp [segStr, Piece.str, bareSeg_append, escBrackets_clean s h.1, bareSeg_clean s h.1, bareSeg_segStr ps h.2]
  | .expr n i cm :: ps, h => by
      simp only [List.all_cons, Bool.and_eq_true, Piece.okOld] at h
      simp [segStr, Piece.str, bareSeg_append, bareSeg_param n h.1, bareSeg_segStr ps h.2]

mutual
  theorem bare_xNode (o : Nat) : ∀ (n : MNode), n.clean = true → ∀ x, xNodeOf o n = some x → x.bare = true
    | .elem sd t a ks, h, x, hx => by
        simp only [xNodeOf, Option.some.injEq] at hx
        subst hx
        have hk : cleanM ks = true := by simpa [MNode.clean] using h
        simp [XNode.bare, bareSeg_segStr _ (Piece.okOld_firstSeg ks hk), bare_xRest (o + 1) ks hk]
    | .text _, _, x, hx => by simp [xNodeOf] at hx
    | .expr _ _ _, _, x, hx => by simp [xNodeOf] at hx
  theorem bare_xRest (o : Nat) : ∀ (ns : List MNode), cleanM ns = true → (xRestOf o ns).bare = true
    | [], _ => by simp [xRestOf, XRest.bare]
    | n :: ns, h => by
        simp only [cleanM, Bool.and_eq_true] at h
        simp only [xRestOf]
        cases hx : xNodeOf o n with
        | none => simpa [hx] using bare_xRest (o + n.size) ns h.2
        | some x =>
          simp [hx, XRest.bare, bare_xNode o n h.1 x hx, bareSeg_segStr _ (Piece.okOld_firstSeg ns h.2),
            bare_xRest (o + n.size) ns h.2]
end

theorem segsOK_of_cleanM (F : List MNode) (h : cleanM F = true) : segsOK F = true := by
  simp only [segsOK, Bool.and_eq_true]
  exact ⟨plainSeg_of_bare _ (bareSeg_segStr _ (Piece.okOld_firstSeg F h)), XRest.plain_of_bare _ (bare_xRest 1 F h)⟩

theorem cleanText_lstrip (s : Str) (h : cleanText s = true) : cleanText (lstripBy isSpace s) = true := by
  simp only [cleanText, List.all_eq_true] at *
  exact fun c hc => h c (lstripBy_suffix _ s c hc)

theorem cleanText_rstrip (s : Str) (h : cleanText s = true) : cleanText (rstripBy isSpace s) = true := by
  simp only [cleanText, List.all_eq_true] at *
  exact fun c hc => h c (rstripBy_mem _ s c hc)

theorem cleanM_ltrimN : ∀ (F : List MNode), cleanM F = true → cleanM (ltrimN F) = true
  | [], _ => rfl
  | .text s :: ns, h => by
      simp only [cleanM, MNode.clean, Bool.and_eq_true] at h
      simp only [ltrimN]
      split
      · exact cleanM_ltrimN ns h.2
      · simp [cleanM, MNode.clean, cleanText_lstrip s h.1, h.2]
  | .expr _ _ _ :: _, h => h
  | .elem _ _ _ _ :: _, h => h

theorem cleanM_rtrimLast : ∀ (n : MNode), n.clean = true → cleanM (rtrimLast n) = true
  | .text s, h => by
      simp only [MNode.clean] at h
      simp only [rtrimLast]; split
      · rfl
      · simp [cleanM, MNode.clean, cleanText_rstrip s h]
  | .expr _ _ _, h => by simpa [rtrimLast, cleanM] using h
  | .elem _ _ _ _, h => by simpa [rtrimLast, cleanM] using h

theorem cleanM_rtrimN : ∀ (F : List MNode), cleanM F = true → cleanM (rtrimN F) = true
  | [], _ => rfl
  | n :: ns, h => by
      simp only [cleanM, Bool.and_eq_true] at h
      simp only [rtrimN]; split
      · exact cleanM_rtrimLast n h.1
      · simp [cleanM, h.1, cleanM_rtrimN ns h.2]

theorem cleanM_trimF (F : List MNode) (h : cleanM F = true) : cleanM (trimF F) = true :=
  cleanM_rtrimN _ (cleanM_ltrimN F h)

/-- **translate ∘ format under the identity catalogue**, bracket-free text -/
theorem translate_format_self (F : List MNode) (extra : List Str)
    (hc : cleanM F = true) (hna : deepNoAdjM F = true) (hnd : (namesM F).Nodup) (hso : subsOKM false F = true) :
    ∃ b, mbAppendList (MB.new (namesM F ++ extra)) (flattenM F) = .ok b ∧
      b.translate b.format = .ok (coalesce (flattenM (trimF F))) :=
  translate_format_selfB F extra (cleanB_of_cleanM F hc) (segsOK_of_cleanM _ (cleanM_trimF F hc)) hna hnd hso

theorem msgGenerate_identity_attr (t : QName) (a : TAttrs) (F : List MNode) (extra : List Str)
    (hc : cleanM F = true) (hna : deepNoAdjM F = true) (hnd : (namesM F).Nodup) (hso : subsOKM false F = true) :
    msgGenerate (namesM F ++ extra) (fun s => s) (.start t a :: (flattenM F ++ [.end_ t])) =
      .ok (.start t a :: (coalesce (flattenM (trimF F)) ++ [.end_ t])) :=
  msgGenerate_identity_attrB t a F extra (cleanB_of_cleanM F hc) (segsOK_of_cleanM _ (cleanM_trimF F hc)) hna hnd hso

theorem msgGenerate_identity_elem (n : MNode) (mid : List MNode) (l : MNode) (extra : List Str)
    (hn : n.isElem = false) (hl : l.isElem = false)
    (hc : cleanM (n :: (mid ++ [l])) = true) (hna : deepNoAdjM (n :: (mid ++ [l])) = true)
    (hnd : (namesM (n :: (mid ++ [l]))).Nodup) (hso : subsOKM false (n :: (mid ++ [l])) = true) :
    msgGenerate (namesM (n :: (mid ++ [l])) ++ extra) (fun s => s) (flattenM (n :: (mid ++ [l]))) =
      .ok (coalesce (flattenM (trimF (n :: (mid ++ [l]))))) :=
  msgGenerate_identity_elemB n mid l extra hn hl (cleanB_of_cleanM _ hc) (segsOK_of_cleanM _ (cleanM_trimF _ hc)) hna hnd hso

end Genshi.I18n
